/-
C16 (part P) — ℚ(√3) is a commutative ring, the pole has norm one, and the recursions of the
cubic B-spline prefilter satisfy the symmetric-filter invariant.
-/
import NipyVerif.Model.C16S
import Mathlib.Algebra.BigOperators.Intervals
import Mathlib.Algebra.BigOperators.Ring.Finset
import Mathlib.Algebra.Ring.Defs
import Mathlib.Tactic.Ring
import Mathlib.Tactic.Linarith
import Mathlib.Tactic.LinearCombination
import Mathlib.Tactic.FieldSimp

namespace NipyVerif.C16

open Finset

namespace Q3

@[ext] theorem ext' {x y : Q3} (ha : x.a = y.a) (hb : x.b = y.b) : x = y := by
  cases x; cases y; simp_all

@[simp] theorem zero_a : (0 : Q3).a = 0 := rfl
@[simp] theorem zero_b : (0 : Q3).b = 0 := rfl
@[simp] theorem one_a : (1 : Q3).a = 1 := rfl
@[simp] theorem one_b : (1 : Q3).b = 0 := rfl
@[simp] theorem add_a (x y : Q3) : (x + y).a = x.a + y.a := rfl
@[simp] theorem add_b (x y : Q3) : (x + y).b = x.b + y.b := rfl
@[simp] theorem sub_a (x y : Q3) : (x - y).a = x.a - y.a := rfl
@[simp] theorem sub_b (x y : Q3) : (x - y).b = x.b - y.b := rfl
@[simp] theorem neg_a (x : Q3) : (-x).a = -x.a := rfl
@[simp] theorem neg_b (x : Q3) : (-x).b = -x.b := rfl
@[simp] theorem mul_a (x y : Q3) : (x * y).a = x.a * y.a + 3 * (x.b * y.b) := rfl
@[simp] theorem mul_b (x y : Q3) : (x * y).b = x.a * y.b + x.b * y.a := rfl

instance : CommRing Q3 where
  add_assoc x y z := by ext <;> simp <;> ring
  zero_add x := by ext <;> simp
  add_zero x := by ext <;> simp
  add_comm x y := by ext <;> simp <;> ring
  neg_add_cancel x := by ext <;> simp
  sub_eq_add_neg x y := by ext <;> simp <;> ring
  mul_assoc x y z := by ext <;> simp <;> ring
  one_mul x := by ext <;> simp
  mul_one x := by ext <;> simp
  left_distrib x y z := by ext <;> simp <;> ring
  right_distrib x y z := by ext <;> simp <;> ring
  mul_comm x y := by ext <;> simp <;> ring
  zero_mul x := by ext <;> simp
  mul_zero x := by ext <;> simp
  nsmul := nsmulRec
  zsmul := zsmulRec

/-- the field norm `a² − 3b²` -/
def norm (x : Q3) : Rat := x.a * x.a - 3 * (x.b * x.b)

theorem norm_mul (x y : Q3) : norm (x * y) = norm x * norm y := by
  unfold norm; simp; ring

theorem mul_inv_cancel' (y : Q3) (h : norm y ≠ 0) : y * y⁻¹ = 1 := by
  have h' : y.a * y.a - 3 * (y.b * y.b) ≠ 0 := h
  show (⟨_, _⟩ : Q3) = 1
  ext
  · show y.a * (y.a / (y.a * y.a - 3 * (y.b * y.b))) + 3 * (y.b * (-y.b / (y.a * y.a - 3 * (y.b * y.b)))) = 1
    have : y.a * (y.a / (y.a * y.a - 3 * (y.b * y.b))) + 3 * (y.b * (-y.b / (y.a * y.a - 3 * (y.b * y.b))))
        = (y.a * y.a - 3 * (y.b * y.b)) / (y.a * y.a - 3 * (y.b * y.b)) := by ring
    rw [this, div_self h']
  · show y.a * (-y.b / (y.a * y.a - 3 * (y.b * y.b))) + y.b * (y.a / (y.a * y.a - 3 * (y.b * y.b))) = 0
    ring

/-- exact division -/
theorem div_mul_cancel' (x y : Q3) (h : norm y ≠ 0) : x / y * y = x := by
  show x * y⁻¹ * y = x
  rw [mul_assoc, mul_comm y⁻¹ y, mul_inv_cancel' y h, mul_one]

/-- the pole and its companion constant: `z² + 4z + 1 = 0`, `cz (z² − 1) = z` -/
theorem z1_root : z1 * z1 + four * z1 + 1 = 0 := by decide +kernel
theorem cz1_spec : cz1 * (z1 * z1 - 1) = z1 := by decide +kernel
theorem two_eq : two = 1 + 1 := by decide +kernel
theorem four_eq : four = 1 + 1 + 1 + 1 := by decide +kernel
theorem six_eq : six = 1 + 1 + 1 + 1 + 1 + 1 := by decide +kernel

/-- powers of the pole: norm one, rational part of absolute value ≥ 2 (so `z^m ≠ 1`) -/
theorem z1_pow_shape (m : Nat) (hm : 1 ≤ m) :
    norm (z1 ^ m) = 1 ∧ (((z1 ^ m).a ≥ 2 ∧ (z1 ^ m).b ≤ -1) ∨ ((z1 ^ m).a ≤ -2 ∧ (z1 ^ m).b ≥ 1)) := by
  induction m with
  | zero => omega
  | succ m ih =>
      rcases Nat.eq_zero_or_pos m with h0 | hpos
      · subst h0
        simp only [zero_add, pow_one]
        refine ⟨by decide +kernel, Or.inr ⟨by decide +kernel, by decide +kernel⟩⟩
      · obtain ⟨hn, hs⟩ := ih hpos
        rw [pow_succ]
        refine ⟨by rw [norm_mul, hn]; decide +kernel, ?_⟩
        have ea : (z1 ^ m * z1).a = -2 * (z1 ^ m).a + 3 * (z1 ^ m).b := by
          simp [z1]; ring
        have eb : (z1 ^ m * z1).b = (z1 ^ m).a - 2 * (z1 ^ m).b := by
          simp [z1]; ring
        rw [ea, eb]
        rcases hs with ⟨h1, h2⟩ | ⟨h1, h2⟩
        · right; constructor <;> linarith
        · left; constructor <;> linarith

theorem norm_one_sub_z1_pow (m : Nat) (hm : 1 ≤ m) : norm (1 - z1 ^ m) ≠ 0 := by
  obtain ⟨hn, hs⟩ := z1_pow_shape m hm
  have e : norm (1 - z1 ^ m) = 1 - 2 * (z1 ^ m).a + norm (z1 ^ m) := by
    unfold norm; simp; ring
  rw [e, hn]
  rcases hs with ⟨h1, _⟩ | ⟨h1, _⟩ <;> intro h <;> linarith

end Q3

/-! ### the recursions, for any commutative-ring-valued pole `z` with `z² + 4z + 1 = 0` -/

/-- `Σ_{i<m} z^i f(i)` -/
def psum (z : Q3) (f : Nat → Q3) (m : Nat) : Q3 := ∑ i ∈ range m, z ^ i * f i

theorem psum_succ (z : Q3) (f : Nat → Q3) (m : Nat) : psum z f (m + 1) = psum z f m + z ^ m * f m := by
  unfold psum; rw [Finset.sum_range_succ]

/-- the accumulation loops compute the power sum of the mirror-extended signal -/
theorem initLoop_eq (z : Q3) (s : Array Q3) (N m : Nat) :
    initLoop z s N m = (psum z (fun k => sAt s (mirrorIdx N k)) (m + 1), z ^ m) := by
  induction m with
  | zero =>
      have : (if 0 < N then 0 else 2 * N - 2) = 0 := by split_ifs <;> omega
      simp [initLoop, psum, mirrorIdx, this]
  | succ m ih =>
      simp only [initLoop]
      rw [ih, psum_succ z _ (m + 1)]
      simp only
      ext <;> simp [pow_succ] <;> ring

/-- backward filter from the far end: `dd j = d(N−1−j)`, `d(N−1) = c⁺(N−1)`, `d(k) = s(k) + z d(k+1)` -/
def dd (z : Q3) (s : Array Q3) (c0 : Q3) (N : Nat) : Nat → Q3
  | 0 => cplus z s c0 (N - 1)
  | j + 1 => sAt s (N - 2 - j) + z * dd z s c0 N j

/-- the symmetric-filter invariant: `c(k) = cz (c⁺(k) + d(k) − s(k))` -/
theorem cminus_invariant (z cz : Q3) (hcz : cz * (z * z - 1) = z) (s : Array Q3) (c0 : Q3) (N j : Nat)
    (hj : j + 1 ≤ N) :
    cminus z cz s c0 N j = cz * (cplus z s c0 (N - 1 - j) + dd z s c0 N j - sAt s (N - 1 - j)) := by
  induction j with
  | zero =>
      simp only [cminus, dd, Nat.sub_zero, Q3.two_eq]
      ring
  | succ j ih =>
      have ih' := ih (by omega)
      have e1 : N - 1 - j = (N - 2 - j) + 1 := by omega
      have e2 : N - 1 - (j + 1) = N - 2 - j := by omega
      simp only [cminus, dd]
      rw [ih', e2]
      rw [e1]
      simp only [cplus]
      linear_combination (cplus z s c0 (N - 2 - j)) * hcz

/-- unrolling the backward filter `m` steps from the near end -/
theorem dd_unroll (z : Q3) (s : Array Q3) (c0 : Q3) (N m : Nat) (hm : m + 1 ≤ N) :
    dd z s c0 N (N - 1) = psum z (fun i => sAt s i) m + z ^ m * dd z s c0 N (N - 1 - m) := by
  induction m with
  | zero => simp [psum]
  | succ m ih =>
      rw [ih (by omega), psum_succ]
      have e : N - 1 - m = (N - 1 - (m + 1)) + 1 := by omega
      have e2 : N - 2 - (N - 1 - (m + 1)) = m := by omega
      rw [e]
      simp only [dd]
      rw [e2, pow_succ]
      ring

/-- unrolling the causal filter `m` steps down from the far end -/
theorem cplus_unroll (z : Q3) (s : Array Q3) (c0 : Q3) (N m : Nat) (hm : m + 1 ≤ N) :
    cplus z s c0 (N - 1) = psum z (fun i => sAt s (N - 1 - i)) m + z ^ m * cplus z s c0 (N - 1 - m) := by
  induction m with
  | zero => simp [psum]
  | succ m ih =>
      rw [ih (by omega), psum_succ]
      have e : N - 1 - m = (N - 1 - (m + 1)) + 1 := by omega
      rw [e]
      simp only [cplus]
      have e3 : N - 1 - (m + 1) + 1 = N - 1 - m := by omega
      rw [e3, pow_succ]
      ring

/-- the power sum of the mirror-extended signal over one period splits at the far end -/
theorem psum_mirror_split (z : Q3) (s : Array Q3) (N : Nat) (hN : 2 ≤ N) :
    psum z (fun k => sAt s (mirrorIdx N k)) (2 * N - 2) =
      psum z (fun i => sAt s i) (N - 1) + z ^ (N - 1) * psum z (fun i => sAt s (N - 1 - i)) (N - 1) := by
  have e : 2 * N - 2 = (N - 1) + (N - 1) := by omega
  unfold psum
  rw [e, Finset.sum_range_add, Finset.mul_sum]
  congr 1
  · apply Finset.sum_congr rfl
    intro i hi
    have := Finset.mem_range.mp hi
    simp only [mirrorIdx]
    rw [if_pos (by omega)]
  · apply Finset.sum_congr rfl
    intro i hi
    have := Finset.mem_range.mp hi
    simp only [mirrorIdx]
    rw [pow_add]
    have e2 : (if N - 1 + i < N then N - 1 + i else 2 * N - 2 - (N - 1 + i)) = N - 1 - i := by
      split_ifs <;> omega
    rw [e2]
    ring

end NipyVerif.C16
