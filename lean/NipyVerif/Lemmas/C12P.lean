/-
Helper lemmas for C12 part P: upward propagation on a forest (`propagate_upward_and`,
`propagate_upward`), on total functions first and then on the arrays the model uses.
-/
import NipyVerif.Props.C12G

namespace NipyVerif.C12

/-! ### `lmax` dominates -/

theorem foldl_maxInt_ge_init (l : List Int) (a : Int) : a ≤ l.foldl max a := by
  induction l generalizing a with
  | nil => exact le_refl _
  | cons x t ih => exact le_trans (le_max_left a x) (ih _)

theorem foldl_maxInt_ge_mem (l : List Int) (a : Int) : ∀ x ∈ l, x ≤ l.foldl max a := by
  induction l generalizing a with
  | nil => intro x hx; cases hx
  | cons y t ih =>
    intro x hx
    rw [List.foldl_cons]
    rcases List.mem_cons.1 hx with rfl | hx
    · exact le_trans (le_max_right a x) (foldl_maxInt_ge_init t _)
    · exact ih _ x hx

theorem foldl_maxInt_mem (l : List Int) (a : Int) : l.foldl max a = a ∨ l.foldl max a ∈ l := by
  induction l generalizing a with
  | nil => exact Or.inl rfl
  | cons y t ih =>
    rw [List.foldl_cons]
    rcases ih (max a y) with h | h
    · rw [h]
      rcases le_total a y with h' | h'
      · right; rw [max_eq_right h']; exact List.mem_cons_self
      · left; exact max_eq_left h'
    · right; exact List.mem_cons_of_mem _ h

/-- `lmax` of a non-empty list is one of its entries -/
theorem lmax_mem (d : List Int) (hne : d ≠ []) : lmax d ∈ d := by
  unfold lmax
  rcases foldl_maxInt_mem d (d.getD 0 0) with h | h
  · rw [h]
    cases d with
    | nil => exact absurd rfl hne
    | cons a t => simp
  · exact h

theorem lmax_ge (d : List Int) : ∀ x ∈ d, x ≤ lmax d := foldl_maxInt_ge_mem d _

/-- on a forest the number of passes `tree_depth()` grants exceeds every height -/
theorem height_lt_treeDepth (V : Nat) (p : Nat → Nat) (hr : InRange V p) (hc : check V p = true)
    (v : Nat) (hv : v < V) : height V p v < (lmax (depthFromLeaves V p) + 1).toNat := by
  have h := lmax_ge (depthFromLeaves V p) (height V p v : Int) (by
    rw [depth_from_leaves_is_height V p hr hc]
    exact List.mem_map.2 ⟨v, List.mem_range.2 hv, rfl⟩)
  omega

/-! ### chains -/

/-- a chain of proper parent steps into `v` is at most as long as `v` is high -/
theorem proper_chain_le_height (V : Nat) (p : Nat → Nat) (hr : InRange V p) (hc : check V p = true)
    (u : Nat) (hu : u < V) (k : Nat) (hprop : ∀ j < k, p^[j + 1] u ≠ p^[j] u) :
    k ≤ height V p (p^[k] u) := by
  have hin : ∀ j, p^[j] u < V := by
    intro j; induction j with
    | zero => exact hu
    | succ j ih => rw [Function.iterate_succ_apply']; exact hr _ ih
  induction k with
  | zero => exact Nat.zero_le _
  | succ k ih =>
    have h1 := ih (fun j hj => hprop j (by omega))
    have h2 := height_parent V p hr hc (p^[k] u) (hin k) (by
      rw [← Function.iterate_succ_apply' p k u]; exact hprop k (Nat.lt_succ_self _))
    rw [Function.iterate_succ_apply']
    omega

/-- the first time the chain from `u` is at `v`: all earlier steps are proper -/
theorem first_hit (p : Nat → Nat) (u v k : Nat) (h : p^[k] u = v) :
    ∃ m ≤ k, p^[m] u = v ∧ ∀ j < m, p^[j + 1] u ≠ p^[j] u := by
  classical
  have hex : ∃ k, p^[k] u = v := ⟨k, h⟩
  refine ⟨Nat.find hex, Nat.find_min' hex h, Nat.find_spec hex, ?_⟩
  intro j hj hfix
  have hstay : ∀ n, p^[j + n] u = p^[j] u := by
    intro n; induction n with
    | zero => rfl
    | succ n ih =>
      rw [← Nat.add_assoc, Function.iterate_succ_apply', ih, ← Function.iterate_succ_apply' p j u, hfix]
  have : p^[Nat.find hex] u = p^[j] u := by
    have := hstay (Nat.find hex - j)
    rwa [Nat.add_sub_cancel' (Nat.le_of_lt hj)] at this
  exact Nat.find_min hex hj (by rw [← this]; exact Nat.find_spec hex)

/-! ### `propagate_upward_and` on total flags -/

/-- one inner step: a false node makes its parent false -/
def andStep (p : Nat → Nat) (b : Nat → Bool) (i : Nat) : Nat → Bool :=
  if b i == false then upd b (p i) false else b

def andPass (V : Nat) (p : Nat → Nat) (b : Nat → Bool) : Nat → Bool :=
  (List.range V).foldl (andStep p) b

theorem andStep_false (p : Nat → Nat) (b : Nat → Bool) (i v : Nat) (h : b v = false) :
    andStep p b i v = false := by
  unfold andStep upd
  split
  · show (if v = p i then false else b v) = false
    split
    · rfl
    · exact h
  · exact h

theorem foldl_andStep_false (p : Nat → Nat) (l : List Nat) (b : Nat → Bool) (v : Nat) (h : b v = false) :
    (l.foldl (andStep p) b) v = false := by
  induction l generalizing b with
  | nil => exact h
  | cons a t ih => exact ih _ (andStep_false p b a v h)

theorem foldl_andStep_parent (p : Nat → Nat) (l : List Nat) (b : Nat → Bool) (i : Nat) (hi : i ∈ l)
    (h : b i = false) : (l.foldl (andStep p) b) (p i) = false := by
  induction l generalizing b with
  | nil => cases hi
  | cons a t ih =>
    rw [List.foldl_cons]
    rcases List.mem_cons.1 hi with rfl | hi
    · apply foldl_andStep_false
      unfold andStep upd
      simp [h]
    · exact ih _ hi (andStep_false p b a i h)

/-- a leaf with a false property lies at or below `v` -/
def FalseLeafBelow (V : Nat) (p : Nat → Nat) (prop : Nat → Bool) (v : Nat) : Prop :=
  ∃ u < V, isLeaf V p u = true ∧ prop u = false ∧ ∃ k, p^[k] u = v

theorem andStep_sound (V : Nat) (p : Nat → Nat) (prop : Nat → Bool) (b : Nat → Bool) (i : Nat)
    (hs : ∀ v, b v = false → FalseLeafBelow V p prop v) :
    ∀ v, andStep p b i v = false → FalseLeafBelow V p prop v := by
  intro v hv
  unfold andStep upd at hv
  split at hv
  · rename_i hbi
    have hbi' : b i = false := by simpa using hbi
    by_cases hvp : v = p i
    · obtain ⟨u, hu, hl, hp, k, hk⟩ := hs i hbi'
      exact ⟨u, hu, hl, hp, k + 1, by rw [Function.iterate_succ_apply', hk, hvp]⟩
    · have : b v = false := by
        have : (if v = p i then false else b v) = false := hv
        rwa [if_neg hvp] at this
      exact hs v this
  · exact hs v hv

theorem foldl_andStep_sound (V : Nat) (p : Nat → Nat) (prop : Nat → Bool) (l : List Nat)
    (b : Nat → Bool) (hs : ∀ v, b v = false → FalseLeafBelow V p prop v) :
    ∀ v, (l.foldl (andStep p) b) v = false → FalseLeafBelow V p prop v := by
  induction l generalizing b with
  | nil => exact hs
  | cons a t ih => exact ih _ (andStep_sound V p prop b a hs)

/-- the flags the method starts from -/
def andInit (V : Nat) (p : Nat → Nat) (prop : Nat → Bool) : Nat → Bool :=
  fun v => if v < V then (if isLeaf V p v then prop v else true) else true

theorem iterate_andPass_sound (V : Nat) (p : Nat → Nat) (prop : Nat → Bool) (n : Nat) :
    ∀ v, (andPass V p)^[n] (andInit V p prop) v = false → FalseLeafBelow V p prop v := by
  induction n with
  | zero =>
    intro v hv
    simp only [Function.iterate_zero, id, andInit] at hv
    split at hv
    · rename_i hvV
      split at hv
      · rename_i hl; exact ⟨v, hvV, hl, hv, 0, rfl⟩
      · cases hv
    · cases hv
  | succ n ih =>
    rw [Function.iterate_succ']
    exact foldl_andStep_sound V p prop _ _ ih

theorem iterate_andPass_complete (V : Nat) (p : Nat → Nat) (hr : InRange V p) (prop : Nat → Bool)
    (u : Nat) (hu : u < V) (hl : isLeaf V p u = true) (hp : prop u = false) (n : Nat) :
    ∀ j ≤ n, (andPass V p)^[n] (andInit V p prop) (p^[j] u) = false := by
  have hin : ∀ j, p^[j] u < V := by
    intro j; induction j with
    | zero => exact hu
    | succ j ih => rw [Function.iterate_succ_apply']; exact hr _ ih
  induction n with
  | zero =>
    intro j hj
    have : j = 0 := by omega
    subst this
    simp [andInit, hu, hl, hp]
  | succ n ih =>
    intro j hj
    rw [Function.iterate_succ_apply']
    rcases Nat.lt_succ_iff_lt_or_eq.1 (Nat.lt_succ_of_le hj) with hj' | rfl
    · exact foldl_andStep_false p _ _ _ (ih j (by omega))
    · rw [Function.iterate_succ_apply']
      exact foldl_andStep_parent p _ _ _ (List.mem_range.2 (hin n)) (ih n (Nat.le_refl _))

/-- after `tree_depth()` passes a node is false exactly when a false leaf lies at or below it -/
theorem andPass_char (V : Nat) (p : Nat → Nat) (hr : InRange V p) (hc : check V p = true)
    (prop : Nat → Bool) (v : Nat) (hv : v < V) :
    (andPass V p)^[(lmax (depthFromLeaves V p) + 1).toNat] (andInit V p prop) v = false ↔
      FalseLeafBelow V p prop v := by
  constructor
  · exact iterate_andPass_sound V p prop _ v
  · rintro ⟨u, hu, hl, hp, k, hk⟩
    obtain ⟨m, _, hm, hprop⟩ := first_hit p u v k hk
    have h1 := proper_chain_le_height V p hr hc u hu m hprop
    rw [hm] at h1
    have h2 := height_lt_treeDepth V p hr hc v hv
    have := iterate_andPass_complete V p hr prop u hu hl hp (lmax (depthFromLeaves V p) + 1).toNat m (by omega)
    rwa [hm] at this

/-! ### the arrays of the model -/

/-- an array of flags read as a total function (outside the array: `true`) -/
def fnA (q : Array Bool) : Nat → Bool := fun i => q.getD i true

theorem fnA_set (q : Array Bool) (j : Nat) (hj : j < q.size) :
    fnA (q.setIfInBounds j false) = upd (fnA q) j false := by
  funext i
  unfold fnA upd
  simp only [Array.getD_eq_getD_getElem?, Array.getElem?_setIfInBounds]
  by_cases h : j = i
  · subst h; simp [hj]
  · have h' : ¬ i = j := fun e => h e.symm
    simp [h, h']

theorem foldl_andStepA (p : Nat → Nat) (l : List Nat) (q : Array Bool) (hl : ∀ i ∈ l, p i < q.size) :
    (l.foldl (fun q i => if q.getD i true == false then q.setIfInBounds (p i) false else q) q).size = q.size ∧
      fnA (l.foldl (fun q i => if q.getD i true == false then q.setIfInBounds (p i) false else q) q) =
        l.foldl (andStep p) (fnA q) := by
  induction l generalizing q with
  | nil => exact ⟨rfl, rfl⟩
  | cons a t ih =>
    rw [List.foldl_cons, List.foldl_cons]
    have ha := hl a List.mem_cons_self
    by_cases hq : (q.getD a true == false) = true
    · rw [if_pos hq]
      have hsz : (q.setIfInBounds (p a) false).size = q.size := Array.size_setIfInBounds
      obtain ⟨h1, h2⟩ := ih (q.setIfInBounds (p a) false)
        (fun i hi => by rw [hsz]; exact hl i (List.mem_cons_of_mem _ hi))
      refine ⟨by rw [h1, hsz], ?_⟩
      rw [h2, fnA_set q (p a) ha]
      congr 1
      unfold andStep
      have : (fnA q a == false) = true := hq
      rw [if_pos this]
    · rw [if_neg hq]
      obtain ⟨h1, h2⟩ := ih q (fun i hi => hl i (List.mem_cons_of_mem _ hi))
      refine ⟨h1, ?_⟩
      rw [h2]
      congr 1
      unfold andStep
      have : ¬ (fnA q a == false) = true := hq
      rw [if_neg this]

theorem propagateAnd_eq (V : Nat) (p : Nat → Nat) (hr : InRange V p) (prop : List Bool) (v : Nat) :
    (propagateAnd V p prop).getD v true =
      (andPass V p)^[(lmax (depthFromLeaves V p) + 1).toNat] (andInit V p (fun u => prop.getD u false)) v := by
  unfold propagateAnd
  simp only
  set a0 : Array Bool :=
    ((List.range V).map (fun v => if isLeaf V p v then prop.getD v false else true)).toArray with ha0
  set pass := fun (q : Array Bool) =>
    (List.range V).foldl (fun q i => if q.getD i true == false then q.setIfInBounds (p i) false else q) q
    with hpass
  have hsize0 : a0.size = V := by simp [ha0]
  have hfn0 : fnA a0 = andInit V p (fun u => prop.getD u false) := by
    funext i
    unfold fnA andInit
    by_cases hi : i < V
    · simp [ha0, hi]
    · simp [ha0, hi]
  have hiter : ∀ n, (iter pass n a0).size = V ∧
      fnA (iter pass n a0) = (andPass V p)^[n] (andInit V p (fun u => prop.getD u false)) := by
    intro n
    rw [iter_eq_iterate]
    induction n with
    | zero => exact ⟨hsize0, hfn0⟩
    | succ n ih =>
      rw [Function.iterate_succ_apply', Function.iterate_succ_apply']
      obtain ⟨h1, h2⟩ := ih
      obtain ⟨h3, h4⟩ := foldl_andStepA p (List.range V) (pass^[n] a0)
        (fun i hi => by rw [h1]; exact hr i (List.mem_range.1 hi))
      exact ⟨by rw [hpass]; simp only; rw [h3, h1], by rw [hpass]; simp only; rw [h4, h2]; rfl⟩
  obtain ⟨h1, h2⟩ := hiter (lmax (depthFromLeaves V p) + 1).toNat
  rw [← h2]
  unfold fnA
  simp [List.getD_eq_getElem?_getD, Array.getD_eq_getD_getElem?]

/-! ### `propagate_upward` (labels) -/

/-- the documented rule at one node: the common label of the children when they agree, else the
    node's own label -/
def upRule (V : Nat) (p : Nat → Nat) (label0 lab : Nat → Int) (v : Nat) : Int :=
  match dedup ((children V p v).map lab) with
  | [x] => x
  | _ => label0 v

theorem upRule_congr (V : Nat) (p : Nat → Nat) (label0 lab lab' : Nat → Int) (v : Nat)
    (h : ∀ c ∈ children V p v, lab' c = lab c) : upRule V p label0 lab' v = upRule V p label0 lab v := by
  unfold upRule
  rw [List.map_congr_left h]

/-- one inner step at level `j` on total labellings -/
def upStep (V : Nat) (p : Nat → Nat) (hf : Nat → Nat) (j : Nat) (lab : Nat → Int) (i : Nat) : Nat → Int :=
  if hf i = j then
    (match dedup ((children V p i).map lab) with
     | [x] => upd lab i x
     | _ => lab)
  else lab

theorem upStep_eq (V : Nat) (p : Nat → Nat) (hf : Nat → Nat) (j : Nat) (lab : Nat → Int) (i : Nat)
    (hi : hf i = j) : upStep V p hf j lab i = upd lab i (upRule V p lab lab i) := by
  unfold upStep upRule
  rw [if_pos hi]
  split
  · rfl
  · funext w
    unfold upd
    split
    · rename_i h; rw [h]
    · rfl

/-- processed so far: all lower levels, and the part `l` of level `j` -/
def UpDone (hf : Nat → Nat) (j : Nat) (l : List Nat) (v : Nat) : Prop := hf v < j ∨ (hf v = j ∧ v ∈ l)

structure UpInv (V : Nat) (p : Nat → Nat) (hf : Nat → Nat) (label0 : Nat → Int) (j : Nat) (l : List Nat)
    (lab : Nat → Int) : Prop where
  done : ∀ v < V, UpDone hf j l v → lab v = upRule V p label0 lab v
  todo : ∀ v, ¬ UpDone hf j l v → lab v = label0 v

theorem upInv_step (V : Nat) (p : Nat → Nat) (hf : Nat → Nat)
    (hpar : ∀ c < V, p c ≠ c → hf c < hf (p c)) (label0 : Nat → Int) (j : Nat) (l : List Nat)
    (lab : Nat → Int) (inv : UpInv V p hf label0 j l lab) (i : Nat) (hil : i ∉ l) :
    UpInv V p hf label0 j (l ++ [i]) (upStep V p hf j lab i) := by
  by_cases hi : hf i = j
  · rw [upStep_eq V p hf j lab i hi]
    have hnot : ¬ UpDone hf j l i := by
      rintro (h | ⟨_, h⟩)
      · omega
      · exact hil h
    have hli : lab i = label0 i := inv.todo i hnot
    -- `i` is a child only of nodes above level `j`
    have hchild : ∀ v, i ∈ children V p v → j < hf v := by
      intro v hiv
      obtain ⟨hiV, hpi, hne⟩ := (children_parents_consistent V p v i).1 hiv
      have := hpar i hiV (by rw [hpi]; exact fun e => hne e.symm)
      rw [hpi] at this; omega
    have hcongr : ∀ v, ¬ j < hf v →
        upRule V p label0 (upd lab i (upRule V p lab lab i)) v = upRule V p label0 lab v := by
      intro v hv
      apply upRule_congr
      intro c hc
      unfold upd
      split
      · rename_i e; subst e; exact absurd (hchild v hc) hv
      · rfl
    have hrule : upRule V p lab lab i = upRule V p label0 lab i := by
      unfold upRule; rw [hli]
    constructor
    · intro v hv hd
      rcases hd with h | ⟨h1, h2⟩
      · have hvi : v ≠ i := by rintro rfl; omega
        rw [hcongr v (by omega)]
        unfold upd; rw [if_neg hvi]
        exact inv.done v hv (Or.inl h)
      · rcases List.mem_append.1 h2 with h3 | h3
        · have hvi : v ≠ i := fun e => hil (e ▸ h3)
          rw [hcongr v (by omega)]
          unfold upd; rw [if_neg hvi]
          exact inv.done v hv (Or.inr ⟨h1, h3⟩)
        · have hvi : v = i := by simpa using h3
          subst hvi
          rw [hcongr v (by omega)]
          unfold upd; rw [if_pos rfl]
          exact hrule
    · intro v hnd
      have hvi : v ≠ i := by
        rintro rfl
        exact hnd (Or.inr ⟨hi, List.mem_append_right _ List.mem_cons_self⟩)
      unfold upd; rw [if_neg hvi]
      apply inv.todo
      rintro (h | ⟨h1, h2⟩)
      · exact hnd (Or.inl h)
      · exact hnd (Or.inr ⟨h1, List.mem_append_left _ h2⟩)
  · have : upStep V p hf j lab i = lab := by unfold upStep; rw [if_neg hi]
    rw [this]
    constructor
    · intro v hv hd
      apply inv.done v hv
      rcases hd with h | ⟨h1, h2⟩
      · exact Or.inl h
      · rcases List.mem_append.1 h2 with h2 | h2
        · exact Or.inr ⟨h1, h2⟩
        · have : v = i := by simpa using h2
          subst this; exact absurd h1 hi
    · intro v hnd
      apply inv.todo
      rintro (h | ⟨h1, h2⟩)
      · exact hnd (Or.inl h)
      · exact hnd (Or.inr ⟨h1, List.mem_append_left _ h2⟩)

theorem upInv_inner (V : Nat) (p : Nat → Nat) (hf : Nat → Nat)
    (hpar : ∀ c < V, p c ≠ c → hf c < hf (p c)) (label0 : Nat → Int) (j : Nat) (rest : List Nat) :
    ∀ (l : List Nat) (lab : Nat → Int), UpInv V p hf label0 j l lab → (l ++ rest).Nodup →
      UpInv V p hf label0 j (l ++ rest) (rest.foldl (upStep V p hf j) lab) := by
  induction rest with
  | nil => intro l lab inv _; simpa using inv
  | cons a t ih =>
    intro l lab inv hnd
    have ha : a ∉ l := fun h => (List.nodup_append.1 hnd).2.2 a h a List.mem_cons_self rfl
    have := ih (l ++ [a]) _ (upInv_step V p hf hpar label0 j l lab inv a ha) (by simpa using hnd)
    simpa using this

/-- all levels `1..m` done -/
theorem upInv_outer (V : Nat) (p : Nat → Nat) (hf : Nat → Nat)
    (hpar : ∀ c < V, p c ≠ c → hf c < hf (p c)) (hleaf : ∀ v < V, hf v = 0 → children V p v = [])
    (label0 : Nat → Int) (m : Nat) :
    UpInv V p hf label0 (m + 1) []
      ((List.range m).foldl (fun lab j0 => (List.range V).foldl (upStep V p hf (j0 + 1)) lab) label0) := by
  induction m with
  | zero =>
    constructor
    · intro v hv hd
      rcases hd with h | ⟨_, h⟩
      · have h0 : hf v = 0 := by omega
        show label0 v = upRule V p label0 label0 v
        unfold upRule
        rw [hleaf v hv h0]; rfl
      · cases h
    · intro v _; rfl
  | succ m ih =>
    rw [List.range_succ, List.foldl_append]
    simp only [List.foldl_cons, List.foldl_nil]
    have := upInv_inner V p hf hpar label0 (m + 1) (List.range V) [] _ ih (by simpa using List.nodup_range)
    simp only [List.nil_append] at this
    constructor
    · intro v hv hd
      apply this.done v hv
      rcases hd with h | ⟨_, h⟩
      · rcases Nat.lt_succ_iff_lt_or_eq.1 h with h' | h'
        · exact Or.inl h'
        · exact Or.inr ⟨h', List.mem_range.2 hv⟩
      · cases h
    · intro v hnd
      apply this.todo
      rintro (h | ⟨h1, _⟩)
      · exact hnd (Or.inl (by omega))
      · exact hnd (Or.inl (by omega))

/-! #### the arrays of the model -/

def fnI (q : Array Int) : Nat → Int := fun i => q.getD i 0

theorem fnI_set (q : Array Int) (j : Nat) (x : Int) (hj : j < q.size) :
    fnI (q.setIfInBounds j x) = upd (fnI q) j x := by
  funext i
  unfold fnI upd
  simp only [Array.getD_eq_getD_getElem?, Array.getElem?_setIfInBounds]
  by_cases h : j = i
  · subst h; simp [hj]
  · have h' : ¬ i = j := fun e => h e.symm
    simp [h, h']

theorem foldl_upStepA (V : Nat) (p : Nat → Nat) (depth : Array Int) (kids : Array (List Nat))
    (hf : Nat → Nat) (hdepth : ∀ i < V, depth.getD i 0 = (hf i : Int))
    (hkids : ∀ i < V, kids.getD i [] = children V p i) (j0 : Nat) (l : List Nat) (hl : ∀ i ∈ l, i < V)
    (q : Array Int) (hq : q.size = V) :
    (l.foldl (fun (lab : Array Int) i =>
        if depth.getD i 0 == ((j0 + 1 : Nat) : Int) then
          match dedup ((kids.getD i []).map (fun c => lab.getD c 0)) with
          | [x] => lab.setIfInBounds i x
          | _ => lab
        else lab) q).size = V ∧
      fnI (l.foldl (fun (lab : Array Int) i =>
        if depth.getD i 0 == ((j0 + 1 : Nat) : Int) then
          match dedup ((kids.getD i []).map (fun c => lab.getD c 0)) with
          | [x] => lab.setIfInBounds i x
          | _ => lab
        else lab) q) = l.foldl (upStep V p hf (j0 + 1)) (fnI q) := by
  induction l generalizing q with
  | nil => exact ⟨hq, rfl⟩
  | cons a t ih =>
    rw [List.foldl_cons, List.foldl_cons]
    have ha := hl a List.mem_cons_self
    have hrest : ∀ i ∈ t, i < V := fun i hi => hl i (List.mem_cons_of_mem _ hi)
    have hmap : (kids.getD a []).map (fun c => q.getD c 0) = (children V p a).map (fnI q) := by
      rw [hkids a ha]; rfl
    by_cases hd : hf a = j0 + 1
    · have hcond : (depth.getD a 0 == ((j0 + 1 : Nat) : Int)) = true := by
        rw [hdepth a ha, hd]; simp
      rw [if_pos hcond, hmap]
      have hstep : upStep V p hf (j0 + 1) (fnI q) a =
          (match dedup ((children V p a).map (fnI q)) with
           | [x] => upd (fnI q) a x
           | _ => fnI q) := by unfold upStep; rw [if_pos hd]
      rw [hstep]
      split
      · rename_i x hx
        obtain ⟨h1, h2⟩ := ih hrest (q.setIfInBounds a x) (by rw [Array.size_setIfInBounds]; exact hq)
        exact ⟨h1, by rw [h2, fnI_set q a x (by rw [hq]; exact ha)]⟩
      · exact ih hrest q hq
    · have hcond : ¬ (depth.getD a 0 == ((j0 + 1 : Nat) : Int)) = true := by
        rw [hdepth a ha]
        simp only [beq_iff_eq, Nat.cast_inj]
        exact hd
      rw [if_neg hcond]
      have hstep : upStep V p hf (j0 + 1) (fnI q) a = fnI q := by unfold upStep; rw [if_neg hd]
      rw [hstep]
      exact ih hrest q hq

theorem toList_getD_int (a : Array Int) (w : Nat) (d : Int) : a.toList.getD w d = a.getD w d := by
  simp [List.getD_eq_getElem?_getD, Array.getD_eq_getD_getElem?]

theorem foldl_upOuterA (V : Nat) (p : Nat → Nat) (depth : Array Int) (kids : Array (List Nat))
    (hf : Nat → Nat) (hdepth : ∀ i < V, depth.getD i 0 = (hf i : Int))
    (hkids : ∀ i < V, kids.getD i [] = children V p i) (js : List Nat) (q : Array Int) (hq : q.size = V) :
    (js.foldl (fun (lab : Array Int) j0 =>
      (List.range V).foldl (fun (lab : Array Int) i =>
        if depth.getD i 0 == ((j0 + 1 : Nat) : Int) then
          match dedup ((kids.getD i []).map (fun c => lab.getD c 0)) with
          | [x] => lab.setIfInBounds i x
          | _ => lab
        else lab) lab) q).size = V ∧
    fnI (js.foldl (fun (lab : Array Int) j0 =>
      (List.range V).foldl (fun (lab : Array Int) i =>
        if depth.getD i 0 == ((j0 + 1 : Nat) : Int) then
          match dedup ((kids.getD i []).map (fun c => lab.getD c 0)) with
          | [x] => lab.setIfInBounds i x
          | _ => lab
        else lab) lab) q) =
      js.foldl (fun lab j0 => (List.range V).foldl (upStep V p hf (j0 + 1)) lab) (fnI q) := by
  induction js generalizing q with
  | nil => exact ⟨hq, rfl⟩
  | cons j t ih =>
    rw [List.foldl_cons, List.foldl_cons]
    obtain ⟨h1, h2⟩ := foldl_upStepA V p depth kids hf hdepth hkids j (List.range V)
      (fun i hi => List.mem_range.1 hi) q hq
    obtain ⟨h3, h4⟩ := ih _ h1
    exact ⟨h3, by rw [h4, h2]⟩

/-- `propagate_upward` on a forest: every node satisfies the documented rule with respect to the
    RESULT on its children -/
theorem propagateUp_rule (V : Nat) (p : Nat → Nat) (hr : InRange V p) (hc : check V p = true)
    (label : List Int) (hl : label.length = V) (v : Nat) (hv : v < V) :
    (propagateUp V p label).getD v 0 =
      upRule V p (fun w => label.getD w 0) (fun w => (propagateUp V p label).getD w 0) v := by
  have hdepth : ∀ i < V, (depthFromLeaves V p).toArray.getD i 0 = (height V p i : Int) := by
    intro i hi
    rw [depth_from_leaves_is_height V p hr hc]
    simp [hi]
  have hkids : ∀ i < V, ((List.range V).map (children V p)).toArray.getD i [] = children V p i := by
    intro i hi; simp [hi]
  have hpar : ∀ c < V, p c ≠ c → height V p c < height V p (p c) := by
    intro c hcV hne
    have := height_parent V p hr hc c hcV hne
    omega
  have hleaf : ∀ w < V, height V p w = 0 → children V p w = [] := by
    intro w hw h0
    by_cases hlf : isLeaf V p w = true
    · exact (isLeaf_iff_no_children V p w).1 hlf
    · obtain ⟨c, _, _, _, hh⟩ := height_nonleaf V p hr hc w hw (by simpa using hlf)
      omega
  obtain ⟨hsz, hfn⟩ := foldl_upOuterA V p (depthFromLeaves V p).toArray
    ((List.range V).map (children V p)).toArray (height V p) hdepth hkids
    (List.range (lmax (depthFromLeaves V p).toArray.toList).toNat) label.toArray (by simpa using hl)
  have hinv := upInv_outer V p (height V p) hpar hleaf (fnI label.toArray)
    (lmax (depthFromLeaves V p).toArray.toList).toNat
  rw [← hfn] at hinv
  have hout : ∀ w, (propagateUp V p label).getD w 0 =
      fnI ((List.range (lmax (depthFromLeaves V p).toArray.toList).toNat).foldl
        (fun (lab : Array Int) j0 =>
          (List.range V).foldl (fun (lab : Array Int) i =>
            if (depthFromLeaves V p).toArray.getD i 0 == ((j0 + 1 : Nat) : Int) then
              match dedup ((((List.range V).map (children V p)).toArray.getD i []).map
                (fun c => lab.getD c 0)) with
              | [x] => lab.setIfInBounds i x
              | _ => lab
            else lab) lab) label.toArray) w := by
    intro w
    show (Array.toList _).getD w 0 = _
    rw [toList_getD_int]
    rfl
  have hlab0 : fnI label.toArray = fun w => label.getD w 0 := by
    funext w; unfold fnI; simp [List.getD_eq_getElem?_getD, Array.getD_eq_getD_getElem?]
  have hdone : UpDone (height V p) ((lmax (depthFromLeaves V p).toArray.toList).toNat + 1) [] v := by
    left
    have h := lmax_ge (depthFromLeaves V p) (height V p v : Int) (by
      rw [depth_from_leaves_is_height V p hr hc]
      exact List.mem_map.2 ⟨v, List.mem_range.2 hv, rfl⟩)
    have hrfl : (depthFromLeaves V p).toArray.toList = depthFromLeaves V p := rfl
    rw [hrfl]
    omega
  have := hinv.done v hv hdone
  rw [hlab0] at this
  rw [hout v]
  rw [this]
  apply upRule_congr
  intro c _
  exact (hout c).symm

end NipyVerif.C12
