/- C11 — the Dijkstra loop invariant: for non-negative weights the heap-with-stale-entries
   model relaxes every edge out of every reached vertex (the certificate always holds). -/
import NipyVerif.Lemmas.C11

namespace NipyVerif.C11

/-- all weights are non-negative (the guard `negWeight` is false) -/
def NonNeg (g : Graph) : Prop := ∀ e ∈ g.edges, 0 ≤ e.2.2

/-- every edge joins vertices of the graph (what the constructor checks) -/
def WF (g : Graph) : Prop := ∀ e ∈ g.edges, e.1 < g.V ∧ e.2.1 < g.V

theorem nonNeg_of_negWeight (g : Graph) (h : negWeight g = false) : NonNeg g := by
  intro e he
  unfold negWeight at h
  have := (List.any_eq_false.mp h) e he
  simpa using this

/-! ### list helpers -/

theorem getD_set_self {α} (l : List (Option α)) (i : Nat) (x : Option α) (h : i < l.length) :
    (l.set i x).getD i none = x := by
  simp [List.getD_eq_getElem?_getD, h]

theorem getD_set_of_ne {α} (l : List (Option α)) (i j : Nat) (x : Option α) (h : i ≠ j) :
    (l.set i x).getD j none = l.getD j none := by
  simp [List.getD_eq_getElem?_getD, h]

theorem getD_none_of_le {α} (l : List (Option α)) (i : Nat) (h : l.length ≤ i) :
    l.getD i none = none := by
  simp [List.getD_eq_getElem?_getD, List.getElem?_eq_none h]

theorem getDb_set_self (l : List Bool) (i : Nat) (x : Bool) (h : i < l.length) :
    (l.set i x).getD i false = x := by
  simp [List.getD_eq_getElem?_getD, h]

theorem getDb_set_of_ne (l : List Bool) (i j : Nat) (x : Bool) (h : i ≠ j) :
    (l.set i x).getD j false = l.getD j false := by
  simp [List.getD_eq_getElem?_getD, h]

theorem getDb_lt_of_true (l : List Bool) (i : Nat) (h : l.getD i false = true) : i < l.length := by
  by_contra hc
  simp [List.getD_eq_getElem?_getD, List.getElem?_eq_none (Nat.le_of_not_lt hc)] at h

theorem path_nonneg (g : Graph) (hn : NonNeg g) {s v : Nat} {l : Rat} (h : Path g s v l) : 0 ≤ l := by
  induction h with
  | nil => exact le_refl _
  | snoc _ he ih => have := hn _ he; simp only at this; linarith

theorem ach_nonneg (g : Graph) (hn : NonNeg g) {seeds : List Nat} {v : Nat} {b : Rat}
    (h : Ach g seeds v b) : 0 ≤ b := by
  obtain ⟨s, _, hp⟩ := h
  exact path_nonneg g hn hp

theorem optLt_some {x b : Rat} : optLt x (some b) = true ↔ x < b := by simp [optLt]

theorem not_optLt {x : Rat} {d : Option Rat} (h : ¬ optLt x d = true) : ∃ b, d = some b ∧ b ≤ x := by
  cases d with
  | none => simp [optLt] at h
  | some b => exact ⟨b, rfl, by simpa [optLt] using h⟩

/-! ### heap: what `popActive` returns -/

theorem keyLt_le {a b : Rat × Nat} (h : keyLt a b = true) : a.1 ≤ b.1 := by
  simp only [keyLt, Bool.or_eq_true, decide_eq_true_eq, Bool.and_eq_true, beq_iff_eq] at h
  rcases h with h | ⟨h, _⟩
  · exact le_of_lt h
  · exact le_of_eq h

theorem not_keyLt_le {a b : Rat × Nat} (h : ¬ keyLt a b = true) : b.1 ≤ a.1 := by
  simp only [keyLt, Bool.or_eq_true, decide_eq_true_eq, Bool.and_eq_true, beq_iff_eq, not_or] at h
  exact not_lt.mp h.1

theorem heapMin_le : ∀ (h : Heap) (m : Rat × Nat), heapMin h = some m → ∀ x ∈ h, m.1 ≤ x.1
  | [], m, hm, _, hx => by simp [heapMin] at hm
  | y :: ys, m, hm, x, hx => by
      simp only [heapMin] at hm
      cases hy : heapMin ys with
      | none =>
          rw [hy] at hm
          simp only [Option.some.injEq] at hm
          subst hm
          have : ys = [] := by
            cases ys with
            | nil => rfl
            | cons z zs =>
                simp only [heapMin] at hy
                split at hy
                · simp at hy
                · split at hy <;> simp at hy
          subst this
          simp only [List.mem_cons, List.not_mem_nil, or_false] at hx
          subst hx; exact le_refl _
      | some m' =>
          rw [hy] at hm
          simp only at hm
          have ih := heapMin_le ys m' hy
          split at hm
          · next hk =>
              cases hm
              rcases List.mem_cons.mp hx with rfl | hx
              · exact keyLt_le hk
              · exact ih x hx
          · next hk =>
              cases hm
              rcases List.mem_cons.mp hx with rfl | hx
              · exact le_refl _
              · exact le_trans (not_keyLt_le hk) (ih x hx)

theorem heapMin_none (h : Heap) (hm : heapMin h = none) : h = [] := by
  cases h with
  | nil => rfl
  | cons z zs =>
      simp only [heapMin] at hm
      split at hm
      · simp at hm
      · split at hm <;> simp at hm

/-- the strong specification of the pop loop -/
theorem popActive_strong (active : List Bool) : ∀ (f : Nat) (h h' : Heap) (m : Rat × Nat),
    popActive active f h = some (m, h') →
      m ∈ h ∧ (∀ x ∈ h', x ∈ h) ∧ active.getD m.2 false = true ∧ (∀ x ∈ h', m.1 ≤ x.1) ∧
      (∀ x ∈ h, active.getD x.2 false = true → m.1 ≤ x.1) ∧
      (∀ x ∈ h, active.getD x.2 false = true → x.2 ≠ m.2 → x ∈ h')
  | 0, h, h', m, hp => by simp [popActive] at hp
  | f + 1, h, h', m, hp => by
      simp only [popActive] at hp
      cases hq : popMin h with
      | none => rw [hq] at hp; simp at hp
      | some q =>
          obtain ⟨m1, h1⟩ := q
          rw [hq] at hp
          simp only at hp
          have hmin : heapMin h = some m1 ∧ h1 = h.erase m1 := by
            unfold popMin at hq
            cases hm : heapMin h with
            | none => rw [hm] at hq; simp at hq
            | some m' =>
                rw [hm] at hq
                simp only [Option.some.injEq, Prod.mk.injEq] at hq
                obtain ⟨rfl, rfl⟩ := hq
                exact ⟨rfl, rfl⟩
          obtain ⟨hm1, rfl⟩ := hmin
          have hm1mem := heapMin_mem h _ hm1
          have hle := heapMin_le h _ hm1
          split at hp
          · next hact =>
              simp only [Option.some.injEq, Prod.mk.injEq] at hp
              obtain ⟨rfl, rfl⟩ := hp
              refine ⟨hm1mem, fun x hx => List.mem_of_mem_erase hx, hact,
                fun x hx => hle x (List.mem_of_mem_erase hx), fun x hx _ => hle x hx, ?_⟩
              intro x hx _ hne
              have : x ≠ m1 := fun h => hne (by rw [h])
              exact (List.mem_erase_of_ne this).mpr hx
          · next hact =>
              obtain ⟨hm, hs, ha, hl, hl2, hk⟩ := popActive_strong active f (h.erase m1) h' m hp
              refine ⟨List.mem_of_mem_erase hm, fun x hx => List.mem_of_mem_erase (hs x hx), ha, hl, ?_, ?_⟩
              · intro x hx hxa
                have : x ≠ m1 := fun h => hact (by rw [← h]; exact hxa)
                exact hl2 x ((List.mem_erase_of_ne this).mpr hx) hxa
              · intro x hx hxa hne
                have : x ≠ m1 := fun h => hact (by rw [← h]; exact hxa)
                exact hk x ((List.mem_erase_of_ne this).mpr hx) hxa hne

/-- with enough fuel the pop loop gives up only when no entry of the heap is active -/
theorem popActive_none (active : List Bool) : ∀ (f : Nat) (h : Heap),
    popActive active f h = none → h.length < f → ∀ x ∈ h, active.getD x.2 false = false
  | 0, h, _, hl, _, _ => by omega
  | f + 1, h, hp, hl, x, hx => by
      simp only [popActive] at hp
      cases hq : popMin h with
      | none =>
          unfold popMin at hq
          cases hm : heapMin h with
          | none => rw [heapMin_none h hm] at hx; simp at hx
          | some m' => rw [hm] at hq; simp at hq
      | some q =>
          obtain ⟨m1, h1⟩ := q
          rw [hq] at hp
          simp only at hp
          unfold popMin at hq
          cases hm : heapMin h with
          | none => rw [hm] at hq; simp at hq
          | some m' =>
              rw [hm] at hq
              simp only [Option.some.injEq, Prod.mk.injEq] at hq
              obtain ⟨rfl, rfl⟩ := hq
              have hmem := heapMin_mem h _ hm
              split at hp
              · simp at hp
              · next hact =>
                  by_cases hxm : x = m'
                  · subst hxm; simpa using hact
                  · have hlen : (h.erase m').length < f := by
                      rw [List.length_erase_of_mem hmem]
                      have : 0 < h.length := List.length_pos_of_mem hmem
                      omega
                    exact popActive_none active f (h.erase m') hp hlen x ((List.mem_erase_of_ne hxm).mpr hx)

/-! ### one relaxation -/

/-- the three outcomes of `relax1` -/
theorem relax1_cases (ref : List (Option Rat)) (vec : Bool) (dwin : Rat) (lw : Option Nat) (st : St)
    (e : Nat × Rat) :
    let cmp := if vec then ref.getD e.1 none else st.dist.getD e.1 none
    (relax1 ref vec dwin lw st e = st ∧ ¬ optLt (dwin + e.2) cmp = true) ∨
    (relax1 ref vec dwin lw st e = { st with heap := (dwin + e.2, e.1) :: st.heap } ∧
        optLt (dwin + e.2) cmp = true ∧ ¬ optLt (dwin + e.2) (st.dist.getD e.1 none) = true) ∨
    (relax1 ref vec dwin lw st e =
        { st with heap := (dwin + e.2, e.1) :: st.heap, dist := st.dist.set e.1 (some (dwin + e.2)),
                  lab := st.lab.set e.1 lw } ∧
        optLt (dwin + e.2) cmp = true ∧ optLt (dwin + e.2) (st.dist.getD e.1 none) = true) := by
  intro cmp
  unfold relax1
  simp only
  by_cases hc : optLt (dwin + e.2) cmp = true
  · by_cases hb : optLt (dwin + e.2) (st.dist.getD e.1 none) = true
    · right; right
      refine ⟨?_, hc, hb⟩
      rw [if_pos hc]; simp only [hb, ↓reduceIte]
    · right; left
      refine ⟨?_, hc, hb⟩
      rw [if_pos hc]; simp only [hb, Bool.false_eq_true, ↓reduceIte]
  · left
    exact ⟨by rw [if_neg hc], hc⟩

/-- a relaxation never increases a stored distance -/
theorem relax1_mono (ref : List (Option Rat)) (vec : Bool) (dwin : Rat) (lw : Option Nat) (st : St)
    (e : Nat × Rat) (v : Nat) (b : Rat) (h : st.dist.getD v none = some b) :
    ∃ b', (relax1 ref vec dwin lw st e).dist.getD v none = some b' ∧ b' ≤ b := by
  rcases relax1_cases ref vec dwin lw st e with ⟨h1, _⟩ | ⟨h1, _, _⟩ | ⟨h1, _, h3⟩
  · rw [h1]; exact ⟨b, h, le_refl _⟩
  · rw [h1]; exact ⟨b, h, le_refl _⟩
  · rw [h1]
    simp only
    by_cases hv : e.1 = v
    · subst hv
      rw [h] at h3
      have hlt : e.1 < st.dist.length := by
        by_contra hc
        rw [getD_none_of_le _ _ (Nat.le_of_not_lt hc)] at h
        cases h
      rw [getD_set_self _ _ _ hlt]
      exact ⟨_, rfl, le_of_lt (optLt_some.mp h3)⟩
    · rw [getD_set_of_ne _ _ _ _ hv]; exact ⟨b, h, le_refl _⟩

theorem foldl_relax_mono (ref : List (Option Rat)) (vec : Bool) (dwin : Rat) (lw : Option Nat) :
    ∀ (es : List (Nat × Rat)) (st : St) (v : Nat) (b : Rat), st.dist.getD v none = some b →
    ∃ b', (es.foldl (relax1 ref vec dwin lw) st).dist.getD v none = some b' ∧ b' ≤ b
  | [], st, v, b, h => ⟨b, h, le_refl _⟩
  | e :: es, st, v, b, h => by
      simp only [List.foldl_cons]
      obtain ⟨b1, h1, hle1⟩ := relax1_mono ref vec dwin lw st e v b h
      obtain ⟨b2, h2, hle2⟩ := foldl_relax_mono ref vec dwin lw es _ v b1 h1
      exact ⟨b2, h2, le_trans hle2 hle1⟩

/-- invariant that holds while the out-edges of the popped vertex `win` (key `dwin`) are relaxed -/
structure FInv (g : Graph) (seeds : List Nat) (win : Nat) (dwin : Rat) (ref : List (Option Rat))
    (st : St) : Prop where
  dlen : st.dist.length = g.V
  alen : st.active.length = g.V
  ach : Inv g seeds st
  act : ∀ v b, st.active.getD v false = true → st.dist.getD v none = some b → (b, v) ∈ st.heap
  hp : ∀ p ∈ st.heap, ∃ b, st.dist.getD p.2 none = some b ∧ b ≤ p.1
  rel : ∀ u a, st.active.getD u false = false → u ≠ win → st.dist.getD u none = some a →
          ∀ v w, (u, v, w) ∈ g.edges → ∃ b, st.dist.getD v none = some b ∧ b ≤ a + w
  low : ∀ u a, st.active.getD u false = false → st.dist.getD u none = some a → a ≤ dwin
  hlow : ∀ p ∈ st.heap, dwin ≤ p.1
  sz : ∀ s ∈ seeds, st.dist.getD s none = some 0
  mono : ∀ v b, ref.getD v none = some b → ∃ b', st.dist.getD v none = some b' ∧ b' ≤ b
  winA : st.active.getD win false = false
  winD : st.dist.getD win none = some dwin
  settled : ∀ u, u < g.V → st.active.getD u false = false → ∃ a, st.dist.getD u none = some a

theorem relax1_finv (g : Graph) (hn : NonNeg g) (hw : WF g) (seeds : List Nat) (win : Nat) (dwin : Rat)
    (ref : List (Option Rat)) (vec : Bool) (lw : Option Nat) (st : St) (e : Nat × Rat)
    (he : (win, e.1, e.2) ∈ g.edges) (hst : FInv g seeds win dwin ref st) :
    FInv g seeds win dwin ref (relax1 ref vec dwin lw st e) ∧
    ∃ b, (relax1 ref vec dwin lw st e).dist.getD e.1 none = some b ∧ b ≤ dwin + e.2 := by
  have hw0 : 0 ≤ e.2 := hn _ he
  have hl : e.1 < g.V := (hw _ he).2
  have hd0 : 0 ≤ dwin := ach_nonneg g hn (hst.ach.1 win dwin hst.winD)
  have hach : Ach g seeds e.1 (dwin + e.2) := by
    obtain ⟨s, hs, hp⟩ := hst.ach.1 win dwin hst.winD
    exact ⟨s, hs, Path.snoc hp he⟩
  have hinv := relax1_inv g seeds ref vec dwin lw st e hst.ach hach
  -- an inactive vertex is never improved
  have hinact : ∀ u, st.active.getD u false = false → u < g.V →
      ¬ optLt (dwin + e.2) (st.dist.getD u none) = true := by
    intro u hu hlt hopt
    obtain ⟨a, ha⟩ := hst.settled u hlt hu
    rw [ha] at hopt
    have := hst.low u a hu ha
    have := optLt_some.mp hopt
    linarith
  rcases relax1_cases ref vec dwin lw st e with ⟨h1, h2⟩ | ⟨h1, h2, h3⟩ | ⟨h1, h2, h3⟩
  · -- nothing happens
    rw [h1]
    refine ⟨hst, ?_⟩
    obtain ⟨r, hr, hrle⟩ := not_optLt h2
    cases vec with
    | true =>
        simp only [if_true] at hr
        obtain ⟨b', hb', hle⟩ := hst.mono e.1 r hr
        exact ⟨b', hb', le_trans hle hrle⟩
    | false =>
        simp only [Bool.false_eq_true, if_false] at hr
        exact ⟨r, hr, hrle⟩
  · -- pushed, distance not improved
    obtain ⟨r, hr, hrle⟩ := not_optLt h3
    rw [h1]
    refine ⟨?_, ⟨r, hr, hrle⟩⟩
    rw [h1] at hinv
    exact { dlen := hst.dlen, alen := hst.alen, ach := hinv,
            act := fun v b hv hb => List.mem_cons_of_mem _ (hst.act v b hv hb),
            hp := by
              intro p hp
              rcases List.mem_cons.mp hp with rfl | hp
              · exact ⟨r, hr, hrle⟩
              · exact hst.hp p hp
            rel := hst.rel, low := hst.low,
            hlow := by
              intro p hp
              rcases List.mem_cons.mp hp with rfl | hp
              · simp only; linarith
              · exact hst.hlow p hp
            sz := hst.sz, mono := hst.mono, winA := hst.winA, winD := hst.winD, settled := hst.settled }
  · -- pushed and improved
    have hlen : e.1 < st.dist.length := by rw [hst.dlen]; exact hl
    have hact_l : st.active.getD e.1 false = true := by
      by_contra hc
      exact hinact e.1 (by simpa using hc) hl h3
    have hmono : ∀ v b, st.dist.getD v none = some b →
        ∃ b', (st.dist.set e.1 (some (dwin + e.2))).getD v none = some b' ∧ b' ≤ b := by
      intro v b hb
      have := relax1_mono ref vec dwin lw st e v b hb
      rw [h1] at this
      exact this
    have hne_inact : ∀ u, st.active.getD u false = false → e.1 ≠ u := by
      intro u hu h; rw [← h, hact_l] at hu; cases hu
    rw [h1]
    rw [h1] at hinv
    refine ⟨?_, ⟨dwin + e.2, getD_set_self _ _ _ hlen, le_refl _⟩⟩
    exact { dlen := by simp only [List.length_set]; exact hst.dlen
            alen := hst.alen, ach := hinv,
            act := by
              intro v b hv hb
              simp only at hv hb ⊢
              by_cases hvl : e.1 = v
              · subst hvl
                rw [getD_set_self _ _ _ hlen] at hb
                cases hb; exact List.mem_cons_self
              · rw [getD_set_of_ne _ _ _ _ hvl] at hb
                exact List.mem_cons_of_mem _ (hst.act v b hv hb)
            hp := by
              intro p hp
              simp only at hp ⊢
              rcases List.mem_cons.mp hp with rfl | hp
              · exact ⟨dwin + e.2, getD_set_self _ _ _ hlen, le_refl _⟩
              · obtain ⟨b, hb, hle⟩ := hst.hp p hp
                obtain ⟨b', hb', hle'⟩ := hmono p.2 b hb
                exact ⟨b', hb', le_trans hle' hle⟩
            rel := by
              intro u a hu hne ha v w hedge
              simp only at hu ha ⊢
              rw [getD_set_of_ne _ _ _ _ (hne_inact u hu)] at ha
              obtain ⟨b, hb, hle⟩ := hst.rel u a hu hne ha v w hedge
              obtain ⟨b', hb', hle'⟩ := hmono v b hb
              exact ⟨b', hb', le_trans hle' hle⟩
            low := by
              intro u a hu ha
              simp only at hu ha
              rw [getD_set_of_ne _ _ _ _ (hne_inact u hu)] at ha
              exact hst.low u a hu ha
            hlow := by
              intro p hp
              simp only at hp
              rcases List.mem_cons.mp hp with rfl | hp
              · simp only; linarith
              · exact hst.hlow p hp
            sz := by
              intro s hs
              simp only
              by_cases hsl : e.1 = s
              · subst hsl
                have h0 := hst.sz e.1 hs
                rw [h0] at h3
                have := optLt_some.mp h3
                linarith
              · rw [getD_set_of_ne _ _ _ _ hsl]; exact hst.sz s hs
            mono := by
              intro v b hb
              obtain ⟨b1, hb1, hle1⟩ := hst.mono v b hb
              obtain ⟨b', hb', hle'⟩ := hmono v b1 hb1
              exact ⟨b', hb', le_trans hle' hle1⟩
            winA := hst.winA
            winD := by
              simp only
              rw [getD_set_of_ne _ _ _ _ (hne_inact win hst.winA)]; exact hst.winD
            settled := by
              intro u hu hua
              simp only at hua ⊢
              obtain ⟨a, ha⟩ := hst.settled u hu hua
              obtain ⟨b', hb', _⟩ := hmono u a ha
              exact ⟨b', hb'⟩ }

theorem foldl_relax_finv (g : Graph) (hn : NonNeg g) (hw : WF g) (seeds : List Nat) (win : Nat) (dwin : Rat)
    (ref : List (Option Rat)) (vec : Bool) (lw : Option Nat) :
    ∀ (es : List (Nat × Rat)) (st : St), (∀ e ∈ es, (win, e.1, e.2) ∈ g.edges) →
      FInv g seeds win dwin ref st →
      FInv g seeds win dwin ref (es.foldl (relax1 ref vec dwin lw) st) ∧
      ∀ e ∈ es, ∃ b, (es.foldl (relax1 ref vec dwin lw) st).dist.getD e.1 none = some b ∧ b ≤ dwin + e.2
  | [], st, _, hst => ⟨hst, fun e he => by simp at he⟩
  | e :: es, st, hes, hst => by
      simp only [List.foldl_cons]
      obtain ⟨h1, b1, hb1, hle1⟩ := relax1_finv g hn hw seeds win dwin ref vec lw st e (hes e (by simp)) hst
      obtain ⟨h2, hall⟩ := foldl_relax_finv g hn hw seeds win dwin ref vec lw es _
        (fun e' he' => hes e' (List.mem_cons_of_mem _ he')) h1
      refine ⟨h2, fun e' he' => ?_⟩
      rcases List.mem_cons.mp he' with rfl | he'
      · obtain ⟨b2, hb2, hle2⟩ := foldl_relax_mono ref vec dwin lw es _ e'.1 b1 hb1
        exact ⟨b2, hb2, le_trans hle2 hle1⟩
      · exact hall e' he'

theorem outEdges_mem (g : Graph) (win v : Nat) (w : Rat) (h : (win, v, w) ∈ g.edges) :
    (v, w) ∈ outEdges g win := by
  simp only [outEdges, List.mem_map, List.mem_filter, beq_iff_eq]
  exact ⟨(win, v, w), ⟨h, rfl⟩, rfl⟩

/-! ### the invariant between two iterations -/

structure DInv (g : Graph) (seeds : List Nat) (st : St) : Prop where
  dlen : st.dist.length = g.V
  alen : st.active.length = g.V
  ach : Inv g seeds st
  act : ∀ v b, st.active.getD v false = true → st.dist.getD v none = some b → (b, v) ∈ st.heap
  hp : ∀ p ∈ st.heap, ∃ b, st.dist.getD p.2 none = some b ∧ b ≤ p.1
  rel : ∀ u a, st.active.getD u false = false → st.dist.getD u none = some a →
          ∀ v w, (u, v, w) ∈ g.edges → ∃ b, st.dist.getD v none = some b ∧ b ≤ a + w
  sep : ∀ u a, st.active.getD u false = false → st.dist.getD u none = some a → ∀ p ∈ st.heap, a ≤ p.1
  sz : ∀ s ∈ seeds, st.dist.getD s none = some 0
  settled : ∀ u, u < g.V → st.active.getD u false = false → ∃ a, st.dist.getD u none = some a

def activeCount (st : St) : Nat := st.active.count true

theorem count_set_false (l : List Bool) (i : Nat) (h : l.getD i false = true) :
    (l.set i false).count true + 1 = l.count true := by
  have hlt := getDb_lt_of_true l i h
  rw [List.count_set hlt]
  have hi : l[i] = true := by
    simpa [List.getD_eq_getElem?_getD, List.getElem?_eq_getElem hlt] using h
  have hpos : 0 < l.count true := List.count_pos_iff.mpr (by rw [← hi]; exact List.getElem_mem hlt)
  simp [hi]
  omega

theorem foldl_relax_active (ref : List (Option Rat)) (vec : Bool) (dwin : Rat) (lw : Option Nat) :
    ∀ (es : List (Nat × Rat)) (st : St), (es.foldl (relax1 ref vec dwin lw) st).active = st.active
  | [], _ => rfl
  | e :: es, st => by
      simp only [List.foldl_cons]
      rw [foldl_relax_active ref vec dwin lw es]
      rcases relax1_cases ref vec dwin lw st e with ⟨h1, _⟩ | ⟨h1, _, _⟩ | ⟨h1, _, _⟩ <;> rw [h1]

theorem step_dinv (g : Graph) (hn : NonNeg g) (hw : WF g) (seeds : List Nat) (vec : Bool) (st st' : St)
    (hst : DInv g seeds st) (h : step g vec st = some st') :
    DInv g seeds st' ∧ activeCount st' + 1 = activeCount st := by
  unfold step at h
  cases hp : popActive st.active (st.heap.length + 1) st.heap with
  | none => rw [hp] at h; simp at h
  | some q =>
      obtain ⟨m, h'⟩ := q
      rw [hp] at h
      simp only [Option.some.injEq] at h
      obtain ⟨hm, hsub, hact, hmin', hmin, hkeep⟩ := popActive_strong _ _ _ _ _ hp
      -- the popped key is the stored distance of the popped vertex
      obtain ⟨b0, hb0, hb0le⟩ := hst.hp m hm
      have hkey : b0 = m.1 := le_antisymm hb0le (hmin (b0, m.2) (hst.act m.2 b0 hact hb0) hact)
      rw [hkey] at hb0
      clear hkey hb0le
      have hmlt : m.2 < st.active.length := getDb_lt_of_true _ _ hact
      have hmV : m.2 < g.V := by rw [← hst.alen]; exact hmlt
      set st1 : St := { st with heap := h', active := st.active.set m.2 false } with hst1
      have hinact1 : ∀ u, st1.active.getD u false = false → u ≠ m.2 → st.active.getD u false = false := by
        intro u hu hne
        simp only [hst1] at hu
        rwa [getDb_set_of_ne _ _ _ _ (Ne.symm hne)] at hu
      have hF : FInv g seeds m.2 m.1 st.dist st1 :=
        { dlen := hst.dlen
          alen := by simp only [hst1, List.length_set]; exact hst.alen
          ach := ⟨hst.ach.1, fun p hp => hst.ach.2 p (hsub p hp)⟩
          act := by
            intro v b hv hb
            simp only [hst1] at hv hb ⊢
            by_cases hvm : m.2 = v
            · subst hvm; rw [getDb_set_self _ _ _ hmlt] at hv; cases hv
            · rw [getDb_set_of_ne _ _ _ _ hvm] at hv
              exact hkeep (b, v) (hst.act v b hv hb) hv (Ne.symm hvm)
          hp := fun p hp => hst.hp p (hsub p hp)
          rel := fun u a hu hne ha v w he => hst.rel u a (hinact1 u hu hne) ha v w he
          low := by
            intro u a hu ha
            by_cases hum : u = m.2
            · subst hum
              simp only [hst1] at ha
              rw [hb0] at ha; cases ha; exact le_refl _
            · exact hst.sep u a (hinact1 u hu hum) ha m hm
          hlow := hmin'
          sz := hst.sz
          mono := fun v b hb => ⟨b, hb, le_refl _⟩
          winA := by simp only [hst1]; exact getDb_set_self _ _ _ hmlt
          winD := hb0
          settled := by
            intro u hu hua
            by_cases hum : u = m.2
            · subst hum; exact ⟨m.1, hb0⟩
            · exact hst.settled u hu (hinact1 u hua hum) }
      obtain ⟨hF', hall⟩ := foldl_relax_finv g hn hw seeds m.2 m.1 st.dist vec (st.lab.getD m.2 none)
        (outEdges g m.2) st1 (fun e he => mem_outEdges g m.2 e he) hF
      have hactive' : st'.active = st.active.set m.2 false := by
        rw [← h, foldl_relax_active]
      subst h
      refine ⟨?_, ?_⟩
      · exact
          { dlen := hF'.dlen, alen := hF'.alen, ach := hF'.ach, act := hF'.act, hp := hF'.hp
            rel := by
              intro u a hu ha v w he
              by_cases hum : u = m.2
              · subst hum
                rw [hF'.winD] at ha; cases ha
                exact hall (v, w) (outEdges_mem g m.2 v w he)
              · exact hF'.rel u a hu hum ha v w he
            sep := fun u a hu ha p hp => le_trans (hF'.low u a hu ha) (hF'.hlow p hp)
            sz := hF'.sz, settled := hF'.settled }
      · unfold activeCount
        rw [hactive']
        exact count_set_false _ _ hact

/-! ### initial state -/

theorem setAllFrom_length {α} (f : Nat → α) : ∀ (ss : List Nat) (i : Nat) (l : List α),
    (setAllFrom f ss i l).length = l.length
  | [], _, _ => rfl
  | s :: ss, i, l => by simp only [setAllFrom]; rw [setAllFrom_length f ss]; simp

theorem setAllFrom_get_mem {α} (f : Nat → Option α) : ∀ (ss : List Nat) (i : Nat) (l : List (Option α)) (s : Nat),
    s ∈ ss → s < l.length → ∃ j, (setAllFrom f ss i l).getD s none = f j
  | [], _, _, s, hs, _ => by simp at hs
  | a :: ss, i, l, s, hs, hl => by
      simp only [setAllFrom]
      by_cases hmem : s ∈ ss
      · exact setAllFrom_get_mem f ss (i + 1) _ s hmem (by simpa using hl)
      · have hsa : s = a := by
          rcases List.mem_cons.mp hs with h | h
          · exact h
          · exact absurd h hmem
        subst hsa
        refine ⟨i, ?_⟩
        have : ∀ (ss : List Nat) (k : Nat) (l' : List (Option α)), s ∉ ss →
            (setAllFrom f ss k l').getD s none = l'.getD s none := by
          intro ss
          induction ss with
          | nil => intro k l' _; rfl
          | cons b ss ih =>
              intro k l' hb
              simp only [setAllFrom]
              rw [ih (k + 1) _ (fun h => hb (List.mem_cons_of_mem _ h))]
              exact getD_set_of_ne _ _ _ _ (fun h => hb (by rw [h]; simp))
        rw [this ss (i + 1) _ hmem, getD_set_self _ _ _ hl]

theorem setAllFrom_lab : ∀ (ss : List Nat) (i : Nat) (l : List (Option Nat)) (v k : Nat),
    (setAllFrom (fun i => some i) ss i l).getD v none = some k →
      (∃ j, ss[j]? = some v ∧ k = i + j) ∨ l.getD v none = some k
  | [], _, l, v, k, h => Or.inr h
  | a :: ss, i, l, v, k, h => by
      simp only [setAllFrom] at h
      rcases setAllFrom_lab ss (i + 1) _ v k h with ⟨j, hj, hk⟩ | h'
      · exact Or.inl ⟨j + 1, by simpa using hj, by omega⟩
      · rcases getD_set_some _ _ _ _ _ h' with ⟨rfl, hb⟩ | h''
        · cases hb; exact Or.inl ⟨0, by simp, by omega⟩
        · exact Or.inr h''

theorem replicate_true_getD (n u : Nat) (h : (List.replicate n true).getD u false = false) : n ≤ u := by
  by_contra hc
  have hlt : u < n := Nat.lt_of_not_le hc
  simp [List.getD_eq_getElem?_getD, List.getElem?_replicate, hlt] at h

theorem replicate_none_getD {α} (n v : Nat) : (List.replicate n (none : Option α)).getD v none = none := by
  simp only [List.getD_eq_getElem?_getD, List.getElem?_replicate]
  split <;> rfl

theorem init_dist_some (g : Graph) (seeds : List Nat) (v : Nat) (b : Rat)
    (h : (initSt g seeds).dist.getD v none = some b) : v ∈ seeds ∧ b = 0 :=
  setAllFrom_zero seeds (fun _ => some 0) (fun _ => rfl) seeds 0 (List.replicate g.V none)
    (fun s hs => hs) (fun v b h => by rw [replicate_none_getD] at h; cases h) v b h

theorem init_dist_seed (g : Graph) (seeds : List Nat) (hs : ∀ s ∈ seeds, s < g.V) (s : Nat) (h : s ∈ seeds) :
    (initSt g seeds).dist.getD s none = some 0 := by
  obtain ⟨j, hj⟩ := setAllFrom_get_mem (fun _ => some (0 : Rat)) seeds 0 (List.replicate g.V none) s h
    (by simpa using hs s h)
  exact hj

theorem init_dinv (g : Graph) (seeds : List Nat) (hs : ∀ s ∈ seeds, s < g.V) : DInv g seeds (initSt g seeds) := by
  have hinact : ∀ u, (initSt g seeds).active.getD u false = false → ∀ a, (initSt g seeds).dist.getD u none ≠ some a := by
    intro u hu a ha
    have hle := replicate_true_getD g.V u hu
    have hlen : (initSt g seeds).dist.length = g.V := by
      simp [initSt, setAll, setAllFrom_length]
    rw [getD_none_of_le _ _ (by rw [hlen]; exact hle)] at ha
    cases ha
  exact
    { dlen := by simp [initSt, setAll, setAllFrom_length]
      alen := by simp [initSt]
      ach := init_inv g seeds
      act := by
        intro v b _ hb
        obtain ⟨hv, rfl⟩ := init_dist_some g seeds v b hb
        simp only [initSt, List.mem_map]
        exact ⟨v, hv, rfl⟩
      hp := by
        intro p hp
        simp only [initSt, List.mem_map] at hp
        obtain ⟨s, hsm, rfl⟩ := hp
        exact ⟨0, init_dist_seed g seeds hs s hsm, le_refl _⟩
      rel := fun u a hu ha => absurd ha (hinact u hu a)
      sep := fun u a hu ha => absurd ha (hinact u hu a)
      sz := init_dist_seed g seeds hs
      settled := by
        intro u hu hua
        have := replicate_true_getD g.V u hua
        omega }

/-! ### the whole loop -/

theorem iter_done (g : Graph) (hn : NonNeg g) (hw : WF g) (seeds : List Nat) (vec : Bool) :
    ∀ (n : Nat) (st : St), DInv g seeds st → activeCount st ≤ n →
      DInv g seeds (iter g vec n st) ∧
      ∀ v b, (iter g vec n st).dist.getD v none = some b → (iter g vec n st).active.getD v false = false
  | 0, st, hst, hc => by
      refine ⟨hst, fun v b _ => ?_⟩
      simp only [iter]
      have h0 : st.active.count true = 0 := Nat.le_zero.mp hc
      have hnot : true ∉ st.active := List.count_eq_zero.mp h0
      by_contra hne
      have htrue : st.active.getD v false = true := by simpa using hne
      have hlt := getDb_lt_of_true _ _ htrue
      apply hnot
      have : st.active[v] = true := by
        simpa [List.getD_eq_getElem?_getD, List.getElem?_eq_getElem hlt] using htrue
      rw [← this]; exact List.getElem_mem hlt
  | n + 1, st, hst, hc => by
      simp only [iter]
      cases hs : step g vec st with
      | none =>
          refine ⟨hst, fun v b hb => ?_⟩
          unfold step at hs
          cases hp : popActive st.active (st.heap.length + 1) st.heap with
          | some q => rw [hp] at hs; simp at hs
          | none =>
              by_contra hne
              have htrue : st.active.getD v false = true := by simpa using hne
              have := popActive_none st.active _ st.heap hp (Nat.lt_succ_self _) (b, v) (hst.act v b htrue hb)
              simp only at this
              rw [this] at htrue; cases htrue
      | some st' =>
          obtain ⟨hst', hcnt⟩ := step_dinv g hn hw seeds vec st st' hst hs
          exact iter_done g hn hw seeds vec n st' hst' (by omega)

theorem init_activeCount (g : Graph) (seeds : List Nat) : activeCount (initSt g seeds) = g.V := by
  simp [activeCount, initSt]

/-- for non-negative weights the relaxation certificate holds on the output of the loop, in both
    relaxation modes -/
theorem sssp_cert (g : Graph) (hn : NonNeg g) (hw : WF g) (seeds : List Nat) (hs : ∀ s ∈ seeds, s < g.V)
    (vec : Bool) : certOK g seeds (sssp g vec seeds).dist = true := by
  obtain ⟨hD, hdone⟩ := iter_done g hn hw seeds vec g.V (initSt g seeds) (init_dinv g seeds hs)
    (le_of_eq (init_activeCount g seeds))
  unfold sssp
  simp only [certOK, Bool.and_eq_true, seedsZero, relaxedAll, List.all_eq_true, beq_iff_eq]
  refine ⟨hD.sz, fun e he => ?_⟩
  cases hu : (iter g vec g.V (initSt g seeds)).dist.getD e.1 none with
  | none => rfl
  | some a =>
      simp only
      obtain ⟨b, hb, hle⟩ := hD.rel e.1 a (hdone e.1 a hu) hu e.2.1 e.2.2 he
      rw [hb]
      simpa using hle

/-! ### labels (Voronoi) -/

structure LInv (g : Graph) (seeds : List Nat) (st : St) : Prop where
  llen : st.lab.length = g.V
  dlen : st.dist.length = g.V
  lab : ∀ v i, st.lab.getD v none = some i →
          ∃ s b, seeds[i]? = some s ∧ st.dist.getD v none = some b ∧ Path g s v b
  unl : ∀ v, st.lab.getD v none = none → st.dist.getD v none = none

theorem relax1_linv (g : Graph) (hw : WF g) (seeds : List Nat) (win : Nat) (dwin : Rat)
    (ref : List (Option Rat)) (vec : Bool) (lw : Option Nat) (st : St) (e : Nat × Rat)
    (he : (win, e.1, e.2) ∈ g.edges)
    (hlw : ∃ i s, lw = some i ∧ seeds[i]? = some s ∧ Path g s win dwin)
    (hst : LInv g seeds st) : LInv g seeds (relax1 ref vec dwin lw st e) := by
  have hl : e.1 < g.V := (hw _ he).2
  rcases relax1_cases ref vec dwin lw st e with ⟨h1, _⟩ | ⟨h1, _, _⟩ | ⟨h1, _, _⟩
  · rw [h1]; exact hst
  · rw [h1]; exact ⟨hst.llen, hst.dlen, hst.lab, hst.unl⟩
  · rw [h1]
    obtain ⟨i0, s0, rfl, hs0, hp0⟩ := hlw
    have hll : e.1 < st.lab.length := by rw [hst.llen]; exact hl
    have hdl : e.1 < st.dist.length := by rw [hst.dlen]; exact hl
    exact
      { llen := by simp only [List.length_set]; exact hst.llen
        dlen := by simp only [List.length_set]; exact hst.dlen
        lab := by
          intro v i hv
          simp only at hv ⊢
          by_cases hvl : e.1 = v
          · subst hvl
            rw [getD_set_self _ _ _ hll] at hv
            cases hv
            exact ⟨s0, dwin + e.2, hs0, getD_set_self _ _ _ hdl, Path.snoc hp0 he⟩
          · rw [getD_set_of_ne _ _ _ _ hvl] at hv
            rw [getD_set_of_ne _ _ _ _ hvl]
            exact hst.lab v i hv
        unl := by
          intro v hv
          simp only at hv ⊢
          by_cases hvl : e.1 = v
          · subst hvl
            rw [getD_set_self _ _ _ hll] at hv
            cases hv
          · rw [getD_set_of_ne _ _ _ _ hvl] at hv
            rw [getD_set_of_ne _ _ _ _ hvl]
            exact hst.unl v hv }

theorem foldl_relax_linv (g : Graph) (hw : WF g) (seeds : List Nat) (win : Nat) (dwin : Rat)
    (ref : List (Option Rat)) (vec : Bool) (lw : Option Nat)
    (hlw : ∃ i s, lw = some i ∧ seeds[i]? = some s ∧ Path g s win dwin) :
    ∀ (es : List (Nat × Rat)) (st : St), (∀ e ∈ es, (win, e.1, e.2) ∈ g.edges) → LInv g seeds st →
      LInv g seeds (es.foldl (relax1 ref vec dwin lw) st)
  | [], _, _, hst => hst
  | e :: es, st, hes, hst => by
      simp only [List.foldl_cons]
      exact foldl_relax_linv g hw seeds win dwin ref vec lw hlw es _
        (fun e' he' => hes e' (List.mem_cons_of_mem _ he'))
        (relax1_linv g hw seeds win dwin ref vec lw st e (hes e (by simp)) hlw hst)

theorem step_linv (g : Graph) (hw : WF g) (seeds : List Nat) (vec : Bool) (st st' : St)
    (hD : DInv g seeds st) (hL : LInv g seeds st) (h : step g vec st = some st') : LInv g seeds st' := by
  unfold step at h
  cases hp : popActive st.active (st.heap.length + 1) st.heap with
  | none => rw [hp] at h; simp at h
  | some q =>
      obtain ⟨m, h'⟩ := q
      rw [hp] at h
      simp only [Option.some.injEq] at h
      obtain ⟨hm, _, hact, _, hmin, _⟩ := popActive_strong _ _ _ _ _ hp
      obtain ⟨b0, hb0, hb0le⟩ := hD.hp m hm
      have hkey : b0 = m.1 := le_antisymm hb0le (hmin (b0, m.2) (hD.act m.2 b0 hact hb0) hact)
      rw [hkey] at hb0
      subst h
      have hlw : ∃ i s, st.lab.getD m.2 none = some i ∧ seeds[i]? = some s ∧ Path g s m.2 m.1 := by
        cases hl : st.lab.getD m.2 none with
        | none => have := hL.unl m.2 hl; rw [hb0] at this; cases this
        | some i =>
            obtain ⟨s, b, hs, hb, hpath⟩ := hL.lab m.2 i hl
            rw [hb0] at hb; cases hb
            exact ⟨i, s, rfl, hs, hpath⟩
      exact foldl_relax_linv g hw seeds m.2 m.1 st.dist vec _ hlw (outEdges g m.2) _
        (fun e he => mem_outEdges g m.2 e he) ⟨hL.llen, hL.dlen, hL.lab, hL.unl⟩

theorem iter_linv (g : Graph) (hn : NonNeg g) (hw : WF g) (seeds : List Nat) (vec : Bool) :
    ∀ (n : Nat) (st : St), DInv g seeds st → LInv g seeds st → LInv g seeds (iter g vec n st)
  | 0, _, _, hL => hL
  | n + 1, st, hD, hL => by
      simp only [iter]
      cases hs : step g vec st with
      | none => exact hL
      | some st' =>
          exact iter_linv g hn hw seeds vec n st' (step_dinv g hn hw seeds vec st st' hD hs).1
            (step_linv g hw seeds vec st st' hD hL hs)

theorem init_linv (g : Graph) (seeds : List Nat) (hs : ∀ s ∈ seeds, s < g.V) : LInv g seeds (initSt g seeds) :=
  { llen := by simp [initSt, setAll, setAllFrom_length]
    dlen := by simp [initSt, setAll, setAllFrom_length]
    lab := by
      intro v i hv
      rcases setAllFrom_lab seeds 0 (List.replicate g.V none) v i hv with ⟨j, hj, hk⟩ | h
      · have hi : i = j := by omega
        subst hi
        have hmem : v ∈ seeds := List.mem_of_getElem? hj
        exact ⟨v, 0, hj, init_dist_seed g seeds hs v hmem, Path.nil v⟩
      · rw [replicate_none_getD] at h; cases h
    unl := by
      intro v hv
      cases hd : (initSt g seeds).dist.getD v none with
      | none => rfl
      | some b =>
          obtain ⟨hmem, _⟩ := init_dist_some g seeds v b hd
          obtain ⟨j, hj⟩ := setAllFrom_get_mem (fun i => some i) seeds 0 (List.replicate g.V none) v hmem
            (by simpa using hs v hmem)
          have : (initSt g seeds).lab.getD v none = some j := hj
          rw [hv] at this; cases this }

theorem sssp_linv (g : Graph) (hn : NonNeg g) (hw : WF g) (seeds : List Nat) (hs : ∀ s ∈ seeds, s < g.V)
    (vec : Bool) : LInv g seeds (sssp g vec seeds) :=
  iter_linv g hn hw seeds vec g.V _ (init_dinv g seeds hs) (init_linv g seeds hs)

end NipyVerif.C11
