/- C09 — moment theorems: `L1_moments` (weighted median + mean absolute deviation),
   correlation coefficient and correlation ratio as textbook statistics. -/
import NipyVerif.Model.C09
import Mathlib.Algebra.BigOperators.Intervals
import Mathlib.Algebra.Order.Field.Basic
import Mathlib.Algebra.Order.Field.Rat
import Mathlib.Tactic.Ring
import Mathlib.Tactic.Linarith
import Mathlib.Tactic.FieldSimp
import Mathlib.Tactic.Positivity

namespace NipyVerif.C09

/-! ### `isum` algebra -/

theorem isum_append (f : Nat → Rat) (k : Nat) (a b : List Rat) :
    isum f k (a ++ b) = isum f k a + isum f (k + a.length) b := by
  induction a generalizing k with
  | nil => simp [isum]
  | cons x xs ih =>
      simp only [List.cons_append, isum, ih, List.length_cons]
      have : k + 1 + xs.length = k + (xs.length + 1) := by omega
      rw [this]; ring

theorem isum_congr (f g : Nat → Rat) (k : Nat) (l : List Rat)
    (h : ∀ j, k ≤ j → j < k + l.length → f j = g j) : isum f k l = isum g k l := by
  induction l generalizing k with
  | nil => simp [isum]
  | cons x xs ih =>
      simp only [isum]
      rw [h k (le_refl _) (by simp),
        ih (k + 1) (fun j h1 h2 => h j (by omega) (by simp only [List.length_cons]; omega))]

theorem isum_add (f g : Nat → Rat) (k : Nat) (l : List Rat) :
    isum (fun j => f j + g j) k l = isum f k l + isum g k l := by
  induction l generalizing k with
  | nil => simp [isum]
  | cons x xs ih => simp only [isum, ih]; ring

theorem isum_smul (a : Rat) (f : Nat → Rat) (k : Nat) (l : List Rat) :
    isum (fun j => a * f j) k l = a * isum f k l := by
  induction l generalizing k with
  | nil => simp [isum]
  | cons x xs ih => simp only [isum, ih]; ring

theorem isum_const (a : Rat) (k : Nat) (l : List Rat) :
    isum (fun _ => a) k l = a * l.sum := by
  induction l generalizing k with
  | nil => simp [isum]
  | cons x xs ih => simp only [isum, ih, List.sum_cons]; ring

theorem isum_one (k : Nat) (l : List Rat) : isum (fun _ => 1) k l = l.sum := by
  rw [isum_const]; ring

/-- `Σ (a + b*j) l_j` -/
theorem isum_affine (a b : Rat) (k : Nat) (l : List Rat) :
    isum (fun (j : Nat) => a + b * (j : Rat)) k l =
      a * l.sum + b * isum (fun (j : Nat) => (j : Rat)) k l := by
  induction l generalizing k with
  | nil => simp [isum]
  | cons x xs ih => simp only [isum, ih, List.sum_cons]; ring

/-- `Σ (f-a)(g-b) l_j` expanded -/
theorem isum_cov (f g : Nat → Rat) (a b : Rat) (k : Nat) (l : List Rat) :
    isum (fun j => (f j - a) * (g j - b)) k l =
      isum (fun j => f j * g j) k l - b * isum f k l - a * isum g k l + a * b * l.sum := by
  induction l generalizing k with
  | nil => simp [isum]
  | cons x xs ih => simp only [isum, ih, List.sum_cons]; ring

theorem tailMoment_eq_isum (k : Nat) (l : List Rat) :
    tailMoment k l = isum (fun (j : Nat) => (j : Rat)) k l := by
  induction l generalizing k with
  | nil => simp [tailMoment, isum]
  | cons x xs ih => simp only [tailMoment, isum, ih]

/-! ### A. `L1_moments` -/

/-- cumulative mass `h[0] + … + h[i]` -/
def pre (h : List Rat) (i : Nat) : Rat := (h.take (i + 1)).sum

/-- first moment of the prefix: `Σ_{k ≤ i} k * h[k]` -/
def mom (h : List Rat) (i : Nat) : Rat := isum (fun (k : Nat) => (k : Rat)) 0 (h.take (i + 1))

theorem pre_succ (h : List Rat) (i : Nat) : pre h (i + 1) = pre h i + h.getD (i + 1) 0 := by
  unfold pre
  rw [List.take_add_one, List.sum_append, List.getD_eq_getElem?_getD]
  cases h[i + 1]? <;> simp

theorem mom_succ (h : List Rat) (i : Nat) :
    mom h (i + 1) = mom h i + ((i + 1 : Nat) : Rat) * h.getD (i + 1) 0 := by
  unfold mom
  rw [List.take_add_one, isum_append, List.getD_eq_getElem?_getD]
  cases hx : h[i + 1]? with
  | none => simp [isum]
  | some x =>
      have hlt : i + 1 < h.length := by
        by_contra hc
        rw [List.getElem?_eq_none (by omega)] at hx
        cases hx
      have hlen : (List.take (i + 1) h).length = i + 1 := by
        rw [List.length_take]; omega
      simp [isum, hlen]

theorem pre_zero (h : List Rat) : pre h 0 = h.getD 0 0 := by
  cases h <;> simp [pre]

theorem mom_zero (h : List Rat) : mom h 0 = 0 := by
  cases h <;> simp [mom, isum]

theorem pre_full (h : List Rat) (i : Nat) (hi : h.length ≤ i + 1) : pre h i = h.sum := by
  unfold pre; rw [List.take_of_length_le hi]

/-- loop invariant of `L1_moments`' `while`: started in a state that matches the prefix sums and
    in which no earlier prefix reaches `lim`, the loop stops at the least index whose prefix does. -/
theorem l1Loop_inv (h : List Rat) (lim : Rat) (hlim : lim ≤ h.sum) :
    ∀ (fuel i : Nat), i < h.length → h.length ≤ i + fuel + 1 →
      (∀ k < i, pre h k < lim) →
      ∃ m, m < h.length ∧ l1Loop h lim fuel i (pre h i) (-mom h i) = (m, pre h m, -mom h m) ∧
        lim ≤ pre h m ∧ ∀ k < m, pre h k < lim := by
  intro fuel
  induction fuel with
  | zero =>
      intro i hi hf hprev
      have : pre h i = h.sum := pre_full h i (by omega)
      exact ⟨i, hi, rfl, by rw [this]; exact hlim, hprev⟩
  | succ fuel ih =>
      intro i hi hf hprev
      by_cases hc : pre h i < lim
      · have hi1 : i + 1 < h.length := by
          by_contra hge
          have : pre h i = h.sum := pre_full h i (by omega)
          linarith
        obtain ⟨m, hm, heq, hle, hall⟩ := ih (i + 1) hi1 (by omega) (by
          intro k hk
          rcases Nat.lt_succ_iff_lt_or_eq.mp hk with h1 | h1
          · exact hprev k h1
          · subst h1; exact hc)
        refine ⟨m, hm, ?_, hle, hall⟩
        rw [l1Loop, if_pos hc, ← heq, pre_succ, mom_succ]
        congr 1
        ring
      · exact ⟨i, hi, by rw [l1Loop, if_neg hc], not_lt.mp hc, hprev⟩

/-- the absolute first moment about position `m`, split at `m` as the C code accumulates it -/
theorem absdev_split (h : List Rat) (m : Nat) (hm : m < h.length) :
    isum (fun (k : Nat) => |(k : Rat) - (m : Rat)|) 0 h =
      -mom h m + (2 * pre h m - h.sum) * (m : Rat) + tailMoment (m + 1) (h.drop (m + 1)) := by
  conv_lhs => rw [← List.take_append_drop (m + 1) h]
  rw [isum_append]
  have hlen : (h.take (m + 1)).length = m + 1 := by rw [List.length_take]; omega
  rw [hlen, zero_add]
  rw [isum_congr (fun (k : Nat) => |(k : Rat) - (m : Rat)|)
      (fun (k : Nat) => (m : Rat) + (-1) * (k : Rat)) 0 (h.take (m + 1)) (by
        intro j _ hj
        rw [hlen] at hj
        have : (j : Rat) ≤ (m : Rat) := by exact_mod_cast (by omega : j ≤ m)
        rw [abs_of_nonpos (by linarith)]; ring)]
  rw [isum_congr (fun (k : Nat) => |(k : Rat) - (m : Rat)|)
      (fun (k : Nat) => (-(m : Rat)) + 1 * (k : Rat)) (m + 1) (h.drop (m + 1)) (by
        intro j hj _
        have : (m : Rat) ≤ (j : Rat) := by exact_mod_cast (by omega : m ≤ j)
        rw [abs_of_nonneg (by linarith)]; ring)]
  rw [isum_affine, isum_affine, tailMoment_eq_isum]
  have hd : (h.drop (m + 1)).sum = h.sum - pre h m := by
    have := List.sum_take_add_sum_drop h (m + 1)
    unfold pre; linarith
  rw [hd]; unfold pre mom; ring

/-- `L1_moments` for a histogram of positive total mass (non-negativity of the bins is not
    needed): total, weighted median index, mean absolute deviation about it. -/
theorem l1Moments_spec_of_pos (h : List Rat) (hpos : 0 < h.sum) :
    (l1Moments h).1 = h.sum ∧
    ∃ m : Nat, (l1Moments h).2.1 = (m : Rat) ∧ m < h.length ∧
      h.sum / 2 ≤ (h.take (m + 1)).sum ∧
      (∀ k < m, (h.take (k + 1)).sum < h.sum / 2) ∧
      (l1Moments h).2.2 = isum (fun (k : Nat) => |(k : Rat) - (m : Rat)|) 0 h / h.sum := by
  have hne : 0 < h.length := by
    cases h with
    | nil => simp at hpos
    | cons x xs => simp
  obtain ⟨m, hm, heq, hle, hall⟩ :=
    l1Loop_inv h (h.sum / 2) (by linarith) h.length 0 hne (by omega) (by intro k hk; omega)
  rw [pre_zero, mom_zero, neg_zero] at heq
  have e : l1Moments h = (h.sum, (m : Rat),
      (-mom h m + (2 * pre h m - h.sum) * (m : Rat) + tailMoment (m + 1) (h.drop (m + 1)))
        / h.sum) := by
    simp only [l1Moments, gt_iff_lt, hpos, if_true, heq]
  refine ⟨by rw [e], m, by rw [e], hm, hle, hall, ?_⟩
  rw [e, absdev_split h m hm]

/-- **A.** `L1_moments` computes the total, the weighted median index (least index whose
    cumulative mass reaches half the total) and the mean absolute deviation about it. -/
theorem l1Moments_spec (h : List Rat) (_hnn : ∀ x ∈ h, 0 ≤ x) (hpos : 0 < h.sum) :
    (l1Moments h).1 = h.sum ∧
    ∃ m : Nat, (l1Moments h).2.1 = (m : Rat) ∧ m < h.length ∧
      h.sum / 2 ≤ (h.take (m + 1)).sum ∧
      (∀ k < m, (h.take (k + 1)).sum < h.sum / 2) ∧
      (l1Moments h).2.2 = isum (fun (k : Nat) => |(k : Rat) - (m : Rat)|) 0 h / h.sum :=
  l1Moments_spec_of_pos h hpos

example : l1Moments [1, 0, 2, 1] = (4, 2, 3 / 4) := by decide +kernel
example : (∀ x ∈ ([1, 0, 2, 1] : List Rat), 0 ≤ x) ∧ 0 < ([1, 0, 2, 1] : List Rat).sum := by
  decide +kernel
example : isum (fun (k : Nat) => |(k : Rat) - (2 : Nat)|) 0 [1, 0, 2, 1] / 4 = 3 / 4 := by
  decide +kernel

/-! ### B. correlation coefficient -/

/-- `Σ_r Σ_c f r c * H[r][c]`, rows numbered from `r0` -/
def esumFrom (f : Nat → Nat → Rat) : Nat → List (List Rat) → Rat
  | _, [] => 0
  | r, row :: rest => isum (f r) 0 row + esumFrom f (r + 1) rest

/-- `Σ_r Σ_c f r c * H[r][c]` (`r` row index, `c` column index): the unnormalised expectation
    of `f` under the joint histogram -/
def esum (f : Nat → Nat → Rat) (H : List (List Rat)) : Rat := esumFrom f 0 H

theorem esumFrom_add (f g : Nat → Nat → Rat) (k : Nat) (H : List (List Rat)) :
    esumFrom (fun r c => f r c + g r c) k H = esumFrom f k H + esumFrom g k H := by
  induction H generalizing k with
  | nil => simp [esumFrom]
  | cons row rest ih => simp only [esumFrom, ih, isum_add]; ring

theorem esumFrom_smul (a : Rat) (f : Nat → Nat → Rat) (k : Nat) (H : List (List Rat)) :
    esumFrom (fun r c => a * f r c) k H = a * esumFrom f k H := by
  induction H generalizing k with
  | nil => simp [esumFrom]
  | cons row rest ih => simp only [esumFrom, ih, isum_smul]; ring

theorem esumFrom_one (k : Nat) (H : List (List Rat)) :
    esumFrom (fun _ _ => 1) k H = total H := by
  induction H generalizing k with
  | nil => simp [esumFrom, total]
  | cons row rest ih =>
      simp only [esumFrom, ih, isum_one]
      simp [total]

theorem esumFrom_cov (f g : Nat → Nat → Rat) (a b : Rat) (k : Nat) (H : List (List Rat)) :
    esumFrom (fun r c => (f r c - a) * (g r c - b)) k H =
      esumFrom (fun r c => f r c * g r c) k H - b * esumFrom f k H - a * esumFrom g k H
        + a * b * total H := by
  induction H generalizing k with
  | nil => simp [esumFrom, total]
  | cons row rest ih =>
      simp only [esumFrom, ih, isum_cov]
      simp only [total, List.map_cons, List.sum_cons]
      ring

theorem total_eq_esum (H : List (List Rat)) : total H = esum (fun _ _ => 1) H :=
  (esumFrom_one 0 H).symm

theorem sumI_eq_esumFrom (f : Nat → Rat) (k : Nat) (H : List (List Rat)) :
    sumI f H = esumFrom (fun _ c => f c) k H := by
  induction H generalizing k with
  | nil => simp [esumFrom, sumI]
  | cons row rest ih =>
      have := ih (k + 1)
      simp only [sumI, esumFrom, List.map_cons, List.sum_cons] at this ⊢
      rw [this]

theorem sumI_eq_esum (f : Nat → Rat) (H : List (List Rat)) :
    sumI f H = esum (fun _ c => f c) H := sumI_eq_esumFrom f 0 H

theorem sumJ_eq_esumFrom (f : Nat → Rat) (k : Nat) (H : List (List Rat)) :
    isum f k (H.map List.sum) = esumFrom (fun r _ => f r) k H := by
  induction H generalizing k with
  | nil => simp [esumFrom, isum]
  | cons row rest ih =>
      simp only [esumFrom, List.map_cons, isum, ih, isum_const]

theorem sumJ_eq_esum (f : Nat → Rat) (H : List (List Rat)) :
    sumJ f H = esum (fun r _ => f r) H := sumJ_eq_esumFrom f 0 H

theorem sumIJ_eq_esumFrom (k : Nat) (H : List (List Rat)) :
    isum (fun (r : Nat) => (r : Rat)) k (H.map (isum (fun (c : Nat) => (c : Rat)) 0)) =
      esumFrom (fun (r c : Nat) => (c : Rat) * (r : Rat)) k H := by
  induction H generalizing k with
  | nil => simp [esumFrom, isum]
  | cons row rest ih =>
      simp only [esumFrom, List.map_cons, isum, ih]
      rw [← isum_smul]
      congr 1
      apply isum_congr
      intro j _ _; ring

theorem sumIJ_eq_esum (H : List (List Rat)) :
    sumIJ H = esum (fun (r c : Nat) => (c : Rat) * (r : Rat)) H := sumIJ_eq_esumFrom 0 H

/-- `E[(X-EX)(Y-EY)] = E[XY] - EX·EY` in the unnormalised form used below -/
theorem cov_identity (SXY SX SY n : Rat) (hn : n ≠ 0) :
    (SXY - SY / n * SX - SX / n * SY + SX / n * (SY / n) * n) / n
      = SXY / n - SX / n * (SY / n) := by
  field_simp; ring

theorem tiny_pos : 0 < tiny := by unfold tiny; positivity

theorem nonzero_of_le {x : Rat} (h : tiny ≤ x) : nonzero x = x := by
  unfold nonzero; rw [if_neg (not_lt.mpr h)]

/-- centred second moment of the column index under the joint histogram -/
theorem esum_varI (H : List (List Rat)) (hn : total H ≠ 0) :
    esum (fun _ (c : Nat) =>
        ((c : Rat) - esum (fun _ (c : Nat) => (c : Rat)) H / total H) ^ 2) H / total H
      = sumI (fun (c : Nat) => (c : Rat) ^ 2) H / total H
        - (sumI (fun (c : Nat) => (c : Rat)) H / total H) ^ 2 := by
  rw [sumI_eq_esum, sumI_eq_esum]
  simp only [sq]
  unfold esum
  rw [esumFrom_cov, cov_identity _ _ _ _ hn]

theorem esum_varJ (H : List (List Rat)) (hn : total H ≠ 0) :
    esum (fun (r : Nat) _ =>
        ((r : Rat) - esum (fun (r : Nat) _ => (r : Rat)) H / total H) ^ 2) H / total H
      = sumJ (fun (r : Nat) => (r : Rat) ^ 2) H / total H
        - (sumJ (fun (r : Nat) => (r : Rat)) H / total H) ^ 2 := by
  rw [sumJ_eq_esum, sumJ_eq_esum]
  simp only [sq]
  unfold esum
  rw [esumFrom_cov, cov_identity _ _ _ _ hn]

theorem esum_covIJ (H : List (List Rat)) (hn : total H ≠ 0) :
    esum (fun (r c : Nat) =>
        ((c : Rat) - esum (fun _ (c : Nat) => (c : Rat)) H / total H)
          * ((r : Rat) - esum (fun (r : Nat) _ => (r : Rat)) H / total H)) H / total H
      = sumIJ H / total H
        - sumI (fun (c : Nat) => (c : Rat)) H / total H
          * (sumJ (fun (r : Nat) => (r : Rat)) H / total H) := by
  rw [sumI_eq_esum, sumJ_eq_esum, sumIJ_eq_esum]
  unfold esum
  rw [esumFrom_cov, cov_identity _ _ _ _ hn]

/-- **B.** the correlation-coefficient measure is the squared Pearson correlation of the
    column index `I` and row index `J` under the normalised joint histogram. -/
theorem cc_textbook (H : List (List Rat)) (hn : tiny ≤ total H) :
    let n := total H
    let mI := esum (fun _ (c : Nat) => (c : Rat)) H / n
    let mJ := esum (fun (r : Nat) _ => (r : Rat)) H / n
    let cov := esum (fun (r c : Nat) => ((c : Rat) - mI) * ((r : Rat) - mJ)) H / n
    let vI := esum (fun _ (c : Nat) => ((c : Rat) - mI) ^ 2) H / n
    let vJ := esum (fun (r : Nat) _ => ((r : Rat) - mJ) ^ 2) H / n
    tiny ^ 2 ≤ vI * vJ → (cc H).1 = cov ^ 2 / (vI * vJ) ∧ (cc H).2 = n := by
  intro n mI mJ cov vI vJ hp
  have hn0 : total H ≠ 0 := ne_of_gt (lt_of_lt_of_le tiny_pos hn)
  have hvI := esum_varI H hn0
  have hvJ := esum_varJ H hn0
  have hcov := esum_covIJ H hn0
  simp only [cc, nonzero_of_le hn]
  rw [← hvI, ← hvJ, ← hcov]
  exact ⟨by rw [if_neg (not_lt.mpr hp)], rfl⟩

example : cc [[2, 1], [1, 2]] = (1 / 9, 6) := by decide +kernel
example : tiny ≤ total [[2, 1], [1, 2]] := by decide +kernel

/-! ### C. correlation ratio -/

/-- conditional mean of the column index within one row (0 for a row of zero mass) -/
def rowMean (row : List Rat) : Rat :=
  if row.sum = 0 then 0 else isum (fun (c : Nat) => (c : Rat)) 0 row / row.sum

/-- within-row sum of squares `Σ_r Σ_c H[r][c] * (c - m_r)²` -/
def withinSS (H : List (List Rat)) : Rat :=
  (H.map (fun row => isum (fun (c : Nat) => ((c : Rat) - rowMean row) ^ 2) 0 row)).sum

theorem all_zero_of_sum_zero (l : List Rat) (hnn : ∀ x ∈ l, 0 ≤ x) (hs : l.sum = 0) :
    ∀ x ∈ l, x = 0 := by
  induction l with
  | nil => simp
  | cons y ys ih =>
      have hy : 0 ≤ y := hnn y (by simp)
      have hys : 0 ≤ ys.sum := List.sum_nonneg (fun x hx => hnn x (by simp [hx]))
      rw [List.sum_cons] at hs
      have h1 : y = 0 := by linarith
      have h2 : ys.sum = 0 := by linarith
      intro x hx
      rcases List.mem_cons.mp hx with rfl | hx
      · exact h1
      · exact ih (fun x hx => hnn x (by simp [hx])) h2 x hx

theorem isum_zero_of_all_zero (f : Nat → Rat) (k : Nat) (l : List Rat) (h : ∀ x ∈ l, x = 0) :
    isum f k l = 0 := by
  induction l generalizing k with
  | nil => simp [isum]
  | cons y ys ih =>
      simp only [isum]
      rw [h y (by simp), ih (k + 1) (fun x hx => h x (by simp [hx]))]; ring

/-- per-row identity: mass × (E[c²] − E[c]²) = Σ_c row[c] (c − m_row)² -/
theorem row_var (row : List Rat) (hnn : ∀ x ∈ row, 0 ≤ x) (hs : row.sum = 0 ∨ tiny ≤ row.sum) :
    row.sum * (isum (fun (c : Nat) => (c : Rat) ^ 2) 0 row / nonzero row.sum
        - (isum (fun (c : Nat) => (c : Rat)) 0 row / nonzero row.sum) ^ 2)
      = isum (fun (c : Nat) => ((c : Rat) - rowMean row) ^ 2) 0 row := by
  rcases hs with hs | hs
  · have hz : ∀ f : Nat → Rat, isum f 0 row = 0 := fun f =>
      isum_zero_of_all_zero f 0 row (all_zero_of_sum_zero row hnn hs)
    rw [hz, hz, hz, hs]; ring
  · have hpos : 0 < row.sum := lt_of_lt_of_le tiny_pos hs
    have hne : row.sum ≠ 0 := ne_of_gt hpos
    rw [nonzero_of_le hs]
    unfold rowMean
    rw [if_neg hne]
    simp only [sq]
    rw [isum_cov]
    field_simp; ring

theorem zipWith_rowSums (H : List (List Rat)) (g : List Rat → Rat) :
    (List.zipWith (· * ·) (rowSums H) (H.map g)).sum = (H.map (fun row => row.sum * g row)).sum := by
  unfold rowSums
  induction H with
  | nil => simp
  | cons row rest ih => simp only [List.map_cons, List.zipWith_cons_cons, List.sum_cons, ih]

/-- column sums of a matrix all of whose rows have length `w` -/
def colS (w : Nat) (H : List (List Rat)) : List Rat :=
  (List.range w).map (fun j => (H.map (fun row => row.getD j 0)).sum)

theorem isum_map_add (f : Nat → Rat) (a b : Nat → Rat) (k : Nat) (l : List Nat) :
    isum f k (l.map (fun j => a j + b j)) = isum f k (l.map a) + isum f k (l.map b) := by
  induction l generalizing k with
  | nil => simp [isum]
  | cons x xs ih => simp only [List.map_cons, isum, ih]; ring

theorem isum_map_zero (f : Nat → Rat) (k : Nat) (l : List Nat) :
    isum f k (l.map (fun _ => (0 : Rat))) = 0 := by
  induction l generalizing k with
  | nil => simp [isum]
  | cons x xs ih => simp only [List.map_cons, isum, ih]; ring

theorem range_map_getD (row : List Rat) :
    (List.range row.length).map (fun j => row.getD j 0) = row := by
  apply List.ext_getElem
  · simp
  · intro i h1 h2
    simp [List.getElem?_eq_getElem h2]

theorem isum_colS (f : Nat → Rat) (w : Nat) (H : List (List Rat))
    (hw : ∀ row ∈ H, row.length = w) : isum f 0 (colS w H) = sumI f H := by
  induction H with
  | nil =>
      simp only [colS, List.map_nil, List.sum_nil, sumI]
      exact isum_map_zero f 0 _
  | cons row rest ih =>
      have ih' := ih (fun r hr => hw r (by simp [hr]))
      have hrow : row.length = w := hw row (by simp)
      simp only [colS, sumI, List.map_cons, List.sum_cons] at ih' ⊢
      rw [isum_map_add, ih', ← hrow, range_map_getD]

theorem colSums_eq_colS (w : Nat) (row : List Rat) (rest : List (List Rat))
    (hrow : row.length = w) : colSums (row :: rest) = colS w (row :: rest) := by
  simp [colSums, colS, transpose, hrow, Function.comp_def]

theorem isum_colSums (f : Nat → Rat) (w : Nat) (H : List (List Rat))
    (hw : ∀ row ∈ H, row.length = w) : isum f 0 (colSums H) = sumI f H := by
  cases H with
  | nil => simp [colSums, transpose, sumI, isum]
  | cons row rest =>
      rw [colSums_eq_colS w row rest (hw row (by simp)), isum_colS f w _ hw]

/-- **C.** the correlation-ratio measure is `1 − E[Var(I | J)] / Var(I)`:
    within-row sum of squares about the conditional means over the total, divided by the
    variance of the column index. -/
theorem cr_textbook (H : List (List Rat)) (w : Nat)
    (hw : ∀ row ∈ H, row.length = w)
    (hnn : ∀ row ∈ H, ∀ x ∈ row, 0 ≤ x)
    (hrow : ∀ row ∈ H, row.sum = 0 ∨ tiny ≤ row.sum)
    (hn : tiny ≤ total H) :
    let n := total H
    let mI := esum (fun _ (c : Nat) => (c : Rat)) H / n
    let vI := esum (fun _ (c : Nat) => ((c : Rat) - mI) ^ 2) H / n
    tiny ≤ vI → (cr H).1 = 1 - (withinSS H / n) / vI ∧ (cr H).2 = n := by
  intro n mI vI hv
  have hn0 : total H ≠ 0 := ne_of_gt (lt_of_lt_of_le tiny_pos hn)
  have hvI := esum_varI H hn0
  have hW : (List.zipWith (· * ·) (rowSums H) (H.map (fun row =>
        isum (fun (c : Nat) => (c : Rat) ^ 2) 0 row / nonzero row.sum
          - (isum (fun (c : Nat) => (c : Rat)) 0 row / nonzero row.sum) ^ 2))).sum
      = withinSS H := by
    rw [zipWith_rowSums]
    unfold withinSS
    congr 1
    apply List.map_congr_left
    intro row hr
    exact row_var row (hnn row hr) (hrow row hr)
  simp only [cr, nonzero_of_le hn, isum_colSums _ w H hw]
  rw [hW, ← hvI, nonzero_of_le hv]
  exact ⟨rfl, rfl⟩

example : cr [[2, 1], [1, 2]] = (1 / 9, 6) := by decide +kernel
example : (∀ row ∈ [[2, 1], [1, 2]], row.length = 2) ∧ tiny ≤ total [[2, 1], [1, 2]] := by
  decide +kernel

/-- `esum` with a weight that depends on the whole row `H[r]` is a sum over rows -/
theorem esumFrom_getD (g : List Rat → Nat → Rat) (P H : List (List Rat)) :
    esumFrom (fun r c => g ((P ++ H).getD r []) c) P.length H
      = (H.map (fun row => isum (g row) 0 row)).sum := by
  induction H generalizing P with
  | nil => simp [esumFrom]
  | cons row rest ih =>
      have := ih (P ++ [row])
      simp only [List.append_assoc, List.singleton_append, List.length_append,
        List.length_singleton] at this
      simp only [esumFrom, List.map_cons, List.sum_cons, this]
      congr 1
      simp

/-- the within-row sum of squares in double-sum form, `m_r = rowMean H[r]` -/
theorem withinSS_eq_esum (H : List (List Rat)) :
    withinSS H = esum (fun (r c : Nat) => ((c : Rat) - rowMean (H.getD r [])) ^ 2) H := by
  have := esumFrom_getD (fun row (c : Nat) => ((c : Rat) - rowMean row) ^ 2) [] H
  simp only [List.nil_append, List.length_nil] at this
  unfold withinSS esum
  rw [this]

/-- **C**, double-sum form: `η² = 1 − (Σ_r Σ_c H[r][c] (c − m_r)² / n) / vI`. -/
theorem cr_textbook_esum (H : List (List Rat)) (w : Nat)
    (hw : ∀ row ∈ H, row.length = w)
    (hnn : ∀ row ∈ H, ∀ x ∈ row, 0 ≤ x)
    (hrow : ∀ row ∈ H, row.sum = 0 ∨ tiny ≤ row.sum)
    (hn : tiny ≤ total H) :
    let n := total H
    let mI := esum (fun _ (c : Nat) => (c : Rat)) H / n
    let vI := esum (fun _ (c : Nat) => ((c : Rat) - mI) ^ 2) H / n
    tiny ≤ vI →
      (cr H).1 = 1 - (esum (fun (r c : Nat) => ((c : Rat) - rowMean (H.getD r [])) ^ 2) H / n) / vI
        ∧ (cr H).2 = n := by
  intro n mI vI hv
  rw [← withinSS_eq_esum]
  exact cr_textbook H w hw hnn hrow hn hv

-- the hypotheses of B and C hold on a concrete histogram (one empty row included)
example : tiny ≤ total [[2, 1, 0], [0, 0, 0], [1, 0, 2]] := by decide +kernel
example : ∀ row ∈ [[2, 1, 0], [0, 0, 0], [1, 0, 2]], row.length = 3 := by decide +kernel
example : ∀ row ∈ [[2, 1, 0], [0, 0, 0], [1, 0, 2]], ∀ x ∈ row, (0 : Rat) ≤ x := by decide +kernel
example : ∀ row ∈ [[2, 1, 0], [0, 0, 0], [1, 0, 2]], row.sum = 0 ∨ tiny ≤ row.sum := by
  decide +kernel
example : esum (fun _ (c : Nat) => (c : Rat)) [[2, 1, 0], [0, 0, 0], [1, 0, 2]] / 6 = 5 / 6 := by
  decide +kernel
example : tiny ≤ esum (fun _ (c : Nat) => ((c : Rat) - 5 / 6) ^ 2)
    [[2, 1, 0], [0, 0, 0], [1, 0, 2]] / 6 := by decide +kernel
example : cr [[2, 1, 0], [0, 0, 0], [1, 0, 2]] = (9 / 29, 6) := by decide +kernel
example : withinSS [[2, 1, 0], [0, 0, 0], [1, 0, 2]] = 10 / 3 := by decide +kernel
example : esum (fun (r : Nat) _ => (r : Rat)) [[2, 1, 0], [0, 0, 0], [1, 0, 2]] / 6 = 1 := by
  decide +kernel
example : tiny ^ 2 ≤
    esum (fun _ (c : Nat) => ((c : Rat) - 5 / 6) ^ 2) [[2, 1, 0], [0, 0, 0], [1, 0, 2]] / 6
    * (esum (fun (r : Nat) _ => ((r : Rat) - 1) ^ 2) [[2, 1, 0], [0, 0, 0], [1, 0, 2]] / 6) := by
  decide +kernel

end NipyVerif.C09

