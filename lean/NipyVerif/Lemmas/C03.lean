/- Helper lemmas for C03 (list access, inversion of the `nipy2nifti` body). -/
import NipyVerif.Model.C03
import Mathlib.Tactic.Ring
import Mathlib.Tactic.Linarith
import Mathlib.Algebra.BigOperators.Intervals
import Mathlib.Algebra.Order.Field.Rat
import Mathlib.Data.List.Perm.Subperm
import Mathlib.Tactic.IntervalCases

namespace NipyVerif.C03
open List

theorem getD_range_map {α} (f : Nat → α) (n i : Nat) (d : α) (h : i < n) :
    ((List.range n).map f).getD i d = f i := by
  simp [List.getD_eq_getElem?_getD, h]

theorem all_range {n : Nat} {p : Nat → Bool} :
    (List.range n).all p = true ↔ ∀ i, i < n → p i = true := by
  simp [List.all_eq_true]

theorem idxOf?_getElem? {α} [BEq α] [LawfulBEq α] (l : List α) (a : α) (i : Nat)
    (h : l.idxOf? a = some i) : l[i]? = some a := by
  induction l generalizing i with
  | nil => simp at h
  | cons x xs ih =>
    rw [List.idxOf?_cons] at h
    by_cases hx : x == a
    · simp [hx] at h; subst h; simp at hx; simp [hx]
    · simp [hx] at h
      obtain ⟨j, hj, rfl⟩ := h
      simpa using ih j hj

theorem sum_range_map (f : Nat → Rat) (n : Nat) :
    ((List.range n).map f).sum = ∑ i ∈ Finset.range n, f i := rfl

theorem rabs_nonneg (x : Rat) : 0 ≤ rabs x := by
  unfold rabs; split_ifs with h <;> linarith

theorem rabs_of_nonneg {x : Rat} (h : 0 ≤ x) : rabs x = x := by
  unfold rabs; rw [if_neg (by linarith)]

/-- inversion of `body`: what an accepted image went through -/
theorem body_ok_inv {strict fix : Bool} {orient : Mat → List (Option Nat)} {sq : Rat → Rat}
    {g : Img} {h : Hdr} (hb : body strict fix orient sq g = .ok h) :
    spaceDecoupled g = true ∧ nspCoupled g = false ∧
    ∃ xyz sf qf, xyzAffine strict orient g = some xyz ∧ spaceCodes strict sq g xyz = .ok (sf, qf) ∧
      g.n - 3 ≤ 4 ∧
      ((g.n - 3 = 0 ∧ h = header0 g xyz sf qf) ∨
       (g.n - 3 ≠ 0 ∧
        finish g (header0 g xyz sf qf) (pixdims sq g) (findTimeLike orient fix g) = .ok h)) := by
  unfold body at hb
  by_cases h1 : (!spaceDecoupled g) = true
  · rw [if_pos h1] at hb; cases hb
  rw [if_neg h1] at hb
  by_cases h2 : nspCoupled g = true
  · rw [if_pos h2] at hb; cases hb
  rw [if_neg h2] at hb
  split at hb
  · cases hb
  · rename_i xyz hx
    split at hb
    · cases hb
    · rename_i sf qf hs
      refine ⟨by simpa using h1, by simpa using h2, xyz, sf, qf, hx, hs, ?_⟩
      by_cases h3 : g.n - 3 = 0
      · rw [if_pos h3] at hb
        exact ⟨by omega, Or.inl ⟨h3, by cases hb; rfl⟩⟩
      · rw [if_neg h3] at hb
        by_cases h4 : g.n - 3 > 4
        · rw [if_pos h4] at hb; cases hb
        · rw [if_neg h4] at hb
          exact ⟨by omega, Or.inr ⟨h3, hb⟩⟩

/-- inversion of `finish` -/
theorem finish_ok_inv {g : Img} {h0 h : Hdr} {pix : List Rat} {r : Except Err (Option TL)}
    (hf : finish g h0 pix r = .ok h) :
    (r = .ok none ∧ g.n - 3 ≠ 4 ∧ h = noTimeHdr g h0 pix) ∨
    (∃ tl, r = .ok (some tl) ∧ ¬(tl.name = "t" ∧ anyTrans g = true ∧ tl.outAx = none) ∧
      h = timeHdr g h0 pix tl) := by
  unfold finish at hf
  split at hf
  · cases hf
  · split_ifs at hf with h1
    exact Or.inl ⟨rfl, h1, by cases hf; rfl⟩
  · rename_i tl
    split_ifs at hf with h1
    exact Or.inr ⟨tl, rfl, h1, by cases hf; rfl⟩

theorem spaceDecoupled_iff (g : Img) : spaceDecoupled g = true ↔
    ∀ r c, r < g.n - 3 → c < 3 →
      rabs (entry g.aff (r + 3) c) ≤ atol ∧ rabs (entry g.aff c (r + 3)) ≤ atol := by
  unfold spaceDecoupled close0
  simp only [Bool.and_eq_true, all_range, decide_eq_true_eq]
  constructor
  · rintro ⟨h1, h2⟩ r c hr hc; exact ⟨h1 r hr c hc, h2 c hc r hr⟩
  · intro h; exact ⟨fun r hr c hc => (h r c hr hc).1, fun c hc r hr => (h r c hr hc).2⟩

theorem two_le_filter_length (k : Nat) (p : Nat → Bool) (a b : Nat) (ha : a < k) (hb : b < k)
    (hab : a ≠ b) (pa : p a = true) (pb : p b = true) :
    1 < ((List.range k).filter p).length := by
  have hsub : [a, b] ⊆ (List.range k).filter p := by
    intro x hx
    simp only [List.mem_cons, List.not_mem_nil, or_false] at hx
    rcases hx with rfl | rfl <;> simp [List.mem_filter, *]
  have hnd : [a, b].Nodup := by simp [hab]
  have := (List.subperm_of_subset hnd hsub).length_le
  simp only [List.length_cons, List.length_nil] at this
  omega

theorem nipy2nifti_ok_inv {strict fix : Bool} {orient : Mat → List (Option Nat)} {sq : Rat → Rat}
    {g : Img} {h : Hdr} (hn : nipy2nifti strict fix orient sq g = .ok h) :
    ∃ x, asXyzImage strict orient g = some x ∧ body strict fix orient sq x = .ok h := by
  unfold nipy2nifti at hn
  split at hn
  · cases hn
  · rename_i x hx; exact ⟨x, hx, hn⟩

variable (strict : Bool) in
theorem xyzOrder_none_of_no_x (names : List String)
    (h : ∀ nm ∈ names, name2xyz strict nm ≠ some 0) : xyzOrder strict names = none := by
  have h0 : ¬ (0 ∈ names.zipIdx.map (fun p => match name2xyz strict p.1 with
                                          | some k => k
                                          | none => names.length + p.2)) := by
    intro hm
    obtain ⟨p, hp, h0⟩ := List.mem_map.1 hm
    have hmem : p.1 ∈ names := by
      have := List.mem_zipIdx hp
      rw [this.2.2]; exact List.getElem_mem _
    have hlen : 0 < names.length := List.length_pos_of_mem hmem
    have hh := h p.1 hmem
    cases hk : name2xyz strict p.1 with
    | some k => rw [hk] at h0; simp only at h0; subst h0; exact hh hk
    | none => rw [hk] at h0; simp only at h0; omega
  unfold xyzOrder
  simp only []
  rw [if_neg]
  intro hc
  simp only [Bool.and_eq_true, List.contains_iff_mem] at hc
  exact h0 hc.1.1

variable (strict : Bool) (sq : Rat → Rat) in
theorem spaceCodes_unrecognised (g : Img) (xyz : Mat)
    (h4 : ∀ p ∈ xformSpaces, inSpace (g.outNames.take 3) p.1 = false)
    (hplain : strict = true ∨ g.outNames.take 3 ≠ ["x", "y", "z"])
    (hunk : inSpace (g.outNames.take 3) "unknown" = false) :
    spaceCodes strict sq g xyz = .error (.nifti .world) := by
  unfold spaceCodes
  have hf : xformSpaces.find? (fun p => inSpace (g.outNames.take 3) p.1) = none := by
    rw [List.find?_eq_none]; intro p hp; simp [h4 p hp]
  simp only [hf]
  rcases hplain with hs | hs
  · simp [hs, hunk]
  · have : (List.take 3 g.outNames == ["x", "y", "z"]) = false := by simpa using hs
    simp [this, hunk]

variable (strict fix : Bool) (orient : Mat → List (Option Nat)) (sq : Rat → Rat) in
theorem body_refuses_of_spaceCodes (g : Img)
    (h : ∀ xyz, ∃ e, spaceCodes strict sq g xyz = .error e) :
    ∃ e, body strict fix orient sq g = .error e := by
  cases hb : body strict fix orient sq g with
  | error e => exact ⟨e, rfl⟩
  | ok hd =>
    obtain ⟨_, _, xyz, sf, qf, _, hs, _⟩ := body_ok_inv hb
    obtain ⟨e, he⟩ := h xyz
    rw [he] at hs; cases hs

theorem xyzAffine_some {strict : Bool} {orient : Mat → List (Option Nat)} {g : Img} {xyz : Mat}
    (h : xyzAffine strict orient g = some xyz) : xyz = xyzBlock g := by
  unfold xyzAffine at h
  split at h
  · cases h
  · split_ifs at h
    cases h; rfl

theorem productAffine_congr (a b : Mat) (z t : List Rat)
    (h : ∀ r c, r < 3 → c < 4 → entry a r c = entry b r c) :
    productAffine a z t = productAffine b z t := by
  unfold productAffine
  have h1 : (List.range 3).map (fun r => (List.range 3).map (fun c => entry a r c) ++ List.replicate z.length 0 ++ [entry a r 3])
      = (List.range 3).map (fun r => (List.range 3).map (fun c => entry b r c) ++ List.replicate z.length 0 ++ [entry b r 3]) := by
    apply List.map_congr_left
    intro r hr
    have hr' : r < 3 := List.mem_range.1 hr
    rw [h r 3 hr' (by omega)]
    congr 2
    apply List.map_congr_left
    intro c hc
    exact h r c hr' (by have := List.mem_range.1 hc; omega)
  simp only [h1]

/-- the world label `nifti2nipy` reads from the codes -/
def worldOf (h : Hdr) : String := if h.sform ≠ 0 then codeSpace h.sform else codeSpace h.qform


def xyzRows (m : Mat) : Mat := (List.range 3).map (fun r => (List.range 4).map (fun c => entry m r c * 1))
def in3Of (h : Hdr) : List String :=
  setName (setName (setName ["i", "j", "k"] h.freq "freq") h.phase "phase") h.slice "slice"

theorem nifti2nipy_noTimeHdr (g : Img) (xyz : Mat) (sf qf : Nat) (pix : List Rat)
    (hshape : g.shape.length = g.n) (hn : 3 < g.n) :
    nifti2nipy (noTimeHdr g (header0 g xyz sf qf) pix) =
      .ok { inNames := in3Of (header0 g xyz sf qf) ++ ["u", "v", "w"].take (g.n - 3),
            outNames := spaceTuple (worldOf (header0 g xyz sf qf)) ++ ["u", "v", "w"].take (g.n - 3),
            aff := productAffine (xyzRows xyz) pix (List.replicate (g.n - 3) 0),
            shape := (g.shape.take 3 ++ [1] ++ g.shape.drop 3).eraseIdx 3,
            axes := (g.axes.take 3 ++ [none] ++ g.axes.drop 3).eraseIdx 3 } := by
  have hlen : (g.shape.take 3 ++ [1] ++ g.shape.drop 3).length = g.n + 1 := by
    simp [List.length_take, List.length_drop]; omega
  have h3 : (g.shape.take 3 ++ [1] ++ g.shape.drop 3).getD 3 0 = 1 := by
    have : (g.shape.take 3).length = 3 := by simp [List.length_take]; omega
    simp [List.getD_eq_getElem?_getD, List.getElem?_append_left, List.getElem?_append_right, this]
  unfold nifti2nipy
  simp only [noTimeHdr, header0, hlen, h3]
  rw [if_neg (by omega), if_neg (by omega)]
  have hu : unitsInfo "unknown" = none := by decide
  simp only [hu]
  rw [if_pos ⟨trivial, by omega, trivial⟩]
  simp [worldOf, in3Of, xyzRows]
  by_cases hsf : sf = 0 <;> simp [hsf]

theorem setName_length (l : List String) (i : Option Nat) (s : String) :
    (setName l i s).length = l.length := by
  cases i <;> simp [setName]

theorem in3Of_length (h : Hdr) : (in3Of h).length = 3 := by
  simp [in3Of, setName_length]

theorem entry_xyzRows (m : Mat) (r c : Nat) (hr : r < 3) (hc : c < 4) :
    entry (xyzRows m) r c = entry m r c := by
  interval_cases r <;> interval_cases c <;> simp [xyzRows, entry, List.range]  <;> rfl

theorem eraseIdx_insert3 {α} (l : List α) (x : α) (h : 3 ≤ l.length) :
    (l.take 3 ++ [x] ++ l.drop 3).eraseIdx 3 = l := by
  have h3 : (l.take 3).length = 3 := by simp [List.length_take]; omega
  rw [List.append_assoc, List.eraseIdx_append_of_length_le (by omega)]
  simp [h3]


theorem rollOrder_length (k j : Nat) (hj : j < k) : (rollOrder k j).length = k := by
  simp [rollOrder, List.length_eraseIdx, hj]; omega

theorem unitsInfo_of_tl (name : String) (h : name ∈ tlOrdered) :
    unitsInfo (if name = "t" then "sec" else name) = some (name, 1) := by
  simp only [tlOrdered, List.mem_cons, List.not_mem_nil, or_false] at h
  rcases h with rfl | rfl | rfl | rfl <;> decide

theorem toffsetOf_of_ne (g : Img) (tl : TL) (h : tl.name ≠ "t") : toffsetOf g tl = 0 := by
  simp [toffsetOf, h]

theorem nifti2nipy_timeHdr (g : Img) (xyz : Mat) (sf qf : Nat) (pix : List Rat) (tl : TL)
    (hshape : g.shape.length = g.n) (hn : 3 < g.n) (hj : tl.inAx - 3 < g.n - 3)
    (hname : tl.name ∈ tlOrdered) :
    nifti2nipy (timeHdr g (header0 g xyz sf qf) pix tl) =
      .ok { inNames := in3Of (header0 g xyz sf qf) ++ (tl.name :: ["u", "v", "w"]).take (g.n - 3),
            outNames := spaceTuple (worldOf (header0 g xyz sf qf)) ++
                          (tl.name :: ["u", "v", "w"]).take (g.n - 3),
            aff := productAffine (xyzRows xyz) (pick 0 pix (rollOrder (g.n - 3) (tl.inAx - 3)))
                     (toffsetOf g tl :: List.replicate (g.n - 4) 0),
            shape := g.shape.take 3 ++ pick 0 (g.shape.drop 3) (rollOrder (g.n - 3) (tl.inAx - 3)),
            axes := g.axes.take 3 ++ pick none (g.axes.drop 3) (rollOrder (g.n - 3) (tl.inAx - 3)) } := by
  have hlen : (g.shape.take 3 ++ pick 0 (g.shape.drop 3) (rollOrder (g.n - 3) (tl.inAx - 3))).length = g.n := by
    simp [pick, rollOrder_length _ _ hj, List.length_take]; omega
  have hu := unitsInfo_of_tl tl.name hname
  unfold nifti2nipy
  simp only [timeHdr, header0, hlen, hu]
  rw [if_neg (by omega), if_neg (by omega), if_neg (by simp)]
  have ht : (if tl.name = "t" then toffsetOf g tl else 0) = toffsetOf g tl := by
    by_cases h : tl.name = "t"
    · simp [h]
    · simp [h, toffsetOf_of_ne g tl h]
  simp [worldOf, in3Of, ht, pick, rollOrder, xyzRows]
  by_cases hsf : sf = 0 <;> simp [hsf]

theorem productAffine_xyz (xyz : Mat) (z t : List Rat) (r c : Nat) (hr : r < 3) (hc : c < 3) :
    entry (productAffine xyz z t) r c = entry xyz r c := by
  have h3 : List.range 3 = [0, 1, 2] := rfl
  interval_cases r <;> interval_cases c <;>
    simp [productAffine, entry, h3, List.getD_eq_getElem?_getD]

theorem productAffine_trans (xyz : Mat) (z t : List Rat) (r : Nat) (hr : r < 3) :
    entry (productAffine xyz z t) r (3 + z.length) = entry xyz r 3 := by
  have h3 : List.range 3 = [0, 1, 2] := rfl
  have h4 : 3 + z.length = z.length + 1 + 1 + 1 := by omega
  interval_cases r <;>
    (simp only [productAffine, entry, h3, List.getD_eq_getElem?_getD, h4]
     simp [List.getElem?_append_right])

/-- a concrete 4-D image (MNI, TR 2.5 s, time offset 14) and the orientation of its axes, for
    the non-vacuity examples -/
def exImg : Img :=
  { inNames := ["i", "j", "k", "t"], outNames := spaceTuple "mni" ++ ["t"],
    aff := [[2, 0, 0, 0, 10], [0, 3, 0, 0, 0], [0, 0, 4, 0, 0], [0, 0, 0, 5 / 2, 14], [0, 0, 0, 0, 1]],
    shape := [2, 3, 4, 5], axes := [some 0, some 1, some 2, some 3] }
def exOrient : Mat → List (Option Nat) := fun _ => [some 0, some 1, some 2, some 3]

end NipyVerif.C03
