/- Helper lemmas for C02 (third part): "derived from" with dropped reference coordinates, programs
   over the whole operation language, every index kind, ArrayCoordMap / Grid, xyz_affine, rollimg
   round trips, io_orientation of affines with orthogonal columns. -/
import NipyVerif.Props.C02B
import NipyVerif.Model.C02C
import Mathlib.Algebra.Order.Ring.Abs

namespace NipyVerif.C02

variable {α β : Type}

/-! ## "derived from", reference coordinates may have been dropped -/

theorem subperm_map {γ δ : Type} (f : γ → δ) {l1 l2 : List γ} (h : l1.Subperm l2) :
    (l1.map f).Subperm (l2.map f) := by
  obtain ⟨l, hp, hs⟩ := h
  exact ⟨l.map f, hp.map f, hs.map f⟩

/-- `h` is derived from `g`, possibly with reference coordinates dropped (`ImageList.from_image`
    with `dropout`): an injective index map `σ` into the voxels of `g` and a renaming `ρ` such that
    every voxel of `h` carries the value of voxel `σ j` of `g`, and every named world coordinate
    `h` still has is one of the (renamed) named world coordinates of that voxel — nothing is moved,
    duplicated or invented; coordinates can only be forgotten. -/
def Derived (g h : ImgOf α) : Prop :=
  ∃ (σ : List Nat → List Nat) (ρ : String → String),
    h.outNames.Subperm (g.outNames.map ρ) ∧
    (∀ j, ValidIdx h.shape j →
      ValidIdx g.shape (σ j) ∧ h.data j = g.data (σ j) ∧
      (namedWorld h j).Subperm ((namedWorld g (σ j)).map (relName ρ))) ∧
    (∀ j j', ValidIdx h.shape j → ValidIdx h.shape j' → σ j = σ j' → j = j')

theorem Embeds.derived {g h : ImgOf α} (he : Embeds g h) : Derived g h := by
  obtain ⟨σ, ρ, hn, hv, hi⟩ := he
  exact ⟨σ, ρ, hn.subperm, fun j hj => ⟨(hv j hj).1, (hv j hj).2.1, (hv j hj).2.2.subperm⟩, hi⟩

theorem Derived.refl (g : ImgOf α) : Derived g g := (Embeds.refl g).derived

theorem Derived.trans {g h k : ImgOf α} (h1 : Derived g h) (h2 : Derived h k) : Derived g k := by
  obtain ⟨σ1, ρ1, n1, v1, i1⟩ := h1
  obtain ⟨σ2, ρ2, n2, v2, i2⟩ := h2
  refine ⟨σ1 ∘ σ2, ρ2 ∘ ρ1, ?_, ?_, ?_⟩
  · have := subperm_map ρ2 n1
    rw [List.map_map] at this
    exact n2.trans this
  · intro j hj
    obtain ⟨a2, b2, c2⟩ := v2 j hj
    obtain ⟨a1, b1, c1⟩ := v1 (σ2 j) a2
    refine ⟨a1, by rw [b2, b1]; rfl, ?_⟩
    have := subperm_map (relName ρ2) c1
    rw [List.map_map] at this
    have hcomp : relName ρ2 ∘ relName ρ1 = relName (ρ2 ∘ ρ1) := by funext p; simp [relName]
    rw [hcomp] at this
    exact c2.trans this
  · intro j j' hj hj' he
    exact i2 j j' hj hj' (i1 _ _ (v2 j hj).1 (v2 j' hj').1 he)

/-- a derived image holds only values of the image it is derived from -/
theorem Derived.value {g h : ImgOf α} (hd : Derived g h) (j : List Nat) (hj : ValidIdx h.shape j) :
    ∃ i, ValidIdx g.shape i ∧ h.data j = g.data i := by
  obtain ⟨σ, _, _, hv, _⟩ := hd
  exact ⟨σ j, (hv j hj).1, (hv j hj).2.1⟩

/-! ### an item of `ImageList.from_image` is derived from the image -/

theorem map_range_eraseIdx {γ : Type} (F : Nat → γ) (n d : Nat) (hd : d < n) :
    ((List.range n).map F).eraseIdx d = (List.range (n - 1)).map (fun r => F (skip d r)) := by
  apply List.ext_getElem
  · simp [List.length_eraseIdx, hd]
  · intro i h1 h2
    simp only [List.length_map, List.length_range] at h2
    rw [List.getElem_eraseIdx]
    simp only [List.getElem_map, List.getElem_range, skip]
    split_ifs <;> rfl

theorem namedWorld_dropped (g h : ImgOf α) (d : Option Nat) (j i : List Nat)
    (hn : h.outNames = dropRow d g.outNames)
    (hw : ∀ ρ, h.world j ρ = g.world i (keepRow d ρ)) :
    (namedWorld h j).Sublist (namedWorld g i) := by
  cases d with
  | none =>
    simp only [dropRow] at hn
    simp only [keepRow] at hw
    unfold namedWorld
    rw [hn]
    have : ∀ (A B : List (String × Rat)), A = B → A.Sublist B := fun A B e => e ▸ List.Sublist.refl _
    apply this
    apply List.map_congr_left
    intro r _
    rw [hw r]
  | some o =>
    simp only [dropRow] at hn
    simp only [keepRow] at hw
    by_cases ho : o < g.outNames.length
    · have : namedWorld h j = (namedWorld g i).eraseIdx o := by
        unfold namedWorld
        rw [map_range_eraseIdx _ _ _ ho, hn, List.length_eraseIdx_of_lt ho]
        apply List.map_congr_left
        intro r hr
        rw [hw r]
        congr 1
        simp only [List.getD_eq_getElem?_getD, List.getElem?_eraseIdx, skip]
        split_ifs <;> rfl
      rw [this]
      exact List.eraseIdx_sublist _ _
    · have hle : g.outNames.length ≤ o := by omega
      rw [List.eraseIdx_of_length_le hle] at hn
      unfold namedWorld
      rw [hn]
      have : ∀ (A B : List (String × Rat)), A = B → A.Sublist B := fun A B e => e ▸ List.Sublist.refl _
      apply this
      apply List.map_congr_left
      intro r hr
      have hr' : r < o := by have := List.mem_range.mp hr; omega
      rw [hw r]
      simp [skip, hr']

/-- `from_image` never accepts an image without array axes -/
theorem fromImage_nil_shape (g : ImgOf α) (hs : g.shape = []) (ax : Option AxId) (d : Bool)
    (o : List (Option Nat)) (oS : OrntSrc) (items : List (ImgOf α)) :
    fromImage g ax d o oS ≠ .ok items := by
  intro hres
  unfold fromImage at hres
  cases ax with
  | none => simp at hres
  | some axis =>
    simp only at hres
    cases hio : ioAxisIndices g.inNames g.outNames o axis with
    | error e => simp [hio] at hres
    | ok p =>
      obtain ⟨pi, oa⟩ := p
      cases pi with
      | none => simp [hio] at hres
      | some a =>
        simp only [hio] at hres
        have : rollimg g (.int (a : Int)) (.int 0) o = .error .valueError := by
          simp only [rollimg, inputAxisIndex]
          have h0 : ¬ ((a : Int) < 0) := by omega
          simp only [h0, if_false, hs, List.length_nil]
          have : ((a : Int) < 0 ∨ ((0 : Nat) : Int) ≤ (a : Int)) := Or.inr (by omega)
          simp [this]
        simp [this] at hres

theorem fromImage_item_derived (g : ImgOf α) (ax : Option AxId) (d : Bool) (o : List (Option Nat))
    (oS : OrntSrc) (items : List (ImgOf α)) (hw : WF g)
    (hres : fromImage g ax d o oS = .ok items) (it : ImgOf α) (hit : it ∈ items) :
    Derived g it ∧ WF it := by
  have hne : g.shape ≠ [] := fun hs => fromImage_nil_shape g hs ax d o oS items hres
  obtain ⟨τ, p1, p2, _⟩ := fromImage_bijection g ax d o oS items hw hne hres
  obtain ⟨k, hk, rfl⟩ := List.getElem_of_mem hit
  obtain ⟨w, _, dd, hn, hv⟩ := p1 k hk
  refine ⟨⟨τ k, id, ?_, fun j hj => ?_, fun j j' hj hj' he => (p2 k k j j' hk hk hj hj' he).2⟩, w⟩
  · rw [List.map_id, hn]
    cases dd with
    | none => exact (List.Sublist.refl _).subperm
    | some r => exact (List.eraseIdx_sublist _ _).subperm
  · obtain ⟨a, b, c⟩ := hv j hj
    refine ⟨a, b, ?_⟩
    rw [relName_id, List.map_id]
    exact (namedWorld_dropped g _ dd j _ hn c).subperm

theorem listGetitem_slc_mem (items l : List (ImgOf α)) (a b c : Option Int)
    (h : listGetitem items (.slc a b c) = .ok (.list l)) : ∀ x ∈ l, x ∈ items := by
  unfold listGetitem at h
  cases hn : normAxis items.length (.slc a b c) with
  | error e => simp [hn] at h
  | ok sel =>
    cases sel with
    | pick i => simp [hn] at h
    | range s st len =>
      simp only [hn, Except.ok.injEq, LRes.list.injEq] at h
      subst h
      intro x hx
      obtain ⟨t, _, ht⟩ := List.mem_filterMap.mp hx
      exact List.mem_of_getElem? ht

theorem listGetitem_slc_not_item (items : List (ImgOf α)) (a b c : Option Int) (it : ImgOf α) :
    listGetitem items (.slc a b c) ≠ .ok (.item it) := by
  unfold listGetitem
  cases hn : normAxis items.length (.slc a b c) with
  | error e => simp [hn]
  | ok sel => cases sel <;> simp [hn]

theorem listSlices_mem : ∀ (sls : List (Option Int × Option Int × Option Int)) (items l : List (ImgOf α)),
    listSlices items sls = .ok l → ∀ x ∈ l, x ∈ items
  | [], items, l, h => by simp only [listSlices, Except.ok.injEq] at h; subst h; exact fun x hx => hx
  | (a, b, c) :: r, items, l, h => by
      simp only [listSlices] at h
      cases hg : listGetitem items (.slc a b c) with
      | error e => simp [hg] at h
      | ok res =>
        cases res with
        | item it => simp [hg] at h
        | list l' =>
          simp only [hg] at h
          intro x hx
          exact listGetitem_slc_mem items l' a b c hg x (listSlices_mem r l' l h x hx)

theorem listGetitem_int_mem (items : List (ImgOf α)) (i : Int) (it : ImgOf α)
    (h : listGetitem items (.int i) = .ok (.item it)) : it ∈ items := by
  rcases listGetitem_int_spec items i it h with ⟨_, _, h3⟩ | ⟨_, _, h3⟩ <;> exact List.mem_of_getElem? h3

theorem listPick_derived (g : ImgOf α) (ax : Option AxId) (d : Bool) (o : List (Option Nat)) (oS : OrntSrc)
    (sls : List (Option Int × Option Int × Option Int)) (i : Int) (it : ImgOf α) (hw : WF g)
    (hres : listPick g ax d o oS sls i = .ok it) : Derived g it ∧ WF it := by
  unfold listPick at hres
  cases hf : fromImage g ax d o oS with
  | error e => simp [hf] at hres
  | ok items =>
    simp only [hf] at hres
    cases hs : listSlices items sls with
    | error e => simp [hs] at hres
    | ok l =>
      simp only [hs] at hres
      cases hg : listGetitem l (.int i) with
      | error e => simp [hg] at hres
      | ok res =>
        cases res with
        | list l' => simp [hg] at hres
        | item it' =>
          simp only [hg, Except.ok.injEq] at hres
          subst hres
          exact fromImage_item_derived g ax d o oS items hw hf _
            (listSlices_mem sls items l hs _ (listGetitem_int_mem l i _ hg))

/-! ### every index kind -/

theorem getitemX_cases (g : ImgOf α) (l : List Idx) (r : ResOf α) (h : getitemX g l = .ok r) :
    l.all Idx.isPlain = true ∧ getitem g (numpySlicers l) = .ok r := by
  unfold getitemX at h
  split_ifs at h with h1 h2
  · exact ⟨h2, h⟩
  · exfalso
    cases hE : expand g.shape.length (numpySlicers l) with
    | error e => simp [hE] at h
    | ok ex =>
      cases hN : normAll g.shape ex with
      | error e => simp [hE, hN] at h
      | ok sels => simp [hE, hN] at h

/-! ### what an instruction shows, judged against an image `g0` -/

/-- an array reads `g0` through an injective index map -/
def ArrFrom (g0 : ImgOf α) (a : ArrOf α) : Prop :=
  ∃ σ : List Nat → List Nat,
    (∀ j, ValidIdx a.shape j → ValidIdx g0.shape (σ j) ∧ a.data j = g0.data (σ j)) ∧
    (∀ j j', ValidIdx a.shape j → ValidIdx a.shape j' → σ j = σ j' → j = j')

def POut.Sound (g0 : ImgOf α) : POut α → Prop
  | .img h => Derived g0 h ∧ WF h
  | .val v => ∃ idx, ValidIdx g0.shape idx ∧ v = g0.data idx
  | .arr a => ArrFrom g0 a
  | .err _ => True

theorem ArrFrom.lift {g0 g : ImgOf α} {a : ArrOf α} (hd : Derived g0 g) (ha : ArrFrom g a) :
    ArrFrom g0 a := by
  obtain ⟨σ, ρ, _, hv, hi⟩ := hd
  obtain ⟨τ, tv, ti⟩ := ha
  refine ⟨σ ∘ τ, fun j hj => ?_, fun j j' hj hj' he => ?_⟩
  · obtain ⟨a1, a2⟩ := tv j hj
    obtain ⟨b1, b2, _⟩ := hv _ a1
    exact ⟨b1, by rw [a2, b2]; rfl⟩
  · exact ti j j' hj hj' (hi _ _ (tv j hj).1 (tv j' hj').1 he)

theorem POut.Sound.lift {g0 g : ImgOf α} (hd : Derived g0 g) :
    ∀ out : POut α, POut.Sound g out → POut.Sound g0 out
  | .img h, hs => ⟨hd.trans hs.1, hs.2⟩
  | .val v, hs => by
      obtain ⟨idx, hi, hv⟩ := hs
      obtain ⟨i, h1, h2⟩ := hd.value idx hi
      exact ⟨i, h1, by rw [hv, h2]⟩
  | .arr a, hs => ArrFrom.lift hd hs
  | .err _, _ => trivial

theorem ofRes_sound (g : ImgOf α) (x : Except Err (ResOf α))
    (hi : ∀ h, x = .ok (.img h) → Derived g h ∧ WF h)
    (hv : ∀ v, x = .ok (.val v) → ∃ idx, ValidIdx g.shape idx ∧ v = g.data idx) :
    POut.Sound g (POut.ofRes x) := by
  cases x with
  | error e => trivial
  | ok r =>
    cases r with
    | img h => exact hi h rfl
    | val v => exact hv v rfl

theorem iterAxisArr_from (g : ImgOf α) (a : AxId) (k : Nat) (o : List (Option Nat)) (arr : ArrOf α)
    (hw : WF g) (h : iterAxisArr g a k o = .ok arr) : ArrFrom g arr := by
  unfold iterAxisArr at h
  cases hr : rollimg g a (.int 0) o with
  | error e => simp [hr] at h
  | ok r =>
    simp only [hr] at h
    split_ifs at h with hk
    simp only [Except.ok.injEq] at h
    subst h
    obtain ⟨⟨σ, _, _, hv, hi⟩, _⟩ := rollimg_embeds g r _ _ _ hw hr
    have hval : ∀ j, ValidIdx r.shape.tail j → ValidIdx r.shape (k :: j) := by
      intro j hj
      cases hs : r.shape with
      | nil => rw [hs] at hk; simp at hk
      | cons n ns =>
        rw [hs] at hk hj
        exact validIdx_cons.mpr ⟨by simpa using hk, by simpa using hj⟩
    refine ⟨fun j => σ (k :: j), fun j hj => ?_, fun j j' hj hj' he => ?_⟩
    · obtain ⟨a1, a2, _⟩ := hv _ (hval j hj)
      exact ⟨a1, a2⟩
    · have := hi _ _ (hval j hj) (hval j' hj') he
      exact List.tail_eq_of_cons_eq this

theorem getListData_from (g : ImgOf α) (ax : Option AxId) (d : Bool) (o : List (Option Nat)) (oS : OrntSrc)
    (items : List (ImgOf α)) (lax : Option Int) (arr : ArrOf α) (hw : WF g)
    (hf : fromImage g ax d o oS = .ok items) (hl : getListData items lax = .ok arr) : ArrFrom g arr := by
  have hne : g.shape ≠ [] := fun hs => fromImage_nil_shape g hs ax d o oS items hf
  cases lax with
  | none => simp [getListData] at hl
  | some x =>
    cases hit : items with
    | nil => rw [hit] at hl; simp [getListData] at hl
    | cons it0 rest =>
      have h0 : 0 < items.length := by rw [hit]; simp
      have hax : -(((items[0]).shape.length : Int) + 1) ≤ x ∧ x < ((items[0]).shape.length : Int) + 1 := by
        have e0 : items[0] = it0 := by simp [hit]
        rw [e0]
        by_contra hc
        rw [hit] at hl
        simp only [getListData] at hl
        have : ((it0.shape.length : Int) + 1 ≤ x ∨ x < -((it0.shape.length : Int) + 1)) := by omega
        rw [if_pos this] at hl
        cases hl
      obtain ⟨arr', φ, e1, e2, e3, _⟩ := from_image_get_list_data g ax d o oS items hw hne hf h0 x hax
      rw [hl] at e1
      cases e1
      exact ⟨φ, e2, e3⟩

theorem stepP_sound (g : ImgOf α) (hw : WF g) (op : POp) : POut.Sound g (stepP g op) := by
  cases op with
  | base op =>
    exact ofRes_sound g _ (fun h hh => ⟨(step_img g h op hw hh).1.derived, (step_img g h op hw hh).2⟩)
      (fun v hv => step_val g v op hw hv)
  | index l =>
    refine ofRes_sound g _ (fun h hh => ?_) (fun v hv => ?_)
    · obtain ⟨_, h2⟩ := getitemX_cases g l _ hh
      obtain ⟨e, w⟩ := getitem_img g h _ hw h2
      exact ⟨e.derived, w⟩
    · obtain ⟨_, h2⟩ := getitemX_cases g l _ hv
      exact getitem_val g v _ h2
  | rollimgF a s f o =>
    refine ofRes_sound g _ (fun h hh => ?_) (fun v hv => absurd hv (liftImg_val _ v))
    obtain ⟨e, w⟩ := rollimg_embeds g h a s _ hw (liftImg_img _ _ hh)
    exact ⟨e.derived, w⟩
  | item ax d o oS sls i =>
    exact ofRes_sound g _ (fun h hh => listPick_derived g ax d _ oS sls i h hw (liftImg_img _ _ hh))
      (fun v hv => absurd hv (liftImg_val _ v))
  | obs => exact ⟨Derived.refl g, hw⟩
  | data => exact ⟨id, fun j hj => ⟨hj, rfl⟩, fun _ _ _ _ h => h⟩
  | iterArr a k o =>
    simp only [stepP]
    cases h : iterAxisArr g a k (o.get g true) with
    | error e => trivial
    | ok arr => exact iterAxisArr_from g a k _ arr hw h
  | listData ax d o oS lax =>
    simp only [stepP]
    cases hf : fromImage g ax d (o.get g true) oS with
    | error e => trivial
    | ok items =>
      simp only
      cases hl : getListData items lax with
      | error e => trivial
      | ok arr => exact getListData_from g ax d _ oS items lax arr hw hf hl

/-- invariant of a store: every object is well formed and derived from `g0` -/
def StoreOk (g0 : ImgOf α) (store : List (ImgOf α)) : Prop := ∀ h ∈ store, Derived g0 h ∧ WF h

theorem execP_sound (g0 : ImgOf α) : ∀ (prog : List PInstr) (store : List (ImgOf α)), StoreOk g0 store →
    StoreOk g0 (execP store prog).1 ∧ ∀ out ∈ (execP store prog).2, POut.Sound g0 out
  | [], store, hs => ⟨hs, fun out ho => by simp [execP] at ho⟩
  | (src, op) :: rest, store, hs => by
      simp only [execP]
      cases hg : store[src]? with
      | none =>
        obtain ⟨a, b⟩ := execP_sound g0 rest store hs
        refine ⟨a, fun out ho => ?_⟩
        rcases List.mem_cons.mp ho with rfl | ho
        · trivial
        · exact b out ho
      | some g =>
        have hgm : g ∈ store := List.mem_of_getElem? hg
        obtain ⟨dg, wg⟩ := hs g hgm
        have hsnd := POut.Sound.lift dg _ (stepP_sound g wg op)
        dsimp only
        cases hst : stepP g op with
        | img h =>
          rw [hst] at hsnd
          simp only
          by_cases hm : op.makes = true
          · simp only [hm, if_true]
            have hs' : StoreOk g0 (store ++ [h]) := by
              intro x hx
              rcases List.mem_append.mp hx with hx | hx
              · exact hs x hx
              · simp only [List.mem_singleton] at hx; subst hx; exact hsnd
            obtain ⟨a, b⟩ := execP_sound g0 rest _ hs'
            refine ⟨a, fun out ho => ?_⟩
            rcases List.mem_cons.mp ho with rfl | ho
            · exact hsnd
            · exact b out ho
          · simp only [hm, if_false]
            obtain ⟨a, b⟩ := execP_sound g0 rest store hs
            refine ⟨a, fun out ho => ?_⟩
            rcases List.mem_cons.mp ho with rfl | ho
            · exact hsnd
            · exact b out ho
        | val v =>
          rw [hst] at hsnd
          obtain ⟨a, b⟩ := execP_sound g0 rest store hs
          refine ⟨a, fun out ho => ?_⟩
          rcases List.mem_cons.mp ho with rfl | ho
          · exact hsnd
          · exact b out ho
        | arr ar =>
          rw [hst] at hsnd
          obtain ⟨a, b⟩ := execP_sound g0 rest store hs
          refine ⟨a, fun out ho => ?_⟩
          rcases List.mem_cons.mp ho with rfl | ho
          · exact hsnd
          · exact b out ho
        | err e =>
          obtain ⟨a, b⟩ := execP_sound g0 rest store hs
          refine ⟨a, fun out ho => ?_⟩
          rcases List.mem_cons.mp ho with rfl | ho
          · trivial
          · exact b out ho

theorem execP_prefix : ∀ (prog : List PInstr) (store : List (ImgOf α)), store <+: (execP store prog).1
  | [], store => by simp [execP]
  | (src, op) :: rest, store => by
      simp only [execP]
      cases hg : store[src]? with
      | none => exact execP_prefix rest store
      | some g =>
        dsimp only
        cases hst : stepP g op with
        | img h =>
          simp only
          split_ifs
          · exact (List.prefix_append store [h]).trans (execP_prefix rest _)
          · exact execP_prefix rest store
        | val v => exact execP_prefix rest store
        | arr a => exact execP_prefix rest store
        | err e => exact execP_prefix rest store

/-! ## ArrayCoordMap -/

theorem splitEll_spec : ∀ sl : List Slicer,
    (∀ pre, splitEll sl = (pre, none) → pre = sl ∧ ∀ s ∈ sl, s ≠ Slicer.ell) ∧
    (∀ pre post, splitEll sl = (pre, some post) → sl = pre ++ Slicer.ell :: post ∧ ∀ s ∈ pre, s ≠ Slicer.ell)
  | [] => by simp [splitEll]
  | s :: r => by
      obtain ⟨ih1, ih2⟩ := splitEll_spec r
      cases s with
      | ell => simp [splitEll]
      | idx i =>
        simp only [splitEll]
        refine ⟨fun pre h => ?_, fun pre post h => ?_⟩
        · rcases hsp : splitEll r with ⟨p, q⟩
          rw [hsp] at h
          simp only [Prod.mk.injEq] at h
          obtain ⟨rfl, rfl⟩ := h
          obtain ⟨e1, e2⟩ := ih1 p hsp
          subst e1
          exact ⟨rfl, fun s hs => by
            rcases List.mem_cons.mp hs with rfl | hs
            · simp
            · exact e2 s hs⟩
        · rcases hsp : splitEll r with ⟨p, q⟩
          rw [hsp] at h
          simp only [Prod.mk.injEq] at h
          obtain ⟨rfl, rfl⟩ := h
          obtain ⟨e1, e2⟩ := ih2 p post hsp
          refine ⟨by rw [e1]; rfl, fun s hs => ?_⟩
          rcases List.mem_cons.mp hs with rfl | hs
          · simp
          · exact e2 s hs
      | slc a b c =>
        simp only [splitEll]
        refine ⟨fun pre h => ?_, fun pre post h => ?_⟩
        · rcases hsp : splitEll r with ⟨p, q⟩
          rw [hsp] at h
          simp only [Prod.mk.injEq] at h
          obtain ⟨rfl, rfl⟩ := h
          obtain ⟨e1, e2⟩ := ih1 p hsp
          subst e1
          exact ⟨rfl, fun s hs => by
            rcases List.mem_cons.mp hs with rfl | hs
            · simp
            · exact e2 s hs⟩
        · rcases hsp : splitEll r with ⟨p, q⟩
          rw [hsp] at h
          simp only [Prod.mk.injEq] at h
          obtain ⟨rfl, rfl⟩ := h
          obtain ⟨e1, e2⟩ := ih2 p post hsp
          refine ⟨by rw [e1]; rfl, fun s hs => ?_⟩
          rcases List.mem_cons.mp hs with rfl | hs
          · simp
          · exact e2 s hs

theorem filter_ell_nil (l : List Slicer) (h : ∀ s ∈ l, s ≠ Slicer.ell) :
    l.filter (fun s => decide (s = Slicer.ell)) = [] := by
  apply List.filter_eq_nil_iff.mpr
  intro s hs
  simpa using h s hs

/-- where `expand` succeeds, `acmExpand` gives the same list and there is at most one Ellipsis -/
theorem expand_acmExpand (n : Nat) (sl ex : List Slicer) (h : expand n sl = .ok ex) :
    acmExpand n sl = ex ∧ ¬ (1 < (sl.filter (fun s => decide (s = Slicer.ell))).length) := by
  unfold expand at h
  unfold acmExpand
  rcases hsp : splitEll sl with ⟨pre, _ | post⟩
  · simp only [hsp] at h ⊢
    split_ifs at h with h1
    cases h
    obtain ⟨e1, e2⟩ := (splitEll_spec sl).1 pre hsp
    refine ⟨rfl, ?_⟩
    rw [filter_ell_nil sl e2]; simp
  · simp only [hsp] at h ⊢
    split_ifs at h with h1 h2
    cases h
    obtain ⟨e1, e2⟩ := (splitEll_spec sl).2 pre post hsp
    refine ⟨rfl, ?_⟩
    have hpost : ∀ s ∈ post, s ≠ Slicer.ell := by
      intro s hs hc
      apply h1
      simp only [List.any_eq_true, decide_eq_true_eq]
      exact ⟨s, hs, hc⟩
    rw [e1, List.filter_append, filter_ell_nil pre e2, List.filter_cons, filter_ell_nil post hpost]
    simp

theorem normAll_acmNorm : ∀ (shape : List Nat) (ex : List Slicer) (sels : List AxSel),
    ex.length = shape.length → normAll shape ex = .ok sels → sels.any AxSel.isEmpty = false →
    acmNorm shape ex = .ok sels
  | [], [], sels, _, h, _ => by simpa [normAll, acmNorm] using h
  | [], _ :: _, _, hl, _, _ => by simp at hl
  | _ :: _, [], _, hl, _, _ => by simp at hl
  | n :: ns, s :: ss, sels, hl, h, he => by
      simp only [normAll] at h
      simp only [acmNorm]
      cases h1 : normAxis n s with
      | error e => simp [h1] at h
      | ok a =>
        cases h2 : normAll ns ss with
        | error e => simp [h1, h2] at h
        | ok as =>
          simp only [h1, h2, Except.ok.injEq] at h
          subst h
          simp only [List.any_cons, Bool.or_eq_false_iff] at he
          simp only [he.1, Bool.false_eq_true, if_false]
          rw [normAll_acmNorm ns ss as (by simpa using hl) h2 he.2]

theorem acmNorm_normAll : ∀ (shape : List Nat) (ex : List Slicer) (sels : List AxSel),
    shape.length ≤ ex.length → acmNorm shape ex = .ok sels →
    ex.length = shape.length ∧ normAll shape ex = .ok sels ∧ sels.any AxSel.isEmpty = false
  | [], [], sels, _, h => by
      simp only [acmNorm, Except.ok.injEq] at h; subst h; simp [normAll]
  | [], _ :: _, _, _, h => by simp [acmNorm] at h
  | _ :: _, [], _, hl, _ => by simp at hl
  | n :: ns, s :: ss, sels, hl, h => by
      simp only [acmNorm] at h
      cases h1 : normAxis n s with
      | error e => simp [h1] at h
      | ok a =>
        simp only [h1] at h
        split_ifs at h with hE
        cases h2 : acmNorm ns ss with
        | error e => simp [h2] at h
        | ok as =>
          simp only [h2, Except.ok.injEq] at h
          subst h
          obtain ⟨e1, e2, e3⟩ := acmNorm_normAll ns ss as (by simpa using hl) h2
          refine ⟨by simp [e1], by simp [normAll, h1, e2], ?_⟩
          simp only [List.any_cons, e3, Bool.or_false]
          simpa using hE

theorem acmExpand_length (n : Nat) (sl : List Slicer) : n ≤ (acmExpand n sl).length := by
  unfold acmExpand
  rcases splitEll sl with ⟨pre, _ | post⟩ <;> simp <;> omega

/-- the coordinate map of an image slice is `ArrayCoordMap(img.coordmap, img.shape)[index]` -/
theorem getitem_acm (g h : ImgOf α) (sl : List Slicer) (hres : getitem g sl = .ok (.img h)) :
    acmGetitem g.acm sl = .ok h.acm := by
  unfold getitem at hres
  cases hE : expand g.shape.length sl with
  | error e => simp [hE] at hres
  | ok ex =>
    cases hN : normAll g.shape ex with
    | error e => simp [hE, hN] at hres
    | ok sels =>
      simp only [hE, hN] at hres
      split_ifs at hres with h1 h2 h3 <;> cases hres
      obtain ⟨a1, a2⟩ := expand_acmExpand _ _ _ hE
      have hlen := expand_length _ _ _ hE
      have hb : sels.any AxSel.isEmpty = false := by simpa using h1
      unfold acmGetitem
      simp only [ImgOf.acm]
      rw [if_neg a2, a1, normAll_acmNorm g.shape ex sels hlen hN hb]
      simp only
      have h2' : ¬ ¬ (selNames sels g.inNames).Nodup := fun hc => hc h2
      simp only [h2', if_false]

/-- `ArrayCoordMap.__getitem__`, world side: the result reads the coordinate map through an
    injective index map — array index `j` of the result lies where array index `σ j` of the
    original lies -/
theorem acmGetitem_world (c c' : ACM) (sl : List Slicer) (hw : WF c) (hres : acmGetitem c sl = .ok c') :
    WF c' ∧ c'.outNames = c.outNames ∧ ∃ σ : List Nat → List Nat,
      (∀ j, ValidIdx c'.shape j → ValidIdx c.shape (σ j) ∧ ∀ r, c'.world j r = c.world (σ j) r) ∧
      (∀ j j', ValidIdx c'.shape j → ValidIdx c'.shape j' → σ j = σ j' → j = j') := by
  unfold acmGetitem at hres
  split_ifs at hres with h0
  cases hN : acmNorm c.shape (acmExpand c.shape.length sl) with
  | error e => simp [hN] at hres
  | ok sels =>
    simp only [hN] at hres
    split_ifs at hres with h2
    cases hres
    obtain ⟨hlen, hNA, _⟩ := acmNorm_normAll _ _ _ (acmExpand_length _ _) hN
    have hval := normAll_valid c.shape _ sels hlen hNA
    have hsl : sels.length = c.shape.length := hval.length_eq.symm
    refine ⟨⟨selShape_names_length sels c.inNames (by rw [hw.1, hsl]),
      selCols_length sels c.cols (by rw [hw.2, hsl])⟩, rfl, selIdx sels, ?_, ?_⟩
    · intro j hj
      refine ⟨selIdx_valid c.shape sels j hval hj, fun r => ?_⟩
      simp only [ImgOf.world]
      rw [lin_sel c.shape sels c.cols j r hval hj]
      ring
    · intro j j' hj hj' he
      exact selIdx_inj c.shape sels j j' hval hj hj' he

theorem allIdx_nodup : ∀ shape : List Nat, (allIdx shape).Nodup
  | [] => by simp [allIdx]
  | n :: ns => by
      simp only [allIdx]
      rw [List.nodup_flatMap]
      refine ⟨fun i _ => (allIdx_nodup ns).map (fun a b h => List.tail_eq_of_cons_eq h), ?_⟩
      apply List.Pairwise.imp_of_mem _ (List.nodup_range (n := n))
      intro a b _ _ hab
      simp only [Function.onFun, List.disjoint_left, List.mem_map]
      rintro x ⟨t, _, rfl⟩ ⟨t', _, h⟩
      exact hab (List.head_eq_of_cons_eq h).symm

theorem allIdx_length : ∀ shape : List Nat, (allIdx shape).length = shape.foldr (· * ·) 1
  | [] => by simp [allIdx]
  | n :: ns => by
      simp only [allIdx, List.length_flatMap, List.length_map, List.foldr_cons]
      rw [allIdx_length ns]
      simp

/-! ## Grid -/

theorem gridNp_length : ∀ (specs : List GSpec) (pts : List (Nat × Rat × Rat)),
    gridNp specs = .ok pts → pts.length = specs.length
  | [], pts, h => by simp only [gridNp, Except.ok.injEq] at h; subst h; rfl
  | s :: r, pts, h => by
      simp only [gridNp] at h
      cases h1 : s.np with
      | error e => simp [h1] at h
      | ok p =>
        cases h2 : gridNp r with
        | error e => simp [h1, h2] at h
        | ok ps =>
          simp only [h1, h2, Except.ok.injEq] at h
          subst h
          simp [gridNp_length r ps h2]

/-- the grid point an array index stands for -/
def gridPoint : List (Nat × Rat × Rat) → List Nat → List Rat
  | p :: ps, j :: js => (p.2.1 + (j : Rat) * p.2.2) :: gridPoint ps js
  | _, _ => []

theorem grid_lin : ∀ (pts : List (Nat × Rat × Rat)) (cols : List Vec) (j : List Nat) (r : Nat),
    ValidIdx (pts.map (·.1)) j →
    gridOff pts cols r + lin (gridCols pts cols) j r = linQ cols (gridPoint pts j) r
  | [], cols, j, r, _ => by cases cols <;> cases j <;> simp [gridOff, gridCols, lin, linQ, gridPoint]
  | p :: ps, [], j, r, _ => by cases j <;> simp [gridOff, gridCols, lin, linQ, gridPoint]
  | p :: ps, c :: cs, [], r, hj => by simp [ValidIdx] at hj
  | p :: ps, c :: cs, jk :: j, r, hj => by
      simp only [List.map_cons] at hj
      obtain ⟨hjk, hj'⟩ := validIdx_cons.mp hj
      have ih := grid_lin ps cs j r hj'
      simp only [gridOff, gridCols, lin, linQ, gridPoint]
      rw [← ih]
      unfold gridStep
      by_cases h1 : p.1 > 1
      · simp only [h1, if_true]; ring
      · have : jk = 0 := by omega
        subst this
        simp only [h1, if_false]; simp; ring

theorem gridGetitem_spec (c c' : ACM) (specs : List GSpec) (h : gridGetitem c specs = .ok c') :
    ∃ pts, gridNp specs = .ok pts ∧ pts.length = c.inNames.length ∧ (∀ p ∈ pts, 0 < p.1) ∧
      c'.shape = pts.map (·.1) ∧ c'.outNames = c.outNames ∧
      ∀ j, ValidIdx c'.shape j → ∀ r, c'.world j r = c.off r + linQ c.cols (gridPoint pts j) r := by
  unfold gridGetitem at h
  cases hN : gridNp specs with
  | error e => simp [hN] at h
  | ok pts =>
    simp only [hN] at h
    split_ifs at h with h1 h2
    cases h
    refine ⟨pts, rfl, by simpa using h1, fun p hp => ?_, rfl, rfl, fun j hj r => ?_⟩
    · by_contra hc
      apply h2
      simp only [List.any_eq_true, beq_iff_eq]
      exact ⟨p, hp, by omega⟩
    · simp only [ImgOf.world]
      rw [← grid_lin pts c.cols j r hj]
      ring

theorem gridNp_fromShape : ∀ shape : List Nat,
    gridNp (shape.map (fun (s : Nat) => GSpec.step (some 0) (some (s : Rat)) (some 1)))
      = .ok (shape.map (fun s => (s, (0 : Rat), (1 : Rat))))
  | [] => rfl
  | s :: r => by
      simp only [List.map_cons, gridNp, GSpec.np, Option.getD_some]
      have h1 : ¬ ((1 : Rat) = 0) := by norm_num
      simp only [h1, if_false]
      have : (Rat.ceil (((s : Rat) - 0) / 1)).toNat = s := by
        have : ((s : Rat) - 0) / 1 = ((s : Int) : Rat) := by simp
        rw [this, Rat.ceil_intCast]; simp
      rw [this, gridNp_fromShape r]

theorem gridPoint_fromShape : ∀ (shape j : List Nat), ValidIdx shape j →
    gridPoint (shape.map (fun s => (s, (0 : Rat), (1 : Rat)))) j = j.map (fun (i : Nat) => (i : Rat))
  | [], j, hj => by cases hj; rfl
  | s :: r, [], hj => by simp [ValidIdx] at hj
  | s :: r, i :: j, hj => by
      obtain ⟨_, hj'⟩ := validIdx_cons.mp hj
      simp only [List.map_cons, gridPoint, gridPoint_fromShape r j hj']
      simp

theorem linQ_cast : ∀ (cols : List Vec) (j : List Nat) (r : Nat),
    linQ cols (j.map (fun (i : Nat) => (i : Rat))) r = lin cols j r
  | [], j, r => by cases j <;> simp [linQ, lin]
  | c :: cs, [], r => by simp [linQ, lin]
  | c :: cs, i :: j, r => by simp [linQ, lin, linQ_cast cs j r]

/-! ## xyz_affine -/

theorem lin_three (cols : List Vec) (j : List Nat) (r : Nat)
    (hz : ∀ c ∈ cols.drop 3, c r = 0) :
    lin cols j r = ((j.getD 0 0 : Nat) : Rat) * (cols.getD 0 zeroVec) r
      + ((j.getD 1 0 : Nat) : Rat) * (cols.getD 1 zeroVec) r
      + ((j.getD 2 0 : Nat) : Rat) * (cols.getD 2 zeroVec) r := by
  have tail0 : ∀ (cs : List Vec) (js : List Nat), (∀ c ∈ cs, c r = 0) → lin cs js r = 0 := by
    intro cs
    induction cs with
    | nil => intro js _; cases js <;> simp [lin]
    | cons c cs ih =>
      intro js h
      cases js with
      | nil => simp [lin]
      | cons i js =>
        simp only [lin]
        rw [h c (List.mem_cons_self), ih js (fun c' hc' => h c' (List.mem_cons_of_mem _ hc'))]
        simp
  match cols, j with
  | [], j => cases j <;> simp [lin, zeroVec]
  | c :: cs, [] => simp [lin]
  | [c0], i0 :: js => cases js <;> simp [lin, zeroVec]
  | c0 :: c1 :: cs, [i0] => simp [lin]
  | [c0, c1], i0 :: i1 :: js => cases js <;> simp [lin, zeroVec]
  | c0 :: c1 :: c2 :: cs, [i0, i1] => simp [lin]
  | c0 :: c1 :: c2 :: cs, i0 :: i1 :: i2 :: js =>
    simp only [lin, List.getD_cons_zero, List.getD_cons_succ]
    rw [tail0 cs js (by simpa using hz)]
    ring

/-! ## round trips -/

theorem erase_range_getD (n a i : Nat) (ha : a < n) (hi : i + 1 < n) :
    ((List.range n).erase a).getD i 0 = if i < a then i else i + 1 := by
  rw [List.erase_range, Nat.min_eq_right (le_of_lt ha)]
  have hlen : i < (List.range a ++ List.range' (a + 1) (n - (a + 1))).length := by simp; omega
  rw [getD_lt _ _ _ hlen, List.getElem_append]
  by_cases h1 : i < a
  · simp [h1]
  · simp [h1]; omega

theorem erase_range_length (n a : Nat) (ha : a < n) : ((List.range n).erase a).length = n - 1 := by
  rw [List.erase_range, Nat.min_eq_right (le_of_lt ha)]; simp; omega

/-- agreement of two images: shape, names, affine, and the value of every voxel -/
def SameImg (g h : ImgOf α) : Prop :=
  h.shape = g.shape ∧ h.inNames = g.inNames ∧ h.outNames = g.outNames ∧ h.off = g.off ∧
  h.cols = g.cols ∧ ∀ j, ValidIdx g.shape j → h.data j = g.data j

theorem isPerm_of_perm {n : Nat} {o : List Nat} (h : o.Perm (List.range n)) : isPerm n o = true := by
  rw [isPerm_iff]
  refine ⟨by simpa using h.length_eq, h.nodup_iff.mpr List.nodup_range, fun k hk => ?_⟩
  exact List.mem_range.mp (h.mem_iff.mp hk)

theorem permute_permute {γ : Type} (n : Nat) (o1 o2 : List Nat) (l : List γ) (d : γ) (hl : l.length = n)
    (h1 : isPerm n o1 = true) (h2 : isPerm n o2 = true)
    (hc : ∀ m, m < n → o1.getD (o2.getD m 0) 0 = m) : permute d o2 (permute d o1 l) = l := by
  have l1 := ((isPerm_iff _ _).mp h1).1
  have l2 := ((isPerm_iff _ _).mp h2).1
  apply List.ext_getElem
  · rw [permute_length, l2, hl]
  · intro m hm1 hm2
    have hm : m < n := by rw [← hl]; exact hm2
    rw [← getD_lt _ _ d hm1, permute_getD d o2 _ m (by omega),
      permute_getD d o1 l _ (by rw [l1]; exact isPerm_getD_lt h2 hm), hc m hm, getD_lt _ _ d hm2]

theorem unperm_unperm (n : Nat) (o1 o2 j : List Nat) (hj : j.length = n)
    (h1 : isPerm n o1 = true) (h2 : isPerm n o2 = true)
    (hc : ∀ m, m < n → o1.getD (o2.getD m 0) 0 = m) : unperm o1 (unperm o2 j) = j := by
  have l1 := ((isPerm_iff _ _).mp h1).1
  have l2 := ((isPerm_iff _ _).mp h2).1
  apply List.ext_getElem
  · rw [unperm_length, l1, hj]
  · intro k hk1 hk2
    have hk : k < n := by rw [← hj]; exact hk2
    have hi := isPerm_idxOf_lt h1 hk
    rw [← getD_lt _ _ 0 hk1, unperm_getD o1 _ k (by omega), unperm_getD o2 j _ (by omega)]
    have hm := isPerm_idxOf_lt h2 hi
    have e1 := isPerm_getD_idxOf h2 hi
    have e2 := hc _ hm
    rw [e1, isPerm_getD_idxOf h1 hk] at e2
    rw [← e2, getD_lt _ _ 0 hk2]

/-- transposing with `o1` and then with an order `o2` that undoes it gives the image back -/
theorem reorderAxesP_roundtrip (g : ImgOf α) (o1 o2 : List Nat) (hw : WF g)
    (h1 : isPerm g.shape.length o1 = true) (h2 : isPerm g.shape.length o2 = true)
    (hc : ∀ m, m < g.shape.length → o1.getD (o2.getD m 0) 0 = m) :
    SameImg g (reorderAxesP (reorderAxesP g o1) o2) := by
  refine ⟨permute_permute _ o1 o2 _ _ rfl h1 h2 hc, permute_permute _ o1 o2 _ _ hw.1 h1 h2 hc, rfl, rfl,
    permute_permute _ o1 o2 _ _ hw.2 h1 h2 hc, fun j hj => ?_⟩
  simp only [reorderAxesP]
  rw [unperm_unperm _ o1 o2 j ((validIdx_iff _ _).mp hj).1 h1 h2 hc]

theorem reorderAxes_nats (g : ImgOf α) (o : List Nat) (hp : isPerm g.shape.length o = true) :
    reorderAxes g (.nats o) = .ok (reorderAxesP g o) := by
  simp [reorderAxes, resolveOrder, hp]

theorem rollimg_int (g : ImgOf α) (a s : Nat) (o : List (Option Nat)) (ha : a < g.shape.length) :
    rollimg g (.int (a : Int)) (.int (s : Int)) o =
      reorderAxes g (.nats (pyInsert ((List.range g.shape.length).erase a)
        (if (a : Int) < (s : Int) then (s : Int) - 1 else (s : Int)) a)) := by
  have h0 : ¬ ((a : Int) < 0) := by omega
  have h1 : ¬ ((s : Int) < 0) := by omega
  have h3 : ¬ (False ∨ (g.shape.length : Int) ≤ (a : Int)) := not_or.mpr ⟨id, by omega⟩
  simp only [rollimg, inputAxisIndex, h0, h1, if_false, Int.toNat_natCast, h3]

theorem rollOrder_perm (n a : Nat) (ha : a < n) :
    (pyInsert ((List.range n).erase a) 0 a).Perm (List.range n) := by
  have hp : pyInsert ((List.range n).erase a) 0 a = a :: (List.range n).erase a := by
    simp [pyInsert]
  rw [hp]
  exact (List.perm_cons_erase (List.mem_range.mpr ha)).symm

theorem unrollOrder_perm (n a : Nat) (ha : a < n) :
    (pyInsert ((List.range n).erase 0) (a : Int) 0).Perm (List.range n) := by
  have hl := erase_range_length n 0 (by omega)
  have hp : pyInsert ((List.range n).erase 0) (a : Int) 0 = ((List.range n).erase 0).insertIdx a 0 := by
    simp only [pyInsert]
    have : ¬ ((a : Int) < 0) := by omega
    simp only [this, if_false, Int.toNat_natCast]
    rw [hl, Nat.min_eq_left (by omega)]
  rw [hp]
  exact (List.perm_insertIdx 0 _ (by omega)).trans
    (List.perm_cons_erase (List.mem_range.mpr (by omega))).symm


/-- the order `rollimg(img, a, 0)` hands to `reordered_axes` -/
theorem rollOrder_getD (n a m : Nat) (ha : a < n) (hm : m < n) :
    (pyInsert ((List.range n).erase a) 0 a).getD m 0 = if m = 0 then a else if m - 1 < a then m - 1 else m := by
  have hp : pyInsert ((List.range n).erase a) 0 a = a :: (List.range n).erase a := by
    simp [pyInsert]
  rw [hp]
  cases m with
  | zero => simp
  | succ k =>
    simp only [List.getD_cons_succ, Nat.add_one_ne_zero, if_false, Nat.add_sub_cancel]
    rw [erase_range_getD n a k ha (by omega)]

/-- the order `rollimg(img, 0, a + 1)` hands to `reordered_axes` -/
theorem unrollOrder_getD (n a m : Nat) (ha : a < n) (hm : m < n) :
    (pyInsert ((List.range n).erase 0) (a : Int) 0).getD m 0 = if m < a then m + 1 else if m = a then 0 else m := by
  have hl := erase_range_length n 0 (by omega)
  have hp : pyInsert ((List.range n).erase 0) (a : Int) 0 = ((List.range n).erase 0).insertIdx a 0 := by
    simp only [pyInsert]
    have : ¬ ((a : Int) < 0) := by omega
    simp only [this, if_false, Int.toNat_natCast]
    rw [hl, Nat.min_eq_left (by omega)]
  rw [hp]
  have hlen : m < (((List.range n).erase 0).insertIdx a 0).length := by
    rw [List.length_insertIdx]; simp [hl]; split_ifs <;> omega
  rw [getD_lt _ _ _ hlen, List.getElem_insertIdx]
  by_cases h1 : m < a
  · simp only [h1, dif_pos, if_true]
    rw [← getD_lt _ _ 0, erase_range_getD n 0 m (by omega) (by omega)]; simp
  · by_cases h2 : m = a
    · simp [h1, h2]
    · simp only [h1, h2, dif_neg, not_false_eq_true, if_false]
      rw [← getD_lt _ _ 0, erase_range_getD n 0 (m - 1) (by omega) (by omega)]; simp; omega


/-! ## io_orientation of affines with orthogonal columns -/

/-- signed square -/
def ssq (x : Rat) : Rat := sgn x * (x * x)

theorem ssq_zero : ssq 0 = 0 := by simp [ssq]

theorem absR_eq_abs (x : Rat) : absR x = |x| := by
  unfold absR
  split_ifs with h
  · exact (abs_of_neg h).symm
  · exact (abs_of_nonneg (not_lt.mp h)).symm

theorem absR_ssq (x : Rat) : absR (ssq x) = x * x := by
  rw [absR_eq_abs]
  unfold ssq sgn
  split_ifs with h1 h2
  · rw [abs_mul, abs_neg, abs_one, one_mul]; exact abs_of_nonneg (mul_self_nonneg x)
  · subst h2; simp
  · rw [one_mul]; exact abs_of_nonneg (mul_self_nonneg x)

theorem absR_le_iff_sq (x y : Rat) : absR x ≤ absR y ↔ x * x ≤ y * y := by
  rw [absR_eq_abs, absR_eq_abs, ← abs_mul_abs_self x, ← abs_mul_abs_self y]
  exact (mul_self_le_mul_self_iff (abs_nonneg x) (abs_nonneg y))

theorem absR_ssq_le (x y : Rat) : absR (ssq x) ≤ absR (ssq y) ↔ absR x ≤ absR y := by
  rw [absR_ssq, absR_ssq, absR_le_iff_sq]

theorem argmaxAbs_map_ssq (col : List Rat) : argmaxAbs (col.map ssq) = argmaxAbs col := by
  unfold argmaxAbs
  rw [List.findIdx_map]
  congr 1
  funext x
  simp only [Function.comp, List.all_map]
  congr 1
  funext y
  simp only [Function.comp, decide_eq_decide]
  exact absR_ssq_le y x

theorem closeZeroSq_map_ssq (col : List Rat) : closeZeroSq (col.map ssq) = closeZero col := by
  unfold closeZeroSq closeZero
  rw [List.all_map]
  congr 1
  funext x
  simp only [Function.comp, decide_eq_decide]
  rw [absR_ssq]
  have h : (1 : Rat) / 10000000000000000 = (1 / 100000000) * (1 / 100000000) := by norm_num
  rw [h, absR_eq_abs, ← abs_mul_abs_self x]
  exact (mul_self_le_mul_self_iff (abs_nonneg x) (by norm_num)).symm

theorem colOf_map_ssq (R : List (List Rat)) (i : Nat) :
    colOf (R.map (List.map ssq)) i = (colOf R i).map ssq := by
  unfold colOf
  rw [List.map_map, List.map_map]
  apply List.map_congr_left
  intro row _
  simp only [Function.comp, List.getD_eq_getElem?_getD, List.getElem?_map]
  cases row[i]? <;> simp [ssq_zero]

theorem set_zero_map_ssq (R : List (List Rat)) (o : Nat) :
    (R.map (List.map ssq)).set o (((R.map (List.map ssq)).getD o []).map (fun _ => 0)) =
      (R.set o ((R.getD o []).map (fun _ => 0))).map (List.map ssq) := by
  rw [List.map_set]
  congr 1
  simp only [List.getD_eq_getElem?_getD, List.getElem?_map]
  cases R[o]? with
  | none => simp
  | some row =>
    simp only [Option.map_some, Option.getD_some, List.map_map]
    apply List.map_congr_left
    intro x _
    simp [ssq_zero]

theorem greedyPairsSq_map : ∀ (is : List Nat) (R : List (List Rat)),
    greedyPairsSq is (R.map (List.map ssq)) = greedyPairs is R
  | [], R => rfl
  | i :: is, R => by
      simp only [greedyPairsSq, greedyPairs, colOf_map_ssq, closeZeroSq_map_ssq, argmaxAbs_map_ssq]
      split_ifs
      · rw [greedyPairsSq_map is R]
      · rw [set_zero_map_ssq, greedyPairsSq_map is _]

theorem foldl_keys_ssq (col : List Rat) : ∀ m : Rat,
    (col.map ssq).foldl (fun m x => if -(absR x) < m then -(absR x) else m) m =
      col.foldl (fun m x => if -(x * x) < m then -(x * x) else m) m := by
  induction col with
  | nil => intro m; rfl
  | cons x xs ih => intro m; simp only [List.map_cons, List.foldl_cons, absR_ssq]; exact ih _

/-- the loop run on the signed squares of `R` is the loop run on `R` -/
theorem ioOrientSq_map (R : List (List Rat)) (p : Nat) :
    ioOrientSq (R.map (List.map ssq)) p = ioOrientFrom R (sqKeys R p) := by
  unfold ioOrientSq ioOrientFrom sqKeys
  simp only [colOf_map_ssq, foldl_keys_ssq, greedyPairsSq_map, List.length_map, List.length_range]


theorem dotCols_succ (a b : Vec) (n : Nat) : dotCols a b (n + 1) = dotCols a b n + a n * b n := by
  simp [dotCols, List.range_succ]

theorem dotCols_scale (a b : Vec) (x y : Rat) : ∀ n : Nat,
    dotCols (fun r => a r / x) (fun r => b r / y) n = dotCols a b n / (x * y)
  | 0 => by simp [dotCols]
  | n + 1 => by
      rw [dotCols_succ, dotCols_succ, dotCols_scale a b x y n]
      by_cases hx : x = 0
      · subst hx; simp
      · by_cases hy : y = 0
        · subst hy; simp
        · field_simp

theorem dotCols_self_nonneg (a : Vec) : ∀ n : Nat, 0 ≤ dotCols a a n
  | 0 => by simp [dotCols]
  | n + 1 => by
      rw [dotCols_succ]
      have := dotCols_self_nonneg a n
      have := mul_self_nonneg (a n)
      linarith

theorem dotCols_self_zero (a : Vec) : ∀ n : Nat, dotCols a a n = 0 → ∀ r, r < n → a r = 0
  | 0, _, r, hr => by omega
  | n + 1, h, r, hr => by
      rw [dotCols_succ] at h
      have h1 := dotCols_self_nonneg a n
      have h2 := mul_self_nonneg (a n)
      have h3 : dotCols a a n = 0 := by linarith
      have h4 : a n * a n = 0 := by linarith
      by_cases hrn : r = n
      · subst hrn; exact mul_self_eq_zero.mp h4
      · exact dotCols_self_zero a n h3 r (by omega)

/-- `zs` are the zooms `io_orientation` divides the columns by: the column norms, 1 for an
    all-zero column -/
def Zooms (cs : List Vec) (nout : Nat) (zs : List Rat) : Prop :=
  List.Forall₂ (fun c z => 0 < z ∧ (dotCols c c nout ≠ 0 → z * z = dotCols c c nout) ∧
    (dotCols c c nout = 0 → z = 1)) cs zs

/-- the column-normalised linear part `RS` (rows) -/
def normRows (cs : List Vec) (nout : Nat) (zs : List Rat) : List (List Rat) :=
  (List.range nout).map (fun r => List.zipWith (fun c z => c r / z) cs zs)

theorem sgn_div_pos (a z : Rat) (hz : 0 < z) : sgn (a / z) = sgn a := by
  unfold sgn
  have h1 : a / z < 0 ↔ a < 0 := by
    constructor
    · intro h; by_contra hc; have := div_nonneg (not_lt.mp hc) (le_of_lt hz); linarith
    · intro h
      have : a / z = a * z⁻¹ := div_eq_mul_inv a z
      rw [this]
      exact mul_neg_of_neg_of_pos h (inv_pos.mpr hz)
  have h2 : a / z = 0 ↔ a = 0 := by
    constructor
    · intro h; rcases div_eq_zero_iff.mp h with h | h
      · exact h
      · linarith
    · intro h; simp [h]
  simp only [h1, h2]

theorem sqNorm_row (nout r : Nat) (hr : r < nout) : ∀ (cs : List Vec) (zs : List Rat), Zooms cs nout zs →
    (List.zipWith (fun c z => c r / z) cs zs).map ssq =
      cs.map (fun c => if dotCols c c nout = 0 then 0 else sgn (c r) * (c r * c r) / dotCols c c nout)
  | [], [], _ => rfl
  | [], _ :: _, h => by cases h
  | _ :: _, [], h => by cases h
  | c :: cs, z :: zs, h => by
      cases h with
      | cons h1 h2 =>
        obtain ⟨hz, hn, h0⟩ := h1
        simp only [List.zipWith_cons_cons, List.map_cons, sqNorm_row nout r hr cs zs h2]
        congr 1
        by_cases hns : dotCols c c nout = 0
        · rw [if_pos hns, h0 hns, dotCols_self_zero c nout hns r hr]
          simp [ssq_zero]
        · rw [if_neg hns, ← hn hns]
          unfold ssq
          rw [sgn_div_pos _ _ hz]
          have : z ≠ 0 := ne_of_gt hz
          field_simp

theorem sqNormRows_eq (cs : List Vec) (nout : Nat) (zs : List Rat) (hz : Zooms cs nout zs) :
    sqNormRows cs nout = (normRows cs nout zs).map (List.map ssq) := by
  unfold sqNormRows normRows
  rw [List.map_map]
  apply List.map_congr_left
  intro r hr
  simp only [Function.comp]
  rw [sqNorm_row nout r (List.mem_range.mp hr) cs zs hz]


end NipyVerif.C02
