/- Helper lemmas for C04, part B: rounding and casts, SciPy index extension, cubic-spline window. -/
import NipyVerif.Lemmas.C04
import Mathlib.Tactic.LinearCombination
import Mathlib.Algebra.Order.Ring.Abs
import Mathlib.Tactic.NormNum

namespace NipyVerif.C04

/-! ### rounding -/

theorem roundHalfEven_int (z : Int) : roundHalfEven (z : Rat) = z := by
  unfold roundHalfEven
  simp only [floor_int, sub_self]
  norm_num

theorem roundHalfAway_int (z : Int) : roundHalfAway (z : Rat) = z := by
  unfold roundHalfAway
  split
  · rw [floor_eq, Int.floor_eq_iff]
    constructor <;> linarith
  · have : (-(z : Rat) + 1 / 2).floor = -z := by
      rw [floor_eq, Int.floor_eq_iff]
      constructor <;> push_cast <;> linarith
    rw [this]; ring

theorem roundHalfEven_near (q : Rat) : |((roundHalfEven q : Int) : Rat) - q| ≤ 1 / 2 := by
  have h1 : ((q.floor : Int) : Rat) ≤ q := by rw [floor_eq]; exact Int.floor_le q
  have h2 : q < ((q.floor : Int) : Rat) + 1 := by rw [floor_eq]; exact Int.lt_floor_add_one q
  unfold roundHalfEven
  generalize q.floor = f at h1 h2 ⊢
  simp only []
  rw [abs_le]
  by_cases ha : q - (f : Rat) < 1 / 2
  · rw [if_pos ha]
    constructor <;> linarith
  · rw [if_neg ha]
    by_cases hb : 1 / 2 < q - (f : Rat)
    · rw [if_pos hb]
      constructor <;> push_cast <;> linarith
    · rw [if_neg hb]
      have : q - (f : Rat) = 1 / 2 := le_antisymm (not_lt.1 hb) (not_lt.1 ha)
      by_cases hc : f % 2 = 0
      · rw [if_pos hc]
        constructor <;> linarith
      · rw [if_neg hc]
        constructor <;> push_cast <;> linarith

theorem roundHalfAway_near (q : Rat) : |((roundHalfAway q : Int) : Rat) - q| ≤ 1 / 2 := by
  unfold roundHalfAway
  rw [abs_le]
  by_cases h : 0 < q
  · rw [if_pos h]
    have h1 : (((q + 1 / 2).floor : Int) : Rat) ≤ q + 1 / 2 := by rw [floor_eq]; exact Int.floor_le _
    have h2 : q + 1 / 2 < (((q + 1 / 2).floor : Int) : Rat) + 1 := by
      rw [floor_eq]; exact Int.lt_floor_add_one _
    constructor <;> linarith
  · rw [if_neg h]
    have h1 : (((-q + 1 / 2).floor : Int) : Rat) ≤ -q + 1 / 2 := by rw [floor_eq]; exact Int.floor_le _
    have h2 : -q + 1 / 2 < (((-q + 1 / 2).floor : Int) : Rat) + 1 := by
      rw [floor_eq]; exact Int.lt_floor_add_one _
    constructor <;> push_cast <;> linarith

theorem roundBy_int (r : RoundRule) (z : Int) : roundBy r (z : Rat) = z := by
  cases r
  · exact roundHalfEven_int z
  · exact roundHalfAway_int z

theorem roundBy_near (r : RoundRule) (q : Rat) : |((roundBy r q : Int) : Rat) - q| ≤ 1 / 2 := by
  cases r
  · exact roundHalfEven_near q
  · exact roundHalfAway_near q

/-- both rules are monotone -/
theorem roundHalfAway_mono {p q : Rat} (h : p ≤ q) : roundHalfAway p ≤ roundHalfAway q := by
  unfold roundHalfAway
  simp only [floor_eq]
  split_ifs with hp hq hq
  · exact Int.floor_le_floor (by linarith)
  · linarith
  · have h1 : ⌊-p + 1 / 2⌋ ≥ 0 := Int.floor_nonneg.2 (by linarith)
    have h2 : ⌊q + 1 / 2⌋ ≥ 0 := Int.floor_nonneg.2 (by linarith)
    omega
  · have : ⌊-q + 1 / 2⌋ ≤ ⌊-p + 1 / 2⌋ := Int.floor_le_floor (by linarith)
    omega

/-! ### clamp -/

theorem clampInt_mem (lo hi x : Int) (h : lo ≤ hi) : lo ≤ clampInt lo hi x ∧ clampInt lo hi x ≤ hi := by
  unfold clampInt
  split_ifs <;> omega

theorem clampInt_mono (lo hi : Int) (hlh : lo ≤ hi) {x y : Int} (h : x ≤ y) : clampInt lo hi x ≤ clampInt lo hi y := by
  unfold clampInt
  split_ifs <;> omega

/-- every integer dtype's range is a non-empty interval containing 0 -/
theorem intRange_ok (d : DType) (lo hi : Int) (h : d.intRange = some (lo, hi)) : lo ≤ 0 ∧ 0 ≤ hi := by
  cases d <;> simp [DType.intRange] at h <;> omega

theorem representable_iff (d : DType) (lo hi : Int) (h : d.intRange = some (lo, hi)) (q : Rat) :
    d.representable q = true ↔ ∃ z : Int, q = z ∧ lo ≤ z ∧ z ≤ hi := by
  unfold DType.representable
  rw [h]
  simp only [Bool.and_eq_true, decide_eq_true_eq]
  constructor
  · rintro ⟨⟨h1, h2⟩, h3⟩
    exact ⟨q.num, ((Rat.den_eq_one_iff q).1 h1).symm, h2, h3⟩
  · rintro ⟨z, rfl, h2, h3⟩
    simp [h2, h3]


theorem roundHalfEven_bounds (q : Rat) : q.floor ≤ roundHalfEven q ∧ roundHalfEven q ≤ q.floor + 1 := by
  unfold roundHalfEven
  generalize q.floor = f
  simp only []
  split_ifs <;> omega

theorem roundHalfEven_mono {p q : Rat} (h : p ≤ q) : roundHalfEven p ≤ roundHalfEven q := by
  have hfl : p.floor ≤ q.floor := by rw [floor_eq, floor_eq]; exact Int.floor_le_floor h
  rcases lt_or_eq_of_le hfl with hlt | heq
  · have := (roundHalfEven_bounds p).2
    have := (roundHalfEven_bounds q).1
    omega
  · unfold roundHalfEven
    rw [← heq]
    generalize p.floor = f
    simp only []
    by_cases ha : p - (f : Rat) < 1 / 2
    · rw [if_pos ha]
      split_ifs <;> omega
    · rw [if_neg ha]
      have ha' : ¬ q - (f : Rat) < 1 / 2 := by intro hc; apply ha; linarith
      rw [if_neg ha']
      by_cases hb : 1 / 2 < p - (f : Rat)
      · have hb' : 1 / 2 < q - (f : Rat) := by linarith
        rw [if_pos hb, if_pos hb']
      · rw [if_neg hb]
        split_ifs <;> omega

theorem roundBy_mono (r : RoundRule) {p q : Rat} (h : p ≤ q) : roundBy r p ≤ roundBy r q := by
  cases r
  · exact roundHalfEven_mono h
  · exact roundHalfAway_mono h

/-! ### SciPy index extension -/

/-- `a = r + m·q` with `0 ≤ r < m` gives `a % m = r` -/
theorem emod_of_decomp (a r m q : Int) (h : a = r + m * q) (h0 : 0 ≤ r) (h1 : r < m) : a % m = r := by
  subst h
  rw [Int.add_mul_emod_self_left]
  exact Int.emod_eq_of_lt h0 h1

theorem extIndex_inside (m : Mode) (len : Nat) (i : Int) (h0 : 0 ≤ i) (h1 : i < (len : Int)) :
    extIndex m len i = some i.toNat := by
  unfold extIndex
  simp only []
  rw [if_pos ⟨h0, h1⟩]

theorem extIndex_lt (m : Mode) (len : Nat) (hlen : 0 < len) (i : Int) (j : Nat)
    (h : extIndex m len i = some j) : j < len := by
  unfold extIndex at h
  simp only [] at h
  by_cases hin : 0 ≤ i ∧ i < (len : Int)
  · rw [if_pos hin] at h
    have := Option.some.inj h
    omega
  · rw [if_neg hin] at h
    have hn : (0 : Int) < (len : Int) := by exact_mod_cast hlen
    cases m <;> simp only [] at h
    · cases h
    · cases h
    · have := Option.some.inj h
      split_ifs at this <;> omega
    · have hm := Int.emod_nonneg i (show (2 * (len : Int)) ≠ 0 by omega)
      have hl := Int.emod_lt_of_pos i (show (0 : Int) < 2 * (len : Int) by omega)
      have := Option.some.inj h
      split_ifs at this <;> omega
    · have hm := Int.emod_nonneg i (show (2 * (len : Int)) ≠ 0 by omega)
      have hl := Int.emod_lt_of_pos i (show (0 : Int) < 2 * (len : Int) by omega)
      have := Option.some.inj h
      split_ifs at this <;> omega
    · by_cases h1 : len ≤ 1
      · rw [if_pos h1] at h
        have := Option.some.inj h
        omega
      · rw [if_neg h1] at h
        have hm := Int.emod_nonneg i (show (2 * ((len : Int) - 1)) ≠ 0 by omega)
        have hl := Int.emod_lt_of_pos i (show (0 : Int) < 2 * ((len : Int) - 1) by omega)
        have := Option.some.inj h
        split_ifs at this <;> omega
    · by_cases h1 : len ≤ 1
      · rw [if_pos h1] at h
        have := Option.some.inj h
        omega
      · rw [if_neg h1] at h
        have hsz : (0 : Int) < (len : Int) - 1 := by omega
        by_cases hneg : i < 0
        · rw [if_pos hneg] at h
          have e := Int.mul_ediv_add_emod (-i) ((len : Int) - 1)
          have hm := Int.emod_nonneg (-i) (show ((len : Int) - 1) ≠ 0 by omega)
          have hl := Int.emod_lt_of_pos (-i) hsz
          have := Option.some.inj h
          omega
        · rw [if_neg hneg] at h
          have e := Int.mul_ediv_add_emod i ((len : Int) - 1)
          have hm := Int.emod_nonneg i (show ((len : Int) - 1) ≠ 0 by omega)
          have hl := Int.emod_lt_of_pos i hsz
          have := Option.some.inj h
          omega
    · have hm := Int.emod_nonneg i (show ((len : Int)) ≠ 0 by omega)
      have hl := Int.emod_lt_of_pos i hn
      have := Option.some.inj h
      omega


theorem extIndex_none_iff (m : Mode) (len : Nat) (i : Int) :
    extIndex m len i = none ↔ m.fills = true ∧ ¬ (0 ≤ i ∧ i < (len : Int)) := by
  unfold extIndex
  simp only []
  by_cases hin : 0 ≤ i ∧ i < (len : Int)
  · rw [if_pos hin]; simp [hin]
  · rw [if_neg hin]
    cases m <;> simp [Mode.fills, hin] <;> split_ifs <;> simp

/-- `reflect` for *every* integer: fold `i mod 2·len` -/
theorem extIndex_reflect_eq (len : Nat) (_hlen : 0 < len) (i : Int) :
    extIndex .reflect len i =
      some (if i % (2 * (len : Int)) < (len : Int) then i % (2 * (len : Int))
            else 2 * (len : Int) - 1 - i % (2 * (len : Int))).toNat := by
  unfold extIndex
  simp only []
  by_cases hin : 0 ≤ i ∧ i < (len : Int)
  · rw [if_pos hin]
    have : i % (2 * (len : Int)) = i := Int.emod_eq_of_lt hin.1 (by omega)
    rw [this, if_pos hin.2]
  · rw [if_neg hin]

/-- `mirror` for every integer (axis of at least two samples): fold `i mod 2·(len-1)` -/
theorem extIndex_mirror_eq (len : Nat) (hlen : 1 < len) (i : Int) :
    extIndex .mirror len i =
      some (if i % (2 * ((len : Int) - 1)) < (len : Int) then i % (2 * ((len : Int) - 1))
            else 2 * ((len : Int) - 1) - i % (2 * ((len : Int) - 1))).toNat := by
  unfold extIndex
  simp only []
  by_cases hin : 0 ≤ i ∧ i < (len : Int)
  · rw [if_pos hin]
    by_cases hlast : i < 2 * ((len : Int) - 1)
    · have : i % (2 * ((len : Int) - 1)) = i := Int.emod_eq_of_lt hin.1 hlast
      rw [this, if_pos hin.2]
    · -- only `len = 2`, `i = 1`... no: `i = len - 1 = 2(len-1)` forces `len = 1`
      omega
  · rw [if_neg hin, if_neg (by omega)]

theorem extIndex_gridWrap_eq (len : Nat) (_hlen : 0 < len) (i : Int) :
    extIndex .gridWrap len i = some (i % (len : Int)).toNat := by
  unfold extIndex
  simp only []
  by_cases hin : 0 ≤ i ∧ i < (len : Int)
  · rw [if_pos hin, Int.emod_eq_of_lt hin.1 hin.2]
  · rw [if_neg hin]


/-! ### `cubic_spline.c` -/

theorem csMirror_le (x : Int) (ddim : Nat) : csMirror x ddim ≤ ddim := by
  unfold csMirror
  split_ifs with h0
  · omega
  · have hp : (0 : Int) < 2 * (ddim : Int) := by omega
    have h1 := Int.emod_nonneg x (ne_of_gt hp)
    have h2 := Int.emod_lt_of_pos x hp
    simp only
    split_ifs <;> omega

theorem csMirror_zero (x : Int) : csMirror x 0 = 0 := by simp [csMirror]

/-- explicit values of the mirror on the window `[-d-1, 2d+1]` reached from in-range abscissae -/
theorem csMirror_window (x : Int) (d : Nat) (hd : 0 < d) (h0 : -(d : Int) - 1 ≤ x) (h1 : x ≤ 2 * (d : Int) + 1) :
    ((csMirror x d : Nat) : Int) =
      if x < -(d : Int) then x + 2 * (d : Int) else if x < 0 then -x else if x ≤ (d : Int) then x
      else if x ≤ 2 * (d : Int) then 2 * (d : Int) - x else x - 2 * (d : Int) := by
  have hd0 : ¬ d = 0 := by omega
  unfold csMirror
  rw [if_neg hd0]
  simp only
  by_cases hneg : x < 0
  · have e : x % (2 * (d : Int)) = x + 2 * (d : Int) :=
      emod_of_decomp x (x + 2 * (d : Int)) (2 * (d : Int)) (-1) (by ring) (by omega) (by omega)
    rw [e]
    split_ifs <;> omega
  · by_cases hbig : x < 2 * (d : Int)
    · have e : x % (2 * (d : Int)) = x := Int.emod_eq_of_lt (by omega) hbig
      rw [e]
      split_ifs <;> omega
    · have e : x % (2 * (d : Int)) = x - 2 * (d : Int) :=
        emod_of_decomp x (x - 2 * (d : Int)) (2 * (d : Int)) 1 (by ring) (by omega) (by omega)
      rw [e]
      split_ifs <;> omega

theorem csMirror_fixes (i d : Nat) (h : i ≤ d) : csMirror (i : Int) d = i := by
  rcases Nat.eq_zero_or_pos d with hd | hd
  · subst hd
    have : i = 0 := by omega
    subst this; rfl
  · have := csMirror_window (i : Int) d hd (by omega) (by omega)
    split_ifs at this <;> omega

/-- the outer taps around an in-range integer abscissa are those around its mirror image
    (possibly exchanged) -/
theorem csMirror_taps (x : Int) (d : Nat) (h0 : -(d : Int) ≤ x) (h1 : x ≤ 2 * (d : Int)) :
    (csMirror (x - 1) d = csMirror ((csMirror x d : Int) - 1) d ∧
     csMirror (x + 1) d = csMirror ((csMirror x d : Int) + 1) d) ∨
    (csMirror (x - 1) d = csMirror ((csMirror x d : Int) + 1) d ∧
     csMirror (x + 1) d = csMirror ((csMirror x d : Int) - 1) d) := by
  rcases Nat.eq_zero_or_pos d with hd | hd
  · subst hd
    left; simp [csMirror_zero]
  · have hm := csMirror_window x d hd (by omega) (by omega)
    have hle := csMirror_le x d
    have a1 := csMirror_window (x - 1) d hd (by omega) (by omega)
    have a2 := csMirror_window (x + 1) d hd (by omega) (by omega)
    have b1 := csMirror_window ((csMirror x d : Int) - 1) d hd (by omega) (by omega)
    have b2 := csMirror_window ((csMirror x d : Int) + 1) d hd (by omega) (by omega)
    by_cases hc : 0 ≤ x ∧ x ≤ (d : Int)
    · left
      have : ((csMirror x d : Nat) : Int) = x := by split_ifs at hm <;> omega
      rw [this]
      exact ⟨rfl, rfl⟩
    · right
      constructor
      · have : ((csMirror (x - 1) d : Nat) : Int) = ((csMirror ((csMirror x d : Int) + 1) d : Nat) : Int) := by
          rw [a1, b2]
          split_ifs at hm ⊢ <;> omega
        exact_mod_cast this
      · have : ((csMirror (x + 1) d : Nat) : Int) = ((csMirror ((csMirror x d : Int) - 1) d : Nat) : Int) := by
          rw [a2, b1]
          split_ifs at hm ⊢ <;> omega
        exact_mod_cast this

theorem csBasis_vals : csBasis (2 / 3) 1 = 1 / 6 ∧ csBasis (2 / 3) 0 = 2 / 3 ∧
    csBasis (2 / 3) (-1) = 1 / 6 ∧ csBasis (2 / 3) (-2) = 0 := by
  refine ⟨?_, ?_, ?_, ?_⟩ <;> simp [csBasis, absR] <;> norm_num

theorem truncInt_int (z : Int) (hz : 0 ≤ z) : truncInt (z : Rat) = z := by
  unfold truncInt
  have : (0 : Rat) ≤ (z : Rat) := by exact_mod_cast hz
  rw [if_pos this, floor_int]

theorem csNeighbors_int (x : Int) (d : Nat) (h0 : -(d : Int) ≤ x) (h1 : x ≤ 2 * (d : Int)) :
    csNeighbors (x : Rat) d = some (x - 1) := by
  unfold csNeighbors
  have e : (x : Rat) + (((d : Nat) : Int) : Rat) + 2 = (((x + (d : Int) + 2 : Int)) : Rat) := by push_cast; ring
  rw [e, truncInt_int _ (by omega)]
  simp only
  rw [if_pos (by omega)]
  congr 1
  ring

/-- at an integer abscissa the four-tap window is the three-tap operator around it -/
theorem csWindow_int (d : Nat) (f : Nat → Rat) (x : Int) :
    csWindow (2 / 3) d f (x : Rat) (x - 1) =
      (f (csMirror (x - 1) d) + 4 * f (csMirror x d) + f (csMirror (x + 1) d)) / 6 := by
  obtain ⟨b1, b0, bm1, bm2⟩ := csBasis_vals
  have hr : List.range 4 = [0, 1, 2, 3] := by decide
  unfold csWindow
  rw [hr]
  simp only [List.map_cons, List.map_nil, List.sum_cons, List.sum_nil]
  have e0 : (x : Rat) - (((x - 1 + ((0 : Nat) : Int) : Int)) : Rat) = 1 := by push_cast; ring
  have e1 : (x : Rat) - (((x - 1 + ((1 : Nat) : Int) : Int)) : Rat) = 0 := by push_cast; ring
  have e2 : (x : Rat) - (((x - 1 + ((2 : Nat) : Int) : Int)) : Rat) = -1 := by push_cast; ring
  have e3 : (x : Rat) - (((x - 1 + ((3 : Nat) : Int) : Int)) : Rat) = -2 := by push_cast; ring
  rw [e0, e1, e2, e3, b1, b0, bm1, bm2]
  have p0 : x - 1 + ((0 : Nat) : Int) = x - 1 := by simp
  have p1 : x - 1 + ((1 : Nat) : Int) = x := by push_cast; ring
  have p2 : x - 1 + ((2 : Nat) : Int) = x + 1 := by push_cast; ring
  rw [p0, p1, p2]
  ring

/-- … and that is the three-tap operator at the mirrored sample -/
theorem csWindow_tap (d : Nat) (f : Nat → Rat) (x : Int) (h0 : -(d : Int) ≤ x) (h1 : x ≤ 2 * (d : Int)) :
    csWindow (2 / 3) d f (x : Rat) (x - 1) = csTap d f (csMirror x d) := by
  rw [csWindow_int]
  unfold csTap
  have hfix : csMirror ((csMirror x d : Nat) : Int) d = csMirror x d := csMirror_fixes _ _ (csMirror_le x d)
  rcases csMirror_taps x d h0 h1 with ⟨e1, e2⟩ | ⟨e1, e2⟩
  · rw [e1, e2]
  · rw [e1, e2]; ring


/-! ### multilinear interpolation -/

open Finset in
theorem consI_zero {n : Nat} (i : Int) (p : Fin n → Int) : consI i p 0 = i := rfl

theorem consI_succ {n : Nat} (i : Int) (p : Fin n → Int) (j : Fin n) : consI i p j.succ = p j := rfl

theorem consI_tail {n : Nat} (p : Fin (n + 1) → Int) : consI (p 0) (fun j => p j.succ) = p := by
  funext j
  refine Fin.cases ?_ (fun k => ?_) j
  · rfl
  · rfl

/-- at lattice points the multilinear interpolant returns the lattice value -/
theorem mlin_at_lattice : ∀ (n : Nat) (f : (Fin n → Int) → Rat) (p : Fin n → Int),
    mlin n f (castPt p) = f p := by
  intro n
  induction n with
  | zero =>
    intro f p
    simp only [mlin]
    congr 1
    funext i
    exact i.elim0
  | succ n ih =>
    intro f p
    simp only [mlin]
    have hfl : (castPt p 0).floor = p 0 := by simp [castPt]
    rw [hfl]
    have ht : castPt p 0 - ((p 0 : Int) : Rat) = 0 := by simp [castPt]
    rw [ht]
    have := ih (fun q => f (consI (p 0) q)) (fun j => p j.succ)
    have e : (fun j : Fin n => castPt p j.succ) = castPt (fun j => p j.succ) := rfl
    rw [e, this, consI_tail]
    ring

/-- the lattice points the interpolant reads with a non-zero weight -/
def usedCorner {n : Nat} (x : Fin n → Rat) (p : Fin n → Int) : Prop :=
  ∀ i, p i = (x i).floor ∨ (p i = (x i).floor + 1 ∧ x i ≠ (((x i).floor : Int) : Rat))

/-- the interpolant depends only on those points -/
theorem mlin_congr : ∀ (n : Nat) (f f' : (Fin n → Int) → Rat) (x : Fin n → Rat),
    (∀ p, usedCorner x p → f p = f' p) → mlin n f x = mlin n f' x := by
  intro n
  induction n with
  | zero =>
    intro f f' x h
    simp only [mlin]
    exact h _ (fun i => i.elim0)
  | succ n ih =>
    intro f f' x h
    simp only [mlin]
    have h1 : mlin n (fun p => f (consI (x 0).floor p)) (fun j => x j.succ)
        = mlin n (fun p => f' (consI (x 0).floor p)) (fun j => x j.succ) := by
      apply ih
      intro p hp
      apply h
      intro i
      refine Fin.cases ?_ (fun k => ?_) i
      · left; rfl
      · exact hp k
    rw [h1]
    by_cases ht : x 0 = (((x 0).floor : Int) : Rat)
    · have : x 0 - (((x 0).floor : Int) : Rat) = 0 := by rw [← ht]; ring
      rw [this]; ring
    · have h2 : mlin n (fun p => f (consI ((x 0).floor + 1) p)) (fun j => x j.succ)
          = mlin n (fun p => f' (consI ((x 0).floor + 1) p)) (fun j => x j.succ) := by
        apply ih
        intro p hp
        apply h
        intro i
        refine Fin.cases ?_ (fun k => ?_) i
        · right; exact ⟨rfl, ht⟩
        · exact hp k
      rw [h2]

/-- the multilinear interpolant of an affine function is that function -/
theorem mlin_affine : ∀ (n : Nat) (a : Fin n → Rat) (b : Rat) (x : Fin n → Rat),
    mlin n (fun p => (∑ j, a j * ((p j : Int) : Rat)) + b) x = (∑ j, a j * x j) + b := by
  intro n
  induction n with
  | zero =>
    intro a b x
    simp [mlin]
  | succ n ih =>
    intro a b x
    simp only [mlin]
    have e : ∀ i : Int, (fun p : Fin n → Int => (∑ j, a j * (((consI i p) j : Int) : Rat)) + b)
        = fun p => (∑ j : Fin n, a j.succ * ((p j : Int) : Rat)) + (a 0 * (i : Rat) + b) := by
      intro i
      funext p
      rw [Fin.sum_univ_succ]
      simp only [consI_zero, consI_succ]
      ring
    rw [e, e, ih, ih, Fin.sum_univ_succ]
    push_cast
    ring

end NipyVerif.C04
