/- Helper lemmas for C13 part B (conjugate updates, caches). -/
import NipyVerif.Model.C13B
import NipyVerif.Lemmas.C13

namespace NipyVerif.C13
open Finset

theorem hardResp_nonneg (z : Nat → Nat) (k i : Nat) : 0 ≤ hardResp z k i := by
  unfold hardResp; split_ifs <;> norm_num

theorem resp_zero_of_pop_zero {n : Nat} {r : Nat → Rat} (hr : ∀ i, i < n → 0 ≤ r i)
    (hp : pop n r = 0) : ∀ i, i < n → r i = 0 := by
  unfold pop at hp
  rw [sumTo_eq_sum] at hp
  have := (sum_eq_zero_iff_of_nonneg (fun i hi => hr i (mem_range.mp hi))).mp hp
  intro i hi
  exact this i (mem_range.mpr hi)

theorem pop_zero_of_resp_zero {n : Nat} {r : Nat → Rat} (h : ∀ i, i < n → r i = 0) : pop n r = 0 := by
  unfold pop
  rw [sumTo_congr h, sumTo_const]; ring

theorem sx_zero_of_resp_zero {n : Nat} {r : Nat → Rat} (x : Nat → Nat → Rat) (j : Nat)
    (h : ∀ i, i < n → r i = 0) : sx n r x j = 0 := by
  unfold sx
  rw [sumTo_congr (g := fun _ => 0) (fun i hi => by rw [h i hi]; ring), sumTo_const]; ring

theorem scatterR_zero_of_resp_zero {n : Nat} {r : Nat → Rat} (rp : Rat) (x : Nat → Nat → Rat) (j l : Nat)
    (h : ∀ i, i < n → r i = 0) : scatterR rp n r x j l = 0 := by
  unfold scatterR
  rw [sumTo_congr (g := fun _ => 0) (fun i hi => by rw [h i hi]; ring), sumTo_const]; ring

/-- an empty class: the Wishart inverse scale is the prior's, whatever the data -/
theorem conjCov_of_resp_zero {n : Nat} {r : Nat → Rat} (rp : Rat) (x : Nat → Nat → Rat) (pm : Nat → Rat)
    (ips : Nat → Nat → Rat) (ps : Rat) (j l : Nat) (h : ∀ i, i < n → r i = 0) :
    conjCov rp n r x pm ips ps j l = ips j l := by
  unfold conjCov apms
  rw [scatterR_zero_of_resp_zero rp x j l h, pop_zero_of_resp_zero h]
  simp

theorem empMeanR_affine (rp : Rat) (n : Nat) (r : Nat → Rat) (x : Nat → Nat → Rat) (a t : Nat → Rat)
    (j : Nat) (hrp : rp = pop n r) (hne : pop n r ≠ 0) :
    empMeanR rp n r (affineData a t x) j = a j * empMeanR rp n r x j + t j := by
  unfold empMeanR
  rw [sx_affine, hrp]
  field_simp

theorem scatterR_affine (rp : Rat) (n : Nat) (r : Nat → Rat) (x : Nat → Nat → Rat) (a t : Nat → Rat)
    (j l : Nat) (hrp : rp = pop n r) (hne : pop n r ≠ 0) :
    scatterR rp n r (affineData a t x) j l = a j * a l * scatterR rp n r x j l := by
  unfold scatterR
  rw [empMeanR_affine rp n r x a t j hrp hne, empMeanR_affine rp n r x a t l hrp hne, ← sumTo_mul_left]
  apply sumTo_congr; intro i _; unfold affineData; ring

theorem conjCov_affine_nonempty (rp : Rat) (n : Nat) (r : Nat → Rat) (x : Nat → Nat → Rat)
    (a t pm : Nat → Rat) (ips : Nat → Nat → Rat) (ps : Rat) (j l : Nat)
    (hrp : rp = pop n r) (hne : pop n r ≠ 0) :
    conjCov rp n r (affineData a t x) (affineVec a t pm) (scaleMat a ips) ps j l
      = a j * a l * conjCov rp n r x pm ips ps j l := by
  unfold conjCov
  rw [scatterR_affine rp n r x a t j l hrp hne, empMeanR_affine rp n r x a t j hrp hne,
    empMeanR_affine rp n r x a t l hrp hne]
  unfold affineVec scaleMat
  ring

theorem mstepMean_affine (n : Nat) (r : Nat → Rat) (x : Nat → Nat → Rat) (a t pm : Nat → Rat) (ps : Rat)
    (j : Nat) (h : pop n r + ps ≠ 0) :
    mstepMean n r (affineData a t x) (affineVec a t pm) ps j = a j * mstepMean n r x pm ps j + t j := by
  unfold mstepMean affineVec
  rw [sx_affine]
  field_simp
  ring

theorem hardResp_relabel (z : Nat → Nat) (τ : Nat → Nat) (hτ : Function.Injective τ) (k : Nat) :
    hardResp (fun i => τ (z i)) (τ k) = hardResp z k := by
  funext i
  unfold hardResp
  by_cases h : z i = k
  · simp [h]
  · have : τ (z i) ≠ τ k := fun e => h (hτ e)
    simp [h, this]

/-- one step of the cache machine keeps `_detp` coherent when the method obeys write ⇒ refresh -/
theorem stepCache_detp {P D : Type} (det : P → D) (inv : P → P) (m : Gen.C13.Meth) (p q : P)
    (s : Cache P D) (hm : detpDiscipline m = true) (hs : detpCoherent det s) :
    detpCoherent det (stepCache det inv m p q s) := by
  unfold detpDiscipline at hm
  unfold detpCoherent stepCache at *
  by_cases hr : m.rDetp = true
  · simp [hr]
  · have hw : m.wPrec = false := by
      cases hwp : m.wPrec with
      | false => rfl
      | true => simp [hwp] at hm; exact absurd hm hr
    simp [hr, hw, hs]

theorem stepCache_prior {P D : Type} (det : P → D) (inv : P → P) (m : Gen.C13.Meth) (p q : P)
    (s : Cache P D) (hm : (!m.wPScale || (m.rDets && m.rIps)) = true) (hs : priorCoherent det inv s) :
    priorCoherent det inv (stepCache det inv m p q s) := by
  unfold priorCoherent stepCache at *
  obtain ⟨h1, h2⟩ := hs
  cases hw : m.wPScale <;> cases hd : m.rDets <;> cases hi : m.rIps <;>
    simp [hw, hd, hi, h1, h2] at hm ⊢

end NipyVerif.C13
