/-
C09 — helper lemmas for the optimisation layer (`NipyVerif.Model.C09Opt`): loop invariants of
`fmin_steepest`, the probe minimiser, the recorded-run environment.
-/
import NipyVerif.Model.C09Opt
import Mathlib.Tactic.Ring
import Mathlib.Tactic.Linarith

namespace NipyVerif.C09

theorem steepFactor_pos : 0 < Src.steepFactor := by decide +kernel

theorem steepSlack_pos : 0 < Src.steepSlack := by decide +kernel

theorem absR_nonneg (x : Rat) : 0 ≤ absR x := by
  unfold absR; split <;> linarith

/-- what the loop needs from `_linesearch_brent`: the value it returns is the objective at the point
    it returns, and it is not above the objective at the point the search started from
    (`f(x + α·d) ≤ f(x)`) -/
def LineSearchOK {X : Type} (E : Env X) : Prop :=
  ∀ x d, E.dir x = some d → (E.ls x d).1 ≤ E.f x ∧ E.f (E.ls x d).2 = (E.ls x d).1

/-- loop invariant: the tracked value is the objective at the tracked point, and it never increases -/
theorem steepLoop_invariant {X : Type} (E : Env X) (ftol : Rat) (h : LineSearchOK E) :
    ∀ (n : Nat) (s : SteepState X), s.fval = E.f s.x →
      (steepLoop E ftol n s).fval = E.f (steepLoop E ftol n s).x ∧
      (steepLoop E ftol n s).fval ≤ s.fval := by
  intro n
  induction n with
  | zero => intro s hs; exact ⟨hs, le_refl _⟩
  | succ n ih =>
      intro s hs
      unfold steepLoop
      cases hd : E.dir s.x with
      | none => exact ⟨hs, le_refl _⟩
      | some d =>
          obtain ⟨h1, h2⟩ := h s.x d hd
          simp only
          split
          · exact ⟨h2.symm, by rw [hs]; exact h1⟩
          · have := ih ⟨(E.ls s.x d).2, (E.ls s.x d).1, s.it + 1, (E.ls s.x d).2 :: s.calls⟩ h2.symm
            exact ⟨this.1, le_trans this.2 (by rw [hs]; exact h1)⟩

theorem steepLoop_counters {X : Type} (E : Env X) (ftol : Rat) :
    ∀ (n : Nat) (s : SteepState X), s.calls.length ≤ s.it →
      (steepLoop E ftol n s).it ≤ s.it + n ∧
      (steepLoop E ftol n s).calls.length ≤ (steepLoop E ftol n s).it := by
  intro n
  induction n with
  | zero => intro s hs; exact ⟨le_refl _, hs⟩
  | succ n ih =>
      intro s hs
      unfold steepLoop
      cases hd : E.dir s.x with
      | none => exact ⟨by simp, by simp; omega⟩
      | some d =>
          simp only
          split
          · exact ⟨by simp, by simp; omega⟩
          · have := ih ⟨(E.ls s.x d).2, (E.ls s.x d).1, s.it + 1, (E.ls s.x d).2 :: s.calls⟩
              (by simp; omega)
            exact ⟨by have := this.1; simp at this ⊢; omega, this.2⟩

/-- the last callback argument is the returned point (the iterate is accepted before the test) -/
theorem steepLoop_last_call {X : Type} (E : Env X) (ftol : Rat) :
    ∀ (n : Nat) (s : SteepState X), (s.calls = [] ∨ s.calls.head? = some s.x) →
      ((steepLoop E ftol n s).calls = [] ∧ (steepLoop E ftol n s).x = s.x ∨
       (steepLoop E ftol n s).calls.head? = some (steepLoop E ftol n s).x) := by
  intro n
  induction n with
  | zero =>
      intro s hs
      rcases hs with hs | hs
      · exact Or.inl ⟨hs, rfl⟩
      · exact Or.inr hs
  | succ n ih =>
      intro s hs
      unfold steepLoop
      cases hd : E.dir s.x with
      | none =>
          rcases hs with hs | hs
          · exact Or.inl ⟨hs, rfl⟩
          · exact Or.inr hs
      | some d =>
          simp only
          split
          · exact Or.inr rfl
          · have := ih ⟨(E.ls s.x d).2, (E.ls s.x d).1, s.it + 1, (E.ls s.x d).2 :: s.calls⟩ (Or.inr rfl)
            rcases this with ⟨e, _⟩ | e
            · exact Or.inr (by
                -- the callback list only grows: it cannot be empty here
                exfalso
                have hl := (steepLoop_calls_grow E ftol n
                  ⟨(E.ls s.x d).2, (E.ls s.x d).1, s.it + 1, (E.ls s.x d).2 :: s.calls⟩)
                rw [e] at hl
                simp at hl)
            · exact Or.inr e
where
  steepLoop_calls_grow {X : Type} (E : Env X) (ftol : Rat) :
      ∀ (n : Nat) (s : SteepState X), s.calls.length ≤ (steepLoop E ftol n s).calls.length := by
    intro n
    induction n with
    | zero => intro s; exact le_refl _
    | succ n ih =>
        intro s
        unfold steepLoop
        cases hd : E.dir s.x with
        | none => exact le_refl _
        | some d =>
            simp only
            split
            · simp
            · have := ih ⟨(E.ls s.x d).2, (E.ls s.x d).1, s.it + 1, (E.ls s.x d).2 :: s.calls⟩
              simp at this ⊢
              omega

theorem axpy_zero (xi p : List Rat) (h : p.length ≤ xi.length) : axpy 0 xi p = p := by
  unfold axpy
  induction p generalizing xi with
  | nil => simp
  | cons a r ih =>
      cases xi with
      | nil => simp at h
      | cons b t =>
          simp only [List.zipWith_cons_cons, List.cons.injEq]
          exact ⟨by ring, ih t (by simpa using h)⟩

/-- a minimiser that returns the best of its probes (first wins ties) and probes `α = 0` first
    (bracketing from `xa = 0`) satisfies the contract, whatever else it probes -/
theorem bestProbe_spec (g : Rat → Rat) : ∀ (l : List Rat) (a : Rat),
    (bestProbe g a l).2 = g (bestProbe g a l).1 ∧ (bestProbe g a l).2 ≤ g a ∧
    ∀ b ∈ l, (bestProbe g a l).2 ≤ g b := by
  intro l
  induction l with
  | nil => intro a; exact ⟨rfl, le_refl _, by simp⟩
  | cons b r ih =>
      intro a
      unfold bestProbe
      split
      · rename_i hlt
        obtain ⟨e, h1, h2⟩ := ih b
        refine ⟨e, le_trans h1 hlt.le, ?_⟩
        intro c hc
        rcases List.mem_cons.mp hc with rfl | hc
        · exact h1
        · exact h2 c hc
      · rename_i hge
        obtain ⟨e, h1, h2⟩ := ih a
        refine ⟨e, h1, ?_⟩
        intro c hc
        rcases List.mem_cons.mp hc with rfl | hc
        · exact le_trans h1 (not_lt.mp hge)
        · exact h2 c hc

theorem traceEnv_ok (f0 : Rat) (steps : Array Step) (h : certMono f0 steps = true) :
    LineSearchOK (traceEnv f0 steps) := by
  intro s d hd
  have hk : ∃ st, steps[s.1]? = some st ∧ st.hasDir = true := by
    simp only [traceEnv] at hd
    cases e : steps[s.1]? with
    | none => simp [e] at hd
    | some st =>
        refine ⟨st, rfl, ?_⟩
        simp only [e] at hd
        by_contra hn
        simp [hn] at hd
  obtain ⟨st, e, hh⟩ := hk
  have hlt : s.1 < steps.size := by
    by_contra hn
    have : steps[s.1]? = none := by simp; omega
    rw [this] at e; cases e
  have hget : steps.getD s.1 default = st := by
    simp [Array.getD_eq_getD_getElem?, e]
  constructor
  · simp only [certMono, List.all_eq_true, List.mem_range] at h
    have := h s.1 hlt
    simp only [hget, hh, Bool.not_true, Bool.false_or, decide_eq_true_eq] at this
    simpa [traceEnv, e] using this
  · simp [traceEnv, fvAt]

theorem exploreDeltasGo_length (n : Nat) : ∀ (args : List (Int × List Rat)) (cur ds : List (List Rat)),
    exploreDeltasGo n cur args = .ok ds → ds.length = cur.length := by
  intro args
  induction args with
  | nil => intro cur ds h; simp only [exploreDeltasGo, Except.ok.injEq] at h; rw [h]
  | cons a rest ih =>
      intro cur ds h
      simp only [exploreDeltasGo] at h
      cases hn : normAxis n a.1 with
      | none => rw [hn] at h; cases h
      | some i =>
          rw [hn] at h
          have := ih _ _ h
          simpa using this

end NipyVerif.C09
