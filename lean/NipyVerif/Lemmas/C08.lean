/- Helper lemmas for C08: 3×3 / affine algebra over ℚ, sign fixes, parameter tables. -/
import NipyVerif.Model.C08
import Mathlib.Algebra.Order.Field.Rat
import Mathlib.Tactic.Ring
import Mathlib.Tactic.Linarith
import Mathlib.Tactic.FieldSimp
import Mathlib.Tactic.Positivity
import Mathlib.Tactic.LinearCombination

namespace NipyVerif.C08

/-- unfold every 3×3 / vector operation down to field arithmetic -/
macro "m3_simp" : tactic =>
  `(tactic| simp only [M3.mul, M3.mulVec, M3.one, M3.zero, M3.neg, M3.smul, M3.add, M3.sdiv, M3.diag,
      M3.transpose, M3.det, M3.adj, M3.skew, V3.add, V3.sub, V3.neg, V3.smul, V3.sdiv, V3.zero, V3.dot,
      Aff.mul, Aff.apply, Aff.one, Aff.det])

namespace M3

theorem mul_assoc (a b c : M3) : (a.mul b).mul c = a.mul (b.mul c) := by
  apply M3.ext <;> m3_simp <;> ring

theorem one_mul (a : M3) : one.mul a = a := by
  apply M3.ext <;> m3_simp <;> ring

theorem mul_one (a : M3) : a.mul one = a := by
  apply M3.ext <;> m3_simp <;> ring

theorem mulVec_mul (a b : M3) (v : V3) : (a.mul b).mulVec v = a.mulVec (b.mulVec v) := by
  apply V3.ext <;> m3_simp <;> ring

theorem one_mulVec (v : V3) : one.mulVec v = v := by
  apply V3.ext <;> m3_simp <;> ring

theorem det_mul (a b : M3) : (a.mul b).det = a.det * b.det := by
  m3_simp; ring

theorem det_one : one.det = 1 := by m3_simp; ring

theorem det_neg (a : M3) : a.neg.det = -a.det := by m3_simp; ring

theorem det_smul (c : Rat) (a : M3) : (smul c a).det = c ^ 3 * a.det := by m3_simp; ring

theorem det_transpose (a : M3) : a.transpose.det = a.det := by m3_simp; ring

theorem det_diag (d : V3) : (diag d).det = d.x * d.y * d.z := by m3_simp; ring

theorem neg_neg (a : M3) : a.neg.neg = a := by
  apply M3.ext <;> m3_simp <;> ring

theorem neg_mul (a b : M3) : a.neg.mul b = (a.mul b).neg := by
  apply M3.ext <;> m3_simp <;> ring

theorem mul_neg (a b : M3) : a.mul b.neg = (a.mul b).neg := by
  apply M3.ext <;> m3_simp <;> ring

theorem transpose_neg (a : M3) : a.neg.transpose = a.transpose.neg := by
  apply M3.ext <;> m3_simp

theorem mul_adj (a : M3) : a.mul a.adj = smul a.det one := by
  apply M3.ext <;> m3_simp <;> ring

theorem adj_mul (a : M3) : a.adj.mul a = smul a.det one := by
  apply M3.ext <;> m3_simp <;> ring

theorem sdiv_mul (a b : M3) (c : Rat) : (a.sdiv c).mul b = (a.mul b).sdiv c := by
  apply M3.ext <;> m3_simp <;> ring

theorem mul_sdiv (a b : M3) (c : Rat) : a.mul (b.sdiv c) = (a.mul b).sdiv c := by
  apply M3.ext <;> m3_simp <;> ring

theorem smul_one_sdiv (c : Rat) (h : c ≠ 0) : (smul c one).sdiv c = one := by
  apply M3.ext <;> m3_simp <;> field_simp

/-- the exact inverse: `(adj a / det a) · a = 1` -/
theorem inv_mul (a : M3) (h : a.det ≠ 0) : (a.adj.sdiv a.det).mul a = one := by
  rw [sdiv_mul, adj_mul, smul_one_sdiv _ h]

theorem mul_inv (a : M3) (h : a.det ≠ 0) : a.mul (a.adj.sdiv a.det) = one := by
  rw [mul_sdiv, mul_adj, smul_one_sdiv _ h]

theorem isRotation_one : IsRotation one := by
  constructor
  · apply M3.ext <;> m3_simp <;> ring
  · exact det_one

/-- rotations are closed under product -/
theorem IsRotation.mul {a b : M3} (ha : IsRotation a) (hb : IsRotation b) : IsRotation (a.mul b) := by
  obtain ⟨ha1, ha2⟩ := ha
  obtain ⟨hb1, hb2⟩ := hb
  constructor
  · have ht : (a.mul b).transpose = b.transpose.mul a.transpose := by
      apply M3.ext <;> m3_simp <;> ring
    rw [ht, mul_assoc, ← mul_assoc a.transpose, ha1, one_mul, hb1]
  · rw [det_mul, ha2, hb2]; ring

end M3

namespace Aff

theorem mul_assoc (a b c : Aff) : (a.mul b).mul c = a.mul (b.mul c) := by
  apply Aff.ext
  · exact M3.mul_assoc _ _ _
  · apply V3.ext <;> m3_simp <;> ring

theorem one_mul (a : Aff) : one.mul a = a := by
  apply Aff.ext
  · exact M3.one_mul _
  · apply V3.ext <;> m3_simp <;> ring

theorem mul_one (a : Aff) : a.mul one = a := by
  apply Aff.ext
  · exact M3.mul_one _
  · apply V3.ext <;> m3_simp <;> ring

theorem apply_mul (a b : Aff) (p : V3) : (a.mul b).apply p = a.apply (b.apply p) := by
  apply V3.ext <;> m3_simp <;> ring

theorem apply_one (p : V3) : one.apply p = p := by
  apply V3.ext <;> m3_simp <;> ring

theorem det_mul (a b : Aff) : (a.mul b).det = a.det * b.det := M3.det_mul _ _

theorem inv_eq_some {a b : Aff} (h : a.inv = some b) :
    a.m.det ≠ 0 ∧ b = ⟨a.m.adj.sdiv a.m.det, ((a.m.adj.sdiv a.m.det).mulVec a.t).neg⟩ := by
  unfold inv at h
  by_cases hd : a.m.det = 0
  · simp [hd] at h
  · simp only [hd, if_false, Option.some.injEq] at h
    exact ⟨hd, h.symm⟩

theorem inv_mul_cancel {a b : Aff} (h : a.inv = some b) : b.mul a = one := by
  obtain ⟨hd, rfl⟩ := inv_eq_some h
  apply Aff.ext
  · exact M3.inv_mul _ hd
  · show (((a.m.adj.sdiv a.m.det).mulVec a.t).add ((a.m.adj.sdiv a.m.det).mulVec a.t).neg) = V3.zero
    apply V3.ext <;> simp only [V3.add, V3.neg, V3.zero] <;> ring

theorem mul_inv_cancel {a b : Aff} (h : a.inv = some b) : a.mul b = one := by
  obtain ⟨hd, rfl⟩ := inv_eq_some h
  apply Aff.ext
  · exact M3.mul_inv _ hd
  · show ((a.m.mulVec ((a.m.adj.sdiv a.m.det).mulVec a.t).neg).add a.t) = V3.zero
    have h1 : a.m.mulVec ((a.m.adj.sdiv a.m.det).mulVec a.t).neg = a.t.neg := by
      have : a.m.mulVec ((a.m.adj.sdiv a.m.det).mulVec a.t).neg
          = ((a.m.mul (a.m.adj.sdiv a.m.det)).mulVec a.t).neg := by
        apply V3.ext <;> m3_simp <;> ring
      rw [this, M3.mul_inv _ hd, M3.one_mulVec]
    rw [h1]
    apply V3.ext <;> simp only [V3.add, V3.neg, V3.zero] <;> ring

end Aff

/-! ### parameter vectors -/

theorem Vec12.get_set_same (v : Vec12) (i : Nat) (x : Rat) (h : i < 12) : (v.set i x).get i = x := by
  have : i = 0 ∨ i = 1 ∨ i = 2 ∨ i = 3 ∨ i = 4 ∨ i = 5 ∨ i = 6 ∨ i = 7 ∨ i = 8 ∨ i = 9 ∨ i = 10 ∨ i = 11 := by
    omega
  rcases this with h | h | h | h | h | h | h | h | h | h | h | h <;> subst h <;> rfl

theorem Vec12.eta (v : Vec12) :
    v = ⟨v.p0, v.p1, v.p2, v.p3, v.p4, v.p5, v.p6, v.p7, v.p8, v.p9, v.p10, v.p11⟩ := rfl

/-! ### rotations from axis / angle data -/

/-- `I + a·S + b·S²` for the cross-product matrix `S` of `n` -/
def quadRot (n : V3) (a b : Rat) : M3 :=
  (M3.one.add (M3.smul a (M3.skew n))).add (M3.smul b ((M3.skew n).mul (M3.skew n)))

/-- Gram matrix of `I + a·S + b·S²`, no hypothesis: the defect is a multiple of `S²` -/
theorem quadRot_gram (n : V3) (a b : Rat) :
    (quadRot n a b).transpose.mul (quadRot n a b)
      = M3.one.add (M3.smul (2 * b - n.dot n * b ^ 2 - a ^ 2) ((M3.skew n).mul (M3.skew n))) := by
  unfold quadRot
  apply M3.ext <;> m3_simp <;> ring

theorem quadRot_det (n : V3) (a b : Rat) :
    (quadRot n a b).det = (1 - b * n.dot n) ^ 2 + a ^ 2 * n.dot n := by
  unfold quadRot
  m3_simp; ring

theorem smul_zero_add (m : M3) : M3.one.add (M3.smul 0 m) = M3.one := by
  apply M3.ext <;> m3_simp <;> ring

theorem smallAngle_pos : 0 < smallAngle := by
  unfold smallAngle Gen.C08.smallAngle; positivity

theorem threshold_id (x th : Rat) (h1 : -th ≤ x) (h2 : x ≤ th) : threshold x th = x := by
  unfold threshold
  simp only [h2, if_true]
  split_ifs with h
  · rfl
  · exact absurd h1 (by simpa using h)

/-- an orthogonal matrix has determinant `±1` -/
theorem orth_det (a : M3) (h : a.transpose.mul a = M3.one) : a.det = 1 ∨ a.det = -1 := by
  have h1 : (a.transpose.mul a).det = 1 := by rw [h]; exact M3.det_one
  rw [M3.det_mul, M3.det_transpose] at h1
  have : (a.det - 1) * (a.det + 1) = 0 := by linear_combination h1
  rcases mul_eq_zero.mp this with h2 | h2
  · left; linarith
  · right; linarith

theorem orth_neg (a : M3) (h : a.transpose.mul a = M3.one) : a.neg.transpose.mul a.neg = M3.one := by
  rw [M3.transpose_neg, M3.neg_mul, M3.mul_neg, M3.neg_neg, h]

/-! ### weighted sums of affines (polyaffine) -/

theorem wsum_map_mul (o : Aff) (l : List (Rat × Aff)) :
    wsum (l.map (fun wa => (wa.1, o.mul wa.2)))
      = ⟨o.m.mul (wsum l).m, (o.m.mulVec (wsum l).t).add (V3.smul (wtotal l) o.t)⟩ := by
  induction l with
  | nil =>
      simp only [List.map_nil, wsum, wtotal, List.sum_nil]
      apply Aff.ext
      · apply M3.ext <;> m3_simp <;> ring
      · apply V3.ext <;> m3_simp <;> ring
  | cons h t ih =>
      obtain ⟨w, a⟩ := h
      simp only [List.map_cons, wsum, ih, wtotal, List.sum_cons]
      apply Aff.ext
      · apply M3.ext <;> m3_simp <;> ring
      · apply V3.ext <;> m3_simp <;> ring

theorem list_eq_map_getD (p : List Rat) : p = (List.range p.length).map (fun i => p.getD i 0) := by
  apply List.ext_getElem
  · simp
  · intro i h1 h2
    simp [List.getElem?_eq_getElem h1]

end NipyVerif.C08
