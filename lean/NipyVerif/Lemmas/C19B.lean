/- Helper lemmas for the C19 extension: membership counts, one-pass bincount, argmax,
   sorting under monotone maps, mixed-radix decoding. -/
import NipyVerif.Lemmas.C19
import NipyVerif.Model.C19C
import Mathlib.Tactic.NormNum
import Mathlib.Order.Basic

namespace NipyVerif.C19

theorem getD_eq_getElem' {α : Type} (l : List α) (d : α) {n : Nat} (h : n < l.length) : l.getD n d = l[n] :=
  (List.getElem_eq_getD d).symm

/-! ### membership counts -/

theorem addCounts_length (a b : List Nat) (n : Nat) (ha : a.length = n) (hb : b.length = n) :
    (addCounts a b).length = n := by
  simp [addCounts, ha, hb]

theorem addCounts_getD (a b : List Nat) (n v : Nat) (hv : v < n) (ha : a.length = n) (hb : b.length = n) :
    (addCounts a b).getD v 0 = a.getD v 0 + b.getD v 0 := by
  unfold addCounts
  simp only [List.getD_eq_getElem?_getD, List.getElem?_zipWith]
  rw [List.getElem?_eq_getElem (by omega : v < a.length), List.getElem?_eq_getElem (by omega : v < b.length)]
  simp

theorem foldl_addCounts (ls : List (List Nat)) (acc : List Nat) (n : Nat) (hacc : acc.length = n)
    (hls : ∀ k ∈ ls, k.length = n) :
    (ls.foldl addCounts acc).length = n ∧
    ∀ v, v < n → (ls.foldl addCounts acc).getD v 0 = acc.getD v 0 + (ls.map (fun k => k.getD v 0)).sum := by
  induction ls generalizing acc with
  | nil => simp [hacc]
  | cons k ls ih =>
      have hk : k.length = n := hls k List.mem_cons_self
      have := ih (addCounts acc k) (addCounts_length _ _ n hacc hk)
        (fun x hx => hls x (List.mem_cons_of_mem _ hx))
      refine ⟨this.1, fun v hv => ?_⟩
      simp only [List.foldl_cons, List.map_cons, List.sum_cons]
      rw [this.2 v hv, addCounts_getD acc k n v hv hacc hk]
      omega

theorem map_member_getD (m : List Rat) (v : Nat) (hv : v < m.length) :
    (m.map member).getD v 0 = member (m.getD v 0) := by
  simp [List.getD_eq_getElem?_getD, List.getElem?_map, List.getElem?_eq_getElem hv]

theorem sum_member_eq_count (ms : List (List Rat)) (v : Nat) :
    (ms.map (fun k => member (k.getD v 0))).sum = (ms.filter (fun k => k.getD v 0 ≠ 0)).length := by
  induction ms with
  | nil => rfl
  | cons m ms ih =>
      rw [List.map_cons, List.sum_cons, ih]
      by_cases h : m.getD v 0 = 0
      · have h1 : member (m.getD v 0) = 0 := by unfold member; rw [if_pos h]
        have h2 : decide (m.getD v 0 ≠ 0) = false := decide_eq_false (not_not.2 h)
        simp only [List.filter_cons, h1, h2, Bool.false_eq_true, if_false, Nat.zero_add]
      · have h1 : member (m.getD v 0) = 1 := by unfold member; rw [if_neg h]
        have h2 : decide (m.getD v 0 ≠ 0) = true := decide_eq_true h
        simp only [List.filter_cons, h1, h2, if_true, List.length_cons]
        omega

/-- the accumulated count array has the common length and, at every voxel, counts the masks
    that are non-zero there -/
theorem memberCount_spec (m : List Rat) (ms : List (List Rat)) (n : Nat)
    (hlen : ∀ k ∈ m :: ms, k.length = n) :
    (memberCount (m :: ms)).length = n ∧
    ∀ v, v < n → (memberCount (m :: ms)).getD v 0 = ((m :: ms).filter (fun k => k.getD v 0 ≠ 0)).length := by
  have hm : m.length = n := hlen m List.mem_cons_self
  have h := foldl_addCounts (ms.map (fun k => k.map member)) (m.map member) n (by simp [hm])
    (fun k hk => by
      obtain ⟨k', hk', rfl⟩ := List.mem_map.1 hk
      simp [hlen k' (List.mem_cons_of_mem _ hk')])
  refine ⟨h.1, fun v hv => ?_⟩
  unfold memberCount
  rw [h.2 v hv, map_member_getD m v (by omega), ← sum_member_eq_count]
  simp only [List.map_cons, List.sum_cons, List.map_map]
  congr 2
  apply List.map_congr_left
  intro k hk
  exact map_member_getD k v (by rw [hlen k (List.mem_cons_of_mem _ hk)]; exact hv)

/-! ### one-pass bincount -/

theorem foldl_modify_size (labels : List Nat) (a : Array Nat) :
    (labels.foldl (fun (a : Array Nat) k => a.modify k (· + 1)) a).size = a.size := by
  induction labels generalizing a with
  | nil => rfl
  | cons k ls ih => simp only [List.foldl_cons]; rw [ih, Array.size_modify]

theorem foldl_modify_getElem? (labels : List Nat) (a : Array Nat) (i : Nat) (hi : i < a.size) :
    (labels.foldl (fun (a : Array Nat) k => a.modify k (· + 1)) a)[i]? = some (a[i] + labels.count i) := by
  induction labels generalizing a with
  | nil => simp [hi]
  | cons k ls ih =>
      simp only [List.foldl_cons]
      rw [ih (a.modify k (· + 1)) (by rw [Array.size_modify]; exact hi)]
      rw [Array.getElem_modify, List.count_cons]
      by_cases h : k = i
      · subst h; simp; omega
      · have : (k == i) = false := by simpa using h
        simp [h, this]

theorem bincountFast_eq (labels : List Nat) (n : Nat) : bincountFast labels n = bincount labels n := by
  unfold bincountFast bincount
  apply List.ext_getElem?
  intro i
  by_cases hi : i < n
  · rw [Array.getElem?_toList, foldl_modify_getElem? labels _ i (by simpa using hi)]
    simp [List.getElem?_map, List.getElem?_range hi]
  · have h1 : (labels.foldl (fun (a : Array Nat) k => a.modify k (· + 1)) (Array.replicate n 0)).toList.length = n := by
      rw [Array.length_toList, foldl_modify_size]; simp
    rw [List.getElem?_eq_none (by omega), List.getElem?_eq_none (by simp; omega)]

/-! ### argmax : first index of the maximum -/

theorem argmaxFrom_spec (xs : List Rat) (i best : Nat) (bv : Rat) :
    let r := argmaxFrom xs i best bv
    (r = best ∧ ∀ x ∈ xs, x ≤ bv) ∨
    (∃ j, ∃ hj : j < xs.length, r = i + j ∧ bv < xs[j] ∧ (∀ x ∈ xs, x ≤ xs[j]) ∧
      ∀ j', ∀ hj' : j' < j, xs[j']'(by omega) < xs[j]) := by
  induction xs generalizing i best bv with
  | nil => left; simp [argmaxFrom]
  | cons x xs ih =>
      simp only [argmaxFrom]
      by_cases h : bv < x
      · rw [if_pos h]
        rcases ih (i + 1) i x with ⟨h1, h2⟩ | ⟨j, hj, h1, h2, h3, h4⟩
        · right
          refine ⟨0, by simp, by simpa using h1, by simpa using h, ?_, by intro j' hj'; omega⟩
          intro y hy
          rcases List.mem_cons.1 hy with rfl | hy
          · exact le_refl _
          · simpa using h2 y hy
        · right
          refine ⟨j + 1, by simpa using hj, by rw [h1]; omega, ?_, ?_, ?_⟩
          · simp only [List.getElem_cons_succ]; exact lt_trans h h2
          · intro y hy
            simp only [List.getElem_cons_succ]
            rcases List.mem_cons.1 hy with rfl | hy
            · exact le_of_lt h2
            · exact h3 y hy
          · intro j' hj'
            simp only [List.getElem_cons_succ]
            cases j' with
            | zero => simpa using h2
            | succ j'' => simpa using h4 j'' (by omega)
      · rw [if_neg h]
        rw [not_lt] at h
        rcases ih (i + 1) best bv with ⟨h1, h2⟩ | ⟨j, hj, h1, h2, h3, h4⟩
        · left
          refine ⟨h1, ?_⟩
          intro y hy
          rcases List.mem_cons.1 hy with rfl | hy
          · exact h
          · exact h2 y hy
        · right
          refine ⟨j + 1, by simpa using hj, by rw [h1]; omega, ?_, ?_, ?_⟩
          · simpa using h2
          · intro y hy
            simp only [List.getElem_cons_succ]
            rcases List.mem_cons.1 hy with rfl | hy
            · exact le_trans h (le_of_lt h2)
            · exact h3 y hy
          · intro j' hj'
            simp only [List.getElem_cons_succ]
            cases j' with
            | zero => simpa using lt_of_le_of_lt h h2
            | succ j'' => simpa using h4 j'' (by omega)

/-- `argmax` returns an index of a maximal element, and every earlier element is strictly smaller -/
theorem argmax_spec (l : List Rat) (hl : l ≠ []) :
    argmax l < l.length ∧ (∀ x ∈ l, x ≤ l.getD (argmax l) 0) ∧
      ∀ j, j < argmax l → l.getD j 0 < l.getD (argmax l) 0 := by
  cases l with
  | nil => exact absurd rfl hl
  | cons x xs =>
      simp only [argmax]
      rcases argmaxFrom_spec xs 1 0 x with ⟨h1, h2⟩ | ⟨j, hj, h1, h2, h3, h4⟩
      · rw [h1]
        refine ⟨by simp, ?_, ?_⟩
        · intro y hy
          rw [List.getD_cons_zero]
          rcases List.mem_cons.1 hy with rfl | hy
          · exact le_refl _
          · exact h2 y hy
        · intro j hj; omega
      · have hidx : argmaxFrom xs 1 0 x = j + 1 := by omega
        rw [hidx]
        refine ⟨by simpa using hj, ?_, ?_⟩
        · intro y hy
          rw [List.getD_cons_succ, getD_eq_getElem' _ _ hj]
          rcases List.mem_cons.1 hy with rfl | hy
          · exact le_of_lt h2
          · exact h3 y hy
        · intro j' hj'
          rw [List.getD_cons_succ, getD_eq_getElem' _ _ hj]
          cases j' with
          | zero => rw [List.getD_cons_zero]; exact h2
          | succ j'' =>
              rw [List.getD_cons_succ, getD_eq_getElem' _ _ (by omega : j'' < xs.length)]
              exact h4 j'' (by omega)

/-! ### `foldl (· * ·)` products -/

theorem foldl_mul_eq (l : List Nat) (a : Nat) : l.foldl (· * ·) a = a * l.foldl (· * ·) 1 := by
  induction l generalizing a with
  | nil => simp
  | cons x xs ih => simp only [List.foldl_cons]; rw [ih (a * x), ih (1 * x)]; ring

theorem prod_cons (x : Nat) (xs : List Nat) : prod (x :: xs) = x * prod xs := by
  unfold prod; simp only [List.foldl_cons]; rw [foldl_mul_eq]; ring

theorem prod_nil : prod [] = 1 := rfl

end NipyVerif.C19
