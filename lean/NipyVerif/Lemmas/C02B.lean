/- Helper lemmas for C02 (continued): naturality in the voxel values, the store, iteration,
   ImageList, helpers, bounding boxes, io_orientation's loop. -/
import NipyVerif.Lemmas.C02
import Mathlib.Tactic.FieldSimp

namespace NipyVerif.C02

variable {α β : Type}

/-! ## naturality: no operation looks at the voxel values -/

/-- the same image with every voxel value passed through `f` -/
def ImgOf.map (f : α → β) (g : ImgOf α) : ImgOf β :=
  { shape := g.shape, inNames := g.inNames, outNames := g.outNames, cols := g.cols, off := g.off
    data := fun j => f (g.data j) }

def ResOf.map (f : α → β) : ResOf α → ResOf β
  | .img g => .img (g.map f)
  | .val v => .val (f v)

/-- an outcome with every value passed through `f` -/
def mapOut (f : α → β) : Except Err (ResOf α) → Except Err (ResOf β)
  | .ok r => .ok (r.map f)
  | .error e => .error e

def mapImg (f : α → β) : Except Err (ImgOf α) → Except Err (ImgOf β)
  | .ok r => .ok (r.map f)
  | .error e => .error e

theorem getitem_map (f : α → β) (g : ImgOf α) (sl : List Slicer) :
    getitem (g.map f) sl = mapOut f (getitem g sl) := by
  unfold getitem
  simp only [ImgOf.map]
  cases expand g.shape.length sl with
  | error e => rfl
  | ok ex =>
    simp only
    cases normAll g.shape ex with
    | error e => rfl
    | ok sels =>
      simp only
      by_cases h1 : sels.any AxSel.isEmpty = true
      · simp [h1, mapOut]
      · by_cases h2 : (selNames sels g.inNames).Nodup
        · by_cases h3 : selShape sels = []
          · simp [h1, h2, h3, mapOut, ResOf.map]
          · simp [h1, h2, h3, mapOut, ResOf.map, ImgOf.map]
        · simp [h1, h2, mapOut]

theorem reorderAxes_map (f : α → β) (g : ImgOf α) (ord : Order) :
    reorderAxes (g.map f) ord = mapImg f (reorderAxes g ord) := by
  unfold reorderAxes
  simp only [ImgOf.map]
  cases resolveOrder g.shape.length g.shape.length g.inNames ord <;> rfl

theorem reorderRef_map (f : α → β) (g : ImgOf α) (ord : Order) :
    reorderRef (g.map f) ord = mapImg f (reorderRef g ord) := by
  unfold reorderRef
  simp only [ImgOf.map]
  cases resolveOrder g.outNames.length g.shape.length g.outNames ord <;> rfl

theorem renameAxes_map (f : α → β) (g : ImgOf α) (p : List (String × String)) :
    renameAxes (g.map f) p = mapImg f (renameAxes g p) := by
  unfold renameAxes
  simp only [ImgOf.map]
  cases rename p g.inNames <;> rfl

theorem renameRef_map (f : α → β) (g : ImgOf α) (p : List (String × String)) :
    renameRef (g.map f) p = mapImg f (renameRef g p) := by
  unfold renameRef
  simp only [ImgOf.map]
  cases rename p g.outNames <;> rfl

theorem rollimg_map (f : α → β) (g : ImgOf α) (a s : AxId) (o : List (Option Nat)) :
    rollimg (g.map f) a s o = mapImg f (rollimg g a s o) := by
  unfold rollimg
  have e1 : (g.map f).inNames = g.inNames := rfl
  have e2 : (g.map f).outNames = g.outNames := rfl
  have e3 : (g.map f).shape = g.shape := rfl
  rw [e1, e2, e3]
  cases inputAxisIndex g.inNames g.outNames o a with
  | error e => rfl
  | ok ai =>
    cases inputAxisIndex g.inNames g.outNames o s with
    | error e => rfl
    | ok si =>
      simp only
      split_ifs <;> first | rfl | exact reorderAxes_map f g _

theorem reorderBoth_map (f : α → β) (g : ImgOf α) (o : List Nat) :
    reorderBoth (g.map f) o = mapImg f (reorderBoth g o) := by
  unfold reorderBoth
  rw [reorderAxes_map]
  cases reorderAxes g (.nats o) with
  | error e => rfl
  | ok h => simp only [mapImg]; exact reorderRef_map f h _

theorem rollaxis_map (f : α → β) (g : ImgOf α) (a : AxId) (inv : Bool) :
    rollaxis (g.map f) a inv = mapImg f (rollaxis g a inv) := by
  unfold rollaxis
  have e3 : (g.map f).shape = g.shape := rfl
  have e4 : rollaxisAxis (g.map f) a = rollaxisAxis g a := by cases a <;> rfl
  rw [e3, e4]
  cases inv with
  | true =>
    cases a with
    | name s => rfl
    | int i => simp only [if_true]; exact reorderBoth_map f g _
  | false =>
    simp only [Bool.false_eq_true, if_false]
    cases rollaxisAxis g a with
    | error e => rfl
    | ok ax => exact reorderBoth_map f g _

theorem syncOrder_map (f : α → β) (g : ImgOf α) (ti tu : List String) (ax rf : Bool) :
    syncOrder (g.map f) ti tu ax rf = mapImg f (syncOrder g ti tu ax rf) := by
  unfold syncOrder
  cases ax with
  | true =>
    simp only [if_true]
    rw [reorderAxes_map]
    cases reorderAxes g (.names ti) with
    | error e => rfl
    | ok h =>
      simp only [mapImg]
      cases rf with
      | true => simp only [if_true]; exact reorderRef_map f h _
      | false => rfl
  | false =>
    simp only [Bool.false_eq_true, if_false]
    cases rf with
    | true => simp only [if_true]; exact reorderRef_map f g _
    | false => rfl

theorem iterAxis_map (f : α → β) (g : ImgOf α) (a : AxId) (k : Nat) (o : List (Option Nat)) :
    iterAxis (g.map f) a k o = mapOut f (iterAxis g a k o) := by
  unfold iterAxis
  rw [rollimg_map]
  cases rollimg g a (.int 0) o with
  | error e => rfl
  | ok r => simp only [mapImg]; exact getitem_map f r _

theorem xyzAffineErr_map (f : α → β) (g : ImgOf α) (m : List (String × Nat)) (o : List (Option Nat)) :
    xyzAffineErr (g.map f) m o = xyzAffineErr g m o := rfl

theorem asXyz_map (f : α → β) (g : ImgOf α) (m : List (String × Nat))
    (orient : ImgOf α → Nat → List (Option Nat)) (orient' : ImgOf β → Nat → List (Option Nat))
    (ho : ∀ h k, orient' (ImgOf.map f h) k = orient h k) :
    asXyz (g.map f) m orient' = mapImg f (asXyz g m orient) := by
  unfold asXyz
  rw [xyzAffineErr_map, ho]
  have e2 : (g.map f).outNames = g.outNames := rfl
  rw [e2]
  cases xyzAffineErr g m (orient g 0) with
  | none => rfl
  | some e0 =>
    simp only
    cases xyzOrder m g.outNames with
    | error e => rfl
    | ok order =>
      simp only
      rw [reorderRef_map]
      cases reorderRef g (.nats order) with
      | error e => rfl
      | ok h =>
        simp only [mapImg]
        rw [ho]
        split_ifs <;> first
          | rfl
          | (rw [reorderAxes_map]
             cases reorderAxes h (.nats _) with
             | error e => rfl
             | ok h2 =>
               simp only [mapImg]
               rw [xyzAffineErr_map, ho]
               cases xyzAffineErr h2 m (orient h2 2) <;> rfl)

theorem OrntSrc.get_map (f : α → β) (s : OrntSrc) (g : ImgOf α) (b : Bool) :
    s.get (g.map f) b = s.get g b := by cases s <;> rfl

theorem XyzSrc.get_map (f : α → β) (s : XyzSrc) (g : ImgOf α) (k : Nat) :
    s.get (g.map f) k = s.get g k := by cases s <;> rfl

theorem liftImg_map (f : α → β) (x : Except Err (ImgOf α)) :
    liftImg (mapImg f x) = mapOut f (liftImg x) := by cases x <;> rfl

theorem step_map (f : α → β) (g : ImgOf α) (op : Op) :
    step (g.map f) op = mapOut f (step g op) := by
  cases op with
  | getitem sl => exact getitem_map f g sl
  | reorderAxes o => simp only [step]; rw [reorderAxes_map, liftImg_map]
  | reorderRef o => simp only [step]; rw [reorderRef_map, liftImg_map]
  | renameAxes p => simp only [step]; rw [renameAxes_map, liftImg_map]
  | renameRef p => simp only [step]; rw [renameRef_map, liftImg_map]
  | rollimg a s o => simp only [step]; rw [OrntSrc.get_map, rollimg_map, liftImg_map]
  | rollaxis a i => simp only [step]; rw [rollaxis_map, liftImg_map]
  | sync ti tu a r => simp only [step]; rw [syncOrder_map, liftImg_map]
  | iterAxis a k o arr => simp only [step]; rw [OrntSrc.get_map, iterAxis_map]
  | asXyz m src =>
      simp only [step]
      rw [asXyz_map f g m src.get src.get (fun h k => XyzSrc.get_map f src h k), liftImg_map]

theorem runOps_map (f : α → β) : ∀ (ops : List Op) (g : ImgOf α),
    runOps (g.map f) ops = mapOut f (runOps g ops)
  | [], g => rfl
  | op :: ops, g => by
      simp only [runOps]
      rw [step_map]
      cases step g op with
      | error e => rfl
      | ok r =>
        cases r with
        | val v => cases ops <;> rfl
        | img h => simp only [mapOut, ResOf.map]; exact runOps_map f ops h

/-! ## the store -/

theorem exec_prefix : ∀ (prog : List Instr) (store : List (ImgOf α)), store <+: (exec store prog).1
  | [], store => by simp [exec]
  | (src, op) :: rest, store => by
      simp only [exec]
      cases hs : store[src]? with
      | none => simpa using exec_prefix rest store
      | some g =>
        simp only
        cases hst : step g op with
        | error e => simpa using exec_prefix rest store
        | ok r =>
          cases r with
          | val v => simpa using exec_prefix rest store
          | img h =>
            simp only
            exact (List.prefix_append store [h]).trans (exec_prefix rest (store ++ [h]))

theorem exec_length : ∀ (prog : List Instr) (store : List (ImgOf α)),
    (exec store prog).2.length = prog.length
  | [], store => by simp [exec]
  | (src, op) :: rest, store => by
      simp only [exec]
      cases hs : store[src]? with
      | none => simp [exec_length rest store]
      | some g =>
        simp only
        cases hst : step g op with
        | error e => simp [exec_length rest store]
        | ok r =>
          cases r with
          | val v => simp [exec_length rest store]
          | img h => simp [exec_length rest (store ++ [h])]

/-- what an instruction gives when it runs on a given store -/
def outcomeOn (store : List (ImgOf α)) (i : Instr) : Except Err (ResOf α) :=
  match store[i.1]? with
  | none => .error .indexError
  | some g => step g i.2

theorem getElem?_of_prefix {γ : Type} {l1 l2 : List γ} (h : l1 <+: l2) {k : Nat} (hk : k < l1.length) :
    l2[k]? = l1[k]? := by
  obtain ⟨t, rfl⟩ := h
  rw [List.getElem?_append_left hk]

/-- an instruction whose source is one of the objects of the store `s0` the program started
    with gives what the operation gives on that object — whatever ran before it -/
theorem exec_outcome_initial : ∀ (prog : List Instr) (store s0 : List (ImgOf α)) (k : Nat)
    (hk : k < prog.length), s0 <+: store → (prog[k]).1 < s0.length →
    (exec store prog).2[k]? = some (outcomeOn s0 prog[k])
  | [], _, _, k, hk, _, _ => by simp at hk
  | (src, op) :: rest, store, s0, k, hk, hp, hsrc => by
      cases k with
      | zero =>
        simp only [List.getElem_cons_zero] at hsrc
        have hg : store[src]? = s0[src]? := getElem?_of_prefix hp hsrc
        have hs0 : s0[src]? = some s0[src] := List.getElem?_eq_getElem hsrc
        simp only [exec, List.getElem_cons_zero, outcomeOn, hg, hs0]
        cases hst : step s0[src] op with
        | error e => simp
        | ok r => cases r <;> simp
      | succ k =>
        have hk' : k < rest.length := by simpa using hk
        simp only [List.getElem_cons_succ] at hsrc
        simp only [exec, List.getElem_cons_succ]
        cases hs : store[src]? with
        | none => simpa using exec_outcome_initial rest store s0 k hk' hp hsrc
        | some g =>
          simp only
          cases hst : step g op with
          | error e => simpa using exec_outcome_initial rest store s0 k hk' hp hsrc
          | ok r =>
            cases r with
            | val v => simpa using exec_outcome_initial rest store s0 k hk' hp hsrc
            | img h =>
              simpa using exec_outcome_initial rest (store ++ [h]) s0 k hk'
                (hp.trans (List.prefix_append store [h])) hsrc

/-! ## `rimg[k]` -/

theorem normAxis_full (n : Nat) : normAxis n fullSlice = .ok (.range 0 1 n) := by
  simp only [normAxis, fullSlice, Option.getD_none]
  simp only [adjust, sliceLen]
  by_cases h : n = 0
  · subst h; simp
  · have h' : 0 < n := Nat.pos_of_ne_zero h
    simp [h]

theorem normAll_full : ∀ ns : List Nat,
    normAll ns (List.replicate ns.length fullSlice) = .ok (ns.map (fun n => AxSel.range 0 1 n))
  | [] => rfl
  | n :: ns => by
      simp only [List.length_cons, List.replicate_succ, normAll, normAxis_full, normAll_full ns, List.map_cons]

theorem selIdx_full : ∀ (ns j : List Nat), ValidIdx ns j →
    selIdx (ns.map (fun n => AxSel.range 0 1 n)) j = j
  | [], j, h => by cases h; rfl
  | n :: ns, [], h => by cases h
  | n :: ns, i :: j, h => by
      obtain ⟨_, h2⟩ := validIdx_cons.mp h
      simp [selIdx, selIdx_full ns j h2]

theorem selShape_full (ns : List Nat) : selShape (ns.map (fun n => AxSel.range 0 1 n)) = ns := by
  induction ns with
  | nil => rfl
  | cons n ns ih => simp [selShape, ih]

theorem expand_idx (n : Nat) (ns : List Nat) (k : Nat) :
    expand (n :: ns).length [.idx (k : Int)] = .ok (.idx (k : Int) :: List.replicate ns.length fullSlice) := by
  simp [expand, splitEll]

theorem normAll_idx (n : Nat) (ns : List Nat) (k : Nat) (hk : k < n) :
    normAll (n :: ns) (.idx (k : Int) :: List.replicate ns.length fullSlice)
      = .ok (.pick k :: ns.map (fun n => AxSel.range 0 1 n)) := by
  have h1 : normAxis n (.idx (k : Int)) = .ok (.pick k) := by
    have : (0 : Int) ≤ (k : Int) ∧ (k : Int) < (n : Int) := by omega
    simp [normAxis, this]
  simp only [normAll, h1, normAll_full]

/-- `rimg[k]` for an image of shape `n :: ns`, `k < n` -/
theorem getitem_idx_spec (r : ImgOf α) (n : Nat) (ns : List Nat) (k : Nat) (hs : r.shape = n :: ns)
    (hk : k < n) :
    (∀ v, getitem r [.idx (k : Int)] = .ok (.val v) → ns = [] ∧ v = r.data [k]) ∧
    (∀ h, getitem r [.idx (k : Int)] = .ok (.img h) →
      h.shape = ns ∧ ns ≠ [] ∧ h.outNames = r.outNames ∧
      h.cols = selCols (.pick k :: ns.map (fun n => AxSel.range 0 1 n)) r.cols ∧
      (∀ ρ, h.off ρ = r.off ρ + selOff (.pick k :: ns.map (fun n => AxSel.range 0 1 n)) r.cols ρ) ∧
      h.inNames = keepNames (.pick k :: ns.map (fun n => AxSel.range 0 1 n))
        (selNames (.pick k :: ns.map (fun n => AxSel.range 0 1 n)) r.inNames) ∧
      ∀ j, ValidIdx ns j → h.data j = r.data (k :: j)) := by
  constructor
  · intro v hres
    unfold getitem at hres
    rw [hs] at hres
    simp only [expand_idx, normAll_idx n ns k hk] at hres
    split_ifs at hres with h1 h2 h3 <;> cases hres
    simp only [selShape, selShape_full] at h3
    subst h3
    exact ⟨rfl, rfl⟩
  · intro h hres
    unfold getitem at hres
    rw [hs] at hres
    simp only [expand_idx, normAll_idx n ns k hk] at hres
    split_ifs at hres with h1 h2 h3 <;> cases hres
    simp only [selShape, selShape_full] at h3
    refine ⟨by simp [selShape, selShape_full], h3, rfl, rfl, fun _ => rfl, rfl, fun j hj => ?_⟩
    simp [selIdx, selIdx_full ns j hj]

theorem getitem_idx_world (r h : ImgOf α) (n : Nat) (ns : List Nat) (k : Nat) (hs : r.shape = n :: ns)
    (hk : k < n) (hw : r.inNames.length = r.shape.length ∧ r.cols.length = r.shape.length)
    (hres : getitem r [.idx (k : Int)] = .ok (.img h)) :
    (h.inNames.length = h.shape.length ∧ h.cols.length = h.shape.length) ∧
    ∀ j, ValidIdx ns j → ValidIdx r.shape (k :: j) ∧ ∀ ρ, h.world j ρ = r.world (k :: j) ρ := by
  obtain ⟨hsh, _, _, hc, ho, hn, _⟩ := (getitem_idx_spec r n ns k hs hk).2 h hres
  have hval : List.Forall₂ (fun n a => AxSel.Valid n a) (n :: ns)
      (.pick k :: ns.map (fun n => AxSel.range 0 1 n)) := by
    apply normAll_valid (n :: ns) (.idx (k : Int) :: List.replicate ns.length fullSlice)
    · simp
    · exact normAll_idx n ns k hk
  have hlen : (AxSel.pick k :: ns.map (fun n => AxSel.range 0 1 n)).length = r.shape.length := by
    rw [hs]; simp
  constructor
  · constructor
    · rw [hn, hsh]
      have := selShape_names_length (.pick k :: ns.map (fun n => AxSel.range 0 1 n)) r.inNames
        (by rw [hw.1, hlen])
      simpa [selShape, selShape_full] using this
    · rw [hc, hsh]
      have := selCols_length (.pick k :: ns.map (fun n => AxSel.range 0 1 n)) r.cols
        (by rw [hw.2, hlen])
      simpa [selShape, selShape_full] using this
  · intro j hj
    refine ⟨by rw [hs]; exact validIdx_cons.mpr ⟨hk, hj⟩, fun ρ => ?_⟩
    have hj' : ValidIdx (selShape (.pick k :: ns.map (fun n => AxSel.range 0 1 n))) j := by
      simpa [selShape, selShape_full] using hj
    have hl := lin_sel (n :: ns) _ r.cols j ρ hval hj'
    simp only [selIdx, selIdx_full ns j hj] at hl
    simp only [ImgOf.world, ho, hc, hl]
    ring

/-! ## iteration over an axis -/

theorem reorderAxes_perm (g r : ImgOf α) (ord : Order) (hres : reorderAxes g ord = .ok r) :
    ∃ o, isPerm g.shape.length o = true ∧ r = reorderAxesP g o := by
  unfold reorderAxes at hres
  cases hr : resolveOrder g.shape.length g.shape.length g.inNames ord with
  | error e => simp [hr] at hres
  | ok o =>
    simp only [hr] at hres
    cases hres
    exact ⟨o, resolveOrder_isPerm _ _ _ _ _ hr, rfl⟩

theorem rollimg_perm (g r : ImgOf α) (a s : AxId) (o : List (Option Nat))
    (hres : rollimg g a s o = .ok r) :
    ∃ ord, isPerm g.shape.length ord = true ∧ r = reorderAxesP g ord := by
  unfold rollimg at hres
  cases h1 : inputAxisIndex g.inNames g.outNames o a with
  | error e => simp [h1] at hres
  | ok ai =>
    cases h2 : inputAxisIndex g.inNames g.outNames o s with
    | error e => simp [h1, h2] at hres
    | ok si =>
      simp only [h1, h2] at hres
      split_ifs at hres <;> exact reorderAxes_perm g r _ hres

theorem mapE_spec {γ : Type} (f : Nat → Except Err γ) : ∀ (ks : List Nat) (l : List γ),
    mapE f ks = .ok l → l.length = ks.length ∧ ∀ i (h1 : i < ks.length) (h2 : i < l.length), f ks[i] = .ok l[i]
  | [], l, h => by simp only [mapE] at h; cases h; simp
  | k :: ks, l, h => by
      simp only [mapE] at h
      cases hf : f k with
      | error e => simp [hf] at h
      | ok b =>
        cases hm : mapE f ks with
        | error e => simp [hf, hm] at h
        | ok bs =>
          simp only [hf, hm] at h
          cases h
          obtain ⟨hl, hi⟩ := mapE_spec f ks bs hm
          refine ⟨by simp [hl], fun i h1 h2 => ?_⟩
          cases i with
          | zero => simpa using hf
          | succ i => simpa using hi i (by simpa using h1) (by simpa using h2)

def ResOf.shape : ResOf α → List Nat
  | .img h => h.shape
  | .val _ => []

def ResOf.dataAt : ResOf α → List Nat → α
  | .img h => h.data
  | .val v => fun _ => v

/-- the transposed image `r` cut into slabs along its first axis: (slab `k`, index `j` in the
    slab) ↦ `unperm ord (k :: j)` is a bijection onto the voxels of `g` that keeps values and
    world coordinates -/
theorem slab_bijection (g : ImgOf α) (ord : List Nat) (hp : isPerm g.shape.length ord = true)
    (hw : WF g) (hne : g.shape ≠ []) :
    ∃ n ns, (reorderAxesP g ord).shape = n :: ns ∧
      (∀ k j, k < n → ValidIdx ns j →
        ValidIdx g.shape (unperm ord (k :: j)) ∧
        (reorderAxesP g ord).data (k :: j) = g.data (unperm ord (k :: j)) ∧
        ∀ ρ, (reorderAxesP g ord).world (k :: j) ρ = g.world (unperm ord (k :: j)) ρ) ∧
      (∀ k k' j j', k < n → k' < n → ValidIdx ns j → ValidIdx ns j' →
        unperm ord (k :: j) = unperm ord (k' :: j') → k = k' ∧ j = j') ∧
      (∀ i, ValidIdx g.shape i → ∃ k j, k < n ∧ ValidIdx ns j ∧ unperm ord (k :: j) = i) := by
  obtain ⟨⟨_, hv, hi⟩, _⟩ := reorderAxesP_index g ord hw hp
  have hl := ((isPerm_iff _ ord).mp hp).1
  cases hsh : (reorderAxesP g ord).shape with
  | nil =>
    have : (reorderAxesP g ord).shape.length = g.shape.length := by
      simp [reorderAxesP, permute_length, hl]
    rw [hsh] at this
    have : g.shape = [] := List.eq_nil_of_length_eq_zero this.symm
    exact absurd this hne
  | cons n ns =>
    refine ⟨n, ns, rfl, ?_, ?_, ?_⟩
    · intro k j hk hj
      have hv' := hv (k :: j) (by rw [hsh]; exact validIdx_cons.mpr ⟨hk, hj⟩)
      exact ⟨hv'.1, hv'.2.1, hv'.2.2⟩
    · intro k k' j j' hk hk' hj hj' he
      have := hi (k :: j) (k' :: j') (by rw [hsh]; exact validIdx_cons.mpr ⟨hk, hj⟩)
        (by rw [hsh]; exact validIdx_cons.mpr ⟨hk', hj'⟩) he
      simpa using this
    · intro i hi'
      obtain ⟨a, b⟩ := unperm_surj _ ord g.shape i hp rfl hi'
      have hsh' : permute 0 ord g.shape = n :: ns := hsh
      rw [hsh'] at a
      cases hpi : permute 0 ord i with
      | nil => rw [hpi] at a; cases a
      | cons k j =>
        rw [hpi] at a b
        obtain ⟨hk, hj⟩ := validIdx_cons.mp a
        exact ⟨k, j, hk, hj, b⟩

/-- `list(iter_axis(img, axis))`: the elements, taken together, are the image — (element `k`,
    index `j` in it) ↦ `τ k j` is a bijection onto the voxels of `g` keeping values and (for
    image elements) world coordinates -/
theorem iterAll_bijection (g : ImgOf α) (a : AxId) (o : List (Option Nat)) (l : List (ResOf α))
    (hw : WF g) (hne : g.shape ≠ []) (hres : iterAll g a o = .ok l) :
    ∃ τ : Nat → List Nat → List Nat,
      (∀ k (hk : k < l.length) j, ValidIdx (l[k]).shape j →
        ValidIdx g.shape (τ k j) ∧ (l[k]).dataAt j = g.data (τ k j) ∧
        ∀ h, l[k] = .img h → h.outNames = g.outNames ∧ WF h ∧ ∀ ρ, h.world j ρ = g.world (τ k j) ρ) ∧
      (∀ k k' j j' (hk : k < l.length) (hk' : k' < l.length), ValidIdx (l[k]).shape j →
        ValidIdx (l[k']).shape j' → τ k j = τ k' j' → k = k' ∧ j = j') ∧
      (∀ i, ValidIdx g.shape i → ∃ k j, ∃ hk : k < l.length, ValidIdx (l[k]).shape j ∧ τ k j = i) := by
  unfold iterAll at hres
  cases hr : rollimg g a (.int 0) o with
  | error e => simp [hr] at hres
  | ok r =>
    simp only [hr] at hres
    obtain ⟨ord, hp, rfl⟩ := rollimg_perm g r a _ o hr
    obtain ⟨n, ns, hsh, hA, hB, hC⟩ := slab_bijection g ord hp hw hne
    obtain ⟨hlen, hget⟩ := mapE_spec _ _ l hres
    rw [hsh] at hlen hget
    simp only [List.headD_cons, List.length_range] at hlen hget
    have hwr := (reorderAxesP_index g ord hw hp).2
    -- shape and data of every element
    have hel : ∀ k (hk : k < l.length), (l[k]).shape = ns ∧
        (∀ j, ValidIdx ns j → (l[k]).dataAt j = (reorderAxesP g ord).data (k :: j)) ∧
        ∀ h, l[k] = .img h → h.outNames = g.outNames ∧ WF h ∧
          ∀ j, ValidIdx ns j → ∀ ρ, h.world j ρ = (reorderAxesP g ord).world (k :: j) ρ := by
      intro k hk
      have hkn : k < n := by omega
      have hg := hget k (by omega) hk
      simp only [List.getElem_range] at hg
      obtain ⟨sv, si⟩ := getitem_idx_spec (reorderAxesP g ord) n ns k hsh hkn
      cases hlk : l[k] with
      | val v =>
        rw [hlk] at hg
        obtain ⟨hns, hv⟩ := sv v hg
        subst hns
        refine ⟨rfl, fun j hj => ?_, fun h hh => by cases hh⟩
        cases hj
        simpa [ResOf.dataAt] using hv
      | img h =>
        rw [hlk] at hg
        obtain ⟨h1, _, h3, _, _, _, h7⟩ := si h hg
        obtain ⟨w1, w2⟩ := getitem_idx_world (reorderAxesP g ord) h n ns k hsh hkn hwr hg
        refine ⟨h1, fun j hj => h7 j hj, fun h' hh => ?_⟩
        cases hh
        exact ⟨h3, w1, fun j hj ρ => (w2 j hj).2 ρ⟩
    refine ⟨fun k j => unperm ord (k :: j), ?_, ?_, ?_⟩
    · intro k hk j hj
      obtain ⟨e1, e2, e3⟩ := hel k hk
      rw [e1] at hj
      obtain ⟨a1, a2, a3⟩ := hA k j (by omega) hj
      refine ⟨a1, by rw [e2 j hj, a2], fun h hh => ?_⟩
      obtain ⟨b1, b2, b3⟩ := e3 h hh
      exact ⟨b1, b2, fun ρ => by rw [b3 j hj ρ, a3 ρ]⟩
    · intro k k' j j' hk hk' hj hj' he
      rw [(hel k hk).1] at hj
      rw [(hel k' hk').1] at hj'
      exact hB k k' j j' (by omega) (by omega) hj hj' he
    · intro i hi
      obtain ⟨k, j, hk, hj, he⟩ := hC i hi
      have hk' : k < l.length := by omega
      exact ⟨k, j, hk', by rw [(hel k hk').1]; exact hj, he⟩

/-! ## ImageList -/

/-- which output row a list item has lost (`none`: all kept) -/
def keepRow (d : Option Nat) (ρ : Nat) : Nat :=
  match d with
  | none => ρ
  | some o => skip o ρ

def dropRow (d : Option Nat) (l : List String) : List String :=
  match d with
  | none => l
  | some o => l.eraseIdx o

theorem dropOut_world (h : ImgOf α) (o : Nat) (j : List Nat) (ρ : Nat) :
    (dropOut h o).world j ρ = h.world j (skip o ρ) := by
  simp only [ImgOf.world, dropOut]
  rw [lin_reindex (skip o) h.cols j ρ]

theorem dropIn_of_le (h : ImgOf α) (i : Nat) (h1 : h.inNames.length ≤ i) (h2 : h.cols.length ≤ i) :
    dropIn h i = h := by
  unfold dropIn
  rw [List.eraseIdx_of_length_le h1, List.eraseIdx_of_length_le h2]

theorem dropIoDim_cases (h h' : ImgOf α) (ax : AxId) (oS : List (Option Nat)) (hwf : WF h)
    (hd : dropIoDim h ax oS = .ok h') (hlen : h'.inNames.length = h'.shape.length) :
    ∃ d : Option Nat, h' = (match d with | none => h | some o => dropOut h o) := by
  have key : ∀ i, (h.inNames.eraseIdx i).length = h.shape.length → dropIn h i = h := by
    intro i hi
    have : h.inNames.length ≤ i := by
      by_contra hc
      simp only [not_le] at hc
      rw [List.length_eraseIdx_of_lt hc, hwf.1] at hi
      have := hwf.1 ▸ hc
      omega
    exact dropIn_of_le h i this (by rw [hwf.2, ← hwf.1]; exact this)
  unfold dropIoDim at hd
  cases hio : ioAxisIndices h.inNames h.outNames oS ax with
  | error e => simp [hio] at hd
  | ok p =>
    obtain ⟨pi, po⟩ := p
    cases pi with
    | none =>
      cases po with
      | none => simp only [hio] at hd; cases hd; exact ⟨none, rfl⟩
      | some o => simp only [hio] at hd; cases hd; exact ⟨some o, rfl⟩
    | some i =>
      cases po with
      | none =>
        simp only [hio] at hd; cases hd
        exact ⟨none, key i hlen⟩
      | some o =>
        simp only [hio] at hd
        split_ifs at hd
        cases hd
        have := key i hlen
        exact ⟨some o, by rw [this]⟩

theorem listItem_spec (r item : ImgOf α) (n : Nat) (ns : List Nat) (k : Nat) (drop : Bool)
    (name : String) (oS : OrntSrc) (hs : r.shape = n :: ns) (hk : k < n) (hwr : WF r)
    (hres : listItem r k drop name oS = .ok item) :
    ∃ h, getitem r [.idx (k : Int)] = .ok (.img h) ∧
      ∃ d : Option Nat, item = (match d with | none => h | some o => dropOut h o) := by
  unfold listItem at hres
  cases hg : getitem r [.idx (k : Int)] with
  | error e => simp [hg] at hres
  | ok res =>
    cases res with
    | val v => simp [hg] at hres
    | img h =>
      simp only [hg] at hres
      refine ⟨h, rfl, ?_⟩
      obtain ⟨wh, _⟩ := getitem_idx_world r h n ns k hs hk hwr hg
      cases drop with
      | false => simp only [Bool.false_eq_true, if_false] at hres; cases hres; exact ⟨none, rfl⟩
      | true =>
        simp only [if_true] at hres
        cases hd : dropIoDim h (.name name) (oS.get h false) with
        | error e => simp [hd] at hres
        | ok h' =>
          simp only [hd] at hres
          split_ifs at hres with hl
          cases hres
          exact dropIoDim_cases h item _ _ wh hd hl

/-- `ImageList.from_image`: the items, taken together, are the image.  (item `k`, index `j`)
    ↦ `τ k j` is a bijection onto the voxels of `g`; values are kept; every reference
    coordinate an item still has (`d = none`: all of them, `d = some o`: all but the dropped
    row `o`) has the same name and the same value as in `g`. -/
theorem fromImage_bijection (g : ImgOf α) (ax : Option AxId) (dropout : Bool) (o : List (Option Nat))
    (oS : OrntSrc) (items : List (ImgOf α)) (hw : WF g) (hne : g.shape ≠ [])
    (hres : fromImage g ax dropout o oS = .ok items) :
    ∃ τ : Nat → List Nat → List Nat,
      (∀ k (hk : k < items.length), WF items[k] ∧ (items[k]).shape = (items[0]'(by omega)).shape ∧
        ∃ d : Option Nat, (items[k]).outNames = dropRow d g.outNames ∧
          ∀ j, ValidIdx (items[k]).shape j →
            ValidIdx g.shape (τ k j) ∧ (items[k]).data j = g.data (τ k j) ∧
            ∀ ρ, (items[k]).world j ρ = g.world (τ k j) (keepRow d ρ)) ∧
      (∀ k k' j j' (hk : k < items.length) (hk' : k' < items.length), ValidIdx (items[k]).shape j →
        ValidIdx (items[k']).shape j' → τ k j = τ k' j' → k = k' ∧ j = j') ∧
      (∀ i, ValidIdx g.shape i →
        ∃ k j, ∃ hk : k < items.length, ValidIdx (items[k]).shape j ∧ τ k j = i) := by
  unfold fromImage at hres
  cases ax with
  | none => simp at hres
  | some axis =>
    simp only at hres
    cases hio : ioAxisIndices g.inNames g.outNames o axis with
    | error e => simp [hio] at hres
    | ok p =>
      obtain ⟨pi, oa⟩ := p
      cases pi with
      | none => simp [hio] at hres
      | some a =>
        simp only [hio] at hres
        cases hr : rollimg g (.int (a : Int)) (.int 0) o with
        | error e => simp [hr] at hres
        | ok r =>
          simp only [hr] at hres
          obtain ⟨ord, hp, rfl⟩ := rollimg_perm g r _ _ o hr
          obtain ⟨n, ns, hsh, hA, hB, hC⟩ := slab_bijection g ord hp hw hne
          obtain ⟨hlen, hget⟩ := mapE_spec _ _ items hres
          rw [hsh] at hlen hget
          simp only [List.headD_cons, List.length_range] at hlen hget
          have hwr := (reorderAxesP_index g ord hw hp).2
          have hel : ∀ k (hk : k < items.length), WF items[k] ∧ (items[k]).shape = ns ∧
              ∃ d : Option Nat, (items[k]).outNames = dropRow d g.outNames ∧
              (∀ j, ValidIdx ns j → (items[k]).data j = (reorderAxesP g ord).data (k :: j) ∧
                ∀ ρ, (items[k]).world j ρ = (reorderAxesP g ord).world (k :: j) (keepRow d ρ)) := by
            intro k hk
            have hkn : k < n := by omega
            have hg := hget k (by omega) hk
            simp only [List.getElem_range] at hg
            obtain ⟨h, hgi, d, hd⟩ := listItem_spec _ _ n ns k _ _ _ hsh hkn hwr hg
            obtain ⟨h1, _, h3, _, _, _, h7⟩ := (getitem_idx_spec _ n ns k hsh hkn).2 h hgi
            obtain ⟨w1, w2⟩ := getitem_idx_world _ h n ns k hsh hkn hwr hgi
            cases d with
            | none =>
              simp only at hd
              rw [hd]
              exact ⟨w1, h1, none, h3, fun j hj => ⟨h7 j hj, fun ρ => (w2 j hj).2 ρ⟩⟩
            | some od =>
              simp only at hd
              rw [hd]
              refine ⟨⟨w1.1, by simpa [dropOut] using w1.2⟩, h1, some od, ?_, fun j hj => ⟨h7 j hj, fun ρ => ?_⟩⟩
              · simp only [dropOut, dropRow, h3]; rfl
              · rw [dropOut_world]; exact (w2 j hj).2 _
          refine ⟨fun k j => unperm ord (k :: j), ?_, ?_, ?_⟩
          · intro k hk
            obtain ⟨e0, e1, d, e2, e3⟩ := hel k hk
            refine ⟨e0, by rw [e1, (hel 0 (by omega)).2.1], d, e2, fun j hj => ?_⟩
            rw [e1] at hj
            obtain ⟨a1, a2, a3⟩ := hA k j (by omega) hj
            exact ⟨a1, by rw [(e3 j hj).1, a2], fun ρ => by rw [(e3 j hj).2 ρ, a3]⟩
          · intro k k' j j' hk hk' hj hj' he
            rw [(hel k hk).2.1] at hj
            rw [(hel k' hk').2.1] at hj'
            exact hB k k' j j' (by omega) (by omega) hj hj' he
          · intro i hi
            obtain ⟨k, j, hk, hj, he⟩ := hC i hi
            have hk' : k < items.length := by omega
            exact ⟨k, j, hk', by rw [(hel k hk').2.1]; exact hj, he⟩

/-- `iter_axis(..., asarray=True)` never refuses where the roll succeeds: element `k` exists for
    every `k` below the length of the rolled first axis, for every number of axes (1-D: the
    elements are 0-d) -/
theorem iterAxisArr_ok (g r : ImgOf α) (a : AxId) (k : Nat) (o : List (Option Nat))
    (hr : rollimg g a (.int 0) o = .ok r) (hk : k < r.shape.headD 0) :
    iterAxisArr g a k o = .ok { shape := r.shape.tail, data := fun j => r.data (k :: j) } := by
  unfold iterAxisArr
  simp only [hr]
  rw [if_pos hk]

/-- element `k` with `asarray=True` is the data of element `k` with `asarray=False` -/
theorem iterAxisArr_eq_iterAxis (g : ImgOf α) (a : AxId) (k : Nat) (o : List (Option Nat))
    (arr : ArrOf α) (res : ResOf α)
    (h1 : iterAxisArr g a k o = .ok arr) (h2 : iterAxis g a k o = .ok res) :
    arr.shape = res.shape ∧ ∀ j, ValidIdx arr.shape j → arr.data j = res.dataAt j := by
  unfold iterAxisArr at h1
  unfold iterAxis at h2
  cases hr : rollimg g a (.int 0) o with
  | error e => simp [hr] at h1
  | ok r =>
    simp only [hr] at h1 h2
    split_ifs at h1 with hk
    cases h1
    cases hsh : r.shape with
    | nil => simp [hsh] at hk
    | cons n ns =>
      rw [hsh] at hk
      simp only [List.headD_cons] at hk
      obtain ⟨sv, si⟩ := getitem_idx_spec r n ns k hsh hk
      cases res with
      | val v =>
        obtain ⟨hns, hv⟩ := sv v h2
        subst hns
        refine ⟨by simp [ResOf.shape], fun j hj => ?_⟩
        simp only [List.tail_cons] at hj
        cases hj
        simp [ResOf.dataAt, hv]
      | img h =>
        obtain ⟨e1, _, _, _, _, _, e7⟩ := si h h2
        refine ⟨by simp [ResOf.shape, e1], fun j hj => ?_⟩
        simp only [List.tail_cons] at hj
        simp [ResOf.dataAt, e7 j hj]

/-- a 1-D image cannot be made into an `ImageList`: its slices are not images -/
theorem fromImage_1d_refused (g : ImgOf α) (n : Nat) (hs : g.shape = [n]) (hn : 0 < n) (hw : WF g)
    (ax : Option AxId) (dropout : Bool) (o : List (Option Nat)) (oS : OrntSrc) (items : List (ImgOf α)) :
    fromImage g ax dropout o oS ≠ .ok items := by
  intro hres
  unfold fromImage at hres
  cases ax with
  | none => simp at hres
  | some axis =>
    simp only at hres
    cases hio : ioAxisIndices g.inNames g.outNames o axis with
    | error e => simp [hio] at hres
    | ok p =>
      obtain ⟨pi, oa⟩ := p
      cases pi with
      | none => simp [hio] at hres
      | some a =>
        simp only [hio] at hres
        cases hr : rollimg g (.int (a : Int)) (.int 0) o with
        | error e => simp [hr] at hres
        | ok r =>
          simp only [hr] at hres
          obtain ⟨ord, hp, rfl⟩ := rollimg_perm g r _ _ o hr
          have hl := (isPerm_iff _ ord).mp hp
          rw [hs] at hl
          simp only [List.length_cons, List.length_nil, Nat.zero_add] at hl
          have hord : ord = [0] := by
            match ord, hl with
            | [x], ⟨_, _, h3⟩ =>
              have := h3 x (by simp)
              have : x = 0 := by omega
              subst this; rfl
          have hsh : (reorderAxesP g ord).shape = [n] := by
            simp [reorderAxesP, permute, hord, hs]
          obtain ⟨hlen, hget⟩ := mapE_spec _ _ items hres
          rw [hsh] at hlen hget
          simp only [List.headD_cons, List.length_range] at hlen hget
          have hg := hget 0 hn (by omega)
          simp only [List.getElem_range] at hg
          have hwr := (reorderAxesP_index g ord hw hp).2
          obtain ⟨h, hgi, _⟩ := listItem_spec _ _ n [] 0 _ _ _ hsh hn hwr hg
          exact ((getitem_idx_spec _ n [] 0 hsh hn).2 h hgi).2.1 rfl

/-- indices of an array whose axis `a` (length `L`) was inserted into shape `s` -/
theorem validIdx_insert_axis (L : Nat) : ∀ (a : Nat) (s idx : List Nat), a ≤ s.length →
    (ValidIdx (s.take a ++ L :: s.drop a) idx ↔
      a < idx.length ∧ idx.getD a 0 < L ∧ ValidIdx s (idx.eraseIdx a))
  | 0, s, [], _ => by simp [ValidIdx]
  | 0, s, k :: q, _ => by
      simp only [List.take_zero, List.nil_append, List.drop_zero, List.eraseIdx_cons_zero,
        List.getD_cons_zero, List.length_cons]
      rw [validIdx_cons]
      constructor
      · rintro ⟨h1, h2⟩; exact ⟨by omega, h1, h2⟩
      · rintro ⟨_, h1, h2⟩; exact ⟨h1, h2⟩
  | a + 1, [], idx, h => by simp at h
  | a + 1, n :: s, [], _ => by simp [ValidIdx]
  | a + 1, n :: s, i :: idx, h => by
      have ih := validIdx_insert_axis L a s idx (by simpa using h)
      simp only [List.take_succ_cons, List.cons_append, List.drop_succ_cons, List.eraseIdx_cons_succ,
        List.getD_cons_succ, List.length_cons]
      rw [validIdx_cons, validIdx_cons, ih]
      constructor
      · rintro ⟨h1, h2, h3, h4⟩; exact ⟨by omega, h3, h1, h4⟩
      · rintro ⟨h1, h2, h3, h4⟩; exact ⟨h3, by omega, h2, h4⟩

/-- `get_list_data(axis)` of a non-empty list whose items have shape `s`: position `idx` of the
    result holds the value at `idx` without its component `a` in item number `idx[a]`; this is a
    bijection between the result's indices and the pairs (item, index in the item) -/
theorem getListData_spec (items : List (ImgOf α)) (s : List Nat) (ax : Int)
    (hsh : ∀ it ∈ items, it.shape = s) (hne : items ≠ [])
    (hax : -((s.length : Int) + 1) ≤ ax ∧ ax < (s.length : Int) + 1) :
    ∃ (arr : ArrOf α) (a : Nat), getListData items (some ax) = .ok arr ∧
      (a : Int) = (if ax < 0 then ax + ((s.length : Int) + 1) else ax) ∧ a ≤ s.length ∧
      arr.shape = s.take a ++ items.length :: s.drop a ∧
      (∀ idx, ValidIdx arr.shape idx →
        ∃ hk : idx.getD a 0 < items.length, ValidIdx s (idx.eraseIdx a) ∧
          arr.data idx = (items[idx.getD a 0]).data (idx.eraseIdx a)) ∧
      (∀ k j, k < items.length → ValidIdx s j →
        ValidIdx arr.shape (j.insertIdx a k) ∧ (j.insertIdx a k).getD a 0 = k ∧
        (j.insertIdx a k).eraseIdx a = j) := by
  cases items with
  | nil => exact absurd rfl hne
  | cons it0 rest =>
    have h0 : it0.shape = s := hsh it0 (by simp)
    set a := (if ax < 0 then ax + ((s.length : Int) + 1) else ax).toNat with ha
    have hcast : (a : Int) = (if ax < 0 then ax + ((s.length : Int) + 1) else ax) := by
      rw [ha]; apply Int.toNat_of_nonneg; split_ifs <;> omega
    have hle : a ≤ s.length := by
      have : (a : Int) ≤ (s.length : Int) := by rw [hcast]; split_ifs <;> omega
      exact_mod_cast this
    have hnot : ¬ ((s.length : Int) + 1 ≤ ax ∨ ax < -((s.length : Int) + 1)) := by omega
    refine ⟨{ shape := s.take a ++ (it0 :: rest).length :: s.drop a
              data := fun idx => ((it0 :: rest).getD (idx.getD a 0) it0).data (idx.eraseIdx a) }, a,
      by simp only [getListData, h0, hnot, if_false]; rfl, hcast, hle, rfl, ?_, ?_⟩
    · intro idx hidx
      obtain ⟨h1, h2, h3⟩ := (validIdx_insert_axis _ a s idx hle).mp hidx
      refine ⟨h2, h3, ?_⟩
      show ((it0 :: rest).getD (idx.getD a 0) it0).data (idx.eraseIdx a) = _
      rw [getD_lt _ _ _ h2]
    · intro k j hk hj
      have hjl : j.length = s.length := ((validIdx_iff _ _).mp hj).1
      have hal : a ≤ j.length := by omega
      have e1 : (j.insertIdx a k).getD a 0 = k := by
        have hlt : a < (j.insertIdx a k).length := by rw [List.length_insertIdx_of_le_length hal]; omega
        rw [getD_lt _ _ _ hlt]
        exact List.getElem_insertIdx_self hlt
      have e2 : (j.insertIdx a k).eraseIdx a = j := List.eraseIdx_insertIdx_self ..
      refine ⟨?_, e1, e2⟩
      apply (validIdx_insert_axis _ a s _ hle).mpr
      refine ⟨by rw [List.length_insertIdx_of_le_length hal]; omega, by rw [e1]; exact hk, by rw [e2]; exact hj⟩

theorem filterMap_all_some {γ : Type} (F : Nat → Option γ) : ∀ (L : List Nat),
    (∀ t ∈ L, (F t).isSome) →
    (L.filterMap F).length = L.length ∧ ∀ i (hi : i < L.length), (L.filterMap F)[i]? = F L[i]
  | [], _ => by simp
  | t :: L, h => by
      obtain ⟨v, hv⟩ := Option.isSome_iff_exists.mp (h t (by simp))
      obtain ⟨ih1, ih2⟩ := filterMap_all_some F L (fun x hx => h x (by simp [hx]))
      simp only [List.filterMap_cons, hv]
      refine ⟨by simp [ih1], fun i hi => ?_⟩
      cases i with
      | zero => simp [hv]
      | succ i => simpa using ih2 i (by simpa using hi)

/-- slicing an `ImageList`: the new list holds, in order, the items at the positions
    `start + t·step` Python's slice semantics give — each inside the list, no two equal -/
theorem listGetitem_slice_spec (items l : List (ImgOf α)) (a b c : Option Int)
    (h : listGetitem items (.slc a b c) = .ok (.list l)) :
    ∃ s st len, normAxis items.length (.slc a b c) = .ok (.range s st len) ∧ l.length = len ∧
      (∀ t, t < len → ((s : Int) + (t : Int) * st).toNat < items.length ∧
        l[t]? = items[((s : Int) + (t : Int) * st).toNat]?) ∧
      (∀ t t', t < len → t' < len →
        ((s : Int) + (t : Int) * st).toNat = ((s : Int) + (t' : Int) * st).toNat → t = t') := by
  simp only [listGetitem] at h
  cases hn : normAxis items.length (.slc a b c) with
  | error e => simp [hn] at h
  | ok sel =>
    cases sel with
    | pick i => simp [hn] at h
    | range s st len =>
      simp only [hn] at h
      cases h
      have hv := normAxis_valid _ _ _ hn
      obtain ⟨hr, hst⟩ := hv
      have hpos : ∀ t, t < len → ((s : Int) + (t : Int) * st).toNat < items.length := by
        intro t ht
        have := hr t ht
        omega
      have hall : ∀ t ∈ List.range len,
          (items[((s : Int) + (t : Int) * st).toNat]?).isSome := by
        intro t ht
        have := hpos t (List.mem_range.mp ht)
        simp [this]
      obtain ⟨f1, f2⟩ := filterMap_all_some
        (fun (t : Nat) => items[((s : Int) + (t : Int) * st).toNat]?) (List.range len) hall
      refine ⟨s, st, len, rfl, by simpa using f1, fun t ht => ⟨hpos t ht, ?_⟩, ?_⟩
      · have := f2 t (by simpa using ht)
        simpa using this
      · intro t t' ht ht' he
        have e1 := Int.toNat_of_nonneg (hr t ht).1
        have e2 := Int.toNat_of_nonneg (hr t' ht').1
        have heq : (s : Int) + (t : Int) * st = (s : Int) + (t' : Int) * st := by rw [← e1, ← e2, he]
        have hmul : ((t : Int) - (t' : Int)) * st = 0 := by linarith
        by_cases hl : 1 < len
        · rcases Int.mul_eq_zero.mp hmul with h | h
          · omega
          · exact absurd h (hst hl)
        · omega

theorem listGetitem_int_spec (items : List (ImgOf α)) (i : Int) (it : ImgOf α)
    (h : listGetitem items (.int i) = .ok (.item it)) :
    (0 ≤ i ∧ i < items.length ∧ items[i.toNat]? = some it) ∨
    (-(items.length : Int) ≤ i ∧ i < 0 ∧ items[(i + items.length).toNat]? = some it) := by
  simp only [listGetitem, normAxis] at h
  split_ifs at h with h1 h2
  · simp only at h
    cases hk : items[i.toNat]? with
    | none => simp [hk] at h
    | some x => simp only [hk] at h; cases h; exact Or.inl ⟨h1.1, h1.2, rfl⟩
  · simp only at h
    cases hk : items[(i + (items.length : Int)).toNat]? with
    | none => simp [hk] at h
    | some x => simp only [hk] at h; cases h; exact Or.inr ⟨h2.1, h2.2, rfl⟩

/-! ## fromarray -/

theorem lin_unit : ∀ (m k : Nat) (j : List Nat) (ρ : Nat),
    lin ((List.range' k m).map unitVec) j ρ = if k ≤ ρ ∧ ρ < k + min m j.length then ((j.getD (ρ - k) 0 : Nat) : Rat) else 0
  | 0, k, j, ρ => by
      have : ¬ (k ≤ ρ ∧ ρ < k + min 0 j.length) := by omega
      simp [lin, this]
  | m + 1, k, [], ρ => by
      have : ¬ (k ≤ ρ ∧ ρ < k + min (m + 1) ([] : List Nat).length) := by simp
      simp [List.range'_succ, lin]
  | m + 1, k, i :: j, ρ => by
      simp only [List.range'_succ, List.map_cons, lin, lin_unit m (k + 1) j ρ, unitVec]
      by_cases h1 : ρ = k
      · subst h1
        have h2 : ¬ (ρ + 1 ≤ ρ ∧ ρ < ρ + 1 + min m j.length) := by omega
        have h3 : ρ ≤ ρ ∧ ρ < ρ + min (m + 1) (i :: j).length := by
          simp only [List.length_cons]; omega
        rw [if_neg h2, if_pos h3, if_pos rfl, Nat.sub_self, List.getD_cons_zero]
        ring
      · by_cases h2 : k + 1 ≤ ρ ∧ ρ < k + 1 + min m j.length
        · have h3 : k ≤ ρ ∧ ρ < k + min (m + 1) (i :: j).length := by
            simp only [List.length_cons]; omega
          have h4 : ρ - k = (ρ - (k + 1)) + 1 := by omega
          rw [if_neg h1, if_pos h2, if_pos h3, h4, List.getD_cons_succ]
          ring
        · have h3 : ¬ (k ≤ ρ ∧ ρ < k + min (m + 1) (i :: j).length) := by
            simp only [List.length_cons]; omega
          rw [if_neg h1, if_neg h2, if_neg h3]
          ring

/-- `fromarray`: accepted exactly when the names fit, and then voxel `j` sits at world
    position `j` -/
theorem fromArray_spec (shape : List Nat) (data : List Nat → α) (inN outN : List String) :
    (fromArray shape data inN outN = .error .valueError ↔
      (inN.length ≠ outN.length ∨ inN.length ≠ shape.length ∨ ¬ inN.Nodup ∨ ¬ outN.Nodup)) ∧
    ∀ g, fromArray shape data inN outN = .ok g →
      WF g ∧ g.shape = shape ∧ g.data = data ∧ g.inNames = inN ∧ g.outNames = outN ∧
      ∀ j, ValidIdx shape j → ∀ ρ, ρ < shape.length → g.world j ρ = ((j.getD ρ 0 : Nat) : Rat) := by
  unfold fromArray
  constructor
  · split_ifs with h <;> simp [h]
  · intro g hg
    split_ifs at hg with h
    cases hg
    have h' : inN.length = outN.length ∧ inN.length = shape.length := by
      constructor <;> (by_contra hc; exact h (by simp [hc]))
    refine ⟨⟨h'.2, by simp⟩, rfl, rfl, rfl, rfl, fun j hj ρ hρ => ?_⟩
    have hjl : j.length = shape.length := ((validIdx_iff _ _).mp hj).1
    simp only [ImgOf.world, zeroVec, List.range_eq_range', lin_unit]
    have : 0 ≤ ρ ∧ ρ < 0 + min shape.length j.length := by omega
    rw [if_pos this]
    simp

/-! ## slices.py -/

theorem tick_ok (lo hi : Rat) (no : Nat) (t : Rat) (h : tick lo hi no = .ok t) :
    no ≠ 1 ∧ t = (hi - lo) / ((no : Rat) - 1) := by
  unfold tick at h
  split_ifs at h with h1
  cases h
  exact ⟨h1, by push_cast; rfl⟩

/-- the affine `xslice / yslice / zslice` build, entry by entry -/
theorem planeSlice_spec (w : Nat) (f alo ahi : Rat) (ano : Nat) (blo bhi : Rat) (bno : Nat)
    (world : List String) (g : ImgOf Unit)
    (h : planeSlice w f alo ahi ano blo bhi bno world = .ok g) :
    ano ≠ 1 ∧ bno ≠ 1 ∧ g.shape = [ano, bno] ∧ g.outNames = world ∧ WF g ∧
    ∀ (i j ρ : Nat), g.world [i, j] ρ =
      (if ρ = w then f else if ρ = (if w = 0 then 1 else 0) then alo
        else if ρ = (if w = 2 then 1 else 2) then blo else 0)
      + ((i : Rat) * (if ρ = (if w = 0 then 1 else 0) then (ahi - alo) / ((ano : Rat) - 1) else 0)
        + (j : Rat) * (if ρ = (if w = 2 then 1 else 2) then (bhi - blo) / ((bno : Rat) - 1) else 0)) := by
  unfold planeSlice at h
  cases ha : tick alo ahi ano with
  | error e => simp [ha] at h
  | ok ta =>
    cases hb : tick blo bhi bno with
    | error e => simp [ha, hb] at h
    | ok tb =>
      simp only [ha, hb] at h
      cases h
      obtain ⟨a1, a2⟩ := tick_ok _ _ _ _ ha
      obtain ⟨b1, b2⟩ := tick_ok _ _ _ _ hb
      refine ⟨a1, b1, rfl, rfl, ⟨rfl, rfl⟩, fun i j ρ => ?_⟩
      simp only [ImgOf.world, lin, a2, b2]
      ring

/-- corner voxels of a plane slice: `[0, 0]` at the two minima, `[ano-1, bno-1]` at the two
    maxima, the fixed coordinate constant -/
theorem planeSlice_corners (w : Nat) (hw : w < 3) (f alo ahi : Rat) (ano : Nat) (blo bhi : Rat)
    (bno : Nat) (world : List String) (g : ImgOf Unit) (ha : 2 ≤ ano) (hb : 2 ≤ bno)
    (h : planeSlice w f alo ahi ano blo bhi bno world = .ok g) :
    (∀ i j, g.world [i, j] w = f) ∧
    g.world [0, 0] (if w = 0 then 1 else 0) = alo ∧ g.world [0, 0] (if w = 2 then 1 else 2) = blo ∧
    g.world [ano - 1, bno - 1] (if w = 0 then 1 else 0) = ahi ∧
    g.world [ano - 1, bno - 1] (if w = 2 then 1 else 2) = bhi := by
  obtain ⟨_, _, _, _, _, hwd⟩ := planeSlice_spec _ _ _ _ _ _ _ _ _ _ h
  have ca : ((ano - 1 : Nat) : Rat) = (ano : Rat) - 1 := by
    rw [Nat.cast_sub (by omega)]; simp
  have cb : ((bno - 1 : Nat) : Rat) = (bno : Rat) - 1 := by
    rw [Nat.cast_sub (by omega)]; simp
  have na : (ano : Rat) - 1 ≠ 0 := by
    have : (2 : Rat) ≤ (ano : Rat) := by exact_mod_cast ha
    intro hc; linarith
  have nb : (bno : Rat) - 1 ≠ 0 := by
    have : (2 : Rat) ≤ (bno : Rat) := by exact_mod_cast hb
    intro hc; linarith
  have hw3 : w = 0 ∨ w = 1 ∨ w = 2 := by omega
  refine ⟨fun i j => ?_, ?_, ?_, ?_, ?_⟩
  · rw [hwd]; rcases hw3 with rfl | rfl | rfl <;> simp
  · rw [hwd]; rcases hw3 with rfl | rfl | rfl <;> simp
  · rw [hwd]; rcases hw3 with rfl | rfl | rfl <;> simp
  · rw [hwd, ca]; rcases hw3 with rfl | rfl | rfl <;> simp <;> field_simp <;> ring
  · rw [hwd, cb]; rcases hw3 with rfl | rfl | rfl <;> simp <;> field_simp <;> ring

theorem minL_spec : ∀ (l : List Rat), l ≠ [] → minL l ∈ l ∧ ∀ x ∈ l, minL l ≤ x
  | [], h => absurd rfl h
  | [x], _ => by simp [minL]
  | x :: y :: ys, _ => by
      obtain ⟨m1, m2⟩ := minL_spec (y :: ys) (by simp)
      simp only [minL]
      split_ifs with hc
      · refine ⟨by simp, fun z hz => ?_⟩
        rcases List.mem_cons.mp hz with rfl | hz
        · exact le_refl _
        · exact le_trans hc (m2 z hz)
      · refine ⟨List.mem_cons_of_mem _ m1, fun z hz => ?_⟩
        rcases List.mem_cons.mp hz with rfl | hz
        · exact le_of_lt (not_le.mp hc)
        · exact m2 z hz

theorem maxL_spec : ∀ (l : List Rat), l ≠ [] → maxL l ∈ l ∧ ∀ x ∈ l, x ≤ maxL l
  | [], h => absurd rfl h
  | [x], _ => by simp [maxL]
  | x :: y :: ys, _ => by
      obtain ⟨m1, m2⟩ := maxL_spec (y :: ys) (by simp)
      simp only [maxL]
      split_ifs with hc
      · refine ⟨by simp, fun z hz => ?_⟩
        rcases List.mem_cons.mp hz with rfl | hz
        · exact le_refl _
        · exact le_trans (m2 z hz) hc
      · refine ⟨List.mem_cons_of_mem _ m1, fun z hz => ?_⟩
        rcases List.mem_cons.mp hz with rfl | hz
        · exact le_of_lt (not_le.mp hc)
        · exact m2 z hz

theorem mem_allIdx : ∀ (shape j : List Nat), j ∈ allIdx shape ↔ ValidIdx shape j
  | [], j => by
      simp only [allIdx, List.mem_singleton]
      constructor
      · rintro rfl; exact validIdx_nil
      · intro h; cases h; rfl
  | n :: ns, j => by
      simp only [allIdx, List.mem_flatMap, List.mem_range, List.mem_map]
      constructor
      · rintro ⟨i, hi, t, ht, rfl⟩
        exact validIdx_cons.mpr ⟨hi, (mem_allIdx ns t).mp ht⟩
      · intro h
        cases j with
        | nil => cases h
        | cons i t =>
          obtain ⟨h1, h2⟩ := validIdx_cons.mp h
          exact ⟨i, h1, t, (mem_allIdx ns t).mpr h2, rfl⟩

theorem allIdx_ne_nil : ∀ shape : List Nat, 0 ∉ shape → allIdx shape ≠ []
  | [], _ => by simp [allIdx]
  | n :: ns, h => by
      have hn : 0 < n := by
        rcases Nat.eq_zero_or_pos n with h0 | h0
        · exact absurd (by simp [h0]) h
        · exact h0
      have ih := allIdx_ne_nil ns (fun hc => h (List.mem_cons_of_mem _ hc))
      obtain ⟨t, ht⟩ := List.exists_mem_of_ne_nil _ ih
      intro hc
      have : (0 :: t) ∈ allIdx (n :: ns) := by
        simp only [allIdx, List.mem_flatMap, List.mem_range, List.mem_map]
        exact ⟨0, hn, t, ht, rfl⟩
      rw [hc] at this
      cases this

/-- `bounding_box`: refusals, and for an accepted shape every voxel's coordinate lies between
    the two limits, both of which are coordinates of voxels -/
theorem boundingBox_spec (cols : List Vec) (off : Vec) (nout : Nat) (shape : List Nat) :
    (shape.length ≠ cols.length → boundingBox cols off nout shape = .error .valueError) ∧
    (shape.length = cols.length → 0 ∈ shape → boundingBox cols off nout shape = .error .indexError) ∧
    (shape.length = cols.length → 0 ∉ shape →
      ∃ b, boundingBox cols off nout shape = .ok b ∧ b.length = nout ∧
        ∀ ρ (hρ : ρ < b.length),
          (∀ idx, ValidIdx shape idx → (b[ρ]).1 ≤ off ρ + lin cols idx ρ ∧ off ρ + lin cols idx ρ ≤ (b[ρ]).2) ∧
          (∃ idx, ValidIdx shape idx ∧ off ρ + lin cols idx ρ = (b[ρ]).1) ∧
          (∃ idx, ValidIdx shape idx ∧ off ρ + lin cols idx ρ = (b[ρ]).2)) := by
  unfold boundingBox
  refine ⟨fun h => by simp [h], fun h1 h2 => by simp [h1, h2], fun h1 h2 => ?_⟩
  have hn1 : ¬ (shape.length ≠ cols.length) := by simp [h1]
  rw [if_neg hn1, if_neg h2]
  refine ⟨_, rfl, by simp, fun ρ hρ => ?_⟩
  have hρ' : ρ < nout := by simpa using hρ
  have hne : (allIdx shape).map (fun idx => off ρ + lin cols idx ρ) ≠ [] := by
    simpa using allIdx_ne_nil shape h2
  obtain ⟨mn1, mn2⟩ := minL_spec _ hne
  obtain ⟨mx1, mx2⟩ := maxL_spec _ hne
  simp only [List.getElem_map, List.getElem_range]
  refine ⟨fun idx hidx => ?_, ?_, ?_⟩
  · have hm : off ρ + lin cols idx ρ ∈ (allIdx shape).map (fun idx => off ρ + lin cols idx ρ) :=
      List.mem_map.mpr ⟨idx, (mem_allIdx _ _).mpr hidx, rfl⟩
    exact ⟨mn2 _ hm, mx2 _ hm⟩
  · obtain ⟨idx, hi, he⟩ := List.mem_map.mp mn1
    exact ⟨idx, (mem_allIdx _ _).mp hi, he⟩
  · obtain ⟨idx, hi, he⟩ := List.mem_map.mp mx1
    exact ⟨idx, (mem_allIdx _ _).mp hi, he⟩

/-! ## io_orientation's loop -/

theorem absR_nonneg (x : Rat) : 0 ≤ absR x := by
  unfold absR; split_ifs with h
  · linarith
  · exact not_lt.mp h

theorem absR_zero : absR 0 = 0 := by simp [absR]

theorem exists_absmax : ∀ (col : List Rat), col ≠ [] → ∃ x ∈ col, ∀ y ∈ col, absR y ≤ absR x
  | [], h => absurd rfl h
  | [x], _ => ⟨x, by simp, by simp⟩
  | x :: y :: ys, _ => by
      obtain ⟨m, hm, hmax⟩ := exists_absmax (y :: ys) (by simp)
      by_cases hc : absR m ≤ absR x
      · refine ⟨x, by simp, fun z hz => ?_⟩
        rcases List.mem_cons.mp hz with rfl | hz
        · exact le_refl _
        · exact le_trans (hmax z hz) hc
      · refine ⟨m, List.mem_cons_of_mem _ hm, fun z hz => ?_⟩
        rcases List.mem_cons.mp hz with rfl | hz
        · exact le_of_lt (not_le.mp hc)
        · exact hmax z hz

theorem argmaxAbs_spec (col : List Rat) (hne : col ≠ []) :
    ∃ h : argmaxAbs col < col.length, ∀ y ∈ col, absR y ≤ absR col[argmaxAbs col] := by
  obtain ⟨x, hx, hmax⟩ := exists_absmax col hne
  have hex : ∃ z ∈ col, (col.all (fun y => decide (absR y ≤ absR z))) = true :=
    ⟨x, hx, by simpa using hmax⟩
  have hlt : argmaxAbs col < col.length := List.findIdx_lt_length_of_exists hex
  refine ⟨hlt, fun y hy => ?_⟩
  have h2 := List.findIdx_getElem (w := hlt)
  have h3 : (col.all (fun y => decide (absR y ≤ absR col[argmaxAbs col]))) = true := h2
  exact of_decide_eq_true (List.all_eq_true.mp h3 y hy)

/-- row `o` of `R` is all zeros -/
def RowZero (R : List (List Rat)) (o : Nat) : Prop := ∀ i, (R.getD o []).getD i 0 = 0

theorem colOf_getD (R : List (List Rat)) (i o : Nat) :
    (colOf R i).getD o 0 = (R.getD o []).getD i 0 := by
  unfold colOf
  by_cases h : o < R.length
  · simp [List.getD_eq_getElem?_getD, h]
  · simp [List.getD_eq_getElem?_getD, not_lt.mp h]

theorem rowZero_set (R : List (List Rat)) (o o' : Nat) (ho : o < R.length)
    (h : o' = o ∨ RowZero R o') : RowZero (R.set o ((R.getD o []).map (fun _ => 0))) o' := by
  intro i
  by_cases he : o' = o
  · subst he
    simp [List.getD_eq_getElem?_getD, ho]
    rw [List.getElem?_replicate]
    split_ifs <;> rfl
  · rcases h with h | h
    · exact absurd h he
    · have := h i
      simp only [List.getD_eq_getElem?_getD] at this ⊢
      rw [List.getElem?_set_ne (Ne.symm he)]
      exact this

/-- the outputs chosen by the loop avoid the rows already zeroed, are rows of `R`, and are
    pairwise different -/
theorem greedyPairs_spec : ∀ (is : List Nat) (R : List (List Rat)) (Z : List Nat),
    (∀ o ∈ Z, RowZero R o) →
    (∀ p ∈ greedyPairs is R, ∀ a, p.2 = some a → a ∉ Z ∧ a < R.length) ∧
    (greedyPairs is R).Pairwise (fun p q => ∀ a, p.2 = some a → q.2 ≠ some a)
  | [], R, Z, _ => by simp [greedyPairs]
  | i :: is, R, Z, hZ => by
      simp only [greedyPairs]
      split_ifs with hc
      · obtain ⟨ih1, ih2⟩ := greedyPairs_spec is R Z hZ
        refine ⟨fun p hp a ha => ?_, ?_⟩
        · rcases List.mem_cons.mp hp with rfl | hp
          · simp at ha
          · exact ih1 p hp a ha
        · exact List.pairwise_cons.mpr ⟨fun q _ a ha => by simp at ha, ih2⟩
      · -- the column is not (close to) zero: the chosen row holds a non-zero entry
        have hne : colOf R i ≠ [] := by
          intro h0; rw [h0] at hc; exact hc (by simp [closeZero])
        obtain ⟨hlt, hmax⟩ := argmaxAbs_spec (colOf R i) hne
        set o := argmaxAbs (colOf R i) with ho
        have hoR : o < R.length := by simpa [colOf] using hlt
        have hpos : 0 < absR (colOf R i)[o] := by
          have : ∃ x ∈ colOf R i, ¬ absR x ≤ 1 / 100000000 := by
            by_contra hcon
            push Not at hcon
            exact hc (by simpa [closeZero] using hcon)
          obtain ⟨x, hx, hxb⟩ := this
          have h1 := hmax x hx
          have : (0 : Rat) < 1 / 100000000 := by norm_num
          linarith [not_le.mp hxb]
        have hoZ : o ∉ Z := by
          intro hmem
          have hz := hZ o hmem i
          rw [← colOf_getD, getD_lt _ _ _ hlt] at hz
          rw [hz, absR_zero] at hpos
          exact lt_irrefl _ hpos
        have hZ' : ∀ o' ∈ o :: Z, RowZero (R.set o ((R.getD o []).map (fun _ => 0))) o' := by
          intro o' ho'
          rcases List.mem_cons.mp ho' with h | h
          · exact rowZero_set R o o' hoR (Or.inl h)
          · exact rowZero_set R o o' hoR (Or.inr (hZ o' h))
        obtain ⟨ih1, ih2⟩ := greedyPairs_spec is _ (o :: Z) hZ'
        refine ⟨fun p hp a ha => ?_, ?_⟩
        · rcases List.mem_cons.mp hp with rfl | hp
          · simp only [Option.some.injEq] at ha
            subst ha
            exact ⟨hoZ, hoR⟩
          · obtain ⟨m1, m2⟩ := ih1 p hp a ha
            exact ⟨fun hm => m1 (List.mem_cons_of_mem _ hm), by simpa using m2⟩
        · refine List.pairwise_cons.mpr ⟨fun q hq a ha hqa => ?_, ih2⟩
          simp only [Option.some.injEq] at ha
          subst ha
          exact (ih1 q hq _ hqa).1 (by simp)

theorem mem_of_lookup {γ : Type} (k : Nat) (v : γ) : ∀ (l : List (Nat × γ)), l.lookup k = some v → (k, v) ∈ l
  | [], h => by simp at h
  | (k', v') :: l, h => by
      simp only [List.lookup_cons] at h
      by_cases hk : k = k'
      · subst hk; simp at h; subst h; simp
      · have : (k == k') = false := by simpa using hk
        rw [this] at h
        exact List.mem_cons_of_mem _ (mem_of_lookup k v l h)

theorem pairwise_mem {γ : Type} {R : γ → γ → Prop} (hsym : ∀ p q, R p q → R q p) :
    ∀ {l : List γ}, l.Pairwise R → ∀ {p q : γ}, p ∈ l → q ∈ l → p ≠ q → R p q
  | [], _, _, _, hp, _, _ => by cases hp
  | x :: l, hpw, p, q, hp, hq, hne => by
      obtain ⟨h1, h2⟩ := List.pairwise_cons.mp hpw
      rcases List.mem_cons.mp hp with rfl | hp'
      · rcases List.mem_cons.mp hq with rfl | hq'
        · exact absurd rfl hne
        · exact h1 q hq'
      · rcases List.mem_cons.mp hq with rfl | hq'
        · exact hsym _ _ (h1 p hp')
        · exact pairwise_mem hsym h2 hp' hq' hne

/-- `io_orientation` never pairs one output axis with two input axes -/
theorem ioOrientFrom_injective (R : List (List Rat)) (keys : List Rat) (i j a : Nat) (hij : i ≠ j)
    (hi : (ioOrientFrom R keys).getD i none = some a) :
    (ioOrientFrom R keys).getD j none ≠ some a := by
  intro hj
  unfold ioOrientFrom at hi hj
  simp only at hi hj
  have key : ∀ m, ((List.range keys.length).map
      (fun i => ((greedyPairs (argsortQ keys) R).lookup i).getD none)).getD m none = some a →
      (m, some a) ∈ greedyPairs (argsortQ keys) R := by
    intro m hm
    by_cases hlt : m < keys.length
    · simp only [List.getD_eq_getElem?_getD] at hm
      rw [List.getElem?_map, List.getElem?_range hlt] at hm
      simp only [Option.map_some, Option.getD_some] at hm
      cases hl : (greedyPairs (argsortQ keys) R).lookup m with
      | none => simp [hl] at hm
      | some v =>
        simp only [hl, Option.getD_some] at hm
        subst hm
        exact mem_of_lookup m _ _ hl
    · simp [List.getD_eq_getElem?_getD, not_lt.mp hlt] at hm
  have m1 := key i hi
  have m2 := key j hj
  obtain ⟨_, hpw⟩ := greedyPairs_spec (argsortQ keys) R [] (by simp)
  have hsym : ∀ (p q : Nat × Option Nat), (∀ a, p.2 = some a → q.2 ≠ some a) →
      (∀ a, q.2 = some a → p.2 ≠ some a) := by
    intro p q h a hq hp
    exact h a hp hq
  have hne : ((i, some a) : Nat × Option Nat) ≠ (j, some a) := by
    intro he; exact hij (by simpa using he)
  exact pairwise_mem hsym hpw m1 m2 hne a rfl rfl

theorem insertKey_perm (x : Nat × Nat) : ∀ l : List (Nat × Nat), (insertKey x l).Perm (x :: l)
  | [] => by simp [insertKey]
  | y :: ys => by
      simp only [insertKey]
      split_ifs
      · exact List.Perm.refl _
      · exact ((insertKey_perm x ys).cons y).trans (List.Perm.swap x y ys)

theorem foldl_insertKey_perm : ∀ (l acc : List (Nat × Nat)),
    (l.foldl (fun acc x => insertKey x acc) acc).Perm (l ++ acc)
  | [], acc => by simp
  | x :: l, acc => by
      simp only [List.foldl_cons]
      refine (foldl_insertKey_perm l (insertKey x acc)).trans ?_
      refine ((insertKey_perm x acc).append_left l).trans ?_
      simpa using (List.perm_middle (l₁ := l) (l₂ := acc) (a := x))

/-- `np.argsort` gives a permutation: the order `as_xyz_image` passes to `reordered_axes` is
    always accepted -/
theorem argsort_isPerm (keys : List Nat) : isPerm keys.length (argsort keys) = true := by
  have hp : (argsort keys).Perm (List.range keys.length) := by
    unfold argsort
    have := (foldl_insertKey_perm keys.zipIdx []).map (·.2)
    simpa [List.range_eq_range'] using this
  rw [isPerm_iff]
  refine ⟨by simpa using hp.length_eq, hp.nodup_iff.mpr List.nodup_range, fun k hk => ?_⟩
  exact List.mem_range.mp (hp.mem_iff.mp hk)

/-- `axmap(..., 'out2in')` inverts an injective orientation -/
theorem out2in_spec (ornts : List (Option Nat)) (i k : Nat) (h : out2in ornts i = some k) :
    k < ornts.length ∧ ornts.getD k none = some i := by
  unfold out2in at h
  split_ifs at h with hm
  cases h
  have hlt := List.idxOf_lt_length_of_mem hm
  exact ⟨hlt, by rw [getD_lt _ _ _ hlt]; exact List.getElem_idxOf hlt⟩

/-! ## list assignment, make_xyz_image -/

theorem listSetitem_spec (items l : List (ImgOf α)) (i : Int) (v : ImgOf α)
    (h : listSetitem items i v = .ok l) :
    ∃ k, k < items.length ∧ ((0 ≤ i ∧ (k : Int) = i) ∨ (i < 0 ∧ (k : Int) = i + items.length)) ∧
      l = items.set k v := by
  simp only [listSetitem, normAxis] at h
  split_ifs at h with h1 h2
  · simp only [Except.ok.injEq] at h
    exact ⟨i.toNat, by omega, Or.inl ⟨h1.1, by omega⟩, h.symm⟩
  · simp only [Except.ok.injEq] at h
    exact ⟨(i + items.length).toNat, by omega, Or.inr ⟨h2.2, by omega⟩, h.symm⟩

/-- columns of `make_xyz_image`'s affine: sum over the first `m` axes from `k` on -/
theorem lin_mkxyz (xyz : List (List Rat)) (z : List Rat) (ρ : Nat) : ∀ (m k : Nat) (j : List Nat),
    lin ((List.range' k m).map (fun k => fun r =>
        if k < 3 then (if r < 3 then (xyz.getD r []).getD k 0 else 0)
        else (if r = k then z.getD (k - 3) 0 else 0))) j ρ
      = ((List.range' k (min m j.length)).map (fun k' => ((j.getD (k' - k) 0 : Nat) : Rat) *
          (if k' < 3 then (if ρ < 3 then (xyz.getD ρ []).getD k' 0 else 0)
           else (if ρ = k' then z.getD (k' - 3) 0 else 0)))).sum
  | 0, k, j => by simp [lin]
  | m + 1, k, [] => by simp [List.range'_succ, lin]
  | m + 1, k, i :: j => by
      have ih := lin_mkxyz xyz z ρ m (k + 1) j
      have hmin : min (m + 1) (i :: j).length = min m j.length + 1 := by
        simp only [List.length_cons]; omega
      rw [hmin]
      simp only [List.range'_succ, List.map_cons, lin, List.sum_cons, ih, Nat.sub_self, List.getD_cons_zero]
      congr 1
      congr 1
      apply List.map_congr_left
      intro k' hk'
      have : k + 1 ≤ k' := (List.mem_range'_1.mp hk').1
      have e : k' - k = (k' - (k + 1)) + 1 := by omega
      rw [e, List.getD_cons_succ]

theorem sum_indicator (ρ : Nat) (F : Nat → Rat) : ∀ (n a : Nat),
    ((List.range' a n).map (fun k' => if ρ = k' then F k' else 0)).sum
      = if a ≤ ρ ∧ ρ < a + n then F ρ else 0
  | 0, a => by
      have : ¬ (a ≤ ρ ∧ ρ < a + 0) := by omega
      simp [this]
  | n + 1, a => by
      simp only [List.range'_succ, List.map_cons, List.sum_cons, sum_indicator ρ F n (a + 1)]
      by_cases h1 : ρ = a
      · subst h1
        have h2 : ¬ (ρ + 1 ≤ ρ ∧ ρ < ρ + 1 + n) := by omega
        have h3 : ρ ≤ ρ ∧ ρ < ρ + (n + 1) := by omega
        rw [if_pos rfl, if_neg h2, if_pos h3]; ring
      · by_cases h2 : a + 1 ≤ ρ ∧ ρ < a + 1 + n
        · have h3 : a ≤ ρ ∧ ρ < a + (n + 1) := by omega
          rw [if_neg h1, if_pos h2, if_pos h3]; ring
        · have h3 : ¬ (a ≤ ρ ∧ ρ < a + (n + 1)) := by omega
          rw [if_neg h1, if_neg h2, if_neg h3]; ring

/-- the coordinate map `make_xyz_image` builds, given the zooms `z` of the further axes -/
def xyzImg (shape : List Nat) (data : List Nat → α) (xyz : List (List Rat)) (z : List Rat)
    (world : List String) : ImgOf α :=
  { shape := shape, inNames := voxelNames.take shape.length, outNames := world
    cols := (List.range shape.length).map (fun k => fun r =>
      if k < 3 then (if r < 3 then (xyz.getD r []).getD k 0 else 0)
      else (if r = k then z.getD (k - 3) 0 else 0))
    off := fun r => if r < 3 then (xyz.getD r []).getD 3 0 else 0
    data := data }

theorem xyzImg_world (shape : List Nat) (data : List Nat → α) (xyz : List (List Rat)) (z : List Rat)
    (world : List String) (hN : 3 ≤ shape.length) (j : List Nat) (hj : ValidIdx shape j) :
    (∀ ρ, ρ < 3 → (xyzImg shape data xyz z world).world j ρ = (xyz.getD ρ []).getD 3 0
      + ((j.getD 0 0 : Nat) : Rat) * (xyz.getD ρ []).getD 0 0
      + ((j.getD 1 0 : Nat) : Rat) * (xyz.getD ρ []).getD 1 0
      + ((j.getD 2 0 : Nat) : Rat) * (xyz.getD ρ []).getD 2 0) ∧
    (∀ ρ, 3 ≤ ρ → ρ < shape.length →
      (xyzImg shape data xyz z world).world j ρ = ((j.getD ρ 0 : Nat) : Rat) * z.getD (ρ - 3) 0) := by
  have hjl : j.length = shape.length := ((validIdx_iff _ _).mp hj).1
  have hsum := fun ρ => lin_mkxyz xyz z ρ shape.length 0 j
  simp only [hjl, Nat.min_self, Nat.sub_zero] at hsum
  have hsplit : List.range' 0 shape.length = 0 :: 1 :: 2 :: List.range' 3 (shape.length - 3) := by
    have : shape.length = (shape.length - 3) + 1 + 1 + 1 := by omega
    conv_lhs => rw [this]
    simp [List.range'_succ]
  constructor
  · intro ρ hρ
    simp only [xyzImg, ImgOf.world, List.range_eq_range']
    rw [hsum ρ, hsplit]
    simp only [List.map_cons, List.sum_cons, hρ, if_true]
    have hz0 : ((List.range' 3 (shape.length - 3)).map (fun k' => ((j.getD k' 0 : Nat) : Rat) *
        (if k' < 3 then (xyz.getD ρ []).getD k' 0 else (if ρ = k' then z.getD (k' - 3) 0 else 0)))).sum = 0 := by
      apply List.sum_eq_zero
      intro x hx
      obtain ⟨k', hk', rfl⟩ := List.mem_map.mp hx
      have hk3 : 3 ≤ k' := (List.mem_range'_1.mp hk').1
      have e1 : ¬ k' < 3 := by omega
      have e2 : ¬ ρ = k' := by omega
      simp [e1, e2]
    rw [hz0]
    norm_num
    ring
  · intro ρ h3 hρ
    have e0 : ¬ ρ < 3 := by omega
    simp only [xyzImg, ImgOf.world, List.range_eq_range']
    rw [hsum ρ, hsplit]
    simp only [List.map_cons, List.sum_cons, e0, if_false]
    have hz1 : ((List.range' 3 (shape.length - 3)).map (fun k' => ((j.getD k' 0 : Nat) : Rat) *
        (if k' < 3 then (0 : Rat) else (if ρ = k' then z.getD (k' - 3) 0 else 0)))).sum
        = ((List.range' 3 (shape.length - 3)).map (fun k' => if ρ = k' then
            ((j.getD k' 0 : Nat) : Rat) * z.getD (k' - 3) 0 else 0)).sum := by
      congr 1
      apply List.map_congr_left
      intro k' hk'
      have hk3 : 3 ≤ k' := (List.mem_range'_1.mp hk').1
      have e1 : ¬ k' < 3 := by omega
      by_cases e2 : ρ = k' <;> simp [e1, e2]
    rw [hz1, sum_indicator ρ (fun k' => ((j.getD k' 0 : Nat) : Rat) * z.getD (k' - 3) 0)]
    have hin : 3 ≤ ρ ∧ ρ < 3 + (shape.length - 3) := by omega
    rw [if_pos hin]
    norm_num

/-- `make_xyz_image` is refused unless the array has at least three axes and one zoom per
    further axis; what it returns is `xyzImg` with the given zooms (all 1 when none are given) -/
theorem makeXyz_spec (shape : List Nat) (data : List Nat → α) (xyz : List (List Rat))
    (zooms : Option (List Rat)) (world : List String) (g : ImgOf α)
    (h : makeXyz shape data xyz zooms world = .ok g) :
    3 ≤ shape.length ∧ WF g ∧
    ∃ z : List Rat, z.length = shape.length - 3 ∧ (zooms = some z ∨ (zooms = none ∧ ∀ x ∈ z, x = 1)) ∧
      g = xyzImg shape data xyz z world := by
  unfold makeXyz at h
  simp only at h
  by_cases h1 : shape.length < 3
  · rw [if_pos h1] at h; cases h
  rw [if_neg h1] at h
  have hN : 3 ≤ shape.length := by omega
  have key : ∀ z : List Rat,
      (if xyz.length ≠ 3 ∨ (xyz.any (fun r => decide (r.length ≠ 4)) = true) ∨ world.length ≠ shape.length
          ∨ voxelNames.length < shape.length then (Except.error Err.valueError : Except Err (ImgOf α))
        else .ok (xyzImg shape data xyz z world)) = .ok g →
      WF g ∧ g = xyzImg shape data xyz z world := by
    intro z hg
    split_ifs at hg with h2
    cases hg
    have hv : shape.length ≤ voxelNames.length := by
      by_contra hc; exact h2 (by simp [not_le.mp hc])
    exact ⟨⟨by simp [xyzImg, List.length_take, hv], by simp [xyzImg]⟩, rfl⟩
  cases zooms with
  | none =>
    simp only at h
    obtain ⟨w, e⟩ := key _ h
    exact ⟨hN, w, _, by simp, Or.inr ⟨rfl, fun x hx => (List.mem_replicate.mp hx).2⟩, e⟩
  | some z =>
    simp only at h
    by_cases hz : z.length = shape.length - 3
    · rw [if_pos hz] at h
      obtain ⟨w, e⟩ := key _ h
      exact ⟨hN, w, z, hz, Or.inl rfl, e⟩
    · rw [if_neg hz] at h; cases h

end NipyVerif.C02
