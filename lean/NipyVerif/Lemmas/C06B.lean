/- Helper lemmas for the C06 extension: comparison of `num/√den2` terms, the checked inverse,
   counting in sorted lists (Benjamini–Hochberg through the sort permutation), running maxima. -/
import NipyVerif.Model.C06B
import NipyVerif.Lemmas.C06
import Mathlib.Tactic.Positivity
import Mathlib.Tactic.NormNum
import Mathlib.Data.List.Perm.Basic

namespace NipyVerif.C06
open Matrix

/-! ### `a/√c ≤ b/√d` -/

/-- `rootLe` decides the order of the two quotients for any positive square roots -/
theorem rootLe_sound (a c b d s s' : Rat) (hs : 0 < s) (hs' : 0 < s') (hc : s * s = c) (hd : s' * s' = d) :
    rootLe a c b d = true ↔ a / s ≤ b / s' := by
  rw [div_le_div_iff₀ hs hs']
  subst hc hd
  unfold rootLe
  by_cases h1 : 0 ≤ a ∧ 0 ≤ b
  · obtain ⟨ha, hb⟩ := h1
    simp only [ha, hb, and_self, if_true, decide_eq_true_eq]
    have h1 : 0 ≤ a * s' := mul_nonneg ha hs'.le
    have h2 : 0 ≤ b * s := mul_nonneg hb hs.le
    constructor
    · intro h
      by_contra hlt
      have hlt := lt_of_not_ge hlt
      nlinarith [mul_self_lt_mul_self h2 hlt]
    · intro h
      nlinarith [mul_self_le_mul_self h1 h]
  · rw [if_neg h1]
    by_cases h2 : a ≤ 0 ∧ b ≤ 0
    · obtain ⟨ha, hb⟩ := h2
      simp only [ha, hb, and_self, if_true, decide_eq_true_eq]
      have h1 : 0 ≤ -(a * s') := by nlinarith [mul_nonneg (neg_nonneg.mpr ha) hs'.le]
      have h2 : 0 ≤ -(b * s) := by nlinarith [mul_nonneg (neg_nonneg.mpr hb) hs.le]
      constructor
      · intro h
        by_contra hlt
        have hlt := lt_of_not_ge hlt
        have : -(a * s') < -(b * s) := by linarith
        nlinarith [mul_self_lt_mul_self h1 this]
      · intro h
        have : -(b * s) ≤ -(a * s') := by linarith
        nlinarith [mul_self_le_mul_self h2 this]
    · rw [if_neg h2]
      simp only [decide_eq_true_eq]
      constructor
      · intro ha
        have hb : 0 < b := by
          by_contra hb
          exact h2 ⟨ha, le_of_not_gt hb⟩
        nlinarith [mul_nonneg (neg_nonneg.mpr ha) hs'.le, mul_pos hb hs]
      · intro h
        by_contra ha
        have ha := lt_of_not_ge ha
        have hb : b < 0 := by
          by_contra hb
          exact h1 ⟨ha.le, le_of_not_gt hb⟩
        nlinarith [mul_pos ha hs', mul_pos (neg_pos.mpr hb) hs]

/-- value of a term under a square-root assignment `r` -/
def rootVal (r : Rat → Rat) (x : Rat × Rat) : Rat := x.1 / r x.2

/-- `r` gives a positive square root of every denominator in the list -/
def IsRootOn (r : Rat → Rat) (l : List (Rat × Rat)) : Prop :=
  ∀ x ∈ l, 0 < r x.2 ∧ r x.2 * r x.2 = x.2

theorem rootMin_val (r : Rat → Rat) (x y : Rat × Rat)
    (hx : 0 < r x.2 ∧ r x.2 * r x.2 = x.2) (hy : 0 < r y.2 ∧ r y.2 * r y.2 = y.2) :
    (rootMin x y = x ∨ rootMin x y = y) ∧ rootVal r (rootMin x y) = min (rootVal r x) (rootVal r y) := by
  unfold rootMin rootVal
  have := rootLe_sound x.1 x.2 y.1 y.2 (r x.2) (r y.2) hx.1 hy.1 hx.2 hy.2
  by_cases h : rootLe x.1 x.2 y.1 y.2 = true
  · rw [if_pos h]; exact ⟨Or.inl rfl, (min_eq_left (this.mp h)).symm⟩
  · rw [if_neg h]
    have : ¬ x.1 / r x.2 ≤ y.1 / r y.2 := fun hh => h (this.mpr hh)
    exact ⟨Or.inr rfl, (min_eq_right (le_of_not_ge this)).symm⟩

theorem foldl_rootMin (r : Rat → Rat) (xs : List (Rat × Rat)) : ∀ x : Rat × Rat,
    IsRootOn r (x :: xs) →
    (xs.foldl rootMin x ∈ x :: xs) ∧
    (∀ y ∈ x :: xs, rootVal r (xs.foldl rootMin x) ≤ rootVal r y) := by
  induction xs with
  | nil => intro x _; simp
  | cons z zs ih =>
      intro x h
      have hx := h x (by simp)
      have hz := h z (by simp)
      obtain ⟨hmem, hval⟩ := rootMin_val r x z hx hz
      have hroot : IsRootOn r (rootMin x z :: zs) := by
        intro w hw
        rcases List.mem_cons.mp hw with hw | hw
        · rcases hmem with e | e <;> rw [hw, e] <;> assumption
        · exact h w (by simp [hw])
      obtain ⟨i1, i2⟩ := ih (rootMin x z) hroot
      simp only [List.foldl_cons]
      refine ⟨?_, ?_⟩
      · rcases List.mem_cons.mp i1 with e | e
        · rw [e]; rcases hmem with e' | e' <;> rw [e'] <;> simp
        · simp [e]
      · intro y hy
        have h0 := i2 (rootMin x z) (by simp)
        rw [hval] at h0
        rcases List.mem_cons.mp hy with e | e
        · rw [e]; exact le_trans h0 (min_le_left _ _)
        · rcases List.mem_cons.mp e with e | e
          · rw [e]; exact le_trans h0 (min_le_right _ _)
          · exact i2 y (by simp [e])

/-- `tminPick` returns a member of the list whose value is the smallest -/
theorem tminPick_min (r : Rat → Rat) (l : List (Rat × Rat)) (h : IsRootOn r l) (m : Rat × Rat)
    (hm : tminPick l = some m) : m ∈ l ∧ ∀ y ∈ l, rootVal r m ≤ rootVal r y := by
  cases l with
  | nil => simp [tminPick] at hm
  | cons x xs =>
      simp only [tminPick, Option.some.injEq] at hm
      rw [← hm]
      exact foldl_rootMin r xs x h

/-! ### the checked inverse -/

theorem invMat_sound {n : Nat} (V W : Mat n n) (h : invMat V = some W) : mmul W V = one n := by
  unfold invMat at h
  cases hl : invLists n (matToLists V) with
  | none => rw [hl] at h; simp at h
  | some l =>
      rw [hl] at h
      simp only at h
      by_cases hc : isLeftInv (matOfLists n n l) V = true
      · rw [if_pos hc] at h
        have hW : matOfLists n n l = W := by simpa using h
        rw [← hW]
        unfold isLeftInv at hc
        funext i j
        have h1 := (List.all_eq_true.mp hc) i (List.mem_finRange i)
        have h2 := (List.all_eq_true.mp h1) j (List.mem_finRange j)
        simpa using h2
      · rw [if_neg hc] at h; simp at h

/-- a left inverse of a square matrix is unique -/
theorem left_inv_unique {n : Nat} (A W V : Matrix (Fin n) (Fin n) ℚ) (hA : A * V = 1) (hW : W * V = 1) :
    A = W := by
  have hVW : V * W = 1 := mul_eq_one_comm.mp hW
  calc A = A * (V * W) := by rw [hVW, Matrix.mul_one]
    _ = (A * V) * W := (Matrix.mul_assoc _ _ _).symm
    _ = W := by rw [hA, Matrix.one_mul]

/-! ### counting in ascending lists -/

theorem getD_eq (l : List Rat) (k : Nat) (hk : k < l.length) : l.getD k 0 = l[k] := by
  simp [hk]

/-- how many entries are `≤ y` -/
def cntLe (p : List Rat) (y : Rat) : Nat := p.countP (fun x => decide (x ≤ y))

/-- the Benjamini–Hochberg term of the value `y`: `min(1, n·y / #{k : p_k ≤ y})` -/
def bhTerm (p : List Rat) (y : Rat) : Rat := min 1 ((p.length : Rat) * y / (cntLe p y : Rat))

theorem cntLe_le_length (p : List Rat) (y : Rat) : cntLe p y ≤ p.length := List.countP_le_length

/-- in an ascending list the entries `≤ y` are exactly the first `cntLe` ones -/
theorem sorted_le_iff_lt_cnt (y : Rat) (sp : List Rat) (hs : sp.Pairwise (· ≤ ·)) :
    ∀ k, k < sp.length → (sp.getD k 0 ≤ y ↔ k < cntLe sp y) := by
  induction sp with
  | nil => intro k hk; simp at hk
  | cons x xs ih =>
      intro k hk
      obtain ⟨hx, hxs⟩ := List.pairwise_cons.mp hs
      by_cases hxy : x ≤ y
      · have hc : cntLe (x :: xs) y = cntLe xs y + 1 := by
          simp [cntLe, hxy]
        rw [hc]
        cases k with
        | zero => simp [hxy]
        | succ k =>
            have := ih hxs k (by simpa using hk)
            simp only [List.getD_cons_succ]
            rw [this]; omega
      · have hall : ∀ z ∈ xs, ¬ z ≤ y := fun z hz hzy => hxy (le_trans (hx z hz) hzy)
        have hc : cntLe (x :: xs) y = 0 := by
          unfold cntLe
          rw [List.countP_eq_zero]
          intro z hz
          rcases List.mem_cons.mp hz with e | e
          · simpa [e] using hxy
          · simpa using hall z e
        rw [hc]
        cases k with
        | zero => simp [hxy]
        | succ k =>
            have hk' : k < xs.length := by simpa using hk
            have hmem : xs.getD k 0 ∈ xs := by
              rw [getD_eq xs k hk']; exact List.getElem_mem hk'
            simp only [List.getD_cons_succ]
            constructor
            · intro h; exact absurd h (hall _ hmem)
            · intro h; omega

theorem getD_mem_of_lt (l : List Rat) (k : Nat) (hk : k < l.length) : l.getD k 0 ∈ l := by
  rw [getD_eq l k hk]; exact List.getElem_mem hk

/-- the step-up value on an ascending non-negative list, stated without positions:
    `q₍ₖ₎` is the least `bhTerm` among the values `≥ sp₍ₖ₎` -/
theorem bhSorted_stepup (sp : List Rat) (hpos : ∀ x ∈ sp, 0 ≤ x) (hs : sp.Pairwise (· ≤ ·))
    (k : Nat) (hk : k < sp.length) :
    (∀ y, sp.getD k 0 ≤ y → (bhSorted sp).getD k 0 ≤ bhTerm sp y) ∧
    (∃ y ∈ sp, sp.getD k 0 ≤ y ∧ (bhSorted sp).getD k 0 = bhTerm sp y) := by
  have hraw : ∀ j, j < sp.length → (bhRaw sp.length 0 sp).getD j 0
      = min 1 ((sp.length : Rat) * sp.getD j 0 / ((j : Rat) + 1)) := by
    intro j hj
    have := bhRaw_getD (sp.length : Rat) sp 0 j hj
    rwa [Nat.zero_add] at this
  have hlen := bhRaw_length (sp.length : Rat) sp 0
  have hn0 : (0 : Rat) ≤ (sp.length : Rat) := by positivity
  have first : ∀ y, sp.getD k 0 ≤ y → (bhSorted sp).getD k 0 ≤ bhTerm sp y := by
    intro y hy
    have hkc : k < cntLe sp y := (sorted_le_iff_lt_cnt y sp hs k hk).mp hy
    have hcn : cntLe sp y ≤ sp.length := cntLe_le_length sp y
    set c := cntLe sp y with hc
    have hL : c - 1 < sp.length := by omega
    have hLy : sp.getD (c - 1) 0 ≤ y := (sorted_le_iff_lt_cnt y sp hs (c - 1) hL).mpr (by omega)
    have h1 := runMin_le (bhRaw sp.length 0 sp) k (c - 1) (by omega) (by rw [hlen]; exact hL)
    unfold bhSorted
    refine le_trans h1 ?_
    rw [hraw _ hL]
    unfold bhTerm
    rw [← hc]
    have hcast : (((c - 1 : Nat) : Rat) + 1) = (c : Rat) := by
      have : c - 1 + 1 = c := by omega
      exact_mod_cast this
    rw [hcast]
    have hcpos : (0 : Rat) < (c : Rat) := by exact_mod_cast (by omega : 0 < c)
    apply min_le_min le_rfl
    apply div_le_div_of_nonneg_right _ hcpos.le
    exact mul_le_mul_of_nonneg_left hLy hn0
  refine ⟨first, ?_⟩
  obtain ⟨l, hkl, hl, he⟩ := runMin_attained (bhRaw sp.length 0 sp) k (by rw [hlen]; exact hk)
  rw [hlen] at hl
  refine ⟨sp.getD l 0, getD_mem_of_lt sp l hl, ?_, ?_⟩
  · have hlc : l < cntLe sp (sp.getD l 0) := (sorted_le_iff_lt_cnt _ sp hs l hl).mp le_rfl
    exact (sorted_le_iff_lt_cnt _ sp hs k hk).mpr (by omega)
  · have hlc : l < cntLe sp (sp.getD l 0) := (sorted_le_iff_lt_cnt _ sp hs l hl).mp le_rfl
    have hky : sp.getD k 0 ≤ sp.getD l 0 := (sorted_le_iff_lt_cnt _ sp hs k hk).mpr (by omega)
    apply le_antisymm (first _ hky)
    have : (bhSorted sp).getD k 0 = min 1 ((sp.length : Rat) * sp.getD l 0 / ((l : Rat) + 1)) := by
      unfold bhSorted; rw [he, hraw l hl]
    rw [this]
    unfold bhTerm
    apply min_le_min le_rfl
    have hy0 : 0 ≤ sp.getD l 0 := hpos _ (getD_mem_of_lt sp l hl)
    have hlpos : (0 : Rat) < (l : Rat) + 1 := by positivity
    apply div_le_div_of_nonneg_left (mul_nonneg hn0 hy0) hlpos
    exact_mod_cast hlc

/-! ### the sort permutation -/

theorem map_getD_range (p : List Rat) : (List.range p.length).map (fun i => p.getD i 0) = p := by
  apply List.ext_getElem
  · simp
  · intro i h1 h2
    simp [h2]

theorem argsort_perm (p : List Rat) : (argsort p).Perm (List.range p.length) := by
  unfold argsort; exact List.mergeSort_perm _ _

theorem argsort_sorted_map (p : List Rat) : ((argsort p).map (fun i => p.getD i 0)).Pairwise (· ≤ ·) := by
  unfold argsort
  rw [List.pairwise_map]
  have := List.pairwise_mergeSort (le := fun i j => decide (p.getD i 0 ≤ p.getD j 0))
    (fun a b c hab hbc => by
      simp only [decide_eq_true_eq] at hab hbc ⊢; exact le_trans hab hbc)
    (fun a b => by
      simp only [Bool.or_eq_true, decide_eq_true_eq]; exact le_total _ _)
    (List.range p.length)
  exact this.imp (fun h => by simpa using h)

theorem argsort_map_perm (p : List Rat) : ((argsort p).map (fun i => p.getD i 0)).Perm p := by
  have := (argsort_perm p).map (fun i => p.getD i 0)
  rwa [map_getD_range] at this

/-! ### running maximum from the right -/

theorem runMax_length (l : List Rat) : (runMax l).length = l.length := by
  induction l with
  | nil => rfl
  | cons x xs ih =>
      cases xs with
      | nil => simp [runMax]
      | cons y ys =>
          unfold runMax
          split
          · next h => rw [h] at ih; simp at ih
          · next z zs h => rw [h] at ih; simp at ih ⊢; omega

theorem runMax_cons_cons (x y : Rat) (ys : List Rat) :
    runMax (x :: y :: ys) = max ((runMax (y :: ys)).getD 0 0) x :: runMax (y :: ys) := by
  have hl := runMax_length (y :: ys)
  conv_lhs => unfold runMax
  split
  · next h => rw [h] at hl; simp at hl
  · next z zs h => rw [h]; simp

/-- every later raw value is below the running maximum -/
theorem le_runMax (l : List Rat) : ∀ i j, i ≤ j → j < l.length →
    l.getD j 0 ≤ (runMax l).getD i 0 := by
  induction l with
  | nil => intro i j _ h; simp at h
  | cons x xs ih =>
      cases xs with
      | nil =>
          intro i j hij hj
          have : j = 0 := by simpa using hj
          subst this
          have : i = 0 := by omega
          subst this
          simp [runMax]
      | cons y ys =>
          intro i j hij hj
          rw [runMax_cons_cons]
          cases i with
          | zero =>
              cases j with
              | zero => simp
              | succ j =>
                  have h := ih 0 j (Nat.zero_le _) (by simpa using hj)
                  simp only [List.getD_cons_zero, List.getD_cons_succ]
                  exact le_trans h (le_max_left _ _)
          | succ i =>
              cases j with
              | zero => omega
              | succ j => simpa using ih i j (by omega) (by simpa using hj)

/-- the running maximum is one of the later raw values -/
theorem runMax_attained (l : List Rat) : ∀ i, i < l.length →
    ∃ j, i ≤ j ∧ j < l.length ∧ (runMax l).getD i 0 = l.getD j 0 := by
  induction l with
  | nil => intro i h; simp at h
  | cons x xs ih =>
      cases xs with
      | nil =>
          intro i hi
          have : i = 0 := by simpa using hi
          subst this
          exact ⟨0, le_rfl, by simp, by simp [runMax]⟩
      | cons y ys =>
          intro i hi
          rw [runMax_cons_cons]
          cases i with
          | zero =>
              obtain ⟨j, _, hj, he⟩ := ih 0 (by simp)
              rcases le_total x ((runMax (y :: ys)).getD 0 0) with h | h
              · exact ⟨j + 1, Nat.zero_le _, by simpa using hj, by
                  simp only [List.getD_cons_zero, List.getD_cons_succ, max_eq_left h]; exact he⟩
              · exact ⟨0, le_rfl, by simp, by
                  simp only [List.getD_cons_zero]; exact max_eq_right h⟩
          | succ i =>
              obtain ⟨j, hij, hj, he⟩ := ih i (by simpa using hi)
              exact ⟨j + 1, by omega, by simpa using hj, by simpa using he⟩

theorem efpRaw_length (p0 n : Rat) (l : List Rat) : ∀ k, (efpRaw p0 n k l).length = l.length := by
  induction l with
  | nil => intro k; rfl
  | cons x xs ih => intro k; simp [efpRaw, ih]

theorem efpRaw_getD (p0 n : Rat) (l : List Rat) : ∀ k j, j < l.length →
    (efpRaw p0 n k l).getD j 0 = min (p0 * l.getD j 0 * n / (n - ((k + j : Nat) : Rat))) 1 := by
  induction l with
  | nil => intro k j h; simp at h
  | cons x xs ih =>
      intro k j hj
      cases j with
      | zero => simp [efpRaw]
      | succ j =>
          have := ih (k + 1) j (by simpa using hj)
          simp only [efpRaw, List.getD_cons_succ, this]
          congr 4
          omega

/-! ### clipping of the labs helper -/

theorem p2Lo_le_p2Hi : p2Lo ≤ p2Hi := by decide +kernel
theorem p2Lo_pos : 0 < p2Lo := by decide +kernel
theorem p2Hi_lt_one : p2Hi < 1 := by decide +kernel

theorem clipP2_mem (p : Rat) : p2Lo ≤ clipP2 p ∧ clipP2 p ≤ p2Hi := by
  unfold clipP2
  exact ⟨le_min (le_max_right _ _) p2Lo_le_p2Hi, min_le_right _ _⟩

theorem clipP2_mono {p r : Rat} (h : p ≤ r) : clipP2 p ≤ clipP2 r := by
  unfold clipP2
  exact min_le_min (max_le_max h le_rfl) le_rfl

/-! ### the critical set of `fdr_threshold` -/

theorem mem_critical (pc : Rat) (l : List Rat) : ∀ (i : Nat) (x : Rat),
    x ∈ critical pc i l ↔ ∃ j, j < l.length ∧ l.getD j 0 = x ∧ x < pc * (((i + j : Nat) : Rat) + 1) := by
  induction l with
  | nil => intro i x; simp [critical]
  | cons y ys ih =>
      intro i x
      unfold critical
      by_cases h : y < pc * ((i : Rat) + 1)
      · rw [if_pos h, List.mem_cons, ih]
        constructor
        · rintro (rfl | ⟨j, hj, hx, hlt⟩)
          · exact ⟨0, by simp, by simp, by simpa using h⟩
          · refine ⟨j + 1, by simpa using hj, by simpa using hx, ?_⟩
            have : i + 1 + j = i + (j + 1) := by omega
            rwa [this] at hlt
        · rintro ⟨j, hj, hx, hlt⟩
          cases j with
          | zero => left; simpa using hx.symm
          | succ j =>
              right
              refine ⟨j, by simpa using hj, by simpa using hx, ?_⟩
              have : i + 1 + j = i + (j + 1) := by omega
              rwa [this]
      · rw [if_neg h, ih]
        constructor
        · rintro ⟨j, hj, hx, hlt⟩
          refine ⟨j + 1, by simpa using hj, by simpa using hx, ?_⟩
          have : i + 1 + j = i + (j + 1) := by omega
          rwa [this] at hlt
        · rintro ⟨j, hj, hx, hlt⟩
          cases j with
          | zero =>
              exfalso
              have hxy : y = x := by simpa using hx
              apply h
              rw [hxy]
              simpa using hlt
          | succ j =>
              refine ⟨j, by simpa using hj, by simpa using hx, ?_⟩
              have : i + 1 + j = i + (j + 1) := by omega
              rwa [this]

/-- entries of an ascending list are monotone in the position -/
theorem sorted_getD_mono (sp : List Rat) (hs : sp.Pairwise (· ≤ ·)) (k l : Nat) (hkl : k ≤ l)
    (hl : l < sp.length) : sp.getD k 0 ≤ sp.getD l 0 := by
  have hlc : l < cntLe sp (sp.getD l 0) := (sorted_le_iff_lt_cnt _ sp hs l hl).mp le_rfl
  exact (sorted_le_iff_lt_cnt _ sp hs k (by omega)).mpr (by omega)

/-- `min(1, n·x/(l+1)) < α  ↔  x < (α/n)·(l+1)` for `α ≤ 1`, `n > 0` -/
theorem raw_lt_alpha_iff (alpha n x : Rat) (l : Nat) (ha1 : alpha ≤ 1) (hn : 0 < n) :
    min 1 (n * x / ((l : Rat) + 1)) < alpha ↔ x < alpha / n * ((l : Rat) + 1) := by
  have hl : (0 : Rat) < (l : Rat) + 1 := by positivity
  rw [min_lt_iff]
  constructor
  · rintro (h | h)
    · exact absurd h (not_lt.mpr ha1)
    · rw [div_lt_iff₀ hl] at h
      rw [div_mul_eq_mul_div, lt_div_iff₀ hn]
      linarith
  · intro h
    right
    rw [div_lt_iff₀ hl]
    rw [div_mul_eq_mul_div, lt_div_iff₀ hn] at h
    linarith

/-- two ascending arrangements of the same values coincide -/
theorem sorted_perm_eq (a b : List Rat) (ha : a.Pairwise (· ≤ ·)) (hb : b.Pairwise (· ≤ ·))
    (h : a.Perm b) : a = b :=
  List.Perm.eq_of_pairwise (fun _ _ _ _ h1 h2 => le_antisymm h1 h2) ha hb h

theorem mergeSort_sorted (p : List Rat) : (p.mergeSort (fun a b => decide (a ≤ b))).Pairwise (· ≤ ·) := by
  have := List.pairwise_mergeSort (le := fun a b : Rat => decide (a ≤ b))
    (fun a b c hab hbc => by
      simp only [decide_eq_true_eq] at hab hbc ⊢; exact le_trans hab hbc)
    (fun a b => by
      simp only [Bool.or_eq_true, decide_eq_true_eq]; exact le_total _ _) p
  exact this.imp (fun h => by simpa using h)

/-- the two sorts of the model (`argsort` then gather, `np.sort`) produce the same list -/
theorem argsort_map_eq_mergeSort (p : List Rat) :
    (argsort p).map (fun i => p.getD i 0) = p.mergeSort (fun a b => decide (a ≤ b)) :=
  sorted_perm_eq _ _ (argsort_sorted_map p) (mergeSort_sorted p)
    ((argsort_map_perm p).trans (List.mergeSort_perm p _).symm)

end NipyVerif.C06
