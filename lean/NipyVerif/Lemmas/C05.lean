/- C05 — helper lemmas: bridge from the `Fin`-function model to Mathlib matrices,
   specification of the certified inverse and of `fitW`. -/
import NipyVerif.Model.C05
import Mathlib.Data.Matrix.Mul
import Mathlib.Data.Matrix.Basic
import Mathlib.LinearAlgebra.Matrix.NonsingularInverse
import Mathlib.Algebra.BigOperators.Fin
import Mathlib.Algebra.Order.BigOperators.Ring.Finset
import Mathlib.Algebra.Order.Field.Rat
import Mathlib.Tactic.Ring
import Mathlib.Tactic.Linarith
import Mathlib.Tactic.FieldSimp
import Mathlib.Tactic.Positivity

namespace NipyVerif.C05
open Matrix

theorem fsum_eq {n : Nat} (f : Fin n → Rat) : fsum f = ∑ i, f i := by
  unfold fsum; exact List.sum_ofFn

/-! ### array backing is the identity -/

theorem ofArr2_toArr2 {n p : Nat} (A : Mat n p) : ofArr2 (toArr2 A) = A := by
  funext i j
  simp [ofArr2, toArr2, Array.getD]

theorem ofArr1_toArr1 {n : Nat} (x : Vec n) : ofArr1 (toArr1 x) = x := by
  funext i
  simp [ofArr1, toArr1, Array.getD]

theorem memo_eq {n p : Nat} (A : Mat n p) : memo A = A := ofArr2_toArr2 A
theorem memoV_eq {n : Nat} (x : Vec n) : memoV x = x := ofArr1_toArr1 x

/-! ### Mathlib matrices -/

abbrev toM {n p : Nat} (A : Mat n p) : Matrix (Fin n) (Fin p) ℚ := Matrix.of A

theorem toM_inj {n p : Nat} {A B : Mat n p} (h : toM A = toM B) : A = B := Matrix.of.injective h

theorem mmul_toM {n k p : Nat} (A : Mat n k) (B : Mat k p) : toM (mmul A B) = toM A * toM B := by
  ext i j; simp [mmul, fsum_eq, Matrix.mul_apply]

theorem tr_toM {n p : Nat} (A : Mat n p) : toM (tr A) = (toM A)ᵀ := by
  ext i j; rfl

theorem idm_toM (n : Nat) : toM (idm n) = 1 := by
  ext i j; simp [idm, Matrix.one_apply]

theorem msub_toM {n p : Nat} (A B : Mat n p) : toM (msub A B) = toM A - toM B := by
  ext i j; rfl

theorem mmul_assoc {n k l p : Nat} (A : Mat n k) (B : Mat k l) (C : Mat l p) :
    mmul (mmul A B) C = mmul A (mmul B C) := by
  apply toM_inj; simp only [mmul_toM, Matrix.mul_assoc]

theorem mmul_idm {n p : Nat} (A : Mat n p) : mmul A (idm p) = A := by
  apply toM_inj; simp [mmul_toM, idm_toM]

theorem idm_mmul {n p : Nat} (A : Mat n p) : mmul (idm n) A = A := by
  apply toM_inj; simp [mmul_toM, idm_toM]

theorem tr_mmul {n k p : Nat} (A : Mat n k) (B : Mat k p) : tr (mmul A B) = mmul (tr B) (tr A) := by
  apply toM_inj; simp [mmul_toM, tr_toM, Matrix.transpose_mul]

theorem tr_tr {n p : Nat} (A : Mat n p) : tr (tr A) = A := rfl

/-- a left inverse of a square matrix is a right inverse -/
theorem mmul_comm_of_inv {p : Nat} {G A : Mat p p} (h : mmul G A = idm p) : mmul A G = idm p := by
  apply toM_inj
  have h' : toM G * toM A = 1 := by rw [← mmul_toM, h, idm_toM]
  rw [mmul_toM, idm_toM]
  exact mul_eq_one_comm.mp h'

/-! ### certified inverse -/

theorem matEq_iff {n p : Nat} (A B : Mat n p) : matEq A B = true ↔ A = B := by
  unfold matEq
  simp only [List.all_eq_true, List.mem_finRange, forall_const, decide_eq_true_eq]
  constructor
  · intro h; funext i j; exact h i j
  · intro h i j; rw [h]

theorem inv?_spec {p : Nat} {A G : Mat p p} (h : inv? A = some G) : mmul G A = idm p := by
  unfold inv? at h
  split at h
  · exact absurd h (by simp)
  · rename_i g _
    simp only at h
    split at h
    · rename_i hc
      have := (matEq_iff _ _).mp hc
      simp only [Option.some.injEq] at h
      rw [← h]; exact this
    · exact absurd h (by simp)

/-! ### specification of `fitW` -/

structure FitSpec {n p v : Nat} (wX : Mat n p) (wY : Mat n v) (f : Fit n p v) (G : Mat p p) : Prop where
  inv : mmul G (mmul (tr wX) wX) = idm p
  pinv : f.pinv = mmul G (tr wX)
  beta : f.beta = mmul f.pinv wY
  wresid : f.wresid = msub wY (mmul wX f.beta)
  sse : f.sse = fun j => fsum fun i => f.wresid i j * f.wresid i j
  dispersion : f.dispersion = fun j => f.sse j / ((n : Rat) - (p : Rat))
  cov : f.cov = mmul f.pinv (tr f.pinv)
  df : f.dfResid = (n : Int) - (p : Int)

theorem fitW_spec {n p v : Nat} {wX : Mat n p} {wY : Mat n v} {f : Fit n p v}
    (h : fitW wX wY = some f) : ∃ G, inv? (mmul (tr wX) wX) = some G ∧ FitSpec wX wY f G := by
  unfold fitW at h
  simp only [ofArr2_toArr2, ofArr1_toArr1] at h
  split at h
  · exact absurd h (by simp)
  · rename_i G hG
    simp only [Option.some.injEq] at h
    refine ⟨G, hG, ?_⟩
    subst h
    exact ⟨inv?_spec hG, rfl, rfl, rfl, rfl, rfl, rfl, rfl⟩

/-- conversely, `fitW` succeeds as soon as the certified inverse exists, with these fields -/
theorem fitW_of_inv {n p v : Nat} {wX : Mat n p} (wY : Mat n v) {G : Mat p p}
    (hG : inv? (mmul (tr wX) wX) = some G) :
    ∃ f, fitW wX wY = some f ∧ FitSpec wX wY f G := by
  unfold fitW
  simp only [ofArr2_toArr2, ofArr1_toArr1, hG]
  exact ⟨_, rfl, ⟨inv?_spec hG, rfl, rfl, rfl, rfl, rfl, rfl, rfl⟩⟩

end NipyVerif.C05

namespace NipyVerif.C05
open Matrix

theorem fit_eq {n p v : Nat} (w : Whitener n) (X : Mat n p) (Y : Mat n v) :
    fit w X Y = fitW (w.apply X) (w.apply Y) := by
  unfold fit; simp only [ofArr2_toArr2]

theorem orth_of_spec {n p v : Nat} {wX : Mat n p} {wY : Mat n v} {f : Fit n p v} {G : Mat p p}
    (s : FitSpec wX wY f G) : mmul (tr wX) f.wresid = fun _ _ => 0 := by
  have hr := mmul_comm_of_inv s.inv
  apply toM_inj
  have h1 : toM (mmul (tr wX) wX) * toM G = 1 := by rw [← mmul_toM, hr, idm_toM]
  rw [s.wresid, s.beta, s.pinv]
  simp only [mmul_toM, msub_toM, tr_toM] at h1 ⊢
  rw [Matrix.mul_sub, ← Matrix.mul_assoc, ← Matrix.mul_assoc, ← Matrix.mul_assoc, h1,
    Matrix.one_mul, sub_self]
  rfl

theorem orth_entry {n p v : Nat} {wX : Mat n p} {wY : Mat n v} {f : Fit n p v} {G : Mat p p}
    (s : FitSpec wX wY f G) (l : Fin p) (j : Fin v) : ∑ i, wX i l * f.wresid i j = 0 := by
  have := congrFun (congrFun (orth_of_spec s) l) j
  simpa [mmul, tr, fsum_eq] using this

theorem rss_min_of_spec {n p v : Nat} {wX : Mat n p} {wY : Mat n v} {f : Fit n p v} {G : Mat p p}
    (s : FitSpec wX wY f G) (b : Mat p v) (j : Fin v) :
    rss wX wY f.beta j ≤ rss wX wY b j := by
  have hw : ∀ i, f.wresid i j = wY i j - ∑ l, wX i l * f.beta l j := by
    intro i; rw [s.wresid]; simp [msub, mmul, fsum_eq]
  have key : ∀ i, wY i j - ∑ l, wX i l * b l j
      = f.wresid i j + ∑ l, wX i l * (f.beta l j - b l j) := by
    intro i; rw [hw i]; simp only [mul_sub, Finset.sum_sub_distrib]; ring
  have cross : ∑ i, f.wresid i j * ∑ l, wX i l * (f.beta l j - b l j) = 0 := by
    simp only [Finset.mul_sum]
    rw [Finset.sum_comm]
    have : ∀ l, ∑ i, f.wresid i j * (wX i l * (f.beta l j - b l j))
        = (f.beta l j - b l j) * ∑ i, wX i l * f.wresid i j := by
      intro l; rw [Finset.mul_sum]; apply Finset.sum_congr rfl; intro i _; ring
    simp only [this, orth_entry s, mul_zero, Finset.sum_const_zero]
  unfold rss
  simp only [fsum_eq, mmul]
  have e1 : ∑ i, (wY i j - ∑ l, wX i l * f.beta l j) * (wY i j - ∑ l, wX i l * f.beta l j)
      = ∑ i, f.wresid i j * f.wresid i j := by
    apply Finset.sum_congr rfl; intro i _; rw [hw i]
  have e2 : ∑ i, (wY i j - ∑ l, wX i l * b l j) * (wY i j - ∑ l, wX i l * b l j)
      = ∑ i, f.wresid i j * f.wresid i j
        + ∑ i, (∑ l, wX i l * (f.beta l j - b l j)) * (∑ l, wX i l * (f.beta l j - b l j)) := by
    have : ∀ i, (wY i j - ∑ l, wX i l * b l j) * (wY i j - ∑ l, wX i l * b l j)
        = f.wresid i j * f.wresid i j
          + 2 * (f.wresid i j * ∑ l, wX i l * (f.beta l j - b l j))
          + (∑ l, wX i l * (f.beta l j - b l j)) * (∑ l, wX i l * (f.beta l j - b l j)) := by
      intro i; rw [key i]; ring
    simp only [this, Finset.sum_add_distrib, ← Finset.mul_sum, cross, mul_zero, add_zero]
  rw [e1, e2]
  have : 0 ≤ ∑ i, (∑ l, wX i l * (f.beta l j - b l j)) * (∑ l, wX i l * (f.beta l j - b l j)) :=
    Finset.sum_nonneg (fun i _ => mul_self_nonneg _)
  linarith

theorem cov_gram_of_spec {n p v : Nat} {wX : Mat n p} {wY : Mat n v} {f : Fit n p v} {G : Mat p p}
    (s : FitSpec wX wY f G) : mmul f.cov (mmul (tr wX) wX) = idm p := by
  have hr := mmul_comm_of_inv s.inv
  apply toM_inj
  have h1 : toM (mmul (tr wX) wX) * toM G = 1 := by rw [← mmul_toM, hr, idm_toM]
  have h2 : toM G * toM (mmul (tr wX) wX) = 1 := by rw [← mmul_toM, s.inv, idm_toM]
  rw [s.cov, s.pinv]
  simp only [mmul_toM, tr_toM, idm_toM, Matrix.transpose_mul, Matrix.transpose_transpose] at h1 h2 ⊢
  -- G Xᵀ X Gᵀ (Xᵀ X) = Gᵀ (XᵀX) … use symmetry of the Gram matrix
  have hsym : ((toM wX)ᵀ * toM wX)ᵀ = (toM wX)ᵀ * toM wX := by
    simp [Matrix.transpose_mul]
  have h3 : (toM G)ᵀ * ((toM wX)ᵀ * toM wX) = 1 := by
    have := congrArg Matrix.transpose h1
    simpa [Matrix.transpose_mul, hsym] using this
  calc toM G * (toM wX)ᵀ * (toM wX * (toM G)ᵀ) * ((toM wX)ᵀ * toM wX)
      = toM G * ((toM wX)ᵀ * toM wX) * ((toM G)ᵀ * ((toM wX)ᵀ * toM wX)) := by
        simp only [Matrix.mul_assoc]
    _ = 1 := by rw [h2, h3, Matrix.one_mul]

end NipyVerif.C05

namespace NipyVerif.C05
open Matrix

/-! ### whiteners act column by column and linearly -/

theorem arLoop_select {n k k' : Nat} (σ : Fin k' → Fin k) (X : Mat n k) (rho : List Rat) :
    ∀ (i : Nat) (acc : Mat n k),
      arLoop (fun t j => X t (σ j)) rho i (fun t j => acc t (σ j))
        = fun t j => arLoop X rho i acc t (σ j) := by
  induction rho with
  | nil => intro i acc; rfl
  | cons r rs ih =>
      intro i acc
      simp only [arLoop]
      have : arStep (fun t j => X t (σ j)) (fun t j => acc t (σ j)) i r
          = fun t j => arStep X acc i r t (σ j) := by
        funext t j; unfold arStep; split <;> rfl
      rw [this]; exact ih (i + 1) (arStep X acc i r)

theorem apply_select {n k k' : Nat} (w : Whitener n) (σ : Fin k' → Fin k) (A : Mat n k) :
    w.apply (fun t j => A t (σ j)) = fun t j => w.apply A t (σ j) := by
  cases w with
  | ols => rfl
  | wls c => rfl
  | ar rho => exact arLoop_select σ A rho 0 A
  | gls W => rfl

theorem arLoop_smul {n k : Nat} (a : Rat) (X : Mat n k) (rho : List Rat) :
    ∀ (i : Nat) (acc : Mat n k),
      arLoop (fun t j => a * X t j) rho i (fun t j => a * acc t j)
        = fun t j => a * arLoop X rho i acc t j := by
  induction rho with
  | nil => intro i acc; rfl
  | cons r rs ih =>
      intro i acc
      simp only [arLoop]
      have : arStep (fun t j => a * X t j) (fun t j => a * acc t j) i r
          = fun t j => a * arStep X acc i r t j := by
        funext t j; unfold arStep; split
        · ring
        · rfl
      rw [this]; exact ih (i + 1) (arStep X acc i r)

theorem mmul_smul {n k p : Nat} (a : Rat) (A : Mat n k) (B : Mat k p) :
    mmul A (fun l j => a * B l j) = fun i j => a * mmul A B i j := by
  funext i j; simp only [mmul, fsum_eq, Finset.mul_sum]
  apply Finset.sum_congr rfl; intro l _; ring

theorem apply_smul {n k : Nat} (w : Whitener n) (a : Rat) (A : Mat n k) :
    w.apply (fun t j => a * A t j) = fun t j => a * w.apply A t j := by
  cases w with
  | ols => rfl
  | wls c => funext t j; simp only [Whitener.apply, whitenWLS]; ring
  | ar rho => exact arLoop_smul a A rho 0 A
  | gls W => exact mmul_smul a W A

theorem arLoop_zero {n k : Nat} (X : Mat n k) (m : Nat) :
    ∀ (i : Nat) (acc : Mat n k), arLoop X (List.replicate m 0) i acc = acc := by
  induction m with
  | zero => intro i acc; rfl
  | succ m ih =>
      intro i acc
      simp only [List.replicate_succ, arLoop]
      have : arStep X acc i 0 = acc := by
        funext t j; unfold arStep; split
        · simp
        · rfl
      rw [this]; exact ih (i + 1) acc

theorem whitenGLS_diag {n k : Nat} (c : Vec n) (A : Mat n k) : whitenGLS (diag c) A = whitenWLS c A := by
  funext i j
  simp only [whitenGLS, whitenWLS, mmul, diag, fsum_eq, ite_mul, zero_mul, Finset.sum_ite_eq,
    Finset.mem_univ, if_true]
  ring

theorem idm_eq_diag_one (n : Nat) : idm n = diag (fun _ => 1) := rfl

/-! ### selection / scaling of data columns in `fitW` -/

theorem fitW_select {n p v v' : Nat} (wX : Mat n p) (wY : Mat n v) (σ : Fin v' → Fin v) (f : Fit n p v)
    (h : fitW wX wY = some f) :
    ∃ f', fitW wX (fun i k => wY i (σ k)) = some f' ∧
      f'.beta = (fun a k => f.beta a (σ k)) ∧ f'.wresid = (fun i k => f.wresid i (σ k)) ∧
      f'.sse = (fun k => f.sse (σ k)) ∧
      f'.dispersion = (fun k => f.dispersion (σ k)) ∧ f'.cov = f.cov ∧ f'.dfResid = f.dfResid := by
  obtain ⟨G, hG, s⟩ := fitW_spec h
  obtain ⟨f', hf', s'⟩ := fitW_of_inv (fun i k => wY i (σ k)) hG
  have hp : f'.pinv = f.pinv := by rw [s'.pinv, s.pinv]
  have hb : f'.beta = fun a k => f.beta a (σ k) := by rw [s'.beta, s.beta, hp]; rfl
  have hr : f'.wresid = fun i k => f.wresid i (σ k) := by rw [s'.wresid, s.wresid, hb]; rfl
  have hs : f'.sse = fun k => f.sse (σ k) := by rw [s'.sse, s.sse, hr]
  refine ⟨f', hf', hb, hr, hs, ?_, ?_, ?_⟩
  · rw [s'.dispersion, s.dispersion, hs]
  · rw [s'.cov, s.cov, hp]
  · rw [s'.df, s.df]

theorem fitW_smul {n p v : Nat} (wX : Mat n p) (wY : Mat n v) (a : Rat) (f : Fit n p v)
    (h : fitW wX wY = some f) :
    ∃ f', fitW wX (fun i k => a * wY i k) = some f' ∧
      f'.beta = (fun l k => a * f.beta l k) ∧ f'.wresid = (fun i k => a * f.wresid i k) ∧
      f'.dispersion = (fun k => a * a * f.dispersion k) ∧ f'.cov = f.cov ∧ f'.dfResid = f.dfResid := by
  obtain ⟨G, hG, s⟩ := fitW_spec h
  obtain ⟨f', hf', s'⟩ := fitW_of_inv (fun i k => a * wY i k) hG
  have hp : f'.pinv = f.pinv := by rw [s'.pinv, s.pinv]
  have hb : f'.beta = fun l k => a * f.beta l k := by rw [s'.beta, s.beta, hp, mmul_smul]
  have hr : f'.wresid = fun i k => a * f.wresid i k := by
    rw [s'.wresid, s.wresid, hb, mmul_smul]; funext i k; simp only [msub]; ring
  have hs : f'.sse = fun k => a * a * f.sse k := by
    rw [s'.sse, s.sse, hr]; funext k; simp only [fsum_eq, Finset.mul_sum]
    apply Finset.sum_congr rfl; intro i _; ring
  refine ⟨f', hf', hb, hr, ?_, ?_, ?_⟩
  · rw [s'.dispersion, s.dispersion, hs]; funext k; ring
  · rw [s'.cov, s.cov, hp]
  · rw [s'.df, s.df]

/-! ### labs `ols` -/

theorem labsOls_spec {n p v : Nat} {X : Mat n p} {Y : Mat n v} {l : LabsFit p v}
    (h : labsOls X Y = some l) :
    ∃ f, fitW X Y = some f ∧ l.beta = f.beta ∧ l.nvbeta = f.cov ∧ l.s2 = f.dispersion ∧
      l.dof = ((f.dfResid : Int) : Rat) := by
  unfold labsOls at h
  simp only [ofArr2_toArr2, ofArr1_toArr1] at h
  split at h
  · exact absurd h (by simp)
  · rename_i G hG
    simp only [Option.some.injEq] at h
    obtain ⟨f, hf, s⟩ := fitW_of_inv Y hG
    refine ⟨f, hf, ?_⟩
    subst h
    have hb : mmul (mmul G (tr X)) Y = f.beta := by rw [s.beta, s.pinv]
    refine ⟨hb, ?_, ?_, ?_⟩
    · show mmul (mmul G (tr X)) (tr (mmul G (tr X))) = f.cov
      rw [s.cov, s.pinv]
    · show (fun j => (fsum fun i => msub Y (mmul X (mmul (mmul G (tr X)) Y)) i j *
          msub Y (mmul X (mmul (mmul G (tr X)) Y)) i j) / ((n : Rat) - (p : Rat))) = f.dispersion
      rw [s.dispersion, s.sse, s.wresid, hb]
    · show (n : Rat) - (p : Rat) = ((f.dfResid : Int) : Rat)
      rw [s.df]; push_cast; rfl

end NipyVerif.C05

namespace NipyVerif.C05
open Matrix

/-! ### reparametrisation `X ↦ X T` -/

theorem fitW_reparam_beta {n p v : Nat} (wX : Mat n p) (wY : Mat n v) (T Ti : Mat p p)
    (hT : mmul T Ti = idm p) (f f' : Fit n p v)
    (h : fitW wX wY = some f) (h' : fitW (mmul wX T) wY = some f') :
    mmul T f'.beta = f.beta := by
  obtain ⟨G, _, s⟩ := fitW_spec h
  obtain ⟨G', _, s'⟩ := fitW_spec h'
  have o := orth_of_spec s
  have o' := orth_of_spec s'
  rw [s.wresid] at o
  rw [s'.wresid] at o'
  have ho : (toM wX)ᵀ * (toM wY - toM wX * toM f.beta) = 0 := by
    have := congrArg toM o
    simp only [mmul_toM, msub_toM, tr_toM] at this
    exact this
  have ho' : (toM wX * toM T)ᵀ * (toM wY - toM wX * toM T * toM f'.beta) = 0 := by
    have := congrArg toM o'
    simp only [mmul_toM, msub_toM, tr_toM] at this
    exact this
  have hTT : (toM Ti)ᵀ * (toM T)ᵀ = 1 := by
    have : toM T * toM Ti = 1 := by rw [← mmul_toM, hT, idm_toM]
    rw [← Matrix.transpose_mul, this, Matrix.transpose_one]
  have hG : toM G * ((toM wX)ᵀ * toM wX) = 1 := by
    have := congrArg toM s.inv
    simpa [mmul_toM, tr_toM, idm_toM] using this
  have e1 : (toM wX)ᵀ * (toM wY - toM wX * (toM T * toM f'.beta)) = 0 := by
    calc (toM wX)ᵀ * (toM wY - toM wX * (toM T * toM f'.beta))
        = ((toM Ti)ᵀ * (toM T)ᵀ) * ((toM wX)ᵀ * (toM wY - toM wX * (toM T * toM f'.beta))) := by
          rw [hTT, Matrix.one_mul]
      _ = (toM Ti)ᵀ * ((toM wX * toM T)ᵀ * (toM wY - toM wX * toM T * toM f'.beta)) := by
          simp only [Matrix.transpose_mul, Matrix.mul_assoc]
      _ = 0 := by rw [ho', Matrix.mul_zero]
  have e2 : (toM wX)ᵀ * toM wX * (toM f.beta - toM T * toM f'.beta) = 0 := by
    have : (toM wX)ᵀ * toM wX * (toM f.beta - toM T * toM f'.beta)
        = (toM wX)ᵀ * (toM wY - toM wX * (toM T * toM f'.beta))
          - (toM wX)ᵀ * (toM wY - toM wX * toM f.beta) := by
      simp only [Matrix.mul_sub, Matrix.mul_assoc]; abel
    rw [this, e1, ho, sub_zero]
  have e3 : toM f.beta - toM T * toM f'.beta = 0 := by
    calc toM f.beta - toM T * toM f'.beta
        = (toM G * ((toM wX)ᵀ * toM wX)) * (toM f.beta - toM T * toM f'.beta) := by
          rw [hG, Matrix.one_mul]
      _ = toM G * ((toM wX)ᵀ * toM wX * (toM f.beta - toM T * toM f'.beta)) := by
          simp only [Matrix.mul_assoc]
      _ = 0 := by rw [e2, Matrix.mul_zero]
  apply toM_inj
  rw [mmul_toM]
  exact (sub_eq_zero.mp e3).symm

theorem fitW_reparam_cov {n p v : Nat} (wX : Mat n p) (wY : Mat n v) (T Ti : Mat p p)
    (hT : mmul T Ti = idm p) (f f' : Fit n p v)
    (h : fitW wX wY = some f) (h' : fitW (mmul wX T) wY = some f') :
    mmul (mmul T f'.cov) (tr T) = f.cov := by
  obtain ⟨G, _, s⟩ := fitW_spec h
  obtain ⟨G', _, s'⟩ := fitW_spec h'
  have hc : toM f.cov * ((toM wX)ᵀ * toM wX) = 1 := by
    have := congrArg toM (cov_gram_of_spec s)
    simpa [mmul_toM, tr_toM, idm_toM] using this
  have hc2 : ((toM wX)ᵀ * toM wX) * toM f.cov = 1 := mul_eq_one_comm.mp hc
  have hc' : toM f'.cov * ((toM T)ᵀ * ((toM wX)ᵀ * (toM wX * toM T))) = 1 := by
    have := congrArg toM (cov_gram_of_spec s')
    simpa [mmul_toM, tr_toM, idm_toM, Matrix.transpose_mul, Matrix.mul_assoc] using this
  have hTTi : toM T * toM Ti = 1 := by rw [← mmul_toM, hT, idm_toM]
  have key : toM T * toM f'.cov * (toM T)ᵀ * ((toM wX)ᵀ * toM wX) = 1 := by
    calc toM T * toM f'.cov * (toM T)ᵀ * ((toM wX)ᵀ * toM wX)
        = toM T * toM f'.cov * (toM T)ᵀ * ((toM wX)ᵀ * toM wX) * (toM T * toM Ti) := by
          rw [hTTi, Matrix.mul_one]
      _ = toM T * (toM f'.cov * ((toM T)ᵀ * ((toM wX)ᵀ * (toM wX * toM T)))) * toM Ti := by
          simp only [Matrix.mul_assoc]
      _ = 1 := by rw [hc', Matrix.mul_one, hTTi]
  apply toM_inj
  rw [mmul_toM, mmul_toM, tr_toM]
  calc toM T * toM f'.cov * (toM T)ᵀ
      = toM T * toM f'.cov * (toM T)ᵀ * (((toM wX)ᵀ * toM wX) * toM f.cov) := by
        rw [hc2, Matrix.mul_one]
    _ = (toM T * toM f'.cov * (toM T)ᵀ * ((toM wX)ᵀ * toM wX)) * toM f.cov := by
        simp only [Matrix.mul_assoc]
    _ = toM f.cov := by rw [key, Matrix.one_mul]

theorem arLoop_mmul {n k k' : Nat} (T : Mat k k') (X : Mat n k) (rho : List Rat) :
    ∀ (i : Nat) (acc : Mat n k),
      arLoop (mmul X T) rho i (mmul acc T) = mmul (arLoop X rho i acc) T := by
  induction rho with
  | nil => intro i acc; rfl
  | cons r rs ih =>
      intro i acc
      simp only [arLoop]
      have : arStep (mmul X T) (mmul acc T) i r = mmul (arStep X acc i r) T := by
        funext t j; unfold arStep mmul; simp only [fsum_eq]
        by_cases hc : i + 1 ≤ t.1
        · simp only [dif_pos hc]
          rw [Finset.mul_sum, ← Finset.sum_sub_distrib]
          apply Finset.sum_congr rfl; intro l _; ring
        · simp only [dif_neg hc]
      rw [this]; exact ih (i + 1) (arStep X acc i r)

theorem apply_mmul {n k k' : Nat} (w : Whitener n) (X : Mat n k) (T : Mat k k') :
    w.apply (mmul X T) = mmul (w.apply X) T := by
  cases w with
  | ols => rfl
  | wls c =>
      funext t j; simp only [Whitener.apply, whitenWLS, mmul, fsum_eq, Finset.sum_mul]
      apply Finset.sum_congr rfl; intro l _; ring
  | ar rho => exact arLoop_mmul T X rho 0 X
  | gls W => simp only [Whitener.apply, whitenGLS, mmul_assoc]

end NipyVerif.C05

namespace NipyVerif.C05
/-! ### concrete objects for the non-vacuity examples in `Props/C05` -/
def exX : Mat 3 2 := fun i j => (([[1, 0], [1, 1], [1, 2]] : List (List Rat)).getD i.1 []).getD j.1 0
def exY : Mat 3 1 := fun i j => (([[1], [0], [2]] : List (List Rat)).getD i.1 []).getD j.1 0
def exT : Mat 2 2 := fun i j => (([[1, 1], [0, 2]] : List (List Rat)).getD i.1 []).getD j.1 0
def exTi : Mat 2 2 := fun i j => (([[1, -1/2], [0, 1/2]] : List (List Rat)).getD i.1 []).getD j.1 0
end NipyVerif.C05

namespace NipyVerif.C05
/-! ### Kalman recursion = regularised normal equations (Sherman–Morrison induction) -/
open Finset

/-- invariant of the Kalman recursion against an information matrix `A` and right-hand side `r` -/
structure KFInv {p : Nat} (A : Mat p p) (r : Vec p) (s : KF p) : Prop where
  AP : ∀ i j, ∑ k, A i k * s.P k j = if i = j then 1 else 0
  sym : ∀ i j, s.P i j = s.P j i
  Ab : ∀ i, ∑ k, A i k * s.b k = r i
  psd : ∀ z : Vec p, 0 ≤ ∑ i, z i * ∑ k, A i k * z k

theorem kfStep_inv {p : Nat} {A : Mat p p} {r : Vec p} {s : KF p} (h : KFInv A r s) (x : Vec p) (y : Rat) :
    KFInv (fun i k => A i k + x i * x k) (fun i => r i + y * x i) (kfStep s x y) := by
  obtain ⟨hAP, hsym, hAb, hpsd⟩ := h
  set c : Vec p := fun i => ∑ l, s.P i l * x l with hc
  have F1 : ∀ i, ∑ k, A i k * c k = x i := by
    intro i
    simp only [hc, Finset.mul_sum]
    rw [Finset.sum_comm]
    have : ∀ l, ∑ k, A i k * (s.P k l * x l) = x l * ∑ k, A i k * s.P k l := by
      intro l; rw [Finset.mul_sum]; apply Finset.sum_congr rfl; intro k _; ring
    simp only [this, hAP, mul_ite, mul_one, mul_zero, Finset.sum_ite_eq, Finset.mem_univ, if_true]
  have F2 : ∀ j, ∑ k, x k * s.P k j = c j := by
    intro j; simp only [hc]; apply Finset.sum_congr rfl; intro k _; rw [hsym k j]; ring
  have F3 : 0 ≤ ∑ k, x k * c k := by
    have := hpsd c
    simp only [F1] at this
    have e : ∑ i, c i * x i = ∑ k, x k * c k := by apply Finset.sum_congr rfl; intro k _; ring
    rw [e] at this; exact this
  set v : Rat := ∑ k, x k * c k + 1 with hv
  have hvpos : 0 < v := by rw [hv]; linarith
  have hvne : v ≠ 0 := ne_of_gt hvpos
  have hxc : ∑ k, x k * c k = v - 1 := by rw [hv]; ring
  have hmv : mvec s.P x = c := by funext i; simp [mvec, fsum_eq, hc]
  have hvd : vdot x c + 1 = v := by simp [vdot, fsum_eq, hv]
  have hEy : vdot x s.b = ∑ k, x k * s.b k := by simp [vdot, fsum_eq]
  have hP : (kfStep s x y).P = fun i j => s.P i j + (-(1 / v)) * (c i * c j) := by
    simp only [kfStep, ofArr1_toArr1, ofArr2_toArr2, hmv, hvd]
  have hb : (kfStep s x y).b = fun i => s.b i + 1 / v * (y - ∑ k, x k * s.b k) * c i := by
    simp only [kfStep, ofArr1_toArr1, ofArr2_toArr2, hmv, hvd, hEy]
  refine ⟨?_, ?_, ?_, ?_⟩
  · intro i j
    rw [hP]
    have : ∀ k, (A i k + x i * x k) * (s.P k j + (-(1 / v)) * (c k * c j))
        = A i k * s.P k j + (-(1 / v) * c j) * (A i k * c k) + x i * (x k * s.P k j)
          + (-(1 / v) * x i * c j) * (x k * c k) := by intro k; ring
    simp only [this, Finset.sum_add_distrib, ← Finset.mul_sum, hAP, F1, F2, hxc]
    field_simp
    ring
  · intro i j
    rw [hP]; simp only; rw [hsym i j]; ring
  · intro i
    rw [hb]
    have : ∀ k, (A i k + x i * x k) * (s.b k + 1 / v * (y - ∑ k, x k * s.b k) * c k)
        = A i k * s.b k + (1 / v * (y - ∑ k, x k * s.b k)) * (A i k * c k) + x i * (x k * s.b k)
          + (1 / v * (y - ∑ k, x k * s.b k) * x i) * (x k * c k) := by intro k; ring
    simp only [this, Finset.sum_add_distrib, ← Finset.mul_sum, hAb, F1, hxc]
    field_simp
    ring
  · intro z
    have : ∀ i, z i * ∑ k, (A i k + x i * x k) * z k
        = z i * ∑ k, A i k * z k + (z i * x i) * ∑ k, x k * z k := by
      intro i
      have : ∀ k, (A i k + x i * x k) * z k = A i k * z k + x i * (x k * z k) := by intro k; ring
      simp only [this, Finset.sum_add_distrib, ← Finset.mul_sum]; ring
    simp only [this, Finset.sum_add_distrib, ← Finset.sum_mul]
    have e : ∑ i, z i * x i = ∑ k, x k * z k := by apply Finset.sum_congr rfl; intro k _; ring
    rw [e]
    have := hpsd z
    nlinarith [mul_self_nonneg (∑ k, x k * z k)]

/-- information matrix and right-hand side accumulated over the rows seen so far -/
def gramL {p : Nat} (lam : Rat) (rows : List (Vec p × Rat)) : Mat p p :=
  fun i k => (if i = k then lam else 0) + (rows.map fun r => r.1 i * r.1 k).sum

def rhsL {p : Nat} (rows : List (Vec p × Rat)) : Vec p := fun i => (rows.map fun r => r.2 * r.1 i).sum

theorem kfRun_snoc {p : Nat} (iv : Rat) (rs : List (Vec p × Rat)) (r : Vec p × Rat) :
    kfRun iv (rs ++ [r]) = kfStep (kfRun iv rs) r.1 r.2 := by
  simp [kfRun, List.foldl_append]

theorem kfRun_inv {p : Nat} (iv : Rat) (hiv : 0 < iv) (rows : List (Vec p × Rat)) :
    KFInv (gramL (1 / iv) rows) (rhsL rows) (kfRun iv rows) := by
  induction rows using List.reverseRecOn with
  | nil =>
      have hne : iv ≠ 0 := ne_of_gt hiv
      refine ⟨?_, ?_, ?_, ?_⟩
      · intro i j
        simp only [gramL, kfRun, List.foldl_nil, kfInit, List.map_nil, List.sum_nil, add_zero,
          ite_mul, zero_mul, Finset.sum_ite_eq, Finset.mem_univ, if_true]
        by_cases h : i = j
        · simp only [h, if_true]; field_simp
        · simp only [h, if_false, mul_zero]
      · intro i j
        simp only [kfRun, List.foldl_nil, kfInit]
        by_cases h : i = j
        · simp [h]
        · have h' : ¬ j = i := fun e => h e.symm
          simp [h, h']
      · intro i
        simp [gramL, rhsL, kfRun, kfInit]
      · intro z
        simp only [gramL, List.map_nil, List.sum_nil, add_zero, ite_mul, zero_mul, Finset.sum_ite_eq,
          Finset.mem_univ, if_true]
        apply Finset.sum_nonneg; intro i _
        have : 0 ≤ 1 / iv := by positivity
        nlinarith [mul_self_nonneg (z i)]
  | append_singleton rs r ih =>
      rw [kfRun_snoc]
      have hA : gramL (1 / iv) (rs ++ [r]) = fun i k => gramL (1 / iv) rs i k + r.1 i * r.1 k := by
        funext i k; simp only [gramL, List.map_append, List.sum_append, List.map_cons, List.map_nil,
          List.sum_cons, List.sum_nil, add_zero]; ring
      have hr : rhsL (rs ++ [r]) = fun i => rhsL rs i + r.2 * r.1 i := by
        funext i; simp only [rhsL, List.map_append, List.sum_append, List.map_cons, List.map_nil,
          List.sum_cons, List.sum_nil, add_zero]
      rw [hA, hr]
      exact kfStep_inv ih r.1 r.2

theorem gramL_rows {n p : Nat} (lam : Rat) (X : Mat n p) (y : Vec n) :
    gramL lam (kfRows X y) = fun i k => (if i = k then lam else 0) + ∑ t, X t i * X t k := by
  funext i k
  simp only [gramL, kfRows, List.map_ofFn, List.sum_ofFn, Function.comp_def]

theorem rhsL_rows {n p : Nat} (X : Mat n p) (y : Vec n) :
    rhsL (kfRows X y) = fun i => ∑ t, y t * X t i := by
  funext i
  simp only [rhsL, kfRows, List.map_ofFn, List.sum_ofFn, Function.comp_def]

theorem kfFit_inv {n p : Nat} (X : Mat n p) (y : Vec n) :
    KFInv (fun i k => (if i = k then 1 / kfInitVar else 0) + ∑ t, X t i * X t k)
      (fun i => ∑ t, y t * X t i) (kfFit X y) := by
  have h := kfRun_inv kfInitVar (by unfold kfInitVar; norm_num) (kfRows X y)
  rw [gramL_rows, rhsL_rows] at h
  exact h

end NipyVerif.C05
