/- C05 — helper lemmas (bridge from the `Fin`-function model to Mathlib matrices). -/
import NipyVerif.Model.C05
import Mathlib.Data.Matrix.Mul
import Mathlib.Algebra.BigOperators.Fin
import Mathlib.Tactic.Ring
import Mathlib.Tactic.Linarith

namespace NipyVerif.C05
open Matrix

theorem fsum_eq {n : Nat} (f : Fin n → Rat) : fsum f = ∑ i, f i := by
  unfold fsum; exact List.sum_ofFn

end NipyVerif.C05
