/- C11 (wave 3) — lemmas for `Model/C11C.lean`: the sort key of `compact_neighb` and the slices it
   cuts, transposed matrix-to-graph conversion, all-ones adjacency counts. -/
import NipyVerif.Lemmas.C11Kru
import NipyVerif.Model.C11C
import Mathlib.Tactic.Ring
import Mathlib.Tactic.Linarith

namespace NipyVerif.C11

/-! ### the key `i * V + j` -/

theorem key_lt_of_src_lt (V i j i' j' : Nat) (hj : j < V) (h : i < i') : i * V + j < i' * V + j' := by
  have : (i + 1) * V ≤ i' * V := Nat.mul_le_mul_right V h
  have h2 : (i + 1) * V = i * V + V := by ring
  omega

theorem key_inj (V i j i' j' : Nat) (hj : j < V) (hj' : j' < V) (h : i * V + j = i' * V + j') :
    i = i' ∧ j = j' := by
  rcases Nat.lt_trichotomy i i' with hlt | heq | hgt
  · have := key_lt_of_src_lt V i j i' j' hj hlt; omega
  · subst heq; exact ⟨rfl, by omega⟩
  · have := key_lt_of_src_lt V i' j' i j hj' hgt; omega

theorem key_lt_iff (V i j i' j' : Nat) (hj : j < V) (hj' : j' < V) :
    i * V + j < i' * V + j' ↔ i < i' ∨ (i = i' ∧ j < j') := by
  constructor
  · intro h
    rcases Nat.lt_trichotomy i i' with hlt | heq | hgt
    · exact Or.inl hlt
    · subst heq; exact Or.inr ⟨rfl, by omega⟩
    · have := key_lt_of_src_lt V i' j' i j hj' hgt; omega
  · rintro (h | ⟨rfl, h⟩)
    · exact key_lt_of_src_lt V i j i' j' hj h
    · omega

theorem key_lt_sq (V i j : Nat) (hi : i < V) (hj : j < V) : i * V + j < V * V := by
  have : (i + 1) * V ≤ V * V := Nat.mul_le_mul_right V hi
  have h2 : (i + 1) * V = i * V + V := by ring
  omega

/-! ### a list sorted by source splits into the three filters -/

theorem filter_eq_nil_of_forall {α} (p : α → Bool) (l : List α) (h : ∀ x ∈ l, p x = false) : l.filter p = [] := by
  rw [List.filter_eq_nil_iff]
  intro x hx
  simp [h x hx]

theorem sorted_split (s : Edge → Nat) (v : Nat) : ∀ L : List Edge, L.Pairwise (fun a b => s a ≤ s b) →
    L.filter (fun e => decide (s e < v)) ++ L.filter (fun e => decide (s e = v)) ++
      L.filter (fun e => decide (v < s e)) = L
  | [], _ => by simp
  | a :: L, h => by
      have hL := (List.pairwise_cons.mp h).2
      have ha := (List.pairwise_cons.mp h).1
      have ih := sorted_split s v L hL
      rcases Nat.lt_trichotomy (s a) v with hlt | heq | hgt
      · have h1 : decide (s a < v) = true := by simpa using hlt
        have h2 : decide (s a = v) = false := by simp; omega
        have h3 : decide (v < s a) = false := by simp; omega
        rw [List.filter_cons, List.filter_cons, List.filter_cons]
        simp only [h1, h2, h3, if_true, Bool.false_eq_true, if_false]
        rw [List.cons_append, List.cons_append, ih]
      · have h1 : decide (s a < v) = false := by simp; omega
        have h2 : decide (s a = v) = true := by simpa using heq
        have h3 : decide (v < s a) = false := by simp; omega
        have hnil : L.filter (fun e => decide (s e < v)) = [] :=
          filter_eq_nil_of_forall _ L (fun x hx => by have := ha x hx; simp; omega)
        rw [List.filter_cons, List.filter_cons, List.filter_cons]
        simp only [h1, h2, h3, if_true, Bool.false_eq_true, if_false]
        rw [hnil] at ih ⊢
        simp only [List.nil_append, List.cons_append] at ih ⊢
        rw [ih]
      · have h1 : decide (s a < v) = false := by simp; omega
        have h2 : decide (s a = v) = false := by simp; omega
        have h3 : decide (v < s a) = true := by simpa using hgt
        have hnil1 : L.filter (fun e => decide (s e < v)) = [] :=
          filter_eq_nil_of_forall _ L (fun x hx => by have := ha x hx; simp; omega)
        have hnil2 : L.filter (fun e => decide (s e = v)) = [] :=
          filter_eq_nil_of_forall _ L (fun x hx => by have := ha x hx; simp; omega)
        rw [List.filter_cons, List.filter_cons, List.filter_cons]
        simp only [h1, h2, h3, if_true, Bool.false_eq_true, if_false]
        rw [hnil1, hnil2] at ih ⊢
        simp only [List.nil_append] at ih ⊢
        rw [ih]

theorem sorted_slice (s : Edge → Nat) (v : Nat) (L : List Edge) (h : L.Pairwise (fun a b => s a ≤ s b)) :
    (L.drop (L.filter (fun e => decide (s e < v))).length).take (L.filter (fun e => decide (s e = v))).length =
      L.filter (fun e => decide (s e = v)) := by
  have hs := sorted_split s v L h
  have gen : ∀ A B C : List Edge, ((A ++ B ++ C).drop A.length).take B.length = B := by
    intro A B C
    rw [List.append_assoc, List.drop_left, List.take_left]
  have := gen (L.filter (fun e => decide (s e < v))) (L.filter (fun e => decide (s e = v)))
    (L.filter (fun e => decide (v < s e)))
  rw [hs] at this
  exact this

/-! ### `cnIdx` counts the edges with a smaller source -/

theorem sum_take_map_range (f : Nat → Nat) (V : Nat) : ∀ v, v ≤ V →
    (((List.range V).map f).take v).sum = ((List.range v).map f).sum
  | v, hv => by
      rw [← List.map_take]
      congr 2
      rw [List.take_range, Nat.min_eq_left hv]

theorem filter_len_succ (es : List Edge) (v : Nat) :
    (es.filter (fun e => decide (e.1 < v))).length + (es.filter (fun e => e.1 == v)).length =
      (es.filter (fun e => decide (e.1 < v + 1))).length := by
  induction es with
  | nil => rfl
  | cons a es ih =>
      simp only [List.filter_cons]
      rcases Nat.lt_trichotomy a.1 v with h | h | h
      · have h1 : decide (a.1 < v) = true := by simp [h]
        have h2 : (a.1 == v) = false := by simp; omega
        have h3 : decide (a.1 < v + 1) = true := by simp; omega
        rw [h1, h2, h3]
        simp only [↓reduceIte, Bool.false_eq_true, List.length_cons]
        omega
      · have h1 : decide (a.1 < v) = false := by simp; omega
        have h2 : (a.1 == v) = true := by simp [h]
        have h3 : decide (a.1 < v + 1) = true := by simp; omega
        rw [h1, h2, h3]
        simp only [↓reduceIte, Bool.false_eq_true, List.length_cons]
        omega
      · have h1 : decide (a.1 < v) = false := by simp; omega
        have h2 : (a.1 == v) = false := by simp; omega
        have h3 : decide (a.1 < v + 1) = false := by simp; omega
        rw [h1, h2, h3]
        simp only [↓reduceIte, Bool.false_eq_true]
        exact ih

theorem count_src_lt (es : List Edge) : ∀ v : Nat,
    ((List.range v).map (fun u => (es.filter (fun e => e.1 == u)).length)).sum =
      (es.filter (fun e => decide (e.1 < v))).length
  | 0 => by simp
  | v + 1 => by
      rw [List.range_succ, List.map_append, List.sum_append, count_src_lt es v]
      simp only [List.map_cons, List.map_nil, List.sum_cons, List.sum_nil, Nat.add_zero]
      exact filter_len_succ es v

theorem cnIdx_getD (g : Graph) (v : Nat) (hv : v ≤ g.V) :
    (cnIdx g).getD v 0 = (g.edges.filter (fun e => decide (e.1 < v))).length := by
  unfold cnIdx
  rw [List.getD_eq_getElem?_getD, List.getElem?_map, List.getElem?_range (by omega)]
  simp only [Option.map_some, Option.getD_some, degrees]
  rw [sum_take_map_range _ g.V v hv]
  exact count_src_lt g.edges v

theorem cnSorted_perm (g : Graph) : (cnSorted g).Perm g.edges := List.mergeSort_perm _ _

theorem cnSorted_sorted (g : Graph) : (cnSorted g).Pairwise (fun a b => cnKey g.V a ≤ cnKey g.V b) := by
  have := List.pairwise_mergeSort (le := fun (a b : Edge) => decide (cnKey g.V a ≤ cnKey g.V b))
    (by intro a b c h1 h2; simp only [decide_eq_true_eq] at *; exact le_trans h1 h2)
    (by intro a b; simp only [Bool.or_eq_true, decide_eq_true_eq]; exact le_total _ _) g.edges
  unfold cnSorted
  exact this.imp (by intro a b h; simpa using h)

theorem cnSorted_src_sorted (g : Graph) (hw : WF g) : (cnSorted g).Pairwise (fun a b => a.1 ≤ b.1) := by
  have hmem : ∀ e ∈ cnSorted g, e ∈ g.edges := fun e he => (cnSorted_perm g).mem_iff.mp he
  have hs := cnSorted_sorted g
  refine (List.Pairwise.and_mem.mp hs).imp ?_
  rintro a b ⟨ha, hb, hab⟩
  by_contra hc
  have hlt : b.1 < a.1 := by omega
  have := key_lt_of_src_lt g.V b.1 b.2.1 a.1 a.2.1 (hw b (hmem b hb)).2 hlt
  unfold cnKey at hab
  omega

/-! ### transposed matrix-to-graph conversion -/

def swapE (e : Edge) : Edge := (e.2.1, e.1, e.2.2)

theorem adjL_swap (es : List Edge) (i j : Nat) : adjL (es.map swapE) i j = adjL es j i := by
  induction es with
  | nil => simp [adjL]
  | cons e es ih =>
      rw [List.map_cons, adjL_cons, adjL_cons, ih]
      have hiff : ((swapE e).1 = i ∧ (swapE e).2.1 = j) ↔ (e.1 = j ∧ e.2.1 = i) := by
        simp [swapE, and_comm]
      have hw : (swapE e).2.2 = e.2.2 := rfl
      rw [hw]
      by_cases h : e.1 = j ∧ e.2.1 = i
      · rw [if_pos h, if_pos (hiff.mpr h)]
      · rw [if_neg h, if_neg (fun hh => h (hiff.mp hh))]

theorem swapE_swapE (e : Edge) : swapE (swapE e) = e := rfl

theorem map_swap_swap (es : List Edge) : (es.map swapE).map swapE = es := by
  rw [List.map_map]
  conv_rhs => rw [← List.map_id es]
  apply List.map_congr_left
  intro a _
  rfl

/-! ### all-ones rows: the adjacency counts the pairs -/

theorem adjL_ones_nonneg (pairs : List (Nat × Nat)) (i j : Nat) :
    0 ≤ adjL (pairs.map (fun p => (p.1, p.2, (1 : Rat)))) i j := by
  induction pairs with
  | nil => simp [adjL]
  | cons p ps ih =>
      rw [List.map_cons, adjL_cons]
      by_cases h : p.1 = i ∧ p.2 = j
      · simp only [h, and_self, if_true]; linarith
      · simp only [h, if_false]; linarith

theorem adjL_ones_pos_iff (pairs : List (Nat × Nat)) (i j : Nat) :
    0 < adjL (pairs.map (fun p => (p.1, p.2, (1 : Rat)))) i j ↔ (i, j) ∈ pairs := by
  induction pairs with
  | nil => simp [adjL]
  | cons p ps ih =>
      rw [List.map_cons, adjL_cons, List.mem_cons]
      have hnn := adjL_ones_nonneg ps i j
      by_cases h : p.1 = i ∧ p.2 = j
      · simp only [h, and_self, if_true]
        constructor
        · intro _; left; exact Prod.ext h.1.symm h.2.symm
        · intro _; linarith
      · simp only [h, if_false, zero_add]
        rw [ih]
        constructor
        · intro hh; right; exact hh
        · rintro (hh | hh)
          · exfalso; apply h; rw [← hh]; exact ⟨rfl, rfl⟩
          · exact hh

/-! ### `argmaxN` -/

theorem argmaxN_fold (l : List Nat) : ∀ (b m i : Nat) (pre : List Nat), pre.length = i + 1 → b ≤ i →
    pre.getD b 0 = m → (∀ k, k ≤ i → pre.getD k 0 ≤ m) → (∀ k, k < b → pre.getD k 0 < m) →
    let r := (l.foldl (fun (acc : Nat × Nat × Nat) y =>
          let i := acc.2.2 + 1
          if y > acc.2.1 then (i, y, i) else (acc.1, acc.2.1, i)) (b, m, i)).1
    r < (pre ++ l).length ∧ (∀ k, k < (pre ++ l).length → (pre ++ l).getD k 0 ≤ (pre ++ l).getD r 0) ∧
      (∀ k, k < r → (pre ++ l).getD k 0 < (pre ++ l).getD r 0) := by
  induction l with
  | nil =>
      intro b m i pre hlen hb hm hmax hfirst
      simp only [List.foldl_nil, List.append_nil]
      refine ⟨by omega, ?_, ?_⟩
      · intro k hk; rw [hm]; exact hmax k (by omega)
      · intro k hk; rw [hm]; exact hfirst k hk
  | cons y l ih =>
      intro b m i pre hlen hb hm hmax hfirst
      simp only [List.foldl_cons]
      have happ : pre ++ y :: l = (pre ++ [y]) ++ l := by simp
      have hget : ∀ k, k ≤ i → (pre ++ [y]).getD k 0 = pre.getD k 0 := by
        intro k hk
        rw [List.getD_eq_getElem?_getD, List.getD_eq_getElem?_getD, List.getElem?_append_left (by omega)]
      have hgety : (pre ++ [y]).getD (i + 1) 0 = y := by
        rw [List.getD_eq_getElem?_getD, List.getElem?_append_right (by omega)]
        simp [hlen]
      rw [happ]
      by_cases hy : y > m
      · simp only [hy, if_true]
        apply ih (i + 1) y (i + 1) (pre ++ [y]) (by simp [hlen]) (le_refl _) hgety
        · intro k hk
          rcases Nat.lt_or_ge k (i + 1) with h | h
          · rw [hget k (by omega)]; have := hmax k (by omega); omega
          · have : k = i + 1 := by omega
            rw [this, hgety]
        · intro k hk
          rw [hget k (by omega)]; have := hmax k (by omega); omega
      · simp only [hy, if_false]
        apply ih b m (i + 1) (pre ++ [y]) (by simp [hlen]) (by omega) (by rw [hget b hb]; exact hm)
        · intro k hk
          rcases Nat.lt_or_ge k (i + 1) with h | h
          · rw [hget k (by omega)]; exact hmax k (by omega)
          · have : k = i + 1 := by omega
            rw [this, hgety]; omega
        · intro k hk
          rw [hget k (by omega)]; exact hfirst k hk

/-- `np.argmax`: the first index of a largest entry -/
theorem argmaxN_spec (l : List Nat) (hne : l ≠ []) :
    argmaxN l < l.length ∧ (∀ k, k < l.length → l.getD k 0 ≤ l.getD (argmaxN l) 0) ∧
      (∀ k, k < argmaxN l → l.getD k 0 < l.getD (argmaxN l) 0) := by
  cases l with
  | nil => exact absurd rfl hne
  | cons x xs =>
      have := argmaxN_fold xs 0 x 0 [x] rfl (le_refl _) rfl
        (by intro k hk; have : k = 0 := by omega
            subst this; simp) (by intro k hk; omega)
      simpa [argmaxN] using this

theorem map_fst_zip_sublist {α β} : ∀ (l₁ : List α) (l₂ : List β), ((l₁.zip l₂).map Prod.fst).Sublist l₁
  | [], _ => by simp
  | _ :: _, [] => by simp
  | a :: as, _ :: bs => by
      simp only [List.zip_cons_cons, List.map_cons]
      exact (map_fst_zip_sublist as bs).cons₂ a


theorem list_sum_nonneg : ∀ (l : List Rat), (∀ x ∈ l, 0 ≤ x) → 0 ≤ l.sum
  | [], _ => by simp
  | a :: l, h => by
      rw [List.sum_cons]
      have h1 := h a (by simp)
      have h2 := list_sum_nonneg l (fun x hx => h x (List.mem_cons_of_mem _ hx))
      linarith


end NipyVerif.C11
