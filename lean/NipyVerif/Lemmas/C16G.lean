/-
C16 — the C16 model of `fff_permutation` / `fff_combination` equals the C17 model of the same routines
(bridging lemmas for `Props/C16G.lean`).
-/
import NipyVerif.Model.C16
import NipyVerif.Props.C17

namespace NipyVerif.C16

theorem permAux_eq_C17 : ∀ (nc : Nat) (rest : List Nat) (m : Nat), permAux nc rest m = C17.permAux nc rest m
  | 0, _, _ => rfl
  | nc + 1, rest, m => by
      unfold permAux C17.permAux
      rw [permAux_eq_C17 nc]

theorem combLoop_eq_C17 (aux : Nat) : ∀ i : Nat, combLoop aux i = C17.combLoop aux i
  | 0 => rfl
  | i + 1 => by
      unfold combLoop C17.combLoop
      rw [combLoop_eq_C17 aux i]

theorem combinations_eq_C17 (k n : Nat) : combinations k n = C17.combinations k n := by
  unfold combinations C17.combinations
  rw [combLoop_eq_C17]

/-- the fuelled loop of the C16 model is the structural loop of the C17 model whenever the residual magic is
    in range (`m < C(nn, kk)`, the invariant of `fff_combination`) -/
theorem combAux_eq_C17 : ∀ (f kk nn i m : Nat), kk ≤ nn → m < nn.choose kk → nn < f →
    combAux f kk nn i m = C17.combAux nn kk i m
  | 0, _, _, _, _, _, _, hf => by omega
  | f + 1, 0, nn, i, m, _, _, _ => by
      unfold combAux C17.combAux
      cases nn <;> rfl
  | f + 1, kk + 1, 0, i, m, hk, _, _ => by omega
  | f + 1, kk + 1, nn + 1, i, m, hk, hm, hf => by
      have hk' : kk ≤ nn := by omega
      have hc : combinations kk nn = nn.choose kk := by
        rw [combinations_eq_C17, C17.combinations_eq_choose kk nn hk']
      have hc' : C17.combinations kk nn = nn.choose kk := C17.combinations_eq_choose kk nn hk'
      unfold combAux C17.combAux
      simp only [Nat.add_sub_cancel, hc, hc']
      by_cases hlt : m < nn.choose kk
      · rw [if_pos hlt, if_pos hlt, combAux_eq_C17 f kk nn (i + 1) m hk' hlt (by omega)]
      · rw [if_neg hlt, if_neg hlt]
        have hp : (nn + 1).choose (kk + 1) = nn.choose kk + nn.choose (kk + 1) := Nat.choose_succ_succ nn kk
        have hm' : m - nn.choose kk < nn.choose (kk + 1) := by omega
        have hk2 : kk + 1 ≤ nn := by
          by_contra hcon
          have : nn.choose (kk + 1) = 0 := Nat.choose_eq_zero_of_lt (by omega)
          omega
        exact combAux_eq_C17 f (kk + 1) nn (i + 1) (m - nn.choose kk) hk2 hm' (by omega)

theorem permutation_eq_C17 (n magic : Nat) : permutation n magic = C17.permutation n magic :=
  permAux_eq_C17 n (List.range n) magic

theorem combination_eq_C17 (k n magic : Nat) (h : k ≤ n) : combination k n magic = C17.combination k n magic := by
  unfold combination C17.combination
  rw [combinations_eq_C17, C17.combinations_eq_choose k n h]
  exact combAux_eq_C17 (n + 1) k n 0 (magic % n.choose k) h (Nat.mod_lt _ (Nat.choose_pos h)) (by omega)

end NipyVerif.C16
