/- C11 — the lattice builder `graph_3d_grid`: the sort-by-linear-code trick finds exactly the pairs of
   points whose difference is the unit offset of a direction code (tables regenerated from the source). -/
import NipyVerif.Model.C11
import Mathlib.Tactic.Ring
import Mathlib.Tactic.Linarith
import Mathlib.Tactic.IntervalCases

namespace NipyVerif.C11

/-! ### neighbours in a strictly increasing list -/

theorem adjacentPairs_iff (l1 : Int) (hl : 0 < l1) : ∀ (L : List (Int × Nat)),
    L.Pairwise (fun a b => a.1 < b.1) → ∀ p q,
    ((p, q) ∈ adjacentPairs l1 L ↔ ∃ a b, a ∈ L ∧ b ∈ L ∧ a.2 = p ∧ b.2 = q ∧ b.1 - a.1 = l1 ∧
        ∀ c ∈ L, ¬ (a.1 < c.1 ∧ c.1 < b.1))
  | [], _, p, q => by
      simp [adjacentPairs]
  | [a], _, p, q => by
      simp only [adjacentPairs, List.not_mem_nil, List.mem_singleton, false_iff]
      rintro ⟨a', b', rfl, rfl, _, _, hd, _⟩
      omega
  | a :: b :: rest, hp, p, q => by
      have hab : a.1 < b.1 := (List.pairwise_cons.mp hp).1 b (by simp)
      have harest : ∀ c ∈ rest, a.1 < c.1 := fun c hc => (List.pairwise_cons.mp hp).1 c (by simp [hc])
      have htail : (b :: rest).Pairwise (fun a b => a.1 < b.1) := (List.pairwise_cons.mp hp).2
      have hbrest : ∀ c ∈ rest, b.1 < c.1 := fun c hc => (List.pairwise_cons.mp htail).1 c hc
      have ih := adjacentPairs_iff l1 hl (b :: rest) htail p q
      simp only [adjacentPairs, List.mem_append]
      constructor
      · rintro (h | h)
        · split at h
          · next hd =>
              simp only [List.mem_singleton, Prod.mk.injEq] at h
              obtain ⟨rfl, rfl⟩ := h
              refine ⟨a, b, by simp, by simp, rfl, rfl, hd, ?_⟩
              intro c hc
              rcases List.mem_cons.mp hc with rfl | hc
              · omega
              · rcases List.mem_cons.mp hc with rfl | hc
                · omega
                · have := hbrest c hc; omega
          · simp at h
        · obtain ⟨a', b', ha', hb', h1, h2, hd, hbt⟩ := ih.mp h
          refine ⟨a', b', List.mem_cons_of_mem _ ha', List.mem_cons_of_mem _ hb', h1, h2, hd, ?_⟩
          intro c hc
          rcases List.mem_cons.mp hc with rfl | hc
          · have : c.1 < a'.1 := by
              rcases List.mem_cons.mp ha' with rfl | ha'
              · exact hab
              · exact harest a' ha'
            omega
          · exact hbt c hc
      · rintro ⟨a', b', ha', hb', h1, h2, hd, hbt⟩
        have hb'ne : b' ∈ b :: rest := by
          rcases List.mem_cons.mp hb' with rfl | h
          · exfalso
            rcases List.mem_cons.mp ha' with rfl | ha'
            · omega
            · have : b'.1 < a'.1 := by
                rcases List.mem_cons.mp ha' with rfl | ha'
                · exact hab
                · exact harest a' ha'
              omega
          · exact h
        rcases List.mem_cons.mp ha' with rfl | ha'
        · rcases List.mem_cons.mp hb'ne with rfl | hbr
          · left; rw [if_pos hd]; simp [h1, h2]
          · exfalso
            exact hbt b (by simp) ⟨hab, hbrest b' hbr⟩
        · right
          exact ih.mpr ⟨a', b', ha', hb'ne, h1, h2, hd, fun c hc => hbt c (List.mem_cons_of_mem _ hc)⟩

/-- the pairs found along one direction, in terms of the codes -/
theorem sortedPairs_iff (codes : List Int) (hnd : codes.Nodup) (l1 : Int) (hl : 0 < l1) (i j : Nat) :
    (i, j) ∈ adjacentPairs l1 ((codes.zipIdx).mergeSort (fun a b => a.1 ≤ b.1)) ↔
      ∃ ci cj : Int, codes[i]? = some ci ∧ codes[j]? = some cj ∧ cj - ci = l1 ∧
        ∀ (k : Nat) (ck : Int), codes[k]? = some ck → ¬ (ci < ck ∧ ck < cj) := by
  set L := (codes.zipIdx).mergeSort (fun a b => decide (a.1 ≤ b.1)) with hL
  have hperm : L.Perm codes.zipIdx := List.mergeSort_perm _ _
  have hmem : ∀ x : Int × Nat, x ∈ L ↔ codes[x.2]? = some x.1 := by
    intro x
    rw [hperm.mem_iff]
    exact List.mem_zipIdx_iff_getElem?
  have hle : L.Pairwise (fun a b => a.1 ≤ b.1) := by
    have := List.pairwise_mergeSort (le := fun (a b : Int × Nat) => decide (a.1 ≤ b.1))
      (by intro a b c h1 h2; simp only [decide_eq_true_eq] at *; exact le_trans h1 h2)
      (by intro a b; simp only [Bool.or_eq_true, decide_eq_true_eq]; exact le_total _ _) codes.zipIdx
    exact this.imp (by intro a b h; simpa using h)
  have hne0 : codes.zipIdx.Pairwise (fun a b => a.1 ≠ b.1) := by
    have h1 : (codes.zipIdx.map Prod.fst).Pairwise (fun a b => a ≠ b) := by
      rw [List.zipIdx_map_fst]; exact List.nodup_iff_pairwise_ne.mp hnd
    exact List.pairwise_map.mp h1
  have hne : L.Pairwise (fun a b => a.1 ≠ b.1) :=
    (List.Perm.pairwise_iff (fun {x y} h => Ne.symm h) hperm).mpr hne0
  have hlt : L.Pairwise (fun a b => a.1 < b.1) :=
    (hle.and hne).imp (fun {a b} h => lt_of_le_of_ne h.1 h.2)
  rw [adjacentPairs_iff l1 hl L hlt i j]
  constructor
  · rintro ⟨a, b, ha, hb, rfl, rfl, hd, hbt⟩
    refine ⟨a.1, b.1, (hmem a).mp ha, (hmem b).mp hb, hd, ?_⟩
    intro k ck hk
    exact hbt (ck, k) ((hmem (ck, k)).mpr hk)
  · rintro ⟨ci, cj, hi, hj, hd, hbt⟩
    refine ⟨(ci, i), (cj, j), (hmem _).mpr hi, (hmem _).mpr hj, rfl, rfl, hd, ?_⟩
    intro c hc
    exact hbt c.2 c.1 ((hmem c).mp hc)

/-! ### the positional code -/

/-- digit `k` (coefficient of `mᵏ`) of the code of a difference vector -/
def dig0 (R : Gen.Row) (d : Pt) : Int := d.1 * R.1.1.1 + d.2.1 * R.1.2.1.1 + d.2.2 * R.1.2.2.1
def dig1 (R : Gen.Row) (d : Pt) : Int := d.1 * R.1.1.2.1 + d.2.1 * R.1.2.1.2.1 + d.2.2 * R.1.2.2.2.1
def dig2 (R : Gen.Row) (d : Pt) : Int := d.1 * R.1.1.2.2 + d.2.1 * R.1.2.1.2.2 + d.2.2 * R.1.2.2.2.2

def sub3 (q p : Pt) : Pt := (q.1 - p.1, q.2.1 - p.2.1, q.2.2 - p.2.2)

theorem code_sub (m : Int) (R : Gen.Row) (p q : Pt) :
    code m R q - code m R p = dig0 R (sub3 q p) + m * (dig1 R (sub3 q p) + m * dig2 R (sub3 q p)) := by
  simp only [code, evalPoly, dig0, dig1, dig2, sub3]
  ring

theorem digit_zero (m a r t : Int) (hm : 0 < m) (h : a + m * r = t) (h1 : -m < a - t) (h2 : a - t < m) :
    r = 0 ∧ a = t := by
  have hr : r = 0 := by
    by_contra hne
    rcases lt_or_gt_of_ne hne with hlt | hgt
    · have : m * r ≤ -m := by nlinarith
      linarith
    · have : m ≤ m * r := by nlinarith
      linarith
  subst hr
  exact ⟨rfl, by linarith⟩

/-- what a direction code must satisfy (checked row by row on the regenerated tables):
    within the coordinate ranges the two low digits stay below the base, the digit system
    `(t, 0, 0)` has the row's unit offset as its only non-zero solution, with `t = l1` -/
def RowOK (R : Gen.Row) (l1 : Int) : Prop :=
  (∀ dx dy dz M0 M1 M2 t : Int, -M0 ≤ dx → dx ≤ M0 → -M1 ≤ dy → dy ≤ M1 → -M2 ≤ dz → dz ≤ M2 →
      0 ≤ t → t ≤ l1 → ¬ (dx = 0 ∧ dy = 0 ∧ dz = 0) →
      (-(Gen.baseA * (M0 + M1 + M2) + Gen.baseB) < dig0 R (dx, dy, dz) - t ∧
       dig0 R (dx, dy, dz) - t < Gen.baseA * (M0 + M1 + M2) + Gen.baseB ∧
       -(Gen.baseA * (M0 + M1 + M2) + Gen.baseB) < dig1 R (dx, dy, dz) ∧
       dig1 R (dx, dy, dz) < Gen.baseA * (M0 + M1 + M2) + Gen.baseB ∧
       0 < Gen.baseA * (M0 + M1 + M2) + Gen.baseB ∧
       (dig0 R (dx, dy, dz) = t → dig1 R (dx, dy, dz) = 0 → dig2 R (dx, dy, dz) = 0 →
          (dx, dy, dz) = R.2 ∧ t = l1))) ∧
  dig0 R R.2 = l1 ∧ dig1 R R.2 = 0 ∧ dig2 R R.2 = 0

theorem row_solve (R : Gen.Row) (l1 : Int) (hR : RowOK R l1) (M0 M1 M2 : Int) (p q : Pt)
    (hp : 0 ≤ p.1 ∧ p.1 ≤ M0 ∧ 0 ≤ p.2.1 ∧ p.2.1 ≤ M1 ∧ 0 ≤ p.2.2 ∧ p.2.2 ≤ M2)
    (hq : 0 ≤ q.1 ∧ q.1 ≤ M0 ∧ 0 ≤ q.2.1 ∧ q.2.1 ≤ M1 ∧ 0 ≤ q.2.2 ∧ q.2.2 ≤ M2)
    (t : Int) (ht0 : 0 ≤ t) (ht1 : t ≤ l1) :
    code (Gen.baseA * (M0 + M1 + M2) + Gen.baseB) R q - code (Gen.baseA * (M0 + M1 + M2) + Gen.baseB) R p = t ↔
      (q = p ∧ t = 0) ∨ (sub3 q p = R.2 ∧ t = l1) := by
  obtain ⟨hmain, ho0, ho1, ho2⟩ := hR
  rw [code_sub]
  constructor
  · intro h
    by_cases hz : q.1 - p.1 = 0 ∧ q.2.1 - p.2.1 = 0 ∧ q.2.2 - p.2.2 = 0
    · left
      have hqp : q = p := by
        obtain ⟨h1, h2, h3⟩ := hz
        exact Prod.ext (by omega) (Prod.ext (by omega) (by omega))
      subst hqp
      refine ⟨rfl, ?_⟩
      simp only [sub3, sub_self, dig0, dig1, dig2, zero_mul, add_zero, mul_zero] at h
      exact h.symm
    · right
      obtain ⟨b1, b2, b3, b4, hm, hsol⟩ := hmain (q.1 - p.1) (q.2.1 - p.2.1) (q.2.2 - p.2.2) M0 M1 M2 t
        (by omega) (by omega) (by omega) (by omega) (by omega) (by omega) ht0 ht1 hz
      have hsub : sub3 q p = (q.1 - p.1, q.2.1 - p.2.1, q.2.2 - p.2.2) := rfl
      rw [hsub] at h ⊢
      obtain ⟨hr, ha⟩ := digit_zero _ _ _ t hm h b1 b2
      obtain ⟨hr2, ha2⟩ := digit_zero _ _ _ 0 hm hr (by linarith) (by linarith)
      exact hsol ha ha2 hr2
  · rintro (⟨rfl, rfl⟩ | ⟨hd, rfl⟩)
    · simp [sub3, dig0, dig1, dig2]
    · rw [hd, ho0, ho1, ho2]; ring

set_option maxRecDepth 2000 in
theorem n6_ok : ∀ R ∈ Gen.n6, RowOK R Gen.l6 := by
  intro R hR
  simp only [Gen.n6, List.mem_cons, List.not_mem_nil, or_false] at hR
  rcases hR with rfl | rfl | rfl <;>
    (refine ⟨?_, by decide, by decide, by decide⟩
     intro dx dy dz M0 M1 M2 t h1 h2 h3 h4 h5 h6 h7 h8 h9
     simp only [dig0, dig1, dig2, Gen.baseA, Gen.baseB, Gen.l6, Prod.mk.injEq] at *
     omega)

set_option maxRecDepth 2000 in
theorem n18_ok : ∀ R ∈ Gen.n18, RowOK R Gen.l18 := by
  intro R hR
  simp only [Gen.n18, List.mem_cons, List.not_mem_nil, or_false] at hR
  rcases hR with rfl | rfl | rfl | rfl | rfl | rfl <;>
    (refine ⟨?_, by decide, by decide, by decide⟩
     intro dx dy dz M0 M1 M2 t h1 h2 h3 h4 h5 h6 h7 h8 h9
     simp only [dig0, dig1, dig2, Gen.baseA, Gen.baseB, Gen.l18, Prod.mk.injEq] at *
     omega)

set_option maxRecDepth 2000 in
theorem n26_ok : ∀ R ∈ Gen.n26, RowOK R Gen.l26 := by
  intro R hR
  simp only [Gen.n26, List.mem_cons, List.not_mem_nil, or_false] at hR
  rcases hR with rfl | rfl | rfl | rfl <;>
    (refine ⟨?_, by decide, by decide, by decide⟩
     intro dx dy dz M0 M1 M2 t h1 h2 h3 h4 h5 h6 h7 h8 h9
     simp only [dig0, dig1, dig2, Gen.baseA, Gen.baseB, Gen.l26, Prod.mk.injEq] at *
     omega)

/-! ### one direction code on a set of points -/

def InBox (M0 M1 M2 : Int) (p : Pt) : Prop :=
  0 ≤ p.1 ∧ p.1 ≤ M0 ∧ 0 ≤ p.2.1 ∧ p.2.1 ≤ M1 ∧ 0 ≤ p.2.2 ∧ p.2.2 ≤ M2

theorem getElem?_map_some {α β} (f : α → β) (l : List α) (i : Nat) (c : β) (h : (l.map f)[i]? = some c) :
    ∃ p, l[i]? = some p ∧ c = f p := by
  rw [List.getElem?_map] at h
  cases hp : l[i]? with
  | none => rw [hp] at h; simp at h
  | some p => rw [hp] at h; simp at h; exact ⟨p, rfl, h.symm⟩

theorem rowPairs_iff (R : Gen.Row) (l1 : Int) (hR : RowOK R l1) (hl : 0 < l1) (M0 M1 M2 : Int)
    (pts : List Pt) (hnd : pts.Nodup) (hbox : ∀ p ∈ pts, InBox M0 M1 M2 p) (i j : Nat) :
    (i, j) ∈ rowPairs (Gen.baseA * (M0 + M1 + M2) + Gen.baseB) pts l1 R ↔
      ∃ p q, pts[i]? = some p ∧ pts[j]? = some q ∧ sub3 q p = R.2 := by
  have solve := fun (p q : Pt) (hp : p ∈ pts) (hq : q ∈ pts) (t : Int) (h0 : 0 ≤ t) (h1 : t ≤ l1) =>
    row_solve R l1 hR M0 M1 M2 p q (hbox p hp) (hbox q hq) t h0 h1
  have hcn : (pts.map (code (Gen.baseA * (M0 + M1 + M2) + Gen.baseB) R)).Nodup := by
    rw [List.nodup_iff_pairwise_ne, List.pairwise_map]
    refine (List.nodup_iff_pairwise_ne.mp hnd).imp_of_mem ?_
    intro a b ha hb hne heq
    have := (solve a b ha hb 0 (le_refl _) (le_of_lt hl)).mp (by rw [heq]; ring)
    rcases this with ⟨h, _⟩ | ⟨_, h⟩
    · exact hne h.symm
    · omega
  unfold rowPairs
  rw [sortedPairs_iff _ hcn l1 hl i j]
  constructor
  · rintro ⟨ci, cj, hi, hj, hd, _⟩
    obtain ⟨p, hp, rfl⟩ := getElem?_map_some _ _ _ _ hi
    obtain ⟨q, hq, rfl⟩ := getElem?_map_some _ _ _ _ hj
    refine ⟨p, q, hp, hq, ?_⟩
    have := (solve p q (List.mem_of_getElem? hp) (List.mem_of_getElem? hq) l1 (le_of_lt hl) (le_refl _)).mp hd
    rcases this with ⟨_, h⟩ | ⟨h, _⟩
    · omega
    · exact h
  · rintro ⟨p, q, hp, hq, hd⟩
    have hpm := List.mem_of_getElem? hp
    have hqm := List.mem_of_getElem? hq
    refine ⟨code _ R p, code _ R q, by rw [List.getElem?_map, hp]; rfl, by rw [List.getElem?_map, hq]; rfl, ?_, ?_⟩
    · exact (solve p q hpm hqm l1 (le_of_lt hl) (le_refl _)).mpr (Or.inr ⟨hd, rfl⟩)
    · intro k ck hk hbt
      obtain ⟨r, hr, rfl⟩ := getElem?_map_some _ _ _ _ hk
      have hrm := List.mem_of_getElem? hr
      have hd' := (solve p q hpm hqm l1 (le_of_lt hl) (le_refl _)).mpr (Or.inr ⟨hd, rfl⟩)
      have := (solve p r hpm hrm (code _ R r - code _ R p) (by omega) (by omega)).mp rfl
      rcases this with ⟨_, h⟩ | ⟨_, h⟩ <;> omega

theorem createEdges_iff (m : Int) (pts : List Pt) (nn : List Gen.Row) (l1 : Int) (i j : Nat) (l : Int) :
    (i, j, l) ∈ createEdges m pts nn l1 ↔
      l = l1 ∧ ∃ R ∈ nn, ((i, j) ∈ rowPairs m pts l1 R ∨ (j, i) ∈ rowPairs m pts l1 R) := by
  simp only [createEdges, List.mem_flatMap, List.mem_cons, List.not_mem_nil, or_false, Prod.mk.injEq]
  constructor
  · rintro ⟨R, hR, pr, hpr, (⟨rfl, rfl, rfl⟩ | ⟨rfl, rfl, rfl⟩)⟩
    · exact ⟨rfl, R, hR, Or.inl hpr⟩
    · exact ⟨rfl, R, hR, Or.inr hpr⟩
  · rintro ⟨rfl, R, hR, (h | h)⟩
    · exact ⟨R, hR, (i, j), h, Or.inl ⟨rfl, rfl, rfl⟩⟩
    · exact ⟨R, hR, (j, i), h, Or.inr ⟨rfl, rfl, rfl⟩⟩

/-! ### the bounding box -/

theorem foldl_min_le : ∀ (l : List Int) (a : Int), l.foldl min a ≤ a ∧ ∀ x ∈ l, l.foldl min a ≤ x
  | [], a => ⟨le_refl _, by simp⟩
  | b :: l, a => by
      obtain ⟨h1, h2⟩ := foldl_min_le l (min a b)
      simp only [List.foldl_cons]
      refine ⟨le_trans h1 (min_le_left _ _), ?_⟩
      intro x hx
      rcases List.mem_cons.mp hx with rfl | hx
      · exact le_trans h1 (min_le_right _ _)
      · exact h2 x hx

theorem le_foldl_max : ∀ (l : List Int) (a : Int), a ≤ l.foldl max a ∧ ∀ x ∈ l, x ≤ l.foldl max a
  | [], a => ⟨le_refl _, by simp⟩
  | b :: l, a => by
      obtain ⟨h1, h2⟩ := le_foldl_max l (max a b)
      simp only [List.foldl_cons]
      refine ⟨le_trans (le_max_left _ _) h1, ?_⟩
      intro x hx
      rcases List.mem_cons.mp hx with rfl | hx
      · exact le_trans (le_max_right _ _) h1
      · exact h2 x hx

theorem minL_le (l : List Int) (x : Int) (hx : x ∈ l) : minL l ≤ x := by
  cases l with
  | nil => simp at hx
  | cons a l =>
      simp only [minL]
      rcases List.mem_cons.mp hx with rfl | hx
      · exact (foldl_min_le l _).1
      · exact (foldl_min_le l a).2 x hx

theorem le_maxL (l : List Int) (x : Int) (hx : x ∈ l) : x ≤ maxL l := by
  cases l with
  | nil => simp at hx
  | cons a l =>
      simp only [maxL]
      rcases List.mem_cons.mp hx with rfl | hx
      · exact (le_foldl_max l _).1
      · exact (le_foldl_max l a).2 x hx

/-- the shift applied by `shiftPts` -/
def shift1 (xyz : List Pt) (p : Pt) : Pt :=
  (p.1 - minL (xyz.map (·.1)), p.2.1 - minL (xyz.map (·.2.1)), p.2.2 - minL (xyz.map (·.2.2)))

theorem shiftPts_eq (xyz : List Pt) : shiftPts xyz = xyz.map (shift1 xyz) := rfl

theorem shift1_inj (xyz : List Pt) (p q : Pt) (h : shift1 xyz p = shift1 xyz q) : p = q := by
  simp only [shift1, Prod.mk.injEq] at h
  obtain ⟨h1, h2, h3⟩ := h
  exact Prod.ext (by omega) (Prod.ext (by omega) (by omega))

theorem sub3_shift (xyz : List Pt) (p q : Pt) : sub3 (shift1 xyz q) (shift1 xyz p) = sub3 q p := by
  simp only [sub3, shift1, Prod.mk.injEq]
  refine ⟨by omega, by omega, by omega⟩

theorem shiftPts_box (xyz : List Pt) (p : Pt) (hp : p ∈ shiftPts xyz) :
    InBox (maxL ((shiftPts xyz).map (·.1))) (maxL ((shiftPts xyz).map (·.2.1))) (maxL ((shiftPts xyz).map (·.2.2))) p := by
  have hp' := hp
  rw [shiftPts_eq, List.mem_map] at hp'
  obtain ⟨p0, hp0, rfl⟩ := hp'
  refine ⟨?_, le_maxL _ _ (List.mem_map.mpr ⟨_, hp, rfl⟩), ?_, le_maxL _ _ (List.mem_map.mpr ⟨_, hp, rfl⟩), ?_,
    le_maxL _ _ (List.mem_map.mpr ⟨_, hp, rfl⟩)⟩
  · have := minL_le (xyz.map (·.1)) p0.1 (List.mem_map.mpr ⟨p0, hp0, rfl⟩)
    simp only [shift1]; omega
  · have := minL_le (xyz.map (·.2.1)) p0.2.1 (List.mem_map.mpr ⟨p0, hp0, rfl⟩)
    simp only [shift1]; omega
  · have := minL_le (xyz.map (·.2.2)) p0.2.2 (List.mem_map.mpr ⟨p0, hp0, rfl⟩)
    simp only [shift1]; omega

theorem shiftPts_nodup (xyz : List Pt) (h : xyz.Nodup) : (shiftPts xyz).Nodup := by
  rw [shiftPts_eq, List.nodup_iff_pairwise_ne, List.pairwise_map]
  exact (List.nodup_iff_pairwise_ne.mp h).imp (fun {a b} hne heq => hne (shift1_inj xyz a b heq))

/-- a family of direction codes on the shifted points, in terms of the original points -/
theorem family_iff (xyz : List Pt) (hnd : xyz.Nodup) (nn : List Gen.Row) (l1 : Int) (hl : 0 < l1)
    (hok : ∀ R ∈ nn, RowOK R l1) (i j : Nat) (l : Int) :
    (i, j, l) ∈ createEdges (gridBase (shiftPts xyz)) (shiftPts xyz) nn l1 ↔
      l = l1 ∧ ∃ p q, xyz[i]? = some p ∧ xyz[j]? = some q ∧
        ∃ R ∈ nn, (sub3 q p = R.2 ∨ sub3 p q = R.2) := by
  rw [createEdges_iff]
  have hrow : ∀ R ∈ nn, ∀ a b : Nat, (a, b) ∈ rowPairs (gridBase (shiftPts xyz)) (shiftPts xyz) l1 R ↔
      ∃ p q, xyz[a]? = some p ∧ xyz[b]? = some q ∧ sub3 q p = R.2 := by
    intro R hR a b
    unfold gridBase
    rw [rowPairs_iff R l1 (hok R hR) hl _ _ _ (shiftPts xyz) (shiftPts_nodup xyz hnd) (shiftPts_box xyz) a b]
    constructor
    · rintro ⟨p', q', hp', hq', hd⟩
      rw [shiftPts_eq] at hp' hq'
      obtain ⟨p, hp, rfl⟩ := getElem?_map_some _ _ _ _ hp'
      obtain ⟨q, hq, rfl⟩ := getElem?_map_some _ _ _ _ hq'
      exact ⟨p, q, hp, hq, by rw [← sub3_shift xyz]; exact hd⟩
    · rintro ⟨p, q, hp, hq, hd⟩
      refine ⟨shift1 xyz p, shift1 xyz q, ?_, ?_, by rw [sub3_shift]; exact hd⟩
      · rw [shiftPts_eq, List.getElem?_map, hp]; rfl
      · rw [shiftPts_eq, List.getElem?_map, hq]; rfl
  constructor
  · rintro ⟨rfl, R, hR, (h | h)⟩
    · obtain ⟨p, q, hp, hq, hd⟩ := (hrow R hR i j).mp h
      exact ⟨rfl, p, q, hp, hq, R, hR, Or.inl hd⟩
    · obtain ⟨q, p, hq, hp, hd⟩ := (hrow R hR j i).mp h
      exact ⟨rfl, p, q, hp, hq, R, hR, Or.inr hd⟩
  · rintro ⟨rfl, p, q, hp, hq, R, hR, (hd | hd)⟩
    · exact ⟨rfl, R, hR, Or.inl ((hrow R hR i j).mpr ⟨p, q, hp, hq, hd⟩)⟩
    · exact ⟨rfl, R, hR, Or.inr ((hrow R hR j i).mpr ⟨q, p, hq, hp, hd⟩)⟩

/-! ### the offsets of the tables are the 6 / 12 / 8 unit offsets of squared length 1 / 2 / 3 -/

/-- `d` is a lattice offset with all components in {−1, 0, 1} and squared length `l` -/
def unitOffset (d : Pt) (l : Int) : Prop :=
  -1 ≤ d.1 ∧ d.1 ≤ 1 ∧ -1 ≤ d.2.1 ∧ d.2.1 ≤ 1 ∧ -1 ≤ d.2.2 ∧ d.2.2 ≤ 1 ∧
    d.1 * d.1 + d.2.1 * d.2.1 + d.2.2 * d.2.2 = l

instance (d : Pt) (l : Int) : Decidable (unitOffset d l) := by unfold unitOffset; infer_instance

/-- some direction code of the family detects `d` or `−d` -/
def tableHas (nn : List Gen.Row) (d : Pt) : Prop :=
  ∃ R ∈ nn, d = R.2 ∨ (-d.1, -d.2.1, -d.2.2) = R.2

instance (nn : List Gen.Row) (d : Pt) : Decidable (tableHas nn d) := by unfold tableHas; infer_instance

theorem unitOffset_of_tableHas (nn : List Gen.Row) (l : Int)
    (hnn : ∀ R ∈ nn, unitOffset R.2 l) (d : Pt) (h : tableHas nn d) : unitOffset d l := by
  obtain ⟨R, hR, (h | h)⟩ := h
  · rw [h]; exact hnn R hR
  · have := hnn R hR
    rw [← h] at this
    simp only [unitOffset] at this ⊢
    obtain ⟨h1, h2, h3, h4, h5, h6, h7⟩ := this
    refine ⟨by omega, by omega, by omega, by omega, by omega, by omega, ?_⟩
    linarith [h7, neg_mul_neg d.1 d.1, neg_mul_neg d.2.1 d.2.1, neg_mul_neg d.2.2 d.2.2]

set_option maxRecDepth 4000 in
theorem tableHas_of_unitOffset (nn : List Gen.Row) (l : Int)
    (hall : ∀ dx ∈ [(-1 : Int), 0, 1], ∀ dy ∈ [(-1 : Int), 0, 1], ∀ dz ∈ [(-1 : Int), 0, 1],
      dx * dx + dy * dy + dz * dz = l → tableHas nn (dx, dy, dz))
    (d : Pt) (h : unitOffset d l) : tableHas nn d := by
  obtain ⟨h1, h2, h3, h4, h5, h6, h7⟩ := h
  obtain ⟨dx, dy, dz⟩ := d
  simp only at h1 h2 h3 h4 h5 h6 h7
  apply hall dx _ dy _ dz _ h7
  · simp only [List.mem_cons, List.not_mem_nil, or_false]; omega
  · simp only [List.mem_cons, List.not_mem_nil, or_false]; omega
  · simp only [List.mem_cons, List.not_mem_nil, or_false]; omega

theorem n6_geom (d : Pt) : tableHas Gen.n6 d ↔ unitOffset d 1 :=
  ⟨unitOffset_of_tableHas Gen.n6 1 (by decide) d, tableHas_of_unitOffset Gen.n6 1 (by decide) d⟩

theorem n18_geom (d : Pt) : tableHas Gen.n18 d ↔ unitOffset d 2 :=
  ⟨unitOffset_of_tableHas Gen.n18 2 (by decide) d, tableHas_of_unitOffset Gen.n18 2 (by decide) d⟩

theorem n26_geom (d : Pt) : tableHas Gen.n26 d ↔ unitOffset d 3 :=
  ⟨unitOffset_of_tableHas Gen.n26 3 (by decide) d, tableHas_of_unitOffset Gen.n26 3 (by decide) d⟩

theorem tableHas_sub3 (nn : List Gen.Row) (p q : Pt) :
    (∃ R ∈ nn, (sub3 q p = R.2 ∨ sub3 p q = R.2)) ↔ tableHas nn (sub3 q p) := by
  have : sub3 p q = (-(sub3 q p).1, -(sub3 q p).2.1, -(sub3 q p).2.2) := by
    simp only [sub3, Prod.mk.injEq]; refine ⟨by omega, by omega, by omega⟩
  rw [this]; rfl

/-- **the lattice builder**: rows of `graph_3d_grid` before the final reordering -/
theorem gridEdges_iff (xyz : List Pt) (hnd : xyz.Nodup) (k i j : Nat) (l : Int) :
    (i, j, l) ∈ gridEdges xyz k ↔
      ∃ p q, xyz[i]? = some p ∧ xyz[j]? = some q ∧ unitOffset (sub3 q p) l ∧
        (l = 1 ∨ (l = 2 ∧ 18 ≤ k) ∨ (l = 3 ∧ k = 26)) := by
  unfold gridEdges
  simp only [List.mem_append]
  rw [family_iff xyz hnd Gen.n6 Gen.l6 (by decide) n6_ok]
  have h18 : (i, j, l) ∈ (if k ≥ 18 then createEdges (gridBase (shiftPts xyz)) (shiftPts xyz) Gen.n18 Gen.l18 else []) ↔
      18 ≤ k ∧ l = 2 ∧ ∃ p q, xyz[i]? = some p ∧ xyz[j]? = some q ∧ tableHas Gen.n18 (sub3 q p) := by
    by_cases hk : k ≥ 18
    · rw [if_pos hk, family_iff xyz hnd Gen.n18 Gen.l18 (by decide) n18_ok]
      simp only [tableHas_sub3, Gen.l18]
      exact ⟨fun h => ⟨hk, h⟩, fun h => h.2⟩
    · rw [if_neg hk]; simp only [List.not_mem_nil, false_iff]; intro h; exact hk h.1
  have h26 : (i, j, l) ∈ (if k = 26 then createEdges (gridBase (shiftPts xyz)) (shiftPts xyz) Gen.n26 Gen.l26 else []) ↔
      k = 26 ∧ l = 3 ∧ ∃ p q, xyz[i]? = some p ∧ xyz[j]? = some q ∧ tableHas Gen.n26 (sub3 q p) := by
    by_cases hk : k = 26
    · rw [if_pos hk, family_iff xyz hnd Gen.n26 Gen.l26 (by decide) n26_ok]
      simp only [tableHas_sub3, Gen.l26]
      exact ⟨fun h => ⟨hk, h⟩, fun h => h.2⟩
    · rw [if_neg hk]; simp only [List.not_mem_nil, false_iff]; intro h; exact hk h.1
  rw [h18, h26]
  simp only [tableHas_sub3, Gen.l6]
  constructor
  · rintro ((⟨rfl, p, q, hp, hq, h⟩ | ⟨hk, rfl, p, q, hp, hq, h⟩) | ⟨hk, rfl, p, q, hp, hq, h⟩)
    · exact ⟨p, q, hp, hq, (n6_geom _).mp h, Or.inl rfl⟩
    · exact ⟨p, q, hp, hq, (n18_geom _).mp h, Or.inr (Or.inl ⟨rfl, hk⟩)⟩
    · exact ⟨p, q, hp, hq, (n26_geom _).mp h, Or.inr (Or.inr ⟨rfl, hk⟩)⟩
  · rintro ⟨p, q, hp, hq, hu, (rfl | ⟨rfl, hk⟩ | ⟨rfl, hk⟩)⟩
    · exact Or.inl (Or.inl ⟨rfl, p, q, hp, hq, (n6_geom _).mpr hu⟩)
    · exact Or.inl (Or.inr ⟨hk, rfl, p, q, hp, hq, (n18_geom _).mpr hu⟩)
    · exact Or.inr ⟨hk, rfl, p, q, hp, hq, (n26_geom _).mpr hu⟩

end NipyVerif.C11
