/-
C07 — helper lemmas for `Props/C07Expr.lean` and `Props/C07Mk.lean`.
-/
import NipyVerif.Lemmas.C07Grid
import NipyVerif.Model.C07Mk
import NipyVerif.Lemmas.C07Names

namespace NipyVerif.C07

/-- `max(int(x), 1)` as a natural number and as a rational -/
theorem cast_max_toNat_one (a : Int) : ((max a.toNat 1 : Nat) : Rat) = max ((a : Int) : Rat) (1 : Rat) := by
  rcases le_or_gt 0 a with h | h
  · obtain ⟨k, rfl⟩ := Int.eq_ofNat_of_zero_le h
    simp [Nat.cast_max]
  · have h0 : a.toNat = 0 := Int.toNat_eq_zero.mpr (le_of_lt h)
    have h1 : ((a : Int) : Rat) ≤ 1 := by
      have : ((a : Int) : Rat) < 0 := by exact_mod_cast h
      linarith
    rw [h0, max_eq_right h1]
    simp

/-! ### sums -/

theorem sum_map_div (l : List Rat) (s : Rat) : (l.map (fun x => x / s)).sum = l.sum / s := by
  induction l with
  | nil => simp
  | cons a l ih => simp only [List.map_cons, List.sum_cons, ih]; ring

theorem sum_zipWith_scaled_sub (c : Rat) : ∀ (a b : List Rat), a.length = b.length →
    (List.zipWith (fun x y => c * (x - y)) a b).sum = c * (a.sum - b.sum)
  | [], [], _ => by simp
  | [], _ :: _, h => by simp at h
  | _ :: _, [], h => by simp at h
  | x :: a, y :: b, h => by
      have ih := sum_zipWith_scaled_sub c a b (by simpa using h)
      simp only [List.zipWith_cons_cons, List.sum_cons, ih]
      ring

/-! ### Gram–Schmidt keeps the first column and the number of columns -/

theorem orthogonalize_length (cols : List (List Rat)) : (orthogonalize cols).length = cols.length := by
  induction cols using List.reverseRecOn with
  | nil => simp [orthogonalize]
  | append_singleton cs c ih => rw [orthogonalize_snoc]; simp [ih]

theorem orthogonalize_cons_head (c : List Rat) (cs : List (List Rat)) :
    ∃ rest, orthogonalize (c :: cs) = c :: rest ∧ rest.length = cs.length := by
  induction cs using List.reverseRecOn with
  | nil => exact ⟨[], by simp [orthogonalize, projOut], rfl⟩
  | append_singleton cs d ih =>
      obtain ⟨rest, h, hl⟩ := ih
      refine ⟨rest ++ [projOut (c :: rest) d], ?_, by simp [hl]⟩
      rw [← List.cons_append, orthogonalize_snoc, h]
      simp

/-! ### bounds by the largest absolute value -/

theorem foldl_max_ge_init (l : List Rat) (a : Rat) : a ≤ l.foldl max a := by
  induction l generalizing a with
  | nil => simp
  | cons x l ih => simp only [List.foldl_cons]; exact le_trans (le_max_left a x) (ih _)

theorem foldl_max_ge_mem (l : List Rat) (a x : Rat) (hx : x ∈ l) : x ≤ l.foldl max a := by
  induction l generalizing a with
  | nil => simp at hx
  | cons y l ih =>
      simp only [List.foldl_cons]
      rcases List.mem_cons.mp hx with rfl | h
      · exact le_trans (le_max_right a x) (foldl_max_ge_init l _)
      · exact ih _ h

theorem le_listMax (l : List Rat) (x : Rat) (hx : x ∈ l) : x ≤ listMax l :=
  foldl_max_ge_mem l _ x hx

/-! ### `make_dmtx`: the number of drift columns is `_make_drift`'s -/

theorem makeDmtxParts_drift (s : DmSpec) (conds : List String) (m : Hrf) (add : List String) (nd : Nat)
    (h : makeDmtxParts s = .ok (conds, m, add, nd)) :
    driftCols s.drift s.nframes s.dt s.hfcut s.order = .ok nd := by
  unfold makeDmtxParts at h
  cases h1 : addCols s.nframes s.addShape with
  | error e => simp [h1, bind, Except.bind] at h
  | ok nadd =>
    cases h5 : driftCols s.drift s.nframes s.dt s.hfcut s.order with
    | error e =>
        exfalso
        cases h2 : s.addNames <;> cases h3 : s.paradigm <;>
          simp [h1, h2, h3, h5, bind, Except.bind, pure, Except.pure, throw, throwThe,
            MonadExceptOf.throw] at h
        all_goals (repeat' split at h)
        all_goals cases h
    | ok nd' =>
        cases h2 : s.addNames <;> cases h3 : s.paradigm <;>
          simp [h1, h2, h3, h5, bind, Except.bind, pure, Except.pure, throw, throwThe,
            MonadExceptOf.throw] at h
        all_goals (repeat' split at h)
        all_goals first
          | rfl
          | (cases h; first | rfl | simp_all)
          | simp_all

end NipyVerif.C07
