/- Helper lemmas for C10S (object store, histories). -/
import NipyVerif.Lemmas.C10
import NipyVerif.Model.C10S

namespace NipyVerif.C10

/-! ### store extension -/

/-- `h'` extends `h`: every old reference keeps its content -/
def HeapExt (h h' : List Cell) : Prop := ∃ t, h' = h ++ t

theorem HeapExt.refl (h : List Cell) : HeapExt h h := ⟨[], by simp⟩

theorem HeapExt.trans {a b c : List Cell} (h1 : HeapExt a b) (h2 : HeapExt b c) : HeapExt a c := by
  obtain ⟨t, rfl⟩ := h1
  obtain ⟨u, rfl⟩ := h2
  exact ⟨t ++ u, by simp⟩

theorem HeapExt.get {h h' : List Cell} (hx : HeapExt h h') {r : Nat} {c : Cell}
    (hr : h[r]? = some c) : h'[r]? = some c := by
  obtain ⟨t, rfl⟩ := hx
  have hlt : r < h.length := by
    by_contra hge
    rw [List.getElem?_eq_none (by omega)] at hr
    exact absurd hr (by simp)
  rw [List.getElem?_append_left hlt]; exact hr

theorem HeapExt.get_lt {h h' : List Cell} (hx : HeapExt h h') {r : Nat} (hr : r < h.length) :
    h'[r]? = h[r]? := by
  obtain ⟨t, rfl⟩ := hx
  exact List.getElem?_append_left hr

theorem HeapExt.length_le {h h' : List Cell} (hx : HeapExt h h') : h.length ≤ h'.length := by
  obtain ⟨t, rfl⟩ := hx
  simp

/-! ### allocation -/

theorem allocTerm_ext (s : Sess) (name : String) :
    HeapExt s.heap (allocTerm s name).1.heap ∧ (allocTerm s name).1.objs = s.objs := by
  unfold allocTerm
  cases cacheFind s.cache false name with
  | some r => exact ⟨HeapExt.refl _, rfl⟩
  | none => exact ⟨⟨_, rfl⟩, rfl⟩

theorem allocFT_fresh (p : Policy) (hp : p.viaCache = false) (s : Sess) (fname : String) (lv : Level) :
    allocFT p s fname lv = ({ s with heap := s.heap ++ [ftCell fname lv] }, s.heap.length) := by
  simp [allocFT, hp]

theorem allocFTs_fresh (p : Policy) (hp : p.viaCache = false) (fname : String) (levels : List Level) :
    ∀ s : Sess, allocFTs p s fname levels =
      ({ s with heap := s.heap ++ levels.map (ftCell fname) },
       List.range' s.heap.length levels.length) := by
  induction levels with
  | nil => intro s; simp [allocFTs]
  | cons l ls ih =>
      intro s
      simp only [allocFTs, allocFT_fresh p hp, ih, List.map_cons, List.length_cons]
      simp [List.range'_succ]

/-! ### well-formed stores -/

/-- cached references and the variables of all objects point into the store -/
structure Sess.WF (s : Sess) : Prop where
  cache_valid : ∀ e ∈ s.cache, e.2.2 < s.heap.length
  vars_valid : ∀ o ∈ s.objs, ∀ m ∈ o.f.terms, ∀ v ∈ m.vars, v < s.heap.length

theorem Sess.init_wf : Sess.init.WF := ⟨by simp [Sess.init], by simp [Sess.init]⟩

theorem cacheFind_valid {cache : List (Bool × String × Nat)} {n : Nat}
    (h : ∀ e ∈ cache, e.2.2 < n) {b : Bool} {name : String} {r : Nat}
    (hr : cacheFind cache b name = some r) : r < n := by
  unfold cacheFind at hr
  obtain ⟨e, hf, rfl⟩ := Option.map_eq_some_iff.mp hr
  exact h e (List.mem_of_find?_eq_some hf)

/-- a state change that keeps the objects and may only grow the store -/
structure Grows (s s' : Sess) : Prop where
  len : s.heap.length ≤ s'.heap.length
  objs : s'.objs = s.objs
  wf : s.WF → s'.WF

theorem allocTerm_grows (s : Sess) (name : String) :
    Grows s (allocTerm s name).1 ∧ (s.WF → (allocTerm s name).2 < (allocTerm s name).1.heap.length) := by
  unfold allocTerm
  cases hc : cacheFind s.cache false name with
  | some r =>
      exact ⟨⟨le_refl _, rfl, id⟩, fun w => cacheFind_valid w.cache_valid hc⟩
  | none =>
      refine ⟨⟨by simp, rfl, fun w => ⟨?_, ?_⟩⟩, fun _ => by simp⟩
      · intro e he
        simp only [List.mem_cons] at he
        rcases he with rfl | he
        · simp
        · have := w.cache_valid e he
          simp; omega
      · intro o ho m hm v hv
        have := w.vars_valid o ho m hm v hv
        simp; omega

theorem allocFT_grows (p : Policy) (s : Sess) (fname : String) (lv : Level) :
    Grows s (allocFT p s fname lv).1 ∧
      (s.WF → (allocFT p s fname lv).2 < (allocFT p s fname lv).1.heap.length) := by
  unfold allocFT
  by_cases hv : p.viaCache = true
  · simp only [hv, if_true]
    cases hc : cacheFind s.cache true (ftCell fname lv).name with
    | some r =>
        refine ⟨⟨by simp, rfl, fun w => ⟨?_, ?_⟩⟩, fun w => ?_⟩
        · intro e he; simpa using w.cache_valid e he
        · intro o ho m hm v hv'; simpa using w.vars_valid o ho m hm v hv'
        · simpa using cacheFind_valid w.cache_valid hc
    | none =>
        refine ⟨⟨by simp, rfl, fun w => ⟨?_, ?_⟩⟩, fun _ => by simp⟩
        · intro e he
          simp only [List.mem_cons] at he
          rcases he with rfl | he
          · simp
          · have := w.cache_valid e he
            simp; omega
        · intro o ho m hm v hv'
          have := w.vars_valid o ho m hm v hv'
          simp; omega
  · simp only [hv]
    refine ⟨⟨by simp, rfl, fun w => ⟨?_, ?_⟩⟩, fun _ => by simp⟩
    · intro e he
      have := w.cache_valid e he
      simp; omega
    · intro o ho m hm v hv'
      have := w.vars_valid o ho m hm v hv'
      simp; omega

theorem Grows.trans {a b c : Sess} (h1 : Grows a b) (h2 : Grows b c) : Grows a c :=
  ⟨le_trans h1.len h2.len, by rw [h2.objs, h1.objs], fun w => h2.wf (h1.wf w)⟩

theorem allocFTs_grows (p : Policy) (fname : String) (levels : List Level) :
    ∀ s : Sess, Grows s (allocFTs p s fname levels).1 ∧
      (s.WF → ∀ r ∈ (allocFTs p s fname levels).2, r < (allocFTs p s fname levels).1.heap.length) := by
  induction levels with
  | nil => intro s; exact ⟨⟨le_refl _, rfl, id⟩, by simp [allocFTs]⟩
  | cons l ls ih =>
      intro s
      obtain ⟨g1, r1⟩ := allocFT_grows p s fname l
      obtain ⟨g2, r2⟩ := ih (allocFT p s fname l).1
      refine ⟨g1.trans g2, fun w r hr => ?_⟩
      simp only [allocFTs, List.mem_cons] at hr
      rcases hr with rfl | hr
      · exact lt_of_lt_of_le (r1 w) g2.len
      · exact r2 (g1.wf w) r hr

theorem canon_lt (p : Policy) (heap : List Cell) (r : Nat) (hr : r < heap.length) :
    canon p heap r < heap.length := by
  unfold canon
  rw [List.getElem?_eq_getElem hr]
  simp only
  have hm : p.key heap[r] ∈ heap.map p.key := List.mem_map.mpr ⟨heap[r], List.getElem_mem hr, rfl⟩
  have := List.idxOf_lt_length_iff.mpr hm
  simpa using this

/-! ### levels out of a data column -/

theorem insertLevel_perm (l : Level) (ls : List Level) : (insertLevel l ls).Perm (l :: ls) := by
  induction ls with
  | nil => simp [insertLevel]
  | cons c r ih =>
      unfold insertLevel
      split_ifs
      · exact List.Perm.refl _
      · exact (List.Perm.cons c ih).trans (List.Perm.swap l c r)

theorem sortLevels_perm (ls : List Level) : (sortLevels ls).Perm ls := by
  induction ls with
  | nil => simp [sortLevels]
  | cons l r ih => exact (insertLevel_perm l _).trans (List.Perm.cons l ih)

theorem levelsOfVals_mem (xs : List Val) (ls : List Level) (h : levelsOfVals xs = some ls) :
    ∀ x ∈ xs, ∃ l ∈ ls, levelOfVal x = some l := by
  induction xs generalizing ls with
  | nil => intro x hx; simp at hx
  | cons y ys ih =>
      unfold levelsOfVals at h
      cases hy : levelOfVal y with
      | none => simp [hy] at h
      | some l =>
          cases hys : levelsOfVals ys with
          | none => simp [hy, hys] at h
          | some ls' =>
              simp only [hy, hys, Option.some.injEq] at h
              subst h
              intro x hx
              rcases List.mem_cons.mp hx with rfl | hx
              · exact ⟨l, by simp, hy⟩
              · obtain ⟨l', hl', hx'⟩ := ih ls' hys x hx
                exact ⟨l', List.mem_cons_of_mem _ hl', hx'⟩

/-! ### variables of sums, differences and products -/

theorem mem_insertSorted (a x : Nat) (l : List Nat) : x ∈ insertSorted a l ↔ x = a ∨ x ∈ l := by
  induction l with
  | nil => simp [insertSorted]
  | cons b l ih =>
      unfold insertSorted
      split_ifs
      · simp
      · simp only [List.mem_cons, ih]; tauto

theorem mem_mergeVars (x : Nat) (l1 l2 : List Nat) : x ∈ mergeVars l1 l2 ↔ x ∈ l1 ∨ x ∈ l2 := by
  induction l1 with
  | nil => simp [mergeVars]
  | cons a l ih =>
      have : mergeVars (a :: l) l2 = insertSorted a (mergeVars l l2) := rfl
      rw [this, mem_insertSorted, ih]; simp only [List.mem_cons]; tauto

/-- every variable of every term is below `n` -/
def VarsBelow (n : Nat) (f : Formula) : Prop := ∀ m ∈ f.terms, ∀ v ∈ m.vars, v < n

theorem VarsBelow.add {n : Nat} {f g : Formula} (hf : VarsBelow n f) (hg : VarsBelow n g) :
    VarsBelow n (f.add g) := by
  intro m hm
  simp only [Formula.add, List.mem_append] at hm
  rcases hm with hm | hm
  · exact hf m hm
  · exact hg m hm

theorem VarsBelow.sub {n : Nat} {f g : Formula} (hf : VarsBelow n f) : VarsBelow n (f.sub g) := by
  intro m hm
  simp only [Formula.sub, List.mem_filter] at hm
  exact hf m hm.1

theorem VarsBelow.mul {n : Nat} {f g : Formula} (hf : VarsBelow n f) (hg : VarsBelow n g) :
    VarsBelow n (f.mul g) := by
  unfold Formula.mul
  split_ifs
  · exact hf
  · intro m hm v hv
    simp only [mem_dedup, mem_products] at hm
    obtain ⟨a, ha, b, hb, rfl⟩ := hm
    simp only [Mono.mul, mem_mergeVars] at hv
    rcases hv with hv | hv
    · exact hf a ha v hv
    · exact hg b hb v hv

theorem VarsBelow.mono {n n' : Nat} {f : Formula} (h : VarsBelow n f) (hn : n ≤ n') : VarsBelow n' f :=
  fun m hm v hv => lt_of_lt_of_le (h m hm v hv) hn

theorem pushObj_wf {s : Sess} (w : s.WF) (o : Obj) (ho : VarsBelow s.heap.length o.f) :
    (pushObj s o).1.WF := by
  refine ⟨w.cache_valid, ?_⟩
  intro o' ho'
  simp only [pushObj, List.mem_append, List.mem_singleton] at ho'
  rcases ho' with ho' | rfl
  · exact w.vars_valid o' ho'
  · exact ho

theorem WF.obj {s : Sess} (w : s.WF) {i : Nat} {o : Obj} (h : s.objs[i]? = some o) :
    VarsBelow s.heap.length o.f :=
  w.vars_valid o (List.mem_of_getElem? h)

theorem newFactorTerms_grows (p : Policy) (s : Sess) (fname : String) (levels : List Level) :
    Grows s (newFactorTerms p s fname levels).1 ∧
      (s.WF → ∀ m ∈ (newFactorTerms p s fname levels).2, ∀ v ∈ m.vars,
        v < (newFactorTerms p s fname levels).1.heap.length) := by
  obtain ⟨g, hr⟩ := allocFTs_grows p fname levels s
  refine ⟨g, fun w m hm v hv => ?_⟩
  simp only [newFactorTerms, List.mem_map] at hm
  obtain ⟨r, hr', rfl⟩ := hm
  simp only [varMono, List.mem_singleton] at hv
  subst hv
  exact canon_lt p _ _ (hr w r hr')

theorem newFactorTerms_ext (p : Policy) (hp : p.viaCache = false) (s : Sess) (fname : String)
    (levels : List Level) : HeapExt s.heap (newFactorTerms p s fname levels).1.heap := by
  unfold newFactorTerms
  rw [allocFTs_fresh p hp]; exact ⟨_, rfl⟩

theorem fromrecFields_grows (p : Policy) (d : Data) (fields : List (String × Bool)) :
    ∀ (s : Sess) (a : Sess × List Mono), fromrecFields p d s fields = some a →
      Grows s a.1 ∧ (s.WF → ∀ m ∈ a.2, ∀ v ∈ m.vars, v < a.1.heap.length) := by
  induction fields with
  | nil =>
      intro s a h
      simp only [fromrecFields, Option.some.injEq] at h; subst h
      exact ⟨⟨le_refl _, rfl, id⟩, by simp⟩
  | cons fd rest ih =>
      intro s a h
      obtain ⟨name, isStr⟩ := fd
      unfold fromrecFields at h
      split_ifs at h with hstr
      · cases hl : fromcolLevels d name with
        | none => simp [hl] at h
        | some ls =>
            simp only [hl] at h
            obtain ⟨b, hb, rfl⟩ := Option.map_eq_some_iff.mp h
            obtain ⟨g1, v1⟩ := newFactorTerms_grows p s name ls
            obtain ⟨g2, v2⟩ := ih _ b hb
            refine ⟨g1.trans g2, fun w m hm v hv => ?_⟩
            simp only [List.mem_append] at hm
            rcases hm with hm | hm
            · exact lt_of_lt_of_le (v1 w m hm v hv) g2.len
            · exact v2 (g1.wf w) m hm v hv
      · obtain ⟨b, hb, rfl⟩ := Option.map_eq_some_iff.mp h
        obtain ⟨g1, r1⟩ := allocTerm_grows s name
        obtain ⟨g2, v2⟩ := ih _ b hb
        refine ⟨g1.trans g2, fun w m hm v hv => ?_⟩
        simp only [List.mem_cons] at hm
        rcases hm with rfl | hm
        · simp only [varMono, List.mem_singleton] at hv
          subst hv
          exact lt_of_lt_of_le (canon_lt p _ _ (r1 w)) g2.len
        · exact v2 (g1.wf w) m hm v hv

theorem fromrecFields_ext (p : Policy) (hp : p.viaCache = false) (d : Data) (fields : List (String × Bool)) :
    ∀ (s : Sess) (a : Sess × List Mono), fromrecFields p d s fields = some a →
      HeapExt s.heap a.1.heap := by
  induction fields with
  | nil =>
      intro s a h
      simp only [fromrecFields, Option.some.injEq] at h; subst h
      exact HeapExt.refl _
  | cons fd rest ih =>
      intro s a h
      obtain ⟨name, isStr⟩ := fd
      unfold fromrecFields at h
      split_ifs at h with hstr
      · cases hl : fromcolLevels d name with
        | none => simp [hl] at h
        | some ls =>
            simp only [hl] at h
            obtain ⟨b, hb, rfl⟩ := Option.map_eq_some_iff.mp h
            exact (newFactorTerms_ext p hp s name ls).trans (ih _ b hb)
      · obtain ⟨b, hb, rfl⟩ := Option.map_eq_some_iff.mp h
        exact (allocTerm_ext s name).1.trans (ih _ b hb)

/-! ### one event -/

/-- what every event guarantees -/
structure StepOk (s s' : Sess) : Prop where
  len : s.heap.length ≤ s'.heap.length
  objs : ∃ t, s'.objs = s.objs ++ t
  wf : s.WF → s'.WF

theorem StepOk.refl (s : Sess) : StepOk s s := ⟨le_refl _, ⟨[], by simp⟩, id⟩

theorem StepOk.trans {a b c : Sess} (h1 : StepOk a b) (h2 : StepOk b c) : StepOk a c := by
  obtain ⟨t, ht⟩ := h1.objs
  obtain ⟨u, hu⟩ := h2.objs
  exact ⟨le_trans h1.len h2.len, ⟨t ++ u, by rw [hu, ht]; simp⟩, fun w => h2.wf (h1.wf w)⟩

theorem pushObj_ok (s : Sess) (o : Obj) (ho : s.WF → VarsBelow s.heap.length o.f) :
    StepOk s (pushObj s o).1 :=
  ⟨le_refl _, ⟨[o], rfl⟩, fun w => pushObj_wf w o (ho w)⟩

theorem Grows.pushObj_ok {s s' : Sess} (g : Grows s s') (o : Obj)
    (ho : s.WF → VarsBelow s'.heap.length o.f) : StepOk s (pushObj s' o).1 :=
  ⟨g.len, ⟨[o], by simp [pushObj, g.objs]⟩, fun w => pushObj_wf (g.wf w) o (ho w)⟩

theorem varsBelow_varMono {n v : Nat} (h : v < n) (b : Bool) : VarsBelow n ⟨[varMono v], b⟩ := by
  intro m hm x hx
  simp only [List.mem_singleton] at hm
  subst hm
  simp only [varMono, List.mem_singleton] at hx
  subst hx; exact h

theorem step_ok (p : Policy) (datas : List Data) (s : Sess) (e : Event) (a : Sess × String)
    (h : step p datas s e = some a) : StepOk s a.1 := by
  cases e with
  | intercept =>
      simp only [step, Option.some.injEq] at h; subst h
      exact pushObj_ok s _ (fun _ m hm v hv => by simp at hm; subst hm; simp at hv)
  | term name =>
      simp only [step, Option.some.injEq] at h; subst h
      obtain ⟨g, hr⟩ := allocTerm_grows s name
      exact g.pushObj_ok _ (fun w => varsBelow_varMono (canon_lt p _ _ (hr w)) _)
  | factor fname levels =>
      simp only [step, newFactor, Option.some.injEq] at h; subst h
      obtain ⟨g, hr⟩ := newFactorTerms_grows p s fname levels
      exact g.pushObj_ok _ (fun w => hr w)
  | tmul i j =>
      simp only [step] at h
      cases hi : s.objs[i]? with
      | none => simp [hi] at h
      | some x =>
          cases hj : s.objs[j]? with
          | none => simp [hi, hj] at h
          | some y =>
              simp only [hi, hj, Option.bind_eq_bind, Option.bind_some] at h
              split at h
              · rename_i ca va cb vb hx hy
                have hva : ∀ w : s.WF, va < s.heap.length := fun w =>
                  WF.obj w hi ⟨ca, [va]⟩ (by rw [hx]; simp) va (by simp)
                have hvb : ∀ w : s.WF, vb < s.heap.length := fun w =>
                  WF.obj w hj ⟨cb, [vb]⟩ (by rw [hy]; simp) vb (by simp)
                split_ifs at h
                · simp only [Option.some.injEq] at h; subst h
                  exact pushObj_ok s _ (fun w => varsBelow_varMono (hva w) _)
                · simp only [Option.some.injEq] at h; subst h
                  refine pushObj_ok s _ (fun w m hm v hv => ?_)
                  simp only [List.mem_singleton] at hm
                  subst hm
                  simp only [Mono.mul, varMono, mem_mergeVars, List.mem_singleton] at hv
                  rcases hv with rfl | rfl
                  · exact hva w
                  · exact hvb w
              · simp at h
  | fromcol fname d =>
      simp only [step] at h
      cases hd : datas[d]? with
      | none => simp [hd] at h
      | some dat =>
          simp only [hd, Option.bind_eq_bind, Option.bind_some] at h
          split_ifs at h
          split at h
          · simp only [newFactor, Option.some.injEq] at h; subst h
            rename_i ls _
            obtain ⟨g, hr⟩ := newFactorTerms_grows p s fname ls
            exact g.pushObj_ok _ (fun w => hr w)
          · simp only [Option.some.injEq] at h; subst h
            exact pushObj_ok s _ (fun _ m hm => by simp at hm)
  | fromrec d =>
      simp only [step] at h
      cases hd : datas[d]? with
      | none => simp [hd] at h
      | some dat =>
          simp only [hd, Option.bind_eq_bind, Option.bind_some] at h
          split at h
          · rename_i a ha
            simp only [Option.some.injEq] at h; subst h
            obtain ⟨g, hr⟩ := fromrecFields_grows p dat _ s a ha
            exact g.pushObj_ok _ (fun w => hr w)
          · simp only [Option.some.injEq] at h; subst h
            exact pushObj_ok s _ (fun _ m hm => by simp at hm)
  | fterm fname lv =>
      simp only [step, Option.some.injEq] at h; subst h
      obtain ⟨g, hr⟩ := allocFT_grows p s fname lv
      exact g.pushObj_ok _ (fun w => varsBelow_varMono (canon_lt p _ _ (hr w)) _)
  | op o i j =>
      simp only [step] at h
      cases hi : s.objs[i]? with
      | none => simp [hi] at h
      | some x =>
          cases hj : s.objs[j]? with
          | none => simp [hi, hj] at h
          | some y =>
              simp only [hi, hj, Option.bind_eq_bind, Option.bind_some] at h
              split_ifs at h
              all_goals first
                | (simp only [Option.some.injEq] at h; subst h)
                | skip
              · exact pushObj_ok s _ (fun w => (WF.obj w hi).add (WF.obj w hj))
              · exact pushObj_ok s _ (fun w => (WF.obj w hi).sub)
              · exact pushObj_ok s _ (fun w => WF.obj w hi)
              · exact pushObj_ok s _ (fun w => (WF.obj w hi).mul (WF.obj w hj))
  | stratify i =>
      simp only [step] at h
      cases hi : s.objs[i]? with
      | none => simp [hi] at h
      | some x =>
          cases hf : x.fac with
          | none => simp [hi, hf] at h
          | some fc =>
              simp only [hi, hf, Option.bind_eq_bind, Option.bind_some, Option.some.injEq] at h
              subst h
              exact pushObj_ok s _ (fun w m hm v hv => WF.obj w hi m hm v hv)
  | getTerm i lv =>
      simp only [step] at h
      cases hi : s.objs[i]? with
      | none => simp [hi] at h
      | some x =>
          cases hf : x.fac with
          | none => simp [hi, hf] at h
          | some fc =>
              simp only [hi, hf, Option.bind_eq_bind, Option.bind_some] at h
              split_ifs at h
              · split at h
                · rename_i m hm
                  simp only [Option.some.injEq] at h; subst h
                  refine pushObj_ok s _ (fun w m' hm' v hv => ?_)
                  simp only [List.mem_singleton] at hm'
                  subst hm'
                  exact WF.obj w hi m' (List.mem_of_find?_eq_some hm) v hv
                · simp only [Option.some.injEq] at h; subst h
                  exact pushObj_ok s _ (fun _ m hm => by simp at hm)
              · simp only [Option.some.injEq] at h; subst h
                exact pushObj_ok s _ (fun _ m hm => by simp at hm)
  | design i d =>
      simp only [step] at h
      cases hi : s.objs[i]? with
      | none => simp [hi] at h
      | some x =>
          cases hd : datas[d]? with
          | none => simp [hi, hd] at h
          | some dat =>
              simp only [hi, hd, Option.bind_eq_bind, Option.bind_some, Option.some.injEq] at h
              subst h; exact StepOk.refl s
  | designMain i d =>
      simp only [step] at h
      cases hi : s.objs[i]? with
      | none => simp [hi] at h
      | some x =>
          cases hf : x.fac with
          | none => simp [hi, hf] at h
          | some fc =>
              cases hd : datas[d]? with
              | none => simp [hi, hd] at h
              | some dat =>
                  simp only [hi, hf, hd, Option.bind_eq_bind, Option.bind_some] at h
                  split_ifs at h <;> (simp only [Option.some.injEq] at h; subst h; exact StepOk.refl s)

theorem step_heapExt (p : Policy) (hp : p.viaCache = false) (datas : List Data) (s : Sess) (e : Event)
    (a : Sess × String) (h : step p datas s e = some a) : HeapExt s.heap a.1.heap := by
  cases e with
  | intercept =>
      simp only [step, Option.some.injEq] at h; subst h; exact HeapExt.refl _
  | term name =>
      simp only [step, Option.some.injEq] at h; subst h
      exact (allocTerm_ext s name).1
  | factor fname levels =>
      simp only [step, newFactor, Option.some.injEq] at h; subst h
      exact newFactorTerms_ext p hp s fname levels
  | tmul i j =>
      simp only [step] at h
      cases hi : s.objs[i]? with
      | none => simp [hi] at h
      | some x =>
          cases hj : s.objs[j]? with
          | none => simp [hi, hj] at h
          | some y =>
              simp only [hi, hj, Option.bind_eq_bind, Option.bind_some] at h
              split at h
              · split_ifs at h <;> (simp only [Option.some.injEq] at h; subst h; exact HeapExt.refl _)
              · simp at h
  | fromcol fname d =>
      simp only [step] at h
      cases hd : datas[d]? with
      | none => simp [hd] at h
      | some dat =>
          simp only [hd, Option.bind_eq_bind, Option.bind_some] at h
          split_ifs at h
          split at h
          · simp only [newFactor, Option.some.injEq] at h; subst h
            exact newFactorTerms_ext p hp s fname _
          · simp only [Option.some.injEq] at h; subst h; exact HeapExt.refl _
  | fromrec d =>
      simp only [step] at h
      cases hd : datas[d]? with
      | none => simp [hd] at h
      | some dat =>
          simp only [hd, Option.bind_eq_bind, Option.bind_some] at h
          split at h
          · rename_i a ha
            simp only [Option.some.injEq] at h; subst h
            exact fromrecFields_ext p hp dat _ s a ha
          · simp only [Option.some.injEq] at h; subst h; exact HeapExt.refl _
  | fterm fname lv =>
      simp only [step, Option.some.injEq] at h; subst h
      rw [allocFT_fresh p hp]; exact ⟨_, rfl⟩
  | op o i j =>
      simp only [step] at h
      cases hi : s.objs[i]? with
      | none => simp [hi] at h
      | some x =>
          cases hj : s.objs[j]? with
          | none => simp [hi, hj] at h
          | some y =>
              simp only [hi, hj, Option.bind_eq_bind, Option.bind_some] at h
              split_ifs at h <;>
                (simp only [Option.some.injEq] at h; subst h; exact HeapExt.refl _)
  | stratify i =>
      simp only [step] at h
      cases hi : s.objs[i]? with
      | none => simp [hi] at h
      | some x =>
          cases hf : x.fac with
          | none => simp [hi, hf] at h
          | some fc =>
              simp only [hi, hf, Option.bind_eq_bind, Option.bind_some, Option.some.injEq] at h
              subst h; exact HeapExt.refl _
  | getTerm i lv =>
      simp only [step] at h
      cases hi : s.objs[i]? with
      | none => simp [hi] at h
      | some x =>
          cases hf : x.fac with
          | none => simp [hi, hf] at h
          | some fc =>
              simp only [hi, hf, Option.bind_eq_bind, Option.bind_some] at h
              split_ifs at h
              · split at h <;> (simp only [Option.some.injEq] at h; subst h; exact HeapExt.refl _)
              · simp only [Option.some.injEq] at h; subst h; exact HeapExt.refl _
  | design i d =>
      simp only [step] at h
      cases hi : s.objs[i]? with
      | none => simp [hi] at h
      | some x =>
          cases hd : datas[d]? with
          | none => simp [hi, hd] at h
          | some dat =>
              simp only [hi, hd, Option.bind_eq_bind, Option.bind_some, Option.some.injEq] at h
              subst h; exact HeapExt.refl _
  | designMain i d =>
      simp only [step] at h
      cases hi : s.objs[i]? with
      | none => simp [hi] at h
      | some x =>
          cases hf : x.fac with
          | none => simp [hi, hf] at h
          | some fc =>
              cases hd : datas[d]? with
              | none => simp [hi, hd] at h
              | some dat =>
                  simp only [hi, hf, hd, Option.bind_eq_bind, Option.bind_some] at h
                  split_ifs at h <;> (simp only [Option.some.injEq] at h; subst h; exact HeapExt.refl _)

/-! ### histories -/

theorem runState_ok (p : Policy) (datas : List Data) (evs : List Event) :
    ∀ s : Sess, StepOk s (runState p datas s evs) := by
  induction evs with
  | nil => intro s; exact StepOk.refl s
  | cons e es ih =>
      intro s
      unfold runState
      cases h : step p datas s e with
      | none => exact ih s
      | some a => exact (step_ok p datas s e a h).trans (ih a.1)

theorem runState_heapExt (p : Policy) (hp : p.viaCache = false) (datas : List Data) (evs : List Event) :
    ∀ s : Sess, HeapExt s.heap (runState p datas s evs).heap := by
  induction evs with
  | nil => intro s; exact HeapExt.refl _
  | cons e es ih =>
      intro s
      unfold runState
      cases h : step p datas s e with
      | none => exact ih s
      | some a => exact (step_heapExt p hp datas s e a h).trans (ih a.1)

/-! ### designs read only the referenced objects -/

theorem evalMono_congr (v1 v2 : Nat → Rat) (m : Mono) (h : ∀ v ∈ m.vars, v1 v = v2 v) :
    evalMono v1 m = evalMono v2 m := by
  unfold evalMono
  congr 1
  congr 1
  exact List.map_congr_left h

theorem heapVal_ext {h h' : List Cell} (hx : HeapExt h h') (fields : List String) (row : List Val)
    {v : Nat} (hv : v < h.length) : heapVal h' fields row v = heapVal h fields row v := by
  unfold heapVal
  rw [hx.get_lt hv]

theorem sessDesign_ext {h h' : List Cell} (hx : HeapExt h h') (d : Data) (f : Formula)
    (hb : VarsBelow h.length f) : sessDesign h' d f = sessDesign h d f := by
  unfold sessDesign
  apply List.map_congr_left
  intro m hm
  unfold sessColumn
  apply List.map_congr_left
  intro r _
  exact evalMono_congr _ _ m (fun v hv => heapVal_ext hx d.fields r (hb m hm v hv))

end NipyVerif.C10
