/-
C16 (part Q) — order statistics: counting lemmas on sorted lists and the partition certificate.
-/
import NipyVerif.Lemmas.C16
import Mathlib.Data.Rat.Floor
import Mathlib.Data.List.Count

namespace NipyVerif.C16

theorem nth_eq_getElem (s : List Rat) (p : Nat) (hp : p < s.length) : nth s p = s[p] := by
  unfold nth; simp [List.getD_eq_getElem?_getD, hp]

/-- in an ascending list, if at most `p` elements are `< a` then the element of rank `p` is `≥ a` -/
theorem nth_sorted_ge_of_count (s : List Rat) (hs : s.Pairwise (· ≤ ·)) (a : Rat) (p : Nat) (hp : p < s.length)
    (hc : s.countP (fun v => decide (v < a)) ≤ p) : a ≤ nth s p := by
  rw [nth_eq_getElem s p hp]
  by_contra hlt
  have hlt' : s[p] < a := not_le.mp hlt
  have hall : ∀ v ∈ s.take (p + 1), decide (v < a) = true := by
    intro v hv
    obtain ⟨k, hk, rfl⟩ := List.getElem_of_mem hv
    have hk' : k < p + 1 := by simp at hk; omega
    have hks : k < s.length := by omega
    rw [List.getElem_take]
    have : s[k] ≤ s[p] := by
      rcases Nat.lt_or_ge k p with h | h
      · exact (List.pairwise_iff_getElem.mp hs) k p hks hp h
      · have : k = p := by omega
        subst this; exact le_refl _
    exact decide_eq_true (lt_of_le_of_lt this hlt')
  have h1 : (s.take (p + 1)).countP (fun v => decide (v < a)) = (s.take (p + 1)).length :=
    List.countP_eq_length.mpr hall
  have h2 : (s.take (p + 1)).countP (fun v => decide (v < a)) ≤ s.countP (fun v => decide (v < a)) :=
    (List.take_sublist _ _).countP_le
  have h3 : (s.take (p + 1)).length = p + 1 := by simp; omega
  omega

/-- in an ascending list, if more than `p` elements are `≤ a` then the element of rank `p` is `≤ a` -/
theorem nth_sorted_le_of_count (s : List Rat) (hs : s.Pairwise (· ≤ ·)) (a : Rat) (p : Nat) (hp : p < s.length)
    (hc : p < s.countP (fun v => decide (v ≤ a))) : nth s p ≤ a := by
  rw [nth_eq_getElem s p hp]
  by_contra hgt
  have hgt' : a < s[p] := not_le.mp hgt
  have hnone : ∀ v ∈ s.drop p, ¬ (decide (v ≤ a) = true) := by
    intro v hv
    obtain ⟨k, hk, rfl⟩ := List.getElem_of_mem hv
    rw [List.getElem_drop]
    have hks : p + k < s.length := by simp at hk; omega
    have : s[p] ≤ s[p + k] := by
      rcases Nat.eq_zero_or_pos k with h | h
      · subst h; exact le_refl _
      · exact (List.pairwise_iff_getElem.mp hs) p (p + k) hp hks (by omega)
    simp only [decide_eq_true_eq, not_le]
    exact lt_of_lt_of_le hgt' this
  have h1 : (s.drop p).countP (fun v => decide (v ≤ a)) = 0 := List.countP_eq_zero.mpr hnone
  have h2 : s.countP (fun v => decide (v ≤ a)) =
      (s.take p).countP (fun v => decide (v ≤ a)) + (s.drop p).countP (fun v => decide (v ≤ a)) := by
    rw [← List.countP_append, List.take_append_drop]
  have h3 : (s.take p).countP (fun v => decide (v ≤ a)) ≤ (s.take p).length := List.countP_le_length
  have h4 : (s.take p).length ≤ p := by simp
  omega

/-- **partition certificate**: a rearrangement `y` of `x` in which positions `≤ p` hold values `≤ a`,
    positions `> p` hold values `≥ a`, and `a` occurs at a position `≤ p`, proves that `a` is the order
    statistic of rank `p` of `x`. -/
theorem pth_certificate_sound (x y : List Rat) (a : Rat) (p : Nat) (hperm : y.Perm x) (hp : p < y.length)
    (hle : ∀ k (hk : k < y.length), k ≤ p → y[k] ≤ a)
    (hge : ∀ k (hk : k < y.length), p < k → a ≤ y[k])
    (hex : ∃ k, ∃ hk : k < y.length, k ≤ p ∧ y[k] = a) :
    nth (sortLe x) p = a := by
  have hsp : (sortLe x).Perm y := (sortLe_perm x).trans hperm.symm
  have hlen : (sortLe x).length = y.length := hsp.length_eq
  have hsorted := sortLe_sorted x
  apply le_antisymm
  · apply nth_sorted_le_of_count _ hsorted a p (by omega)
    rw [hsp.countP_eq]
    have hall : ∀ v ∈ y.take (p + 1), decide (v ≤ a) = true := by
      intro v hv
      obtain ⟨k, hk, rfl⟩ := List.getElem_of_mem hv
      rw [List.getElem_take]
      have hk' : k < p + 1 := by simp at hk; omega
      exact decide_eq_true (hle k (by omega) (by omega))
    have h1 : (y.take (p + 1)).countP (fun v => decide (v ≤ a)) = (y.take (p + 1)).length :=
      List.countP_eq_length.mpr hall
    have h2 := (List.take_sublist (p + 1) y).countP_le (p := fun v => decide (v ≤ a))
    have h3 : (y.take (p + 1)).length = p + 1 := by simp; omega
    omega
  · apply nth_sorted_ge_of_count _ hsorted a p (by omega)
    rw [hsp.countP_eq]
    have hsplit : y.countP (fun v => decide (v < a)) =
        (y.take (p + 1)).countP (fun v => decide (v < a)) + (y.drop (p + 1)).countP (fun v => decide (v < a)) := by
      rw [← List.countP_append, List.take_append_drop]
    have hdrop : (y.drop (p + 1)).countP (fun v => decide (v < a)) = 0 := by
      apply List.countP_eq_zero.mpr
      intro v hv
      obtain ⟨k, hk, rfl⟩ := List.getElem_of_mem hv
      rw [List.getElem_drop]
      have hks : p + 1 + k < y.length := by simp at hk; omega
      simp only [decide_eq_true_eq, not_lt]
      exact hge (p + 1 + k) hks (by omega)
    obtain ⟨k0, hk0, hk0p, hk0a⟩ := hex
    have htake : (y.take (p + 1)).countP (fun v => decide (v < a)) < (y.take (p + 1)).length := by
      apply lt_of_le_of_ne List.countP_le_length
      intro heq
      have hall := List.countP_eq_length.mp heq
      have hmem : y[k0] ∈ y.take (p + 1) := by
        rw [List.mem_take_iff_getElem]
        exact ⟨k0, by simp; omega, rfl⟩
      have := hall _ hmem
      simp only [decide_eq_true_eq] at this
      rw [hk0a] at this
      exact lt_irrefl _ this
    have h3 : (y.take (p + 1)).length = p + 1 := by simp; omega
    omega

/-! ### `(int)` and `UNSIGNED_CEIL` on non-negative arguments -/

theorem floorNat_eq (q : Rat) : floorNat q = ⌊q⌋₊ := by
  unfold floorNat
  rw [← Int.floor_toNat, Rat.floor_def']

theorem ceilNat_eq (q : Rat) (hq : 0 ≤ q) : ceilNat q = ⌈q⌉₊ := by
  unfold ceilNat
  rw [floorNat_eq]
  split_ifs with h
  · calc ⌊q⌋₊ = ⌈((⌊q⌋₊ : Nat) : Rat)⌉₊ := (Nat.ceil_natCast _).symm
      _ = ⌈q⌉₊ := by rw [h]
  · have hne : ((⌊q⌋₊ : Nat) : Rat) ≠ q := h
    have hfl : ((⌊q⌋₊ : Nat) : Rat) ≤ q := Nat.floor_le hq
    have hlt : ((⌊q⌋₊ : Nat) : Rat) < q := lt_of_le_of_ne hfl hne
    symm
    rw [Nat.ceil_eq_iff (by omega)]
    constructor
    · simpa using hlt
    · have := Nat.lt_floor_add_one q
      push_cast
      linarith

end NipyVerif.C16
