/- Lemmas for the CSV writer / reader pair of C07: the reader undoes the writer. -/
import NipyVerif.Model.C07Csv
import Mathlib.Tactic.Ring
import Mathlib.Tactic.Linarith

namespace NipyVerif.C07

/-- the dialects for which the round trip is proved: delimiter and quote character differ, neither
    is a line-break character, leading blanks are kept.  (`doublequote` may be off — as the sniffer
    reports for a file without any quote character — when no field contains the quote character.) -/
structure Dialect.Good (d : Dialect) : Prop where
  ne : d.delim ≠ d.quote
  delimLine : isLineChar d.delim = false
  quoteLine : isLineChar d.quote = false
  skip : d.skipinitialspace = false

theorem cr_bne (x : Char) (h : isLineChar x = false) : ('\r' == x) = false := by
  cases hx : ('\r' == x) with
  | false => rfl
  | true =>
      have : x = '\r' := (beq_iff_eq.mp hx).symm
      subst this
      simp [isLineChar] at h

theorem runChars_nil (d : Dialect) (s : RS) : runChars d s [] = .ok s := rfl

theorem runChars_cons (d : Dialect) (s : RS) (c : Char) (cs : List Char) :
    runChars d s (c :: cs) = (stepChar d s c).bind (fun s' => runChars d s' cs) := by
  simp [runChars, List.foldlM_cons, bind, Except.bind]

theorem runChars_append (d : Dialect) (s : RS) (a b : List Char) :
    runChars d s (a ++ b) = (runChars d s a).bind (fun s' => runChars d s' b) := by
  induction a generalizing s with
  | nil => simp [runChars_nil, Except.bind]
  | cons c cs ih =>
      rw [List.cons_append, runChars_cons, runChars_cons]
      cases h : stepChar d s c with
      | error e => simp [Except.bind]
      | ok s' => simp [Except.bind, ih]

/-- an unquoted field body in `IN_FIELD` -/
theorem run_inField (d : Dialect) (f : List Char) (cur : List Char) (done : List (List Char))
    (hf : ∀ c ∈ f, (c == d.delim || c == d.quote || isLineChar c) = false) :
    runChars d ⟨.inField, cur, done⟩ f = .ok ⟨.inField, f.reverse ++ cur, done⟩ := by
  induction f generalizing cur with
  | nil => simp [runChars_nil]
  | cons c cs ih =>
      have hc := hf c (by simp)
      simp only [Bool.or_eq_false_iff] at hc
      rw [runChars_cons]
      simp only [stepChar, hc.2, hc.1.1, Bool.false_eq_true, if_false, RS.add, Except.bind]
      rw [ih _ (fun c' hc' => hf c' (by simp [hc']))]
      simp

/-- doubled quotes are understood, or the field has no quote character -/
def QuoteOk (d : Dialect) (f : List Char) : Prop :=
  d.doublequote = true ∨ ∀ c ∈ f, (c == d.quote) = false

/-- a quoted field body in `IN_QUOTED_FIELD`: any characters, quotes doubled -/
theorem run_inQuoted (d : Dialect) (f : List Char) (hq : QuoteOk d f) (cur : List Char)
    (done : List (List Char)) :
    runChars d ⟨.inQuoted, cur, done⟩ (escapeBody d f) = .ok ⟨.inQuoted, f.reverse ++ cur, done⟩ := by
  induction f generalizing cur with
  | nil => simp [escapeBody, runChars_nil]
  | cons c cs ih =>
      have hq' : QuoteOk d cs := by
        rcases hq with h | h
        · exact Or.inl h
        · exact Or.inr (fun c' hc' => h c' (by simp [hc']))
      by_cases hc : (c == d.quote) = true
      · have hdq : d.doublequote = true := by
          rcases hq with h | h
          · exact h
          · have := h c (by simp); rw [hc] at this; exact absurd this (by simp)
        simp only [escapeBody, hc, if_true]
        rw [runChars_cons]
        simp only [stepChar, hc, if_true, hdq, Except.bind]
        rw [runChars_cons]
        simp only [stepChar, hc, if_true, RS.add, Except.bind]
        rw [ih hq']; simp
      · simp only [escapeBody, hc, Bool.false_eq_true, if_false]
        rw [runChars_cons]
        simp only [stepChar, hc, Bool.false_eq_true, if_false, RS.add, Except.bind]
        rw [ih hq']; simp

/-- after the closing quote the reader is in `QUOTE_IN_QUOTED_FIELD` (doublequote) or back in
    `IN_FIELD`; both end the field on the delimiter … -/
theorem step_afterQuote_delim (d : Dialect) (hd : d.Good) (cur : List Char) (done : List (List Char)) :
    stepChar d ⟨if d.doublequote then .quoteInQuoted else .inField, cur, done⟩ d.delim =
      .ok ⟨.startField, [], cur.reverse :: done⟩ := by
  have hdq : (d.delim == d.quote) = false := by simpa using hd.ne
  cases h : d.doublequote <;> simp [stepChar, hdq, hd.delimLine, RS.save]

/-- … and on a carriage return -/
theorem step_afterQuote_cr (d : Dialect) (hd : d.Good) (cur : List Char) (done : List (List Char)) :
    stepChar d ⟨if d.doublequote then .quoteInQuoted else .inField, cur, done⟩ '\r' =
      .ok ⟨.eatCrnl, [], cur.reverse :: done⟩ := by
  have hcrq : ('\r' == d.quote) = false := cr_bne _ hd.quoteLine
  have hcrd : ('\r' == d.delim) = false := cr_bne _ hd.delimLine
  have hcr : isLineChar '\r' = true := by decide
  cases h : d.doublequote <;> simp [stepChar, hcrq, hcrd, hcr, RS.save]

theorem needsQuote_false_iff (d : Dialect) (f : List Char) :
    needsQuote d f = false ↔ ∀ c ∈ f, (c == d.delim || c == d.quote || isLineChar c) = false := by
  simp [needsQuote, List.any_eq_false]

/-- a formatted field followed by the delimiter, read from `START_FIELD` -/
theorem run_field_delim (d : Dialect) (hd : d.Good) (f : List Char) (hq : QuoteOk d f)
    (done : List (List Char)) :
    runChars d ⟨.startField, [], done⟩ (fmtField d f ++ [d.delim]) = .ok ⟨.startField, [], f :: done⟩ := by
  have hdq : (d.delim == d.quote) = false := by simpa using hd.ne
  unfold fmtField
  by_cases hn : needsQuote d f = true
  · rw [if_pos hn, List.cons_append, runChars_cons]
    simp only [stepChar, stepStartField, hd.quoteLine, Bool.false_eq_true, if_false, beq_self_eq_true,
      if_true, Except.bind]
    rw [List.append_assoc, runChars_append, run_inQuoted d f hq]
    simp only [Except.bind, List.append_nil, List.cons_append, List.nil_append]
    rw [runChars_cons]
    simp only [stepChar, beq_self_eq_true, if_true, Except.bind]
    rw [runChars_cons, step_afterQuote_delim d hd]
    simp [Except.bind, runChars_nil]
  · have hn' : needsQuote d f = false := by simpa using hn
    rw [if_neg hn]
    have hall := (needsQuote_false_iff d f).mp hn'
    cases f with
    | nil =>
        rw [List.nil_append, runChars_cons]
        simp [stepChar, stepStartField, hd.delimLine, hdq, hd.skip, RS.save, Except.bind, runChars_nil]
    | cons c cs =>
        have hc := hall c (by simp)
        simp only [Bool.or_eq_false_iff] at hc
        rw [List.cons_append, runChars_cons]
        simp only [stepChar, stepStartField, hc.2, hc.1.2, hc.1.1, hd.skip, Bool.and_false,
          Bool.false_eq_true, if_false, RS.add, Except.bind]
        rw [runChars_append, run_inField d cs _ _ (fun c' hc' => hall c' (by simp [hc']))]
        simp only [Except.bind]
        rw [runChars_cons]
        simp [stepChar, hd.delimLine, RS.save, Except.bind, runChars_nil]

/-- a formatted field followed by a carriage return, read from `START_FIELD` -/
theorem run_field_cr (d : Dialect) (hd : d.Good) (f : List Char) (hq : QuoteOk d f)
    (done : List (List Char)) :
    runChars d ⟨.startField, [], done⟩ (fmtField d f ++ ['\r']) = .ok ⟨.eatCrnl, [], f :: done⟩ := by
  have hcrq : ('\r' == d.quote) = false := cr_bne _ hd.quoteLine
  have hcrd : ('\r' == d.delim) = false := cr_bne _ hd.delimLine
  have hcr : isLineChar '\r' = true := by decide
  unfold fmtField
  by_cases hn : needsQuote d f = true
  · rw [if_pos hn, List.cons_append, runChars_cons]
    simp only [stepChar, stepStartField, hd.quoteLine, Bool.false_eq_true, if_false, beq_self_eq_true,
      if_true, Except.bind]
    rw [List.append_assoc, runChars_append, run_inQuoted d f hq]
    simp only [Except.bind, List.append_nil, List.cons_append, List.nil_append]
    rw [runChars_cons]
    simp only [stepChar, beq_self_eq_true, if_true, Except.bind]
    rw [runChars_cons, step_afterQuote_cr d hd]
    simp [Except.bind, runChars_nil]
  · have hn' : needsQuote d f = false := by simpa using hn
    rw [if_neg hn]
    have hall := (needsQuote_false_iff d f).mp hn'
    cases f with
    | nil =>
        rw [List.nil_append, runChars_cons]
        simp [stepChar, stepStartField, hcr, RS.save, Except.bind, runChars_nil]
    | cons c cs =>
        have hc := hall c (by simp)
        simp only [Bool.or_eq_false_iff] at hc
        rw [List.cons_append, runChars_cons]
        simp only [stepChar, stepStartField, hc.2, hc.1.2, hc.1.1, hd.skip, Bool.and_false,
          Bool.false_eq_true, if_false, RS.add, Except.bind]
        rw [runChars_append, run_inField d cs _ _ (fun c' hc' => hall c' (by simp [hc']))]
        simp only [Except.bind]
        rw [runChars_cons]
        simp [stepChar, hcr, RS.save, Except.bind, runChars_nil]

/-- all the fields of a non-empty record, then the carriage return -/
theorem run_join_cr (d : Dialect) (hd : d.Good) (fs : List (List Char)) (hne : fs ≠ [])
    (hq : ∀ f ∈ fs, QuoteOk d f) (done : List (List Char)) :
    runChars d ⟨.startField, [], done⟩ (joinFields d (fs.map (fmtField d)) ++ ['\r']) =
      .ok ⟨.eatCrnl, [], fs.reverse ++ done⟩ := by
  induction fs generalizing done with
  | nil => exact absurd rfl hne
  | cons f rest ih =>
      cases rest with
      | nil =>
          simp only [List.map_cons, List.map_nil, joinFields]
          rw [run_field_cr d hd f (hq f (by simp))]; simp
      | cons g rest' =>
          simp only [List.map_cons, joinFields]
          have : fmtField d f ++ d.delim :: joinFields d (fmtField d g :: rest'.map (fmtField d)) ++ ['\r'] =
              (fmtField d f ++ [d.delim]) ++ (joinFields d ((g :: rest').map (fmtField d)) ++ ['\r']) := by
            simp
          rw [this, runChars_append, run_field_delim d hd f (hq f (by simp))]
          simp only [Except.bind]
          rw [ih (by simp) (fun f' hf' => hq f' (by simp [hf']))]
          simp

theorem joinFields_head (d : Dialect) (x : List Char) (xs : List (List Char)) (t : List Char) :
    joinFields d (x :: xs) ++ t =
      x ++ (match xs with | [] => t | y :: ys => d.delim :: (joinFields d (y :: ys) ++ t)) := by
  cases xs with
  | nil => simp [joinFields]
  | cons y ys => simp [joinFields]

/-- the first character of a formatted non-degenerate record is not a line break, so the reader
    leaves `START_RECORD` for `START_FIELD` on it -/
theorem first_char_not_line (d : Dialect) (hd : d.Good) (f : List Char) (rest : List (List Char))
    (hne : f :: rest ≠ [[]]) :
    ∃ c cs, joinFields d ((f :: rest).map (fmtField d)) ++ ['\r', '\n'] = c :: cs ∧ isLineChar c = false := by
  rw [List.map_cons, joinFields_head]
  generalize htail : (match List.map (fmtField d) rest with
    | [] => ['\r', '\n']
    | y :: ys => d.delim :: (joinFields d (y :: ys) ++ ['\r', '\n'])) = tail
  by_cases hn : needsQuote d f = true
  · exact ⟨d.quote, escapeBody d f ++ [d.quote] ++ tail, by simp [fmtField, hn], hd.quoteLine⟩
  · have hn' : needsQuote d f = false := by simpa using hn
    have hall := (needsQuote_false_iff d f).mp hn'
    cases f with
    | nil =>
        cases rest with
        | nil => exact absurd rfl hne
        | cons g r =>
            simp only [List.map_cons] at htail
            refine ⟨d.delim, joinFields d (fmtField d g :: List.map (fmtField d) r) ++ ['\r', '\n'], ?_,
              hd.delimLine⟩
            rw [← htail]
            have : fmtField d [] = [] := by simp [fmtField, needsQuote]
            rw [this, List.nil_append]
    | cons c cs =>
        have hc := hall c (by simp)
        simp only [Bool.or_eq_false_iff] at hc
        exact ⟨c, cs ++ tail, by simp [fmtField, hn'], hc.2⟩

theorem run_startRecord (d : Dialect) (c : Char) (cs : List Char) (hc : isLineChar c = false) :
    runChars d RS.init (c :: cs) = runChars d ⟨.startField, [], []⟩ (c :: cs) := by
  rw [runChars_cons, runChars_cons]
  simp [stepChar, RS.init, hc, stepStartField, RS.save, RS.add]

theorem parse_format' (d : Dialect) (hd : d.Good) (fields : List (List Char))
    (hq : ∀ f ∈ fields, QuoteOk d f) :
    parseRecord d (fmtRow d fields) = .ok fields := by
  have hcr : isLineChar '\r' = true := by decide
  have hlf : isLineChar '\n' = true := by decide
  unfold parseRecord fmtRow
  by_cases h1 : fields = [[]]
  · subst h1
    simp only [if_true, List.cons_append, List.nil_append]
    have hcrq : ('\r' == d.quote) = false := cr_bne _ hd.quoteLine
    have hcrd : ('\r' == d.delim) = false := cr_bne _ hd.delimLine
    cases hdq : d.doublequote <;>
    simp [runChars, List.foldlM_cons, stepChar, RS.init, stepStartField, hd.quoteLine, hdq,
      hcrq, hcrd, hcr, hlf, RS.save, finish, bind, Except.bind, pure, Except.pure]
  · rw [if_neg h1]
    cases fields with
    | nil =>
        simp [joinFields, runChars, List.foldlM_cons, stepChar, RS.init, hcr, hlf, finish, bind,
          Except.bind, pure, Except.pure]
    | cons f rest =>
        obtain ⟨c, cs, hraw, hc⟩ := first_char_not_line d hd f rest h1
        rw [hraw, run_startRecord d c cs hc, ← hraw]
        have : joinFields d ((f :: rest).map (fmtField d)) ++ ['\r', '\n'] =
            (joinFields d ((f :: rest).map (fmtField d)) ++ ['\r']) ++ ['\n'] := by simp
        rw [this, runChars_append, run_join_cr d hd (f :: rest) (by simp) hq]
        simp only [Except.bind]
        rw [runChars_cons]
        simp [stepChar, hlf, Except.bind, runChars_nil, finish]

/-- the writer only looks at the delimiter and the quote character of the dialect -/
theorem fmtRow_congr (d d' : Dialect) (h1 : d.delim = d'.delim) (h2 : d.quote = d'.quote)
    (fields : List (List Char)) : fmtRow d fields = fmtRow d' fields := by
  have hesc : ∀ f, escapeBody d f = escapeBody d' f := by
    intro f
    induction f with
    | nil => rfl
    | cons c cs ih => simp [escapeBody, ih, h2]
  have hfield : ∀ f, fmtField d f = fmtField d' f := by
    intro f; simp [fmtField, needsQuote, h1, h2, hesc]
  have hjoin : ∀ l : List (List Char), joinFields d l = joinFields d' l := by
    intro l
    induction l with
    | nil => rfl
    | cons f rest ih =>
        cases rest with
        | nil => rfl
        | cons g r => simp [joinFields, h1, ih]
  unfold fmtRow
  rw [h2, hjoin]
  congr 3
  apply List.map_congr_left
  intro f _; exact hfield f

theorem excel_good : excel.Good := ⟨by decide, by decide, by decide, rfl⟩

end NipyVerif.C07
