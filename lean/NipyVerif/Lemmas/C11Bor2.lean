/- C11 (wave 3) — one Borůvka round, abstractly: every component proposes a lightest edge leaving it (ties
   broken anyhow, differently from component to component), the proposals are examined in any order and one
   is accepted iff its ends are not yet connected (what the union-find of `mst` decides).  Every accepted
   proposal is a cut step (`SafeBuilt`).  The invariant: inside every current class at most one component has
   its proposal not accepted, and that component's proposal is a lightest one of the class. -/
import NipyVerif.Lemmas.C11Bor

namespace NipyVerif.C11

/-- what is connected after one more edge -/
theorem conn_snoc_cases (V : Nat) (A : List Edge) (e : Edge) {x y : Nat} (h : Conn ⟨V, A ++ [e]⟩ x y) :
    Conn ⟨V, A⟩ x y ∨ (Conn ⟨V, A⟩ x e.1 ∧ Conn ⟨V, A⟩ e.2.1 y) ∨ (Conn ⟨V, A⟩ x e.2.1 ∧ Conn ⟨V, A⟩ e.1 y) := by
  induction h with
  | refl => exact Or.inl (Conn.refl _)
  | @step v z w _ he ih =>
      -- one step `v — z` of the extended graph
      have hstep : Conn ⟨V, A⟩ v z ∨ (v = e.1 ∧ z = e.2.1) ∨ (v = e.2.1 ∧ z = e.1) := by
        rcases he with he | he
        · rcases List.mem_append.mp he with h1 | h1
          · exact Or.inl (Conn.step (Conn.refl _) (Or.inl h1))
          · simp only [List.mem_singleton] at h1
            exact Or.inr (Or.inl ⟨congrArg Prod.fst h1, congrArg (fun p => p.2.1) h1⟩)
        · rcases List.mem_append.mp he with h1 | h1
          · exact Or.inl (Conn.step (Conn.refl _) (Or.inr h1))
          · simp only [List.mem_singleton] at h1
            exact Or.inr (Or.inr ⟨congrArg (fun p => p.2.1) h1, congrArg Prod.fst h1⟩)
      rcases ih with ih | ⟨i1, i2⟩ | ⟨i1, i2⟩
      · rcases hstep with hs | ⟨h1, h2⟩ | ⟨h1, h2⟩
        · exact Or.inl (Conn.trans ih hs)
        · subst h1; subst h2; exact Or.inr (Or.inl ⟨ih, Conn.refl _⟩)
        · subst h1; subst h2; exact Or.inr (Or.inr ⟨ih, Conn.refl _⟩)
      · rcases hstep with hs | ⟨h1, h2⟩ | ⟨h1, h2⟩
        · exact Or.inr (Or.inl ⟨i1, Conn.trans i2 hs⟩)
        · subst h1; subst h2; exact Or.inr (Or.inl ⟨i1, Conn.refl _⟩)
        · subst h1; subst h2; exact Or.inl i1
      · rcases hstep with hs | ⟨h1, h2⟩ | ⟨h1, h2⟩
        · exact Or.inr (Or.inr ⟨i1, Conn.trans i2 hs⟩)
        · subst h1; subst h2; exact Or.inl i1
        · subst h1; subst h2; exact Or.inr (Or.inr ⟨i1, Conn.refl _⟩)

/-- the proposals of one round: `lab` labels the components of the forest `A0` the round starts from,
    `lk x` is the proposal of the component of `x` -/
structure Proposals (V : Nat) (E A0 : List Edge) (lab : Nat → Nat) (lk : Nat → Edge) : Prop where
  lab_iff : ∀ u v, u < V → v < V → (lab u = lab v ↔ Conn ⟨V, A0⟩ u v)
  src : ∀ x, x < V → (lk x).1 < V ∧ lab (lk x).1 = lab x
  tgt : ∀ x, x < V → (lk x).2.1 < V ∧ lab (lk x).2.1 ≠ lab x
  same : ∀ x y, x < V → y < V → lab x = lab y → lk x = lk y
  inE : ∀ x, x < V → (lk x ∈ E ∨ revE (lk x) ∈ E)
  lightest : ∀ x y w', x < V → y < V → lab y ≠ lab x → ((x, y, w') ∈ E ∨ (y, x, w') ∈ E) → (lk x).2.2 ≤ w'

/-- the merge loop: the proposals of the representatives `srcs` are examined in order, one is appended iff
    its ends are not connected yet -/
inductive Round (V : Nat) (lk : Nat → Edge) : List Nat → List Edge → List Edge → Prop
  | nil (A : List Edge) : Round V lk [] A A
  | skip {s : Nat} {ss : List Nat} {A R : List Edge} :
      Conn ⟨V, A⟩ (lk s).1 (lk s).2.1 → Round V lk ss A R → Round V lk (s :: ss) A R
  | take {s : Nat} {ss : List Nat} {A R : List Edge} :
      ¬ Conn ⟨V, A⟩ (lk s).1 (lk s).2.1 → Round V lk ss (A ++ [lk s]) R → Round V lk (s :: ss) A R

/-- the component of `x` has had its proposal accepted -/
def Accd (lab : Nat → Nat) (acc : List Nat) (x : Nat) : Prop := ∃ s ∈ acc, lab s = lab x

structure RInv2 (V : Nat) (lab : Nat → Nat) (lk : Nat → Edge) (A : List Edge) (acc : List Nat) : Prop where
  i0 : ∀ u v, u < V → v < V → lab u = lab v → Conn ⟨V, A⟩ u v
  uniq : ∀ x y, x < V → y < V → Conn ⟨V, A⟩ x y → ¬ Accd lab acc x → ¬ Accd lab acc y → lab x = lab y
  low : ∀ x y, x < V → y < V → Conn ⟨V, A⟩ x y → ¬ Accd lab acc x → (lk x).2.2 ≤ (lk y).2.2

theorem round_safe (V : Nat) (E A0 : List Edge) (lab : Nat → Nat) (lk : Nat → Edge) (hE : WFE V E)
    (hP : Proposals V E A0 lab lk) :
    ∀ (srcs : List Nat) (A : List Edge) (acc : List Nat) (R : List Edge),
      (∀ s ∈ srcs, s < V) → srcs.Pairwise (fun a b => lab a ≠ lab b) →
      (∀ s ∈ srcs, ∀ t ∈ acc, lab t ≠ lab s) → WFE V A →
      RInv2 V lab lk A acc → SafeBuilt V E A → Round V lk srcs A R → SafeBuilt V E R := by
  intro srcs
  induction srcs with
  | nil =>
      intro A acc R _ _ _ _ _ hS hR
      cases hR
      exact hS
  | cons s ss ih =>
      intro A acc R hlt hpw hN hAw hI hS hR
      have hsV : s < V := hlt s (by simp)
      have hpw' := (List.pairwise_cons.mp hpw).2
      have hpw1 := (List.pairwise_cons.mp hpw).1
      cases hR with
      | skip _ hR' =>
          exact ih A acc R (fun t ht => hlt t (List.mem_cons_of_mem _ ht)) hpw'
            (fun t ht u hu => hN t (List.mem_cons_of_mem _ ht) u hu) hAw hI hS hR'
      | take hnc hR' =>
          set e := lk s with he
          obtain ⟨haV, hla⟩ := hP.src s hsV
          obtain ⟨hbV, hlb⟩ := hP.tgt s hsV
          -- the component of `s` is not accepted yet
          have hna : ∀ x, x < V → lab x = lab s → ¬ Accd lab acc x := by
            rintro x _ hx ⟨t, ht, hts⟩
            exact hN s (by simp) t ht (by rw [hts, hx])
          have hlka : lk e.1 = e := hP.same e.1 s haV hsV hla
          -- `e` is a lightest edge leaving its current class
          have hmin : ∀ x y w', Conn ⟨V, A⟩ e.1 x → ¬ Conn ⟨V, A⟩ e.1 y →
              ((x, y, w') ∈ E ∨ (y, x, w') ∈ E) → e.2.2 ≤ w' := by
            intro x y w' hx hy hedge
            have hxy : x < V ∧ y < V := by
              rcases hedge with h | h
              · exact hE _ h
              · have := hE _ h; exact ⟨this.2, this.1⟩
            have h1 := hI.low e.1 x haV hxy.1 hx (hna e.1 haV hla)
            rw [hlka] at h1
            have hne : lab y ≠ lab x := by
              intro heq
              exact hy (Conn.trans hx (hI.i0 x y hxy.1 hxy.2 heq.symm))
            exact le_trans h1 (hP.lightest x y w' hxy.1 hxy.2 hne hedge)
          have hAw' : WFE V (A ++ [e]) := by
            intro x hx
            rcases List.mem_append.mp hx with h | h
            · exact hAw x h
            · simp only [List.mem_singleton] at h; subst h; exact ⟨haV, hbV⟩
          have hmono : ∀ {x y}, Conn ⟨V, A⟩ x y → Conn ⟨V, A ++ [e]⟩ x y :=
            fun hc => conn_mono (fun e' he' => List.mem_append_left _ he') hc
          have haccd : ∀ z, Accd lab (s :: acc) z ↔ (lab s = lab z ∨ Accd lab acc z) := by
            intro z
            unfold Accd
            simp only [List.mem_cons, exists_eq_or_imp]
          -- the proposal of the other end is no heavier than `e`
          have hb_le : (lk e.2.1).2.2 ≤ e.2.2 := by
            apply hP.lightest e.2.1 e.1 e.2.2 hbV haV (by rw [hla]; exact fun h => hlb h.symm)
            rcases hP.inE s hsV with h | h
            · exact Or.inr h
            · exact Or.inl h
          have hI' : RInv2 V lab lk (A ++ [e]) (s :: acc) := by
            refine ⟨fun u v hu hv h => hmono (hI.i0 u v hu hv h), ?_, ?_⟩
            · intro x y hx hy hc hnx hny
              rw [haccd] at hnx hny
              have hnx' := not_or.mp hnx
              have hny' := not_or.mp hny
              rcases conn_snoc_cases V A e hc with h | ⟨h1, _⟩ | ⟨_, h2⟩
              · exact hI.uniq x y hx hy h hnx'.2 hny'.2
              · exfalso
                have := hI.uniq x e.1 hx haV h1 hnx'.2 (hna e.1 haV hla)
                exact hnx'.1 (by rw [this, hla])
              · exfalso
                have := hI.uniq e.1 y haV hy h2 (hna e.1 haV hla) hny'.2
                exact hny'.1 (by rw [← this, hla])
            · intro x y hx hy hc hnx
              rw [haccd] at hnx
              have hnx' := not_or.mp hnx
              rcases conn_snoc_cases V A e hc with h | ⟨h1, _⟩ | ⟨h1, h2⟩
              · exact hI.low x y hx hy h hnx'.2
              · exfalso
                have := hI.uniq x e.1 hx haV h1 hnx'.2 (hna e.1 haV hla)
                exact hnx'.1 (by rw [this, hla])
              · have c1 := hI.low x e.2.1 hx hbV h1 hnx'.2
                have c2 := hI.low e.1 y haV hy h2 (hna e.1 haV hla)
                rw [hlka] at c2
                exact le_trans c1 (le_trans hb_le c2)
          exact ih (A ++ [e]) (s :: acc) R (fun t ht => hlt t (List.mem_cons_of_mem _ ht)) hpw'
            (by
              intro t ht u hu
              rcases List.mem_cons.mp hu with rfl | hu
              · exact hpw1 t ht
              · exact hN t (List.mem_cons_of_mem _ ht) u hu)
            hAw' hI' (SafeBuilt.snoc hS (hP.inE s hsV) hnc hmin) hR'

/-- the invariant holds when a round starts -/
theorem rinv2_start (V : Nat) (E A0 : List Edge) (lab : Nat → Nat) (lk : Nat → Edge)
    (hP : Proposals V E A0 lab lk) : RInv2 V lab lk A0 [] := by
  refine ⟨fun u v hu hv h => (hP.lab_iff u v hu hv).mp h, ?_, ?_⟩
  · intro x y hx hy hc _ _
    exact (hP.lab_iff x y hx hy).mpr hc
  · intro x y hx hy hc _
    rw [hP.same x y hx hy ((hP.lab_iff x y hx hy).mpr hc)]

end NipyVerif.C11
