/- Helper lemmas for C17, part M: EM steps of the two-level models. -/
import NipyVerif.Model.C17M
import NipyVerif.Lemmas.C17S

namespace NipyVerif.C17

/-! ### dot products with piecewise constant rows -/

theorem dot_replicate (a : Rat) : ∀ (z : List Rat), dot (List.replicate z.length a) z = a * z.sum := by
  intro z
  unfold dot
  induction z with
  | nil => simp
  | cons b t ih => simp only [List.length_cons, List.replicate_succ, List.zipWith_cons_cons, List.sum_cons, ih]; ring

theorem dot_append (a1 a2 z1 z2 : List Rat) (h : a1.length = z1.length) :
    dot (a1 ++ a2) (z1 ++ z2) = dot a1 z1 + dot a2 z2 := by
  unfold dot
  rw [List.zipWith_append h, List.sum_append]

theorem dot_two_blocks (a c : Rat) (z1 z2 : List Rat) :
    dot (List.replicate z1.length a ++ List.replicate z2.length c) (z1 ++ z2) = a * z1.sum + c * z2.sum := by
  rw [dot_append _ _ _ _ (by simp), dot_replicate, dot_replicate]

/-! ### the two E-step forms agree -/

theorem eStep_prec_eq_mem : ∀ (y vy zfit : List Rat) (s2 : Rat), s2 ≠ 0 → (∀ v ∈ vy, v ≠ 0 ∧ v + s2 ≠ 0) →
    eStepPrec y vy zfit s2 = eStepMem y vy zfit s2 := by
  intro y
  induction y with
  | nil => intro vy zfit s2 _ _; simp [eStepPrec, eStepMem, zipWith3']
  | cons a t ih =>
      intro vy zfit s2 hs hv
      cases vy with
      | nil => simp [eStepPrec, eStepMem, zipWith3']
      | cons v vs =>
          cases zfit with
          | nil => simp [eStepPrec, eStepMem, zipWith3']
          | cons z zs =>
              obtain ⟨hv0, hvs⟩ := hv v List.mem_cons_self
              have hsv : s2 + v ≠ 0 := by rw [add_comm]; exact hvs
              have := ih vs zs s2 hs (fun w hw => hv w (List.mem_cons_of_mem _ hw))
              unfold eStepPrec eStepMem at this ⊢
              simp only [zipWith3', List.cons.injEq, Prod.mk.injEq]
              refine ⟨⟨?_, ?_⟩, this⟩
              · field_simp
              · field_simp

/-! ### negation equivariance of the Gaussian EM -/

def negFst (p : Rat × Rat) : Rat × Rat := (-p.1, p.2)

theorem post_neg (x var : List Rat) (m0 v0 : Rat) :
    List.zipWith (fun xi si => ((v0 * xi + si * -m0) / (si + v0), si * v0 / (si + v0))) (x.map (fun v => -v)) var =
      (List.zipWith (fun xi si => ((v0 * xi + si * m0) / (si + v0), si * v0 / (si + v0))) x var).map negFst := by
  induction x generalizing var with
  | nil => simp
  | cons a t ih =>
      cases var with
      | nil => simp
      | cons s ss =>
          simp only [List.map_cons, List.zipWith_cons_cons, ih ss, negFst, List.cons.injEq, Prod.mk.injEq,
            and_true]
          ring

theorem sum_map_negFst_fst (l : List (Rat × Rat)) : ((l.map negFst).map (·.1)).sum = -(l.map (·.1)).sum := by
  induction l with
  | nil => simp
  | cons a t ih => simp only [List.map_cons, List.sum_cons, ih, negFst]; ring

theorem sum_map_negFst_sq (l : List (Rat × Rat)) :
    ((l.map negFst).map (fun p => p.2 + p.1 * p.1)).sum = (l.map (fun p => p.2 + p.1 * p.1)).sum := by
  induction l with
  | nil => simp
  | cons a t ih => simp only [List.map_cons, List.sum_cons, ih, negFst]; ring

theorem gmfxStep_neg (x var : List Rat) (m0 v0 : Rat) :
    gmfxStep (x.map (fun v => -v)) var (-m0, v0) = negFst (gmfxStep x var (m0, v0)) := by
  simp only [gmfxStep, post_neg, sum_map_negFst_fst, sum_map_negFst_sq, List.length_map, negFst,
    Prod.mk.injEq]
  constructor <;> ring

theorem gmfxStepC_neg (x var : List Rat) (m0 v0 : Rat) :
    gmfxStepC (x.map (fun v => -v)) var (-m0, v0) = negFst (gmfxStepC x var (m0, v0)) := by
  simp only [gmfxStepC, post_neg, sum_map_negFst_sq, List.length_map, negFst, Prod.mk.injEq, true_and]
  ring

theorem iter_conj {α} (f g : α → α) (φ : α → α) (h : ∀ a, g (φ a) = φ (f a)) :
    ∀ k a, iter g k (φ a) = φ (iter f k a) := by
  intro k
  induction k with
  | zero => intro a; rfl
  | succ k ih => intro a; simp only [iter, h, ih]

theorem gmfxEM_neg (x var : List Rat) (niter : Nat) (c : Bool) :
    gmfxEM (x.map (fun v => -v)) var niter c = negFst (gmfxEM x var niter c) := by
  unfold gmfxEM
  cases c with
  | true =>
      simp only [if_true, List.length_map, List.map_map]
      have h0 : ((fun v : Rat => v * v) ∘ fun v => -v) = fun v => v * v := by funext v; simp
      rw [h0]
      have hz : ((0 : Rat), (x.map (fun v => v * v)).sum / (x.length : Rat)) =
          negFst (0, (x.map (fun v => v * v)).sum / (x.length : Rat)) := by simp [negFst]
      rw [hz]
      exact iter_conj _ _ negFst (fun a => by
        obtain ⟨m, v⟩ := a
        have := gmfxStepC_neg x var m v
        simpa [negFst] using this) niter _
  | false =>
      simp only [Bool.false_eq_true, if_false, mean_neg, ssd_neg, List.length_map]
      have hz : (-mean x, ssd x / (x.length : Rat)) = negFst (mean x, ssd x / (x.length : Rat)) := rfl
      rw [hz]
      exact iter_conj _ _ negFst (fun a => by
        obtain ⟨m, v⟩ := a
        have := gmfxStep_neg x var m v
        simpa [negFst] using this) niter _

/-! ### closed form of one Gaussian EM step: the likelihood scores -/

/-- `∂/∂m` of the log-likelihood (up to the factor 1): `Σ (x_i - m)/(s_i + v)` -/
def scoreM (x var : List Rat) (m v : Rat) : Rat :=
  (List.zipWith (fun a s => (a - m) / (s + v)) x var).sum

/-- `2 ∂/∂v` of the log-likelihood: `Σ [(x_i - m)²/(s_i + v)² - 1/(s_i + v)]` -/
def scoreV (x var : List Rat) (m v : Rat) : Rat :=
  (List.zipWith (fun a s => (a - m) / (s + v) * ((a - m) / (s + v)) - 1 / (s + v)) x var).sum

theorem gmfx_sums (m v : Rat) : ∀ (x var : List Rat), (∀ s ∈ var, s + v ≠ 0) → x.length = var.length →
    ((List.zipWith (fun xi si => ((v * xi + si * m) / (si + v), si * v / (si + v))) x var).map (·.1)).sum =
        (x.length : Rat) * m + v * scoreM x var m v ∧
    ((List.zipWith (fun xi si => ((v * xi + si * m) / (si + v), si * v / (si + v))) x var).map
        (fun p => p.2 + p.1 * p.1)).sum =
        (x.length : Rat) * (v + m * m) + 2 * m * v * scoreM x var m v + v * v * scoreV x var m v := by
  intro x
  induction x with
  | nil => intro var _ _; simp [scoreM, scoreV]
  | cons a t ih =>
      intro var hs hl
      cases var with
      | nil => simp at hl
      | cons s ss =>
          have hsv : s + v ≠ 0 := hs s List.mem_cons_self
          obtain ⟨i1, i2⟩ := ih ss (fun w hw => hs w (List.mem_cons_of_mem _ hw)) (by simpa using hl)
          unfold scoreM scoreV at *
          simp only [List.zipWith_cons_cons, List.map_cons, List.sum_cons, List.length_cons, i1, i2]
          push_cast
          constructor
          · field_simp; ring
          · field_simp; ring

end NipyVerif.C17
