/-
C09 — helper lemmas for the logarithmic similarity measures (MI, NMI, SLR) of
`NipyVerif.Model.C09` / `C09Sim`, for an arbitrary function `log`.
-/
import NipyVerif.Lemmas.C09M
import NipyVerif.Model.C09Sim
import Mathlib.Data.List.Perm.Basic
import Mathlib.Tactic.FieldSimp
import Mathlib.Algebra.BigOperators.Group.List.Basic

namespace NipyVerif.C09

theorem zipWith_map_self {α β γ : Type} (f : α → β → γ) (g : α → β) (l : List α) :
    List.zipWith f l (l.map g) = l.map (fun a => f a (g a)) := by
  induction l with
  | nil => rfl
  | cons a r ih => simp [ih]

/-- argument of the logarithm for entry `x` in column `c` of the row `row` of a distribution whose
    column sums are `qI`: `nonzero(x / nonzero(qI[c]) / nonzero(Σ row))` -/
def lossArg (qI : Array Rat) (row : List Rat) (c : Nat) (x : Rat) : Rat :=
  nonzero (x / nonzero (qI.getD c 0) / nonzero row.sum)

theorem lossArgs_eq (q : List (List Rat)) :
    lossArgs q = q.map (fun row => row.zipIdx.map (fun p => lossArg (colSums q).toArray row p.2 p.1)) := by
  unfold lossArgs rowSums
  simp only
  rw [zipWith_map_self]
  rfl

/-- contribution of one histogram row to `Σ H·log(args)` for the MI family, given the total `n`
    and the column sums `qI` of the normalised histogram -/
def miRow (log : Rat → Rat) (n : Rat) (qI : Array Rat) (row : List Rat) : Rat :=
  (List.zipWith (fun h a => h * log a) row
    ((row.map (· / n)).zipIdx.map (fun p => lossArg qI (row.map (· / n)) p.2 p.1))).sum

/-- `mi` as a plain sum over the rows of the histogram -/
theorem mi_rep (log : Rat → Rat) (H : List (List Rat)) :
    mi log H = (H.map (miRow log (nonzero (total H)) (colSums (normalise H)).toArray)).sum
      / nonzero (total H) := by
  unfold mi logMeasure miArgs
  rw [show (H.map (fun r => r.map (· / nonzero (total H)))) = normalise H from rfl, lossArgs_eq]
  unfold normalise
  rw [List.map_map, zipWith_map_self]
  rfl

/-! ### permutations of the rows -/

theorem total_perm {H H' : List (List Rat)} (h : H.Perm H') : total H = total H' := by
  unfold total
  exact (h.map _).sum_eq

theorem colS_perm (w : Nat) {H H' : List (List Rat)} (h : H.Perm H') : colS w H = colS w H' := by
  unfold colS
  apply List.map_congr_left
  intro j _
  exact (h.map _).sum_eq

theorem colSums_perm (w : Nat) {H H' : List (List Rat)} (h : H.Perm H')
    (hw : ∀ row ∈ H, row.length = w) : colSums H = colSums H' := by
  cases H with
  | nil => rw [List.nil_perm.mp h]
  | cons r rest =>
      cases H' with
      | nil => exact absurd h.symm (by simp)
      | cons r' rest' =>
          have hw' : r'.length = w := hw r' (h.symm.subset (by simp))
          rw [colSums_eq_colS w r rest (hw r (by simp)), colSums_eq_colS w r' rest' hw']
          exact colS_perm w h

theorem normalise_perm {H H' : List (List Rat)} (h : H.Perm H') : (normalise H).Perm (normalise H') := by
  unfold normalise
  rw [total_perm h]
  exact h.map _

theorem normalise_width (w : Nat) (H : List (List Rat)) (hw : ∀ row ∈ H, row.length = w) :
    ∀ row ∈ normalise H, row.length = w := by
  intro row hr
  unfold normalise at hr
  obtain ⟨r, hr', rfl⟩ := List.mem_map.mp hr
  simpa using hw r hr'

/-! ### scaling the histogram -/

def scaleH (c : Rat) (H : List (List Rat)) : List (List Rat) := H.map (fun r => r.map (c * ·))

theorem sum_map_mul_left (c : Rat) (l : List Rat) : (l.map (c * ·)).sum = c * l.sum := by
  induction l with
  | nil => simp
  | cons a r ih => simp [ih, mul_add]

theorem total_scale (c : Rat) (H : List (List Rat)) : total (scaleH c H) = c * total H := by
  unfold total scaleH
  rw [List.map_map]
  have : (List.sum ∘ fun (r : List Rat) => r.map (c * ·)) = fun r => c * r.sum := by
    funext r; simp [sum_map_mul_left]
  rw [this]
  induction H with
  | nil => simp
  | cons a r ih => simp [ih, mul_add]

theorem normalise_scale (c : Rat) (hc : 0 < c) (H : List (List Rat)) (hn : tiny ≤ total H)
    (hcn : tiny ≤ c * total H) : normalise (scaleH c H) = normalise H := by
  unfold normalise
  rw [total_scale, nonzero_of_le hn, nonzero_of_le hcn]
  unfold scaleH
  rw [List.map_map]
  apply List.map_congr_left
  intro r _
  simp only [Function.comp, List.map_map]
  apply List.map_congr_left
  intro x _
  have hn0 : total H ≠ 0 := by have := tiny_pos; intro h0; rw [h0] at hn; linarith
  simp only [Function.comp]
  field_simp

/-! ### entropies, the per-row split of the MI summand -/

theorem entropy_perm (log : Rat → Rat) {l l' : List Rat} (h : l.Perm l') : entropy log l = entropy log l' := by
  unfold entropy
  rw [(h.map _).sum_eq]

theorem miRow_scale (log : Rat → Rat) (c n : Rat) (hc : c ≠ 0) (qI : Array Rat) (row : List Rat) :
    miRow log (c * n) qI (row.map (c * ·)) = c * miRow log n qI row := by
  have hmap : (row.map (c * ·)).map (· / (c * n)) = row.map (· / n) := by
    rw [List.map_map]
    apply List.map_congr_left
    intro x _
    simp only [Function.comp]
    by_cases hn : n = 0
    · simp [hn]
    · field_simp
  unfold miRow
  rw [hmap]
  generalize (row.map (· / n)).zipIdx.map (fun p => lossArg qI (row.map (· / n)) p.2 p.1) = args
  clear hmap
  induction row generalizing args with
  | nil => simp
  | cons a r ih =>
      cases args with
      | nil => simp
      | cons b t =>
          simp only [List.map_cons, List.zipWith_cons_cons, List.sum_cons, ih t]
          ring

/-- what the identity needs of `log`: it turns products of positive numbers into sums -/
def Additive (log : Rat → Rat) : Prop := ∀ a b : Rat, 0 < a → 0 < b → log (a * b) = log a + log b

theorem Additive.div {log : Rat → Rat} (h : Additive log) {a b : Rat} (ha : 0 < a) (hb : 0 < b) :
    log (a / b) = log a - log b := by
  have := h (a / b) b (div_pos ha hb) hb
  rw [div_mul_cancel₀ a hb.ne'] at this
  linarith

/-- one row of the normalised histogram: `S` its sum, `qI` the column sums; on the cells where no
    `TINY` clamp is active the summand splits into three logarithms -/
theorem row_split (log : Rat → Rat) (hadd : Additive log) (qI : Array Rat) (S : Rat) :
    ∀ (l : List Rat) (k : Nat),
      (∀ p ∈ l.zipIdx k, p.1 = 0 ∨ (tiny ≤ p.1 ∧ tiny ≤ qI.getD p.2 0 ∧ tiny ≤ S ∧
          tiny ≤ p.1 / qI.getD p.2 0 / S)) →
      (List.zipWith (fun p a => p * log a) l
          ((l.zipIdx k).map (fun p => nonzero (p.1 / nonzero (qI.getD p.2 0) / nonzero S)))).sum
        = (l.map (fun x => x * log (nonzero x))).sum
          - isum (fun c => log (nonzero (qI.getD c 0))) k l - l.sum * log (nonzero S) := by
  intro l
  induction l with
  | nil => intro k _; simp [isum]
  | cons x xs ih =>
      intro k hok
      have hx := hok (x, k) (by simp [List.zipIdx_cons])
      have hrest := ih (k + 1) (fun p hp => hok p (by simp [List.zipIdx_cons, hp]))
      simp only [List.zipIdx_cons, List.map_cons, List.zipWith_cons_cons, List.sum_cons, isum, hrest]
      rcases hx with h0 | ⟨h1, h2, h3, h4⟩
      · simp only at h0
        subst h0
        ring
      · simp only at h1 h2 h3 h4
        have tp := tiny_pos
        rw [nonzero_of_le h1, nonzero_of_le h2, nonzero_of_le h3, nonzero_of_le h4,
          hadd.div (div_pos (by linarith) (by linarith)) (by linarith),
          hadd.div (by linarith) (by linarith)]
        ring

theorem zipWith_div_left (log : Rat → Rat) (n : Rat) (hn : n ≠ 0) : ∀ (row args : List Rat),
    (List.zipWith (fun h a => h * log a) row args).sum / n =
      (List.zipWith (fun p a => p * log a) (row.map (· / n)) args).sum := by
  intro row
  induction row with
  | nil => intro args; simp
  | cons x xs ih =>
      intro args
      cases args with
      | nil => simp
      | cons b t =>
          simp only [List.map_cons, List.zipWith_cons_cons, List.sum_cons, ← ih t]
          field_simp

theorem isum_self_getD (g : Rat → Rat) : ∀ (pre l : List Rat),
    isum (fun c => g ((pre ++ l).toArray.getD c 0)) pre.length l = (l.map (fun x => x * g x)).sum := by
  intro pre l
  induction l generalizing pre with
  | nil => simp [isum]
  | cons x xs ih =>
      have := ih (pre ++ [x])
      simp only [List.append_assoc, List.singleton_append, List.length_append, List.length_singleton] at this
      simp only [isum, List.map_cons, List.sum_cons, this]
      have hx : (pre ++ x :: xs).toArray.getD pre.length 0 = x := by simp [Array.getD]
      rw [hx]
      ring

theorem sum_flatten_map (g : Rat → Rat) (P : List (List Rat)) :
    (P.flatten.map g).sum = (P.map (fun row => (row.map g).sum)).sum := by
  induction P with
  | nil => simp
  | cons r rest ih =>
      simp only [List.flatten_cons, List.map_append, List.sum_append, ih, List.map_cons, List.sum_cons]

end NipyVerif.C09
