/-
C14 — helper lemmas for `_auxiliary_graph`, `fusion` and `average_link_graph`.
-/
import NipyVerif.Lemmas.C14
import NipyVerif.Lemmas.C14Skel
import Mathlib.Tactic.FieldSimp
import Mathlib.Tactic.Positivity

namespace NipyVerif.C14

/-! ### `_auxiliary_graph` -/

theorem auxEdges_mem (E : List (Nat × Nat)) (e : Nat × Nat) :
    e ∈ auxEdges E ↔ e.1 < e.2 ∧ ((e.1, e.2) ∈ E ∨ (e.2, e.1) ∈ E) := by
  unfold auxEdges
  simp only [List.mem_eraseDups, List.mem_mergeSort, List.mem_map, List.mem_filter]
  constructor
  · rintro ⟨e0, ⟨he0, hne⟩, rfl⟩
    have hne' : e0.1 ≠ e0.2 := by simpa using hne
    rcases Nat.lt_or_gt_of_ne hne' with h | h
    · refine ⟨by show min e0.1 e0.2 < max e0.1 e0.2; omega, Or.inl ?_⟩
      have h1 : min e0.1 e0.2 = e0.1 := by omega
      have h2 : max e0.1 e0.2 = e0.2 := by omega
      simp only [h1, h2]; exact he0
    · refine ⟨by show min e0.1 e0.2 < max e0.1 e0.2; omega, Or.inr ?_⟩
      have h1 : min e0.1 e0.2 = e0.2 := by omega
      have h2 : max e0.1 e0.2 = e0.1 := by omega
      simp only [h1, h2]; exact he0
  · rintro ⟨hlt, h | h⟩
    · refine ⟨(e.1, e.2), ⟨h, by simp; omega⟩, ?_⟩
      have h1 : min e.1 e.2 = e.1 := by omega
      have h2 : max e.1 e.2 = e.2 := by omega
      simp [h1, h2]
    · refine ⟨(e.2, e.1), ⟨h, by simp; omega⟩, ?_⟩
      have h1 : min e.2 e.1 = e.1 := by omega
      have h2 : max e.2 e.1 = e.2 := by omega
      simp [h1, h2]

theorem auxEdges_goodEdges (n : Nat) (E : List (Nat × Nat)) (hE : ∀ e ∈ E, e.1 < n ∧ e.2 < n) :
    GoodEdges n (auxEdges E) := by
  intro e he
  obtain ⟨hlt, h | h⟩ := (auxEdges_mem E e).mp he
  · have := hE _ h; exact ⟨this.1, this.2, by omega⟩
  · have := hE _ h; exact ⟨this.2, this.1, by omega⟩

/-! ### algebra of `fusion` -/

theorem fusion_mean (ni nj nx : Nat) (hi : 0 < ni) (hj : 0 < nj) (hx : 0 < nx) (Si Sj : Rat) :
    let fi : Rat := (ni : Rat) / ((ni + nj : Nat) : Rat)
    fi * (Si / ((ni : Rat) * nx)) + (1 - fi) * (Sj / ((nj : Rat) * nx))
      = (Si + Sj) / (((ni + nj : Nat) : Rat) * nx) := by
  intro fi
  have h1 : (ni : Rat) ≠ 0 := by exact_mod_cast hi.ne'
  have h2 : (nj : Rat) ≠ 0 := by exact_mod_cast hj.ne'
  have h3 : (nx : Rat) ≠ 0 := by exact_mod_cast hx.ne'
  have h4 : ((ni + nj : Nat) : Rat) ≠ 0 := by
    have : 0 < ni + nj := by omega
    exact_mod_cast this.ne'
  have h5 : (ni : Rat) + (nj : Rat) ≠ 0 := by
    have := h4; push_cast at this; exact this
  simp only [fi]
  push_cast
  field_simp
  ring

theorem fusion_le (ni nj : Nat) (hi : 0 < ni) (hj : 0 < nj) (wi wj c : Rat)
    (h0i : 0 ≤ wi) (h0j : 0 ≤ wj) (hic : wi ≤ c) (hjc : wj ≤ c) :
    let fi : Rat := (ni : Rat) / ((ni + nj : Nat) : Rat)
    0 ≤ fi * wi + (1 - fi) * wj ∧ fi * wi + (1 - fi) * wj ≤ c := by
  intro fi
  have hpi : (0 : Rat) < (ni : Rat) := by exact_mod_cast hi
  have hpj : (0 : Rat) < (nj : Rat) := by exact_mod_cast hj
  have hs : (0 : Rat) < ((ni + nj : Nat) : Rat) := by push_cast; linarith
  have hf0 : 0 ≤ fi := div_nonneg hpi.le hs.le
  have hf1 : fi ≤ 1 := by
    simp only [fi]
    rw [div_le_one hs]; push_cast; linarith
  have hg0 : 0 ≤ 1 - fi := by linarith
  constructor
  · have := mul_nonneg hf0 h0i
    have := mul_nonneg hg0 h0j
    linarith
  · have a1 : fi * wi ≤ fi * c := mul_le_mul_of_nonneg_left hic hf0
    have a2 : (1 - fi) * wj ≤ (1 - fi) * c := mul_le_mul_of_nonneg_left hjc hg0
    nlinarith

/-! ### `fusion` on the edge list -/

/-- total similarity recorded between the clusters `a` and `b` -/
def wsum (ws : List ((Nat × Nat) × Rat)) (a b : Nat) : Rat :=
  ((ws.filter (fun ew => samePair ew.1 (a, b))).map (·.2)).sum

/-- scaling of `fusion`: edges at `i` by `fi`, edges at `j` by `fj` -/
def scW (i j : Nat) (fi fj : Rat) (v : Nat) (w : Rat) : Rat :=
  if v = i then w * fi else if v = j then w * fj else w

/-- the renamed, rescaled, loop-free edge list of `fusion` before double edges are summed -/
def fuseR (ws : List ((Nat × Nat) × Rat)) (i j k : Nat) (fi fj : Rat) : List ((Nat × Nat) × Rat) :=
  (ws.map (fun ew => ((relabel i j k ew.1.1, relabel i j k ew.1.2),
    scW i j fi fj ew.1.2 (scW i j fi fj ew.1.1 ew.2)))).filter (fun ew => ew.1.1 != ew.1.2)

theorem fuseW_eq (ws : List ((Nat × Nat) × Rat)) (i j k : Nat) (fi fj : Rat) :
    fuseW ws i j k fi fj = (dedupK k ((fuseR ws i j k fi fj).map (·.1)) []).map
      (fun e => (e, (((fuseR ws i j k fi fj).filter (fun ew => samePair ew.1 e)).map (·.2)).sum)) := rfl

theorem fuseW_fst (ws : List ((Nat × Nat) × Rat)) (i j k : Nat) (fi fj : Rat) :
    (fuseW ws i j k fi fj).map (·.1) = dedupK k ((fuseR ws i j k fi fj).map (·.1)) [] := by
  rw [fuseW_eq, List.map_map]
  conv_rhs => rw [← List.map_id (dedupK k _ [])]
  rfl

theorem samePair_trans_right {a e f : Nat × Nat} (h : samePair e f = true) :
    samePair a e = samePair a f := by
  unfold samePair at *
  simp only [Bool.or_eq_true, Bool.and_eq_true, beq_iff_eq] at h
  rcases h with ⟨h1, h2⟩ | ⟨h1, h2⟩
  · rw [h1, h2]
  · rw [h1, h2]
    simp only [Bool.or_comm]

set_option linter.unusedSimpArgs false in
/-- contribution of one edge to the similarity between the merged node `k` and `x` -/
theorem fuse_contrib (i j k x : Nat) (fi fj : Rat) (hij : i ≠ j) (hki : k ≠ i) (hkj : k ≠ j)
    (hx : x ≠ i ∧ x ≠ j ∧ x ≠ k) (a b : Nat) (w : Rat) (ha : a ≠ k) (hb : b ≠ k) :
    (if (relabel i j k a != relabel i j k b) && samePair (relabel i j k a, relabel i j k b) (k, x)
      then scW i j fi fj b (scW i j fi fj a w) else 0)
    = fi * (if samePair (a, b) (i, x) then w else 0) + fj * (if samePair (a, b) (j, x) then w else 0) := by
  obtain ⟨hxi, hxj, hxk⟩ := hx
  unfold relabel samePair scW
  by_cases hai : a = i
  · subst hai
    by_cases hbx : b = x
    · subst hbx
      simp [hij, hki, hkj, hxi, hxj, hxk, Ne.symm hxi, Ne.symm hxj, Ne.symm hxk, Ne.symm hki, Ne.symm hkj]
      ring
    · by_cases hbi : b = a
      · subst hbi; simp [hij, hki, hkj, hxi, hxj, hxk, Ne.symm hxi, Ne.symm hxj, Ne.symm hxk, hbx]
      · by_cases hbj : b = j
        · subst hbj; simp [hij, Ne.symm hij, hki, hkj, hxi, hxj, hxk, Ne.symm hxi, Ne.symm hxj, Ne.symm hxk]
        · simp [hij, hki, hkj, hxi, hxj, hxk, Ne.symm hxi, Ne.symm hxj, Ne.symm hxk, hbx, hbi, hbj, hb,
            Ne.symm hki, Ne.symm hkj, Ne.symm hb]
  · by_cases haj : a = j
    · subst haj
      by_cases hbx : b = x
      · subst hbx
        simp [hij, Ne.symm hij, hki, hkj, hxi, hxj, hxk, Ne.symm hxi, Ne.symm hxj, Ne.symm hxk,
          Ne.symm hki, Ne.symm hkj]
        ring
      · by_cases hbi : b = i
        · subst hbi; simp [hij, Ne.symm hij, hki, hkj, hxi, hxj, hxk, Ne.symm hxi, Ne.symm hxj, Ne.symm hxk]
        · by_cases hbj : b = a
          · subst hbj; simp [hij, Ne.symm hij, hki, hkj, hxi, hxj, hxk, Ne.symm hxi, Ne.symm hxj, Ne.symm hxk, hbx]
          · simp [hij, Ne.symm hij, hki, hkj, hxi, hxj, hxk, Ne.symm hxi, Ne.symm hxj, Ne.symm hxk, hbx,
              hbi, hbj, hb, Ne.symm hki, Ne.symm hkj, Ne.symm hb]
    · by_cases hax : a = x
      · subst hax
        by_cases hbi : b = i
        · subst hbi
          simp [hij, Ne.symm hij, hki, hkj, hxi, hxj, hxk, Ne.symm hxi, Ne.symm hxj, Ne.symm hxk,
            Ne.symm hki, Ne.symm hkj]
          ring
        · by_cases hbj : b = j
          · subst hbj
            simp [hij, Ne.symm hij, hki, hkj, hxi, hxj, hxk, Ne.symm hxi, Ne.symm hxj, Ne.symm hxk,
              Ne.symm hki, Ne.symm hkj]
            ring
          · simp [hai, haj, hbi, hbj, hxi, hxj, hxk, Ne.symm hxk, hb, Ne.symm hb, Ne.symm hxi, Ne.symm hxj]
      · by_cases hbi : b = i
        · subst hbi
          simp [hai, haj, hax, hij, Ne.symm hij, hki, hkj, hxi, hxj, hxk, Ne.symm hxi, Ne.symm hxj,
            Ne.symm hxk, ha, Ne.symm ha, Ne.symm hai, Ne.symm haj, Ne.symm hax]
        · by_cases hbj : b = j
          · subst hbj
            simp [hai, haj, hax, hij, Ne.symm hij, hki, hkj, hxi, hxj, hxk, Ne.symm hxi, Ne.symm hxj,
              Ne.symm hxk, ha, Ne.symm ha, Ne.symm hai, Ne.symm haj, Ne.symm hax]
          · simp [hai, haj, hax, hbi, hbj, ha, hb, Ne.symm ha, Ne.symm hb, Ne.symm hxk, hxk]

theorem fuseR_sum (ws : List ((Nat × Nat) × Rat)) (i j k x : Nat) (fi fj : Rat)
    (hij : i ≠ j) (hki : k ≠ i) (hkj : k ≠ j) (hx : x ≠ i ∧ x ≠ j ∧ x ≠ k)
    (hk : ∀ ew ∈ ws, ew.1.1 ≠ k ∧ ew.1.2 ≠ k) :
    (((fuseR ws i j k fi fj).filter (fun ew => samePair ew.1 (k, x))).map (·.2)).sum
      = fi * wsum ws i x + fj * wsum ws j x := by
  induction ws with
  | nil => simp [fuseR, wsum]
  | cons ew r ih =>
      have ihr := ih (fun e he => hk e (List.mem_cons_of_mem _ he))
      obtain ⟨h1, h2⟩ := hk ew List.mem_cons_self
      have hc := fuse_contrib i j k x fi fj hij hki hkj hx ew.1.1 ew.1.2 ew.2 h1 h2
      have hw : ∀ a b, wsum (ew :: r) a b = (if samePair ew.1 (a, b) then ew.2 else 0) + wsum r a b := by
        intro a b
        unfold wsum
        by_cases hs : samePair ew.1 (a, b) = true
        · simp [List.filter_cons, hs]
        · simp [List.filter_cons, hs]
      have hl : (((fuseR (ew :: r) i j k fi fj).filter (fun e => samePair e.1 (k, x))).map (·.2)).sum
          = (if (relabel i j k ew.1.1 != relabel i j k ew.1.2) &&
                samePair (relabel i j k ew.1.1, relabel i j k ew.1.2) (k, x)
              then scW i j fi fj ew.1.2 (scW i j fi fj ew.1.1 ew.2) else 0)
            + (((fuseR r i j k fi fj).filter (fun e => samePair e.1 (k, x))).map (·.2)).sum := by
        unfold fuseR
        simp only [List.map_cons, List.filter_cons]
        by_cases hn : (relabel i j k ew.1.1 != relabel i j k ew.1.2) = true
        · by_cases hs : samePair (relabel i j k ew.1.1, relabel i j k ew.1.2) (k, x) = true
          · simp [hn, hs]
          · simp [hn, hs]
        · simp [hn]
      rw [hl, ihr, hc, hw, hw]
      ring

theorem fuseW_weight (ws : List ((Nat × Nat) × Rat)) (i j k x : Nat) (fi fj : Rat)
    (hij : i ≠ j) (hki : k ≠ i) (hkj : k ≠ j) (hx : x ≠ i ∧ x ≠ j ∧ x ≠ k)
    (hk : ∀ ew ∈ ws, ew.1.1 ≠ k ∧ ew.1.2 ≠ k)
    (e : Nat × Nat) (w : Rat) (he : (e, w) ∈ fuseW ws i j k fi fj) (hex : samePair e (k, x) = true) :
    w = fi * wsum ws i x + fj * wsum ws j x := by
  rw [fuseW_eq, List.mem_map] at he
  obtain ⟨e', -, heq⟩ := he
  simp only [Prod.mk.injEq] at heq
  obtain ⟨rfl, rfl⟩ := heq
  have : (fun ew : (Nat × Nat) × Rat => samePair ew.1 e') = (fun ew => samePair ew.1 (k, x)) := by
    funext ew; exact samePair_trans_right hex
  rw [this]
  exact fuseR_sum ws i j k x fi fj hij hki hkj hx hk

/-! ### `average_link_graph` steps are agglomeration steps -/

theorem fuseR_fst_filter (ws : List ((Nat × Nat) × Rat)) (i j k : Nat) (fi fj : Rat) :
    (fuseR (ws.filter (fun ew => !samePair ew.1 (i, j))) i j k fi fj).map (·.1)
      = ((ws.map (·.1)).map (fun e => (relabel i j k e.1, relabel i j k e.2))).filter
          (fun e => e.1 != e.2) := by
  induction ws with
  | nil => simp [fuseR]
  | cons ew r ih =>
      have step : ∀ (l : List ((Nat × Nat) × Rat)),
          fuseR (ew :: l) i j k fi fj
            = if (relabel i j k ew.1.1 != relabel i j k ew.1.2) = true then
                ((relabel i j k ew.1.1, relabel i j k ew.1.2),
                  scW i j fi fj ew.1.2 (scW i j fi fj ew.1.1 ew.2)) :: fuseR l i j k fi fj
              else fuseR l i j k fi fj := by
        intro l
        unfold fuseR
        rw [List.map_cons, List.filter_cons]
      have rhs : ((((ew :: r).map (·.1)).map (fun e => (relabel i j k e.1, relabel i j k e.2))).filter
            (fun e => e.1 != e.2))
          = if (relabel i j k ew.1.1 != relabel i j k ew.1.2) = true then
              (relabel i j k ew.1.1, relabel i j k ew.1.2) ::
                (((r.map (·.1)).map (fun e => (relabel i j k e.1, relabel i j k e.2))).filter
                  (fun e => e.1 != e.2))
            else (((r.map (·.1)).map (fun e => (relabel i j k e.1, relabel i j k e.2))).filter
                  (fun e => e.1 != e.2)) := by
        rw [List.map_cons, List.map_cons, List.filter_cons]
      rw [rhs, List.filter_cons]
      by_cases hs : samePair ew.1 (i, j) = true
      · have hloop : relabel i j k ew.1.1 = relabel i j k ew.1.2 := by
          unfold samePair at hs
          simp only [Bool.or_eq_true, Bool.and_eq_true, beq_iff_eq] at hs
          rcases hs with ⟨h1, h2⟩ | ⟨h1, h2⟩
          · rw [relabel_of_mem (Or.inl h1), relabel_of_mem (Or.inr h2)]
          · rw [relabel_of_mem (Or.inr h1), relabel_of_mem (Or.inl h2)]
        have hn : ¬ (relabel i j k ew.1.1 != relabel i j k ew.1.2) = true := by simp [hloop]
        rw [if_neg (by simp [hs]), if_neg hn]
        exact ih
      · rw [if_pos (by simpa using hs), step]
        by_cases hn : (relabel i j k ew.1.1 != relabel i j k ew.1.2) = true
        · rw [if_pos hn, if_pos hn, List.map_cons, ih]
        · rw [if_neg hn, if_neg hn]
          exact ih

theorem avg_merge_skel (s : AState) (i j : Nat) : (s.merge i j).skel = s.skel.step i j := by
  unfold AState.merge AState.skel Skel.step stepEdges
  simp only
  congr 1
  rw [fuseW_fst, fuseR_fst_filter]

theorem avgReplay_acc_mem (S : List (Nat × Nat)) (s : AState) (acc : List (Bool × Rat × Rat))
    (x : Bool × Rat × Rat) (hx : x ∈ acc) : x ∈ (avgReplay S s acc).2 := by
  induction S generalizing s acc with
  | nil => simpa [avgReplay] using hx
  | cons ij r ih =>
      obtain ⟨i, j⟩ := ij
      simp only [avgReplay]
      exact ih _ _ (List.mem_cons_of_mem _ hx)

theorem avgReplay_reach {n : Nat} {E : List (Nat × Nat)} (S : List (Nat × Nat)) {s : AState}
    (acc : List (Bool × Rat × Rat)) (h : Reach n E s.skel)
    (hflags : ∀ x ∈ (avgReplay S s acc).2, x.1 = true) : Reach n E (avgReplay S s acc).1.skel := by
  induction S generalizing s acc with
  | nil => simpa [avgReplay] using h
  | cons ij r ih =>
      obtain ⟨i, j⟩ := ij
      simp only [avgReplay] at hflags ⊢
      apply ih _ _ hflags
      rw [avg_merge_skel]
      apply Reach.step h
      exact hflags _ (avgReplay_acc_mem r _ _ _ List.mem_cons_self)


/-! ### one step of average link never raises a similarity above the current maximum -/

set_option linter.unusedSimpArgs false in
/-- contribution of one edge to a pair away from the merged nodes -/
theorem fuse_contrib_other (i j k u v : Nat) (fi fj : Rat)
    (hu : u ≠ i ∧ u ≠ j ∧ u ≠ k) (hv : v ≠ i ∧ v ≠ j ∧ v ≠ k) (huv : u ≠ v) (a b : Nat) (w : Rat) :
    (if (relabel i j k a != relabel i j k b) && samePair (relabel i j k a, relabel i j k b) (u, v)
      then scW i j fi fj b (scW i j fi fj a w) else 0)
    = if samePair (a, b) (u, v) then w else 0 := by
  obtain ⟨hui, huj, huk⟩ := hu
  obtain ⟨hvi, hvj, hvk⟩ := hv
  unfold relabel samePair scW
  by_cases hai : a = i
  · subst hai
    by_cases hbi : b = a
    · subst hbi; simp [Ne.symm hui, Ne.symm hvi, Ne.symm huk, Ne.symm hvk]
    · by_cases hbj : b = j
      · subst hbj; simp [Ne.symm hui, Ne.symm hvi, Ne.symm huj, Ne.symm hvj, Ne.symm huk, Ne.symm hvk]
      · simp [hbi, hbj, Ne.symm hui, Ne.symm hvi, Ne.symm huk, Ne.symm hvk]
  · by_cases haj : a = j
    · subst haj
      by_cases hbi : b = i
      · subst hbi; simp [Ne.symm hui, Ne.symm hvi, Ne.symm huj, Ne.symm hvj, Ne.symm huk, Ne.symm hvk]
      · by_cases hbj : b = a
        · subst hbj; simp [hai, Ne.symm huj, Ne.symm hvj, Ne.symm huk, Ne.symm hvk]
        · simp [hai, hbi, hbj, Ne.symm huj, Ne.symm hvj, Ne.symm huk, Ne.symm hvk]
    · by_cases hbi : b = i
      · subst hbi
        simp [hai, haj, Ne.symm hui, Ne.symm hvi, Ne.symm huk, Ne.symm hvk]
      · by_cases hbj : b = j
        · subst hbj
          simp [hai, haj, hbi, Ne.symm huj, Ne.symm hvj, Ne.symm huk, Ne.symm hvk]
        · by_cases hab : a = b
          · subst hab
            simp [hai, haj]
            rintro (⟨h1, h2⟩ | ⟨h1, h2⟩)
            · exact absurd (h1.symm.trans h2) huv
            · exact absurd (h2.symm.trans h1) huv
          · simp [hai, haj, hbi, hbj, hab]

theorem fuseR_sum_other (ws : List ((Nat × Nat) × Rat)) (i j k u v : Nat) (fi fj : Rat)
    (hu : u ≠ i ∧ u ≠ j ∧ u ≠ k) (hv : v ≠ i ∧ v ≠ j ∧ v ≠ k) (huv : u ≠ v) :
    (((fuseR ws i j k fi fj).filter (fun ew => samePair ew.1 (u, v))).map (·.2)).sum = wsum ws u v := by
  induction ws with
  | nil => simp [fuseR, wsum]
  | cons ew r ih =>
      have hc := fuse_contrib_other i j k u v fi fj hu hv huv ew.1.1 ew.1.2 ew.2
      have hw : wsum (ew :: r) u v = (if samePair ew.1 (u, v) then ew.2 else 0) + wsum r u v := by
        unfold wsum
        by_cases hs : samePair ew.1 (u, v) = true
        · simp [List.filter_cons, hs]
        · simp [List.filter_cons, hs]
      have hl : (((fuseR (ew :: r) i j k fi fj).filter (fun e => samePair e.1 (u, v))).map (·.2)).sum
          = (if (relabel i j k ew.1.1 != relabel i j k ew.1.2) &&
                samePair (relabel i j k ew.1.1, relabel i j k ew.1.2) (u, v)
              then scW i j fi fj ew.1.2 (scW i j fi fj ew.1.1 ew.2) else 0)
            + (((fuseR r i j k fi fj).filter (fun e => samePair e.1 (u, v))).map (·.2)).sum := by
        unfold fuseR
        simp only [List.map_cons, List.filter_cons]
        by_cases hn : (relabel i j k ew.1.1 != relabel i j k ew.1.2) = true
        · by_cases hs : samePair (relabel i j k ew.1.1, relabel i j k ew.1.2) (u, v) = true
          · simp [hn, hs]
          · simp [hn, hs]
        · simp [hn]
      rw [hl, ih, hc, hw]

/-- one recorded similarity per pair of clusters -/
def UniquePairs (ws : List ((Nat × Nat) × Rat)) : Prop :=
  ws.Pairwise (fun a b => samePair a.1 b.1 = false)

theorem samePair_iff (a b : Nat × Nat) :
    samePair a b = true ↔ (a.1 = b.1 ∧ a.2 = b.2) ∨ (a.1 = b.2 ∧ a.2 = b.1) := by
  simp [samePair]

theorem samePair_symm (a b : Nat × Nat) : samePair a b = samePair b a := by
  rw [Bool.eq_iff_iff, samePair_iff, samePair_iff]
  omega

theorem samePair_trans {a b c : Nat × Nat} (h1 : samePair a b = true) (h2 : samePair b c = true) :
    samePair a c = true := by
  rw [samePair_iff] at *
  omega

/-- with one edge per pair, the total similarity between two clusters is `0` or the weight of
    their edge: it lies between `0` and any bound of the weights -/
theorem wsum_bounds (ws : List ((Nat × Nat) × Rat)) (hU : UniquePairs ws) (c : Rat) (hc : 0 ≤ c)
    (hb : ∀ ew ∈ ws, 0 ≤ ew.2 ∧ ew.2 ≤ c) (a b : Nat) : 0 ≤ wsum ws a b ∧ wsum ws a b ≤ c := by
  induction ws with
  | nil => simp [wsum, hc]
  | cons ew r ih =>
      have hU' : UniquePairs r := (List.pairwise_cons.mp hU).2
      have hrest := ih hU' (fun e he => hb e (List.mem_cons_of_mem _ he))
      unfold wsum at *
      by_cases hs : samePair ew.1 (a, b) = true
      · have hzero : r.filter (fun e => samePair e.1 (a, b)) = [] := by
          rw [List.filter_eq_nil_iff]
          intro e he hse
          have hne := (List.pairwise_cons.mp hU).1 e he
          have : samePair ew.1 e.1 = true :=
            samePair_trans hs (by rw [samePair_symm]; exact hse)
          rw [this] at hne; exact absurd hne (by simp)
        simp only [List.filter_cons, hs, if_true, List.map_cons, List.sum_cons, hzero, List.map_nil,
          List.sum_nil, add_zero]
        exact hb ew List.mem_cons_self
      · simp only [List.filter_cons, hs]
        exact hrest

theorem fuseW_weight_other (ws : List ((Nat × Nat) × Rat)) (i j k u v : Nat) (fi fj : Rat)
    (hu : u ≠ i ∧ u ≠ j ∧ u ≠ k) (hv : v ≠ i ∧ v ≠ j ∧ v ≠ k) (huv : u ≠ v)
    (e : Nat × Nat) (w : Rat) (he : (e, w) ∈ fuseW ws i j k fi fj) (hex : samePair e (u, v) = true) :
    w = wsum ws u v := by
  rw [fuseW_eq, List.mem_map] at he
  obtain ⟨e', -, heq⟩ := he
  simp only [Prod.mk.injEq] at heq
  obtain ⟨rfl, rfl⟩ := heq
  have : (fun ew : (Nat × Nat) × Rat => samePair ew.1 e') = (fun ew => samePair ew.1 (u, v)) := by
    funext ew; exact samePair_trans_right hex
  rw [this]
  exact fuseR_sum_other ws i j k u v fi fj hu hv huv

/-- every edge of the fused list joins `k` to an old third node, or two old nodes away from
    `i`, `j`, `k` -/
theorem fuseW_edge_shape (ws : List ((Nat × Nat) × Rat)) (i j k : Nat) (fi fj : Rat)
    (hki : k ≠ i) (hkj : k ≠ j) (hk : ∀ ew ∈ ws, ew.1.1 ≠ k ∧ ew.1.2 ≠ k)
    (e : Nat × Nat) (w : Rat) (he : (e, w) ∈ fuseW ws i j k fi fj) :
    (∃ x, x ≠ i ∧ x ≠ j ∧ x ≠ k ∧ samePair e (k, x) = true) ∨
    (∃ u v, (u ≠ i ∧ u ≠ j ∧ u ≠ k) ∧ (v ≠ i ∧ v ≠ j ∧ v ≠ k) ∧ u ≠ v ∧ samePair e (u, v) = true) := by
  have hmem : e ∈ (fuseW ws i j k fi fj).map (·.1) := List.mem_map.mpr ⟨(e, w), he, rfl⟩
  rw [fuseW_fst] at hmem
  have hsub := dedupK_subset _ _ _ _ hmem
  unfold fuseR at hsub
  rw [List.mem_map] at hsub
  obtain ⟨ew', hew', rfl⟩ := hsub
  rw [List.mem_filter, List.mem_map] at hew'
  obtain ⟨⟨ew, hew, rfl⟩, hne⟩ := hew'
  obtain ⟨h1, h2⟩ := hk ew hew
  have hne' : relabel i j k ew.1.1 ≠ relabel i j k ew.1.2 := by simpa using hne
  simp only
  by_cases ha : ew.1.1 = i ∨ ew.1.1 = j
  · by_cases hb : ew.1.2 = i ∨ ew.1.2 = j
    · exact absurd (by rw [relabel_of_mem ha, relabel_of_mem hb]) hne'
    · left
      simp only [not_or] at hb
      refine ⟨ew.1.2, hb.1, hb.2, h2, ?_⟩
      rw [relabel_of_mem ha, relabel_of_not hb.1 hb.2]
      simp [samePair]
  · simp only [not_or] at ha
    by_cases hb : ew.1.2 = i ∨ ew.1.2 = j
    · left
      refine ⟨ew.1.1, ha.1, ha.2, h1, ?_⟩
      rw [relabel_of_not ha.1 ha.2, relabel_of_mem hb]
      simp [samePair]
    · right
      simp only [not_or] at hb
      refine ⟨ew.1.1, ew.1.2, ⟨ha.1, ha.2, h1⟩, ⟨hb.1, hb.2, h2⟩, ?_, ?_⟩
      · rw [relabel_of_not ha.1 ha.2, relabel_of_not hb.1 hb.2] at hne'; exact hne'
      · rw [relabel_of_not ha.1 ha.2, relabel_of_not hb.1 hb.2]
        simp [samePair]

/-- **one step of average link**: with one non-negative similarity per pair, all at most `c`, the
    similarities after fusing `i` and `j` (populations `ni`, `nj`) are again between `0` and `c` -/
theorem avg_step_bounded (ws : List ((Nat × Nat) × Rat)) (i j k ni nj : Nat)
    (hij : i ≠ j) (hki : k ≠ i) (hkj : k ≠ j) (hni : 0 < ni) (hnj : 0 < nj)
    (hk : ∀ ew ∈ ws, ew.1.1 ≠ k ∧ ew.1.2 ≠ k) (hU : UniquePairs ws) (c : Rat) (hc : 0 ≤ c)
    (hb : ∀ ew ∈ ws, 0 ≤ ew.2 ∧ ew.2 ≤ c) :
    let fi : Rat := (ni : Rat) / ((ni + nj : Nat) : Rat)
    ∀ ew ∈ fuseW ws i j k fi (1 - fi), 0 ≤ ew.2 ∧ ew.2 ≤ c := by
  intro fi ew hew
  obtain ⟨e, w⟩ := ew
  rcases fuseW_edge_shape ws i j k fi (1 - fi) hki hkj hk e w hew with ⟨x, hxi, hxj, hxk, hs⟩ | ⟨u, v, hu, hv, huv, hs⟩
  · have hw := fuseW_weight ws i j k x fi (1 - fi) hij hki hkj ⟨hxi, hxj, hxk⟩ hk e w hew hs
    obtain ⟨a1, a2⟩ := wsum_bounds ws hU c hc hb i x
    obtain ⟨b1, b2⟩ := wsum_bounds ws hU c hc hb j x
    have := fusion_le ni nj hni hnj (wsum ws i x) (wsum ws j x) c a1 b1 a2 b2
    simp only at this ⊢
    rw [hw]; exact this
  · have hw := fuseW_weight_other ws i j k u v fi (1 - fi) hu hv huv e w hew hs
    simp only
    rw [hw]
    exact wsum_bounds ws hU c hc hb u v

end NipyVerif.C14
