/- C03 (wave 3): the binary rounding of the driver (`rnd32`, `rndP`) — error bounds. -/
import NipyVerif.Lemmas.C03H
import NipyVerif.Model.C03F
import Mathlib.Data.Rat.Floor
import Mathlib.Algebra.Order.Floor.Ring
import Mathlib.Tactic.Positivity
import Mathlib.Tactic.FieldSimp
import Mathlib.Tactic.NormNum

namespace NipyVerif.C03

theorem rabs_eq_abs (x : Rat) : rabs x = |x| := by
  unfold rabs
  split_ifs with h
  · exact (abs_of_neg h).symm
  · exact (abs_of_nonneg (not_lt.1 h)).symm

theorem pow2_eq_zpow (e : Int) : pow2 e = (2 : Rat) ^ e := by
  unfold pow2
  split_ifs with h
  · conv_rhs => rw [← Int.toNat_of_nonneg h]
    rw [zpow_natCast]
  · have hneg : 0 ≤ -e := by omega
    have : e = -((-e).toNat : Int) := by rw [Int.toNat_of_nonneg hneg]; ring
    conv_rhs => rw [this]
    rw [zpow_neg, zpow_natCast, one_div]

theorem pow2_pos (e : Int) : 0 < pow2 e := by
  rw [pow2_eq_zpow]; exact zpow_pos (by norm_num) e

theorem pow2_add (a b : Int) : pow2 (a + b) = pow2 a * pow2 b := by
  simp only [pow2_eq_zpow]
  exact zpow_add₀ (by norm_num) a b

theorem pow2_mono {a b : Int} (h : a ≤ b) : pow2 a ≤ pow2 b := by
  simp only [pow2_eq_zpow]
  exact zpow_le_zpow_right₀ (by norm_num) h

/-- the bracket `Nat.log2` gives for a positive rational -/
theorem log2_bracket (m : Rat) (hm : 0 < m) :
    pow2 ((Nat.log2 m.num.toNat : Int) - (Nat.log2 m.den : Int) - 1) ≤ m ∧
    m < pow2 ((Nat.log2 m.num.toNat : Int) - (Nat.log2 m.den : Int) + 1) := by
  have hnum : 0 < m.num := Rat.num_pos.2 hm
  have ha0 : m.num.toNat ≠ 0 := by omega
  have hb0 : m.den ≠ 0 := m.den_nz
  obtain ⟨a, haD⟩ : ∃ a, a = m.num.toNat := ⟨_, rfl⟩
  obtain ⟨b, hbD⟩ : ∃ b, b = m.den := ⟨_, rfl⟩
  rw [← haD, ← hbD]
  rw [← haD] at ha0
  rw [← hbD] at hb0
  have hm_eq : m = (a : Rat) / (b : Rat) := by
    have h1 : (m.num : Rat) = ((a : Nat) : Rat) := by
      have : m.num = (a : Int) := by rw [haD]; omega
      rw [this]; simp
    have := Rat.num_div_den m
    rw [h1, ← hbD] at this
    exact this.symm
  have hla := Nat.log2_self_le ha0
  have hua := @Nat.lt_log2_self a
  have hlb := Nat.log2_self_le hb0
  have hub := @Nat.lt_log2_self b
  have hlaQ : ((2 : Rat) ^ a.log2) ≤ (a : Rat) := by exact_mod_cast hla
  have huaQ : (a : Rat) < (2 : Rat) ^ (a.log2 + 1) := by exact_mod_cast hua
  have hlbQ : ((2 : Rat) ^ b.log2) ≤ (b : Rat) := by exact_mod_cast hlb
  have hubQ : (b : Rat) < (2 : Rat) ^ (b.log2 + 1) := by exact_mod_cast hub
  have hbpos : (0 : Rat) < (b : Rat) := by exact_mod_cast Nat.pos_of_ne_zero hb0
  have hapos : (0 : Rat) < (a : Rat) := by exact_mod_cast Nat.pos_of_ne_zero ha0
  have h2a : (0 : Rat) < (2 : Rat) ^ a.log2 := by positivity
  have h2b : (0 : Rat) < (2 : Rat) ^ b.log2 := by positivity
  constructor
  · -- 2^(la - lb - 1) = 2^la / 2^(lb+1) ≤ a / b
    have : pow2 ((a.log2 : Int) - (b.log2 : Int) - 1) = (2 : Rat) ^ a.log2 / (2 : Rat) ^ (b.log2 + 1) := by
      rw [pow2_eq_zpow, show ((a.log2 : Int) - (b.log2 : Int) - 1) = (a.log2 : Int) - ((b.log2 + 1 : Nat) : Int) by
        push_cast; ring, zpow_sub₀ (by norm_num), zpow_natCast, zpow_natCast]
    rw [this, hm_eq, div_le_div_iff₀ (by positivity) hbpos]
    calc (2 : Rat) ^ a.log2 * (b : Rat) ≤ (a : Rat) * (b : Rat) :=
          mul_le_mul_of_nonneg_right hlaQ (le_of_lt hbpos)
      _ ≤ (a : Rat) * (2 : Rat) ^ (b.log2 + 1) := mul_le_mul_of_nonneg_left (le_of_lt hubQ) (le_of_lt hapos)
  · have : pow2 ((a.log2 : Int) - (b.log2 : Int) + 1) = (2 : Rat) ^ (a.log2 + 1) / (2 : Rat) ^ b.log2 := by
      rw [pow2_eq_zpow, show ((a.log2 : Int) - (b.log2 : Int) + 1) = ((a.log2 + 1 : Nat) : Int) - (b.log2 : Int) by
        push_cast; ring, zpow_sub₀ (by norm_num), zpow_natCast, zpow_natCast]
    rw [this, hm_eq, div_lt_div_iff₀ hbpos h2b]
    calc (a : Rat) * (2 : Rat) ^ b.log2 ≤ (a : Rat) * (b : Rat) :=
          mul_le_mul_of_nonneg_left hlbQ (le_of_lt hapos)
      _ < (2 : Rat) ^ (a.log2 + 1) * (b : Rat) := mul_lt_mul_of_pos_right huaQ hbpos

/-- **`ilog2` is the binary exponent**: `2^(ilog2 m) ≤ m < 2^(ilog2 m + 1)` for every positive rational -/
theorem ilog2_spec (m : Rat) (hm : 0 < m) : pow2 (ilog2 m) ≤ m ∧ m < pow2 (ilog2 m + 1) := by
  obtain ⟨hlo, hhi⟩ := log2_bracket m hm
  unfold ilog2
  simp only []
  split_ifs with h1 h2
  · refine ⟨hlo, ?_⟩
    have : (Nat.log2 m.num.toNat : Int) - (Nat.log2 m.den : Int) - 1 + 1 =
        (Nat.log2 m.num.toNat : Int) - (Nat.log2 m.den : Int) := by ring
    rw [this]; exact h1
  · exact absurd hhi (not_lt.2 h2)
  · exact ⟨not_lt.1 h1, not_le.1 h2⟩

/-- the nearest integer, ties to even, is within one half -/
theorem round_step (t : Rat) :
    |(((if t - (t.floor : Rat) < 1 / 2 then t.floor
        else if 1 / 2 < t - (t.floor : Rat) then t.floor + 1
        else if t.floor % 2 = 0 then t.floor else t.floor + 1 : Int) : Rat)) - t| ≤ 1 / 2 := by
  have hf : t.floor = ⌊t⌋ := rfl
  have h1 : ((t.floor : Int) : Rat) ≤ t := by rw [hf]; exact Int.floor_le t
  have h2 : t < ((t.floor : Int) : Rat) + 1 := by rw [hf]; exact Int.lt_floor_add_one t
  rw [abs_le]
  split_ifs with ha hb hc <;> push_cast <;> constructor <;> linarith

/-- the spacing of the `p`-bit grid around `x` (`emin`: exponent below which the spacing stays fixed) -/
def ulpOf (p : Nat) (emin : Int) (x : Rat) : Rat :=
  pow2 ((if ilog2 (rabs x) < emin then emin else ilog2 (rabs x)) - ((p : Int) - 1))

/-- **absolute error of the rounding**: at most half a grid step -/
theorem rndP_abs_error (p : Nat) (emin : Int) (x : Rat) :
    rabs (rndP p emin x - x) ≤ ulpOf p emin x / 2 := by
  have hu : 0 < ulpOf p emin x := pow2_pos _
  by_cases hx : x = 0
  · subst hx
    have : rndP p emin 0 = 0 := by simp [rndP]
    rw [this]
    simp only [sub_zero]
    have : rabs (0 : Rat) = 0 := by simp [rabs]
    rw [this]; linarith
  · rw [rabs_eq_abs]
    unfold rndP
    rw [if_neg hx]
    simp only []
    have hm : (if x < 0 then -x else x) = rabs x := rfl
    rw [hm]
    obtain ⟨q, hq⟩ : ∃ q, q = ulpOf p emin x := ⟨_, rfl⟩
    have hqd : pow2 ((if ilog2 (rabs x) < emin then emin else ilog2 (rabs x)) - ((p : Int) - 1)) = q := by
      rw [hq]; rfl
    rw [hqd, ← hq]
    have hqpos : 0 < q := by rw [hq]; exact hu
    obtain ⟨t, ht⟩ : ∃ t, t = rabs x / q := ⟨_, rfl⟩
    rw [← ht]
    have hmt : rabs x = t * q := by rw [ht]; field_simp
    have hstep := round_step t
    obtain ⟨r, hr⟩ : ∃ r : Int, r = (if t - (t.floor : Rat) < 1 / 2 then t.floor
        else if 1 / 2 < t - (t.floor : Rat) then t.floor + 1
        else if t.floor % 2 = 0 then t.floor else t.floor + 1 : Int) := ⟨_, rfl⟩
    rw [← hr] at hstep ⊢
    have key : |(r : Rat) * q - rabs x| ≤ q / 2 := by
      rw [hmt, ← sub_mul, abs_mul, abs_of_pos hqpos]
      calc |(r : Rat) - t| * q ≤ 1 / 2 * q := mul_le_mul_of_nonneg_right hstep (le_of_lt hqpos)
        _ = q / 2 := by ring
    by_cases hneg : x < 0
    · rw [if_pos hneg]
      have : rabs x = -x := by simp [rabs, hneg]
      rw [this] at key
      have e : -((r : Rat) * q) - x = -((r : Rat) * q - -x) := by ring
      rw [e, abs_neg]; exact key
    · rw [if_neg hneg]
      have : rabs x = x := by simp [rabs, hneg]
      rw [this] at key
      exact key

/-- **relative error of the rounding in the normal range**: at most `2^-p` -/
theorem rndP_rel_error (p : Nat) (emin : Int) (x : Rat) (hnorm : pow2 emin ≤ rabs x) :
    rabs (rndP p emin x - x) ≤ pow2 (-(p : Int)) * rabs x := by
  have hpos : 0 < rabs x := lt_of_lt_of_le (pow2_pos _) hnorm
  obtain ⟨hlo, hhi⟩ := ilog2_spec (rabs x) hpos
  have he : ¬ ilog2 (rabs x) < emin := by
    intro hlt
    have h1 : ilog2 (rabs x) + 1 ≤ emin := by omega
    have := pow2_mono h1
    linarith
  have habs := rndP_abs_error p emin x
  unfold ulpOf at habs
  rw [if_neg he] at habs
  have hsplit : pow2 (ilog2 (rabs x) - ((p : Int) - 1)) / 2 = pow2 (-(p : Int)) * pow2 (ilog2 (rabs x)) := by
    have : ilog2 (rabs x) - ((p : Int) - 1) = -(p : Int) + ilog2 (rabs x) + 1 := by ring
    rw [this, pow2_add, pow2_add]
    have h1 : pow2 1 = 2 := by rw [pow2_eq_zpow]; norm_num
    rw [h1]; ring
  rw [hsplit] at habs
  calc rabs (rndP p emin x - x) ≤ pow2 (-(p : Int)) * pow2 (ilog2 (rabs x)) := habs
    _ ≤ pow2 (-(p : Int)) * rabs x := mul_le_mul_of_nonneg_left hlo (le_of_lt (pow2_pos _))

theorem rnd32_eq_rndP : rnd32 = rndP 24 (-126) := by
  funext x
  unfold rnd32 rndP
  rfl

end NipyVerif.C03
