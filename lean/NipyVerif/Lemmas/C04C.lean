/- helper lemmas for Props/C04C -/
import NipyVerif.Model.C04C
import NipyVerif.Props.C04
import Mathlib.Logic.Equiv.Defs
import Mathlib.Algebra.BigOperators.Group.Finset.Basic

namespace NipyVerif.C04

theorem isIdent3_iff (f : Fin 3 → Fin 3) : isIdent3 f = true ↔ ∀ i, f i = i := by
  simp [isIdent3, List.finRange_succ]
  constructor
  · rintro ⟨h0, h1, h2⟩ i
    fin_cases i <;> assumption
  · intro h; exact ⟨h 0, h 1, h 2⟩

private theorem perm3_aux : ∀ a b c : Fin 3,
    ((a = 0 ∨ b = 0 ∨ c = 0) ∧ (a = 1 ∨ b = 1 ∨ c = 1) ∧ (a = 2 ∨ b = 2 ∨ c = 2)) →
    ((if a = a then (0 : Fin 3) else if b = a then 1 else 2) = 0 ∧
     (if a = b then (0 : Fin 3) else if b = b then 1 else 2) = 1 ∧
     (if a = c then (0 : Fin 3) else if b = c then 1 else 2) = 2) := by decide

/-- `argsort` of a permutation of three axes is its two-sided inverse -/
theorem invPerm3_inverse (f : Fin 3 → Fin 3) (h : isPerm3 f = true) :
    (∀ j, invPerm3 f (f j) = j) ∧ (∀ i, f (invPerm3 f i) = i) := by
  have hp : (f 0 = 0 ∨ f 1 = 0 ∨ f 2 = 0) ∧ (f 0 = 1 ∨ f 1 = 1 ∨ f 2 = 1) ∧ (f 0 = 2 ∨ f 1 = 2 ∨ f 2 = 2) := by
    simpa [isPerm3, List.finRange_succ] using h
  obtain ⟨e0, e1, e2⟩ := perm3_aux (f 0) (f 1) (f 2) hp
  have left : ∀ j, invPerm3 f (f j) = j := by
    intro j
    fin_cases j
    · exact e0
    · exact e1
    · exact e2
  refine ⟨left, fun i => ?_⟩
  -- surjectivity: `i = f j` for some `j`
  obtain ⟨h0, h1, h2⟩ := hp
  have : ∃ j, f j = i := by
    fin_cases i
    · rcases h0 with h | h | h <;> exact ⟨_, h⟩
    · rcases h1 with h | h | h <;> exact ⟨_, h⟩
    · rcases h2 with h | h | h <;> exact ⟨_, h⟩
  obtain ⟨j, rfl⟩ := this
  rw [left]


/-! ### the C sampler -/

theorem csExtIndex_le (m d : Nat) (t : Int) (j : Nat) (h : csExtIndex m d t = some j) : j ≤ d := by
  unfold csExtIndex at h
  split_ifs at h with h1 h2 h3 h4
  · have := Option.some.inj h; omega
  · have := Option.some.inj h
    have := clampInt_mem 0 (d : Int) t (by omega)
    omega
  · have := Option.some.inj h
    have := csMirror_le t d
    omega

theorem csTap_zero (d j : Nat) : csTap d (fun _ => (0 : Rat)) j = 0 := by simp [csTap]

theorem optTap_zero (d : Nat) (o : Option Nat) : optTap d (fun _ => (0 : Rat)) o = 0 := by
  cases o <;> simp [optTap, csTap_zero]

theorem optTap_none (d : Nat) (f : Nat → Rat) : optTap d f none = 0 := rfl

/-! ### slice timing -/

theorem floor_natCast (z : Nat) : (((z : Int) : Rat)).floor = (z : Int) := floor_int z

/-- `interp_slice_times` between two consecutive slices: linear interpolation of the table
    extended by `slice_times[0] + tr` -/
theorem interpSliceTimes_between (st : Array Rat) (tr : Rat) (z : Nat) (hz : z < st.size) (w : Rat)
    (h0 : 0 ≤ w) (h1 : w < 1) :
    interpSliceTimes st tr (((z : Int) : Rat) + w) =
      (1 - w) * st.getD z 0 + w * (if z + 1 < st.size then st.getD (z + 1) 0 else st.getD 0 0 + tr) := by
  have hfl : (((z : Int) : Rat) + w).floor = (z : Int) := by
    rw [floor_eq]
    rw [Int.floor_eq_iff]
    constructor <;> push_cast <;> linarith
  unfold interpSliceTimes
  simp only [hfl]
  have hmod : ((z : Int) % ((st.size : Nat) : Int)).toNat = z := by
    rw [Int.emod_eq_of_lt (by omega) (by exact_mod_cast hz)]
    simp
  rw [hmod, if_pos hz]
  ring

end NipyVerif.C04
