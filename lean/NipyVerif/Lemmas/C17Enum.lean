/- Helper lemmas for C17: the seeded relabellings are bijections (surjectivity of the
   unranking maps, the stratum search of `fff_twosample_permutation`, the exchange loop of
   `fff_twosample_apply_permutation`). -/
import NipyVerif.Lemmas.C17
import Mathlib.Data.Finset.Powerset
import Mathlib.Data.Finset.Card

namespace NipyVerif.C17

/-! ### `fff_permutation`: every permutation is reached -/

theorem permAux_surj (k : Nat) : ∀ (rem p : List Nat), rem.length = k → rem.Nodup → p.Perm rem →
    ∃ m, m < k.factorial ∧ permAux k rem m = p := by
  induction k with
  | zero =>
      intro rem p h _ hp
      have : rem = [] := List.length_eq_zero_iff.mp h
      subst this
      exact ⟨0, by simp, by simp [permAux, List.Perm.eq_nil hp]⟩
  | succ k ih =>
      intro rem p h hnd hp
      have hpl : p.length = k + 1 := by rw [hp.length_eq, h]
      match p, hpl with
      | a :: p', _ =>
          have ha : a ∈ rem := hp.subset List.mem_cons_self
          have hidx : rem.idxOf a < rem.length := List.idxOf_lt_length_of_mem ha
          have hget : rem.getD (rem.idxOf a) 0 = a := by
            simp [List.getD_eq_getElem?_getD, hidx]
          have herase : rem.eraseIdx (rem.idxOf a) = rem.erase a := (List.erase_eq_eraseIdx_of_idxOf rfl).symm
          have hp' : p'.Perm (rem.eraseIdx (rem.idxOf a)) := by
            rw [herase]
            exact (List.perm_cons a).mp (hp.trans (List.perm_cons_erase ha))
          have hlen : (rem.eraseIdx (rem.idxOf a)).length = k := by
            rw [List.length_eraseIdx_of_lt hidx]; omega
          obtain ⟨m', hm', he⟩ := ih _ p' hlen (List.Nodup.sublist (List.eraseIdx_sublist _ _) hnd) hp'
          have hik : rem.idxOf a < k + 1 := by omega
          refine ⟨rem.idxOf a + (k + 1) * m', ?_, ?_⟩
          · rw [Nat.factorial_succ]
            have : (k + 1) * (m' + 1) ≤ (k + 1) * k.factorial := Nat.mul_le_mul_left _ hm'
            rw [Nat.mul_add, Nat.mul_one] at this
            omega
          · have e1 : (rem.idxOf a + (k + 1) * m') % (k + 1) = rem.idxOf a := by
              rw [Nat.add_mul_mod_self_left, Nat.mod_eq_of_lt hik]
            have e2 : (rem.idxOf a + (k + 1) * m') / (k + 1) = m' := by
              rw [Nat.add_mul_div_left _ _ (Nat.succ_pos k), Nat.div_eq_of_lt hik, Nat.zero_add]
            simp only [permAux, e1, e2, hget, he]

/-- the literal array loop (`memmove` on the not-yet-fixed tail) refines the Lehmer-code model:
    with a fixed prefix `pre` and `k` candidates `rem` left, it returns `pre ++ permAux k rem m` -/
theorem permLoop_eq (k : Nat) : ∀ (pre rem : List Nat) (m : Nat), rem.length = k →
    permLoop k pre.length (pre ++ rem) m = pre ++ permAux k rem m := by
  induction k with
  | zero =>
      intro pre rem m h
      have : rem = [] := List.length_eq_zero_iff.mp h
      subst this; simp [permLoop, permAux]
  | succ k ih =>
      intro pre rem m h
      have hlt : m % (k + 1) < rem.length := by rw [h]; exact Nat.mod_lt _ (Nat.succ_pos k)
      have hmf : moveFront (pre ++ rem) pre.length (m % (k + 1)) =
          (pre ++ [rem.getD (m % (k + 1)) 0]) ++ rem.eraseIdx (m % (k + 1)) := by
        unfold moveFront
        have t1 : (pre ++ rem).take pre.length = pre := by simp
        have t2 : (pre ++ rem).getD (pre.length + m % (k + 1)) 0 = rem.getD (m % (k + 1)) 0 := by
          simp [List.getD_eq_getElem?_getD, List.getElem?_append_right]
        have t3 : (pre ++ rem).drop pre.length = rem := by simp
        have t4 : (pre ++ rem).drop (pre.length + m % (k + 1) + 1) = rem.drop (m % (k + 1) + 1) := by
          rw [Nat.add_assoc, List.drop_append, List.drop_eq_nil_of_le (by omega), Nat.add_sub_cancel_left]
          rfl
        rw [t1, t2, t3, t4, List.eraseIdx_eq_take_drop_succ]
        simp
      have hlen : (rem.eraseIdx (m % (k + 1))).length = k := by
        rw [List.length_eraseIdx_of_lt hlt]; omega
      have := ih (pre ++ [rem.getD (m % (k + 1)) 0]) (rem.eraseIdx (m % (k + 1))) (m / (k + 1)) hlen
      simp only [permLoop, permAux, hmf]
      have hl : (pre ++ [rem.getD (m % (k + 1)) 0]).length = pre.length + 1 := by simp
      rw [hl] at this
      rw [this]; simp

/-! ### `fff_combination`: every sorted `k`-subset is reached -/

theorem combAux_surj (nn : Nat) : ∀ (kk i : Nat) (l : List Nat), l.length = kk → l.Pairwise (· < ·) →
    (∀ x ∈ l, i ≤ x ∧ x < i + nn) → ∃ m, m < nn.choose kk ∧ combAux nn kk i m = l := by
  induction nn with
  | zero =>
      intro kk i l hl _ hb
      have : l = [] := by
        cases l with
        | nil => rfl
        | cons a t => have := hb a List.mem_cons_self; omega
      subst this
      simp at hl; subst hl
      exact ⟨0, by simp, by simp [combAux]⟩
  | succ nn ih =>
      intro kk i l hl hs hb
      cases kk with
      | zero =>
          have : l = [] := List.length_eq_zero_iff.mp hl
          subst this
          exact ⟨0, by simp, by simp [combAux]⟩
      | succ kk =>
          match l, hl with
          | a :: t, hl =>
              have hta : ∀ x ∈ t, a < x := fun x hx => List.rel_of_pairwise_cons hs hx
              have hts : t.Pairwise (· < ·) := hs.tail
              have hab := hb a List.mem_cons_self
              by_cases hai : a = i
              · -- the candidate `i` is accepted
                subst hai
                obtain ⟨m, hm, he⟩ := ih kk (a + 1) t (by simpa using hl) hts (fun x hx => by
                  have := hta x hx; have := hb x (List.mem_cons_of_mem _ hx); omega)
                have hk' : kk ≤ nn := by
                  by_contra hc
                  have : nn.choose kk = 0 := Nat.choose_eq_zero_of_lt (by omega)
                  omega
                refine ⟨m, ?_, ?_⟩
                · rw [Nat.choose_succ_succ']; omega
                · simp only [combAux, combinations_eq kk nn hk', if_pos hm, he]
              · -- the candidate `i` is skipped
                obtain ⟨m, hm, he⟩ := ih (kk + 1) (i + 1) (a :: t) hl hs (fun x hx => by
                  rcases List.mem_cons.mp hx with rfl | hx'
                  · omega
                  · have := hta x hx'; have := hb x hx; omega)
                have hk2 : kk + 1 ≤ nn := by
                  by_contra hc
                  have : nn.choose (kk + 1) = 0 := Nat.choose_eq_zero_of_lt (by omega)
                  omega
                refine ⟨m + nn.choose kk, ?_, ?_⟩
                · rw [Nat.choose_succ_succ']; omega
                · simp only [combAux, combinations_eq kk nn (by omega : kk ≤ nn)]
                  rw [if_neg (by omega), Nat.add_sub_cancel, he]

/-- two strictly increasing lists with the same elements are equal -/
theorem sorted_ext {l l' : List Nat} (h : l.Pairwise (· < ·)) (h' : l'.Pairwise (· < ·))
    (he : ∀ x, x ∈ l ↔ x ∈ l') : l = l' := by
  have nd : l.Nodup := h.imp (fun hab => Nat.ne_of_lt hab)
  have nd' : l'.Nodup := h'.imp (fun hab => Nat.ne_of_lt hab)
  have hp : l.Perm l' := (List.perm_ext_iff_of_nodup nd nd').mpr he
  exact List.Perm.eq_of_pairwise (le := (· < ·)) (fun a b _ _ hab hba => by omega) h h' hp

/-! ### the stratum search of `fff_twosample_permutation` -/

theorem stratumSum_succ (n1 n2 k : Nat) :
    stratumSum n1 n2 (k + 1) = stratumSum n1 n2 k + n1.choose k * n2.choose k := by
  unfold stratumSum; rw [Finset.sum_range_succ]

theorem stratumSum_zero (n1 n2 : Nat) : stratumSum n1 n2 0 = 0 := by simp [stratumSum]

theorem stratumSum_one (n1 n2 : Nat) : stratumSum n1 n2 1 = 1 := by simp [stratumSum]

theorem stratumSum_total (n1 n2 : Nat) :
    stratumSum n1 n2 (min n1 n2 + 1) = (n1 + n2).choose n1 := by
  rw [← stratumSum_vandermonde]
  have b : n2 + 1 = min n1 n2 + 1 + (n2 - min n1 n2) := by
    have := Nat.min_le_right n1 n2; omega
  rw [b, stratumSum_stable]

theorem stratumSum_mono (n1 n2 : Nat) {a b : Nat} (h : a ≤ b) : stratumSum n1 n2 a ≤ stratumSum n1 n2 b := by
  induction h with
  | refl => exact Nat.le_refl _
  | step _ ih => rw [stratumSum_succ]; omega

theorem tsSearch_spec (n1 n2 magic : Nat) : ∀ fuel i,
    stratumSum n1 n2 i ≤ magic → magic < stratumSum n1 n2 (i + fuel) →
    ∃ j, i ≤ j ∧ j < i + fuel ∧ stratumSum n1 n2 j ≤ magic ∧ magic < stratumSum n1 n2 (j + 1) ∧
      tsSearch n1 n2 magic fuel i (n1.choose i) (n2.choose i) (stratumSum n1 n2 i)
          (stratumSum n1 n2 (i + 1)) =
        .inr (j, n1.choose j, n2.choose j, magic - stratumSum n1 n2 j) := by
  intro fuel
  induction fuel with
  | zero => intro i h1 h2; simp at h2; omega
  | succ fuel ih =>
      intro i h1 h2
      by_cases hlt : magic < stratumSum n1 n2 (i + 1)
      · exact ⟨i, Nat.le_refl _, by omega, h1, hlt, by simp only [tsSearch, if_pos hlt]⟩
      · obtain ⟨j, a, b, c, d, e⟩ := ih (i + 1) (by omega) (by
          have : i + 1 + fuel = i + (fuel + 1) := by omega
          rw [this]; exact h2)
        refine ⟨j, by omega, by omega, c, d, ?_⟩
        simp only [tsSearch, if_neg hlt, choose_step]
        rw [← stratumSum_succ n1 n2 (i + 1)]
        exact e

/-- what `fff_twosample_permutation` returns for an in-range magic number -/
theorem twosamplePerm_spec (n1 n2 magic : Nat) (h : magic < (n1 + n2).choose n1) :
    ∃ j, j ≤ min n1 n2 ∧ stratumSum n1 n2 j ≤ magic ∧ magic < stratumSum n1 n2 (j + 1) ∧
      twosamplePerm n1 n2 magic =
        some (j, combination j n1 ((magic - stratumSum n1 n2 j) % n1.choose j),
                 combination j n2 ((magic - stratumSum n1 n2 j) / n1.choose j)) := by
  have hs := tsSearch_spec n1 n2 magic (min n1 n2 + 1) 0 (by simp [stratumSum_zero])
    (by rw [Nat.zero_add, stratumSum_total]; exact h)
  obtain ⟨j, _, b, c, d, e⟩ := hs
  simp only [Nat.choose_zero_right, stratumSum_zero, Nat.zero_add, stratumSum_one] at e
  refine ⟨j, by omega, c, d, ?_⟩
  unfold twosamplePerm
  rw [e]
  simp only
  have : magic - stratumSum n1 n2 j - (magic - stratumSum n1 n2 j) / n1.choose j * n1.choose j =
      (magic - stratumSum n1 n2 j) % n1.choose j := by
    have := Nat.div_add_mod (magic - stratumSum n1 n2 j) (n1.choose j)
    rw [Nat.mul_comm] at this
    omega
  rw [this]

/-! ### the exchange loop of `fff_twosample_apply_permutation` -/

theorem swapAt_length {α} (l : List α) (a b : Nat) : (swapAt l a b).length = l.length := by
  unfold swapAt; split <;> simp

theorem swapAt_perm {α} (l : List α) (a b : Nat) : (swapAt l a b).Perm l := by
  unfold swapAt
  split
  · rename_i va vb ha hb
    obtain ⟨ha', rfl⟩ := List.getElem?_eq_some_iff.mp ha
    obtain ⟨hb', rfl⟩ := List.getElem?_eq_some_iff.mp hb
    exact List.set_set_perm ha' hb'
  · exact List.Perm.refl _

theorem swapAt_getElem? {α} (l : List α) (a b p : Nat) (ha : a < l.length) (hb : b < l.length) :
    (swapAt l a b)[p]? = if p = b then l[a]? else if p = a then l[b]? else l[p]? := by
  unfold swapAt
  rw [List.getElem?_eq_getElem ha, List.getElem?_eq_getElem hb]
  simp only [List.getElem?_set, List.length_set]
  by_cases h1 : p = b
  · subst h1; simp [hb]
  · by_cases h2 : p = a
    · subst h2; simp [h1, ha, Ne.symm h1]
    · simp [h1, h2, Ne.symm h1, Ne.symm h2]

theorem swapAt_map {α β} (f : α → β) (l : List α) (a b : Nat) :
    swapAt (l.map f) a b = (swapAt l a b).map f := by
  unfold swapAt
  simp only [List.getElem?_map]
  cases ha : l[a]? <;> cases hb : l[b]? <;> simp [List.map_set]

theorem applyExchange_map {α β} (f : α → β) (n1 : Nat) : ∀ (as bs : List Nat) (px : List α),
    applyExchange n1 (px.map f) as bs = (applyExchange n1 px as bs).map f := by
  intro as
  induction as with
  | nil => intro bs px; simp [applyExchange]
  | cons a as ih =>
      intro bs px
      cases bs with
      | nil => simp [applyExchange]
      | cons b bs => simp only [applyExchange, swapAt_map, ih]

theorem applyExchange_perm {α} (n1 : Nat) : ∀ (as bs : List Nat) (px : List α),
    (applyExchange n1 px as bs).Perm px := by
  intro as
  induction as with
  | nil => intro bs px; simp [applyExchange]
  | cons a as ih =>
      intro bs px
      cases bs with
      | nil => simp [applyExchange]
      | cons b bs => exact (ih bs _).trans (swapAt_perm _ _ _)

/-- positions of the first group after the exchanges: untouched unless listed in `as`,
    position `as[j]` receives what stood at `n1 + bs[j]` -/
theorem applyExchange_spec {α} (n1 : Nat) : ∀ (as bs : List Nat) (px : List α),
    as.Nodup → bs.Nodup → as.length = bs.length → (∀ a ∈ as, a < n1) → n1 ≤ px.length →
    (∀ b ∈ bs, n1 + b < px.length) →
    (∀ p, p < n1 → p ∉ as → (applyExchange n1 px as bs)[p]? = px[p]?) ∧
    (∀ j (h1 : j < as.length) (h2 : j < bs.length),
        (applyExchange n1 px as bs)[as[j]]? = px[n1 + bs[j]]?) := by
  intro as
  induction as with
  | nil => intro bs px _ _ _ _ _ _; simp [applyExchange]
  | cons a as ih =>
      intro bs px hna hnb hl ha hn hb
      cases bs with
      | nil => simp at hl
      | cons b bs =>
          have ha0 : a < n1 := ha a List.mem_cons_self
          have hb0 : n1 + b < px.length := hb b List.mem_cons_self
          have halt : a < px.length := by omega
          obtain ⟨ih1, ih2⟩ := ih bs (swapAt px a (n1 + b)) (List.nodup_cons.mp hna).2
            (List.nodup_cons.mp hnb).2 (by simpa using hl)
            (fun x hx => ha x (List.mem_cons_of_mem _ hx)) (by rw [swapAt_length]; exact hn)
            (fun x hx => by rw [swapAt_length]; exact hb x (List.mem_cons_of_mem _ hx))
          simp only [applyExchange]
          constructor
          · intro p hp hpn
            have hpa : p ≠ a := fun e => hpn (e ▸ List.mem_cons_self)
            rw [ih1 p hp (fun hm => hpn (List.mem_cons_of_mem _ hm)),
              swapAt_getElem? _ _ _ _ halt hb0, if_neg (by omega), if_neg hpa]
          · intro j h1 h2
            cases j with
            | zero =>
                simp only [List.getElem_cons_zero]
                rw [ih1 a ha0 (List.nodup_cons.mp hna).1, swapAt_getElem? _ _ _ _ halt hb0,
                  if_neg (by omega), if_pos rfl]
            | succ j =>
                simp only [List.getElem_cons_succ]
                have h1' : j < as.length := by simpa using h1
                have h2' : j < bs.length := by simpa using h2
                rw [ih2 j h1' h2', swapAt_getElem? _ _ _ _ halt hb0]
                have hne : bs[j] ≠ b := by
                  intro e
                  exact (List.nodup_cons.mp hnb).1 (e ▸ List.getElem_mem h2')
                rw [if_neg (by omega), if_neg (by omega)]

/-- the first group of labels after exchanging `as` (positions in group 1) with `bs`
    (positions in group 2): the unexchanged members of group 1 and the labels `n1 + b` -/
theorem exchange_group1_mem (n1 n2 : Nat) (as bs : List Nat) (hna : as.Nodup) (hnb : bs.Nodup)
    (hl : as.length = bs.length) (ha : ∀ a ∈ as, a < n1) (hb : ∀ b ∈ bs, b < n2) (x : Nat) :
    x ∈ (applyExchange n1 (List.range (n1 + n2)) as bs).take n1 ↔
      (x < n1 ∧ x ∉ as) ∨ (n1 ≤ x ∧ x - n1 ∈ bs) := by
  obtain ⟨s1, s2⟩ := applyExchange_spec n1 as bs (List.range (n1 + n2)) hna hnb hl ha (by simp)
    (fun b hbm => by have := hb b hbm; simp; omega)
  rw [List.mem_iff_getElem?]
  constructor
  · rintro ⟨p, hp⟩
    rw [List.getElem?_take] at hp
    split at hp
    · rename_i hpn
      by_cases hpa : p ∈ as
      · obtain ⟨j, hj, rfl⟩ := List.getElem_of_mem hpa
        have hj2 : j < bs.length := by omega
        rw [s2 j hj hj2] at hp
        have hbj := hb bs[j] (List.getElem_mem hj2)
        rw [List.getElem?_range (by omega)] at hp
        right
        have : x = n1 + bs[j] := by injection hp with hp; exact hp.symm
        subst this
        exact ⟨by omega, by rw [Nat.add_sub_cancel_left]; exact List.getElem_mem hj2⟩
      · rw [s1 p hpn hpa, List.getElem?_range (by omega)] at hp
        left
        have : x = p := by injection hp with hp; exact hp.symm
        subst this; exact ⟨hpn, hpa⟩
    · simp at hp
  · rintro (⟨hx, hxa⟩ | ⟨hx, hxb⟩)
    · refine ⟨x, ?_⟩
      rw [List.getElem?_take, if_pos hx, s1 x hx hxa, List.getElem?_range (by omega)]
    · obtain ⟨j, hj, hjx⟩ := List.getElem_of_mem hxb
      have hj1 : j < as.length := by omega
      have haj := ha as[j] (List.getElem_mem hj1)
      have hbj := hb bs[j] (List.getElem_mem hj)
      refine ⟨as[j], ?_⟩
      rw [List.getElem?_take, if_pos haj, s2 j hj1 hj, List.getElem?_range (by omega), hjx]
      congr 1; omega

end NipyVerif.C17
