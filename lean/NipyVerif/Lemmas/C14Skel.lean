/-
C14 — the combinatorial skeleton of a graph-constrained agglomeration: one invariant carried along
`Reach`, the parents of a merge list, `Below` under one more merge, counting of the roots.
Helper lemmas for `Props/C14B`.
-/
import NipyVerif.Lemmas.C14
import NipyVerif.Lemmas.C14Defs
import Mathlib.Data.List.Nodup
import Mathlib.Data.List.Range
import Mathlib.Data.Finset.Card
import Mathlib.Data.Finset.Image
import Mathlib.Data.Finset.Range
import Mathlib.Tactic.Ring
import Mathlib.Tactic.Linarith

namespace NipyVerif.C14

/-! ### small facts -/

/-- all the nodes that were merged into something, in order -/
abbrev kids (ms : List (Nat × Nat)) : List Nat := ms.flatMap (fun m => [m.1, m.2])

theorem mem_kids {ms : List (Nat × Nat)} {v : Nat} :
    v ∈ kids ms ↔ ∃ m ∈ ms, m.1 = v ∨ m.2 = v := by
  simp only [kids, List.mem_flatMap, List.mem_cons, List.not_mem_nil, or_false]
  constructor
  · rintro ⟨m, hm, h⟩; exact ⟨m, hm, h.imp Eq.symm Eq.symm⟩
  · rintro ⟨m, hm, h⟩; exact ⟨m, hm, h.imp Eq.symm Eq.symm⟩

theorem kids_append (ms : List (Nat × Nat)) (i j : Nat) : kids (ms ++ [(i, j)]) = kids ms ++ [i, j] := by
  simp [kids]

theorem kids_length (ms : List (Nat × Nat)) : (kids ms).length = 2 * ms.length := by
  induction ms with
  | nil => rfl
  | cons m r ih =>
      have : kids (m :: r) = [m.1, m.2] ++ kids r := by simp [kids]
      rw [this, List.length_append, ih]; simp; omega

theorem relabel_of_mem {i j k v : Nat} (h : v = i ∨ v = j) : relabel i j k v = k := by
  unfold relabel; rw [if_pos h]

theorem relabel_of_not {i j k v : Nat} (hi : v ≠ i) (hj : v ≠ j) : relabel i j k v = v := by
  unfold relabel; rw [if_neg]; rintro (h | h) <;> contradiction

theorem repFrom_append (k : Nat) (ms : List (Nat × Nat)) (i j v : Nat) :
    repFrom k (ms ++ [(i, j)]) v = relabel i j (k + ms.length) (repFrom k ms v) := by
  induction ms generalizing k v with
  | nil => simp [repFrom]
  | cons m r ih =>
      obtain ⟨a, b⟩ := m
      simp only [List.cons_append, repFrom, List.length_cons]
      rw [ih]; congr 1; omega

theorem rep_init (n : Nat) (E : List (Nat × Nat)) (v : Nat) : (skelInit n E).rep n v = v := rfl

theorem adm_iff {s : Skel} {i j : Nat} :
    s.adm i j = true ↔ ∃ e ∈ s.edges, (e.1 = i ∧ e.2 = j) ∨ (e.1 = j ∧ e.2 = i) := by
  simp [Skel.adm, List.any_eq_true]

/-- `dedupK` keeps, for every edge, an edge with the same two ends -/
theorem dedupK_complete (k : Nat) (l : List (Nat × Nat)) (seen : List Nat) (e : Nat × Nat)
    (he : e ∈ l) :
    (∃ e' ∈ dedupK k l seen, e' = e ∨ e' = (e.2, e.1)) ∨ (e.1 = k ∧ e.2 ∈ seen)
      ∨ (e.2 = k ∧ e.1 ∈ seen) := by
  induction l generalizing seen with
  | nil => simp at he
  | cons a r ih =>
      rcases List.mem_cons.mp he with h | h
      · subst h
        unfold dedupK
        split_ifs with h1 h2 h3 h4
        · right; left; exact ⟨h1, by simpa using h2⟩
        · left; exact ⟨e, List.mem_cons_self, Or.inl rfl⟩
        · right; right; exact ⟨h3, by simpa using h4⟩
        · left; exact ⟨e, List.mem_cons_self, Or.inl rfl⟩
        · left; exact ⟨e, List.mem_cons_self, Or.inl rfl⟩
      · unfold dedupK
        split_ifs with h1 h2 h3 h4
        · exact ih seen h
        · rcases ih (a.2 :: seen) h with ⟨e', he', hh⟩ | ⟨hk, hm⟩ | ⟨hk, hm⟩
          · left; exact ⟨e', List.mem_cons_of_mem _ he', hh⟩
          · rcases List.mem_cons.mp hm with hm | hm
            · left; refine ⟨a, List.mem_cons_self, Or.inl ?_⟩
              ext <;> simp [h1, hk, hm]
            · right; left; exact ⟨hk, hm⟩
          · rcases List.mem_cons.mp hm with hm | hm
            · left; refine ⟨a, List.mem_cons_self, Or.inr ?_⟩
              ext <;> simp [h1, hk, hm]
            · right; right; exact ⟨hk, hm⟩
        · exact ih seen h
        · rcases ih (a.1 :: seen) h with ⟨e', he', hh⟩ | ⟨hk, hm⟩ | ⟨hk, hm⟩
          · left; exact ⟨e', List.mem_cons_of_mem _ he', hh⟩
          · rcases List.mem_cons.mp hm with hm | hm
            · left; refine ⟨a, List.mem_cons_self, Or.inr ?_⟩
              ext <;> simp [h3, hk, hm]
            · right; left; exact ⟨hk, hm⟩
          · rcases List.mem_cons.mp hm with hm | hm
            · left; refine ⟨a, List.mem_cons_self, Or.inl ?_⟩
              ext <;> simp [h3, hk, hm]
            · right; right; exact ⟨hk, hm⟩
        · rcases ih seen h with ⟨e', he', hh⟩ | hh
          · left; exact ⟨e', List.mem_cons_of_mem _ he', hh⟩
          · right; exact hh

/-! ### the invariant of reachable states -/

structure Inv (n : Nat) (E : List (Nat × Nat)) (s : Skel) : Prop where
  size_eq : s.size = n + s.ms.length
  nodup : (kids s.ms).Nodup
  lt : ∀ t (ht : t < s.ms.length), (s.ms[t]).1 < n + t ∧ (s.ms[t]).2 < n + t
  sound : ∀ e ∈ s.edges, e.1 ≠ e.2 ∧ ∃ e0 ∈ E, e = (s.rep n e0.1, s.rep n e0.2)
  complete : ∀ e0 ∈ E, s.rep n e0.1 ≠ s.rep n e0.2 →
    s.adm (s.rep n e0.1) (s.rep n e0.2) = true
  live : ∀ a, a < n → s.rep n a < s.size ∧ s.rep n a ∉ kids s.ms
  surj : ∀ r, r < s.size → r ∉ kids s.ms → ∃ a, a < n ∧ s.rep n a = r

theorem Inv.kid_lt {n : Nat} {E : List (Nat × Nat)} {s : Skel} (h : Inv n E s) {v : Nat}
    (hv : v ∈ kids s.ms) : v < s.size := by
  obtain ⟨m, hm, hmv⟩ := mem_kids.mp hv
  obtain ⟨t, ht, rfl⟩ := List.getElem_of_mem hm
  have := h.lt t ht
  rw [h.size_eq]
  rcases hmv with h1 | h1 <;> omega

theorem inv_init {n : Nat} {E : List (Nat × Nat)} (hE : GoodEdges n E) : Inv n E (skelInit n E) where
  size_eq := rfl
  nodup := by simp [skelInit]
  lt := by intro t ht; simp [skelInit] at ht
  sound := by
    intro e he
    exact ⟨(hE e he).2.2, e, he, rfl⟩
  complete := by
    intro e0 he0 hne
    rw [adm_iff]
    exact ⟨e0, he0, Or.inl ⟨rfl, rfl⟩⟩
  live := by
    intro a ha
    exact ⟨ha, by simp [skelInit]⟩
  surj := by
    intro r hr _
    exact ⟨r, hr, rfl⟩

theorem rep_step (n : Nat) (s : Skel) (i j v : Nat) :
    (s.step i j).rep n v = relabel i j (n + s.ms.length) (s.rep n v) := by
  simp only [Skel.rep, Skel.step]
  exact repFrom_append n s.ms i j v

/-- an admissible pair consists of two distinct live roots joined by a constraint edge -/
theorem Inv.adm_spec {n : Nat} {E : List (Nat × Nat)} {s : Skel} (hE : GoodEdges n E)
    (h : Inv n E s) {i j : Nat} (hadm : s.adm i j = true) :
    i ≠ j ∧ ∃ x y, x < n ∧ y < n ∧ Adj E x y ∧ s.rep n x = i ∧ s.rep n y = j := by
  obtain ⟨e, he, hij⟩ := adm_iff.mp hadm
  obtain ⟨hne, e0, he0, hee⟩ := h.sound e he
  obtain ⟨h1, h2, -⟩ := hE e0 he0
  have e1 : e.1 = s.rep n e0.1 := by rw [hee]
  have e2 : e.2 = s.rep n e0.2 := by rw [hee]
  rcases hij with ⟨hi, hj⟩ | ⟨hj, hi⟩
  · refine ⟨by rw [← hi, ← hj]; exact hne, e0.1, e0.2, h1, h2, Or.inl he0, ?_, ?_⟩
    · rw [← e1, hi]
    · rw [← e2, hj]
  · refine ⟨by rw [← hi, ← hj]; exact hne.symm, e0.2, e0.1, h2, h1, Or.inr he0, ?_, ?_⟩
    · rw [← e2, hi]
    · rw [← e1, hj]

theorem inv_step {n : Nat} {E : List (Nat × Nat)} {s : Skel} (hE : GoodEdges n E)
    (h : Inv n E s) {i j : Nat} (hadm : s.adm i j = true) : Inv n E (s.step i j) := by
  obtain ⟨hij, x, y, hx, hy, -, hxi, hyj⟩ := h.adm_spec hE hadm
  have hil := h.live x hx; rw [hxi] at hil
  have hjl := h.live y hy; rw [hyj] at hjl
  have hsz := h.size_eq
  have hk : ∀ v, (s.step i j).rep n v = relabel i j s.size (s.rep n v) := by
    intro v; rw [rep_step, hsz]
  have hkids : kids (s.step i j).ms = kids s.ms ++ [i, j] := kids_append s.ms i j
  have hknot : s.size ∉ kids s.ms ++ [i, j] := by
    intro hm
    rcases List.mem_append.mp hm with hm | hm
    · exact absurd (h.kid_lt hm) (lt_irrefl _)
    · simp at hm; omega
  refine ⟨?_, ?_, ?_, ?_, ?_, ?_, ?_⟩
  · simp [Skel.step, hsz]; omega
  · rw [hkids, List.nodup_append]
    refine ⟨h.nodup, by simpa using hij, ?_⟩
    intro a ha b hb
    simp at hb
    rintro rfl
    rcases hb with rfl | rfl
    · exact hil.2 ha
    · exact hjl.2 ha
  · intro t ht
    simp only [Skel.step] at ht ⊢
    rw [List.length_append, List.length_singleton] at ht
    by_cases htl : t < s.ms.length
    · rw [List.getElem_append_left htl]; exact h.lt t htl
    · have : t = s.ms.length := by omega
      subst this
      rw [List.getElem_append_right (le_refl _)]
      simp
      omega
  · intro e he
    simp only [Skel.step, stepEdges] at he
    have he' := dedupK_subset _ _ _ _ he
    rw [List.mem_filter, List.mem_map] at he'
    obtain ⟨⟨e', he'm, rfl⟩, hne⟩ := he'
    obtain ⟨-, e0, he0, hee⟩ := h.sound e' he'm
    refine ⟨by simpa using hne, e0, he0, ?_⟩
    rw [hk, hk, hee]
  · intro e0 he0 hne
    rw [hk, hk] at hne ⊢
    have hne0 : s.rep n e0.1 ≠ s.rep n e0.2 := by
      intro hh; rw [hh] at hne; exact hne rfl
    obtain ⟨e, he, hor⟩ := adm_iff.mp (h.complete e0 he0 hne0)
    set R := relabel i j s.size with hR
    have hmem : (R e.1, R e.2) ∈ ((s.edges.map (fun e => (R e.1, R e.2))).filter
        (fun e => e.1 != e.2)) := by
      rw [List.mem_filter]
      refine ⟨List.mem_map.mpr ⟨e, he, rfl⟩, ?_⟩
      rcases hor with ⟨h1, h2⟩ | ⟨h1, h2⟩
      · simp only [h1, h2]; simpa using hne
      · simp only [h1, h2]; simpa using hne.symm
    rcases dedupK_complete s.size _ [] _ hmem with ⟨e', he', hh⟩ | ⟨-, hm⟩ | ⟨-, hm⟩
    · rw [adm_iff]
      refine ⟨e', he', ?_⟩
      rcases hh with rfl | rfl <;> rcases hor with ⟨h1, h2⟩ | ⟨h1, h2⟩ <;> simp [h1, h2]
    · simp at hm
    · simp at hm
  · intro a ha
    obtain ⟨hl1, hl2⟩ := h.live a ha
    rw [hk, hkids]
    by_cases hc : s.rep n a = i ∨ s.rep n a = j
    · rw [relabel_of_mem hc]
      exact ⟨by simp [Skel.step], hknot⟩
    · have hc := not_or.mp hc
      rw [relabel_of_not hc.1 hc.2]
      refine ⟨by simp only [Skel.step]; omega, ?_⟩
      intro hm
      rcases List.mem_append.mp hm with hm | hm
      · exact hl2 hm
      · simp at hm; rcases hm with hm | hm
        · exact hc.1 hm
        · exact hc.2 hm
  · intro r hr hrk
    rw [hkids] at hrk
    simp only [Skel.step] at hr
    by_cases hrs : r = s.size
    · refine ⟨x, hx, ?_⟩
      rw [hk, hxi, relabel_of_mem (Or.inl rfl), hrs]
    · have hr' : r < s.size := by omega
      have hrk' : r ∉ kids s.ms := fun hm => hrk (List.mem_append_left _ hm)
      obtain ⟨a, ha, hra⟩ := h.surj r hr' hrk'
      refine ⟨a, ha, ?_⟩
      rw [hk, hra, relabel_of_not]
      · rintro rfl; exact hrk (by simp)
      · rintro rfl; exact hrk (by simp)

/-! ### parents of a merge list -/

theorem parentOf_not_kid {n : Nat} {ms : List (Nat × Nat)} {v : Nat} (h : v ∉ kids ms) :
    parentOf n ms v = v := by
  unfold parentOf
  have : ¬ (ms.findIdx (fun m => m.1 == v || m.2 == v) < ms.length) := by
    rw [List.findIdx_lt_length]
    rintro ⟨m, hm, hp⟩
    exact h (mem_kids.mpr ⟨m, hm, by simpa using hp⟩)
  simp only
  rw [if_neg this]

theorem findIdx_kid {ms : List (Nat × Nat)} (hnd : (kids ms).Nodup) {t : Nat} (ht : t < ms.length)
    {v : Nat} (hv : (ms[t]).1 = v ∨ (ms[t]).2 = v) :
    ms.findIdx (fun m => m.1 == v || m.2 == v) = t := by
  induction ms generalizing t with
  | nil => simp at ht
  | cons m r ih =>
      have hk : kids (m :: r) = [m.1, m.2] ++ kids r := by simp [kids]
      rw [hk, List.nodup_append] at hnd
      obtain ⟨-, hr, hdis⟩ := hnd
      cases t with
      | zero =>
          simp only [List.getElem_cons_zero] at hv
          rw [List.findIdx_cons]
          have : (m.1 == v || m.2 == v) = true := by simpa using hv
          rw [this]; rfl
      | succ t =>
          simp only [List.getElem_cons_succ] at hv
          simp only [List.length_cons, Nat.add_lt_add_iff_right] at ht
          have hvk : v ∈ kids r := mem_kids.mpr ⟨r[t], List.getElem_mem _, hv⟩
          have : (m.1 == v || m.2 == v) = false := by
            have h1 := hdis m.1 (by simp) v hvk
            have h2 := hdis m.2 (by simp) v hvk
            simp [h1, h2]
          rw [List.findIdx_cons, this]
          simp only [cond_false, Nat.add_right_cancel_iff]
          exact ih hr ht hv

theorem parentOf_kid_idx {n : Nat} {ms : List (Nat × Nat)} (hnd : (kids ms).Nodup) {t : Nat}
    (ht : t < ms.length) {v : Nat} (hv : (ms[t]).1 = v ∨ (ms[t]).2 = v) :
    parentOf n ms v = n + t := by
  unfold parentOf
  simp only
  rw [findIdx_kid hnd ht hv, if_pos ht]

theorem kid_idx {ms : List (Nat × Nat)} {v : Nat} (hv : v ∈ kids ms) :
    ∃ t, ∃ ht : t < ms.length, (ms[t]).1 = v ∨ (ms[t]).2 = v := by
  obtain ⟨m, hm, hmv⟩ := mem_kids.mp hv
  obtain ⟨t, ht, rfl⟩ := List.getElem_of_mem hm
  exact ⟨t, ht, hmv⟩

/-- parents after one more merge -/
theorem parentOf_append (n : Nat) (ms : List (Nat × Nat)) (i j v : Nat) :
    parentOf n (ms ++ [(i, j)]) v
      = if v ∈ kids ms then parentOf n ms v else relabel i j (n + ms.length) v := by
  by_cases hk : v ∈ kids ms
  · rw [if_pos hk]
    have hlt : ms.findIdx (fun m => m.1 == v || m.2 == v) < ms.length := by
      rw [List.findIdx_lt_length]
      obtain ⟨m, hm, hmv⟩ := mem_kids.mp hk
      exact ⟨m, hm, by simpa using hmv⟩
    unfold parentOf
    simp only [List.findIdx_append, if_pos hlt, List.length_append, List.length_singleton]
    rw [if_pos (by omega)]
  · rw [if_neg hk]
    have hlt : ¬ ms.findIdx (fun m => m.1 == v || m.2 == v) < ms.length := by
      rw [List.findIdx_lt_length]
      rintro ⟨m, hm, hp⟩
      exact hk (mem_kids.mpr ⟨m, hm, by simpa using hp⟩)
    unfold parentOf relabel
    simp only [List.findIdx_append, if_neg hlt, List.length_append, List.length_singleton]
    by_cases hc : v = i ∨ v = j
    · have : (i == v || j == v) = true := by
        rcases hc with rfl | rfl <;> simp
      rw [if_pos hc, List.findIdx_cons, this]
      simp
    · have : (i == v || j == v) = false := by
        have := not_or.mp hc
        simp [Ne.symm this.1, Ne.symm this.2]
      rw [if_neg hc, List.findIdx_cons, this]
      simp

section inv
variable {n : Nat} {E : List (Nat × Nat)} {s : Skel}

theorem Inv.parent_kid (h : Inv n E s) {v : Nat} (hv : v ∈ kids s.ms) :
    v < parentOf n s.ms v ∧ n ≤ parentOf n s.ms v ∧ parentOf n s.ms v < s.size := by
  obtain ⟨t, ht, hvt⟩ := kid_idx hv
  rw [parentOf_kid_idx h.nodup ht hvt, h.size_eq]
  have := h.lt t ht
  rcases hvt with h1 | h1 <;> omega

theorem Inv.root_iff (h : Inv n E s) (v : Nat) : parentOf n s.ms v = v ↔ v ∉ kids s.ms := by
  constructor
  · intro hp hk
    have := (h.parent_kid hk).1
    omega
  · exact parentOf_not_kid

theorem parentsOf_length (n : Nat) (ms : List (Nat × Nat)) : (parentsOf n ms).length = n + ms.length := by
  simp [parentsOf]

theorem Inv.parFn_eq (h : Inv n E s) (v : Nat) :
    parFn (parentsOf n s.ms) v = parentOf n s.ms v := by
  unfold parFn parentsOf
  by_cases hv : v < n + s.ms.length
  · exact getD_map_range _ _ _ hv _
  · have hnk : v ∉ kids s.ms := by
      intro hk
      have := h.kid_lt hk
      rw [h.size_eq] at this
      exact hv this
    rw [parentOf_not_kid hnk]
    simp [List.getD_eq_getElem?_getD, hv]

theorem Inv.below_eq (h : Inv n E s) :
    Below (parentsOf n s.ms) = Relation.ReflTransGen (fun x y => parentOf n s.ms x = y ∧ x ≠ y) := by
  unfold Below
  congr 1
  funext x y
  rw [h.parFn_eq]

end inv

theorem reach_inv {n : Nat} {E : List (Nat × Nat)} {s : Skel} (hE : GoodEdges n E)
    (hR : Reach n E s) : Inv n E s := by
  induction hR with
  | init => exact inv_init hE
  | step _ hadm ih => exact inv_step hE ih hadm

theorem reach_size {n : Nat} {E : List (Nat × Nat)} {s : Skel} (hR : Reach n E s) :
    s.size = n + s.ms.length := by
  induction hR with
  | init => rfl
  | step _ _ ih => simp [Skel.step, ih]; omega

/-! ### the dendrogram -/

theorem kids_nodup_ne {ms : List (Nat × Nat)} (hnd : (kids ms).Nodup) (t : Nat) (ht : t < ms.length) :
    (ms[t]).1 ≠ (ms[t]).2 := by
  induction ms generalizing t with
  | nil => simp at ht
  | cons m r ih =>
      have hk : kids (m :: r) = [m.1, m.2] ++ kids r := by simp [kids]
      rw [hk, List.nodup_append] at hnd
      obtain ⟨hm, hr, -⟩ := hnd
      cases t with
      | zero => simpa using hm
      | succ t =>
          simp only [List.length_cons, Nat.add_lt_add_iff_right] at ht
          simpa using ih hr t ht

section inv
variable {n : Nat} {E : List (Nat × Nat)} {s : Skel}

theorem Inv.dendro (h : Inv n E s) : Dendro n (parentsOf n s.ms) where
  n_le := by rw [parentsOf_length]; omega
  up := by
    intro v _
    rw [h.parFn_eq, parentsOf_length, ← h.size_eq]
    by_cases hk : v ∈ kids s.ms
    · right; exact ⟨(h.parent_kid hk).1, (h.parent_kid hk).2.2⟩
    · left; exact parentOf_not_kid hk
  internal := by
    intro v _ hne
    rw [h.parFn_eq] at hne ⊢
    have hk : v ∈ kids s.ms := by
      by_contra hk; exact hne (parentOf_not_kid hk)
    exact (h.parent_kid hk).2.1
  two := by
    intro k hnk hk
    rw [parentsOf_length] at hk
    have ht : k - n < s.ms.length := by omega
    obtain ⟨h1, h2⟩ := h.lt _ ht
    have hnd : (childrenOf (parentsOf n s.ms) k).Nodup := List.Nodup.filter _ List.nodup_range
    have hab := kids_nodup_ne h.nodup _ ht
    rw [← List.toFinset_card_of_nodup hnd, ← Finset.card_pair hab]
    congr 1
    ext v
    simp only [childrenOf, List.mem_toFinset, List.mem_filter, List.mem_range, decide_eq_true_eq,
      Finset.mem_insert, Finset.mem_singleton, parentsOf_length]
    rw [h.parFn_eq]
    constructor
    · rintro ⟨-, hvk, hp⟩
      have hkid : v ∈ kids s.ms := by
        by_contra hkid; exact hvk ((parentOf_not_kid hkid).symm.trans hp)
      obtain ⟨t, ht', hvt⟩ := kid_idx hkid
      rw [parentOf_kid_idx h.nodup ht' hvt] at hp
      have : t = k - n := by omega
      subst this
      exact hvt.imp Eq.symm Eq.symm
    · intro hv
      have hvt : (s.ms[k - n]).1 = v ∨ (s.ms[k - n]).2 = v := hv.imp Eq.symm Eq.symm
      have hp := parentOf_kid_idx (n := n) h.nodup ht hvt
      refine ⟨?_, ?_, ?_⟩
      · rcases hv with rfl | rfl <;> omega
      · rcases hv with rfl | rfl <;> omega
      · rw [hp]; omega

/-! ### counting the roots -/

theorem Inv.tree_count (h : Inv n E s) : nbTrees (parentsOf n s.ms) + s.ms.length = n := by
  have hL : nbTrees (parentsOf n s.ms)
      = ((Finset.range (n + s.ms.length)).filter (fun v => parentOf n s.ms v = v)).card := by
    unfold nbTrees
    rw [← List.toFinset_card_of_nodup (List.Nodup.filter _ List.nodup_range)]
    congr 1
    ext v
    simp only [List.mem_toFinset, List.mem_filter, List.mem_range, parentsOf_length,
      Finset.mem_filter, Finset.mem_range, beq_iff_eq]
    have := h.parFn_eq v
    unfold parFn at this
    rw [this]
  have hK : ((Finset.range (n + s.ms.length)).filter (fun v => ¬ parentOf n s.ms v = v))
      = (kids s.ms).toFinset := by
    ext v
    simp only [Finset.mem_filter, Finset.mem_range, List.mem_toFinset]
    rw [h.root_iff, not_not]
    constructor
    · exact fun hh => hh.2
    · intro hk
      exact ⟨by rw [← h.size_eq]; exact h.kid_lt hk, hk⟩
  have hsum := Finset.card_filter_add_card_filter_not (s := Finset.range (n + s.ms.length))
    (fun v => parentOf n s.ms v = v)
  rw [hK, List.toFinset_card_of_nodup h.nodup, kids_length, Finset.card_range, ← hL] at hsum
  omega

theorem Inv.merges_lt (h : Inv n E s) (hn : 0 < n) : s.ms.length < n := by
  have hc := h.tree_count
  obtain ⟨h1, h2⟩ := h.live 0 hn
  have hmem : s.rep n 0 ∈ (List.range (parentsOf n s.ms).length).filter
      (fun v => (parentsOf n s.ms).getD v v == v) := by
    rw [List.mem_filter, List.mem_range, parentsOf_length, ← h.size_eq]
    refine ⟨h1, ?_⟩
    have := h.parFn_eq (s.rep n 0)
    unfold parFn at this
    rw [this, parentOf_not_kid h2]
    simp
  have : 0 < nbTrees (parentsOf n s.ms) := List.length_pos_of_mem hmem
  omega

end inv

/-! ### `Below` after one more merge -/

section step
variable {n : Nat} {E : List (Nat × Nat)} {s : Skel} {i j : Nat}

theorem Inv.step_facts (hE : GoodEdges n E) (h : Inv n E s) (hadm : s.adm i j = true) :
    i ≠ j ∧ i < s.size ∧ j < s.size ∧ i ∉ kids s.ms ∧ j ∉ kids s.ms := by
  obtain ⟨hij, x, y, hx, hy, -, hxi, hyj⟩ := h.adm_spec hE hadm
  have hil := h.live x hx; rw [hxi] at hil
  have hjl := h.live y hy; rw [hyj] at hjl
  exact ⟨hij, hil.1, hjl.1, hil.2, hjl.2⟩

theorem parent_step (n : Nat) (s : Skel) (i j v : Nat) :
    parentOf n (s.step i j).ms v
      = if v ∈ kids s.ms then parentOf n s.ms v else relabel i j (n + s.ms.length) v :=
  parentOf_append n s.ms i j v

theorem below_step_mono (hE : GoodEdges n E) (h : Inv n E s) (hadm : s.adm i j = true) {a r : Nat}
    (hb : Below (parentsOf n s.ms) a r) : Below (parentsOf n (s.step i j).ms) a r := by
  have h' := inv_step hE h hadm
  rw [h.below_eq] at hb
  rw [h'.below_eq]
  refine Relation.ReflTransGen.mono ?_ a r hb
  rintro x y ⟨hxy, hne⟩
  refine ⟨?_, hne⟩
  have hk : x ∈ kids s.ms := by
    by_contra hk; exact hne ((parentOf_not_kid hk).symm.trans hxy)
  rw [parent_step, if_pos hk]; exact hxy

theorem below_step_old (hE : GoodEdges n E) (h : Inv n E s) (hadm : s.adm i j = true) {a r : Nat}
    (hb : Below (parentsOf n (s.step i j).ms) a r) : r ≠ s.size → Below (parentsOf n s.ms) a r := by
  have h' := inv_step hE h hadm
  rw [h'.below_eq] at hb
  rw [h.below_eq]
  induction hb with
  | refl => intro _; exact .refl
  | @tail b c _ hbc ih =>
      intro hc
      obtain ⟨hp, hne⟩ := hbc
      rw [parent_step] at hp
      by_cases hk : b ∈ kids s.ms
      · rw [if_pos hk] at hp
        exact (ih (ne_of_lt (h.kid_lt hk))).tail ⟨hp, hne⟩
      · rw [if_neg hk] at hp
        exfalso
        unfold relabel at hp
        split_ifs at hp
        · exact hc (by rw [← hp, h.size_eq])
        · exact hne hp

theorem below_step_iff (hE : GoodEdges n E) (h : Inv n E s) (hadm : s.adm i j = true) {a r : Nat}
    (hr : r ≠ s.size) :
    Below (parentsOf n (s.step i j).ms) a r ↔ Below (parentsOf n s.ms) a r :=
  ⟨fun hb => below_step_old hE h hadm hb hr, below_step_mono hE h hadm⟩

theorem below_step_join (hE : GoodEdges n E) (h : Inv n E s) (hadm : s.adm i j = true) {a : Nat}
    (hb : Below (parentsOf n s.ms) a i ∨ Below (parentsOf n s.ms) a j) :
    Below (parentsOf n (s.step i j).ms) a s.size := by
  have h' := inv_step hE h hadm
  obtain ⟨-, hi, hj, hik, hjk⟩ := h.step_facts hE hadm
  rcases hb with hb | hb
  · have hb' := below_step_mono hE h hadm hb
    rw [h'.below_eq] at hb' ⊢
    refine hb'.tail ⟨?_, by omega⟩
    rw [parent_step, if_neg hik, relabel_of_mem (Or.inl rfl), h.size_eq]
  · have hb' := below_step_mono hE h hadm hb
    rw [h'.below_eq] at hb' ⊢
    refine hb'.tail ⟨?_, by omega⟩
    rw [parent_step, if_neg hjk, relabel_of_mem (Or.inr rfl), h.size_eq]

theorem below_step_new (hE : GoodEdges n E) (h : Inv n E s) (hadm : s.adm i j = true) {a : Nat}
    (hb : Below (parentsOf n (s.step i j).ms) a s.size) :
    a = s.size ∨ Below (parentsOf n s.ms) a i ∨ Below (parentsOf n s.ms) a j := by
  have h' := inv_step hE h hadm
  have hb0 := hb
  rw [h'.below_eq] at hb
  rcases Relation.ReflTransGen.cases_tail hb with heq | ⟨c, hac, hp, hne⟩
  · left; exact heq.symm
  · right
    rw [← h'.below_eq] at hac
    rw [parent_step] at hp
    have hck : c ∉ kids s.ms := by
      intro hk
      rw [if_pos hk] at hp
      have := (h.parent_kid hk).2.2
      omega
    rw [if_neg hck] at hp
    have hold := below_step_old hE h hadm hac hne
    unfold relabel at hp
    split_ifs at hp with hc
    · rcases hc with rfl | rfl
      · exact Or.inl hold
      · exact Or.inr hold
    · exact absurd hp hne

end step

/-! ### items, roots, connectivity along `Reach` -/

theorem connIn_mono {E : List (Nat × Nat)} {S S' : Nat → Prop} (hS : ∀ c, S c → S' c) {a b : Nat}
    (h : ConnIn E S a b) : ConnIn E S' a b :=
  Relation.ReflTransGen.mono (fun _ _ hxy => ⟨hS _ hxy.1, hS _ hxy.2.1, hxy.2.2⟩) a b h

theorem adj_symm {E : List (Nat × Nat)} {a b : Nat} (h : Adj E a b) : Adj E b a := Or.symm h

theorem connIn_symm {E : List (Nat × Nat)} {S : Nat → Prop} {a b : Nat}
    (h : ConnIn E S a b) : ConnIn E S b a := by
  induction h with
  | refl => exact .refl
  | tail _ hbc ih => exact Relation.ReflTransGen.head ⟨hbc.2.1, hbc.1, adj_symm hbc.2.2⟩ ih

theorem connIn_conn {E : List (Nat × Nat)} {S : Nat → Prop} {a b : Nat}
    (h : ConnIn E S a b) : Conn E a b :=
  Relation.ReflTransGen.mono (fun _ _ hxy => hxy.2.2) a b h

theorem parFn_init (n v : Nat) : parFn (parentsOf n []) v = v := by
  unfold parFn parentsOf
  by_cases hv : v < n + ([] : List (Nat × Nat)).length
  · rw [getD_map_range _ _ _ hv]; simp [parentOf]
  · simp only [List.length_nil, Nat.add_zero, not_lt] at hv
    simp [List.getD_eq_getElem?_getD, hv]

theorem below_init {n : Nat} {a r : Nat} (hb : Below (parentsOf n []) a r) : a = r := by
  unfold Below at hb
  induction hb with
  | refl => rfl
  | tail _ hbc ih =>
      exfalso
      obtain ⟨hp, hne⟩ := hbc
      exact hne ((parFn_init n _).symm.trans hp)

section reach
variable {n : Nat} {E : List (Nat × Nat)} {s : Skel}

theorem reach_rep_below (hE : GoodEdges n E) (hR : Reach n E s) :
    ∀ a, a < n → Below (parentsOf n s.ms) a (s.rep n a) := by
  induction hR with
  | init => intro a _; exact .refl
  | step hR hadm ih =>
      rename_i s i j
      intro a ha
      have h := reach_inv hE hR
      rw [rep_step, ← h.size_eq]
      by_cases hc : s.rep n a = i ∨ s.rep n a = j
      · rw [relabel_of_mem hc]
        apply below_step_join hE h hadm
        rcases hc with hc | hc
        · left; rw [← hc]; exact ih a ha
        · right; rw [← hc]; exact ih a ha
      · have hc := not_or.mp hc
        rw [relabel_of_not hc.1 hc.2]
        exact below_step_mono hE h hadm (ih a ha)

theorem reach_subtree_conn (hE : GoodEdges n E) (hR : Reach n E s) :
    ∀ r, r < s.size → ∀ a b, a < n → b < n →
      Below (parentsOf n s.ms) a r → Below (parentsOf n s.ms) b r →
      ConnIn E (fun c => c < n ∧ Below (parentsOf n s.ms) c r) a b := by
  induction hR with
  | init =>
      intro r _ a b _ _ har hbr
      have h1 : a = r := below_init har
      have h2 : b = r := below_init hbr
      rw [h1, h2]
      exact .refl
  | step hR hadm ih =>
      rename_i s i j
      intro r hr a b ha hb har hbr
      have h := reach_inv hE hR
      obtain ⟨-, hi, hj, -, -⟩ := h.step_facts hE hadm
      by_cases hrs : r = s.size
      · subst hrs
        obtain ⟨-, x, y, hx, hy, hadj, hxi, hyj⟩ := h.adm_spec hE hadm
        have hxb : Below (parentsOf n s.ms) x i := hxi ▸ reach_rep_below hE hR x hx
        have hyb : Below (parentsOf n s.ms) y j := hyj ▸ reach_rep_below hE hR y hy
        have hSx : x < n ∧ Below (parentsOf n (s.step i j).ms) x s.size :=
          ⟨hx, below_step_join hE h hadm (Or.inl hxb)⟩
        have hSy : y < n ∧ Below (parentsOf n (s.step i j).ms) y s.size :=
          ⟨hy, below_step_join hE h hadm (Or.inr hyb)⟩
        have liftI : ∀ c, (c < n ∧ Below (parentsOf n s.ms) c i) →
            (c < n ∧ Below (parentsOf n (s.step i j).ms) c s.size) :=
          fun c hc => ⟨hc.1, below_step_join hE h hadm (Or.inl hc.2)⟩
        have liftJ : ∀ c, (c < n ∧ Below (parentsOf n s.ms) c j) →
            (c < n ∧ Below (parentsOf n (s.step i j).ms) c s.size) :=
          fun c hc => ⟨hc.1, below_step_join hE h hadm (Or.inr hc.2)⟩
        have key : ∀ c, c < n → Below (parentsOf n (s.step i j).ms) c s.size →
            ConnIn E (fun c => c < n ∧ Below (parentsOf n (s.step i j).ms) c s.size) c x := by
          intro c hc hcb
          rcases below_step_new hE h hadm hcb with heq | hci | hcj
          · rw [h.size_eq] at heq; omega
          · exact connIn_mono liftI (ih i hi c x hc hx hci hxb)
          · have h1 := connIn_mono liftJ (ih j hj c y hc hy hcj hyb)
            exact h1.tail ⟨hSy, hSx, adj_symm hadj⟩
        exact (key a ha har).trans (connIn_symm (key b hb hbr))
      · have hr' : r < s.size := by simp only [Skel.step] at hr; omega
        have har' := (below_step_iff hE h hadm hrs).mp har
        have hbr' := (below_step_iff hE h hadm hrs).mp hbr
        refine connIn_mono ?_ (ih r hr' a b ha hb har' hbr')
        intro c hc
        exact ⟨hc.1, (below_step_iff hE h hadm hrs).mpr hc.2⟩

/-- with no live edge left, two items have the same root exactly when the constraint graph
    joins them -/
theorem reach_final_iff (hE : GoodEdges n E) (hR : Reach n E s) (hfin : s.edges = []) :
    ∀ a b, a < n → b < n → (s.rep n a = s.rep n b ↔ Conn E a b) := by
  have h := reach_inv hE hR
  have back : ∀ a b, Conn E a b → s.rep n a = s.rep n b := by
    intro a b hc
    induction hc with
    | refl => rfl
    | tail _ hbc ih =>
        rw [ih]
        have hno : ∀ u v, s.adm u v = false := by
          intro u v; simp [Skel.adm, hfin]
        rcases hbc with hm | hm
        · by_contra hne
          have := h.complete _ hm hne
          rw [hno] at this; exact Bool.false_ne_true this
        · by_contra hne
          have := h.complete _ hm (Ne.symm hne)
          rw [hno] at this; exact Bool.false_ne_true this
  intro a b ha hb
  constructor
  · intro hab
    have hra := reach_rep_below hE hR a ha
    have hrb := reach_rep_below hE hR b hb
    rw [← hab] at hrb
    exact connIn_conn (reach_subtree_conn hE hR _ (h.live a ha).1 a b ha hb hra hrb)
  · exact back a b

/-- two functions with the same fibres on `s` have images of the same size -/
theorem card_image_eq_of_fibres {f g : Nat → Nat} (S : Finset Nat)
    (hfg : ∀ a ∈ S, ∀ b ∈ S, (f a = f b ↔ g a = g b)) :
    (S.image f).card = (S.image g).card := by
  induction S using Finset.induction_on with
  | empty => simp
  | insert a S ha ih =>
      have ih' := ih (fun x hx y hy => hfg x (Finset.mem_insert_of_mem hx) y (Finset.mem_insert_of_mem hy))
      rw [Finset.image_insert, Finset.image_insert]
      have hiff : f a ∈ S.image f ↔ g a ∈ S.image g := by
        simp only [Finset.mem_image]
        constructor
        · rintro ⟨b, hb, hbe⟩
          exact ⟨b, hb, (hfg b (Finset.mem_insert_of_mem hb) a (Finset.mem_insert_self _ _)).mp hbe⟩
        · rintro ⟨b, hb, hbe⟩
          exact ⟨b, hb, (hfg b (Finset.mem_insert_of_mem hb) a (Finset.mem_insert_self _ _)).mpr hbe⟩
      by_cases hm : f a ∈ S.image f
      · rw [Finset.insert_eq_of_mem hm, Finset.insert_eq_of_mem (hiff.mp hm), ih']
      · rw [Finset.card_insert_of_notMem hm, Finset.card_insert_of_notMem (fun hh => hm (hiff.mpr hh)), ih']

/-- the trees are the images of the items under `rep` -/
theorem Inv.nbTrees_eq (h : Inv n E s) :
    nbTrees (parentsOf n s.ms) = ((Finset.range n).image (s.rep n)).card := by
  unfold nbTrees
  rw [← List.toFinset_card_of_nodup (List.Nodup.filter _ List.nodup_range)]
  congr 1
  ext v
  simp only [List.mem_toFinset, List.mem_filter, List.mem_range, parentsOf_length,
    Finset.mem_image, Finset.mem_range, beq_iff_eq]
  have hp := h.parFn_eq v
  unfold parFn at hp
  rw [hp, h.root_iff, ← h.size_eq]
  constructor
  · rintro ⟨h1, h2⟩
    exact h.surj v h1 h2
  · rintro ⟨a, ha, rfl⟩
    exact h.live a ha

theorem reach_merge_count (hE : GoodEdges n E) (hR : Reach n E s) (hfin : s.edges = [])
    (c : Nat → Nat) (hc : ∀ a b, a < n → b < n → (c a = c b ↔ Conn E a b)) :
    ((Finset.range n).image c).card + s.ms.length = n := by
  have h := reach_inv hE hR
  have := h.tree_count
  rw [h.nbTrees_eq] at this
  have e : ((Finset.range n).image c).card = ((Finset.range n).image (s.rep n)).card := by
    apply card_image_eq_of_fibres
    intro a ha b hb
    rw [Finset.mem_range] at ha hb
    rw [hc a b ha hb, reach_final_iff hE hR hfin a b ha hb]
  omega

end reach

/-! ### running a merge sequence -/

/-- every merge of the sequence joins two clusters that a live edge joins when it is applied -/
def Skel.admAll : Skel → List (Nat × Nat) → Bool
  | _, [] => true
  | s, (i, j) :: r => s.adm i j && (s.step i j).admAll r

theorem reach_run {n : Nat} {E : List (Nat × Nat)} {s : Skel} (hR : Reach n E s)
    (S : List (Nat × Nat)) (hS : s.admAll S = true) : Reach n E (s.run S) := by
  induction S generalizing s with
  | nil => exact hR
  | cons m r ih =>
      obtain ⟨i, j⟩ := m
      simp only [Skel.admAll, Bool.and_eq_true] at hS
      exact ih (Reach.step hR hS.1) hS.2

/-! ### example data for the non-vacuity checks: the path `0 – 1 – 2 – 3` -/

/-- a path on four items -/
def exE : List (Nat × Nat) := [(0, 1), (1, 2), (2, 3)]

/-- merge `0,1 ↦ 4`, then `2,3 ↦ 5`, then `4,5 ↦ 6` -/
def exS : Skel := (((skelInit 4 exE).step 0 1).step 2 3).step 4 5

theorem exE_good : GoodEdges 4 exE := by unfold GoodEdges exE; decide

theorem exS_reach : Reach 4 exE exS :=
  Reach.step (Reach.step (Reach.step Reach.init (by decide)) (by decide)) (by decide)

end NipyVerif.C14
