/-
C16 — lemmas for the `fff_array` iterator: the state after `k` updates is the `k`-th multi-index of the
C order (mixed-radix digits of `k`) and its item offset.
-/
import NipyVerif.Model.C16B
import Mathlib.Tactic.Ring
import Mathlib.Tactic.Linarith

namespace NipyVerif.C16

/-- one increment of a mixed-radix digit with base `d + 1`: no carry below `d`, carry at `d` -/
theorem digit_step (k d : Nat) :
    (k % (d + 1) < d → (k + 1) % (d + 1) = k % (d + 1) + 1 ∧ (k + 1) / (d + 1) = k / (d + 1)) ∧
    (¬ k % (d + 1) < d → (k + 1) % (d + 1) = 0 ∧ (k + 1) / (d + 1) = k / (d + 1) + 1) := by
  have hlt := Nat.mod_lt k (Nat.succ_pos d)
  obtain ⟨q, r, hr, rfl⟩ : ∃ q r, r < d + 1 ∧ k = (d + 1) * q + r :=
    ⟨k / (d + 1), k % (d + 1), hlt, (Nat.div_add_mod k (d + 1)).symm⟩
  have hpos : 0 < d + 1 := Nat.succ_pos d
  have e0 : ((d + 1) * q + r) % (d + 1) = r := by rw [Nat.mul_add_mod, Nat.mod_eq_of_lt hr]
  have e1 : ((d + 1) * q + r) / (d + 1) = q := by
    rw [Nat.mul_add_div hpos, Nat.div_eq_of_lt hr, Nat.add_zero]
  have e2 : (d + 1) * q + r + 1 = (d + 1) * q + (r + 1) := by omega
  rw [e0, e1, e2, Nat.mul_add_mod, Nat.mul_add_div hpos]
  constructor
  · intro h
    have : r + 1 < d + 1 := by omega
    rw [Nat.mod_eq_of_lt this, Nat.div_eq_of_lt this]
    exact ⟨rfl, rfl⟩
  · intro h
    have : r + 1 = d + 1 := by omega
    rw [this, Nat.mod_self, Nat.div_self hpos]
    exact ⟨rfl, rfl⟩

/-- item offset of the multi-index of C-order rank `k` in a view with (effective) dimensions
    `· × (ddY+1) × (ddZ+1) × (ddT+1)`: `t` fastest, then `z`, `y`, `x` -/
def posAt (off oX oY oZ oT : Int) (ddY ddZ ddT k : Nat) : Int :=
  off + ((k / (ddT + 1) / (ddZ + 1) / (ddY + 1) : Nat) : Int) * oX
      + ((k / (ddT + 1) / (ddZ + 1) % (ddY + 1) : Nat) : Int) * oY
      + ((k / (ddT + 1) % (ddZ + 1) : Nat) : Int) * oZ
      + ((k % (ddT + 1) : Nat) : Int) * oT

/-- the iterator as it stands after `k` updates -/
def stateAt (off oX oY oZ oT : Int) (ddY ddZ ddT size k : Nat) : AIter :=
  { idx := k, size := size, pos := posAt off oX oY oZ oT ddY ddZ ddT k,
    x := k / (ddT + 1) / (ddZ + 1) / (ddY + 1), y := k / (ddT + 1) / (ddZ + 1) % (ddY + 1),
    z := k / (ddT + 1) % (ddZ + 1), t := k % (ddT + 1),
    ddY := ddY, ddZ := ddZ, ddT := ddT,
    incT := oT, incZ := oZ - (ddT : Int) * oT, incY := oY - (ddZ : Int) * oZ - (ddT : Int) * oT,
    incX := oX - (ddY : Int) * oY - (ddZ : Int) * oZ - (ddT : Int) * oT }

theorem step4 (off oX oY oZ oT : Int) (ddY ddZ ddT size k : Nat) :
    iterUpdate 4 (stateAt off oX oY oZ oT ddY ddZ ddT size k) = stateAt off oX oY oZ oT ddY ddZ ddT size (k + 1) := by
  obtain ⟨t1, t2⟩ := digit_step k ddT
  obtain ⟨z1, z2⟩ := digit_step (k / (ddT + 1)) ddZ
  obtain ⟨y1, y2⟩ := digit_step (k / (ddT + 1) / (ddZ + 1)) ddY
  have hlt : k % (ddT + 1) < ddT + 1 := Nat.mod_lt k (Nat.succ_pos ddT)
  have hlz : k / (ddT + 1) % (ddZ + 1) < ddZ + 1 := Nat.mod_lt (k / (ddT + 1)) (Nat.succ_pos ddZ)
  have hly : k / (ddT + 1) / (ddZ + 1) % (ddY + 1) < ddY + 1 := Nat.mod_lt (k / (ddT + 1) / (ddZ + 1)) (Nat.succ_pos ddY)
  unfold iterUpdate stateAt posAt
  simp only [show ¬ ((4 : Nat) = 1) by decide, show ¬ ((4 : Nat) = 2) by decide, show ¬ ((4 : Nat) = 3) by decide,
    if_false]
  by_cases ht : k % (ddT + 1) < ddT
  · obtain ⟨a, b⟩ := t1 ht
    rw [if_pos ht, a, b]
    congr 1
    push_cast; ring
  · obtain ⟨a, b⟩ := t2 ht
    have et : k % (ddT + 1) = ddT := by omega
    rw [if_neg ht]
    by_cases hz : k / (ddT + 1) % (ddZ + 1) < ddZ
    · obtain ⟨c, d⟩ := z1 hz
      rw [if_pos hz, a, b, c, d]
      congr 1
      rw [et]; push_cast; ring
    · obtain ⟨c, d⟩ := z2 hz
      have ez : k / (ddT + 1) % (ddZ + 1) = ddZ := by omega
      rw [if_neg hz]
      by_cases hy : k / (ddT + 1) / (ddZ + 1) % (ddY + 1) < ddY
      · obtain ⟨e, f⟩ := y1 hy
        rw [if_pos hy, a, b, c, d, e, f]
        congr 1
        rw [et, ez]; push_cast; ring
      · obtain ⟨e, f⟩ := y2 hy
        have ey : k / (ddT + 1) / (ddZ + 1) % (ddY + 1) = ddY := by omega
        rw [if_neg hy, a, b, c, d, e, f]
        congr 1
        rw [et, ez, ey]; push_cast; ring

/-- with a single `t` plane the 3-D update is the 4-D update -/
theorem step3 (off oX oY oZ oT : Int) (ddY ddZ size k : Nat) :
    iterUpdate 3 (stateAt off oX oY oZ oT ddY ddZ 0 size k) = stateAt off oX oY oZ oT ddY ddZ 0 size (k + 1) := by
  rw [← step4]
  unfold iterUpdate stateAt
  simp only [show ¬ ((4 : Nat) = 1) by decide, show ¬ ((4 : Nat) = 2) by decide, show ¬ ((4 : Nat) = 3) by decide,
    show ¬ ((3 : Nat) = 1) by decide, show ¬ ((3 : Nat) = 2) by decide, if_false, if_true, Nat.zero_add, Nat.mod_one,
    Nat.lt_irrefl]

/-- with a single `z, t` line the 2-D update is the 3-D update -/
theorem step2 (off oX oY oZ oT : Int) (ddY size k : Nat) :
    iterUpdate 2 (stateAt off oX oY oZ oT ddY 0 0 size k) = stateAt off oX oY oZ oT ddY 0 0 size (k + 1) := by
  rw [← step3]
  unfold iterUpdate stateAt
  simp only [show ¬ ((3 : Nat) = 1) by decide, show ¬ ((3 : Nat) = 2) by decide, show ¬ ((2 : Nat) = 1) by decide,
    if_false, if_true, Nat.zero_add, Nat.mod_one, Nat.div_one, Nat.lt_irrefl]

/-- a 1-D array: `x = idx` -/
theorem step1 (off oX oY oZ oT : Int) (size k : Nat) :
    iterUpdate 1 (stateAt off oX oY oZ oT 0 0 0 size k) = stateAt off oX oY oZ oT 0 0 0 size (k + 1) := by
  rw [← step2]
  unfold iterUpdate stateAt
  simp only [show ¬ ((2 : Nat) = 1) by decide, if_false, if_true, Nat.zero_add, Nat.mod_one, Nat.div_one,
    Nat.lt_irrefl]

/-- the loop `while (iter.idx < iter.size) { visit; update }` from the state after `k` updates -/
theorem iterRun_stateAt (nd : Nat) (off oX oY oZ oT : Int) (ddY ddZ ddT size : Nat)
    (hstep : ∀ k, iterUpdate nd (stateAt off oX oY oZ oT ddY ddZ ddT size k) =
      stateAt off oX oY oZ oT ddY ddZ ddT size (k + 1)) :
    ∀ (f k : Nat), iterRun nd f (stateAt off oX oY oZ oT ddY ddZ ddT size k) =
      (List.range' k (min f (size - k))).map (posAt off oX oY oZ oT ddY ddZ ddT)
  | 0, k => by simp [iterRun]
  | f + 1, k => by
      unfold iterRun
      have hi : (stateAt off oX oY oZ oT ddY ddZ ddT size k).idx = k := rfl
      have hs : (stateAt off oX oY oZ oT ddY ddZ ddT size k).size = size := rfl
      have hp : (stateAt off oX oY oZ oT ddY ddZ ddT size k).pos = posAt off oX oY oZ oT ddY ddZ ddT k := rfl
      rw [hi, hs, hp, hstep k, iterRun_stateAt nd off oX oY oZ oT ddY ddZ ddT size hstep f (k + 1)]
      by_cases hk : k < size
      · rw [if_pos hk]
        have : min (f + 1) (size - k) = min f (size - (k + 1)) + 1 := by omega
        rw [this, List.range'_succ, List.map_cons]
      · rw [if_neg hk]
        have : min (f + 1) (size - k) = 0 := by omega
        rw [this]; rfl

end NipyVerif.C16
