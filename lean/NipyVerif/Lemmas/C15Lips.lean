/- Helper lemmas for the `Lips*d` loops (C15): rational grid sums, dot products,
   behaviour of the `mu*` functions under changes of the Gram entries. -/
import NipyVerif.Model.C15Lips
import NipyVerif.Lemmas.C15
import Mathlib.Tactic.Ring
import Mathlib.Tactic.Linarith
import Mathlib.Tactic.NormNum
import Mathlib.Tactic.FieldSimp
import Mathlib.Tactic.Positivity
import Mathlib.Tactic.LinearCombination
import Mathlib.Algebra.Order.Field.Rat
import Mathlib.Algebra.BigOperators.Group.List.Basic

namespace NipyVerif.C15

/-! ### rational sums over the grid -/

theorem sumQ_congr {n : Nat} {f g : Nat → Rat} (h : ∀ i, i < n → f i = g i) : sumQ n f = sumQ n g := by
  induction n with
  | zero => rfl
  | succ n ih =>
      simp only [sumQ]
      rw [ih (fun i hi => h i (by omega)), h n (by omega)]

theorem sumQ_eq_zero {n : Nat} {f : Nat → Rat} (h : ∀ i, i < n → f i = 0) : sumQ n f = 0 := by
  induction n with
  | zero => rfl
  | succ n ih => simp only [sumQ]; rw [ih (fun i hi => h i (by omega)), h n (by omega)]; norm_num

theorem sumQ_add (n : Nat) (f g : Nat → Rat) : sumQ n (fun i => f i + g i) = sumQ n f + sumQ n g := by
  induction n with
  | zero => simp [sumQ]
  | succ n ih => simp only [sumQ, ih]; ring

theorem sumQ_sub (n : Nat) (f g : Nat → Rat) : sumQ n (fun i => f i - g i) = sumQ n f - sumQ n g := by
  induction n with
  | zero => simp [sumQ]
  | succ n ih => simp only [sumQ, ih]; ring

theorem sumQ_mul_left (n : Nat) (c : Rat) (f : Nat → Rat) : sumQ n (fun i => c * f i) = c * sumQ n f := by
  induction n with
  | zero => simp [sumQ]
  | succ n ih => simp only [sumQ, ih]; ring

theorem sumQ_mul_right (n : Nat) (c : Rat) (f : Nat → Rat) : sumQ n (fun i => f i * c) = sumQ n f * c := by
  induction n with
  | zero => simp [sumQ]
  | succ n ih => simp only [sumQ, ih]; ring

theorem sumQ_le_of_zero {n n' : Nat} {f : Nat → Rat} (hn : n ≤ n')
    (h : ∀ i, n ≤ i → i < n' → f i = 0) : sumQ n' f = sumQ n f := by
  induction n' with
  | zero => have : n = 0 := by omega
            subst this; rfl
  | succ m ih =>
      by_cases hm : n ≤ m
      · simp only [sumQ]
        rw [ih hm (fun i h1 h2 => h i h1 (by omega)), h m hm (by omega)]; ring
      · have : n = m + 1 := by omega
        subst this; rfl

theorem sumQ_shift {t n : Nat} {f : Nat → Rat} (h : ∀ i, i < t → f i = 0) :
    sumQ (t + n) f = sumQ n (fun i => f (t + i)) := by
  induction n with
  | zero => simpa [sumQ] using sumQ_eq_zero h
  | succ n ih => rw [← Nat.add_assoc]; simp only [sumQ, ih]

theorem sumQ_comm (a b : Nat) (f : Nat → Nat → Rat) :
    sumQ a (fun i => sumQ b (fun j => f i j)) = sumQ b (fun j => sumQ a (fun i => f i j)) := by
  induction a with
  | zero => simp only [sumQ]; exact (sumQ_eq_zero (fun _ _ => rfl)).symm
  | succ a ih => simp only [sumQ, ih]; rw [← sumQ_add]

theorem sumQ_one (f : Nat → Rat) : sumQ 1 f = f 0 := by simp [sumQ]

theorem sumQ_const (n : Nat) (c : Rat) : sumQ n (fun _ => c) = (n : Rat) * c := by
  induction n with
  | zero => simp [sumQ]
  | succ n ih => simp only [sumQ, ih]; push_cast; ring

theorem sum3Q_congr {n0 n1 n2 : Nat} {f g : Nat → Nat → Nat → Rat}
    (h : ∀ i j k, i < n0 → j < n1 → k < n2 → f i j k = g i j k) : sum3Q n0 n1 n2 f = sum3Q n0 n1 n2 g := by
  unfold sum3Q
  exact sumQ_congr (fun i hi => sumQ_congr (fun j hj => sumQ_congr (fun k hk => h i j k hi hj hk)))

theorem sum3Q_eq_zero {n0 n1 n2 : Nat} {f : Nat → Nat → Nat → Rat}
    (h : ∀ i j k, i < n0 → j < n1 → k < n2 → f i j k = 0) : sum3Q n0 n1 n2 f = 0 := by
  unfold sum3Q
  exact sumQ_eq_zero (fun i hi => sumQ_eq_zero (fun j hj => sumQ_eq_zero (fun k hk => h i j k hi hj hk)))

theorem sum3Q_add (n0 n1 n2 : Nat) (f g : Nat → Nat → Nat → Rat) :
    sum3Q n0 n1 n2 (fun i j k => f i j k + g i j k) = sum3Q n0 n1 n2 f + sum3Q n0 n1 n2 g := by
  unfold sum3Q; simp only [sumQ_add]

theorem sum3Q_sub (n0 n1 n2 : Nat) (f g : Nat → Nat → Nat → Rat) :
    sum3Q n0 n1 n2 (fun i j k => f i j k - g i j k) = sum3Q n0 n1 n2 f - sum3Q n0 n1 n2 g := by
  unfold sum3Q; simp only [sumQ_sub]

theorem sum3Q_mul_left (n0 n1 n2 : Nat) (c : Rat) (f : Nat → Nat → Nat → Rat) :
    sum3Q n0 n1 n2 (fun i j k => c * f i j k) = c * sum3Q n0 n1 n2 f := by
  unfold sum3Q; simp only [sumQ_mul_left]

theorem sum3Q_mono {n0 n1 n2 m0 m1 m2 : Nat} {f : Nat → Nat → Nat → Rat}
    (h0 : n0 ≤ m0) (h1 : n1 ≤ m1) (h2 : n2 ≤ m2)
    (hz : ∀ i j k, ¬ (i < n0 ∧ j < n1 ∧ k < n2) → f i j k = 0) :
    sum3Q m0 m1 m2 f = sum3Q n0 n1 n2 f := by
  unfold sum3Q
  rw [sumQ_le_of_zero h0 (fun i hi _ => sumQ_eq_zero (fun j _ => sumQ_eq_zero (fun k _ =>
    hz i j k (by omega))))]
  refine sumQ_congr (fun i _ => ?_)
  rw [sumQ_le_of_zero h1 (fun j hj _ => sumQ_eq_zero (fun k _ => hz i j k (by omega)))]
  refine sumQ_congr (fun j _ => ?_)
  exact sumQ_le_of_zero h2 (fun k hk _ => hz i j k (by omega))

theorem sum3Q_shift {t0 t1 t2 n0 n1 n2 : Nat} {f : Nat → Nat → Nat → Rat}
    (hz : ∀ i j k, (i < t0 ∨ j < t1 ∨ k < t2) → f i j k = 0) :
    sum3Q (t0 + n0) (t1 + n1) (t2 + n2) f = sum3Q n0 n1 n2 (fun i j k => f (t0 + i) (t1 + j) (t2 + k)) := by
  unfold sum3Q
  rw [sumQ_shift (fun i hi => sumQ_eq_zero (fun j _ => sumQ_eq_zero (fun k _ => hz i j k (Or.inl hi))))]
  refine sumQ_congr (fun i _ => ?_)
  rw [sumQ_shift (fun j hj => sumQ_eq_zero (fun k _ => hz _ j k (Or.inr (Or.inl hj))))]
  refine sumQ_congr (fun j _ => ?_)
  exact sumQ_shift (fun k hk => hz _ _ k (Or.inr (Or.inr hk)))

theorem sum3Q_swap01 (a b c : Nat) (f : Nat → Nat → Nat → Rat) :
    sum3Q a b c f = sum3Q b a c (fun j i k => f i j k) := by
  unfold sum3Q; exact sumQ_comm a b _

theorem sum3Q_swap12 (a b c : Nat) (f : Nat → Nat → Nat → Rat) :
    sum3Q a b c f = sum3Q a c b (fun i k j => f i j k) := by
  unfold sum3Q; exact sumQ_congr (fun i _ => sumQ_comm b c _)

theorem sum3Q_prod (a b c : Nat) (f g h : Nat → Rat) :
    sum3Q a b c (fun i j k => f i * g j * h k) = sumQ a f * sumQ b g * sumQ c h := by
  unfold sum3Q
  simp only [sumQ_mul_left, sumQ_mul_right]

/-- casting an integer grid sum -/
theorem sumN_cast (n : Nat) (f : Nat → Int) : ((sumN n f : Int) : Rat) = sumQ n (fun i => (f i : Rat)) := by
  induction n with
  | zero => simp [sumN, sumQ]
  | succ n ih => simp only [sumN, sumQ, Int.cast_add, ih]

theorem sum3_cast (a b c : Nat) (f : Nat → Nat → Nat → Int) :
    ((sum3 a b c f : Int) : Rat) = sum3Q a b c (fun i j k => (f i j k : Rat)) := by
  unfold sum3 sum3Q
  simp only [sumN_cast]

/-! ### list sums and dot products -/

theorem list_sum_map_add {α} (l : List α) (f g : α → Rat) :
    (l.map (fun a => f a + g a)).sum = (l.map f).sum + (l.map g).sum := by
  induction l with
  | nil => simp
  | cons a l ih => simp only [List.map_cons, List.sum_cons, ih]; ring

theorem list_sum_map_mul_left {α} (l : List α) (c : Rat) (f : α → Rat) :
    (l.map (fun a => c * f a)).sum = c * (l.map f).sum := by
  induction l with
  | nil => simp
  | cons a l ih => simp only [List.map_cons, List.sum_cons, ih]; ring

theorem list_sum_map_congr {α} (l : List α) (f g : α → Rat) (h : ∀ a ∈ l, f a = g a) :
    (l.map f).sum = (l.map g).sum := by
  induction l with
  | nil => simp
  | cons a l ih =>
      simp only [List.map_cons, List.sum_cons]
      rw [h a (List.mem_cons_self), ih (fun b hb => h b (List.mem_cons_of_mem _ hb))]

theorem dot_nil_left (b : List Rat) : dot [] b = 0 := by simp [dot]
theorem dot_cons (a b : Rat) (l m : List Rat) : dot (a :: l) (b :: m) = a * b + dot l m := by
  simp [dot]

theorem dot_comm (a b : List Rat) : dot a b = dot b a := by
  induction a generalizing b with
  | nil => cases b <;> simp [dot]
  | cons x a ih =>
      cases b with
      | nil => simp [dot]
      | cons y b => rw [dot_cons, dot_cons, ih, mul_comm]

/-- coordinates of a field given componentwise -/
theorem dot_map_map {α} (l : List α) (f g : α → Rat) :
    dot (l.map f) (l.map g) = (l.map (fun c => f c * g c)).sum := by
  induction l with
  | nil => simp [dot]
  | cons a l ih => simp only [List.map_cons, dot_cons, List.sum_cons, ih]


theorem dot_zipWith_add_left (a b c : List Rat) (h : a.length = b.length) :
    dot (List.zipWith (· + ·) a b) c = dot a c + dot b c := by
  induction a generalizing b c with
  | nil => cases b with
      | nil => simp [dot]
      | cons y b => simp at h
  | cons x a ih =>
      cases b with
      | nil => simp at h
      | cons y b =>
          cases c with
          | nil => simp [dot]
          | cons z c =>
              simp only [List.zipWith_cons_cons, dot_cons]
              rw [ih b c (by simpa using h)]; ring

theorem dot_map_mul (l : Rat) (a b : List Rat) :
    dot (a.map (l * ·)) (b.map (l * ·)) = l ^ 2 * dot a b := by
  induction a generalizing b with
  | nil => simp [dot]
  | cons x a ih =>
      cases b with
      | nil => simp [dot]
      | cons y b => simp only [List.map_cons, dot_cons, ih]; ring

/-! ### the `mu*` functions only read the Gram entries of their vertices -/

theorem tet3_congr (P : Num) (G G' : Gram) (h : ∀ a b, a < 4 → b < 4 → G a b = G' a b) : tet3 P G = tet3 P G' := by
  simp only [tet3, h 0 0, h 0 1, h 0 2, h 0 3, h 1 1, h 1 2, h 1 3, h 2 2, h 2 3, h 3 3, Nat.lt_add_one,
    Nat.reduceLT]
theorem tet2_congr (P : Num) (G G' : Gram) (h : ∀ a b, a < 4 → b < 4 → G a b = G' a b) : tet2 P G = tet2 P G' := by
  simp only [tet2, h 0 0, h 0 1, h 0 2, h 0 3, h 1 1, h 1 2, h 1 3, h 2 2, h 2 3, h 3 3, Nat.lt_add_one,
    Nat.reduceLT]
theorem tet1_congr (P : Num) (G G' : Gram) (h : ∀ a b, a < 4 → b < 4 → G a b = G' a b) : tet1 P G = tet1 P G' := by
  simp only [tet1, h 0 0, h 0 1, h 0 2, h 0 3, h 1 1, h 1 2, h 1 3, h 2 2, h 2 3, h 3 3, Nat.lt_add_one,
    Nat.reduceLT]
theorem tri2_congr (P : Num) (G G' : Gram) (h : ∀ a b, a < 3 → b < 3 → G a b = G' a b) : tri2 P G = tri2 P G' := by
  simp only [tri2, h 0 0, h 0 1, h 0 2, h 1 1, h 1 2, h 2 2, Nat.lt_add_one, Nat.reduceLT]
theorem tri1_congr (P : Num) (G G' : Gram) (h : ∀ a b, a < 3 → b < 3 → G a b = G' a b) : tri1 P G = tri1 P G' := by
  simp only [tri1, h 0 0, h 0 1, h 0 2, h 1 1, h 1 2, h 2 2, Nat.lt_add_one, Nat.reduceLT]
theorem edge1_congr (P : Num) (G G' : Gram) (h : ∀ a b, a < 2 → b < 2 → G a b = G' a b) : edge1 P G = edge1 P G' := by
  simp only [edge1, h 0 0, h 0 1, h 1 1, Nat.lt_add_one, Nat.reduceLT]

/-! ### translation of the coordinates: `D'_ab = D_ab + u_a + u_b + β` -/

theorem edgeSq_shift (D00 D01 D11 u0 u1 β : Rat) :
    edgeSq (D00 + u0 + u0 + β) (D01 + u0 + u1 + β) (D11 + u1 + u1 + β) = edgeSq D00 D01 D11 := by
  simp only [edgeSq]; ring

theorem triL_shift (D00 D01 D02 D11 D12 D22 u0 u1 u2 β : Rat) :
    triL (D00 + u0 + u0 + β) (D01 + u0 + u1 + β) (D02 + u0 + u2 + β) (D11 + u1 + u1 + β) (D12 + u1 + u2 + β)
      (D22 + u2 + u2 + β) = triL D00 D01 D02 D11 D12 D22 := by
  simp only [triL]; ring

theorem tetV2_shift (D00 D01 D02 D03 D11 D12 D13 D22 D23 D33 u0 u1 u2 u3 β : Rat) :
    tetV2 (D00 + u0 + u0 + β) (D01 + u0 + u1 + β) (D02 + u0 + u2 + β) (D03 + u0 + u3 + β) (D11 + u1 + u1 + β)
      (D12 + u1 + u2 + β) (D13 + u1 + u3 + β) (D22 + u2 + u2 + β) (D23 + u2 + u3 + β) (D33 + u3 + u3 + β)
    = tetV2 D00 D01 D02 D03 D11 D12 D13 D22 D23 D33 := by
  simp only [tetV2]; ring

theorem mu1Tetface_shift (P : Num) (Ds0s0 Ds0s1 Ds1s1 Ds0t0 Ds0t1 Ds1t0 Ds1t1 Dt0t0 Dt0t1 Dt1t1 s0 s1 t0 t1 β : Rat) :
    mu1Tetface P (Ds0s0 + s0 + s0 + β) (Ds0s1 + s0 + s1 + β) (Ds1s1 + s1 + s1 + β) (Ds0t0 + s0 + t0 + β)
      (Ds0t1 + s0 + t1 + β) (Ds1t0 + s1 + t0 + β) (Ds1t1 + s1 + t1 + β) (Dt0t0 + t0 + t0 + β)
      (Dt0t1 + t0 + t1 + β) (Dt1t1 + t1 + t1 + β)
    = mu1Tetface P Ds0s0 Ds0s1 Ds1s1 Ds0t0 Ds0t1 Ds1t0 Ds1t1 Dt0t0 Dt0t1 Dt1t1 := by
  have e00 : (Ds1s1 + s1 + s1 + β) - 2 * (Ds0s1 + s0 + s1 + β) + (Ds0s0 + s0 + s0 + β)
      = Ds1s1 - 2 * Ds0s1 + Ds0s0 := by ring
  have e11 : (Dt0t0 + t0 + t0 + β) - 2 * (Ds0t0 + s0 + t0 + β) + (Ds0s0 + s0 + s0 + β)
      = Dt0t0 - 2 * Ds0t0 + Ds0s0 := by ring
  have e22 : (Dt1t1 + t1 + t1 + β) - 2 * (Ds0t1 + s0 + t1 + β) + (Ds0s0 + s0 + s0 + β)
      = Dt1t1 - 2 * Ds0t1 + Ds0s0 := by ring
  have e01 : (Ds1t0 + s1 + t0 + β) - (Ds0t0 + s0 + t0 + β) - (Ds0s1 + s0 + s1 + β) + (Ds0s0 + s0 + s0 + β)
      = Ds1t0 - Ds0t0 - Ds0s1 + Ds0s0 := by ring
  have e02 : (Ds1t1 + s1 + t1 + β) - (Ds0t1 + s0 + t1 + β) - (Ds0s1 + s0 + s1 + β) + (Ds0s0 + s0 + s0 + β)
      = Ds1t1 - Ds0t1 - Ds0s1 + Ds0s0 := by ring
  have e12 : (Dt0t1 + t0 + t1 + β) - (Ds0t0 + s0 + t0 + β) - (Ds0t1 + s0 + t1 + β) + (Ds0s0 + s0 + s0 + β)
      = Dt0t1 - Ds0t0 - Ds0t1 + Ds0s0 := by ring
  simp only [mu1Tetface, e00, e11, e22, e01, e02, e12]

/-- Gram entries of translated coordinates -/
def ShiftOf (G G' : Gram) (u : Nat → Rat) (β : Rat) : Prop := ∀ a b, G' a b = G a b + u a + u b + β

theorem tet3_shift (P : Num) (G G' : Gram) (u : Nat → Rat) (β : Rat) (h : ShiftOf G G' u β) :
    tet3 P G' = tet3 P G := by
  simp only [tet3, mu3Tet, h _ _, tetV2_shift]

theorem tri2_shift (P : Num) (G G' : Gram) (u : Nat → Rat) (β : Rat) (h : ShiftOf G G' u β) :
    tri2 P G' = tri2 P G := by
  simp only [tri2, mu2Tri, h _ _, triL_shift]

theorem tet2_shift (P : Num) (G G' : Gram) (u : Nat → Rat) (β : Rat) (h : ShiftOf G G' u β) :
    tet2 P G' = tet2 P G := by
  simp only [tet2, mu2Tet, mu2Tri, h _ _, triL_shift]

theorem edge1_shift (P : Num) (G G' : Gram) (u : Nat → Rat) (β : Rat) (h : ShiftOf G G' u β) :
    edge1 P G' = edge1 P G := by
  simp only [edge1, mu1Edge, h _ _, edgeSq_shift]

theorem tri1_shift (P : Num) (G G' : Gram) (u : Nat → Rat) (β : Rat) (h : ShiftOf G G' u β) :
    tri1 P G' = tri1 P G := by
  simp only [tri1, mu1Tri, mu1Edge, h _ _, edgeSq_shift]

theorem mu1Tetface_shift' (P : Num) {x1 x2 x3 x4 x5 x6 x7 x8 x9 x10 y1 y2 y3 y4 y5 y6 y7 y8 y9 y10 s0 s1 t0 t1 β : Rat}
    (h1 : y1 = x1 + s0 + s0 + β) (h2 : y2 = x2 + s0 + s1 + β) (h3 : y3 = x3 + s1 + s1 + β)
    (h4 : y4 = x4 + s0 + t0 + β) (h5 : y5 = x5 + s0 + t1 + β) (h6 : y6 = x6 + s1 + t0 + β)
    (h7 : y7 = x7 + s1 + t1 + β) (h8 : y8 = x8 + t0 + t0 + β) (h9 : y9 = x9 + t0 + t1 + β)
    (h10 : y10 = x10 + t1 + t1 + β) :
    mu1Tetface P y1 y2 y3 y4 y5 y6 y7 y8 y9 y10 = mu1Tetface P x1 x2 x3 x4 x5 x6 x7 x8 x9 x10 := by
  subst h1 h2 h3 h4 h5 h6 h7 h8 h9 h10
  exact mu1Tetface_shift P _ _ _ _ _ _ _ _ _ _ _ _ _ _ _

theorem tet1_shift (P : Num) (G G' : Gram) (u : Nat → Rat) (β : Rat) (h : ShiftOf G G' u β) :
    tet1 P G' = tet1 P G := by
  unfold tet1 mu1Tet
  refine congrArg₂ (· + ·) (congrArg₂ (· + ·) (congrArg₂ (· + ·) (congrArg₂ (· + ·) (congrArg₂ (· + ·)
    ?_ ?_) ?_) ?_) ?_) ?_ <;>
  (refine mu1Tetface_shift' P (h _ _) ?_ (h _ _) ?_ ?_ ?_ ?_ (h _ _) ?_ (h _ _) <;> (rw [h]; try ring))


/-! ### rescaling of the coordinates: `D' = λ² D` -/

/-- the law of `sqrt` used for rescaling by `l` -/
def SqHom (P : Num) (l : Rat) : Prop := ∀ v, P.sq (l ^ 2 * v) = |l| * P.sq v

theorem mu1Tetface_scale (P : Num) (l : Rat) (hl : l ≠ 0) (hsq : SqHom P l) (a b c d e f g h i j : Rat) :
    mu1Tetface P (l ^ 2 * a) (l ^ 2 * b) (l ^ 2 * c) (l ^ 2 * d) (l ^ 2 * e) (l ^ 2 * f) (l ^ 2 * g) (l ^ 2 * h)
      (l ^ 2 * i) (l ^ 2 * j) = |l| * mu1Tetface P a b c d e f g h i j := by
  have hc : (0 : Rat) < l ^ 2 := by positivity
  have hc0 : l ^ 2 ≠ 0 := ne_of_gt hc
  have e00 : l ^ 2 * c - 2 * (l ^ 2 * b) + l ^ 2 * a = l ^ 2 * (c - 2 * b + a) := by ring
  have e11 : l ^ 2 * h - 2 * (l ^ 2 * d) + l ^ 2 * a = l ^ 2 * (h - 2 * d + a) := by ring
  have e22 : l ^ 2 * j - 2 * (l ^ 2 * e) + l ^ 2 * a = l ^ 2 * (j - 2 * e + a) := by ring
  have e01 : l ^ 2 * f - l ^ 2 * d - l ^ 2 * b + l ^ 2 * a = l ^ 2 * (f - d - b + a) := by ring
  have e02 : l ^ 2 * g - l ^ 2 * e - l ^ 2 * b + l ^ 2 * a = l ^ 2 * (g - e - b + a) := by ring
  have e12 : l ^ 2 * i - l ^ 2 * d - l ^ 2 * e + l ^ 2 * a = l ^ 2 * (i - d - e + a) := by ring
  simp only [mu1Tetface, e00, e11, e22, e01, e02, e12]
  generalize c - 2 * b + a = A00
  generalize h - 2 * d + a = A11
  generalize j - 2 * e + a = A22
  generalize f - d - b + a = A01
  generalize g - e - b + a = A02
  generalize i - d - e + a = A12
  by_cases h0 : A00 ≤ 0
  · have : l ^ 2 * A00 ≤ 0 := mul_nonpos_of_nonneg_of_nonpos hc.le h0
    simp [h0, this]
  · have hA : 0 < A00 := not_le.mp h0
    have hA0 : A00 ≠ 0 := ne_of_gt hA
    have h0' : ¬ l ^ 2 * A00 ≤ 0 := not_le.mpr (mul_pos hc hA)
    simp only [h0, h0', if_false]
    have n0 : l ^ 2 * A11 - l ^ 2 * A01 * (l ^ 2 * A01) / (l ^ 2 * A00) = l ^ 2 * (A11 - A01 * A01 / A00) := by
      field_simp
    have n1 : l ^ 2 * A22 - l ^ 2 * A02 * (l ^ 2 * A02) / (l ^ 2 * A00) = l ^ 2 * (A22 - A02 * A02 / A00) := by
      field_simp
    have n2 : l ^ 2 * A12 - l ^ 2 * A01 * (l ^ 2 * A02) / (l ^ 2 * A00) = l ^ 2 * (A12 - A01 * A02 / A00) := by
      field_simp
    rw [n0, n1, n2]
    generalize A11 - A01 * A01 / A00 = p0
    generalize A22 - A02 * A02 / A00 = p1
    generalize A12 - A01 * A02 / A00 = ip
    have np : l ^ 2 * p0 * (l ^ 2 * p1) = l ^ 2 * (l ^ 2 * (p0 * p1)) := by ring
    rw [np]
    by_cases h1 : p0 * p1 ≤ 0
    · have : l ^ 2 * (l ^ 2 * (p0 * p1)) ≤ 0 :=
        mul_nonpos_of_nonneg_of_nonpos hc.le (mul_nonpos_of_nonneg_of_nonpos hc.le h1)
      simp [h1, this]
    · have hp : 0 < p0 * p1 := not_le.mp h1
      have h1' : ¬ l ^ 2 * (l ^ 2 * (p0 * p1)) ≤ 0 := not_le.mpr (mul_pos hc (mul_pos hc hp))
      simp only [h1, h1', if_false]
      rw [hsq, hsq, hsq]
      have r : l ^ 2 * ip / (|l| * (|l| * P.sq (p0 * p1))) = ip / P.sq (p0 * p1) := by
        rw [← mul_assoc, abs_mul_abs_self, ← pow_two, mul_div_mul_left _ _ hc0]
      rw [r]; ring

/-- Gram entries of rescaled coordinates -/
def ScaleOf (G G' : Gram) (c : Rat) : Prop := ∀ a b, G' a b = c * G a b

theorem edgeSq_scale (c D00 D01 D11 : Rat) : edgeSq (c * D00) (c * D01) (c * D11) = c * edgeSq D00 D01 D11 := by
  simp only [edgeSq]; ring

theorem triL_scale (c D00 D01 D02 D11 D12 D22 : Rat) :
    triL (c * D00) (c * D01) (c * D02) (c * D11) (c * D12) (c * D22) = c * (c * triL D00 D01 D02 D11 D12 D22) := by
  simp only [triL]; ring

theorem tetV2_scale (c D00 D01 D02 D03 D11 D12 D13 D22 D23 D33 : Rat) :
    tetV2 (c * D00) (c * D01) (c * D02) (c * D03) (c * D11) (c * D12) (c * D13) (c * D22) (c * D23) (c * D33)
      = c * (c * (c * tetV2 D00 D01 D02 D03 D11 D12 D13 D22 D23 D33)) := by
  simp only [tetV2]; ring

theorem mu1Edge_scale (P : Num) (l : Rat) (hsq : SqHom P l) (D00 D01 D11 : Rat) :
    mu1Edge P (l ^ 2 * D00) (l ^ 2 * D01) (l ^ 2 * D11) = |l| * mu1Edge P D00 D01 D11 := by
  simp only [mu1Edge, edgeSq_scale, hsq _]

theorem mu2Tri_scale (P : Num) (l : Rat) (hl : l ≠ 0) (hsq : SqHom P l) (D00 D01 D02 D11 D12 D22 : Rat) :
    mu2Tri P (l ^ 2 * D00) (l ^ 2 * D01) (l ^ 2 * D02) (l ^ 2 * D11) (l ^ 2 * D12) (l ^ 2 * D22)
      = l ^ 2 * mu2Tri P D00 D01 D02 D11 D12 D22 := by
  have hc : (0 : Rat) < l ^ 2 := by positivity
  simp only [mu2Tri, triL_scale]
  generalize triL D00 D01 D02 D11 D12 D22 = L
  by_cases h : L < 0
  · have : l ^ 2 * (l ^ 2 * L) < 0 := mul_neg_of_pos_of_neg hc (mul_neg_of_pos_of_neg hc h)
    simp [h, this]
  · have : ¬ l ^ 2 * (l ^ 2 * L) < 0 := not_lt.mpr (mul_nonneg hc.le (mul_nonneg hc.le (not_lt.mp h)))
    simp only [h, this, if_false]
    rw [hsq, hsq, ← mul_assoc, ← mul_assoc, abs_mul_abs_self, ← pow_two]

theorem mu3Tet_scale (P : Num) (l : Rat) (hl : l ≠ 0) (hsq : SqHom P l) (D00 D01 D02 D03 D11 D12 D13 D22 D23 D33 : Rat) :
    mu3Tet P (l ^ 2 * D00) (l ^ 2 * D01) (l ^ 2 * D02) (l ^ 2 * D03) (l ^ 2 * D11) (l ^ 2 * D12) (l ^ 2 * D13)
      (l ^ 2 * D22) (l ^ 2 * D23) (l ^ 2 * D33) = |l| ^ 3 * mu3Tet P D00 D01 D02 D03 D11 D12 D13 D22 D23 D33 := by
  have hc : (0 : Rat) < l ^ 2 := by positivity
  simp only [mu3Tet, tetV2_scale]
  generalize tetV2 D00 D01 D02 D03 D11 D12 D13 D22 D23 D33 = v
  by_cases h : v ≤ 0
  · have : l ^ 2 * (l ^ 2 * (l ^ 2 * v)) ≤ 0 :=
      mul_nonpos_of_nonneg_of_nonpos hc.le (mul_nonpos_of_nonneg_of_nonpos hc.le
        (mul_nonpos_of_nonneg_of_nonpos hc.le h))
    simp [h, this]
  · have : ¬ l ^ 2 * (l ^ 2 * (l ^ 2 * v)) ≤ 0 :=
      not_le.mpr (mul_pos hc (mul_pos hc (mul_pos hc (not_le.mp h))))
    simp only [h, this, if_false]
    rw [hsq, hsq, hsq]; ring

theorem edge1_scale (P : Num) (l : Rat) (hsq : SqHom P l) (G G' : Gram) (h : ScaleOf G G' (l ^ 2)) :
    edge1 P G' = |l| * edge1 P G := by
  simp only [edge1, h _ _, mu1Edge_scale P l hsq]

theorem tri1_scale (P : Num) (l : Rat) (hsq : SqHom P l) (G G' : Gram) (h : ScaleOf G G' (l ^ 2)) :
    tri1 P G' = |l| * tri1 P G := by
  simp only [tri1, mu1Tri, h _ _, mu1Edge_scale P l hsq]; ring

theorem tri2_scale (P : Num) (l : Rat) (hl : l ≠ 0) (hsq : SqHom P l) (G G' : Gram) (h : ScaleOf G G' (l ^ 2)) :
    tri2 P G' = l ^ 2 * tri2 P G := by
  simp only [tri2, h _ _, mu2Tri_scale P l hl hsq]

theorem tet2_scale (P : Num) (l : Rat) (hl : l ≠ 0) (hsq : SqHom P l) (G G' : Gram) (h : ScaleOf G G' (l ^ 2)) :
    tet2 P G' = l ^ 2 * tet2 P G := by
  simp only [tet2, mu2Tet, h _ _, mu2Tri_scale P l hl hsq]; ring

theorem tet3_scale (P : Num) (l : Rat) (hl : l ≠ 0) (hsq : SqHom P l) (G G' : Gram) (h : ScaleOf G G' (l ^ 2)) :
    tet3 P G' = |l| ^ 3 * tet3 P G := by
  simp only [tet3, h _ _, mu3Tet_scale P l hl hsq]

theorem tet1_scale (P : Num) (l : Rat) (hl : l ≠ 0) (hsq : SqHom P l) (G G' : Gram) (h : ScaleOf G G' (l ^ 2)) :
    tet1 P G' = |l| * tet1 P G := by
  simp only [tet1, mu1Tet, h _ _, mu1Tetface_scale P l hl hsq]; ring


/-! ### the grid-point form: weights, Gram entries, table sums -/

theorem k234 : (2 = 2 ∨ 2 = 3 ∨ 2 = 4) ∧ (3 = 2 ∨ 3 = 3 ∨ 3 = 4) ∧ (4 = 2 ∨ 4 = 3 ∨ 4 = 4) := by
  omega

theorem table_head0 (d k : Nat) (hd : d = 1 ∨ d = 2 ∨ d = 3) (hk : k = 2 ∨ k = 3 ∨ k = 4) :
    ∀ s ∈ table d k, ∃ r, s = (0, 0, 0) :: r := by
  have key : ((table d k).all (fun s => s.head? == some (0, 0, 0))) = true := by
    rcases hd with rfl | rfl | rfl <;> rcases hk with rfl | rfl | rfl <;> decide +kernel
  intro s hs
  have := (List.all_eq_true.mp key) s hs
  cases s with
  | nil => simp at this
  | cons a r =>
      simp only [List.head?_cons, beq_iff_eq, Option.some.injEq] at this
      exact ⟨r, by rw [this]⟩

theorem wt_cons (M : Field) (x v : Pt) (s : List Pt) :
    wt M x (v :: s) = (fat M x v : Rat) * wt M x s := by
  simp [wt, prodAt]

theorem wt_nil (M : Field) (x : Pt) : wt M x [] = 1 := by simp [wt, prodAt]

theorem wt_eq_zero_of_head (M : Field) (x : Pt) (s : List Pt) (hs : ∃ r, s = (0, 0, 0) :: r)
    (h : M x.1 x.2.1 x.2.2 = 0) : wt M x s = 0 := by
  obtain ⟨r, rfl⟩ := hs
  rw [wt_cons]
  simp [fat, h]

theorem wt_congr (M M' : Field) (x x' : Pt) (s : List Pt) (h : ∀ v ∈ s, fat M' x' v = fat M x v) :
    wt M' x' s = wt M x s := by
  induction s with
  | nil => simp [wt_nil]
  | cons v s ih =>
      rw [wt_cons, wt_cons, h v (List.mem_cons_self), ih (fun w hw => h w (List.mem_cons_of_mem _ hw))]

/-- `wt` along a relabelling `σ` of the vertices -/
theorem wt_map (M M' : Field) (x x' : Pt) (σ : Pt → Pt) (s : List Pt)
    (h : ∀ v, fat M' x' v = fat M x (σ v)) : wt M' x' s = wt M x (s.map σ) := by
  induction s with
  | nil => simp [wt_nil]
  | cons v s ih => rw [List.map_cons, wt_cons, wt_cons, h v, ih]

theorem getD_map' {α β} (f : α → β) (l : List α) (n : Nat) (d : α) :
    (l.map f).getD n (f d) = f (l.getD n d) := by
  induction l generalizing n with
  | nil => simp
  | cons a l ih => cases n with
      | zero => simp
      | succ n => simp

theorem tsum_zero (tbl : List (List Pt)) (M : Field) (X : Pt → List Rat) (x : Pt) (f : Gram → Rat)
    (h : ∀ s ∈ tbl, wt M x s = 0) : tsum tbl M X x f = 0 := by
  unfold tsum
  rw [list_sum_map_congr _ _ (fun _ => (0 : Rat)) (fun s hs => by rw [h s hs]; ring)]
  simp

theorem tsum_congr (tbl : List (List Pt)) (M M' : Field) (X X' : Pt → List Rat) (x x' : Pt) (f f' : Gram → Rat)
    (c : Rat) (hw : ∀ s ∈ tbl, wt M' x' s = wt M x s)
    (hf : ∀ s ∈ tbl, f' (gramAt X' x' s) = c * f (gramAt X x s)) :
    tsum tbl M' X' x' f' = c * tsum tbl M X x f := by
  unfold tsum
  rw [← list_sum_map_mul_left]
  exact list_sum_map_congr _ _ _ (fun s hs => by rw [hw s hs, hf s hs]; ring)

/-- a relabelling `σ` of the cube corners that maps the table to a permutation of
    itself and under which weights and Gram entries correspond -/
theorem tsum_perm (tbl : List (List Pt)) (M M' : Field) (X X' : Pt → List Rat) (x x' : Pt) (f : Gram → Rat)
    (σ : Pt → Pt) (hσ0 : σ (0, 0, 0) = (0, 0, 0)) (hp : (tbl.map (List.map σ)).Perm tbl)
    (hM : ∀ v, fat M' x' v = fat M x (σ v)) (hX : ∀ v, X' (padd x' v) = X (padd x (σ v))) :
    tsum tbl M' X' x' f = tsum tbl M X x f := by
  unfold tsum
  have e : ∀ s, wt M' x' s * f (gramAt X' x' s) = (fun s => wt M x s * f (gramAt X x s)) (s.map σ) := by
    intro s
    beta_reduce
    rw [wt_map M M' x x' σ s hM]
    congr 2
    funext a b
    simp only [gramAt, hX]
    rw [← hσ0, getD_map', getD_map', hσ0]
  rw [list_sum_map_congr _ _ _ (fun s _ => e s)]
  have := (hp.map (fun s => wt M x s * f (gramAt X x s))).sum_eq
  rw [List.map_map] at this
  exact this


/-! ### affine coordinate fields -/

/-- one coordinate component of an affine field: offset `b` and steps `u, v, w`
    along the three array axes -/
structure Comp where
  b : Rat
  u : Rat
  v : Rat
  w : Rat

/-- the affine coordinate field with components `A` (any number `N = A.length`) -/
def affineX (A : List Comp) : Pt → List Rat :=
  fun p => A.map (fun r => r.b + (p.1 : Rat) * r.u + (p.2.1 : Rat) * r.v + (p.2.2 : Rat) * r.w)

/-- `Σ_r f(r) g(r)` over the components: entries of the Gram matrix of the step vectors -/
def S (A : List Comp) (f g : Comp → Rat) : Rat := (A.map (fun r => f r * g r)).sum

theorem dot_affine (A : List Comp) (p q : Pt) :
    dotv (affineX A p) (affineX A q)
      = S A Comp.b Comp.b + ((p.1 : Rat) + q.1) * S A Comp.b Comp.u + ((p.2.1 : Rat) + q.2.1) * S A Comp.b Comp.v
        + ((p.2.2 : Rat) + q.2.2) * S A Comp.b Comp.w + (p.1 : Rat) * q.1 * S A Comp.u Comp.u
        + ((p.1 : Rat) * q.2.1 + p.2.1 * q.1) * S A Comp.u Comp.v
        + ((p.1 : Rat) * q.2.2 + p.2.2 * q.1) * S A Comp.u Comp.w + (p.2.1 : Rat) * q.2.1 * S A Comp.v Comp.v
        + ((p.2.1 : Rat) * q.2.2 + p.2.2 * q.2.1) * S A Comp.v Comp.w + (p.2.2 : Rat) * q.2.2 * S A Comp.w Comp.w := by
  simp only [dotv, affineX, dot_map_map, S]
  induction A with
  | nil => simp
  | cons r A ih => simp only [List.map_cons, List.sum_cons, ih]; ring

/-- Gram determinant of the three step vectors (`= det²` for `N = 3`) -/
def gram3 (A : List Comp) : Rat :=
  let uu := S A Comp.u Comp.u; let uv := S A Comp.u Comp.v; let uw := S A Comp.u Comp.w
  let vv := S A Comp.v Comp.v; let vw := S A Comp.v Comp.w; let ww := S A Comp.w Comp.w
  uu * (vv * ww - vw * vw) - uv * (uv * ww - vw * uw) + uw * (uv * vw - vv * uw)

/-- Gram determinant of the first two step vectors -/
def gram2 (A : List Comp) : Rat :=
  S A Comp.u Comp.u * S A Comp.v Comp.v - S A Comp.u Comp.v * S A Comp.u Comp.v

theorem sumL_wt (tbl : List (List Pt)) (M : Field) (x : Pt) :
    (tbl.map (fun s => wt M x s)).sum = ((contrib tbl M x : Int) : Rat) := by
  unfold contrib wt
  induction tbl with
  | nil => simp
  | cons s t ih => simp only [List.map_cons, List.sum_cons, ih, Int.cast_add]

/-- a table sum whose per-simplex value is a constant `c` -/
theorem tsum_const (tbl : List (List Pt)) (M : Field) (X : Pt → List Rat) (x : Pt) (f : Gram → Rat) (c : Rat)
    (h : ∀ s ∈ tbl, f (gramAt X x s) = c) : tsum tbl M X x f = ((contrib tbl M x : Int) : Rat) * c := by
  unfold tsum
  rw [list_sum_map_congr _ _ (fun s => c * wt M x s) (fun s hs => by rw [h s hs]; ring),
    list_sum_map_mul_left, sumL_wt]; ring

end NipyVerif.C15
