/-
C16 (part K) — the kernels *as the source text says now*: programs assembled from the definitions that
`harness/props/c16_kern.py` regenerates from the C text (`Gen/C16Kern.lean`).  They are run by the driver
(line kinds `kbasis kmirror kbound kneigh kround ksample kquant ksum kssd ksad kmedian kprng`) against the re-compiled C, and
`Props/C16K.lean` proves them equal to the hand-written model the other C16 theorems are about.
-/
import NipyVerif.Model.C16
import NipyVerif.Gen.C16Kern
namespace NipyVerif.C16
open Kern

/-- `quantile()` front end as the text says: refusal, single element, then the order statistics picked with the
    translated index / weight expressions from the ascending rearrangement -/
def quantileK (x : List Rat) (r : Rat) (interp : Bool) : Option Q :=
  let size : Int := (x.length : Nat)
  if Quantile.refuse r then none
  else if x.length = 0 then none
  else if Quantile.single size then some (.val (nth x 0))
  else
    let s := sortLe x
    if !interp then
      if Quantile.noInterpInf r size then some .posInf
      else some (.val (nth s (Quantile.pNoInterp r size).toNat))
    else
      let p := (Quantile.pInterp r size).toNat
      if Quantile.interpSingle r size then some (.val (nth s p))
      else some (.val (Quantile.interpValue r size (nth s p) (nth s (p + 1))))

/-- `cubic_spline_sample1d` as the text says: boundary conditions with `w = 1`, the neighbour window, then the
    accumulation `s += coef[mirror(xx)] * basis(x - xx)` for `xx = nx .. px`, and `w*s` -/
def sample1dK (mode : Nat) (coef : Array Rat) (x : Rat) : Rat :=
  let ddim : Int := ((coef.size - 1 : Nat) : Int)
  match Spline.applyBoundaryC (mode : Int) ddim x Spline.sampleW0 with
  | none => 0
  | some (x', w) =>
    match Spline.neighborsC x' ddim with
    | none => 0
    | some (nx, px) =>
      Spline.sampleResult w ((List.range (px - nx + 1).toNat).foldl (fun (s : Rat) (t : Nat) =>
        Spline.sampleAcc s (coefAt coef (Spline.mirroredPositionC (nx + (t : Int)) ddim).toNat)
          (Spline.basisC (Spline.sampleTapArg x' (nx + (t : Int))))) Spline.sampleS0)

/-- `fff_vector_sum` as the text says: the accumulation loop over the logical elements -/
def vecSumK (x : List Rat) : Rat := x.foldl Fff.sum_step Fff.sum_init

/-- `fff_vector_ssd(x, &m, fixed_offset)` as the text says (König's formula): `(ssd, *m after the call)` -/
def vecSsdK (x : List Rat) (m : Rat) (fixed : Bool) : Rat × Rat :=
  let st := x.foldl (fun (st : Rat × Rat) (v : Rat) => (Fff.ssd_step_sum st.1 v, Fff.ssd_step_ssd st.2 v))
    (Fff.ssd_init, Fff.ssd_init)
  let n : Rat := ((x.length : Nat) : Rat)
  let sum := Fff.ssd_mean st.1 n
  if fixed then (Fff.ssd_fixed st.2 n m sum, m) else (Fff.ssd_free st.2 n sum, Fff.ssd_free_m sum)

/-- `fff_vector_sad(x, m)` as the text says -/
def vecSadK (x : List Rat) (m : Rat) : Rat := x.foldl (fun (s : Rat) (v : Rat) => Fff.sad_step s v m) Fff.sad_init

/-- `fff_vector_median` as the text says: odd size → `_fff_pth_element(size>>1)`, even size →
    `_fff_pth_interval((size>>1)-1)` and the half sum; returns the value and the rearranged buffer -/
def vecMedianK (x : List Rat) : Rat × List Rat :=
  let size : Int := ((x.length : Nat) : Int)
  if Fff.median_odd size then pthElement x (Fff.median_p_odd size).toNat
  else
    let e := pthInterval x (Fff.median_p_even size).toNat
    (Fff.median_even_value e.1 e.2.1, e.2.2)

structure PrngState where
  ix : Int
  iy : Int
  iz : Int
  it : Int
deriving DecidableEq, Repr

/-- one call of `prng_double`: the new state and the value returned -/
def prngDouble (s : PrngState) : PrngState × Rat :=
  let s' : PrngState := ⟨Prng.step_ix s.ix, Prng.step_iy s.iy, Prng.step_iz s.iz, Prng.step_it s.it⟩
  (s', Prng.out (Prng.W s'.ix s'.iy s'.iz s'.it))

def prngRun : Nat → PrngState → PrngState × List Rat
  | 0, s => (s, [])
  | n + 1, s =>
      let r := prngDouble s
      let rest := prngRun n r.1
      (rest.1, r.2 :: rest.2)

def runK : Toks → Option String
  | "kbasis" :: rest =>
      match runP (pList pRat) rest with
      | some l => some (fmtRats (l.map Spline.basisC))
      | none => some "bad-op"
  | "kmirror" :: rest =>
      match runP (do let d ← pNat; let l ← pList pInt; pure (d, l)) rest with
      | some (d, l) => some (fmtInts (l.map (fun x => Spline.mirroredPositionC x (d : Int))))
      | none => some "bad-op"
  | "kbound" :: rest =>
      match runP (do let m ← pNat; let d ← pNat; let x ← pRat; pure (m, d, x)) rest with
      | some (m, d, x) =>
          if m > 2 then some "bad-op" else
          match Spline.applyBoundaryC (m : Int) (d : Int) x Spline.sampleW0 with
          | none => some "none"
          | some (x', w) => some (fmtRats [x', w])
      | none => some "bad-op"
  | "kneigh" :: rest =>
      match runP (do let d ← pNat; let x ← pRat; pure (d, x)) rest with
      | some (d, x) =>
          match Spline.neighborsC x (d : Int) with
          | none => some "none"
          | some (nx, px) => some (fmtInts [nx, px])
      | none => some "bad-op"
  | "kround" :: rest =>
      match runP (pList pRat) rest with
      | some l => some (fmtInts (l.map Fff.FFF_ROUND))
      | none => some "bad-op"
  | "ksample" :: rest =>
      match runP (do let m ← pNat; let c ← pList pRat; let xs ← pList pRat; pure (m, c, xs)) rest with
      | some (m, c, xs) =>
          if m > 2 ∨ c.length = 0 then some "bad-op" else
          let a := c.toArray
          some (fmtRats (xs.map (sample1dK m a)))
      | none => some "bad-op"
  | "kquant" :: rest =>
      match runP (do let r ← pRat; let i ← pBool; let x ← pList pRat; pure (r, i, x)) rest with
      | some (r, i, x) => some (fmtQ (quantileK x r i))
      | none => some "bad-op"
  | "ksum" :: rest =>
      match runP (pList pRat) rest with
      | some x => some (fmtRat (vecSumK x))
      | none => some "bad-op"
  | "kssd" :: rest =>
      match runP (do let m ← pRat; let f ← pBool; let x ← pList pRat; pure (m, f, x)) rest with
      | some (m, f, x) => if x.length = 0 then some "bad-op" else
          let r := vecSsdK x m f
          some (fmtRats [r.1, r.2])
      | none => some "bad-op"
  | "ksad" :: rest =>
      match runP (do let m ← pRat; let x ← pList pRat; pure (m, x)) rest with
      | some (m, x) => some (fmtRat (vecSadK x m))
      | none => some "bad-op"
  | "kmedian" :: rest =>
      match runP (pList pRat) rest with
      | some x => if x.length = 0 then some "bad-op" else
          let r := vecMedianK x
          some (fmtRat r.1 ++ " | " ++ fmtRats r.2)
      | none => some "bad-op"
  | "kprng" :: rest =>
      match runP (do let s ← pMany pInt 4; let n ← pNat; pure (s, n)) rest with
      | some (s, n) =>
          let r := prngRun n ⟨s.getD 0 0, s.getD 1 0, s.getD 2 0, s.getD 3 0⟩
          some (fmtInts [r.1.ix, r.1.iy, r.1.iz, r.1.it] ++ " | " ++ fmtRats r.2)
      | none => some "bad-op"
  | _ => none

end NipyVerif.C16
