/-
C13 (part B) — Bayesian mixtures of nipy/algorithms/clustering/bgmm.py and imm.py:

  * the conjugate normal–Wishart / Dirichlet update shared by `BGMM.update_weights / update_means /
    update_precisions`, `BGMM.conditional_posterior_proba` (hard labels `z`) and `VBGMM._Mstep`
    (soft memberships), in exact rationals;
  * the exponent of the variational pseudo-likelihood `VBGMM._Estep` (digamma terms and
    log-determinants are parameters);
  * `IMM.update_weights`;
  * the parameter caches `_detp`, `_dets`, `_inv_prior_scale` as a state machine whose transitions
    are *generated from the source text* (`NipyVerif.Gen.C13.methods`).

Random draws (Dirichlet / Wishart / normal) are outside the model: the model states the parameters of
the conditional posterior the draw is taken from (the harness captures exactly those arguments).
-/
import NipyVerif.Model.C13
import NipyVerif.Gen.C13Tables
namespace NipyVerif.C13

/-! ### Conjugate update of one class -/

/-- membership column of class `k` under a hard labelling `z` (`z == k`) -/
def hardResp (z : Nat → Nat) (k : Nat) : Nat → Rat := fun i => if z i = k then 1 else 0

/-- `rpop = pop + (pop == 0)` (`update_precisions`, `conditional_posterior_proba`) -/
def rpopHard (p : Rat) : Rat := if p = 0 then 1 else p

/-- `np.maximum(pop, tiny)` (`VBGMM._Mstep`) -/
def rpopSoft (tiny p : Rat) : Rat := max p tiny

/-- `empmeans = Σ_i r_i x_i / rpop` -/
def empMeanR (rp : Rat) (n : Nat) (r : Nat → Rat) (x : Nat → Nat → Rat) (j : Nat) : Rat :=
  sx n r x j / rp

/-- scatter `dxᵀ (r · dx)`, `dx = x − empmeans` -/
def scatterR (rp : Rat) (n : Nat) (r : Nat → Rat) (x : Nat → Nat → Rat) (j l : Nat) : Rat :=
  sumTo n (fun i => (x i j - empMeanR rp n r x j) * (r i * (x i l - empMeanR rp n r x l)))

/-- inverse scale of the Wishart posterior:
    `covariance = inv_prior_scale + scatter + dm dmᵀ · prior_shrinkage·pop/(prior_shrinkage+pop)` -/
def conjCov (rp : Rat) (n : Nat) (r : Nat → Rat) (x : Nat → Nat → Rat) (pm : Nat → Rat)
    (ips : Nat → Nat → Rat) (ps : Rat) (j l : Nat) : Rat :=
  ips j l + scatterR rp n r x j l
    + (empMeanR rp n r x j - pm j) * (empMeanR rp n r x l - pm l) * apms n r ps

/-- the same with an arbitrary weight `w` of the mean-shift term (to state what goes wrong with a
    weight that does not vanish on empty classes) -/
def conjCovW (w : Rat) (rp : Rat) (n : Nat) (r : Nat → Rat) (x : Nat → Nat → Rat) (pm : Nat → Rat)
    (ips : Nat → Nat → Rat) (j l : Nat) : Rat :=
  ips j l + scatterR rp n r x j l + (empMeanR rp n r x j - pm j) * (empMeanR rp n r x l - pm l) * w

/-- posterior shrinkage `prior_shrinkage + pop` -/
def conjShrink (n : Nat) (r : Nat → Rat) (ps : Rat) : Rat := ps + pop n r

/-- Dirichlet parameter `pop + prior_weights` -/
def conjWeight (n : Nat) (r : Nat → Rat) (pw : Rat) : Rat := pop n r + pw

/-- posterior dof: `prior_dof + pop + 1` (Gibbs) / `prior_dof + pop` (VB) -/
def conjDof (hard : Bool) (n : Nat) (r : Nat → Rat) (pdof : Rat) : Rat :=
  pdof + pop n r + (if hard then 1 else 0)

/-- per-axis affine action on a prior mean -/
def affineVec (a t : Nat → Rat) (m : Nat → Rat) : Nat → Rat := fun j => a j * m j + t j

/-- per-axis rescaling of a covariance-like matrix -/
def scaleMat (a : Nat → Rat) (c : Nat → Nat → Rat) : Nat → Nat → Rat := fun j l => a j * a l * c j l

/-- per-axis rescaling of a precision-like matrix -/
def unscaleMat (a : Nat → Rat) (b : Nat → Nat → Rat) : Nat → Nat → Rat := fun j l => b j l / (a j * a l)

/-- matrix product restricted to indices `< d` -/
def matMulTo (d : Nat) (a b : Nat → Nat → Rat) : Nat → Nat → Rat :=
  fun i l => sumTo d (fun j => a i j * b j l)

/-- `b` is a right inverse of `c` on indices `< d` -/
def IsInvTo (d : Nat) (c b : Nat → Nat → Rat) : Prop :=
  ∀ i, i < d → ∀ l, l < d → matMulTo d c b i l = if i = l then 1 else 0

/-! ### `VBGMM._Estep` -/

/-- exponent of the variational pseudo-likelihood of one component:
    `w0 = c0 − dim·0.5/shrinkage`, `q = (m−x)ᵀ (dof·scale) (m−x)`, `w = w0 − q/2 − 0.5·log(2π)·dim`;
    `c0` collects the digamma and log-determinant terms (parameter). -/
def logLikeVB (d : Nat) (c0 log2pi shrink dof : Rat) (scale : Nat → Nat → Rat) (m x : Nat → Rat) : Rat :=
  c0 - (d : Rat) * (1 / 2) / shrink
    - quadA d (fun i j => dof * scale i j) (fun j => m j - x j) / 2 - (1 / 2) * log2pi * (d : Rat)

/-! ### `IMM.update_weights` -/

/-- `pop = hstack((pop, 0)); weights = pop + alpha; weights /= weights.sum()` -/
def immWeight (K : Nat) (alpha : Rat) (pops : Nat → Rat) (k : Nat) : Rat :=
  ((if k < K then pops k else 0) + alpha)
    / sumTo (K + 1) (fun k' => (if k' < K then pops k' else 0) + alpha)

/-! ### Parameter caches as a state machine over the generated method table -/

/-- the cached quantities of a `BGMM`: `_detp` (determinants of `precisions`), `_dets` and
    `_inv_prior_scale` (determinants / inverses of `prior_scale`).  `none` = attribute not set. -/
structure Cache (P D : Type) where
  prec : Option P
  detp : Option D
  pscale : Option P
  dets : Option D
  ips : Option P

/-- an object before `__init__` -/
def Cache.blank {P D : Type} : Cache P D := ⟨none, none, none, none, none⟩

/-- effect of one API call: the method table says which parameter is (re)written — with the new
    value `newPrec` / `newScale` — and whether the caches are recomputed afterwards. -/
def stepCache {P D : Type} (det : P → D) (inv : P → P) (m : Gen.C13.Meth) (newPrec newScale : P)
    (s : Cache P D) : Cache P D :=
  let prec := if m.wPrec then some newPrec else s.prec
  let detp := if m.rDetp then prec.map det else s.detp
  let pscale := if m.wPScale then some newScale else s.pscale
  let dets := if m.rDets then pscale.map det else s.dets
  let ips := if m.rIps then pscale.map inv else s.ips
  ⟨prec, detp, pscale, dets, ips⟩

/-- an operation history on one object -/
def runCache {P D : Type} (det : P → D) (inv : P → P) :
    Cache P D → List (Gen.C13.Meth × P × P) → Cache P D
  | s, [] => s
  | s, (m, p, q) :: rest => runCache det inv (stepCache det inv m p q s) rest

def detpCoherent {P D : Type} (det : P → D) (s : Cache P D) : Prop := s.detp = s.prec.map det

def priorCoherent {P D : Type} (det : P → D) (inv : P → P) (s : Cache P D) : Prop :=
  s.dets = s.pscale.map det ∧ s.ips = s.pscale.map inv

/-- `probability_under_prior` / `conditional_posterior_proba` as the code evaluates them: a function `F`
    of the parameters *and* of the caches -/
def likeCached {P D R : Type} (F : Option P → Option D → Option P → Option D → Option P → R)
    (s : Cache P D) : R := F s.prec s.detp s.pscale s.dets s.ips

/-- … and as a function of the current parameters alone -/
def likeSpec {P D R : Type} (det : P → D) (inv : P → P)
    (F : Option P → Option D → Option P → Option D → Option P → R) (s : Cache P D) : R :=
  F s.prec (s.prec.map det) s.pscale (s.pscale.map det) (s.pscale.map inv)

/-- the write ⇒ refresh discipline of the table, as Boolean predicates -/
def detpDiscipline (m : Gen.C13.Meth) : Bool := !m.wPrec || m.rDetp
def priorDiscipline (m : Gen.C13.Meth) : Bool := !m.core || !m.wPScale || (m.rDets && m.rIps)

/-! ### Line protocol -/

structure Prior where
  pm : Array Rat
  ips : Array Rat
  ps : Rat
  pdof : Rat
  pw : Rat
deriving Inhabited

def pPrior (d : Nat) : P Prior := do
  let pm ← pMany pRat d; let ips ← pMany pRat (d * d)
  let ps ← pRat; let pdof ← pRat; let pw ← pRat
  pure ⟨pm.toArray, ips.toArray, ps, pdof, pw⟩

def runConj (hard : Bool) (n d K : Nat) (tiny : Rat) (priors : List Prior) (xm : List (List Rat))
    (z : List Nat) (likem : List (List Rat)) : String :=
  let x := ofMat (toMat xm)
  let za := z.toArray
  let like := ofMat (toMat likem)
  let ks := List.range K
  let js := List.range d
  let pa := priors.toArray
  let col (k : Nat) : Nat → Rat :=
    if hard then hardResp (fun i => za.getD i K) k
    else ofArr ((List.range n).map (fun i => like i k)).toArray
  let pr (k : Nat) : Prior := pa.getD k default
  let pops := ks.map (fun k => pop n (col k))
  let wps := ks.map (fun k => conjWeight n (col k) (pr k).pw)
  let dofs := ks.map (fun k => conjDof hard n (col k) (pr k).pdof)
  let shr := ks.map (fun k => conjShrink n (col k) (pr k).ps)
  let means := ks.flatMap (fun k => js.map (mstepMean n (col k) x (ofArr (pr k).pm) (pr k).ps))
  let covs := ks.flatMap (fun k =>
    let r := col k
    let p := pop n r
    let rp := if hard then rpopHard p else rpopSoft tiny p
    let ipsk : Nat → Nat → Rat := fun j l => (pr k).ips.getD (j * d + l) 0
    js.flatMap (fun j => js.map (fun l => conjCov rp n r x (ofArr (pr k).pm) ipsk (pr k).ps j l)))
  sections [pops, wps, dofs, shr, means, covs]

structure VBComp where
  c0 : Rat
  shrink : Rat
  dof : Rat
  mean : Array Rat
  scale : Array Rat

def pVBComp (d : Nat) : P VBComp := do
  let c0 ← pRat; let s ← pRat; let f ← pRat
  let m ← pMany pRat d; let sc ← pMany pRat (d * d)
  pure ⟨c0, s, f, m.toArray, sc.toArray⟩

def runVBLL (d : Nat) (log2pi : Rat) (comps : List VBComp) (xs : List (List Rat)) : String :=
  fmtRats (xs.flatMap (fun xr =>
    let x := ofArr xr.toArray
    comps.map (fun c =>
      logLikeVB d c.c0 log2pi c.shrink c.dof (fun i j => c.scale.getD (i * d + j) 0) (ofArr c.mean) x)))

def findMeth (cls name : String) : Option Gen.C13.Meth :=
  Gen.C13.methods.find? (fun m => m.cls == cls && m.name == name)

/-- symbolic replay of a history: parameter values are version numbers (every write is a fresh value),
    `det = inv = id`; output per call: `<detp coherent><prior caches coherent>` -/
def runHist (cls : String) (names : List String) : String :=
  let rec go (s : Cache Nat Nat) (step : Nat) : List String → Option (List String)
    | [] => some []
    | nm :: rest =>
      match findMeth cls nm with
      | none => none
      | some m =>
        let s' := stepCache id id m (2 * step + 1) (2 * step + 2) s
        let f1 := if s'.detp = s'.prec.map id then "1" else "0"
        let f2 := if s'.dets = s'.pscale.map id ∧ s'.ips = s'.pscale.map id then "1" else "0"
        (go s' (step + 1) rest).map (fun t => (f1 ++ f2) :: t)
  match go Cache.blank 0 names with
  | some l => " ".intercalate l
  | none => "bad-op"

def runB : Toks → String
  | "conj" :: mode :: rest =>
      if mode ∉ ["hard", "soft"] then "bad-op" else
      match runP (do
          let n ← pNat; let d ← pNat; let k ← pNat; let t ← pRat
          let pri ← pMany (pPrior d) k
          let x ← pMany (pMany pRat d) n
          let z ← if mode = "hard" then pMany pNat n else pure []
          let l ← if mode = "hard" then pure [] else pMany (pMany pRat k) n
          pure (n, d, k, t, pri, x, z, l)) rest with
      | some (n, d, k, t, pri, x, z, l) =>
          if d = 0 ∨ k = 0 then "bad-op" else runConj (mode = "hard") n d k t pri x z l
      | none => "bad-op"
  | "vbll" :: rest =>
      match runP (do
          let d ← pNat; let l2 ← pRat; let k ← pNat
          let comps ← pMany (pVBComp d) k
          let n ← pNat; let xs ← pMany (pMany pRat d) n
          pure (d, l2, comps, xs)) rest with
      | some (d, l2, comps, xs) => runVBLL d l2 comps xs
      | none => "bad-op"
  | "immw" :: rest =>
      match runP (do let k ← pNat; let a ← pRat; let p ← pMany pRat k; pure (k, a, p)) rest with
      | some (k, a, p) => fmtRats ((List.range (k + 1)).map (immWeight k a (ofArr p.toArray)))
      | none => "bad-op"
  | "hist" :: cls :: names => runHist cls names
  | _ => "bad-op"

end NipyVerif.C13
