/-
C05 (wave 3) — histories on one model object (`ARModel.fit` / `iterative_fit` / assignment of
`rho`, several fits with one object), the acceptance test of `GLSModel.__init__`, `isestimable`,
the getters of the fMRI `GeneralLinearModel` (`get_beta(column_index)`, `get_mse`, `get_logL`),
`nipy.labs.glm.glm.contrast` on N-d blocks (the `rollaxis` / `resize` / `.T` / `reshape`
bookkeeping as written) and the refined Kalman filter `fff_glm_RKF_*` of
`lib/fff/fff_glm_kalman.c` as the C recursion is written.  `runW3` answers the new line kinds
and falls back to `runAll`.
-/
import NipyVerif.Model.C05D
namespace NipyVerif.C05

/-! ## histories on one `ARModel` object -/

/-- what a caller does with one `ARModel(design, rho)` object -/
inductive HStep (n : Nat) where
  /-- `results.append(m.fit(Y))` -/
  | fit (v : Nat) (Y : Mat n v)
  /-- `m.iterative_fit(y, niter)` -/
  | iter (y : Vec n) (niter : Nat)
  /-- `m.rho = rho` (as in the class docstring, before `iterative_fit`) -/
  | setRho (rho : List Rat)

/-- state of the object plus everything the caller holds -/
structure HState (n p : Nat) where
  /-- `m.rho` -/
  rho : List Rat
  /-- `false` once an iterate was undefined (zero denominator / singular Toeplitz matrix) -/
  defined : Bool
  /-- the results objects returned so far, in order -/
  results : List (Σ v, Option (Fit n p v))
  /-- `m.rho` as observed after each `iterative_fit` -/
  rhos : List (List Rat)

/-- one step.  `fit` whitens with the *current* coefficients and does not touch the object;
    `iterative_fit` starts from the current coefficients (`self.initialize(self.design)` first)
    and leaves its last Yule–Walker estimate in `m.rho` (and the design re-whitened with it). -/
def hStep {n p : Nat} (X : Mat n p) (o : Nat) (s : HState n p) : HStep n → HState n p
  | .fit v Y => { s with results := s.results ++ [⟨v, fit (.ar s.rho) X Y⟩] }
  | .iter y k =>
      match iterFit X y o k s.rho with
      | none => { s with defined := false }
      | some l => { s with rho := l.getLastD s.rho, rhos := s.rhos ++ [l.getLastD s.rho] }
  | .setRho r => { s with rho := r }

def runHist {n p : Nat} (X : Mat n p) (o : Nat) (steps : List (HStep n)) (s : HState n p) : HState n p :=
  steps.foldl (hStep X o) s

def hInit {n p : Nat} (rho : List Rat) : HState n p := { rho := rho, defined := true, results := [], rhos := [] }

/-- parse `iter niter y…` | `set k r…` -/
def pHStep (n : Nat) : P (HStep n) := do
  let k ← pTok
  if k = "iter" then do
    let it ← pNat
    let y ← pVecD n
    pure (.iter y it)
  else if k = "set" then do
    let r ← pList pRat
    pure (.setRho r)
  else failure

/-! ## `GLSModel.__init__`: which covariance matrices are accepted -/

/-- `zᵀ S z` -/
def quad {n : Nat} (S : Mat n n) (z : Vec n) : Rat := vdot z (mvec S z)

/-- symmetric elimination on `[S | I]` without pivoting: stops at the first pivot `≤ 0` (returns its
    index).  Nothing is proved about it: `glsVerdict` checks what it leads to. -/
def ldlRun (n : Nat) (a : Array (Array Rat)) : Array (Array Rat) × Option Nat := Id.run do
  let mut m : Array (Array Rat) := (Array.range n).map fun i =>
    (a.getD i #[]) ++ (Array.range n).map (fun j => if i = j then (1 : Rat) else 0)
  for k in [0:n] do
    let rowK := m.getD k #[]
    let d := rowK.getD k 0
    if d ≤ 0 then return (m, some k)
    for r in [k + 1:n] do
      let f := (m.getD r #[]).getD k 0 / d
      if f ≠ 0 then
        m := m.setIfInBounds r (Array.zipWith (fun x y => x - f * y) (m.getD r #[]) rowK)
  return (m, none)

inductive GlsVerdict where
  /-- positive definite (certified): `npl.cholesky(npl.pinv(sigma))` succeeds -/
  | ok
  /-- a vector with `zᵀ S z < 0` was found: the inverse is not positive definite, `cholesky` raises -/
  | indefinite
  /-- a non-zero vector with `zᵀ S z = 0` was found: `pinv(sigma)` has a zero pivot up to rounding;
      NumPy may raise or go on with a rounding-level pivot -/
  | semidefinite
  | uncertified
deriving DecidableEq

/-- the congruence certificate: `E` invertible (certified), `E S Eᵀ` diagonal with positive entries -/
def pdCert {n : Nat} (S E : Mat n n) : Bool :=
  let DA := toArr2 (mmul E (mmul S (tr E)))
  let D : Mat n n := ofArr2 DA
  (inv? E).isSome &&
    (List.finRange n).all fun i => (List.finRange n).all fun j =>
      if i = j then decide (0 < D i j) else decide (D i j = 0)

def glsVerdict {n : Nat} (S : Mat n n) : GlsVerdict :=
  let (m, stop) := ldlRun n (toArr2 S)
  match stop with
  | some k =>
      let zA : Array Rat := (Array.range n).map fun j => (m.getD k #[]).getD (n + j) 0
      let z : Vec n := fun j => zA.getD j.1 0
      let q := quad S z
      if q < 0 then .indefinite
      else if q = 0 ∧ (List.finRange n).any (fun j => decide (z j ≠ 0)) then .semidefinite
      else .uncertified
  | none =>
      let E : Mat n n := fun i j => (m.getD i.1 #[]).getD (n + j.1) 0
      let EA := toArr2 E
      if pdCert S (ofArr2 EA) then .ok else .uncertified

def GlsVerdict.fmt : GlsVerdict → String
  | .ok => "ok"
  | .indefinite => "error:linalgError"
  | .semidefinite => "semidefinite"
  | .uncertified => "uncertified"

/-- generalised least squares written with the exact inverse covariance (no square root):
    `beta = (Xᵀ S⁻¹ X)⁻¹ Xᵀ S⁻¹ Y`, `SSE_j = (y_j − X b_j)ᵀ S⁻¹ (y_j − X b_j)`, `cov = (Xᵀ S⁻¹ X)⁻¹` -/
def glsExact {n p v : Nat} (X : Mat n p) (Y : Mat n v) (S : Mat n n) : Option (Mat p v × Vec v × Mat p p) :=
  match inv? S with
  | none => none
  | some Si =>
      let SiXA := toArr2 (mmul Si X)
      let SiX : Mat n p := ofArr2 SiXA
      let AA := toArr2 (mmul (tr X) SiX)
      match inv? (ofArr2 AA) with
      | none => none
      | some G =>
          let bA := toArr2 (mmul G (mmul (tr SiX) Y))
          let b : Mat p v := ofArr2 bA
          let rA := toArr2 (msub Y (mmul X b))
          let r : Mat n v := ofArr2 rA
          let SirA := toArr2 (mmul Si r)
          let Sir : Mat n v := ofArr2 SirA
          some (b, fun j => fsum fun i => r i j * Sir i j, G)

/-! ## `isestimable` -/

/-- `np.vstack([C, D])` -/
def vstack {q n p : Nat} (C : Mat q p) (D : Mat n p) : Mat (q + n) p :=
  fun i j => if h : i.1 < q then C ⟨i.1, h⟩ j else D ⟨i.1 - q, by omega⟩ j

/-- `matrix_rank(vstack([C, D])) == matrix_rank(D)` with certified ranks -/
def isEstimable {q n p : Nat} (C : Mat q p) (D : Mat n p) : Option Bool :=
  match rankCert (vstack C D), rankCert D with
  | some a, some b => some (a == b)
  | _, _ => none

/-! ## `ar_bias_correct` with a results object that carries its own `scale` -/

/-- `ar_bias_correct(results, order, invM)`: `cov[0]` is `results.scale * results.df_resid` when the
    results carry a `scale`, the plain sum of squares otherwise; the lagged products come from
    `results.resid` in both cases -/
def arBiasCorrectG {n v o : Nat} (invM : Mat (o + 1) (o + 1)) (c0 : Vec v) (r : Mat n v) : Fin o → Vec v :=
  fun a j =>
    let cv : Fin (o + 1) → Rat := fun b => if b.1 = 0 then c0 j else lagSum r b.1 j
    (fsum fun b : Fin (o + 1) => invM ⟨a.1 + 1, by omega⟩ b * cv b) *
      posRecipr (fsum fun b : Fin (o + 1) => invM ⟨0, by omega⟩ b * cv b)

/-! ## getters of the fMRI `GeneralLinearModel` after `fit(model='ar1')` -/

/-- `get_beta(column_index)`: per bin `results_[l].theta[column_index]`, scattered to the voxels of the bin -/
def glmGetBeta {n p v k : Nat} (steps : Nat) (X : Mat n p) (Y : Mat n v) (lab : Fin v → Int)
    (cols : Fin k → Fin p) : Option (Mat k v) :=
  let tab : Array (Option (Array Rat)) := Array.ofFn fun j : Fin v =>
    (glmVox steps X Y lab j).map fun ⟨_, f, c⟩ => Array.ofFn fun a : Fin k => f.beta (cols a) c
  if tab.all Option.isSome then some fun a j => ((tab.getD j.1 none).getD #[]).getD a.1 0 else none

/-- `get_mse()` and the plugged-in variance `SSE / n` of `get_logL()`
    (`logL = -n/2 · log(2π · SSE/n) - n/2`; the logarithm is applied by the harness) -/
def glmGetMseSig {n p v : Nat} (steps : Nat) (X : Mat n p) (Y : Mat n v) (lab : Fin v → Int) :
    Option (Vec v × Vec v) :=
  let tab : Array (Option (Rat × Rat)) := Array.ofFn fun j : Fin v =>
    (glmVox steps X Y lab j).map fun ⟨_, f, c⟩ => (mse f c, f.sse c / (n : Rat))
  if tab.all Option.isSome then
    some (fun j => ((tab.getD j.1 none).getD (0, 0)).1, fun j => ((tab.getD j.1 none).getD (0, 0)).2)
  else none

/-! ## `nipy.labs.glm.glm` on N-d blocks: voxel `(i, j)` ↔ flat column `i * B + j`, contrasts -/

/-- C-order flat index of voxel `(i, j)` of an `A × B` grid -/
def flatIdx {A B : Nat} (i : Fin A) (j : Fin B) : Fin (A * B) :=
  ⟨i.1 * B + j.1, by
    have h1 : i.1 * B + j.1 < i.1 * B + B := Nat.add_lt_add_left j.2 _
    have h2 : i.1 * B + B = (i.1 + 1) * B := by rw [Nat.add_mul, Nat.one_mul]
    have h3 : (i.1 + 1) * B ≤ A * B := Nat.mul_le_mul_right _ i.2
    omega⟩

theorem pos_of_fin_mul {A B : Nat} (c : Fin (A * B)) : 0 < B := by
  rcases Nat.eq_zero_or_pos B with h | h
  · subst h; exact absurd c.2 (by simp)
  · exact h

def unflatI {A B : Nat} (c : Fin (A * B)) : Fin A :=
  ⟨c.1 / B, by
    have hB : 0 < B := pos_of_fin_mul c
    exact (Nat.div_lt_iff_lt_mul hB).mpr c.2⟩

def unflatJ {A B : Nat} (c : Fin (A * B)) : Fin B :=
  ⟨c.1 % B, by
    have hB : 0 < B := pos_of_fin_mul c
    exact Nat.mod_lt _ hB⟩

/-- the same fibres as a 2-D block, one column per voxel in C order (`Y.reshape(n, A * B)` after the
    time axis was moved to the front) -/
def flatBlock {n A B : Nat} (fib : Fin A → Fin B → Vec n) : Mat n (A * B) :=
  fun t c => fib (unflatI c) (unflatJ c) t

/-- what `glm.fit` stores, per voxel of the grid: `beta`, `s2`, and the constant `nvbeta` -/
structure NdFit (p A B : Nat) where
  beta : Fin A → Fin B → Vec p
  s2 : Fin A → Fin B → Rat
  nvbeta : Mat p p

/-- `con = np.inner(c, np.rollaxis(beta, axis, ndims))` -/
def ndEffect {p A B q : Nat} (f : NdFit p A B) (C : Mat q p) : Fin q → Fin A → Fin B → Rat :=
  fun a i j => fsum fun k => C a k * f.beta i j k

/-- `np.dot(c, np.inner(nvbeta, c))` (`q × q`) -/
def ndM {p A B q : Nat} (f : NdFit p A B) (C : Mat q p) : Mat q q :=
  fun a b => fsum fun k => C a k * fsum fun l => f.nvbeta k l * C b l

/-- a `q × q` matrix as a flat C-order buffer, indexed by any natural number (0 outside) -/
def flatQ {q : Nat} (M : Mat q q) (g : Nat) : Rat :=
  if h : g < q * q then
    M ⟨g / q, by
        have hq : 0 < q := by
          rcases Nat.eq_zero_or_pos q with h0 | h0
          · rw [h0] at h; omega
          · exact h0
        exact (Nat.div_lt_iff_lt_mul hq).mpr h⟩
      ⟨g % q, by
        have hq : 0 < q := by
          rcases Nat.eq_zero_or_pos q with h0 | h0
          · rw [h0] at h; omega
          · exact h0
        exact Nat.mod_lt _ hq⟩
  else 0

/-- the variance of a `q`-row contrast **as the code computes it** (constant `nvbeta`):
    `vcon = np.resize(vcon, s2.shape + (q, q))` (flat index `f ↦ M.flat[f mod q²]`, shape `(A, B, q, q)`),
    `vcon.T.reshape((q, q, s2.size))` (transposed view `(q, q, B, A)` read in C order: last index
    `f' = j·A + i`), `* s2.reshape(s2.size)` (C order of `(A, B)`), `.reshape((q, q) + (A, B))`. -/
def ndVarPipeline {A B q : Nat} (M : Mat q q) (s2 : Fin A → Fin B → Rat) :
    Fin q → Fin q → Fin A → Fin B → Rat :=
  fun x y i j =>
    let f' := i.1 * B + j.1                      -- position in the final reshape
    let jT := f' / A                             -- … which the `(q, q, B, A)` view reads as `(jT, iT)`
    let iT := f' % A
    let resized := flatQ M ((((iT * B + jT) * q + y.1) * q + x.1) % (q * q))
    resized * s2 i j

/-- `F = eᵀ V⁻¹ e / q` of one voxel (`none`: singular variance) -/
def ndF {A B q : Nat} (e : Fin q → Fin A → Fin B → Rat) (V : Fin q → Fin q → Fin A → Fin B → Rat)
    (i : Fin A) (j : Fin B) : Option Rat :=
  let VA := toArr2 (fun a b => V a b i j : Mat q q)
  match inv? (ofArr2 VA) with
  | none => none
  | some iv => some ((fsum fun a => e a i j * fsum fun b => iv a b * e b i j) / (q : Rat))

/-- signed square of `e / sqrt(v)` (monotone in the t value; `none`: non-positive variance) -/
def signedSq (e v : Rat) : Option Rat := if 0 < v then some ((if 0 ≤ e then 1 else -1) * (e * e / v)) else none

/-- the smallest `t_a = e_a / sqrt(V_aa)` over the rows, as its signed square -/
def ndTmin {A B q : Nat} (e : Fin q → Fin A → Fin B → Rat) (V : Fin q → Fin q → Fin A → Fin B → Rat)
    (i : Fin A) (j : Fin B) : Option Rat :=
  let ts := (List.finRange q).map fun a => signedSq (e a i j) (V a a i j)
  if ts.all Option.isSome then
    match ts.filterMap id with
    | [] => none
    | t :: rest => some (rest.foldl min t)
  else none

/-- the labs engines on the grid of fibres (`ols`: given `pX = pinv(X)`; `kalman`: `nvbeta` is the
    covariance of the filter after the last fibre) -/
def ndFitOls {n p A B : Nat} (X : Mat n p) (pX : Mat p n) (fib : Fin A → Fin B → Vec n) : NdFit p A B :=
  let tab := fibreTab (labsFibre X pX) fib
  let nvA := toArr2 (mmul pX (tr pX))
  { beta := fun i j k => tabGet tab i.1 j.1 k.1, s2 := fun i j => tabGet tab i.1 j.1 p, nvbeta := ofArr2 nvA }

def ndFitKalman {n p A B : Nat} (X : Mat n p) (fib : Fin A → Fin B → Vec n) : NdFit p A B :=
  let tab := fibreTab (kalmanFibre X) fib
  let PA := toArr2 (if h : 0 < A ∧ 0 < B then (kfFit X (fib ⟨A - 1, by omega⟩ ⟨B - 1, by omega⟩)).P
                    else (kfInit p kfInitVar).P)
  { beta := fun i j k => tabGet tab i.1 j.1 k.1, s2 := fun i j => tabGet tab i.1 j.1 p, nvbeta := ofArr2 PA }

/-- `g.contrast(C, type)` of a fitted N-d block: `effect | variance | F | tmin²` as tensors.
    `oneD`: the contrast was a 1-D array (no leading axis on the effect).  With one row the variance is
    `(c nvbeta cᵀ).squeeze() * s2` on the squeezed grid; with several rows the pipeline above. -/
def ndContrast {p A B q : Nat} (f : NdFit p A B) (C : Mat q p) (oneD : Bool) : String :=
  let eT := toArr2 (fun (a : Fin q) (c : Fin (A * B)) => ndEffect f C a (unflatI c) (unflatJ c))
  let e : Fin q → Fin A → Fin B → Rat := fun a i j => (ofArr2 eT : Mat q (A * B)) a (flatIdx i j)
  let MA := toArr2 (ndM f C)
  let M : Mat q q := ofArr2 MA
  let opt (t : Fin A → Fin B → Option Rat) : Tensor :=
    let l := (List.finRange A).flatMap fun i => (List.finRange B).map fun j => t i j
    if l.all Option.isSome then ⟨[A, B], l.filterMap id⟩ else ⟨[0], []⟩
  if q = 1 then
    let effT : Tensor := tens3 e
    let var : Fin A → Fin B → Rat := fun i j => flatQ M 0 * f.s2 i j
    let t2 := opt fun i j => if h : 0 < q then signedSq (e ⟨0, h⟩ i j) (var i j) else none
    sepB.intercalate [(if oneD then effT.drop0 else effT).fmt, (tens2 var).squeeze.fmt, t2.squeeze.fmt, t2.squeeze.fmt]
  else
    let VA : Array (Array (Array (Array Rat))) := Array.ofFn fun x : Fin q => Array.ofFn fun y : Fin q =>
      Array.ofFn fun i : Fin A => Array.ofFn fun j : Fin B => ndVarPipeline M f.s2 x y i j
    let V : Fin q → Fin q → Fin A → Fin B → Rat := fun x y i j =>
      (((VA.getD x.1 #[]).getD y.1 #[]).getD i.1 #[]).getD j.1 0
    let varT : Tensor := ⟨[q, q, A, B], (List.finRange q).flatMap fun x => (List.finRange q).flatMap fun y =>
      (List.finRange A).flatMap fun i => (List.finRange B).map fun j => V x y i j⟩
    sepB.intercalate [(tens3 e).fmt, varT.fmt, (opt (ndF e V)).fmt, (opt (ndTmin e V)).fmt]

/-! ## the refined Kalman filter (`fff_glm_RKF_*` of `lib/fff/fff_glm_kalman.c`), as written -/

/-- `FFF_TINY` -/
def fffTiny : Rat := 1 / 100000000000000000000000000000000000000000000000000

/-- `FFF_ENSURE_POSITIVE` -/
def ensurePos (x : Rat) : Rat := if fffTiny < x then x else fffTiny

/-- `_fff_glm_hermit_norm`: `max(xᵀ A x, 0)` -/
def hermit {p : Nat} (A : Mat p p) (x : Vec p) : Rat := max (vdot x (mvec A x)) 0

structure RKF (p : Nat) where
  /-- `Kfilt`: the standard Kalman filter run alongside -/
  kf : KF p
  /-- `Hssd = Σ x xᵀ` -/
  hssd : Mat p p
  /-- `spp`: sum of paired products of consecutive residuals at the current OLS estimate -/
  spp : Rat
  gspp : Vec p
  hspp : Mat p p
  b : Vec p
  vb : Mat p p
  s2 : Rat
  a : Rat
  t : Nat

/-- `fff_glm_RKF_reset` (the fields `b`, `Vb` are overwritten by the first iteration) -/
def rkfInit (p : Nat) : RKF p :=
  { kf := kfInit p kfInitVar, hssd := fun _ _ => 0, spp := 0, gspp := fun _ => 0, hspp := fun _ _ => 0,
    b := fun _ => 0, vb := fun _ _ => 0, s2 := 0, a := 0, t := 0 }

/-- what the refinement loop reads (fixed during the loop) -/
structure RCtx (p : Nat) where
  kf : KF p
  hssd : Mat p p
  spp : Rat
  gspp : Vec p
  hspp : Mat p p
  cor : Rat
  t : Nat

/-- what the refinement loop updates -/
structure RSt (p : Nat) where
  a : Rat
  s2 : Rat
  b : Vec p
  vb : Mat p p

/-- one pass of the `while (iter < nloop)` loop of `fff_glm_RKF_iterate` -/
def refineStep {p : Nat} (c : RCtx p) (st : RSt p) : RSt p :=
  let aux1 := 1 / (1 + st.a * st.a)
  let aux2 := 2 * c.cor * st.a
  -- _fff_glm_RKF_iterate_Vb: Vb = aux1 * Vb0 + aux1² aux2 * Vb0 (Hspp Vb0)
  let MA := toArr2 (mmul c.hspp c.kf.P)
  let VPA := toArr2 (mmul c.kf.P (ofArr2 MA : Mat p p))
  let vbA := toArr2 fun i j => aux1 * c.kf.P i j + aux1 * aux1 * aux2 * (ofArr2 VPA : Mat p p) i j
  let vb : Mat p p := ofArr2 vbA
  let dbA := toArr1 fun i => aux2 * mvec vb c.gspp i
  let db : Vec p := ofArr1 dbA
  let b : Vec p := fun i => c.kf.b i + db i
  let sppRef := c.spp + 2 * vdot c.gspp db + hermit c.hspp db
  let ssdRef := c.kf.ssd + hermit c.hssd db
  let a := c.cor * sppRef / ensurePos ssdRef
  { a := a, s2 := (1 - a * a) * ssdRef / (c.t : Rat), b := b, vb := vb }

def refineN {p : Nat} (c : RCtx p) : Nat → RSt p → RSt p
  | 0, st => st
  | k + 1, st => refineN c k (refineStep c st)

/-- the part of `fff_glm_RKF_iterate` before the refinement loop (scans after the first): the updated
    sums (`RCtx`) and the values the loop starts from (the current OLS estimate) -/
def rkfCtx {p : Nat} (s : RKF p) (cur prev : Vec p × Rat) : RCtx p × RSt p :=
  let x := cur.1; let y := cur.2; let xx := prev.1; let yy := prev.2
  let t := s.t + 1
  let kf' := kfStep s.kf x y
  let hssdA := toArr2 fun i j => s.hssd i j + x i * x j
  let dbA := toArr1 fun i => kf'.b i - s.kf.b i
  let db : Vec p := ofArr1 dbA
  let cor : Rat := (t : Rat) / ((t : Rat) - 1)
  let r := y - vdot x kf'.b
  let rr := yy - vdot xx kf'.b
  let vauxA := toArr1 (mvec s.hspp db)
  let vaux : Vec p := ofArr1 vauxA
  let spp' := s.spp + 2 * vdot s.gspp db + hermit s.hspp db + r * rr
  let gsppA := toArr1 fun i => s.gspp i + vaux i - rr / 2 * x i - r / 2 * xx i
  let hsppA := toArr2 fun i j => s.hspp i j + (x i * xx j + xx i * x j) / 2
  ({ kf := kf', hssd := ofArr2 hssdA, spp := spp', gspp := ofArr1 gsppA, hspp := ofArr2 hsppA, cor := cor, t := t },
   { a := cor * spp' / ensurePos kf'.ssd, s2 := kf'.s2, b := kf'.b, vb := kf'.P })

/-- the filter after the refinement loop ended in `st` -/
def rkfOf {p : Nat} (c : RCtx p) (st : RSt p) : RKF p :=
  { kf := c.kf, hssd := c.hssd, spp := c.spp, gspp := c.gspp, hspp := c.hspp,
    b := st.b, vb := st.vb, s2 := st.s2, a := st.a, t := c.t }

/-- `fff_glm_RKF_iterate(thisone, nloop, y, x, yy, xx)` -/
def rkfStep {p : Nat} (s : RKF p) (nloop : Nat) (cur prev : Vec p × Rat) : RKF p :=
  if s.t + 1 = 1 then
    let kf' := kfStep s.kf cur.1 cur.2
    let hssdA := toArr2 fun i j => s.hssd i j + cur.1 i * cur.1 j
    { s with kf := kf', hssd := ofArr2 hssdA, s2 := kf'.s2, b := kf'.b, vb := kf'.P, t := s.t + 1 }
  else
    let cs := rkfCtx s cur prev
    rkfOf cs.1 (refineN cs.1 (nloop - 1) cs.2)

/-- `fff_glm_RKF_fit`: one iteration per scan; the refinement loop runs at the last scan only -/
def rkfRun {p : Nat} (nloop : Nat) : List (Vec p × Rat) → Vec p × Rat → RKF p → RKF p
  | [], _, s => s
  | [r], prev, s => rkfStep s nloop r prev
  | r :: r' :: rs, prev, s => rkfRun nloop (r' :: rs) r (rkfStep s 1 r prev)

def rkfFit {n p : Nat} (nloop : Nat) (X : Mat n p) (y : Vec n) : RKF p :=
  rkfRun nloop (kfRows X y) (fun _ => 0, 0) (rkfInit p)

def sepE : String := " | "

def runW3 : Toks → String
  | "hrho" :: rest =>
      -- hrho order <rho0> X nsteps step… : m.rho after every iterative_fit
      match runP (do
          let o ← pNat
          let rho0 ← pList pRat
          let ⟨n, _, X⟩ ← pMatD
          let ns ← pNat
          let steps ← pMany (pHStep n) ns
          let s := runHist X o steps (hInit rho0)
          pure (if s.defined then sepE.intercalate (s.rhos.map fun r => " ".intercalate (r.map fmtApprox))
                else "error:undefined")) rest with
      | some s => s
      | none => "bad-op"
  | "glsguard" :: rest =>
      match runP pMatD rest with
      | some ⟨n, n', S⟩ => if h : n' = n then (glsVerdict (h ▸ S : Mat n n)).fmt else "error:valueError"
      | none => "bad-op"
  | "glsx" :: rest =>
      -- glsx X Y S : beta | SSE | (X' S^-1 X)^-1
      match runP (do
          let ⟨n, p, X⟩ ← pMatD
          let ⟨n', v, Y⟩ ← pMatD
          let ⟨n1, n2, S⟩ ← pMatD
          if h : n' = n then
            if h1 : n1 = n then
              if h2 : n2 = n then
                let S' : Mat n n := fun a b => S ⟨a.1, by omega⟩ ⟨b.1, by omega⟩
                pure (match glsExact X (h ▸ Y : Mat n v) S' with
                      | some (b, sse, G) => fmtM b ++ sepE ++ fmtV sse ++ sepE ++ fmtM G
                      | none => "error:singular")
              else failure
            else failure
          else failure) rest with
      | some s => s
      | none => "bad-op"
  | "estim" :: rest =>
      -- estim C D : 1 | 0 (or error:valueError when the column counts differ)
      match runP (do
          let ⟨_, p', C⟩ ← pMatD
          let ⟨_, p, D⟩ ← pMatD
          if h : p' = p then
            pure (match isEstimable (h ▸ C) D with
                  | some b => if b then "1" else "0"
                  | none => "uncertified")
          else pure "error:valueError") rest with
      | some s => s
      | none => "bad-op"
  | "arbias2" :: rest =>
      -- arbias2 order X <whitener> R(n×v residuals) hasc0 [c0(v)] : M | invM | rho-hat
      --   calc_beta is the pseudo-inverse of the *whitened* design, `design` the un-whitened one
      match runP (do
          let o ← pNat
          let ⟨n, p, X⟩ ← pMatD
          let w ← pWhitener n
          let ⟨n', v, R⟩ ← pMatD
          let has ← pBool
          let c0 ← (if has then pVecD v else pure (fun _ => (0 : Rat)))
          if h : n' = n then
            let R' : Mat n v := h ▸ R
            pure (match fit w X R' with
                  | none => "error:singular"
                  | some f =>
                      match arBiasCorrector X f.pinv o with
                      | none => "error:singular"
                      | some iM =>
                          let rh := if has then arBiasCorrectG iM c0 R' else arBiasCorrect iM R'
                          fmtM (arBiasM X f.pinv o) ++ sepE ++ fmtM iM ++ sepE ++
                            fmtM (fun (a : Fin o) (j : Fin v) => rh a j))
          else failure) rest with
      | some s => s
      | none => "bad-op"
  | "glmget" :: rest =>
      -- glmget steps X Y <cols> : bins | exact ar1*steps | get_beta(cols) | get_mse | SSE/n
      match runP (do
          let steps ← pNat
          let ⟨n, p, X⟩ ← pMatD
          let ⟨n', v, Y⟩ ← pMatD
          let cs ← pCols p
          if h : n' = n then
            let Y' : Mat n v := h ▸ Y
            pure (match cs with
              | none => "error:indexError"
              | some cs =>
                match fit .ols X Y' with
                | none => "error:singular"
                | some f0 =>
                    let rA := toArr2 (resid X Y' f0)
                    let r : Mat n v := ofArr2 rA
                    let bins := (List.finRange v).map (ar1Bin steps r)
                    if bins.all Option.isSome then
                      let lab : Fin v → Int := fun j => ((bins.getD j.1 none).getD 0)
                      let exact : List Rat := (List.finRange v).map fun j =>
                        let (a, d) := ar1Parts r j; a / d * (steps : Rat)
                      match glmGetBeta steps X Y' lab (fnOfList cs), glmGetMseSig steps X Y' lab with
                      | some B, some (M, S) =>
                          fmtInts ((List.finRange v).map lab) ++ sepE ++ fmtRats exact ++ sepE ++
                            fmtM B ++ sepE ++ fmtV M ++ sepE ++ fmtV S
                      | _, _ => "error:singular"
                    else "error:nan")
          else failure) rest with
      | some s => s
      | none => "bad-op"
  | "labsnd" :: rest =>
      -- labsnd axis ols|kalman X d0 d1 d2 data C(q×p) oneD : effect | variance | F | tmin²
      match runP (do
          let ax ← pNat
          let meth ← pTok
          let ⟨n, p, X⟩ ← pMatD
          let ⟨d0, d1, d2, Y⟩ ← pArr3
          let ⟨q, p', C⟩ ← pMatD
          let oneD ← pBool
          if hp : p' = p then
            let C' : Mat q p := hp ▸ C
            let go {A B : Nat} (fib : Fin A → Fin B → Vec n) : String :=
              if meth = "kalman" then ndContrast (ndFitKalman X fib) C' oneD
              else
                let gram := toArr2 (mmul (tr X) X)
                match inv? (ofArr2 gram) with
                | none => "error:singular"
                | some G =>
                    let pXA := toArr2 (mmul G (tr X))
                    ndContrast (ndFitOls X (ofArr2 pXA) fib) C' oneD
            if ax = 0 then
              if h : d0 = n then pure (go (fun (i : Fin d1) (j : Fin d2) => fun t : Fin n => Y (h ▸ t) i j))
              else pure "error:valueError"
            else if ax = 1 then
              if h : d1 = n then pure (go (fun (i : Fin d0) (j : Fin d2) => fun t : Fin n => Y i (h ▸ t) j))
              else pure "error:valueError"
            else if ax = 2 then
              if h : d2 = n then pure (go (fun (i : Fin d0) (j : Fin d1) => fun t : Fin n => Y i j (h ▸ t)))
              else pure "error:valueError"
            else failure
          else pure "error:valueError") rest with
      | some s => s
      | none => "bad-op"
  | "rkf" :: rest =>
      -- rkf niter X Y : b (p×v) | s2 | a | Vb of every voxel | dof
      match runP (do
          let nloop ← pNat
          let ⟨n, p, X⟩ ← pMatD
          let ⟨n', v, Y⟩ ← pMatD
          if h : n' = n then
            let Y' : Mat n v := h ▸ Y
            let fits : Array (RKF p) := Array.ofFn fun j : Fin v => rkfFit nloop X (fun i => Y' i j)
            let get (j : Fin v) : RKF p := fits.getD j.1 (rkfInit p)
            -- (the exact values have tens of thousands of digits: printed rounded down to 2^-160)
            let fa (l : List Rat) : String := " ".intercalate (l.map fmtApprox)
            pure (sepE.intercalate
              [fa ((List.finRange p).flatMap fun a => (List.finRange v).map fun j => (get j).b a),
               fa ((List.finRange v).map fun j => (get j).s2),
               fa ((List.finRange v).map fun j => (get j).a),
               fa ((List.finRange v).flatMap fun j => (List.finRange p).flatMap fun r =>
                     (List.finRange p).map fun c => (get j).vb r c),
               fmtRat ((n : Rat) - (p : Rat))])
          else failure) rest with
      | some s => s
      | none => "bad-op"
  | toks => runAll toks

end NipyVerif.C05
