/-
C16 (part S) — the cubic B-spline prefilter of `cubic_spline.c` in exact arithmetic.

The pole `z1 = √3 − 2` and the constant `cz1 = z1/(z1² − 1)` live in ℚ(√3): numbers `a + b√3` with
rational `a, b` (`Q3`).  `transform1d` is `_cubic_spline_transform1d` as written (initial causal
value from the mirror-extended sum, causal recursion, anticausal initial value, anticausal
recursion, gain 6), with the pole and the constant as PARAMETERS: the C code writes them truncated
to 14 digits (`-0.26794919243112`, `0.28867513459481`: rationals, `b = 0`), the theorems take the
exact ones.  `transformNd` is the separable n-D transform (`cubic_spline_transform`).
-/
import NipyVerif.Model.C16
namespace NipyVerif.C16

/-- `a + b√3` -/
structure Q3 where
  a : Rat
  b : Rat
deriving DecidableEq, Repr, Inhabited

namespace Q3
def ofRat (q : Rat) : Q3 := ⟨q, 0⟩
instance : Zero Q3 := ⟨⟨0, 0⟩⟩
instance : One Q3 := ⟨⟨1, 0⟩⟩
instance : Add Q3 := ⟨fun x y => ⟨x.a + y.a, x.b + y.b⟩⟩
instance : Sub Q3 := ⟨fun x y => ⟨x.a - y.a, x.b - y.b⟩⟩
instance : Neg Q3 := ⟨fun x => ⟨-x.a, -x.b⟩⟩
instance : Mul Q3 := ⟨fun x y => ⟨x.a * y.a + 3 * (x.b * y.b), x.a * y.b + x.b * y.a⟩⟩
/-- `(a − b√3)/(a² − 3b²)` (0 for 0, like `Rat`) -/
instance : Inv Q3 := ⟨fun x => ⟨x.a / (x.a * x.a - 3 * (x.b * x.b)), -x.b / (x.a * x.a - 3 * (x.b * x.b))⟩⟩
instance : Div Q3 := ⟨fun x y => x * y⁻¹⟩

/-- `√3 − 2` -/
def z1 : Q3 := ⟨-2, 1⟩
/-- `z1/(z1² − 1) = √3/6` -/
def cz1 : Q3 := ⟨0, 1 / 6⟩
def two : Q3 := ⟨2, 0⟩
def four : Q3 := ⟨4, 0⟩
def six : Q3 := ⟨6, 0⟩
end Q3

def sAt (s : Array Q3) (k : Nat) : Q3 := s.getD k 0

/-- index of the mirror-extended signal `s̃(k)`, `0 ≤ k ≤ 2N−3`: the first C loop walks `s[1..N−1]`
    forward, the second walks back `s[N−2..1]` -/
def mirrorIdx (N k : Nat) : Nat := if k < N then k else 2 * N - 2 - k

/-- the two accumulation loops (`z1_k = z1 * z1_k; cp += s̃(k) * z1_k`), `m` steps: `(cp, z1_k)` -/
def initLoop (z : Q3) (s : Array Q3) (N : Nat) : Nat → Q3 × Q3
  | 0 => (sAt s 0, 1)
  | m + 1 =>
      let st := initLoop z s N m
      (st.1 + sAt s (mirrorIdx N (m + 1)) * (z * st.2), z * st.2)

/-- initial causal value `cp / (1 − z1·z1_k)` after the `(N−1) + (N−2)` steps -/
def causalInit (z : Q3) (s : Array Q3) (N : Nat) : Q3 :=
  let st := initLoop z s N (2 * N - 3)
  st.1 / (1 - z * st.2)

/-- causal recursion `c⁺(k) = s(k) + z c⁺(k−1)` -/
def cplus (z : Q3) (s : Array Q3) (c0 : Q3) : Nat → Q3
  | 0 => c0
  | k + 1 => sAt s (k + 1) + z * cplus z s c0 k

/-- anticausal recursion counted from the far end: `cminus j = c(N−1−j)`;
    `c(N−1) = cz (2 c⁺(N−1) − s(N−1))`, `c(k) = z (c(k+1) − c⁺(k))` -/
def cminus (z cz : Q3) (s : Array Q3) (c0 : Q3) (N : Nat) : Nat → Q3
  | 0 => cz * (Q3.two * cplus z s c0 (N - 1) - sAt s (N - 1))
  | j + 1 => z * (cminus z cz s c0 N j - cplus z s c0 (N - 2 - j))

/-- `_cubic_spline_transform1d`: the stored values are `6 c(k)` -/
def transform1d (z cz : Q3) (s : List Q3) : List Q3 :=
  let a := s.toArray
  let N := s.length
  let c0 := causalInit z a N
  (List.range N).map (fun (k : Nat) => Q3.six * cminus z cz a c0 N (N - 1 - k))

/-- `cubic_spline_sample1d` on exact (ℚ(√3)) coefficients: the same code as `sample1d`, the
    rational weights embedded -/
def sample1dQ (c23 : Rat) (mode : Nat) (coef : Array Q3) (x : Rat) : Q3 :=
  let ddim := coef.size - 1
  match applyBoundary mode ddim x with
  | none => 0
  | some (x', w) =>
    match neighbors x' ddim with
    | none => 0
    | some (nx, _) =>
      Q3.ofRat w * ((List.range 4).map (fun (t : Nat) =>
        coef.getD (mirroredPosition (nx + (t : Int)) ddim) 0
          * Q3.ofRat (basis c23 (x' - ((nx + (t : Int) : Int) : Rat))))).sum

/-- mirror synthesis along a line: `(c[m(k−1)] + 4 c[k] + c[m(k+1)])` (six times the spline value at the nodes) -/
def synth1d (c : List Q3) : List Q3 :=
  let a := c.toArray
  let dd := c.length - 1
  (List.range c.length).map (fun (k : Nat) =>
    a.getD (mirroredPosition ((k : Int) - 1) dd) 0 + Q3.four * a.getD k 0 + a.getD (mirroredPosition ((k : Int) + 1) dd) 0)

def rowMajorStrides : List Nat → List Int
  | [] => []
  | _ :: ds => ((ds.foldl (· * ·) 1 : Nat) : Int) :: rowMajorStrides ds

/-- apply a line operator along one axis of a row-major array -/
def alongAxis (f : List Q3 → List Q3) (shape : List Nat) (axis : Nat) (data : Array Q3) : Array Q3 :=
  (fibreOffsets shape (rowMajorStrides shape) axis).foldl (fun acc offs =>
    let line := offs.map (fun o => data.getD o.toNat 0)
    let res := f line
    (offs.zip res).foldl (fun acc2 p => acc2.setIfInBounds p.1.toNat p.2) acc) data

/-- `cubic_spline_transform`: the 1-D transform along every axis in turn -/
def transformNd (z cz : Q3) (shape : List Nat) (data : Array Q3) : Array Q3 :=
  (List.range shape.length).foldl (fun acc ax => alongAxis (transform1d z cz) shape ax acc) data

def synthNd (shape : List Nat) (data : Array Q3) : Array Q3 :=
  (List.range shape.length).foldl (fun acc ax => alongAxis synth1d shape ax acc) data

/-! ## Line protocol (part S) -/

def runS : Toks → Option String
  | "cst" :: rest =>
      -- z.a z.b cz.a cz.b, shape, data (row-major rationals)
      match runP (do let za ← pRat; let zb ← pRat; let ca ← pRat; let cb ← pRat
                     let sh ← pList pNat; let data ← pList pRat; pure (za, zb, ca, cb, sh, data)) rest with
      | some (za, zb, ca, cb, sh, data) =>
          if data.length ≠ sh.foldl (· * ·) 1 ∨ sh.any (· = 0) then some "bad-op" else
          let src := (data.map Q3.ofRat).toArray
          let out := transformNd ⟨za, zb⟩ ⟨ca, cb⟩ sh src
          -- exactness: synthesis of the coefficients along every axis gives 6^ndim times the samples
          let rec6 := synthNd sh out
          let g : Rat := (List.replicate sh.length (6 : Rat)).foldl (· * ·) 1
          let exact := decide (rec6.toList = src.toList.map (fun q => (⟨g * q.a, g * q.b⟩ : Q3)))
          some s!"{if exact then 1 else 0} | {fmtRats (out.toList.map (·.a))} | {fmtRats (out.toList.map (·.b))}"
      | none => some "bad-op"
  | _ => none

end NipyVerif.C16
