/-
C17 (part P) — the counting arithmetic of `nipy/labs/group/permutation_test.py`:
`pvalue`, `height_threshold`, and `calibrate` (voxel level, cluster size / cluster Fisher,
region Fisher, with their family-wise corrected forms).

Inputs of the model that are outside it: the statistic maps under each relabelling (rows of
`permT`), cluster labels (connected components: C11/C12), Fisher values (`-Σ log p`).
-/
import NipyVerif.Model.C17S
namespace NipyVerif.C17

/-- `np.maximum(1 - searchsorted(random_Tvalues, T)/ndraws, 1/ndraws)`:
    `permutation_test.pvalue` and the pseudo p-values inside the Fisher statistics -/
def pvalueClamped (draws : List Rat) (t : Rat) : Rat := rmax (pvalue draws t) (1 / draws.length)

/-- Python `max(perm_Tvalues)` -/
def maxList : List Rat → Rat
  | [] => 0
  | a :: t => t.foldl (fun acc v => if acc < v then v else acc) a

/-- statistic maps under each relabelling: row `m` = `[stat(relabel(voxel_j, magic_m)) | j]` -/
def permMapsOne (stat : List Rat → Rat) (voxels : List (List Rat)) (magics : List Nat) : List (List Rat) :=
  magics.map fun m => voxels.map fun v => stat (permuteSigns v m)

def permMapsTwo (stat : List Rat → List Rat → Rat) (voxels : List (List Rat × List Rat)) (magics : List Nat) :
    List (List Rat) :=
  magics.map fun m => voxels.map fun v =>
    let px := twosampleRelabel v.1 v.2 m
    stat (px.take v.1.length) (px.drop v.1.length)

/-- `p_values[j] = #{m : perm_T[m][j] >= T[j]} / nmagic` -/
def voxelP (permT : List (List Rat)) (T : List Rat) : List Rat :=
  (List.range T.length).map fun j =>
    ((permT.filter (fun row => decide (T.getD j 0 ≤ row.getD j 0))).length : Rat) / permT.length

/-- `Corr_p_values[j] = #{m : max(perm_T[m]) >= T[j]} / nmagic` (Tmax procedure) -/
def voxelCorrP (permT : List (List Rat)) (T : List Rat) : List Rat :=
  T.map fun tj => ((permT.filter (fun row => decide (tj ≤ maxList row))).length : Rat) / permT.length

/-- `compute_cluster_stats(..., ["size"])`: `[0]` without clusters, else the size of each label
    `0 .. max(labels)` -/
def clusterSizes (labels : List Int) : List Rat :=
  let nclust := (labels.foldl (fun a b => if a < b then b else a) (-1) + 1).toNat
  if nclust = 0 then [0]
  else (List.range nclust).map fun (i : Nat) => ((labels.filter (fun l => l == Int.ofNat i)).length : Rat)

/-- cluster-level p-values: `1 - searchsorted(sort(pooled perm values), obs) / len(pooled)` -/
def poolP (perm : List (List Rat)) (obs : List Rat) : List Rat := obs.map (pvalue perm.flatten)

/-- family-wise corrected: `1 - searchsorted(sort(per-relabelling maxima), obs) / nmagic` -/
def maxP (perm : List (List Rat)) (obs : List Rat) : List Rat := obs.map (pvalue (perm.map maxList))

/-- region-level uncorrected p-values: row `j` of `permF` = region `j` under every relabelling -/
def regionP (permF : List (List Rat)) (F : List Rat) : List Rat :=
  List.zipWith (fun row f => pvalue row f) permF F

/-- position of entry `m` in a stable `argsort` of `row` -/
def stableRank (row : List Rat) (m : Nat) : Nat :=
  (row.filter (fun v => decide (v < row.getD m 0))).length +
    ((row.take m).filter (fun v => decide (v = row.getD m 0))).length

/-- `perm_Fisher_p_values[j][I] = 1 - arange(nmagic)/nmagic` with `I = argsort(row)` -/
def rankP (row : List Rat) (m : Nat) : Rat := 1 - (stableRank row m : Rat) / row.length

def minList : List Rat → Rat
  | [] => 0
  | a :: t => t.foldl (fun acc v => if v < acc then v else acc) a

/-- `Fisher_Corr_p_values[j] = 1 - searchsorted(sort(-min_j perm_p[j][m]), -Fisher_p[j]) / nmagic` -/
def regionCorrP (permF : List (List Rat)) (F : List Rat) : List Rat :=
  let nmagic := (permF.headD []).length
  let minp : List Rat := (List.range nmagic).map fun m => minList (permF.map fun row => rankP row m)
  (regionP permF F).map fun pj => pvalue (minp.map (fun v => -v)) (-pj)

/-- `height_threshold(pval)` on sorted draws; `none` = `+inf`. `idx = ceil(ndraws (1 - pval))` -/
def heightThreshold (draws : List Rat) (pval : Rat) : Option Rat :=
  let n := draws.length
  let idx := ((n : Rat) * (1 - pval)).ceil.toNat
  if n ≤ idx then none
  else
    let cand := draws.getD idx 0
    if draws.getD (idx - 1) 0 < cand then some cand
    else
      let idx2 := (draws.filter (fun v => decide (v ≤ cand))).length   -- searchsorted(..., 'right')
      if n ≤ idx2 then none else some (draws.getD idx2 0)

/-! ### Line protocol -/

def pRows : P (List (List Rat)) := do let n ← pNat; pMany (pList pRat) n

def fmtOpt : Option Rat → String
  | none => "inf"
  | some q => fmtRat q

def runP' : Toks → Option String
  | "pvalc" :: rest =>
      match runP (do let t ← pRat; let d ← pList pRat; pure (t, d)) rest with
      | some (t, d) => if d = [] then some "bad-op" else some (fmtRat (pvalueClamped d t))
      | none => some "bad-op"
  | "calib" :: rest =>
      match runP (do let t ← pList pRat; let rows ← pRows; pure (t, rows)) rest with
      | some (t, rows) =>
          if rows = [] ∨ rows.any (fun r => r.length != t.length) then some "bad-op"
          else some s!"{fmtRats (voxelP rows t)} ; {fmtRats (voxelCorrP rows t)} ; {fmtRats (rows.map maxList)}"
      | none => some "bad-op"
  | "csize" :: rest =>
      match runP (pList pInt) rest with
      | some l => some (fmtRats (clusterSizes l))
      | none => some "bad-op"
  | "poolp" :: rest =>
      match runP (do let o ← pList pRat; let rows ← pRows; pure (o, rows)) rest with
      | some (o, rows) =>
          if rows.flatten = [] then some "bad-op"
          else some s!"{fmtRats (poolP rows o)} ; {fmtRats (maxP rows o)}"
      | none => some "bad-op"
  | "region" :: rest =>
      match runP (do let f ← pList pRat; let rows ← pRows; pure (f, rows)) rest with
      | some (f, rows) =>
          if rows.length ≠ f.length ∨ rows = [] ∨ (rows.headD []) = [] ∨
              rows.any (fun r => r.length != (rows.headD []).length) then some "bad-op"
          else some s!"{fmtRats (regionP rows f)} ; {fmtRats (regionCorrP rows f)}"
      | none => some "bad-op"
  | "hthresh" :: rest =>
      match runP (do let p ← pRat; let d ← pList pRat; pure (p, d)) rest with
      | some (p, d) => if d = [] then some "bad-op" else some (fmtOpt (heightThreshold d p))
      | none => some "bad-op"
  | _ => none

end NipyVerif.C17
