/-
C20 — the *store* side of the kernel models: what a kernel writes, as a list of (flat index, value)
pairs applied to a memory `Int → Int`, so that frame statements ("cells outside the declared output are
equal before and after") can be made about the model.  Values are opaque (`val`): the frame clause does
not depend on what is stored.  Also the scan of a `fff_array_iterator` as an iterated function, the
index arithmetic of the `.pyx` kernels regenerated in `Gen/C20Pyx.lean`, and the compact neighbour
structure `_graph.pyx::dilation` walks.
Line kinds added here: veW jhW fffn fffax ivall ivsub cnb  (+ the kinds of `Model/C20K.lean`).
-/
import NipyVerif.Model.C20K
import NipyVerif.Gen.C20Pyx
namespace NipyVerif.C20
open Kern

/-- memory after a list of stores, applied in order -/
def applyWrites (mem : Int → Int) : List (Int × Int) → Int → Int
  | [] => mem
  | w :: ws => applyWrites (fun j => if j = w.1 then w.2 else mem j) ws

/-- `ve_step`: the stores into `ppm`: for the `n`-th voxel of `XYZ`, `K` consecutive doubles from its row
    position (`val n k` stands for the normalised posterior stored) — on the generated `veRowPos`/`veRowLen` -/
def veStores (d0 d1 d2 d3 : Int) (val : Nat → Int → Int) : Nat → List (Int × Int × Int) → List (Int × Int)
  | _, [] => []
  | n, v :: vs =>
      (upTo (Mrf.veRowLen d0 d1 d2 d3)).map (fun k => (Mrf.veRowPos d0 d1 d2 d3 v.1 v.2.1 v.2.2 + k, val n k))
        ++ veStores d0 d1 d2 d3 val (n + 1) vs

/-- the flat indices of a list of stores, sorted and distinct (what the harness observes as "cells changed") -/
def storeSet (ws : List (Int × Int)) : List Int := ws.foldl (fun acc w => insSorted w.1 acc) []

/-- joint_histogram.c: the stores into `H` made for one source voxel of (clamped) intensity `i` by the PV
    interpolator: one bin per neighbour intensity `j` (`js`: the eight `J[q]`), all in row `i` -/
def jhStores (i clampJ : Int) (js : List Int) (val : Int → Int) : List (Int × Int) :=
  js.map (fun j => (Jh.pvIndex i clampJ j, val j))

/-- one step of the iterator of `fff_array.c` for an array of the given dims / byte offsets, `axis` skipped -/
def fffStep (dimY dimZ dimT oX oY oZ oT axis : Int) (s : Fff.It) : Fff.It :=
  let dd := Fff.ddims dimY dimZ dimT axis
  Fff.update (Fff.ndims dimY dimZ dimT) dd.1 dd.2.1 dd.2.2
    (Fff.incX oX oY oZ oT dd.1 dd.2.1 dd.2.2) (Fff.incY oX oY oZ oT dd.1 dd.2.1 dd.2.2)
    (Fff.incZ oX oY oZ oT dd.1 dd.2.1 dd.2.2) (Fff.incT oX oY oZ oT dd.1 dd.2.1 dd.2.2) s

/-- state after `k` steps from `fff_array_iterator_init_skip_axis` -/
def fffState (dimY dimZ dimT oX oY oZ oT axis : Int) : Nat → Fff.It
  | 0 => ⟨0, 0, 0, 0, 0, 0⟩
  | k + 1 => fffStep dimY dimZ dimT oX oY oZ oT axis (fffState dimY dimZ dimT oX oY oZ oT axis k)

/-- `fffpy_multi_iterator_new`: the axis handed to `PyArray_IterAllButAxis` (generated `Pyx.Fffpy.normAxis`), or
    `none` when NumPy is left to refuse it -/
def fffpyAxis (axis ndim : Int) : String :=
  let a := Pyx.Fffpy.normAxis axis ndim
  if 0 ≤ a ∧ a < ndim then toString a else "refused"

/-! ### intvol.pyx -/

/-- intvol.pyx (`EC3d`, `Lips3d`): flat indices of the eight corners of voxel `(i, j, k)` in the padded mask of the
    mask shape `(m0, m1, m2)`, on the generated loop bounds / padding / strides / index expression; `none` when the
    loops do not visit the voxel -/
def ivCorners3 (m0 m1 m2 i j k : Int) : Option (List Int) :=
  let s0 := Pyx.Intvol.pad m0; let s1 := Pyx.Intvol.pad m1; let s2 := Pyx.Intvol.pad m2
  if 0 ≤ i ∧ i < Pyx.Intvol.loopHi s0 ∧ 0 ≤ j ∧ j < Pyx.Intvol.loopHi s1 ∧ 0 ≤ k ∧ k < Pyx.Intvol.loopHi s2 then
    let ss0 := Pyx.Intvol.stride0 s0 s1 s2; let ss1 := Pyx.Intvol.stride1 s0 s1 s2; let ss2 := Pyx.Intvol.stride2 s0 s1 s2
    let index := Pyx.Intvol.pindex3 i j k ss0 ss1 ss2
    some ([0, 1].flatMap (fun di => [0, 1].flatMap (fun dj => [0, 1].map (fun dk =>
      index + (di * ss0 + dj * ss1 + dk * ss2)))))
  else none

/-- intvol.pyx (`EC2d`, `Lips2d`): the four corners of pixel `(i, j)` -/
def ivCorners2 (m0 m1 i j : Int) : Option (List Int) :=
  let s0 := Pyx.Intvol.pad m0; let s1 := Pyx.Intvol.pad m1
  if 0 ≤ i ∧ i < Pyx.Intvol.loopHi s0 ∧ 0 ≤ j ∧ j < Pyx.Intvol.loopHi s1 then
    let ss0 := Pyx.Intvol.stride0_2 s0 s1; let ss1 := Pyx.Intvol.stride1_2 s0 s1
    let index := Pyx.Intvol.pindex2 i j ss0 ss1
    some ([0, 1].flatMap (fun di => [0, 1].map (fun dj => index + (di * ss0 + dj * ss1))))
  else none

/-- all the padded-mask cells the 3-d kernels may read: union of the corners over the visited voxels (sorted, distinct) -/
def ivUnion3 (m0 m1 m2 : Int) : List Int :=
  (upTo m0).foldl (fun acc i => (upTo m1).foldl (fun acc j => (upTo m2).foldl (fun acc k =>
    match ivCorners3 m0 m1 m2 i j k with
    | some l => l.foldl (fun a q => insSorted q a) acc
    | none => acc) acc) acc) []

/-- the same for the 2-d kernels -/
def ivUnion2 (m0 m1 : Int) : List Int :=
  (upTo m0).foldl (fun acc i => (upTo m1).foldl (fun acc j =>
    match ivCorners2 m0 m1 i j with
    | some l => l.foldl (fun a q => insSorted q a) acc
    | none => acc) acc) []

/-- are the observed subscripts of `fpmask` among the cells the model lets the kernel read? -/
def ivSubset (allowed seen : List Int) : String :=
  match seen.find? (fun q => !allowed.contains q) with
  | none => "subset"
  | some q => s!"outside {q}"

/-! ### _graph.pyx::dilation over `WeightedGraph.compact_neighb` -/

/-- `compact_neighb`: `idx[v]` = number of edges whose first vertex is below `v` (`hstack((0, cumsum(degree)))`) -/
def cidx (a : List Nat) (v : Nat) : Nat := a.countP (fun x => decide (x < v))

/-- `compact_neighb`: the whole `idx` array (length `V + 1`), from the first column `a` of the edge list -/
def compactIdx (V : Nat) (a : List Nat) : List Nat := (List.range (V + 1)).map (cidx a)

/-- the pairs `(i, neighb[j])` that `dilation` dereferences: `j ∈ range(idx[i], idx[i+1])`, `i < size_max`;
    the Boolean says whether every `idx[i]`, `idx[i+1]`, `neighb[j]` access and `field[neighb[j], ·]` was in bounds -/
def dilationReads (sizeMax : Nat) (idx neighb : Array Int) : List (Int × Int) × Bool :=
  (List.range sizeMax).foldl (fun (acc : List (Int × Int) × Bool) (i : Nat) =>
    let lo := rd idx (Pyx.Graph.jLoIdx (i : Int))
    let hi := rd idx (Pyx.Graph.jHiIdx (i : Int))
    let js := (List.range (hi.1 - lo.1).toNat).map (fun (t : Nat) => lo.1 + (t : Int))
    js.foldl (fun (a : List (Int × Int) × Bool) j =>
      let nb := rd neighb j
      (a.1 ++ [((i : Int), nb.1)], a.2 && nb.2 && decide (0 ≤ nb.1 ∧ nb.1 < (sizeMax : Int))))
      (acc.1, acc.2 && lo.2 && hi.2)) ([], true)

def runW : Toks → String
  | "veW" :: rest =>
      match runP (do let d ← pMany pInt 4; let xyz ← pList pInt; pure (d, xyz)) rest with
      | some ([d0, d1, d2, d3], xyz) =>
          if xyz.length % 3 ≠ 0 then "bad-op"
          else fmtInts (storeSet (veStores d0 d1 d2 d3 (fun _ _ => 1) 0 (trip xyz)))
      | _ => "bad-op"
  | "jhW" :: rest =>
      match runP (do let i ← pInt; let cj ← pInt; let js ← pList pInt; pure (i, cj, js)) rest with
      | some (i, cj, js) => fmtInts (storeSet (jhStores i cj js (fun _ => 1)))
      | none => "bad-op"
  | "fffn" :: rest =>
      match runP (pMany pInt 9) rest with
      | some [dx, dy, dz, dt, ox, oy, oz, ot, axis] =>
          let n := (Fff.count dx dy dz dt axis).toNat
          let s := fffState dy dz dt ox oy oz ot axis n
          s!"{n} {s.idx}"
      | _ => "bad-op"
  | "fffax" :: rest =>
      match runP (pMany pInt 2) rest with
      | some [axis, ndim] => fffpyAxis axis ndim
      | _ => "bad-op"
  | "ivall" :: rest =>
      match runP (pList pInt) rest with
      | some [m0, m1, m2] => fmtInts (ivUnion3 m0 m1 m2)
      | some [m0, m1] => fmtInts (ivUnion2 m0 m1)
      | _ => "bad-op"
  | "ivsub" :: rest =>
      match runP (do let m ← pList pInt; let seen ← pList pInt; pure (m, seen)) rest with
      | some ([m0, m1, m2], seen) => ivSubset (ivUnion3 m0 m1 m2) seen
      | some ([m0, m1], seen) => ivSubset (ivUnion2 m0 m1) seen
      | _ => "bad-op"
  | "cnb" :: rest =>
      match runP (do let v ← pNat; let a ← pList pNat; let b ← pList pInt; pure (v, a, b)) rest with
      | some (v, a, b) =>
          if a.length ≠ b.length then "bad-op" else
          let idx := (compactIdx v a).map (fun (x : Nat) => (x : Int))
          let r := dilationReads v idx.toArray b.toArray
          s!"{fmtInts idx} | {if r.2 then "ok" else "oob"} {r.1.length}"
      | none => "bad-op"
  | ts => runK ts

end NipyVerif.C20
