/-
C05 (extension) — line protocol of the extension: `runAll` answers the new line kinds and
falls back to `run` of `Model/C05.lean`.
-/
import NipyVerif.Model.C05C
namespace NipyVerif.C05

/-- `self` | `sc d` | `a0 d` | `a1 k d₁ … d_k` (`k` must be the number of responses) -/
def pDispArg (v : Nat) : P (DispArg v) := do
  let k ← pTok
  if k = "self" then pure .self
  else if k = "sc" then do let d ← pRat; pure (.given (.sc true d))
  else if k = "a0" then do let d ← pRat; pure (.given (.sc false d))
  else if k = "a1" then do
    let m ← pNat
    if m = v then do let d ← pVecD v; pure (.given (.pr d)) else failure
  else failure

def pCols (p : Nat) : P (Option (List (Fin p))) := do
  let cs ← pList pInt
  pure (normCols p cs)

def fnOfList {α : Type} (l : List α) : Fin l.length → α := fun a => l.get a

/-- one operation on a results object -/
def pOp {n p v : Nat} (X : Mat n p) (Y : Mat n v) (w : Whitener n) (r : Results n p v) : P String := do
  let f := r.fit
  let k ← pTok
  if k = "t" then do
    let m ← pTok
    if m = "none" then
      pure (Out.fmt (.ok [thetaColsT r (fun a : Fin p => a), tColsVarT r (fun a : Fin p => a)]))
    else if m = "int" then do
      let c ← pInt
      match normCol p c with
      | none => pure "error:indexError"
      | some c =>
          let th : Tensor := if r.oneD then (tens1 (f.beta c)).dropLast else tens1 (f.beta c)
          pure (Out.fmt (.ok [th, vcovColT f.cov c r.selfDisp]))
    else if m = "list" then do
      let cs ← pCols p
      match cs with
      | none => pure "error:indexError"
      | some cs => pure (Out.fmt (.ok [thetaColsT r (fnOfList cs), tColsVarT r (fnOfList cs)]))
    else failure
  else if k = "vcov" then do
    let m ← pTok
    if m = "col" then do
      let c ← pInt
      let d ← pDispArg v
      match normCol p c with
      | none => pure "error:indexError"
      | some c => pure (vcovColT f.cov c (r.disp d)).fmt
    else if m = "cols" then do
      let cs ← pCols p
      let d ← pDispArg v
      match cs with
      | none => pure "error:indexError"
      | some cs => pure (vcovColsT f.cov (fnOfList cs) (r.disp d)).fmt
    else if m = "mat" then do
      let ⟨_, p', M⟩ ← pMatD
      let o ← pTok
      if h : p' = p then
        if o = "same" then do
          let d ← pDispArg v
          pure (vcovMatT f.cov (h ▸ M) (h ▸ M) (r.disp d)).fmt
        else if o = "other" then do
          let ⟨_, p'', O⟩ ← pMatD
          let d ← pDispArg v
          if h2 : p'' = p then pure (vcovMatT f.cov (h ▸ M) (h2 ▸ O) (r.disp d)).fmt
          else pure "error:valueError"
        else failure
      else do
        -- consume the rest of the operation, then refuse: `np.dot` shape mismatch
        if o = "other" then do let _ ← pMatD; pure ()
        let _ ← pDispArg v
        pure "error:valueError"
    else if m = "full" then do
      let d ← pDispArg v
      pure (vcovFullT f.cov (r.disp d)).fmt
    else failure
  else if k = "tcon" then do
    let rows ← pNat
    let l ← pNat
    let vals ← pMany pRat (rows * l)
    let ns ← pNat
    let store ← pMany pTok ns
    let d ← pDispArg v
    if guardTconShape rows l p ≠ "ok" then pure "error:valueError"
    else
      let a := vals.toArray
      pure (tconOp r (fun i : Fin p => a.getD i.1 0) store d).fmt
  else if k = "fcon" then do
    let ⟨q, p', M⟩ ← pMatD
    let d ← pDispArg v
    let ivk ← pTok
    if h : p' = p then
      if ivk = "noiv" then pure (fconOp r (h ▸ M) d none).fmt
      else if ivk = "iv" then do
        let ⟨q1, q2, IV⟩ ← pMatD
        if h1 : q1 = q then
          if h2 : q2 = q then
            let IV' : Mat q q := fun a b => IV ⟨a.1, by omega⟩ ⟨b.1, by omega⟩
            pure (fconOp r (h ▸ M) d (some IV')).fmt
          else pure "error:valueError"
        else pure "error:valueError"
      else failure
    else do
      if ivk = "iv" then do let _ ← pMatD; pure ()
      pure "error:valueError"
  else if k = "ci" then do
    let m ← pTok
    if m = "all" then do
      let d ← pDispArg v
      pure (ciOp r (fun a : Fin p => a) d).fmt
    else if m = "cols" then do
      let cs ← pCols p
      let d ← pDispArg v
      match cs with
      | none => pure "error:indexError"
      | some cs => pure (ciOp r (fnOfList cs) d).fmt
    else failure
  else if k = "score" then do
    -- score <delta(p)> sig|nosig [s] : score at theta + delta (same shift for every response) | information
    let dl ← pVecD p
    let sk ← pTok
    let sg ← (if sk = "sig" then do let x ← pRat; pure (some x) else if sk = "nosig" then pure none else failure)
    let wXA := toArr2 (w.apply X)
    let wYA := toArr2 (w.apply Y)
    let b : Mat p v := fun a j => f.beta a j + dl a
    let sc := scoreAt (ofArr2 wXA : Mat n p) (ofArr2 wYA : Mat n v) b sg
    let defined : Bool := match sg with
      | some s => decide (s ≠ 0)
      | none => (List.finRange v).all fun j => decide <|
          (fsum fun i => (msub (w.apply Y) (mmul (w.apply X) b)) i j * (msub (w.apply Y) (mmul (w.apply X) b)) i j) ≠ 0
    let t := tens2 sc
    let t' := if r.oneD then t.dropLast else t
    pure (Out.fmt (.ok [if defined then t' else ⟨[0], []⟩,
                        match sg with
                        | some s => tens2 (informationM X s)
                        | none => ⟨[0], []⟩]))
  else if k = "stats" then do
    let wYA := toArr2 (w.apply Y)
    let st := stats (ofArr2 wYA : Mat n v) f (p : Int)
    let sq (x : Vec v) : Tensor := if r.oneD then (tens1 x).dropLast else tens1 x
    let nan : Tensor := ⟨[0], []⟩
    -- a statistic whose denominator is zero is inf/nan in NumPy: reported as undefined
    let dfR : Int := (n : Int) - (p : Int)
    let okSST := (List.finRange v).all fun j => st.sst j ≠ 0
    let okMSE := (List.finRange v).all fun j => st.mse j ≠ 0
    let rs := resid X Y f
    let pr := predicted X f
    let sh2 (A : Mat n v) : Tensor := if r.oneD then (tens2 A).dropLast else tens2 A
    pure (Out.fmt (.ok [sq st.sse, sq st.sst, sq st.ssr,
      if dfR ≠ 0 then sq st.mse else nan,
      if p ≠ 1 then sq st.msr else nan,
      if n ≠ 1 then sq st.mst else nan,
      if okSST then sq st.r2 else nan,
      if okSST ∧ dfR ≠ 0 then sq st.r2adj else nan,
      if p ≠ 1 ∧ dfR ≠ 0 ∧ okMSE then sq st.fOverall else nan,
      sq st.sigmasq, sh2 rs, sh2 pr, sq f.dispersion]))
  else failure

def sepB : String := " | "

def pArr3 : P (Σ a b c, Arr3 a b c) := do
  let a ← pNat; let b ← pNat; let c ← pNat
  let l ← pMany pRat (a * b * c)
  let arr := l.toArray
  pure ⟨a, b, c, fun i j k => arr.getD ((i.1 * b + j.1) * c + k.1) 0⟩

/-- labs engines along an axis of a 3-D block: `beta` (the axis replaced by `p`) and `s2`
    (the axis removed, then `self.s2.squeeze()` of `glm.fit`) -/
def labs3 {n p : Nat} (axis : Nat) (kalman : Bool) (X : Mat n p) : (Σ a b c, Arr3 a b c) → String
  | ⟨d0, d1, d2, Y⟩ =>
    let run (F : Vec n → Vec (p + 1)) : String :=
      if axis = 0 then
        if h : d0 = n then
          let Y' : Arr3 n d1 d2 := h ▸ Y
          let tab := fibreTab F (fun i j => fun t => Y' t i j)
          (tens3 (fun (k : Fin p) (i : Fin d1) (j : Fin d2) => tabGet tab i.1 j.1 k.1)).fmt ++ sepB ++
          (tens2 (fun (i : Fin d1) (j : Fin d2) => tabGet tab i.1 j.1 p)).squeeze.fmt
        else "error:valueError"
      else if axis = 1 then
        if h : d1 = n then
          let Y' : Arr3 d0 n d2 := h ▸ Y
          let tab := fibreTab F (fun i j => fun t => Y' i t j)
          (tens3 (fun (i : Fin d0) (k : Fin p) (j : Fin d2) => tabGet tab i.1 j.1 k.1)).fmt ++ sepB ++
          (tens2 (fun (i : Fin d0) (j : Fin d2) => tabGet tab i.1 j.1 p)).squeeze.fmt
        else "error:valueError"
      else if axis = 2 then
        if h : d2 = n then
          let Y' : Arr3 d0 d1 n := h ▸ Y
          let tab := fibreTab F (fun i j => fun t => Y' i j t)
          (tens3 (fun (i : Fin d0) (j : Fin d1) (k : Fin p) => tabGet tab i.1 j.1 k.1)).fmt ++ sepB ++
          (tens2 (fun (i : Fin d0) (j : Fin d1) => tabGet tab i.1 j.1 p)).squeeze.fmt
        else "error:valueError"
      else "bad-op"
    if kalman then run (kalmanFibre X)
    else
      let gram := toArr2 (mmul (tr X) X)
      match inv? (ofArr2 gram) with
      | none => "error:singular"
      | some G =>
          let pXA := toArr2 (mmul G (tr X))
          run (labsFibre X (ofArr2 pXA))

/-- formatting only: a rational rounded down to a multiple of `2^-160` (the exact iterates of
    `iterative_fit` have tens of thousands of digits) -/
def fmtApprox (q : Rat) : String :=
  let s : Int := 2 ^ 160
  fmtRat (mkRat (Int.fdiv (q.num * s) (q.den : Int)) (2 ^ 160))

def fmtOptRat : Option Nat → String
  | some r => toString r
  | none => "none"

def runAll : Toks → String
  | "res" :: rest =>
      -- res X Y <whitener> oneD nops op…  : one section per operation
      match runP (do
          let ⟨n, p, X⟩ ← pMatD
          let ⟨n', v, Y⟩ ← pMatD
          if h : n' = n then
            let Y' : Mat n v := h ▸ Y
            let w ← pWhitener n
            let oneD ← pBool
            let nops ← pNat
            match fit w X Y' with
            | none => do
                let _ ← pMany pTok 0
                fun _ => some ("error:singular", [])
            | some f =>
                let r : Results n p v := { fit := f, oneD := oneD }
                let outs ← pMany (pOp X Y' w r) nops
                pure (sepB.intercalate outs)
          else failure) rest with
      | some s => s
      | none => "bad-op"
  | "rank" :: rest =>
      match runP pMatD rest with
      | some ⟨_, _, X⟩ => fmtOptRat (rankCert X)
      | none => "bad-op"
  | "recip" :: rest =>
      match runP (pList pRat) rest with
      | some xs => fmtRats (xs.map posRecipr) ++ sepB ++ fmtRats (xs.map recipr0)
      | none => "bad-op"
  | "arw" :: rest =>
      -- arw <rho> X : whitened X | filter form | W·X
      match runP (do let rho ← pList pRat; let X ← pMatD; pure (rho, X)) rest with
      | some (rho, ⟨n, _, X⟩) =>
          (tens2 (whitenAR rho X)).fmt ++ sepB ++ (tens2 (arFilter rho X)).fmt ++ sepB ++
            (tens2 (mmul (arMat rho n) X)).fmt
      | none => "bad-op"
  | "yw" :: rest =>
      -- yw order unbiased df(-1: None) n x… : rho | sigmasq | Rinv
      match runP (do
          let o ← pNat; let ub ← pBool; let df ← pInt; let n ← pNat
          let x ← pVecD n
          pure (match yuleWalker x o ub (if df < 0 then none else some df.toNat) with
                | none => "error:undefined"
                | some yw => fmtV yw.rho ++ sepB ++ fmtRat yw.sigmasq ++ sepB ++ fmtM yw.Rinv)) rest with
      | some s => s
      | none => "bad-op"
  | "arbias" :: rest =>
      -- arbias order X R(n×v residuals) : M | invM | rho-hat
      match runP (do
          let o ← pNat
          let ⟨n, p, X⟩ ← pMatD
          let ⟨n', v, R⟩ ← pMatD
          if h : n' = n then
            let R' : Mat n v := h ▸ R
            pure (match fit .ols X R' with
                  | none => "error:singular"
                  | some f =>
                      match arBiasCorrector X f.pinv o with
                      | none => "error:singular"
                      | some iM =>
                          let rh := arBiasCorrect iM R'
                          fmtM (arBiasM X f.pinv o) ++ sepB ++ fmtM iM ++ sepB ++
                            fmtM (fun (a : Fin o) (j : Fin v) => rh a j))
          else failure) rest with
      | some s => s
      | none => "bad-op"
  | "iterfit" :: rest =>
      -- iterfit order niter X y(n×1) : successive rho, one section per iteration
      match runP (do
          let o ← pNat; let it ← pNat
          let ⟨n, _, X⟩ ← pMatD
          let ⟨n', v, Y⟩ ← pMatD
          if h : n' = n then
            if hv : v = 1 then
              let Y' : Mat n 1 := hv ▸ h ▸ Y
              pure (match iterFit X (fun t => Y' t ⟨0, by omega⟩) o it (List.replicate o 0) with
                    | none => "error:undefined"
                    | some rs => sepB.intercalate (rs.map fun r => " ".intercalate (r.map fmtApprox)))
            else failure
          else failure) rest with
      | some s => s
      | none => "bad-op"
  | "labs3" :: rest =>
      -- labs3 axis ols|kalman X d0 d1 d2 data : beta | s2
      match runP (do
          let ax ← pNat
          let m ← pTok
          let ⟨_, _, X⟩ ← pMatD
          let Y ← pArr3
          if m = "ols" then pure (labs3 ax false X Y)
          else if m = "kalman" then pure (labs3 ax true X Y)
          else failure) rest with
      | some s => s
      | none => "bad-op"
  | "glmcon" :: rest =>
      -- glmcon steps X Y c : bins | exact ar1*steps | effect | variance of the t contrast after fit(model='ar1')
      match runP (do
          let steps ← pNat
          let ⟨n, p, X⟩ ← pMatD
          let ⟨n', v, Y⟩ ← pMatD
          if h : n' = n then
            let Y' : Mat n v := h ▸ Y
            let c ← pVecD p
            pure (match fit .ols X Y' with
                  | none => "error:singular"
                  | some f0 =>
                      let rA := toArr2 (resid X Y' f0)
                      let r : Mat n v := ofArr2 rA
                      let bins := (List.finRange v).map (ar1Bin steps r)
                      if bins.all Option.isSome then
                        let lab : Fin v → Int := fun j => ((bins.getD j.1 none).getD 0)
                        let exact : List Rat := (List.finRange v).map fun j =>
                          let (a, d) := ar1Parts r j; a / d * (steps : Rat)
                        match glmAr1Con steps X Y' lab c with
                        | some (e, va) => fmtInts ((List.finRange v).map lab) ++ sepB ++ fmtRats exact ++ sepB ++
                                            fmtV e ++ sepB ++ fmtV va
                        | none => "error:singular"
                      else "error:nan")
          else failure) rest with
      | some s => s
      | none => "bad-op"
  | "scaling" :: rest =>
      match runP pMatD rest with
      | some ⟨_, _, Y⟩ =>
          let (S, m) := dataScaling Y
          if (List.finRange _).all (fun j => m j ≠ 0) then fmtM S ++ sepB ++ fmtV m else "error:nan"
      | none => "bad-op"
  | ["guard", "abstract", name] => guardAbstract name
  | ["guard", "fmri", model, nY, nX] =>
      match nY.toNat?, nX.toNat? with
      | some a, some b => guardFmriT fmriModelsTable model a b
      | _, _ => "bad-op"
  | ["guard", "labs", model, method, nY, nX] =>
      match nY.toNat?, nX.toNat? with
      | some a, some b => guardLabsT labsModelsTable model method a b
      | _, _ => "bad-op"
  | toks => run toks

end NipyVerif.C05
