/-
C19 (wave 5) — driver entry for the functions regenerated from the source text (`Gen/C19Expr.lean`): the line
kinds `xlargestcc`, `xthreshcc`, `xcomputemask`, `xtsd` take the arguments of `largestcc`, `threshcc`,
`computemask`, `tsd` and evaluate the *generated* terms, so the correspondence compares the real code with what the
translator read from it (besides the `*_as_modelled` theorems of Props/C19E).  No Mathlib.
-/
import NipyVerif.Gen.C19Expr

namespace NipyVerif.C19

def runF : Toks → String
  | "xlargestcc" :: rest =>
      match runP (do let nb ← pNat; let m ← pList pRat; let l ← pList pNat; pure (nb, m, l)) rest with
      | some (nb, m, l) => fmtExcept ((Ex.largestCC m l nb).map fmtBools)
      | none => "bad-op"
  | "xthreshcc" :: rest =>
      match runP (do let _nb ← pNat; let thr ← pRat; let m ← pList pRat; let l ← pList pNat
                     pure (thr, m, l)) rest with
      | some (thr, m, l) => fmtRats (Ex.thresholdCC m l thr true)
      | none => "bad-op"
  | "xcomputemask" :: rest =>
      match runP (do let m ← pRat; let M ← pRat; let ez ← pBool; let v ← pList pRat; let r ← pList pRat
                     pure (m, M, ez, v, r)) rest with
      | some (m, M, ez, v, r) =>
          fmtExcept ((Ex.computeMask (fun _ => .error "error:leaf") (fun b _ => b) v (some r) m M false 0 ez).map
            (fun tm => fmtRat tm.1 ++ " | " ++ fmtBools tm.2))
      | none => "bad-op"
  | "xtsd" :: rest =>
      match runP (do let v ← pView; let ta ← pInt; let sa ← pOptInt; pure (v, ta, sa)) rest with
      | some (v, ta, sa) =>
          let r := Ex.tsdAxes v.shape.length ta sa >>= fun ps =>
            Ex.tsdBackRoll v.shape.length ps.2 >>= fun q => tsdOn v ps.1 q
          fmtExcept (r.map (fun o =>
            " | ".intercalate [fmtRats o.res.volds, fmtRats o.res.sliceds.flatten, fmtRats o.res.means,
              fmtNats o.volShape, fmtRats o.diffMeanFlat, fmtRats o.maxVolFlat]))
      | none => "bad-op"
  | "xintersectb" :: rest =>
      -- the cap passed on the line is ignored: the regenerated constant is used
      match runP (do let thr ← pRat; let _cap ← pRat; let k ← pNat; let n ← pNat
                     let ms ← pMany (pMany pRat n) k; pure (thr, ms)) rest with
      | some (thr, ms) => fmtExcept ((Ex.intersectMasks (fun _ => .error "error:leaf") ms thr false).map fmtBools)
      | none => "bad-op"
  | toks => runD toks

end NipyVerif.C19
