/-
C10N — the NumPy / SciPy primitives the regenerated source terms of
`Gen/C10Grid.lean` are written in (`np.convolve`, `np.arange` is `arange` of
Model/C10, `interp1d` is `interpVal`).  Kept apart from Model/C10 so that the
generated file can import it without a cycle.
-/
import NipyVerif.Model.C10
namespace NipyVerif.C10

/-- `np.convolve(f, g)` (mode 'full'): `len f + len g - 1` entries, entry `k`
    is `Σ_{i ≤ k} f i * g (k - i)`; ValueError (`none`) for an empty operand. -/
def npConvolve (fv gv : List Rat) : Option (List Rat) :=
  if fv.isEmpty ∨ gv.isEmpty then none
  else
    let fa := fv.toArray
    let ga := gv.toArray
    some ((List.range (fv.length + gv.length - 1)).map (fun k => convAt (ofArr fa) (ofArr ga) k))

end NipyVerif.C10
