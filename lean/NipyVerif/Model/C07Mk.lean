/-
C07 — further pieces of `hemodynamic_models.py` / `design_matrix.py` inside the model:

* `_gamma_difference_hrf` and the derivative kernels with the gamma densities as *parameters*
  (lists of values): difference, normalisation `hrf /= hrf.sum()`, finite differences;
  the number of time stamps `int(float(time_length) / dt)`;
* `_make_drift`: number of columns and names of the block for every drift model;
* `_convolve_regressors`: oversampling handed to `compute_regressor`, names in condition order;
* `_full_rank` on the singular values (the SVD itself is a parameter).
-/
import NipyVerif.Model.C07Dm
namespace NipyVerif.C07

/-! ### kernels -/

/-- Python's `int(x)` on a float: truncation towards zero -/
def truncInt (x : Rat) : Int := if 0 ≤ x then Rat.floor x else Rat.ceil x

/-- number of time stamps of a gamma-difference kernel: `int(float(time_length) / (tr / oversampling))` -/
def hrfLen (tr : Rat) (os : Nat) (timeLength : Rat) : Int := truncInt (timeLength / (tr / (os : Rat)))

/-- `gamma.pdf(…) - ratio * gamma.pdf(…)`, entry by entry -/
def gammaRaw (g1 g2 : List Rat) (ratio : Rat) : List Rat := List.zipWith (fun a b => a - ratio * b) g1 g2

/-- `_gamma_difference_hrf` given the two gamma densities at the time stamps: `hrf /= hrf.sum()` -/
def gammaDiffHrf (g1 g2 : List Rat) (ratio : Rat) : List Rat :=
  let raw := gammaRaw g1 g2 ratio
  let s := raw.sum
  raw.map (fun x => x / s)

/-- `1. / step * (h1 - h0)` (`spm_time_derivative`, `glover_time_derivative`, `spm_dispersion_derivative`) -/
def derivKernel (step : Rat) (h1 h0 : List Rat) : List Rat := List.zipWith (fun a b => 1 / step * (a - b)) h1 h0

/-! ### `_make_drift` -/

/-- `(drift.shape[1], names)` of `_make_drift(drift_model, frametimes, order, hfcut)`, or its refusal -/
def makeDrift (model : String) (n : Nat) (dt hfcut : Rat) (order : Nat) : Except String (Nat × List String) :=
  (driftCols model n dt hfcut order).map (fun k => (k, driftNames k))

/-! ### `_convolve_regressors` -/

/-- `oversampling = 1 if hrf_model == 'fir' else 16` -/
def convolveOversampling : Hrf → Nat
  | .fir => 1
  | _ => 16

/-- `hnames`: the names of every condition (in `np.unique` order), basis functions innermost -/
def convolveNames (conds : List String) (m : Hrf) (d : List Nat) : List String :=
  conds.flatMap (fun c => regressorNames c m d)

/-! ### `_full_rank` on the singular values

`c = smax / smin; if c < cmax: return X, c` — in floating point `smax / 0` is `inf` (or `nan`),
never `< cmax`, so a zero singular value always takes the regularising branch. -/

def fullRankKeep (smax smin cmax : Rat) : Bool := decide (smin ≠ 0) && decide (smax / smin < cmax)

def fullRankLda (smax smin cmax : Rat) : Rat := (smax - cmax * smin) / (cmax - 1)

/-- singular values of the matrix `_full_rank` returns, and the condition number it reports -/
def fullRank (s : List Rat) (cmax : Rat) : List Rat × Rat :=
  let smax := listMax s
  let smin := listMin s
  if fullRankKeep smax smin cmax then (s, smax / smin)
  else (s.map (fun x => x + fullRankLda smax smin cmax), cmax)

/-! ### protocol -/

def runMk : Toks → Option String
  | "gammahrf" :: rest =>
      match runP (do let g1 ← pList pRat; let g2 ← pList pRat; let r ← pRat; pure (g1, g2, r)) rest with
      | some (g1, g2, r) =>
          if g1.length ≠ g2.length then some "error:valueError"
          else some (fmtRats (gammaDiffHrf g1 g2 r))
      | none => some "bad-op"
  | "hrflen" :: rest =>
      match runP (do let tr ← pRat; let os ← pNat; let tl ← pRat; pure (tr, os, tl)) rest with
      | some (tr, os, tl) => if tr = 0 ∨ os = 0 then some "error:zeroDivision" else some (toString (hrfLen tr os tl))
      | none => some "bad-op"
  | "dkernel" :: rest =>
      match runP (do let st ← pRat; let h1 ← pList pRat; let h0 ← pList pRat; pure (st, h1, h0)) rest with
      | some (st, h1, h0) =>
          if h1.length ≠ h0.length then some "error:valueError" else some (fmtRats (derivKernel st h1 h0))
      | none => some "bad-op"
  | "mkdrift" :: rest =>
      match runP (do let m ← pName; let n ← pNat; let dt ← pRat; let hf ← pRat; let o ← pNat
                     pure (m, n, dt, hf, o)) rest with
      | some (m, n, dt, hf, o) => match makeDrift m n dt hf o with
          | .ok (k, names) => some (toString k ++ " " ++ fmtNames names)
          | .error e => some e
      | none => some "bad-op"
  | "convnames" :: rest =>
      match runP (do let hrf ← pName; let cs ← pList pName; let fd ← pList pNat; pure (hrf, cs, fd)) rest with
      | some (hrf, cs, fd) => match hrfOfName hrf with
          | none => some "error:valueError"
          | some m => some (toString (convolveOversampling m) ++ " " ++ fmtNames (convolveNames (uniqueNames cs) m fd))
      | none => some "bad-op"
  | "fullrank" :: rest =>
      match runP (do let s ← pList pRat; let c ← pRat; pure (s, c)) rest with
      | some (s, c) =>
          if s.isEmpty then some "error:valueError"
          else
            let (s', c') := fullRank s c
            some ((if fullRankKeep (listMax s) (listMin s) c then "keep " else "shift ") ++ fmtRat c' ++ " | " ++ fmtRats s')
      | none => some "bad-op"
  | _ => none

end NipyVerif.C07
