/-
C12 (part B) — operation histories on ONE `Forest` object.

`nipy/algorithms/graph/forest.py` keeps, besides `parents`, two derived fields:
`edges`/`weights` (written by `define_graph_attributes`) and `children`
(a cache: `[]` until `compute_children` fills it).  Every public method is
modelled as the code reads it:

  * `isleaf`, `all_distances`, `cc`, `compute_children`   read `edges`/`weights`;
  * `get_children`, `get_descendants`, `merge_simple_branches`,
    `propagate_upward`, `leaves_of_a_subtree`             read the cache
    (filling it first when it is empty);
  * `isroot`, `check`, `depth_from_leaves`, `subforest`, … read `parents`.

State = (V, parents, edges, cache).  `stepF` is one method call: new state and the
value returned.  `runHist` folds it over a history.  The flag `stale` selects the
*unpatched* `reorder_from_leaves_to_roots`, which kept the cache across the
renumbering (used only to state what goes wrong, never by the driver's `fhist`).

Abstractions (said here once): `np.argsort` of the depths is an input of `reorder`
(validated as a sort of the depths, as in part A); `get_descendants` sorts at every
recursion level, the model sorts once at the end (same sorted list); the edge array
is read through the child→parent map it encodes for `all_distances` (Dijkstra on
the unit-weight undirected tree = path through the first common ancestor) and for
`cc` (`lil_cc` numbers components by their smallest vertex).
-/
import NipyVerif.Model.C12
namespace NipyVerif.C12

/-! ## State -/

structure FEdge where
  src : Nat
  dst : Nat
  w : Int
deriving Repr, DecidableEq

structure FState where
  V : Nat
  parents : List Nat
  edges : List FEdge
  cache : Option (List (List Nat))
deriving DecidableEq

/-- vertices that are not their own parent: `nonzero(parents != arange(V))` -/
def nonRoots (V : Nat) (p : Nat → Nat) : List Nat := (List.range V).filter (fun i => p i != i)

/-- `define_graph_attributes`: `(i, p i)` with weight `+1`, then `(p i, i)` with weight `-1` -/
def defEdges (V : Nat) (p : Nat → Nat) : List FEdge :=
  (nonRoots V p).map (fun i => ⟨i, p i, 1⟩) ++ (nonRoots V p).map (fun i => ⟨p i, i, -1⟩)

/-- `isleaf`: `leaves[edges[weights > 0, 1]] = 0` -/
def isLeafE (edges : List FEdge) (v : Nat) : Bool :=
  !(edges.any (fun e => decide (0 < e.w) && e.dst == v))

/-- row `v` of the matrix of the edges with negative weight (`compute_children`) -/
def childrenE (V : Nat) (edges : List FEdge) (v : Nat) : List Nat :=
  (List.range V).filter (fun c => edges.any (fun e => decide (e.w < 0) && e.src == v && e.dst == c))

/-- `compute_children` -/
def computeChildren (V : Nat) (edges : List FEdge) : List (List Nat) :=
  (List.range V).map (childrenE V edges)

/-- the child→parent map the edge array encodes -/
def pOfEdges (edges : List FEdge) (v : Nat) : Nat :=
  match edges.find? (fun e => decide (0 < e.w) && e.src == v) with
  | some e => e.dst
  | none => v

def kidsOf (c : List (List Nat)) (v : Nat) : List Nat := c.getD v []

/-- what the methods read: `kids` is the cache as it is once filled -/
structure View where
  V : Nat
  p : Nat → Nat
  leaf : Nat → Bool
  kids : Nat → List Nat
  pe : Nat → Nat
  hasEdge : Bool

def viewOf (s : FState) : View :=
  { V := s.V
    p := fnOf s.parents
    leaf := isLeafE s.edges
    kids := kidsOf (s.cache.getD (computeChildren s.V s.edges))
    pe := pOfEdges s.edges
    hasEdge := !s.edges.isEmpty }

/-- the same record computed from the parent array alone -/
def specView (V : Nat) (p : Nat → Nat) : View :=
  { V := V, p := p, leaf := isLeaf V p, kids := children V p, pe := p,
    hasEdge := !(nonRoots V p).isEmpty }

/-! ## Values returned -/

inductive Obs
  | err (name : String)
  | unit
  | nat (n : Nat)
  | bool (b : Bool)
  | nats (l : List Nat)
  | ints (l : List Int)
  | bools (l : List Bool)
  | natss (l : List (List Nat))
  | dists (l : List (List (Option Nat)))
deriving Repr, DecidableEq

inductive FOp
  | getChildren (v : Int)
  | getDescendants (v : Int) (excl : Bool)
  | isLeaf
  | isRoot
  | subforest (valid : List Bool) (replace : Bool)
  | merge (replace : Bool)
  | allDistances (seed : Option (List Nat))
  | depth
  | reorder (order : List Nat)
  | leavesOfSubtree (ids : List Nat) (custom : Bool)
  | treeDepth
  | propAnd (prop : List Bool)
  | propUp (label : List Int)
  | check
  | computeChildren
  | defineGraphAttributes
  | cc
deriving Repr

/-! ## The queries, over a view -/

/-- recursion of `get_descendants` over a children table -/
def descRecK (kids : Nat → List Nat) : Nat → Nat → List Nat
  | 0, v => [v]
  | fuel + 1, v => v :: (kids v).flatMap (descRecK kids fuel)

def descK (V : Nat) (kids : Nat → List Nat) (v : Nat) : List Nat :=
  (descRecK kids V v).mergeSort (fun a b => a ≤ b)

def depthInitL (V : Nat) (leaf : Nat → Bool) : List Int :=
  (List.range V).map (fun v => if leaf v then 0 else -1)

def depthL (vw : View) : List Int := depthLoop vw.V vw.p vw.V (depthInitL vw.V vw.leaf)

/-- `v, p v, p (p v), …` (`n + 1` entries) -/
def chain (p : Nat → Nat) : Nat → Nat → List Nat
  | 0, v => [v]
  | n + 1, v => v :: chain p n (p v)

/-- distance in the undirected unit-weight forest: up to the first common ancestor and down -/
def treeDist (V : Nat) (p : Nat → Nat) (u v : Nat) : Option Nat :=
  let cu := chain p V u
  let cv := chain p V v
  match cu.findIdx? (fun a => cv.contains a) with
  | some i => some (i + cv.idxOf (cu.getD i 0))
  | none => none

def dedupNat (l : List Nat) : List Nat :=
  l.foldl (fun acc x => if acc.contains x then acc else acc ++ [x]) []

/-- `cc()`: components numbered by their smallest vertex -/
def ccLabels (V : Nat) (p : Nat → Nat) : List Nat :=
  let roots := (List.range V).map (iter p V)
  let firsts := dedupNat roots
  roots.map (fun r => firsts.idxOf r)

def inOpt (c : Option Nat) (l : List Nat) : Bool :=
  match c with
  | some x => l.contains x
  | none => false

/-- inner `while` of `leaves_of_a_subtree`: climb from `ca` until the subtree holds `com` -/
def climb (p : Nat → Nat) (desc : Nat → List Nat) (com : Option Nat) : Nat → Nat → Option Nat
  | 0, ca => some ca
  | fuel + 1, ca =>
    if inOpt com (desc ca) then some ca
    else
      let ca' := p ca
      if p ca' == ca' && !inOpt com (desc ca') then none
      else climb p desc com fuel ca'

/-- `leaves_of_a_subtree(ids, custom)` once every id is known to be a leaf -/
def leavesOfSubtree (vw : View) (ids : List Nat) (custom : Bool) : Bool :=
  let desc := descK vw.V vw.kids
  let com := ids.foldl (fun com i => climb vw.p desc com (vw.V + 1) i) (some (ids.headD 0))
  match com with
  | some a =>
    let b := ((desc a).filter vw.leaf).all ids.contains
    if !custom then b
    else
      let ks := vw.kids a
      if ks.length > 2 then
        ks.all (fun v =>
          let st := (desc v).filter vw.leaf
          if st.length > 1 then st.all ids.contains else true)
      else b
  | none =>
    if !custom then ((List.range vw.V).filter vw.leaf).all ids.contains
    else
      let cc := ccLabels vw.V vw.pe
      ids.all (fun i =>
        let st := (List.range vw.V).filter (fun u => cc.getD u 0 == cc.getD i 0 && vw.leaf u)
        if st.length > 1 then st.all ids.contains else true)

def propAndL (vw : View) (prop : List Bool) : List Bool :=
  let td := (lmax (depthL vw) + 1).toNat
  let a0 : Array Bool :=
    ((List.range vw.V).map (fun v => if vw.leaf v then prop.getD v false else true)).toArray
  let pass := fun (q : Array Bool) =>
    (List.range vw.V).foldl
      (fun q i => if q.getD i true == false then q.setIfInBounds (vw.p i) false else q) q
  (iter pass td a0).toList

def propUpL (vw : View) (label : List Int) : List Int :=
  let depth := (depthL vw).toArray
  let md := (lmax depth.toList).toNat
  let kids := ((List.range vw.V).map vw.kids).toArray
  let res := (List.range md).foldl (fun (lab : Array Int) j0 =>
    (List.range vw.V).foldl (fun (lab : Array Int) i =>
      if depth.getD i 0 == ((j0 + 1 : Nat) : Int) then
        match dedup ((kids.getD i []).map (fun c => lab.getD c 0)) with
        | [x] => lab.setIfInBounds i x
        | _ => lab
      else lab) lab) label.toArray
  res.toList

/-- parent array built by `subforest(valid)` (not yet checked by the constructor) -/
def subParents (vw : View) (valid : List Bool) : List Nat :=
  subforestParents vw.V vw.p (fun i => valid.getD i false)

def mergeValidK (vw : View) : List Bool :=
  (List.range vw.V).map (fun v => (vw.kids v).length != 1)

/-- Python list indexing `children[v]` for an `int` `v ≥ -V` -/
def pyIndex (V : Nat) (v : Int) : Option Nat :=
  if 0 ≤ v then (if v.toNat < V then some v.toNat else none)
  else if 0 ≤ (V : Int) + v then some ((V : Int) + v).toNat else none

/-- the value a method returns, given what it reads -/
def answer (vw : View) : FOp → Obs
  | .getChildren v =>
    if (vw.V : Int) - 1 < v then .err "valueError"
    else if v = -1 then .natss ((List.range vw.V).map vw.kids)
    else match pyIndex vw.V v with
      | some i => .nats (vw.kids i)
      | none => .err "indexError"
  | .getDescendants v excl =>
    if v < 0 then .err "valueError"
    else if (vw.V : Int) - 1 < v then .err "valueError"
    else
      let d := descK vw.V vw.kids v.toNat
      .nats (if excl then d.filter (· != v.toNat) else d)
  | .isLeaf => .bools ((List.range vw.V).map vw.leaf)
  | .isRoot => .bools ((List.range vw.V).map (isRoot vw.p))
  | .subforest valid _ =>
    if valid.length ≠ vw.V then .err "valueError"
    else
      let sp := subParents vw valid
      if forestOk sp.length sp then .nats sp else .err "valueError"
  | .merge _ =>
    let sp := subParents vw (mergeValidK vw)
    if forestOk sp.length sp then .nats sp else .err "valueError"
  | .allDistances seed =>
    if !vw.hasEdge then .dists (List.replicate vw.V (List.replicate vw.V none))
    else
      let seeds := seed.getD (List.range vw.V)
      .dists (seeds.map (fun s => (List.range vw.V).map (fun v => treeDist vw.V vw.pe s v)))
  | .depth => .ints (depthL vw)
  | .reorder order =>
    if validOrder vw.V (lget (depthL vw)) order then .nats order else .err "invalid-order"
  | .leavesOfSubtree ids custom =>
    if ids.isEmpty then .err "indexError"
    else if ids.any (fun i => decide (vw.V ≤ i)) then .err "indexError"
    else if ids.any (fun i => !vw.leaf i) then .err "valueError"
    else .bool (leavesOfSubtree vw ids custom)
  | .treeDepth => .nat ((lmax (depthL vw) + 1).toNat)
  | .propAnd prop =>
    if prop.length ≠ vw.V then .err "valueError" else .bools (propAndL vw prop)
  | .propUp label =>
    if label.length ≠ vw.V then .err "valueError" else .ints (propUpL vw label)
  | .check => .bool (check vw.V vw.p)
  | .computeChildren => .unit
  | .defineGraphAttributes => .unit
  | .cc => .nats (ccLabels vw.V vw.pe)

/-! ## One method call on the object -/

/-- does this call reach `compute_children` through the `children == []` test? -/
def fills (vw : View) : FOp → Bool
  | .getChildren v => !decide ((vw.V : Int) - 1 < v)
  | .getDescendants v _ => !(decide (v < 0) || decide ((vw.V : Int) - 1 < v))
  | .merge _ => true
  | .leavesOfSubtree ids _ =>
    !(ids.isEmpty || ids.any (fun i => decide (vw.V ≤ i)) || ids.any (fun i => !vw.leaf i))
  | .propUp label => label.length == vw.V
  | _ => false

/-- `Forest(V, parents)` -/
def mkForest (ps : List Nat) : Option FState :=
  if forestOk ps.length ps then some ⟨ps.length, ps, defEdges ps.length (fnOf ps), none⟩ else none

/-- the cache after the call (before any renumbering) -/
def afterCache (s : FState) (op : FOp) : FState :=
  match op with
  | .computeChildren => { s with cache := some (computeChildren s.V s.edges) }
  | _ =>
    if fills (viewOf s) op then { s with cache := some (s.cache.getD (computeChildren s.V s.edges)) }
    else s

/-- the history continues on the forest a call returned (if it returned one) -/
def continueOn (ans : Obs) (s1 : FState) : FState :=
  match ans with
  | .nats sp => (mkForest sp).getD s1
  | _ => s1

/-- the object after the call; `s1` is `afterCache s op`, `ans` the value returned -/
def nextState (stale : Bool) (s s1 : FState) (op : FOp) (ans : Obs) : FState :=
  match op with
  | .reorder order =>
    (match ans with
     | .nats _ =>
       let np := reorder s.V (fnOf s.parents) (fnOf order)
       { V := s.V, parents := np, edges := defEdges s.V (fnOf np),
         cache := if stale then s1.cache else none }
     | _ => s1)
  | .subforest _ replace => if replace then continueOn ans s1 else s1
  | .merge replace => if replace then continueOn ans s1 else s1
  | .defineGraphAttributes => { s1 with edges := defEdges s.V (fnOf s.parents) }
  | _ => s1

/-- one call: `(state afterwards, value returned)`.  `stale = true` is the unpatched
    `reorder_from_leaves_to_roots` (cache kept). -/
def stepF (stale : Bool) (s : FState) (op : FOp) : FState × Obs :=
  (nextState stale s (afterCache s op) op (answer (viewOf s) op), answer (viewOf s) op)

/-- a history: the states passed through and the values returned, in order -/
def runHist (stale : Bool) : FState → List FOp → List (FState × Obs)
  | _, [] => []
  | s, op :: ops => let r := stepF stale s op; r :: runHist stale r.1 ops

/-- the state an object is in after a history -/
def finalState (stale : Bool) (s : FState) (ops : List FOp) : FState :=
  ops.foldl (fun s op => (stepF stale s op).1) s

/-! ## Line protocol -/

def fmtNatss (l : List (List Nat)) : String := " ; ".intercalate (l.map fmtNats)

def fmtDist (d : Option Nat) : String := match d with | some n => toString n | none => "inf"

def fmtObs : Obs → String
  | .err n => "error:" ++ n
  | .unit => "none"
  | .nat n => toString n
  | .bool b => if b then "1" else "0"
  | .nats l => "[" ++ fmtNats l ++ "]"
  | .ints l => "[" ++ fmtInts l ++ "]"
  | .bools l => "[" ++ fmtBools l ++ "]"
  | .natss l => "[" ++ fmtNatss l ++ "]"
  | .dists l => "[" ++ " ; ".intercalate (l.map (fun r => " ".intercalate (r.map fmtDist))) ++ "]"

def fmtState (s : FState) : String :=
  fmtNats s.parents ++ " | " ++
    " ".intercalate (s.edges.map (fun e => s!"{e.src}>{e.dst}:{e.w}")) ++ " | " ++
    (match s.cache with | none => "-" | some c => fmtNatss c)

def pOp : P FOp := do
  let t ← pTok
  match t with
  | "gc" => do let v ← pInt; pure (.getChildren v)
  | "gd" => do let v ← pInt; let x ← pBool; pure (.getDescendants v x)
  | "leaf" => pure .isLeaf
  | "root" => pure .isRoot
  | "sub" => do let r ← pBool; let va ← pList pBool; pure (.subforest va r)
  | "merge" => do let r ← pBool; pure (.merge r)
  | "dist" => do
      let some_ ← pBool
      if some_ then do let l ← pList pNat; pure (.allDistances (some l)) else pure (.allDistances none)
  | "depth" => pure .depth
  | "reorder" => do let o ← pList pNat; pure (.reorder o)
  | "lst" => do let c ← pBool; let ids ← pList pNat; pure (.leavesOfSubtree ids c)
  | "tdepth" => pure .treeDepth
  | "pand" => do let l ← pList pBool; pure (.propAnd l)
  | "pup" => do let l ← pList pInt; pure (.propUp l)
  | "check" => pure .check
  | "cch" => pure .computeChildren
  | "dga" => pure .defineGraphAttributes
  | "cc" => pure .cc
  | _ => failure

/-- `fhist V p₀ … p_{V-1} n op₁ … opₙ` → per call `value ~ state`, joined by ` # ` -/
def runFHist (rest : Toks) : String :=
  match runP (do let ps ← pList pNat; let ops ← pList pOp; pure (ps, ops)) rest with
  | none => "bad-op"
  | some (ps, ops) =>
    if !ps.all (fun x => decide (x < ps.length)) then "bad-op" else
    match mkForest ps with
    | none => "error:valueError"
    | some s0 =>
      " # ".intercalate (fmtState s0 :: (runHist false s0 ops).map (fun r => fmtObs r.2 ++ " ~ " ++ fmtState r.1))

/-- constructor guards of `Forest.__init__` with the parent array as given (signed):
    size, every value inside `0..V-1`, `check()` -/
def forestOkI (V : Nat) (ps : List Int) : Bool :=
  ps.all (fun x => decide (0 ≤ x) && decide (x < (V : Int))) && forestOk V (ps.map Int.toNat)

/-! ### the unpatched guard (`parents.max() > V` only), with NumPy's wrap-around indexing -/

/-- `parents[w]` for a possibly negative `w` (NumPy wraps once; further out is an `IndexError`: `none`) -/
def pWrap (V : Nat) (ps : List Int) (w : Int) : Option Int :=
  let k := if w < 0 then w + V else w
  if 0 ≤ k ∧ k < V then ps[k.toNat]? else none

/-- inner `while` of `check` on the raw array -/
def walkWrap (V : Nat) (ps : List Int) (v : Int) : Nat → Int → Nat → Option Bool
  | 0, _, _ => some false
  | fuel + 1, w, q =>
    match pWrap V ps w with
    | none => none
    | some pw =>
      if pw = w then some true
      else if pw = v then some false
      else if q + 1 > V then some false
      else walkWrap V ps v fuel pw (q + 1)

/-- the constructor before the range guard was tightened: `some true` = object built,
    `some false` = `ValueError`, `none` = `IndexError` -/
def forestOkUnpatched (V : Nat) (ps : List Int) : Option Bool :=
  if V < 1 ∨ ps.length ≠ V ∨ ps.any (fun x => decide ((V : Int) < x)) then some false
  else if V = 1 then some true
  else (List.range V).foldl (fun acc (v : Nat) => match acc with
    | some true => walkWrap V ps (v : Int) (V + 2) (v : Int) 0
    | r => r) (some true)

def runB : Toks → String
  | "fhist" :: rest => runFHist rest
  | "forest" :: rest =>
    match runP (do let v ← pNat; let ps ← pList pInt; pure (v, ps)) rest with
    | some (v, ps) => if forestOkI v ps then "ok" else "error:valueError"
    | none => "bad-op"
  | ts => run ts

end NipyVerif.C12
