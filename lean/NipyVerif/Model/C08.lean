/-
C08 — model of nipy/algorithms/registration/affine.py (`rotation_vec2mat`,
`to_matrix44`, `Affine/Affine2D/Rigid/Rigid2D/Similarity/Similarity2D`
parameter get/set, `as_affine`, `from_matrix44` sign fixes, `compose` class
dispatch and matrix product, `inv`), transform.py (generic `Transform.compose`),
chain_transform.py (`ChainTransform.apply`) and polyaffine.py / polyaffine.c
(`apply`, `compose`, `left_compose`).

Exact rational arithmetic.  Transcendental / iterative numerics are *inputs* of
the model: `‖r‖`, `sin`, `cos`, `exp`, the SVD factors, the cube root, the
Gaussian weights.  The literal tables and constants of aff.py (param_inds, `_set_param` index
tables, preconditioner layout, compose class selection, thresholds) come from
`Gen/C08Tables.lean`, regenerated from the source text at every run.
`rotation_mat2vec` (quaternion eigen-decomposition + `acos`), `from_matrix44` in full, the
helpers, object histories, `ChainTransform` construction and `PolyAffine` in full are in
`Model/C08B.lean`.
-/
import NipyVerif.Model.Common
import NipyVerif.Gen.C08Tables
namespace NipyVerif.C08

/-! ### 3-vectors, 3×3 matrices, affine maps (4×4 with last row `0 0 0 1`) -/

@[ext] structure V3 where
  x : Rat
  y : Rat
  z : Rat
deriving DecidableEq, Repr

@[ext] structure M3 where
  a11 : Rat
  a12 : Rat
  a13 : Rat
  a21 : Rat
  a22 : Rat
  a23 : Rat
  a31 : Rat
  a32 : Rat
  a33 : Rat
deriving DecidableEq, Repr

namespace V3
def zero : V3 := ⟨0, 0, 0⟩
def add (a b : V3) : V3 := ⟨a.x + b.x, a.y + b.y, a.z + b.z⟩
def sub (a b : V3) : V3 := ⟨a.x - b.x, a.y - b.y, a.z - b.z⟩
def neg (a : V3) : V3 := ⟨-a.x, -a.y, -a.z⟩
def smul (c : Rat) (a : V3) : V3 := ⟨c * a.x, c * a.y, c * a.z⟩
def sdiv (a : V3) (c : Rat) : V3 := ⟨a.x / c, a.y / c, a.z / c⟩
def dot (a b : V3) : Rat := a.x * b.x + a.y * b.y + a.z * b.z
def toList (a : V3) : List Rat := [a.x, a.y, a.z]
end V3

namespace M3
def one : M3 := ⟨1, 0, 0, 0, 1, 0, 0, 0, 1⟩
def zero : M3 := ⟨0, 0, 0, 0, 0, 0, 0, 0, 0⟩
def diag (d : V3) : M3 := ⟨d.x, 0, 0, 0, d.y, 0, 0, 0, d.z⟩
def add (a b : M3) : M3 :=
  ⟨a.a11 + b.a11, a.a12 + b.a12, a.a13 + b.a13, a.a21 + b.a21, a.a22 + b.a22, a.a23 + b.a23,
   a.a31 + b.a31, a.a32 + b.a32, a.a33 + b.a33⟩
def smul (c : Rat) (a : M3) : M3 :=
  ⟨c * a.a11, c * a.a12, c * a.a13, c * a.a21, c * a.a22, c * a.a23, c * a.a31, c * a.a32, c * a.a33⟩
def neg (a : M3) : M3 := smul (-1) a
def sdiv (a : M3) (c : Rat) : M3 :=
  ⟨a.a11 / c, a.a12 / c, a.a13 / c, a.a21 / c, a.a22 / c, a.a23 / c, a.a31 / c, a.a32 / c, a.a33 / c⟩
def mul (a b : M3) : M3 :=
  ⟨a.a11 * b.a11 + a.a12 * b.a21 + a.a13 * b.a31,
   a.a11 * b.a12 + a.a12 * b.a22 + a.a13 * b.a32,
   a.a11 * b.a13 + a.a12 * b.a23 + a.a13 * b.a33,
   a.a21 * b.a11 + a.a22 * b.a21 + a.a23 * b.a31,
   a.a21 * b.a12 + a.a22 * b.a22 + a.a23 * b.a32,
   a.a21 * b.a13 + a.a22 * b.a23 + a.a23 * b.a33,
   a.a31 * b.a11 + a.a32 * b.a21 + a.a33 * b.a31,
   a.a31 * b.a12 + a.a32 * b.a22 + a.a33 * b.a32,
   a.a31 * b.a13 + a.a32 * b.a23 + a.a33 * b.a33⟩
def mulVec (a : M3) (v : V3) : V3 :=
  ⟨a.a11 * v.x + a.a12 * v.y + a.a13 * v.z,
   a.a21 * v.x + a.a22 * v.y + a.a23 * v.z,
   a.a31 * v.x + a.a32 * v.y + a.a33 * v.z⟩
def transpose (a : M3) : M3 := ⟨a.a11, a.a21, a.a31, a.a12, a.a22, a.a32, a.a13, a.a23, a.a33⟩
def det (a : M3) : Rat :=
  a.a11 * (a.a22 * a.a33 - a.a23 * a.a32) - a.a12 * (a.a21 * a.a33 - a.a23 * a.a31)
    + a.a13 * (a.a21 * a.a32 - a.a22 * a.a31)
/-- adjugate (transposed cofactor matrix): `a * adj a = det a • 1` -/
def adj (a : M3) : M3 :=
  ⟨a.a22 * a.a33 - a.a23 * a.a32, a.a13 * a.a32 - a.a12 * a.a33, a.a12 * a.a23 - a.a13 * a.a22,
   a.a23 * a.a31 - a.a21 * a.a33, a.a11 * a.a33 - a.a13 * a.a31, a.a13 * a.a21 - a.a11 * a.a23,
   a.a21 * a.a32 - a.a22 * a.a31, a.a12 * a.a31 - a.a11 * a.a32, a.a11 * a.a22 - a.a12 * a.a21⟩
/-- cross-product matrix `Sn` of `rotation_vec2mat` -/
def skew (n : V3) : M3 := ⟨0, -n.z, n.y, n.z, 0, -n.x, -n.y, n.x, 0⟩
def toList (a : M3) : List Rat := [a.a11, a.a12, a.a13, a.a21, a.a22, a.a23, a.a31, a.a32, a.a33]
/-- proper rotation: orthogonal with determinant one -/
def IsRotation (a : M3) : Prop := mul (transpose a) a = one ∧ det a = 1
end M3

/-- an affine map `x ↦ m x + t`, i.e. the 4×4 matrix `[m t; 0 0 0 1]` -/
@[ext] structure Aff where
  m : M3
  t : V3
deriving DecidableEq, Repr

namespace Aff
def one : Aff := ⟨M3.one, V3.zero⟩
/-- `nibabel.affines.apply_affine` on one point -/
def apply (a : Aff) (p : V3) : V3 := (a.m.mulVec p).add a.t
/-- `np.dot(A, B)` of two such 4×4 matrices -/
def mul (a b : Aff) : Aff := ⟨a.m.mul b.m, (a.m.mulVec b.t).add a.t⟩
/-- `scipy.linalg.inv` (exact); singular matrices are refused (`LinAlgError`) -/
def inv (a : Aff) : Option Aff :=
  if a.m.det = 0 then none
  else
    let mi := (a.m.adj).sdiv a.m.det
    some ⟨mi, (mi.mulVec a.t).neg⟩
def det (a : Aff) : Rat := a.m.det
/-- rows of the 4×4 matrix (for the tie with the generic list `matMul`) -/
def toM44 (a : Aff) : List (List Rat) :=
  [[a.m.a11, a.m.a12, a.m.a13, a.t.x], [a.m.a21, a.m.a22, a.m.a23, a.t.y],
   [a.m.a31, a.m.a32, a.m.a33, a.t.z], [0, 0, 0, 1]]
def toList (a : Aff) : List Rat :=
  [a.m.a11, a.m.a12, a.m.a13, a.t.x, a.m.a21, a.m.a22, a.m.a23, a.t.y,
   a.m.a31, a.m.a32, a.m.a33, a.t.z]
end Aff

/-! ### Constants of affine.py (binary64 values, exact; regenerated from the source text by the
translator `harness/props/c08_tables.py` into `Gen/C08Tables.lean`) -/

/-- `MAX_ANGLE = 1e10 * 2 * np.pi` -/
def maxAngle : Rat := Gen.C08.maxAngle
/-- `SMALL_ANGLE = 1e-30` -/
def smallAngle : Rat := Gen.C08.smallAngle
/-- `MAX_DIST = 1e10` -/
def maxDist : Rat := Gen.C08.maxDist

/-- `threshold(x, th) = np.maximum(np.minimum(x, th), -th)` -/
def threshold (x th : Rat) : Rat :=
  let m := if x ≤ th then x else th
  if m ≥ -th then m else -th

def thresholdV (v : V3) (th : Rat) : V3 := ⟨threshold v.x th, threshold v.y th, threshold v.z th⟩

/-! ### `rotation_vec2mat` -/

/-- Rodrigues formula `I + s·Sn + (1 − c)·Sn²` on an axis `n` and `(s, c) = (sin θ, cos θ)` -/
def rodrigues (n : V3) (s c : Rat) : M3 :=
  (M3.one.add (M3.smul s (M3.skew n))).add (M3.smul (1 - c) ((M3.skew n).mul (M3.skew n)))

/-- small-angle branch: `I + (1 − θ²/6)·Sr + (1/2 − θ²/24)·Sr²` -/
def taylorRot (r : V3) (theta : Rat) : M3 :=
  let t2 := theta * theta
  (M3.one.add (M3.smul (1 - t2 / 6) (M3.skew r))).add
    (M3.smul (1 / 2 - t2 / 24) ((M3.skew r).mul (M3.skew r)))

/-- external numerics of one rotation vector: `θ = ‖r‖`, `sin θ`, `cos θ` -/
structure Trig where
  theta : Rat
  s : Rat
  c : Rat
deriving Repr

/-- `rotation_vec2mat(r)` with its three branches -/
def rotationVec2Mat (r : V3) (g : Trig) : M3 :=
  if g.theta > maxAngle then M3.one
  else if g.theta > smallAngle then rodrigues (r.sdiv g.theta) g.s g.c
  else taylorRot r g.theta

/-! ### The 12 natural parameters -/

@[ext] structure Vec12 where
  p0 : Rat
  p1 : Rat
  p2 : Rat
  p3 : Rat
  p4 : Rat
  p5 : Rat
  p6 : Rat
  p7 : Rat
  p8 : Rat
  p9 : Rat
  p10 : Rat
  p11 : Rat
deriving DecidableEq, Repr

namespace Vec12
def zero : Vec12 := ⟨0, 0, 0, 0, 0, 0, 0, 0, 0, 0, 0, 0⟩
def get (v : Vec12) : Nat → Rat
  | 0 => v.p0 | 1 => v.p1 | 2 => v.p2 | 3 => v.p3 | 4 => v.p4 | 5 => v.p5
  | 6 => v.p6 | 7 => v.p7 | 8 => v.p8 | 9 => v.p9 | 10 => v.p10 | 11 => v.p11
  | _ => 0
def set (v : Vec12) (i : Nat) (x : Rat) : Vec12 :=
  match i with
  | 0 => { v with p0 := x } | 1 => { v with p1 := x } | 2 => { v with p2 := x }
  | 3 => { v with p3 := x } | 4 => { v with p4 := x } | 5 => { v with p5 := x }
  | 6 => { v with p6 := x } | 7 => { v with p7 := x } | 8 => { v with p8 := x }
  | 9 => { v with p9 := x } | 10 => { v with p10 := x } | 11 => { v with p11 := x }
  | _ => v
def translation (v : Vec12) : V3 := ⟨v.p0, v.p1, v.p2⟩
def rotation (v : Vec12) : V3 := ⟨v.p3, v.p4, v.p5⟩
def logScale (v : Vec12) : V3 := ⟨v.p6, v.p7, v.p8⟩
def preRotation (v : Vec12) : V3 := ⟨v.p9, v.p10, v.p11⟩
def toList (v : Vec12) : List Rat :=
  [v.p0, v.p1, v.p2, v.p3, v.p4, v.p5, v.p6, v.p7, v.p8, v.p9, v.p10, v.p11]
end Vec12

/-- the 12-vector with entries `f 0 … f 11` -/
def Vec12.ofFn (f : Nat → Rat) : Vec12 :=
  ⟨f 0, f 1, f 2, f 3, f 4, f 5, f 6, f 7, f 8, f 9, f 10, f 11⟩

/-- `preconditioner(radius)`: `1/radius` in the slots the source lays out so, `1` elsewhere -/
def preconditioner (radius : Rat) : Vec12 :=
  let r := 1 / radius
  Vec12.ofFn (fun i => if Gen.C08.precondInv.getD i false then r else 1)

/-- external numerics of one `to_matrix44` call -/
structure Ext where
  rot : Trig          -- of `t[3:6]`
  scales : V3         -- `np.exp(threshold(t[6:9], LOG_MAX_DIST))`
  pre : Trig          -- of `t[9:12]`
deriving Repr

/-- `to_matrix44(t)` for `t.size == 12`: linear part `R·S·Q`, thresholded translation -/
def toMatrix44 (v : Vec12) (e : Ext) : Aff :=
  let R := rotationVec2Mat v.rotation e.rot
  let Q := rotationVec2Mat v.preRotation e.pre
  ⟨R.mul ((M3.diag e.scales).mul Q), thresholdV v.translation maxDist⟩

/-- `as_affine`: the reflection flag negates the linear part -/
def asAffine (v : Vec12) (direct : Bool) (e : Ext) : Aff :=
  let T := toMatrix44 v e
  if direct then T else ⟨T.m.neg, T.t⟩

/-! ### Transform classes, parameter subsets -/

inductive Cls | affine | affine2d | rigid | rigid2d | similarity | similarity2d
deriving DecidableEq, Repr

def Cls.all : List Cls := [.affine, .affine2d, .rigid, .rigid2d, .similarity, .similarity2d]

/-- `param_inds` (the literal lists of the source, regenerated) -/
def paramInds : Cls → List Nat
  | .affine => Gen.C08.indsAffine
  | .affine2d => Gen.C08.indsAffine2D
  | .rigid => Gen.C08.indsRigid
  | .rigid2d => Gen.C08.indsRigid2D
  | .similarity => Gen.C08.indsSimilarity
  | .similarity2d => Gen.C08.indsSimilarity2D

/-- `_get_param`: `(vec12 / precond)[param_inds]` -/
def getParam (c : Cls) (v pc : Vec12) : List Rat :=
  (paramInds c).map (fun i => v.get i / pc.get i)

/-- `(target index in vec12, source index in p)` pairs written by `_set_param`;
    `Similarity` / `Similarity2D` replicate the scale into slots 6, 7, 8. -/
def setPairs : Cls → List (Nat × Nat)
  | .similarity => Gen.C08.simTargets.zip Gen.C08.simSources
  | .similarity2d => Gen.C08.sim2dTargets.zip Gen.C08.sim2dSources
  | c => (paramInds c).zip (List.range (paramInds c).length)

/-- the two similarity classes index `p` with a fancy index (IndexError when short,
    silently ignores extra entries); the others assign by broadcasting. -/
def fancySet : Cls → Bool
  | .similarity => true
  | .similarity2d => true
  | _ => false

def assign (v pc : Vec12) (p : List Rat) (pairs : List (Nat × Nat)) : Vec12 :=
  pairs.foldl (fun acc ik => acc.set ik.1 (p.getD ik.2 0 * pc.get ik.1)) v

/-- `_set_param` with numpy's refusals -/
def setParam (c : Cls) (v pc : Vec12) (p : List Rat) : Except String Vec12 :=
  if fancySet c then
    if (setPairs c).all (fun ik => ik.2 < p.length) then .ok (assign v pc p (setPairs c))
    else .error "error:indexError"
  else if p.length = (paramInds c).length then .ok (assign v pc p (setPairs c))
  else if p.length = 1 then
    .ok (assign v pc p ((paramInds c).map (fun i => (i, 0))))   -- broadcast
  else .error "error:valueError"

/-! ### `from_matrix44`: sign conventions (SVD / cube root are inputs) -/

/-- orthogonal factors after the sign fixes, and the `_direct` flag -/
structure Decomp where
  R : M3
  Q : M3
  direct : Bool
deriving DecidableEq, Repr

/-- `Affine.from_matrix44` after `R, s, Q = svd(A)`; `d0` is the flag before the call
    (the method only ever clears it). -/
def svdFix (d0 : Bool) (U Vt : M3) : Decomp :=
  let R := if U.det < 0 then U.neg else U
  let Q := if U.det < 0 then Vt.neg else Vt
  if Q.det < 0 then ⟨R, Q.neg, false⟩ else ⟨R, Q, d0⟩

/-- `Rigid.from_matrix44`: rotation block and flag -/
def rigidFix (d0 : Bool) (A : M3) : M3 × Bool :=
  if A.det < 0 then (A.neg, false) else (A, d0)

/-- `Similarity.from_matrix44`: `s` is `max(|det A|^(1/3), TINY)` (input) -/
def simFix (d0 : Bool) (A : M3) (s : Rat) : M3 × Bool :=
  if A.det < 0 then (A.neg.sdiv s, false) else (A.sdiv s, d0)

/-! ### `compose` class selection -/

def subset (a b : List Nat) : Bool := a.all (fun i => b.contains i)

def Cls.ofIdx : Nat → Cls
  | 1 => .affine2d | 2 => .rigid | 3 => .rigid2d | 4 => .similarity | 5 => .similarity2d | _ => .affine

/-- the `if / elif / else` of `Affine.compose` as the translator read it: `(test, result)` rules in
    source order (test 0: `self_inds ⊆ other_inds`, otherwise `other_inds ⊆ self_inds`; result 0:
    `other.__class__`, otherwise `self.__class__`), then the fallback class -/
def dispatchWith (rules : List (Nat × Nat)) (els : Nat) (self other : Cls) : Cls :=
  match rules with
  | [] => Cls.ofIdx els
  | (t, r) :: rest =>
      if (if t = 0 then subset (paramInds self) (paramInds other)
          else subset (paramInds other) (paramInds self))
      then (if r = 0 then other else self)
      else dispatchWith rest els self other

/-- class of `self.compose(other)` for two affine-family transforms -/
def dispatch (self other : Cls) : Cls :=
  dispatchWith Gen.C08.dispatchRules Gen.C08.dispatchElse self other

/-! ### Transforms, generic composition, chains -/

/-- a transform object: affine family (class + its 4×4 `as_affine()`), or a generic
    `Transform(func)` -/
inductive Xf
  | aff (c : Cls) (a : Aff)
  | gen (f : V3 → V3)

namespace Xf
def app : Xf → V3 → V3
  | aff _ a => a.apply
  | gen f => f
/-- `self.compose(other)`: `Affine.compose` for two affines (class dispatch + matrix
    product), otherwise `Transform(self.apply).compose(other)` / `Transform.compose`. -/
def compose : Xf → Xf → Xf
  | aff c a, aff d b => aff (dispatch c d) (a.mul b)
  | x, y => gen (fun p => x.app (y.app p))
/-- `inv` exists on the affine family only -/
def inv : Xf → Except String Xf
  | aff c a => match a.inv with
      | some b => .ok (aff c b)
      | none => .error "error:linalgError"
  | gen _ => .error "error:attributeError"
end Xf

/-- finite compose / inv programs over an environment of leaf transforms -/
inductive Prog
  | leaf (k : Nat)
  | comp (a b : Prog)
  | inv (a : Prog)
deriving Repr

def Prog.eval (env : List Xf) : Prog → Except String Xf
  | .leaf k => match env[k]? with
      | some x => .ok x
      | none => .error "bad-op"
  | .comp a b => do
      let x ← Prog.eval env a
      let y ← Prog.eval env b
      pure (x.compose y)
  | .inv a => do
      let x ← Prog.eval env a
      x.inv

/-- `ChainTransform.apply`: `post.compose(optimizable.compose(pre)).apply(pts)` -/
def chainApply (pre opt post : Xf) (p : V3) : V3 := (post.compose (opt.compose pre)).app p

/-- generic leaves the correspondence check uses (exact over ℚ) -/
def genQuad (p : V3) : V3 := ⟨p.x * p.y + 1, p.y - p.z, p.z * p.x⟩
def genAbs (p : V3) : V3 :=
  ⟨if p.x < 0 then -p.x else p.x, if p.y < 0 then -p.y else p.y, if p.z < 0 then -p.z else p.z⟩

/-! ### PolyAffine (Gaussian weights are inputs) -/

/-- `Σ wᵢ·Tᵢ` as in `_add_weighted_affine` (linear part and translation column) -/
def wsum : List (Rat × Aff) → Aff
  | [] => ⟨M3.zero, V3.zero⟩
  | (w, a) :: r => ⟨(M3.smul w a.m).add (wsum r).m, (V3.smul w a.t).add (wsum r).t⟩

def wtotal (l : List (Rat × Aff)) : Rat := (l.map (·.1)).sum

/-- `TINY` of polyaffine.c (1e-200 as binary64 is not needed exactly: only `W < TINY` is
    tested, with `W` a sum of exponentials; the model is told the clamped total). -/
def polyPoint (l : List (Rat × Aff)) (wclamped : Rat) (y : V3) : V3 :=
  ((wsum l).apply y).sdiv wclamped

/-- `PolyAffine.apply` on one point: global affine first, then the weighted local affines
    evaluated at the transformed point. -/
def polyApply (glob : Option Aff) (l : List (Rat × Aff)) (wclamped : Rat) (x : V3) : V3 :=
  polyPoint l wclamped (match glob with | some g => g.apply x | none => x)

/-! ### Line protocol -/

def pV3 : P V3 := do let x ← pRat; let y ← pRat; let z ← pRat; pure ⟨x, y, z⟩
def pM3 : P M3 := do
  let a ← pRat; let b ← pRat; let c ← pRat; let d ← pRat; let e ← pRat
  let f ← pRat; let g ← pRat; let h ← pRat; let i ← pRat
  pure ⟨a, b, c, d, e, f, g, h, i⟩
/-- 12 numbers: rows of the 3×4 block -/
def pAff : P Aff := do
  let a ← pRat; let b ← pRat; let c ← pRat; let tx ← pRat
  let d ← pRat; let e ← pRat; let f ← pRat; let ty ← pRat
  let g ← pRat; let h ← pRat; let i ← pRat; let tz ← pRat
  pure ⟨⟨a, b, c, d, e, f, g, h, i⟩, ⟨tx, ty, tz⟩⟩
def pVec12 : P Vec12 := do
  let a ← pV3; let b ← pV3; let c ← pV3; let d ← pV3
  pure ⟨a.x, a.y, a.z, b.x, b.y, b.z, c.x, c.y, c.z, d.x, d.y, d.z⟩
def pTrig : P Trig := do let t ← pRat; let s ← pRat; let c ← pRat; pure ⟨t, s, c⟩
def pCls : P Cls := do
  let t ← pTok
  match t with
  | "Affine" => pure .affine | "Affine2D" => pure .affine2d | "Rigid" => pure .rigid
  | "Rigid2D" => pure .rigid2d | "Similarity" => pure .similarity
  | "Similarity2D" => pure .similarity2d | _ => failure

def Cls.name : Cls → String
  | .affine => "Affine" | .affine2d => "Affine2D" | .rigid => "Rigid" | .rigid2d => "Rigid2D"
  | .similarity => "Similarity" | .similarity2d => "Similarity2D"

def pLeaf : P Xf := do
  let t ← pTok
  match t with
  | "A" => do let c ← pCls; let a ← pAff; pure (.aff c a)
  | "G" => do
      let k ← pTok
      match k with
      | "quad" => pure (.gen genQuad)
      | "abs" => pure (.gen genAbs)
      | _ => failure
  | _ => failure

/-- prefix notation `L k | C e e | I e` (fuel = remaining tokens) -/
def pProg : Nat → P Prog
  | 0 => failure
  | fuel + 1 => do
      let t ← pTok
      match t with
      | "L" => do let k ← pNat; pure (.leaf k)
      | "C" => do let a ← pProg fuel; let b ← pProg fuel; pure (.comp a b)
      | "I" => do let a ← pProg fuel; pure (.inv a)
      | _ => failure

def fmtV3s (l : List V3) : String := fmtRats (l.flatMap V3.toList)

def fmtXf (x : Xf) (pts : List V3) : String :=
  (match x with | .aff c _ => c.name | .gen _ => "Transform") ++ " " ++ fmtV3s (pts.map x.app)

def fmtBool (b : Bool) : String := if b then "1" else "0"

def run : Toks → String
  | "vec2mat" :: rest =>
      match runP (do let r ← pV3; let g ← pTrig; pure (r, g)) rest with
      | some (r, g) => fmtRats (rotationVec2Mat r g).toList
      | none => "bad-op"
  | "asaffine" :: rest =>
      match runP (do let v ← pVec12; let d ← pBool; let g ← pTrig; let s ← pV3; let h ← pTrig
                     pure (v, d, (⟨g, s, h⟩ : Ext))) rest with
      | some (v, d, e) => fmtRats (asAffine v d e).toList
      | none => "bad-op"
  | "precond" :: rest =>
      match runP pRat rest with
      | some r => if r = 0 then "error:zeroDivision" else fmtRats (preconditioner r).toList
      | none => "bad-op"
  | "getparam" :: rest =>
      match runP (do let c ← pCls; let v ← pVec12; let pc ← pVec12; pure (c, v, pc)) rest with
      | some (c, v, pc) => fmtRats (getParam c v pc)
      | none => "bad-op"
  | "setparam" :: rest =>
      match runP (do let c ← pCls; let v ← pVec12; let pc ← pVec12; let p ← pList pRat
                     pure (c, v, pc, p)) rest with
      | some (c, v, pc, p) =>
          match setParam c v pc p with
          | .ok w => fmtRats w.toList
          | .error e => e
      | none => "bad-op"
  | "dispatch" :: rest =>
      match runP (do let a ← pCls; let b ← pCls; pure (a, b)) rest with
      | some (a, b) => (dispatch a b).name
      | none => "bad-op"
  | "svdfix" :: rest =>
      match runP (do let d ← pBool; let u ← pM3; let v ← pM3; pure (d, u, v)) rest with
      | some (d, u, v) =>
          let r := svdFix d u v
          fmtBool r.direct ++ " " ++ fmtRats (r.R.toList ++ r.Q.toList)
      | none => "bad-op"
  | "rigidfix" :: rest =>
      match runP (do let d ← pBool; let a ← pM3; pure (d, a)) rest with
      | some (d, a) => let r := rigidFix d a; fmtBool r.2 ++ " " ++ fmtRats r.1.toList
      | none => "bad-op"
  | "simfix" :: rest =>
      match runP (do let d ← pBool; let a ← pM3; let s ← pRat; pure (d, a, s)) rest with
      | some (d, a, s) =>
          if s = 0 then "bad-op" else
          let r := simFix d a s; fmtBool r.2 ++ " " ++ fmtRats r.1.toList
      | none => "bad-op"
  | "apply" :: rest =>
      match runP (do let a ← pAff; let p ← pList pV3; pure (a, p)) rest with
      | some (a, p) => fmtV3s (p.map a.apply)
      | none => "bad-op"
  | "mul" :: rest =>
      match runP (do let a ← pAff; let b ← pAff; pure (a, b)) rest with
      | some (a, b) => fmtRats (a.mul b).toList
      | none => "bad-op"
  | "inv" :: rest =>
      match runP pAff rest with
      | some a => match a.inv with
          | some b => fmtRats b.toList
          | none => "error:linalgError"
      | none => "bad-op"
  | "prog" :: rest =>
      match runP (do let env ← pList pLeaf; let n ← pNat; let e ← pProg (n + 1)
                     let pts ← pList pV3; pure (env, e, pts)) rest with
      | some (env, e, pts) =>
          match e.eval env with
          | .ok x => fmtXf x pts
          | .error m => m
      | none => "bad-op"
  | "chain" :: rest =>
      match runP (do let a ← pLeaf; let b ← pLeaf; let c ← pLeaf; let pts ← pList pV3
                     pure (a, b, c, pts)) rest with
      | some (pre, opt, post, pts) => fmtV3s (pts.map (chainApply pre opt post))
      | none => "bad-op"
  | "poly" :: rest =>
      -- glob?, affines, then per point: x, weights, clamped total
      match runP (do
          let hg ← pBool
          let g ← (if hg then (do let a ← pAff; pure (some a)) else pure none : P (Option Aff))
          let affs ← pList pAff
          let pts ← pList (do let x ← pV3; let ws ← pMany pRat affs.length; let wc ← pRat
                              pure (x, ws, wc))
          pure (g, affs, pts)) rest with
      | some (g, affs, pts) =>
          if pts.any (fun t => t.2.2 = 0) then "bad-op" else
          fmtV3s (pts.map (fun t => polyApply g (t.2.1.zip affs) t.2.2 t.1))
      | none => "bad-op"
  | _ => "bad-op"

end NipyVerif.C08
