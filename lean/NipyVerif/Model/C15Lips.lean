/-
C15 — the loops of `Lips1d` / `Lips2d` / `Lips3d` (intvol.pyx) as written:
flat padded mask `fpmask`, flat data mask `fmask` and coordinates `fcoords`,
strides from `strides_from`, the per-voxel Gram matrix `D` (with the `% nvox`
wrap of the code), the tables `d2/d3/d4` with their `_convert_stride*` columns,
and the calls of `mu1_edge`, `mu1_tri`, `mu2_tri`, `mu1_tet`, `mu2_tet`,
`mu3_tet` with their weights and signs.

libm is a parameter (`Num`): `sqrt`, `acos` and the constant `PI`.  The
theorems (Props/C15B) hold for every `Num`, or under explicit algebraic laws of
`sq`; the driver instantiates `Num` with the certified rational square root
`sqrtQ` (floor of the exact root on a 2⁻⁶⁴ relative grid, `sqrtQ_spec` in
Props/C15B) and fixed-point `acosQ` / `piQ`.

Two forms:
* `lips?dLoop` — the code as written (flat indices);
* `lips?`      — the same sums over grid points of the padded mask
                 `Mask.at` and the coordinate field `X : Pt → List Rat`.
`lips?dLoop_eq` (Props/C15B) proves them equal.
-/
import NipyVerif.Model.C15
namespace NipyVerif.C15

/-- `sqrt`, `acos` (libm) and `PI` -/
structure Num where
  sq : Rat → Rat
  acos : Rat → Rat
  pi : Rat

/-! ### `mu*` as written (dot products in, libm through `Num`) -/

def mu3Tet (P : Num) (D00 D01 D02 D03 D11 D12 D13 D22 D23 D33 : Rat) : Rat :=
  let v2 := tetV2 D00 D01 D02 D03 D11 D12 D13 D22 D23 D33
  if v2 ≤ 0 then 0 else P.sq v2 / 6

def mu2Tri (P : Num) (D00 D01 D02 D11 D12 D22 : Rat) : Rat :=
  let L := triL D00 D01 D02 D11 D12 D22
  if L < 0 then 0 else P.sq L * (1 / 2)

def mu1Edge (P : Num) (D00 D01 D11 : Rat) : Rat := P.sq (edgeSq D00 D01 D11)

def mu1Tri (P : Num) (D00 D01 D02 D11 D12 D22 : Rat) : Rat :=
  (mu1Edge P D00 D01 D11 + mu1Edge P D00 D02 D22 + mu1Edge P D11 D12 D22) * (1 / 2)

def mu2Tet (P : Num) (D00 D01 D02 D03 D11 D12 D13 D22 D23 D33 : Rat) : Rat :=
  (mu2Tri P D00 D01 D02 D11 D12 D22 + mu2Tri P D00 D02 D03 D22 D23 D33
    + mu2Tri P D11 D12 D13 D22 D23 D33 + mu2Tri P D00 D01 D03 D11 D13 D33) * (1 / 2)

/-- `limited_acos` -/
def limitedAcos (P : Num) (val : Rat) : Rat :=
  if val ≥ 1 then 0 else if val ≤ -1 then P.pi else P.acos val

/-- `_mu1_tetface` -/
def mu1Tetface (P : Num) (Ds0s0 Ds0s1 Ds1s1 Ds0t0 Ds0t1 Ds1t0 Ds1t1 Dt0t0 Dt0t1 Dt1t1 : Rat) : Rat :=
  let A00 := Ds1s1 - 2 * Ds0s1 + Ds0s0
  if A00 ≤ 0 then 0 else
  let A11 := Dt0t0 - 2 * Ds0t0 + Ds0s0
  let A22 := Dt1t1 - 2 * Ds0t1 + Ds0s0
  let A01 := Ds1t0 - Ds0t0 - Ds0s1 + Ds0s0
  let A02 := Ds1t1 - Ds0t1 - Ds0s1 + Ds0s0
  let A12 := Dt0t1 - Ds0t0 - Ds0t1 + Ds0s0
  let length := P.sq A00
  let norm_proj0 := A11 - A01 * A01 / A00
  let norm_proj1 := A22 - A02 * A02 / A00
  let inner_prod_proj := A12 - A01 * A02 / A00
  let np_len := norm_proj0 * norm_proj1
  if np_len ≤ 0 then 0 else
  let acosval := limitedAcos P (inner_prod_proj / P.sq np_len)
  (P.pi - acosval) * length / (2 * P.pi)

def mu1Tet (P : Num) (D00 D01 D02 D03 D11 D12 D13 D22 D23 D33 : Rat) : Rat :=
  mu1Tetface P D00 D01 D11 D02 D03 D12 D13 D22 D23 D33
  + mu1Tetface P D00 D02 D22 D01 D03 D12 D23 D11 D13 D33
  + mu1Tetface P D00 D03 D33 D01 D02 D13 D23 D11 D12 D22
  + mu1Tetface P D11 D12 D22 D01 D13 D02 D23 D00 D03 D33
  + mu1Tetface P D11 D13 D33 D01 D12 D03 D23 D00 D02 D22
  + mu1Tetface P D22 D23 D33 D02 D12 D03 D13 D00 D01 D11

/-- Gram entries addressed by the position of the vertices in the simplex
    (`D[w_a, w_b]` in the code) -/
abbrev Gram := Nat → Nat → Rat

def tet3 (P : Num) (G : Gram) : Rat :=
  mu3Tet P (G 0 0) (G 0 1) (G 0 2) (G 0 3) (G 1 1) (G 1 2) (G 1 3) (G 2 2) (G 2 3) (G 3 3)
def tet2 (P : Num) (G : Gram) : Rat :=
  mu2Tet P (G 0 0) (G 0 1) (G 0 2) (G 0 3) (G 1 1) (G 1 2) (G 1 3) (G 2 2) (G 2 3) (G 3 3)
def tet1 (P : Num) (G : Gram) : Rat :=
  mu1Tet P (G 0 0) (G 0 1) (G 0 2) (G 0 3) (G 1 1) (G 1 2) (G 1 3) (G 2 2) (G 2 3) (G 3 3)
def tri2 (P : Num) (G : Gram) : Rat := mu2Tri P (G 0 0) (G 0 1) (G 0 2) (G 1 1) (G 1 2) (G 2 2)
def tri1 (P : Num) (G : Gram) : Rat := mu1Tri P (G 0 0) (G 0 1) (G 0 2) (G 1 1) (G 1 2) (G 2 2)
def edge1 (P : Num) (G : Gram) : Rat := mu1Edge P (G 0 0) (G 0 1) (G 1 1)

/-! ### Rational sums -/

def sumQ : Nat → (Nat → Rat) → Rat
  | 0, _ => 0
  | n + 1, f => sumQ n f + f n

def sum3Q (n0 n1 n2 : Nat) (f : Nat → Nat → Nat → Rat) : Rat :=
  sumQ n0 (fun i => sumQ n1 (fun j => sumQ n2 (fun k => f i j k)))

/-- the accumulators `(l0, l1, l2, l3)` -/
structure V4 where
  l0 : Int
  l1 : Rat
  l2 : Rat
  l3 : Rat

def V4.add (a b : V4) : V4 := ⟨a.l0 + b.l0, a.l1 + b.l1, a.l2 + b.l2, a.l3 + b.l3⟩
def V4.zero : V4 := ⟨0, 0, 0, 0⟩

def sumL4 : List V4 → V4
  | [] => V4.zero
  | a :: l => V4.add a (sumL4 l)

def sumV : Nat → (Nat → V4) → V4
  | 0, _ => V4.zero
  | n + 1, f => V4.add (sumV n f) (f n)

def sum3V (n0 n1 n2 : Nat) (f : Nat → Nat → Nat → V4) : V4 :=
  sumV n0 (fun i => sumV n1 (fun j => sumV n2 (fun k => f i j k)))

/-! ### `strides_from` (nipy/utils/arrays.py), `sorted`, `_convert_stride*` -/

/-- `np.cumprod` -/
def cumprod : List Nat → List Nat
  | [] => []
  | a :: l => a :: (cumprod l).map (a * ·)

/-- `strides_from(shape, dtype, order)`; `none` = `ValueError` (empty dtype) -/
def stridesFrom (itemsize : Nat) (shape : List Nat) (orderF : Bool) : Option (List Nat) :=
  if itemsize = 0 then none else
  if orderF then some (cumprod (itemsize :: shape.dropLast))
  else some (cumprod (itemsize :: shape.reverse.dropLast)).reverse

/-- `strides_from(shape, np.bool_)` as the loops call it -/
def cStrides (shape : List Nat) : List Nat := (cumprod (1 :: shape.reverse.dropLast)).reverse

def insertNat (a : Nat) : List Nat → List Nat
  | [] => [a]
  | b :: l => if a ≤ b then a :: b :: l else b :: insertNat a l

/-- `sorted(verts)` -/
def sortNat (l : List Nat) : List Nat := l.foldr insertNat []

/-- `_convert_stride3(v, stride1, (4,2,1))` -/
def convertStride3 (v : Nat) (st : List Nat) : Nat :=
  let v0 := v / st.getD 0 0
  let v' := v - v0 * st.getD 0 0
  let v1 := v' / st.getD 1 0
  let v2 := v' - v1 * st.getD 1 0
  v0 * 4 + v1 * 2 + v2 * 1

/-- `_convert_stride2(v, stride1, (2,1))` -/
def convertStride2 (v : Nat) (st : List Nat) : Nat :=
  let v0 := v / st.getD 0 0
  let v1 := v - v0 * st.getD 0 0
  v0 * 2 + v1 * 1

/-! ### the code as written -/

/-- `D[r, s]` of the loops: `rr = (index + cvertices[r]) % nvox`, … ;
    `res = Σ_l fcoords[l, ss] * fcoords[l, rr]` when `fmask[rr] * fmask[ss]`, else 0
    (`D[s, r]` gets the same value). -/
def gramD (fmask : Nat → Nat) (fcoords : List (Array Rat)) (nvox index : Nat) (cvert : List Nat) : Gram :=
  fun r s =>
    let rr := (index + cvert.getD r 0) % nvox
    let ss := (index + cvert.getD s 0) % nvox
    if fmask rr * fmask ss ≠ 0 then (fcoords.map (fun c => c.getD ss 0 * c.getD rr 0)).sum else 0

/-- one row `l` of `d4`: mask offsets `v` (columns 0-3), `D` indices `w` (columns 4-7) -/
def row4 (P : Num) (fp : Nat → Nat) (D : Gram) (pindex : Nat) (v w : List Nat) : V4 :=
  let m := fp (pindex + v.getD 0 0)
  if m ≠ 0 then
    let m := m * fp (pindex + v.getD 1 0) * fp (pindex + v.getD 2 0) * fp (pindex + v.getD 3 0)
    let G : Gram := fun a b => D (w.getD a 0) (w.getD b 0)
    ⟨-(m : Int), (m : Rat) * tet1 P G, -((m : Rat) * tet2 P G), (m : Rat) * tet3 P G⟩
  else V4.zero

def row3 (P : Num) (fp : Nat → Nat) (D : Gram) (pindex : Nat) (v w : List Nat) : V4 :=
  let m := fp (pindex + v.getD 0 0)
  if m ≠ 0 then
    let m := m * fp (pindex + v.getD 1 0) * fp (pindex + v.getD 2 0)
    let G : Gram := fun a b => D (w.getD a 0) (w.getD b 0)
    ⟨(m : Int), -((m : Rat) * tri1 P G), (m : Rat) * tri2 P G, 0⟩
  else V4.zero

def row2 (P : Num) (fp : Nat → Nat) (D : Gram) (pindex : Nat) (v w : List Nat) : V4 :=
  let m := fp (pindex + v.getD 0 0)
  if m ≠ 0 then
    let m := m * fp (pindex + v.getD 1 0)
    let G : Gram := fun a b => D (w.getD a 0) (w.getD b 0)
    ⟨-(m : Int), (m : Rat) * edge1 P G, 0, 0⟩
  else V4.zero

/-- `fpmask = pmask.reshape(-1)` for `pmask = zeros(shape + 1); pmask[:-1,:-1,:-1] = mask` -/
def fpmask3 (m : Mask) (f : Nat) : Nat :=
  let s1 := m.n1 + 1; let s2 := m.n2 + 1
  (m.at (f / (s1 * s2)) ((f / s2) % s1) (f % s2)).toNat

def fpmask2 (m : Mask) (f : Nat) : Nat :=
  let s1 := m.n1 + 1
  (m.at (f / s1) (f % s1) 0).toNat

/-- `mask.reshape(-1)` -/
def fmaskOf (m : Mask) (f : Nat) : Nat := m.bits.getD f 0

/-- `fpmask.sum()` -/
def maskSum (m : Mask) : Int := sum3 m.n0 m.n1 m.n2 m.at

/-- the main loop of `Lips3d` (after the squeeze test) -/
def lips3dLoop (P : Num) (m : Mask) (cs : List (Array Rat)) : V4 :=
  let strides := cStrides [m.n0 + 1, m.n1 + 1, m.n2 + 1]
  let dstrides := cStrides [m.n0, m.n1, m.n2]
  let ss0 := strides.getD 0 0; let ss1 := strides.getD 1 0; let ss2 := strides.getD 2 0
  let ss0d := dstrides.getD 0 0; let ss1d := dstrides.getD 1 0; let ss2d := dstrides.getD 2 0
  let verts := (List.range 2).flatMap (fun i => (List.range 2).flatMap (fun j => (List.range 2).map (fun k =>
    ss0d * i + ss1d * j + ss2d * k)))
  let cvert := sortNat verts
  let tbl := fun (k : Nat) => (table 3 k).map (fun s =>
    let ms := s.map (offset (ss0, ss1, ss2)); (ms, ms.map (fun v => convertStride3 v strides)))
  let d4 := tbl 4; let d3 := tbl 3; let d2 := tbl 2
  let nvox := m.n0 * m.n1 * m.n2
  let fp := fpmask3 m
  let acc := sum3V m.n0 m.n1 m.n2 (fun i j k =>
    let pindex := i * ss0 + j * ss1 + k * ss2
    let index := i * ss0d + j * ss1d + k * ss2d
    let D := gramD (fmaskOf m) cs nvox index cvert
    V4.add (sumL4 (d4.map (fun r => row4 P fp D pindex r.1 r.2)))
      (V4.add (sumL4 (d3.map (fun r => row3 P fp D pindex r.1 r.2)))
        (sumL4 (d2.map (fun r => row2 P fp D pindex r.1 r.2)))))
  { acc with l0 := acc.l0 + maskSum m }

/-- the main loop of `Lips2d` (mask of shape `(n0, n1)`, `n2 = 1` in the `Mask`) -/
def lips2dLoop (P : Num) (m : Mask) (cs : List (Array Rat)) : V4 :=
  let strides := cStrides [m.n0 + 1, m.n1 + 1]
  let dstrides := cStrides [m.n0, m.n1]
  let ss0 := strides.getD 0 0; let ss1 := strides.getD 1 0
  let ss0d := dstrides.getD 0 0; let ss1d := dstrides.getD 1 0
  let verts := (List.range 2).flatMap (fun i => (List.range 2).map (fun j => ss0d * i + ss1d * j))
  let cvert := sortNat verts
  let tbl := fun (k : Nat) => (table 2 k).map (fun s =>
    let ms := s.map (offset (ss0, ss1, 0)); (ms, ms.map (fun v => convertStride2 v strides)))
  let d3 := tbl 3; let d2 := tbl 2
  let npix := m.n0 * m.n1
  let fp := fpmask2 m
  let acc := sum3V m.n0 m.n1 1 (fun i j _ =>
    let pindex := i * ss0 + j * ss1
    let index := i * ss0d + j * ss1d
    let D := gramD (fmaskOf m) cs npix index cvert
    V4.add (sumL4 (d3.map (fun r => row3 P fp D pindex r.1 r.2)))
      (sumL4 (d2.map (fun r => row2 P fp D pindex r.1 r.2))))
  { acc with l0 := acc.l0 + maskSum m }

/-- `Lips1d`: no padding, `% s0` with the `(i+r) < s0` guards -/
def lips1dLoop (P : Num) (m : Mask) (cs : List (Array Rat)) : V4 :=
  let s0 := m.n0
  let mask_c := fmaskOf m
  let acc := sum3V s0 1 1 (fun i _ _ =>
    let D : Gram := fun r s =>
      let rr := (i + r) % s0
      let ss := (i + s) % s0
      if mask_c rr * mask_c ss * (if i + r < s0 then 1 else 0) * (if i + s < s0 then 1 else 0) ≠ 0
      then (cs.map (fun c => c.getD ss 0 * c.getD rr 0)).sum else 0
    let mm := mask_c i
    if mm ≠ 0 then
      let mm := mm * (mask_c ((i + 1) % s0) * (if i + 1 < s0 then 1 else 0))
      ⟨-(mm : Int), (mm : Rat) * mu1Edge P (D 0 0) (D 0 1) (D 1 1), 0, 0⟩
    else V4.zero)
  { acc with l0 := acc.l0 + maskSum m }

/-- `Lips2d` incl. its delegation (`mask.ndim == 1` never holds for a 2-d call) -/
def lips2d (P : Num) (m : Mask) (cs : List (Array Rat)) : V4 := lips2dLoop P m cs

/-- `Lips3d`: `np.squeeze` the mask; fewer than three axes left → the
    lower-dimensional function on the reshaped data (`value = zeros(4)`;
    when no axis is left `value[0]` is filled in only if the source has the
    `mask.ndim == 0` branch — `Gen.C15.lips3dZeroDim`, regenerated from the text) -/
def lips3d (P : Num) (m : Mask) (cs : List (Array Rat)) : V4 :=
  match [m.n0, m.n1, m.n2].filter (· ≠ 1) with
  | [_, _, _] => lips3dLoop P m cs
  | [a, b] => lips2d P ⟨a, b, 1, m.bits⟩ cs
  | [a] => lips1dLoop P ⟨a, 1, 1, m.bits⟩ cs
  | _ => if Gen.C15.lips3dZeroDim then ⟨m.at 0 0 0, 0, 0, 0⟩ else V4.zero

/-! ### the same sums over grid points -/

/-- Gram entries of the simplex `s` at voxel `x` for the coordinate field `X` -/
def gramAt (X : Pt → List Rat) (x : Pt) (s : List Pt) : Gram :=
  fun a b => dotv (X (padd x (s.getD a (0, 0, 0)))) (X (padd x (s.getD b (0, 0, 0))))

/-- the product of the mask values at the vertices, as a rational weight -/
def wt (M : Field) (x : Pt) (s : List Pt) : Rat := ((prodAt M x s : Int) : Rat)

/-- `Σ_{s ∈ tbl} m(s) · f(D restricted to s)` -/
def tsum (tbl : List (List Pt)) (M : Field) (X : Pt → List Rat) (x : Pt) (f : Gram → Rat) : Rat :=
  (tbl.map (fun s => wt M x s * f (gramAt X x s))).sum

def l3Vox (P : Num) (d : Nat) (M : Field) (X : Pt → List Rat) (x : Pt) : Rat :=
  tsum (table d 4) M X x (tet3 P)

def l2Vox (P : Num) (d : Nat) (M : Field) (X : Pt → List Rat) (x : Pt) : Rat :=
  tsum (table d 3) M X x (tri2 P) - tsum (table d 4) M X x (tet2 P)

def l1Vox (P : Num) (d : Nat) (M : Field) (X : Pt → List Rat) (x : Pt) : Rat :=
  tsum (table d 2) M X x (edge1 P) - tsum (table d 3) M X x (tri1 P) + tsum (table d 4) M X x (tet1 P)

/-- intrinsic volumes of the complex of the mask `M` on `[0,n0)×[0,n1)×[0,n2)`
    (dimension `d` of the triangulation), coordinates `X` -/
def lipsMu1 (P : Num) (d n0 n1 n2 : Nat) (M : Field) (X : Pt → List Rat) : Rat :=
  sum3Q n0 n1 n2 (fun i j k => l1Vox P d M X (i, j, k))
def lipsMu2 (P : Num) (d n0 n1 n2 : Nat) (M : Field) (X : Pt → List Rat) : Rat :=
  sum3Q n0 n1 n2 (fun i j k => l2Vox P d M X (i, j, k))
def lipsMu3 (P : Num) (d n0 n1 n2 : Nat) (M : Field) (X : Pt → List Rat) : Rat :=
  sum3Q n0 n1 n2 (fun i j k => l3Vox P d M X (i, j, k))

/-! ### certified rational square root, fixed-point `acos` and `π` for the driver -/

/-- `⌊√(p·q·4⁶⁴)⌋ / (q·2⁶⁴)` for `v = p/q > 0`: `sqrtQ v ≤ √v < sqrtQ v + 1/(q·2⁶⁴)`;
    0 for `v ≤ 0`. -/
def sqrtQ (v : Rat) : Rat :=
  if v ≤ 0 then 0 else
  mkRat (Nat.sqrt (v.num.toNat * v.den * 4 ^ 64)) (v.den * 2 ^ 64)

def fixBits : Nat := 96
/-- round down to the `2⁻⁹⁶` grid -/
def fix (x : Rat) : Rat := mkRat (x * (2 ^ fixBits : Nat)).floor (2 ^ fixBits)

/-- `Σ_{k<n} (-1)^k t^(2k+1)/(2k+1)` on the grid -/
def atanSeries (t : Rat) (n : Nat) : Rat :=
  let t2 := fix (t * t)
  let rec go (k : Nat) (pw acc : Rat) : Nat → Rat
    | 0 => acc
    | f + 1 =>
        let term := pw / ((2 * k + 1 : Nat) : Rat)
        go (k + 1) (fix (pw * t2)) (if k % 2 = 0 then acc + term else acc - term) f
  fix (go 0 t 0 n)

/-- `atan t` for `0 ≤ t`: three halvings `atan t = 2 atan (t / (1 + √(1+t²)))`, then the series -/
def atanQ (t : Rat) : Rat :=
  let h := fun (u : Rat) => fix (u / (1 + sqrtQ (1 + u * u)))
  let u := h (h (h (h t)))
  16 * atanSeries u 24

/-- Machin: `π = 16 atan(1/5) − 4 atan(1/239)` -/
def piQ : Rat := 16 * atanSeries (1 / 5) 70 - 4 * atanSeries (1 / 239) 22

/-- `acos x` for `-1 < x < 1` through `atan2(√(1−x²), x)` -/
def acosQ (x : Rat) : Rat :=
  let y := sqrtQ (1 - x * x)
  if x > 0 then
    (if y ≤ x then atanQ (y / x) else piQ / 2 - atanQ (x / y))
  else if x < 0 then
    (if y ≤ -x then piQ - atanQ (y / -x) else piQ / 2 + atanQ (-x / y))
  else piQ / 2

def numQ : Num := ⟨sqrtQ, acosQ, piQ⟩

/-! ### line protocol -/

def fmtV4 (v : V4) (d : Nat) : String :=
  fmtRats (([(v.l0 : Rat), v.l1, v.l2, v.l3].take (d + 1)).map fix)

def runLips : Toks → String
  | "lipsloop" :: rest =>
      -- the function `Lips<d>d` on a mask of shape (n0[, n1[, n2]]) (trailing extents given as 1)
      match runP (do let d ← pNat; let m ← pMask; let cs ← pCoords m; pure (d, m, cs)) rest with
      | some (d, m, cs) =>
          if ¬ m.binary then "error:valueError" else
          if d = 3 then fmtV4 (lips3d numQ m cs) 3
          else if d = 2 ∧ m.n2 = 1 then fmtV4 (lips2d numQ m cs) 2
          else if d = 1 ∧ m.n1 = 1 ∧ m.n2 = 1 then fmtV4 (lips1dLoop numQ m cs) 1
          else "bad-op"
      | none => "bad-op"
  | "lipsspec" :: rest =>
      -- the grid-point form, dimension d of the triangulation
      match runP (do let d ← pNat; let m ← pMask; let cs ← pCoords m; pure (d, m, cs)) rest with
      | some (d, m, cs) =>
          if d = 0 ∨ d > 3 then "bad-op" else
          if ¬ m.binary then "error:valueError" else
          let X := coordAt m.n1 m.n2 cs
          let l0 := if d = 3 then ec3 m.n0 m.n1 m.n2 m.at else if d = 2 then ec2 m.n0 m.n1 m.at
                    else ec1 m.n0 m.at
          fmtV4 ⟨l0, lipsMu1 numQ d m.n0 m.n1 m.n2 m.at X, lipsMu2 numQ d m.n0 m.n1 m.n2 m.at X,
                 lipsMu3 numQ d m.n0 m.n1 m.n2 m.at X⟩ d
      | none => "bad-op"
  | "sqrtq" :: rest =>
      match runP pRat rest with
      | some v => fmtRat (fix (sqrtQ v))
      | none => "bad-op"
  | "acosq" :: rest =>
      match runP pRat rest with
      | some v => if v ≤ -1 ∨ v ≥ 1 then "bad-op" else fmtRat (acosQ v)
      | none => "bad-op"
  | "strides" :: rest =>
      -- itemsize orderF shape…
      match runP (do let it ← pNat; let o ← pBool; let sh ← pList pNat; pure (it, o, sh)) rest with
      | some (it, o, sh) => match stridesFrom it sh o with
          | some s => fmtNats s
          | none => "error:valueError"
      | none => "bad-op"
  | _ => "bad-op"

end NipyVerif.C15
