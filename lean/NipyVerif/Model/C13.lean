/-
C13 — model of the mixture-model mechanics of
  nipy/algorithms/clustering/gmm.py   (`unweighted_likelihood_`, `unweighted_likelihood`,
      `likelihood`, `mixture_likelihood`, `map_label`, `pop`, `guess_regularizing`, `_Mstep`)
  nipy/algorithms/clustering/bgmm.py  (`normal_eval` quadratic form)
  nipy/algorithms/segmentation/mrf.c  (`_ngb_integrate`, `ve_step`)
  nipy/algorithms/segmentation/segmentation.py (`map_from_ppm`).

Exact rational arithmetic.  Transcendental externals are *parameters*:
`log 2π`, `log det B` and `k^(2/d)` are passed as the floats the implementation
computed (exact dyadic rationals); the model returns the *exponent* of every
Gaussian likelihood (the harness compares `exp` of it with the implementation);
the exponential transform of `ve_step` is passed as a table `E` whose
consistency with the model's own neighbourhood energies is checked by the harness.

Indexing: vectors are `Nat → Rat`, matrices `Nat → Nat → Rat`, sums are
`sumTo n f = Σ_{i<n} f i`; only indices below the stated sizes are ever read.
-/
import NipyVerif.Model.Common
namespace NipyVerif.C13

/-- `Σ_{i<n} f i` -/
def sumTo : Nat → (Nat → Rat) → Rat
  | 0, _ => 0
  | n + 1, f => sumTo n f + f n

/-! ### Quadratic forms: the three implementations of `dxᵀ B dx` and the diagonal one -/

/-- `np.sum(np.dot(dx, b) * dx, 1)` (`unweighted_likelihood_`, row vector times matrix) -/
def quadA (d : Nat) (b : Nat → Nat → Rat) (v : Nat → Rat) : Rat :=
  sumTo d (fun i => (sumTo d (fun j => v j * b j i)) * v i)

/-- `Σ_d (dx * np.dot(b, dx))[d]` (`unweighted_likelihood`, matrix times column vector) -/
def quadB (d : Nat) (b : Nat → Nat → Rat) (v : Nat → Rat) : Rat :=
  sumTo d (fun i => v i * (sumTo d (fun j => b i j * v j)))

/-- `np.dot(np.dot(P, dx), dx)` (`normal_eval`) -/
def quadN (d : Nat) (b : Nat → Nat → Rat) (v : Nat → Rat) : Rat :=
  sumTo d (fun i => (sumTo d (fun j => b i j * v j)) * v i)

/-- diagonal precision: `np.dot((m - x) ** 2, b)` -/
def quadDiag (d : Nat) (b : Nat → Rat) (v : Nat → Rat) : Rat :=
  sumTo d (fun i => v i ^ 2 * b i)

/-- the matrix `diag b` -/
def diagMat (b : Nat → Rat) : Nat → Nat → Rat := fun i j => if i = j then b i else 0

/-- log-density skeleton of every Gaussian likelihood of gmm.py:
    `w = -log(2π)·d; w += logdet; w -= q; w /= 2` -/
def logDens (d : Nat) (log2pi logdet q : Rat) : Rat := (-log2pi * d + logdet - q) / 2

/-- exponent of `unweighted_likelihood_` (full precision): `dx = m - x` -/
def logLikeA (d : Nat) (log2pi logdet : Rat) (b : Nat → Nat → Rat) (m x : Nat → Rat) : Rat :=
  logDens d log2pi logdet (quadA d b (fun j => m j - x j))

/-- exponent of `unweighted_likelihood` (full precision): `dx = x - m` -/
def logLikeB (d : Nat) (log2pi logdet : Rat) (b : Nat → Nat → Rat) (m x : Nat → Rat) : Rat :=
  logDens d log2pi logdet (quadB d b (fun j => x j - m j))

/-- exponent of `normal_eval`: `w0 = (log dP − d·log 2π)/2; w = w0 − q/2`, `dx = mu − x` -/
def logLikeN (d : Nat) (log2pi logdet : Rat) (b : Nat → Nat → Rat) (m x : Nat → Rat) : Rat :=
  (logdet - d * log2pi) / 2 - quadN d b (fun j => m j - x j) / 2

/-- exponent of both diagonal-precision likelihoods -/
def logLikeD (d : Nat) (log2pi logdet : Rat) (b : Nat → Rat) (m x : Nat → Rat) : Rat :=
  logDens d log2pi logdet (quadDiag d b (fun j => m j - x j))

/-! ### Weighting, mixture, memberships, arg-max -/

/-- `like *= weights` -/
def weighted (like : Nat → Nat → Rat) (w : Nat → Rat) : Nat → Nat → Rat := fun i k => like i k * w k

/-- `mixture_likelihood`: row sums of the weighted likelihood -/
def mixture (K : Nat) (wl : Nat → Nat → Rat) (i : Nat) : Rat := sumTo K (wl i)

/-- membership of one sample: `(row + tiny/K) / (Σ row + tiny)`
    (`pop`, `_Mstep`, `Estep`, `posterior`; same form as the `TINY` branch of `ve_step`). -/
def respRow (tiny : Rat) (K : Nat) (row : Nat → Rat) (k : Nat) : Rat :=
  (row k + tiny / K) / (sumTo K row + tiny)

/-- `nl = (like.T / sl).T` with the regularised normaliser -/
def resp (tiny : Rat) (K : Nat) (like : Nat → Nat → Rat) (i k : Nat) : Rat :=
  respRow tiny K (like i) k

/-- the historical normaliser `like / max(tiny, Σ like)` (kept for the partial statement) -/
def respClamp (tiny : Rat) (K : Nat) (row : Nat → Rat) (k : Nat) : Rat :=
  row k / max tiny (sumTo K row)

/-- `np.argmax` over indices `0..n-1`: first index of the maximum (0 for `n = 0`). -/
def argmax (f : Nat → Rat) : Nat → Nat
  | 0 => 0
  | n + 1 => if f (argmax f n) < f n then n else argmax f n

/-- `pop`: column sums of the memberships -/
def pop (n : Nat) (r : Nat → Rat) : Rat := sumTo n r

/-! ### `guess_regularizing` -/

def dataMean (n : Nat) (x : Nat → Nat → Rat) (j : Nat) : Rat := sumTo n (fun i => x i j) / n

/-- diagonal of `vx = dxᵀ dx / n` -/
def dataVar (n : Nat) (x : Nat → Nat → Rat) (j : Nat) : Rat :=
  sumTo n (fun i => (x i j - dataMean n x j) ^ 2) / n

/-- diagonal of `prior_scale`: `(1 / vx_jj) · c`, `c = exp(2/d · log k)` a parameter -/
def priorScale (c : Rat) (n : Nat) (x : Nat → Nat → Rat) (j : Nat) : Rat := 1 / dataVar n x j * c

/-- `pinv(prior_scale)` / `1.0 / prior_scale`: reciprocal of the diagonal -/
def invPriorScale (c : Rat) (n : Nat) (x : Nat → Nat → Rat) (j : Nat) : Rat := 1 / priorScale c n x j

/-! ### `_Mstep` for one component with memberships `r` (column of the normalised likelihood)

`pm` prior means, `ips` diagonal of the inverse prior scale, `ps` prior shrinkage,
`pdof` prior dof. -/

def sx (n : Nat) (r : Nat → Rat) (x : Nat → Nat → Rat) (j : Nat) : Rat := sumTo n (fun i => r i * x i j)

/-- `means = (like.T x + prior_means·prior_shrinkage) / (pop + prior_shrinkage)` -/
def mstepMean (n : Nat) (r : Nat → Rat) (x : Nat → Nat → Rat) (pm : Nat → Rat) (ps : Rat) (j : Nat) : Rat :=
  (sx n r x j + pm j * ps) / (pop n r + ps)

/-- `empmeans = like.T x / max(pop, tiny)` -/
def empMean (tiny : Rat) (n : Nat) (r : Nat → Rat) (x : Nat → Nat → Rat) (j : Nat) : Rat :=
  sx n r x j / max (pop n r) tiny

/-- `dx.T (like_k · dx)` -/
def empCovFull (tiny : Rat) (n : Nat) (r : Nat → Rat) (x : Nat → Nat → Rat) (j l : Nat) : Rat :=
  sumTo n (fun i => (x i j - empMean tiny n r x j) * (r i * (x i l - empMean tiny n r x l)))

/-- `apms = prior_shrinkage · pop / shrinkage` -/
def apms (n : Nat) (r : Nat → Rat) (ps : Rat) : Rat := ps * pop n r / (pop n r + ps)

/-- full covariance before the final `pinv` (the fitted covariance) -/
def mstepCovFull (tiny : Rat) (n d : Nat) (r : Nat → Rat) (x : Nat → Nat → Rat)
    (pm ips : Nat → Rat) (ps pdof : Rat) (j l : Nat) : Rat :=
  ((if j = l then ips j else 0) + empCovFull tiny n r x j l
    + (empMean tiny n r x j - pm j) * (empMean tiny n r x l - pm l) * apms n r ps)
    / (pdof + pop n r + d + 2)

/-- `np.sum(dx ** 2 * like_k, 0)` -/
def empCovDiag (tiny : Rat) (n : Nat) (r : Nat → Rat) (x : Nat → Nat → Rat) (j : Nat) : Rat :=
  sumTo n (fun i => (x i j - empMean tiny n r x j) ^ 2 * r i)

/-- diagonal covariance before the final reciprocal; the bias term is per axis,
    as in the diagonal of the full-precision update -/
def mstepCovDiag (tiny : Rat) (n d : Nat) (r : Nat → Rat) (x : Nat → Nat → Rat)
    (pm ips : Nat → Rat) (ps pdof : Rat) (j : Nat) : Rat :=
  (ips j + empCovDiag tiny n r x j + (empMean tiny n r x j - pm j) ^ 2 * apms n r ps)
    / (pdof + pop n r + d + 2)

/-- `weights = (prior_weights + pop) / Σ` with `prior_weights = 1/K` for every component -/
def mstepWeight (K : Nat) (pops : Nat → Rat) (k : Nat) : Rat :=
  (1 / (K : Rat) + pops k) / sumTo K (fun k' => 1 / (K : Rat) + pops k')

/-- per-axis affine map of a data set: `x'[i, j] = a_j · x[i, j] + t_j`
    (translation: `a = 1`; rescaling of each axis: `t = 0`). -/
def affineData (a t : Nat → Rat) (x : Nat → Nat → Rat) : Nat → Nat → Rat :=
  fun i j => a j * x i j + t j

/-- relabelling of the components of a likelihood array -/
def relabel (σ : Nat → Nat) (like : Nat → Nat → Rat) : Nat → Nat → Rat := fun i k => like i (σ k)

/-! ### `ve_step` of mrf.c -/

def ngb6 : List (Int × Int × Int) :=
  [(1,0,0), (-1,0,0), (0,1,0), (0,-1,0), (0,0,1), (0,0,-1)]

def ngb26 : List (Int × Int × Int) :=
  [(1,0,0), (-1,0,0), (0,1,0), (0,-1,0), (1,1,0), (-1,-1,0), (1,-1,0), (-1,1,0),
   (1,0,1), (-1,0,1), (0,1,1), (0,-1,1), (1,1,1), (-1,-1,1), (1,-1,1), (-1,1,1),
   (1,0,-1), (-1,0,-1), (0,1,-1), (0,-1,-1), (1,1,-1), (-1,-1,-1), (1,-1,-1), (-1,1,-1),
   (0,0,1), (0,0,-1)]

structure Grid where
  X : Nat
  Y : Nat
  Z : Nat
  K : Nat

def Grid.size (g : Grid) : Nat := g.X * g.Y * g.Z * g.K

/-- `pos = xn*u1 + yn*u2 + zn*K` -/
def flatPos (g : Grid) (x y z : Int) : Int :=
  x * ((g.Y * g.Z * g.K : Nat) : Int) + y * ((g.Z * g.K : Nat) : Int) + z * (g.K : Int)

/-- `posmax = dim0*u1 - K` -/
def posMax (g : Grid) : Int := (g.size : Int) - (g.K : Int)

/-- the neighbour is used iff `!(pos < 0 || pos > posmax)` -/
def posOk (g : Grid) (pos : Int) : Bool := decide (0 ≤ pos) && decide (pos ≤ posMax g)

/-- `_ngb_integrate`: `res[k] = Σ_{neighbours kept} Σ_kk U[k,kk]·ppm[pos+kk]` -/
def ngbIntegrate (g : Grid) (ppm : Array Rat) (U : Array Rat) (x y z : Int)
    (ngb : List (Int × Int × Int)) : List Rat :=
  let kept := (ngb.map (fun o => flatPos g (x + o.1) (y + o.2.1) (z + o.2.2))).filter (posOk g)
  (List.range g.K).map (fun k =>
    (kept.map (fun pos =>
      ((List.range g.K).map (fun kk => U.getD (k * g.K + kk) 0 * ppm.getD (pos.toNat + kk) 0)).sum)).sum)

/-- normalisation of `ve_step`, both branches -/
def veNormalize (tiny : Rat) (p : List Rat) : List Rat :=
  if tiny < p.sum then p.map (fun v => v / p.sum)
  else p.map (fun v => (v + tiny / (p.length : Rat)) / (p.sum + tiny))

/-- `ppm_data[pos + k] = vals[k]` -/
def writeRow (a : Array Rat) (pos : Nat) : List Rat → Array Rat
  | [] => a
  | v :: vs => writeRow (a.setIfInBounds pos v) (pos + 1) vs

/-- one voxel of `ve_step`; `e` = the exponential transforms `exp(-2β·res[k])` (parameter),
    `ref` the row of the reference field. Returns the new map and the energies. -/
def veStepVoxel (g : Grid) (tiny : Rat) (U : Array Rat) (ngb : List (Int × Int × Int))
    (ppm : Array Rat) (vox : Nat × Nat × Nat) (e ref : List Rat) : Array Rat × List Rat :=
  let res := ngbIntegrate g ppm U vox.1 vox.2.1 vox.2.2 ngb
  let p := List.zipWith (· * ·) e ref
  (writeRow ppm (flatPos g vox.1 vox.2.1 vox.2.2).toNat (veNormalize tiny p), res)

/-- the sweep over the points of `XYZ`, in order, updating in place -/
def veStep (g : Grid) (tiny : Rat) (U : Array Rat) (ngb : List (Int × Int × Int)) :
    Array Rat → List ((Nat × Nat × Nat) × List Rat × List Rat) → Array Rat × List (List Rat)
  | ppm, [] => (ppm, [])
  | ppm, (vox, e, ref) :: rest =>
      let s := veStepVoxel g tiny U ngb ppm vox e ref
      let t := veStep g tiny U ngb s.1 rest
      (t.1, s.2 :: t.2)

/-- linear voxel index: the row of voxel `v` starts at `voxIdx g v * K` -/
def voxIdx (g : Grid) (v : Nat × Nat × Nat) : Nat := (v.1 * g.Y + v.2.1) * g.Z + v.2.2

def inGrid (g : Grid) (v : Nat × Nat × Nat) : Prop := v.1 < g.X ∧ v.2.1 < g.Y ∧ v.2.2 < g.Z

/-- a point of the sweep: voxel, exponential transforms, reference row -/
abbrev Pt := (Nat × Nat × Nat) × List Rat × List Rat

def ptOk (g : Grid) (p : Pt) : Prop := inGrid g p.1 ∧ p.2.1.length = g.K ∧ p.2.2.length = g.K

def readRow (a : Array Rat) (pos K : Nat) : List Rat := (List.range K).map (fun k => a.getD (pos + k) 0)

/-- `map_from_ppm`: `argmax + 1` inside the mask, `0` outside -/
def mapLabel (inMask : Bool) (K : Nat) (row : Nat → Rat) : Nat :=
  if inMask then argmax row K + 1 else 0

/-! ### Line protocol -/

def ofArr (a : Array Rat) : Nat → Rat := fun i => a.getD i 0
def ofMat (a : Array (Array Rat)) : Nat → Nat → Rat := fun i j => (a.getD i #[]).getD j 0
def toMat (m : List (List Rat)) : Array (Array Rat) := (m.map List.toArray).toArray

/-- component of a mixture: log-determinant, mean, flattened precision (d·d or d numbers) -/
structure Comp where
  logdet : Rat
  mean : Array Rat
  prec : Array Rat

def pComp (d np : Nat) : P Comp := do
  let ld ← pRat; let m ← pMany pRat d; let b ← pMany pRat np
  pure ⟨ld, m.toArray, b.toArray⟩

def pVox : P (Nat × Nat × Nat) := do
  let x ← pNat; let y ← pNat; let z ← pNat; pure (x, y, z)

def sections (ls : List (List Rat)) : String := " | ".intercalate (ls.map fmtRats)

def runLL (variant : String) (d : Nat) (log2pi : Rat) (comps : List Comp) (xs : List (List Rat)) : String :=
  fmtRats (xs.flatMap (fun xr =>
    let x := ofArr xr.toArray
    comps.map (fun c =>
      let b : Nat → Nat → Rat := fun i j => c.prec.getD (i * d + j) 0
      if variant = "A" then logLikeA d log2pi c.logdet b (ofArr c.mean) x
      else if variant = "B" then logLikeB d log2pi c.logdet b (ofArr c.mean) x
      else if variant = "N" then logLikeN d log2pi c.logdet b (ofArr c.mean) x
      else logLikeD d log2pi c.logdet (ofArr c.prec) (ofArr c.mean) x)))

def runPost (n K : Nat) (tiny : Rat) (wlm : List (List Rat)) : String :=
  let wl := ofMat (toMat wlm)
  let rows := List.range n
  let ks := List.range K
  let mix := rows.map (mixture K wl)
  let rs := rows.flatMap (fun i => ks.map (resp tiny K wl i))
  let z := rows.map (fun i => ((argmax (wl i) K : Nat) : Rat))
  let ra := ofMat (toMat (rows.map (fun i => ks.map (resp tiny K wl i))))
  let pops := ks.map (fun k => pop n (fun i => ra i k))
  sections [mix, rs, z, pops]

def runMstep (full : Bool) (n d K : Nat) (c ps tiny : Rat) (xm likem : List (List Rat)) : String :=
  let x := ofMat (toMat xm)
  let like := ofMat (toMat likem)
  let ks := List.range K
  let js := List.range d
  let ra := ofMat (toMat ((List.range n).map (fun i => ks.map (resp tiny K like i))))
  let pm := ofArr (js.map (dataMean n x)).toArray
  let ips := ofArr (js.map (invPriorScale c n x)).toArray
  let pdof : Rat := (d : Rat) + 2
  let pops := ofArr (ks.map (fun k => pop n (fun i => ra i k))).toArray
  let ws := ks.map (mstepWeight K pops)
  let means := ks.flatMap (fun k => js.map (mstepMean n (fun i => ra i k) x pm ps))
  let covs := ks.flatMap (fun k =>
    let r : Nat → Rat := fun i => ra i k
    if full then js.flatMap (fun j => js.map (fun l => mstepCovFull tiny n d r x pm ips ps pdof j l))
    else js.map (mstepCovDiag tiny n d r x pm ips ps pdof))
  sections [ws, means, covs]

def ngbOf : Nat → Option (List (Int × Int × Int))
  | 6 => some ngb6
  | 26 => some ngb26
  | _ => none

def runVe (g : Grid) (ngb : List (Int × Int × Int)) (tiny : Rat) (U ppm : List Rat)
    (pts : List ((Nat × Nat × Nat) × List Rat × List Rat)) : String :=
  let out := veStep g tiny U.toArray ngb ppm.toArray pts
  let rows := pts.map (fun p => readRow out.1 (flatPos g p.1.1 p.1.2.1 p.1.2.2).toNat g.K)
  sections [rows.flatten, out.2.flatten]

def run : Toks → String
  | "ll" :: variant :: rest =>
      if variant ∉ ["A", "B", "N", "D"] then "bad-op" else
      match runP (do
          let d ← pNat; let l2 ← pRat; let k ← pNat
          let comps ← pMany (pComp d (if variant = "D" then d else d * d)) k
          let n ← pNat; let xs ← pMany (pMany pRat d) n
          pure (d, l2, comps, xs)) rest with
      | some (d, l2, comps, xs) => runLL variant d l2 comps xs
      | none => "bad-op"
  | "weight" :: rest =>
      match runP (do let n ← pNat; let k ← pNat; let l ← pMany (pMany pRat k) n
                     let w ← pMany pRat k; pure (n, k, l, w)) rest with
      | some (n, k, l, w) =>
          let lf := ofMat (toMat l); let wf := ofArr w.toArray
          fmtRats ((List.range n).flatMap (fun i => (List.range k).map (weighted lf wf i)))
      | none => "bad-op"
  | "post" :: rest =>
      match runP (do let n ← pNat; let k ← pNat; let t ← pRat; let l ← pMany (pMany pRat k) n
                     pure (n, k, t, l)) rest with
      | some (n, k, t, l) => if k = 0 then "bad-op" else runPost n k t l
      | none => "bad-op"
  | "mstep" :: kind :: rest =>
      if kind ∉ ["full", "diag"] then "bad-op" else
      match runP (do let n ← pNat; let d ← pNat; let k ← pNat; let c ← pRat; let ps ← pRat
                     let t ← pRat; let x ← pMany (pMany pRat d) n; let l ← pMany (pMany pRat k) n
                     pure (n, d, k, c, ps, t, x, l)) rest with
      | some (n, d, k, c, ps, t, x, l) =>
          if n = 0 ∨ d = 0 ∨ k = 0 then "bad-op" else runMstep (kind = "full") n d k c ps t x l
      | none => "bad-op"
  | "argmax" :: rest =>
      match runP (do let m ← pBool; let r ← pList pRat; pure (m, r)) rest with
      | some (m, r) => toString (mapLabel m r.length (ofArr r.toArray))
      | none => "bad-op"
  | "vestep" :: rest =>
      match runP (do
          let x ← pNat; let y ← pNat; let z ← pNat; let k ← pNat; let nn ← pNat; let t ← pRat
          let u ← pMany pRat (k * k); let ppm ← pMany pRat (x * y * z * k)
          let pts ← pList (do let v ← pVox; let e ← pMany pRat k; let r ← pMany pRat k; pure (v, e, r))
          pure (Grid.mk x y z k, nn, t, u, ppm, pts)) rest with
      | some (g, nn, t, u, ppm, pts) =>
          match ngbOf nn with
          | some ngb =>
              if pts.all (fun p => decide (p.1.1 < g.X) && decide (p.1.2.1 < g.Y) && decide (p.1.2.2 < g.Z))
              then runVe g ngb t u ppm pts else "bad-op"
          | none => "error:unknown-neighborhood"
      | none => "bad-op"
  | _ => "bad-op"

end NipyVerif.C13
