/-
C05 (extension) — model of the *results API* of
`nipy/algorithms/statistics/models/model.py` (`LikelihoodModelResults.t / vcov / Tcontrast /
Fcontrast / conf_int`) and `regression.py` (`RegressionResults.resid / predicted / norm_resid /
SSE / SST / SSR / MSE / MSR / MST / R2 / R2_adj / F_overall`, `OLSModel.logL`) on fits with one
or several responses, and of `nipy/algorithms/utils/matrices.py` (`pos_recipr`, `recipr0`,
`matrix_rank` through a certified rank factorisation).

Value level: typed functions with one trailing response index (the theorems are about these).
Shape level: `Tensor` (shape + C-order data) as the NumPy code returns it, including the
`np.isscalar` / `np.ndim(..) == 0` distinctions of `vcov` and the `np.squeeze` of the contrasts.
Square roots, the Student quantile and `log` are parameters (`s`, `tq`, `L`).
-/
import NipyVerif.Model.C05
namespace NipyVerif.C05

/-! ## `nipy/algorithms/utils/matrices.py` -/

/-- `pos_recipr`: `1/x` where `x > 0`, `0` elsewhere -/
def posRecipr (x : Rat) : Rat := if 0 < x then 1 / x else 0

/-- `recipr0`: `1/x` where `x ≠ 0`, `0` elsewhere -/
def recipr0 (x : Rat) : Rat := if x = 0 then 0 else 1 / x

/-! ### `matrix_rank` of an exact matrix: certified rank factorisation -/

/-- pivot columns of a row reduction (first non-zero pivoting).  Nothing is proved about it:
    `rankCert` checks the factorisation it leads to. -/
def pivotCols (n p : Nat) (a : Array (Array Rat)) : List Nat := Id.run do
  let mut m := a
  let mut row := 0
  let mut piv : List Nat := []
  for c in [0:p] do
    if row < n then
      let mut pr := n
      for r in [row:n] do
        if pr = n ∧ (m.getD r #[]).getD c 0 ≠ 0 then pr := r
      if pr < n then
        let rowP := m.getD pr #[]
        let rowR := m.getD row #[]
        m := (m.setIfInBounds pr rowR).setIfInBounds row rowP
        let pv := rowP.getD c 0
        for r in [row + 1:n] do
          let f := (m.getD r #[]).getD c 0 / pv
          if f ≠ 0 then
            m := m.setIfInBounds r (Array.zipWith (fun x y => x - f * y) (m.getD r #[]) rowP)
        piv := piv ++ [c]
        row := row + 1
  return piv

/-- the selected (pivot) columns as a list of `Fin p`, in increasing order -/
def pivotSel {n p : Nat} (X : Mat n p) : List (Fin p) :=
  let pv := pivotCols n p (toArr2 X)
  (List.finRange p).filter fun c => pv.contains c.1

/-- rank of `X`, returned only with a checked certificate: `B = X[:, sel]` has a left inverse
    (`(BᵀB)⁻¹Bᵀ`, certified), `X = B C` and `C[:, sel] = I`.  Then `rank X = |sel|`
    (`rankCert_sound`). -/
def rankCertOf {n p : Nat} (X : Mat n p) (sel : List (Fin p)) : Option Nat :=
  let B : Mat n sel.length := fun i a => X i (sel.get a)
  let gram := toArr2 (mmul (tr B) B)
  match inv? (ofArr2 gram) with
  | none => none
  | some G =>
      let LA := toArr2 (mmul G (tr B))
      let L : Mat sel.length n := ofArr2 LA
      let CA := toArr2 (mmul L X)
      let C : Mat sel.length p := ofArr2 CA
      if matEq (mmul B C) X && matEq (fun a b => C a (sel.get b)) (idm sel.length) then some sel.length
      else none

def rankCert {n p : Nat} (X : Mat n p) : Option Nat := rankCertOf X (pivotSel X)

/-! ## the dispersion a result is multiplied with -/

/-- a dispersion value as NumPy sees it: a scalar (`isScalar`: `np.isscalar`, i.e. Python float or
    NumPy scalar; otherwise a 0-d array) or one value per response -/
inductive DispV (v : Nat) where
  | sc (isScalar : Bool) (d : Rat)
  | pr (d : Vec v)

/-- the `dispersion=` argument -/
inductive DispArg (v : Nat) where
  | self
  | given (d : DispV v)

/-- results object: the fit, and whether `Y` was 1-D (then `v = 1`, `self.dispersion` is a NumPy
    scalar and no array carries a response axis) -/
structure Results (n p v : Nat) where
  fit : Fit n p v
  oneD : Bool

def Results.selfDisp {n p v : Nat} (r : Results n p v) : DispV v :=
  if r.oneD then
    (if h : 0 < v then .sc true (r.fit.dispersion ⟨0, h⟩) else .pr r.fit.dispersion)
  else .pr r.fit.dispersion

def Results.disp {n p v : Nat} (r : Results n p v) : DispArg v → DispV v
  | .self => r.selfDisp
  | .given d => d

/-- value of the dispersion for response `j` -/
def DispV.val {v : Nat} : DispV v → Fin v → Rat
  | .sc _ d, _ => d
  | .pr d, j => d j

/-! ## value level (one trailing response index) -/

/-- unit contrast `e_i` -/
def unitVec {p : Nat} (i : Fin p) : Vec p := fun a => if a = i then 1 else 0

/-- rows `e_{cols a}`: the contrast matrix that selects the parameters `cols` -/
def selMat {p k : Nat} (cols : Fin k → Fin p) : Mat k p := fun a => unitVec (cols a)

/-- `vcov(column=c)`, integer `c`: `cov[c, c] * dispersion` -/
def vcovCol {p v : Nat} (cov : Mat p p) (c : Fin p) (d : Vec v) : Vec v := fun j => cov c c * d j

/-- `vcov(column=cols)`: `cov[cols][:, cols][:, :, newaxis] * dispersion` -/
def vcovCols {p v k : Nat} (cov : Mat p p) (cols : Fin k → Fin p) (d : Vec v) :
    Fin k → Fin k → Vec v := fun a b j => cov (cols a) (cols b) * d j

/-- `vcov(matrix=M, other=O)`: `(M cov Oᵀ)[:, :, newaxis] * dispersion` -/
def vcovMat {p v q q' : Nat} (cov : Mat p p) (M : Mat q p) (O : Mat q' p) (d : Vec v) :
    Fin q → Fin q' → Vec v := fun a b j => mmul M (mmul cov (tr O)) a b * d j

/-- `vcov()`: `cov[:, :, newaxis] * dispersion` -/
def vcovFull {p v : Nat} (cov : Mat p p) (d : Vec v) : Fin p → Fin p → Vec v :=
  fun a b j => cov a b * d j

/-- `t(column=cols)`: `theta[cols] * pos_recipr(sqrt(diag vcov(column=cols)))` -/
def tCols {n p v k : Nat} (s : Rat → Rat) (f : Fit n p v) (cols : Fin k → Fin p) : Fin k → Vec v :=
  fun a j => f.beta (cols a) j * posRecipr (s (vcovCols f.cov cols f.dispersion a a j))

/-- `t(column=c)`, integer `c` -/
def tCol {n p v : Nat} (s : Rat → Rat) (f : Fit n p v) (c : Fin p) : Vec v :=
  fun j => f.beta c j * posRecipr (s (vcovCol f.cov c f.dispersion j))

/-- variance of a t contrast under the dispersion `d`: `vcov(matrix=c, dispersion=d)` -/
def tconVar {n p v : Nat} (f : Fit n p v) (c : Vec p) (d : Vec v) : Vec v :=
  fun j => vdot c (mvec f.cov c) * d j

/-- `Tcontrast(c, dispersion=d).t = effect * pos_recipr(sd)` -/
def tconT {n p v : Nat} (s : Rat → Rat) (f : Fit n p v) (c : Vec p) (d : Vec v) : Vec v :=
  fun j => tEffect f c j * posRecipr (s (tconVar f c d j))

/-- `Fcontrast(C, dispersion=d, invcov=iv).F`:
    `Σ_a (iv · Cθ)_a (Cθ)_a · pos_recipr(q · d)` -/
def fconF {n p v q : Nat} (f : Fit n p v) (C : Mat q p) (iv : Mat q q) (d : Vec v) : Vec v :=
  let ctA := toArr2 (mmul C f.beta)
  let ct : Mat q v := ofArr2 ctA
  let ictA := toArr2 (mmul iv ct)
  let ict : Mat q v := ofArr2 ictA
  fun j => (fsum fun a => ict a j * ct a j) * posRecipr ((q : Rat) * d j)

/-- default `invcov` of `Fcontrast`: `inv(vcov(matrix=C, dispersion=1.0))` -/
def fconInvcov {n p v q : Nat} (f : Fit n p v) (C : Mat q p) : Option (Mat q q) :=
  inv? (mmul C (mmul f.cov (tr C)))

/-- `conf_int`: `theta[c] ∓ tq · sqrt(vcov(column=c, dispersion=d))` (`side = 0` lower, `1` upper) -/
def confInt {n p v k : Nat} (s : Rat → Rat) (tq : Rat) (f : Fit n p v) (cols : Fin k → Fin p) (d : Vec v) :
    Fin k → Fin 2 → Vec v :=
  fun a side j =>
    if side.1 = 0 then f.beta (cols a) j - tq * s (vcovCol f.cov (cols a) d j)
    else f.beta (cols a) j + tq * s (vcovCol f.cov (cols a) d j)

/-- `norm_resid = resid * pos_recipr(sqrt(dispersion))` -/
def normResid {n p v : Nat} (s : Rat → Rat) (X : Mat n p) (Y : Mat n v) (f : Fit n p v) : Mat n v :=
  fun i j => resid X Y f i j * posRecipr (s (f.dispersion j))

/-! ### `OLSModel.score` / `OLSModel.information` -/

/-- `OLSModel.score(beta, Y, nuisance)`: the gradient `wXᵀ (wY − wX beta) / σ²` of the
    log-likelihood, with `σ² = SSE(beta)/n` when no nuisance value is given -/
def scoreAt {n p v : Nat} (wX : Mat n p) (wY : Mat n v) (b : Mat p v) (sigma : Option Rat) : Mat p v :=
  let rA := toArr2 (msub wY (mmul wX b))
  let r : Mat n v := ofArr2 rA
  fun l j =>
    (fsum fun i => wX i l * r i j) /
      (match sigma with
       | some s => s
       | none => (fsum fun i => r i j * r i j) / (n : Rat))

/-- `OLSModel.information(beta, nuisance)`: `sigma · XᵀX` with the *un-whitened* design (as written) -/
def informationM {n p : Nat} (X : Mat n p) (sigma : Rat) : Mat p p := fun a b => sigma * mmul (tr X) X a b

/-! ### sums of squares of `RegressionResults` -/

def colMean {n v : Nat} (A : Mat n v) (j : Fin v) : Rat := (fsum fun i => A i j) / (n : Rat)

/-- `SST = ((wY - wY.mean(0))**2).sum(0)` -/
def sst {n v : Nat} (wY : Mat n v) : Vec v :=
  fun j => fsum fun i => (wY i j - colMean wY j) * (wY i j - colMean wY j)

structure Stats (v : Nat) where
  sse : Vec v
  sst : Vec v
  ssr : Vec v
  mse : Vec v
  msr : Vec v
  mst : Vec v
  r2 : Vec v
  r2adj : Vec v
  fOverall : Vec v
  /-- `SSE / n`: the plugged-in variance of `logL` -/
  sigmasq : Vec v

/-- the summary statistics of `RegressionResults`; `dfModel = matrix_rank(design)` (`= p` on the
    property's domain), `df_total = n`, `df_resid = n - dfModel` -/
def stats {n p v : Nat} (wY : Mat n v) (f : Fit n p v) (dfModel : Int) : Stats v :=
  let dfR : Rat := ((n : Int) - dfModel : Int)
  let sstA := toArr1 (sst wY)
  let T : Vec v := ofArr1 sstA
  let ssr : Vec v := fun j => T j - f.sse j
  let mse : Vec v := fun j => f.sse j / dfR
  let msr : Vec v := fun j => ssr j / ((dfModel - 1 : Int) : Rat)
  let r2 : Vec v := fun j => 1 - f.sse j / T j
  { sse := f.sse, sst := T, ssr := ssr, mse := mse, msr := msr,
    mst := fun j => T j / ((n : Rat) - 1),
    r2 := r2,
    r2adj := fun j => 1 - (1 - r2 j) * (((n : Rat) - 1) / dfR),
    fOverall := fun j => msr j / mse j,
    sigmasq := fun j => f.sse j / (n : Rat) }

/-- maximised log-likelihood `OLSModel.logL(theta, Y)` with `L x = log(2πx)`:
    `-n/2 · L(SSE/n) - SSE / (2 · SSE/n)` -/
def logLik {n p v : Nat} (L : Rat → Rat) (f : Fit n p v) : Vec v :=
  fun j => -((n : Rat) / 2) * L (f.sse j / (n : Rat)) - f.sse j / (2 * (f.sse j / (n : Rat)))

/-- `AIC = -2 logL + 2p`, `BIC = -2 logL + log(n) p` (`ln = log n`) -/
def aic {n p v : Nat} (L : Rat → Rat) (f : Fit n p v) : Vec v := fun j => -2 * logLik L f j + 2 * (p : Rat)
def bic {n p v : Nat} (L : Rat → Rat) (ln : Rat) (f : Fit n p v) : Vec v :=
  fun j => -2 * logLik L f j + ln * (p : Rat)

/-! ## shape level -/

structure Tensor where
  shape : List Nat
  data : List Rat

def Tensor.fmt (t : Tensor) : String := "[" ++ fmtNats t.shape ++ "] " ++ fmtRats t.data

/-- `np.squeeze` -/
def Tensor.squeeze (t : Tensor) : Tensor := { t with shape := t.shape.filter (· ≠ 1) }

def tens0 (x : Rat) : Tensor := ⟨[], [x]⟩
def tens1 {a : Nat} (x : Vec a) : Tensor := ⟨[a], (List.finRange a).map x⟩
def tens2 {a b : Nat} (A : Mat a b) : Tensor :=
  ⟨[a, b], (List.finRange a).flatMap fun i => (List.finRange b).map fun j => A i j⟩
def tens3 {a b c : Nat} (A : Fin a → Fin b → Fin c → Rat) : Tensor :=
  ⟨[a, b, c], (List.finRange a).flatMap fun i => (List.finRange b).flatMap fun j =>
      (List.finRange c).map fun k => A i j k⟩

/-- drop the first axis of a tensor whose first axis has length one (`x[0]`) -/
def Tensor.drop0 (t : Tensor) : Tensor := { t with shape := t.shape.drop 1 }

/-- drop the last axis of a tensor whose last axis has length one -/
def Tensor.dropLast (t : Tensor) : Tensor := { t with shape := t.shape.dropLast }

inductive Out where
  | ok (ts : List Tensor)
  | err (e : String)

def Out.fmt : Out → String
  | .ok ts => " ; ".intercalate (ts.map Tensor.fmt)
  | .err e => e

/-- `vcov(...)` as an array: the value functions above, with the response axis NumPy gives them.
    * `column=int`: `cov[c,c] * dispersion` — shape of the dispersion;
    * `column=list`: `(k,k)` when `np.ndim(dispersion) == 0`, else `(k,k,v)`;
    * `matrix=`: `(q,q')` when `np.isscalar(dispersion)`, else `(q,q',len)` (a 0-d array: `len = 1`);
    * neither: `(p,p)` when `np.ndim(dispersion) == 0`, else `(p,p,v)`. -/
def vcovColT {p v : Nat} (cov : Mat p p) (c : Fin p) : DispV v → Tensor
  | .sc _ d => tens0 (cov c c * d)
  | .pr d => tens1 (vcovCol cov c d)

def vcovColsT {p v k : Nat} (cov : Mat p p) (cols : Fin k → Fin p) : DispV v → Tensor
  | .sc _ d => tens2 fun a b => cov (cols a) (cols b) * d
  | .pr d => tens3 (vcovCols cov cols d)

def vcovMatT {p v q q' : Nat} (cov : Mat p p) (M : Mat q p) (O : Mat q' p) : DispV v → Tensor
  | .sc true d => tens2 fun a b => mmul M (mmul cov (tr O)) a b * d
  | .sc false d => tens3 (vcovMat cov M O (fun _ : Fin 1 => d))
  | .pr d => tens3 (vcovMat cov M O d)

def vcovFullT {p v : Nat} (cov : Mat p p) : DispV v → Tensor
  | .sc _ d => tens2 fun a b => cov a b * d
  | .pr d => tens3 (vcovFull cov d)

/-- `theta[cols]` as an array (`(k, v)`, or `(k,)` for 1-D `Y`) -/
def thetaColsT {n p v k : Nat} (r : Results n p v) (cols : Fin k → Fin p) : Tensor :=
  let t := tens2 fun a j => r.fit.beta (cols a) j
  if r.oneD then t.dropLast else t

/-- the variances `t(column=cols)` divides by, as an array of the shape of `theta[cols]`:
    the diagonal of `vcov(column=cols)` per response -/
def tColsVarT {n p v k : Nat} (r : Results n p v) (cols : Fin k → Fin p) : Tensor :=
  match r.selfDisp with
  | .sc _ d => tens1 fun a => r.fit.cov (cols a) (cols a) * d
  | .pr d => tens2 fun a j => vcovCols r.fit.cov cols d a a j

/-- column argument of `t` / `vcov` / `conf_int`: NumPy index normalisation (`-p ≤ c < p`) -/
def normCol (p : Nat) (c : Int) : Option (Fin p) :=
  if h : 0 ≤ c ∧ c < p then some ⟨c.toNat, by omega⟩
  else if h2 : -(p : Int) ≤ c ∧ c < 0 then some ⟨(c + p).toNat, by omega⟩
  else none

def normCols (p : Nat) (cs : List Int) : Option (List (Fin p)) := cs.mapM (normCol p)

/-! ### operations of the line protocol -/

/-- contrast matrix argument of `Tcontrast`: `1-D` (length `l`) or 2-D (`r × l`) -/
def guardTconShape (rows l p : Nat) : String :=
  if rows ≠ 1 then "error:valueError" else if l ≠ p then "error:valueError" else "ok"

/-- `store` argument of `Tcontrast` -/
def storeOkT (table : List String) (store : List String) : Bool := store.all fun s => table.contains s

def storeOk (store : List String) : Bool := storeOkT ["t", "effect", "sd"] store

/-- `Tcontrast(c, store, dispersion)`: `effect` (squeezed), `sd**2` (squeezed) — `t` is
    `effect * pos_recipr(sd)`, broadcast and squeezed; a field that is not stored is `None`
    (shape `[0]`, no data, here).  Returned in the order effect, variance, shape-of-t witness. -/
def tconOp {n p v : Nat} (r : Results n p v) (c : Vec p) (store : List String) (da : DispArg v) : Out :=
  if ¬ storeOk store then .err "error:valueError" else
  let f := r.fit
  let none_ : Tensor := ⟨[0], []⟩
  let effFull : Tensor := (tens2 fun (_ : Fin 1) j => tEffect f c j)
  let eff : Tensor := if r.oneD then effFull.dropLast else effFull            -- (1, v) or (1,)
  let var : Tensor := vcovMatT f.cov (fun (_ : Fin 1) => c) (fun (_ : Fin 1) => c) (r.disp da)
  -- t = effect * pos_recipr(sd): broadcast of `eff` against `var`
  let tvar : Tensor :=
    match r.disp da with
    | .sc _ d => (if r.oneD then tens1 (fun (_ : Fin 1) => vdot c (mvec f.cov c) * d)
                  else tens2 fun (_ : Fin 1) (_ : Fin v) => vdot c (mvec f.cov c) * d)
    | .pr d => tens3 fun (_ : Fin 1) (_ : Fin 1) j => tconVar f c d j
  let teff : Tensor :=
    match r.disp da with
    | .sc _ _ => eff
    | .pr _ => tens3 fun (_ : Fin 1) (_ : Fin 1) j => tEffect f c j
  .ok [if store.contains "effect" then eff.squeeze else none_,
       if store.contains "sd" then var.squeeze else none_,
       if store.contains "t" then teff.squeeze else none_,
       if store.contains "t" then tvar.squeeze else none_]

/-- `Fcontrast(C, dispersion, invcov)`: `F` (squeezed), `effect`, `covariance`, `df_num` -/
def fconOp {n p v q : Nat} (r : Results n p v) (C : Mat q p) (da : DispArg v) (iv? : Option (Mat q q)) : Out :=
  let f := r.fit
  let ivo : Option (Mat q q) := match iv? with
    | some iv => some iv
    | none => fconInvcov f C
  match ivo with
  | none => .err "error:linalgError"
  | some iv =>
      let d := r.disp da
      let F : Tensor := (tens1 (fconF f C iv d.val)).squeeze
      let F' : Tensor := if r.oneD then ⟨[], F.data⟩ else F
      let eff : Tensor := let t := tens2 (mmul C f.beta); if r.oneD then t.dropLast else t
      -- covariance = vcov(matrix=C, dispersion=dispersion[np.newaxis]): never `np.isscalar`
      let cov : Tensor := match d with
        | .sc _ x => vcovMatT f.cov C C (.sc false x : DispV v)
        | .pr x => vcovMatT f.cov C C (.pr x)
      .ok [F', eff, cov, tens0 (q : Rat)]

/-- `conf_int(cols=…, dispersion=…)`: the centre `theta[c]` and the variance under the square
    root, each of shape `(k, v)` / `(k,)`; the interval is `centre ∓ tq·sqrt(var)` and the result
    has shape `(k, 2, v)` / `(k, 2)` -/
def ciOp {n p v k : Nat} (r : Results n p v) (cols : Fin k → Fin p) (da : DispArg v) : Out :=
  let f := r.fit
  let centre := thetaColsT r cols
  let var : Tensor := match r.disp da with
    | .sc _ d => (if r.oneD then tens1 fun a => f.cov (cols a) (cols a) * d
                  else tens2 fun a (_ : Fin v) => f.cov (cols a) (cols a) * d)
    | .pr d => (let t := tens2 fun a j => vcovCol f.cov (cols a) d j; if r.oneD then t.dropLast else t)
  .ok [centre, var]

end NipyVerif.C05
