/-
C18 (wave 3) — `LinearFilter` as an object with editable attributes:

* constructor → `_setup_kernel` → histories of `smooth(img, clean, is_fft)`, `__call__(X, axis)`,
  `_normsq(X, axis)`, `_presmooth(data)`, attribute edits (`normalization`, `scale`, `location`, `fwhm`,
  `cov`) and *re-runs of `_setup_kernel`*: the state separates what the caller can assign (`Attrs`) from
  what `_setup_kernel` leaves behind (`Built`: cropped kernel, window offset, norms).  `smooth` reads
  `Built` and the three output settings; `__call__` / `_normsq` read the live `fwhm` / `cov`;
* `__call__` / `_normsq` on arrays of points as written (first three coordinates divided by sigma,
  further coordinates untouched, whitening through `np.dot(inv(chol), _X)`, refusals for integer arrays,
  fewer than three coordinates / widths, a non positive definite `cov`, whitening of non-3-vectors);
* the kernel as a function of the external `exp` (`gaussKer`), the three norms as sums over it;
* the exact length the FFT circle needs so that no wrapped sample reaches the output window (`needLen`).

External numerics: `exp` (kernel values are passed in at every `_setup_kernel`), the float division
`fwhm / sqrt(8 log 2)` (sigma is passed in with every assignment of `fwhm`), `inv(cholesky(cov))`,
the square root of the `l2` norm, the FFT.
-/
import NipyVerif.Model.C18B
namespace NipyVerif.C18

/-! ### padding arithmetic of the FFT circle -/

/-- least circle length for which no wrapped sample of the full convolution (support `n + k - 1`)
    falls into the output window `[off, off + n)` -/
def needLen (n k off : Nat) : Nat := n + k - 1 - off

/-- what the padding written in `_setup_kernel` leaves beyond `needLen` -/
def padSlack (n k off : Nat) : Nat := padLen n k - needLen n k off

/-- `smooth` computed on an FFT circle of shape `P` instead of the one `_setup_kernel` chooses -/
def smoothCircOn (P : Sh) (F : Filter) (x : Img) : Img := fun i0 i1 i2 =>
  F.scale * (circConv P (pad F.bshape x) (pad F.kshape F.ker)
      (i0 + F.off.n0) (i1 + F.off.n1) (i2 + F.off.n2) / F.norm) + F.loc

/-! ### the kernel with `exp` as a parameter; norms -/

/-- the cropped kernel `_setup_kernel` stores, as a function of the external `E q = exp (-q)` -/
def gaussKer (E : Rat → Rat) (g : Geom) (bx : Box) : Img := fun a b c =>
  let e := g.e (bx.lo.n0 + a) (bx.lo.n1 + b) (bx.lo.n2 + c)
  if e ≤ 15 then E e else 0

/-- `(kernel**2).sum()` — `norms['l2']` is its (external) square root -/
def l2sq (k : Sh) (K : Img) : Rat := sum3 k fun a b c => K a b c * K a b c

/-! ### `_normsq` / `__call__` on arrays of points -/

/-- refusals, in the order the code reaches them: `m` coordinates per point, `L` widths
    (`fwhm2sigma(self.fwhm)`, a scalar is broadcast to three), integer dtype of the array, `cov` -/
def ptsGuard (m L : Nat) (isInt : Bool) (cov : Option (Bool × M3)) : String :=
  if m = 0 ∨ L = 0 then "error:indexError"
  else if isInt then "error:typeError"              -- `_X[i] /= f[i]` on an integer array
  else if m < 3 ∨ L < 3 then "error:indexError"
  else match cov with
    | none => "ok"
    | some (pd, _) =>
      if !pd then "error:linalgError"               -- `cholesky`
      else if m ≠ 3 then "error:valueError"         -- `np.dot(inv(chol), _X)`
      else "ok"

/-- `D2` of one point: the first three coordinates are divided by sigma, further ones are not;
    with `cov` the 3-vector is multiplied by `W = inv(cholesky(cov))` -/
def d2Pt (sig : List Rat) (cov : Option (Bool × M3)) (x : List Rat) : Rat :=
  let u := List.zipWith (fun (a b : Rat) => a / b) (x.take 3) (sig.take 3) ++ x.drop 3
  match cov with
  | none => (u.map fun t => t * t).sum
  | some (_, W) =>
    let v := W.mulVec ⟨u.getD 0 0, u.getD 1 0, u.getD 2 0⟩
    v.dot v

/-- `__call__` (`half = true`: exponent `D2/2`, `none` = beyond the cut-off 15) / `_normsq` -/
def ptOut (half : Bool) (sig : List Rat) (cov : Option (Bool × M3)) (x : List Rat) : Option Rat :=
  let d := d2Pt sig cov x
  if half then (if d / 2 ≤ 15 then some (d / 2) else none) else some d

/-! ### the filter object -/

/-- what the caller can assign -/
structure Attrs where
  sh : Sh                    -- `bshape`
  lin : M3                   -- `coordmap`: linear part
  trans : V3                 --             translation
  sig : List Rat             -- `fwhm2sigma(self.fwhm)`, a scalar broadcast to three (float division: external)
  fwhm : List Rat            -- the attribute as assigned (one entry = a scalar)
  cov : Option (Bool × M3)   -- positive definite?, `inv(cholesky(cov))`
  normKey : String
  scale : Rat
  loc : Rat

/-- what `_setup_kernel` leaves behind -/
structure Built where
  kshape : Sh
  ker : Img
  off : Sh
  l2 : Rat

structure LF where
  attrs : Attrs
  built : Built
  imgs : List (Stored × Sh)  -- the caller's images; a pre-transformed one with the shape of its buffer
  wild : Bool                -- `_setup_kernel` ran through the `cov` branch as built: nothing further is modelled

inductive Op2 where
  | smooth (i : Nat) (clean isfft : Bool)
  | setNorm (key : String)
  | setScale (r : Rat)
  | setLoc (r : Rat)
  | setFwhm (fw sig : List Rat)
  | setCov (c : Option (Bool × M3))
  | setup (kv : List Rat) (l2 : Rat)           -- `exp` values of the new kernel and `sqrt` of its square sum: external
  | call (half isInt oneD : Bool) (m : Nat) (pts : List (List Rat))
  | presmooth (i : Nat)

inductive Out2 where
  | base (o : Out)
  | built (k off P : Sh) (norms : List Rat) (exps : List (Option Rat))
  | exps (l : List (Option Rat))
deriving DecidableEq

def sig3 : List Rat → Option V3
  | a :: b :: c :: _ => some ⟨a, b, c⟩
  | _ => none

/-- the geometry `_setup_kernel` sees (no whitening: the `cov` branch is handled apart) -/
def Attrs.geom (a : Attrs) : Option Geom := (sig3 a.sig).map fun sg => ⟨a.sh, a.lin, a.trans, sg, M3.one⟩

def boxExps (g : Geom) (bx : Box) : List (Option Rat) :=
  (List.range bx.k.n0).flatMap fun a => (List.range bx.k.n1).flatMap fun b =>
    (List.range bx.k.n2).map fun c =>
      let e := g.e (bx.lo.n0 + a) (bx.lo.n1 + b) (bx.lo.n2 + c)
      if e ≤ 15 then some e else none

/-- the state `smooth` reads, in the form of the earlier model -/
def LF.fstate (s : LF) : FState :=
  ⟨s.attrs.sh, s.built.kshape, s.built.ker, s.built.off, s.built.l2, s.attrs.normKey, s.attrs.scale,
    s.attrs.loc, 0, s.imgs.map Prod.fst⟩

/-- `smooth(imgs[i], clean, is_fft)`: a pre-transformed image whose buffer does not have the current
    padded shape fails in `data * self.fkernel` (padded lengths are even and at least 4, so the
    half-spectrum shapes agree only if the buffer shapes do) -/
def smoothStep (s : LF) (i : Nat) (clean isfft : Bool) : Out :=
  if s.wild then .unspecified else
  match s.imgs[i]? with
  | some (.pre _, P) =>
    if isfft ∧ P ≠ padShape s.attrs.sh s.built.kshape then .err "error:valueError"
    else smoothOut s.fstate i clean isfft
  | _ => smoothOut s.fstate i clean isfft

inductive SetupRes where
  | refuse (e : String)
  | wild
  | ok (b : Built) (o : Out2)

/-- `_setup_kernel()`: reads the attributes (and the external `exp` / `sqrt` values), nothing else -/
def setupCore (a : Attrs) (kv : List Rat) (l2 : Rat) : SetupRes :=
  match a.geom with
  | none => .refuse "error:indexError"
  | some g =>
    match a.cov with
    | some (pd, _) =>
      let gd := covGuard pd a.sh
      if gd = "ok" then .wild else .refuse gd
    | none =>
      if !g.ok then .refuse "error:degenerate" else
      match cropBox g.sh g.supp with
      | none => .refuse "empty"
      | some bx =>
        if kv.length ≠ bx.k.size then .refuse s!"kernel-shape-mismatch {fmtSh bx.k}"
        else
          let K := imgOfArr bx.k kv.toArray
          .ok ⟨bx.k, K, centreOff g.sh bx, l2⟩
            (.built bx.k (centreOff g.sh bx) (padShape g.sh bx.k)
              [kerSum bx.k K, l1Norm bx.k K, l2sq bx.k K] (boxExps g bx))

/-- `_setup_kernel()` on the object; a refusal leaves the object as it was (the exception comes from
    `self(X, axis=0)`, before any assignment) -/
def setupStep (s : LF) (kv : List Rat) (l2 : Rat) : LF × Out2 :=
  match setupCore s.attrs kv l2 with
  | .refuse e => (s, .base (.err e))
  | .wild => ({ s with wild := true }, .base .unspecified)
  | .ok b o => ({ s with built := b, wild := false }, o)      -- everything `_setup_kernel` keeps is overwritten

def callStep (a : Attrs) (half isInt oneD : Bool) (m : Nat) (pts : List (List Rat)) : Out2 :=
  -- a 1-D integer array: `_X[i] /= f[i]` works on scalars and stores the quotient back as an integer
  -- (no refusal, silently truncated coordinates): not modelled beyond the index refusals
  if isInt ∧ oneD then
    (if m < 3 ∨ a.sig.length < 3 then .base (.err "error:indexError") else .base .unspecified) else
  let gd := ptsGuard m a.sig.length isInt a.cov
  if gd ≠ "ok" then .base (.err gd)
  else if pts.any (fun p => p.length != m) then .base (.err "bad-op")
  else if (a.sig.take 3).any (fun q => q == 0) then .base (.err "error:degenerate")
  else .exps (pts.map (ptOut half a.sig a.cov))

/-- `_presmooth(imgs[i].get_fdata())`: the zero-padded buffer whose transform is returned -/
def presmoothStep (s : LF) (i : Nat) : Out :=
  if s.wild then .unspecified else
  match s.imgs[i]? with
  | none => .err "bad-op"
  | some (.pre _, _) => .err "error:valueError"
  | some (.spatial v, _) =>
    if v.toList.all Ext.finite then
      .vals (toList (padShape s.attrs.sh s.built.kshape) (pad s.attrs.sh (extImg s.attrs.sh v)))
    else .nonfinite

def step2 (s : LF) : Op2 → LF × Out2
  | .smooth i c f => (s, .base (smoothStep s i c f))
  | .setNorm k => ({ s with attrs := { s.attrs with normKey := k } }, .base .unit)
  | .setScale r => ({ s with attrs := { s.attrs with scale := r } }, .base .unit)
  | .setLoc r => ({ s with attrs := { s.attrs with loc := r } }, .base .unit)
  | .setFwhm fw sg => ({ s with attrs := { s.attrs with fwhm := fw, sig := sg } }, .base .unit)
  | .setCov c => ({ s with attrs := { s.attrs with cov := c } }, .base .unit)
  | .setup kv l2 => setupStep s kv l2
  | .call h ii od m pts => (s, callStep s.attrs h ii od m pts)
  | .presmooth i => (s, .base (presmoothStep s i))

def runOps2 (s : LF) : List Op2 → LF × List Out2
  | [] => (s, [])
  | op :: rest =>
    let r := step2 s op
    let r2 := runOps2 r.1 rest
    (r2.1, r.2 :: r2.2)

/-- the constructor: store the arguments, run `_setup_kernel` (placeholder kernel until then) -/
def construct (a : Attrs) (imgs : List (Stored × Sh)) (kv : List Rat) (l2 : Rat) : LF × Out2 :=
  setupStep ⟨a, ⟨⟨1, 1, 1⟩, fun _ _ _ => 0, ⟨0, 0, 0⟩, 0⟩, imgs, false⟩ kv l2

/-! ### line protocol -/

def fmtOpt : Option Rat → String
  | some r => fmtRat r
  | none => "x"

def fmtOut2 : Out2 → String
  | .base o => fmtOut o
  | .built k off P norms es =>
    s!"b {fmtSh k} {fmtSh off} {fmtSh P} {fmtRats norms} | " ++ " ".intercalate (es.map fmtOpt)
  | .exps l => "e " ++ " ".intercalate (l.map fmtOpt)

def pStored2 (n : Nat) : P (Stored × Sh) := do
  let t ← pTok
  if t = "s" then do let v ← pMany pExt n; pure (.spatial v.toArray, ⟨0, 0, 0⟩)
  else if t = "p" then do
    let P ← pSh
    let b ← pMany pRat P.size
    pure (.pre b.toArray, P)
  else failure

def pCov : P (Option (Bool × M3)) := do
  let t ← pTok
  if t = "none" then pure none
  else if t = "1" then do let W ← pM3; pure (some (true, W))
  else if t = "0" then do let W ← pM3; pure (some (false, W))
  else failure

def pOp2 : P Op2 := do
  let t ← pTok
  if t = "smooth" then do let i ← pNat; let c ← pBool; let f ← pBool; pure (.smooth i c f)
  else if t = "norm" then do let k ← pTok; pure (.setNorm k)
  else if t = "scale" then do let r ← pRat; pure (.setScale r)
  else if t = "loc" then do let r ← pRat; pure (.setLoc r)
  else if t = "fwhm" then do let fw ← pList pRat; let sg ← pList pRat; pure (.setFwhm fw sg)
  else if t = "cov" then do let c ← pCov; pure (.setCov c)
  else if t = "setup" then do let kv ← pList pRat; let l2 ← pRat; pure (.setup kv l2)
  else if t = "call" then do
    let h ← pBool; let ii ← pBool; let od ← pBool; let m ← pNat; let n ← pNat
    let pts ← pMany (pMany pRat m) n
    pure (.call h ii od m pts)
  else if t = "presmooth" then do let i ← pNat; pure (.presmooth i)
  else failure

def fmtStored2 (x : Stored × Sh) : String := fmtStored x.1

/-- `hist2`: constructor arguments, the external values of the constructor's `_setup_kernel`, the
    caller's images, the operations; answers the constructor's result, every operation's result and
    the caller's images as they are afterwards -/
def pHist2 : P String := do
  let sh ← pSh; let lin ← pM3; let tr ← pV3
  let fw ← pList pRat; let sg ← pList pRat
  let key ← pTok; let sc ← pRat; let lo ← pRat
  let kv ← pList pRat; let l2 ← pRat
  let ni ← pNat
  let imgs ← pMany (pStored2 sh.size) ni
  let ops ← pList pOp2
  let a : Attrs := ⟨sh, lin, tr, sg, fw, none, key, sc, lo⟩
  let (s0, o0) := construct a imgs kv l2
  match o0 with
  | .built .. =>
    let (s', outs) := runOps2 s0 ops
    pure (" ; ".intercalate ((o0 :: outs).map fmtOut2) ++ " || " ++ " ; ".intercalate (s'.imgs.map fmtStored2))
  | o => pure (fmtOut2 o)

def runC : Toks → String
  | "hist2" :: rest =>
      match runP pHist2 rest with
      | some s => s
      | none => "bad-op"
  | "points" :: rest =>
      -- one `__call__` / `_normsq` on a fresh attribute set: `points half isInt oneD m | sig | cov | N pts`
      match runP (do
          let h ← pBool; let ii ← pBool; let od ← pBool; let m ← pNat
          let sg ← pList pRat; let c ← pCov; let n ← pNat
          let pts ← pMany (pMany pRat m) n
          pure (h, ii, od, m, sg, c, pts)) rest with
      | some (h, ii, od, m, sg, c, pts) =>
          fmtOut2 (callStep ⟨⟨1, 1, 1⟩, M3.one, ⟨0, 0, 0⟩, sg, [], c, "l1sum", 1, 0⟩ h ii od m pts)
      | none => "bad-op"
  | "padinfo" :: rest =>
      match runP (do let n ← pNat; let k ← pNat; let o ← pNat; pure (n, k, o)) rest with
      | some (n, k, o) =>
          if n = 0 ∨ k ≤ o then "bad-op" else s!"{padLen n k} {needLen n k o} {padSlack n k o}"
      | none => "bad-op"
  | toks => runB toks

end NipyVerif.C18
