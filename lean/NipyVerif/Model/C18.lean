/-
C18 — model of nipy/algorithms/kernel_smooth.py (`LinearFilter`):

* `_setup_kernel`: voxel centre `⌊(n-1)/2⌋`, world displacement through the
  affine, `_normsq` (division by the per-axis sigma, optional whitening),
  the `≤ 15` cut-off, `_crop` bounding box, padded FFT shape
  `2⌈(n+k)/2⌉+2`;
* `smooth`: zero padding, FFT product (= circular convolution, the FFT itself
  is external), division by the kernel norm, `scale`/`location`, output window;
* `fwhm2sigma` / `sigma2fwhm` (the constant `sqrt(8 log 2)` is a parameter).

Exact rational arithmetic.  `exp` is external: the Gaussian values are an
input of the smoothing model (the harness reads them back from
`LinearFilter._kernel`), the kernel model returns the exact exponents.

The output window starts at the index of the kernel centre inside the cropped
kernel (`centre - lo`, the behaviour the property demands); the offset found in
the code, `kernel.shape // 2`, is `foundOff` and is compared with it in Props.
-/
import NipyVerif.Model.Common
namespace NipyVerif.C18

/-- `Σ_{i<n} f i` -/
def sumTo : Nat → (Nat → Rat) → Rat
  | 0, _ => 0
  | n + 1, f => sumTo n f + f n

/-- a 3D shape / index triple -/
structure Sh where
  n0 : Nat
  n1 : Nat
  n2 : Nat
deriving Repr, DecidableEq

def Sh.size (s : Sh) : Nat := s.n0 * s.n1 * s.n2

/-- an array seen as a function of its three indices -/
abbrev Img := Nat → Nat → Nat → Rat

/-- `Σ` over all voxels of a grid of shape `s` -/
def sum3 (s : Sh) (f : Img) : Rat :=
  sumTo s.n0 fun a => sumTo s.n1 fun b => sumTo s.n2 fun c => f a b c

/-! ### Geometry of the kernel (`_setup_kernel`, `_normsq`, `__call__`) -/

structure V3 where
  x : Rat
  y : Rat
  z : Rat
deriving Repr

structure M3 where
  r0 : V3
  r1 : V3
  r2 : V3
deriving Repr

def V3.dot (a b : V3) : Rat := a.x * b.x + a.y * b.y + a.z * b.z
def V3.add (a b : V3) : V3 := ⟨a.x + b.x, a.y + b.y, a.z + b.z⟩
def V3.sub (a b : V3) : V3 := ⟨a.x - b.x, a.y - b.y, a.z - b.z⟩
def M3.mulVec (A : M3) (v : V3) : V3 := ⟨A.r0.dot v, A.r1.dot v, A.r2.dot v⟩
def M3.one : M3 := ⟨⟨1, 0, 0⟩, ⟨0, 1, 0⟩, ⟨0, 0, 1⟩⟩

/-- `np.floor((n - 1) / 2)` -/
def centre (n : Nat) : Nat := (n - 1) / 2

/-- what `_setup_kernel` is given -/
structure Geom where
  sh : Sh          -- `bshape`
  lin : M3         -- linear part of the voxel → world affine
  trans : V3       -- its translation
  sig : V3         -- `fwhm2sigma(fwhm)` per world axis
  wh : M3          -- `inv(cholesky(cov))`, identity when `cov is None`
deriving Repr

def vox (a b c : Nat) : V3 := ⟨(a : Rat), (b : Rat), (c : Rat)⟩
def voxI (a b c : Int) : V3 := ⟨(a : Rat), (b : Rat), (c : Rat)⟩

/-- `coordmap(v)` -/
def Geom.apply (g : Geom) (v : V3) : V3 := (g.lin.mulVec v).add g.trans

/-- `X = coordmap(voxel) - coordmap(vox_center)` -/
def Geom.X (g : Geom) (a b c : Nat) : V3 :=
  (g.apply (vox a b c)).sub (g.apply (vox (centre g.sh.n0) (centre g.sh.n1) (centre g.sh.n2)))

/-- `_normsq(X) / 2`: world coordinates divided by sigma, whitened, squared norm, halved -/
def halfNormSq (sig : V3) (W : M3) (X : V3) : Rat :=
  let u := W.mulVec ⟨X.x / sig.x, X.y / sig.y, X.z / sig.z⟩
  u.dot u / 2

/-- exponent of the kernel at a voxel: the kernel value is `exp (-e)` if `e ≤ 15`, else `0` -/
def Geom.e (g : Geom) (a b c : Nat) : Rat := halfNormSq g.sig g.wh (g.X a b c)

/-- `np.less_equal(_normsq, 15)`: the support of the kernel (`exp(-15) > tol` of `_crop`) -/
def Geom.supp (g : Geom) (a b c : Nat) : Bool := decide (g.e a b c ≤ 15)

/-! ### `_crop`: bounding box of the support -/

/-- least `a < n` with `p a` -/
def loHit (p : Nat → Bool) : Nat → Option Nat
  | 0 => none
  | n + 1 =>
    match loHit p n with
    | some a => some a
    | none => if p n then some n else none

/-- greatest `a < n` with `p a` -/
def hiHit (p : Nat → Bool) : Nat → Option Nat
  | 0 => none
  | n + 1 => if p n then some n else hiHit p n

def anyTo (n : Nat) (p : Nat → Bool) : Bool := (List.range n).any p

def hit0 (s : Sh) (p : Nat → Nat → Nat → Bool) (a : Nat) : Bool :=
  anyTo s.n1 fun b => anyTo s.n2 fun c => p a b c
def hit1 (s : Sh) (p : Nat → Nat → Nat → Bool) (b : Nat) : Bool :=
  anyTo s.n0 fun a => anyTo s.n2 fun c => p a b c
def hit2 (s : Sh) (p : Nat → Nat → Nat → Bool) (c : Nat) : Bool :=
  anyTo s.n0 fun a => anyTo s.n1 fun b => p a b c

/-- bounding box: lower corner and shape -/
structure Box where
  lo : Sh
  k : Sh
deriving Repr, DecidableEq

/-- `_crop` on a grid of shape `s` with support `p`; `none` = empty support -/
def cropBox (s : Sh) (p : Nat → Nat → Nat → Bool) : Option Box :=
  match loHit (hit0 s p) s.n0, hiHit (hit0 s p) s.n0,
        loHit (hit1 s p) s.n1, hiHit (hit1 s p) s.n1,
        loHit (hit2 s p) s.n2, hiHit (hit2 s p) s.n2 with
  | some m0, some M0, some m1, some M1, some m2, some M2 =>
      some ⟨⟨m0, m1, m2⟩, ⟨M0 - m0 + 1, M1 - m1 + 1, M2 - m2 + 1⟩⟩
  | _, _, _, _, _, _ => none

/-- index of the kernel centre inside the cropped kernel: the window offset that
    puts the response on the impulse -/
def centreOff (s : Sh) (bx : Box) : Sh :=
  ⟨centre s.n0 - bx.lo.n0, centre s.n1 - bx.lo.n1, centre s.n2 - bx.lo.n2⟩

/-- the window offset written in `smooth` as found: `kernel.shape // 2` -/
def foundOff (k : Sh) : Sh := ⟨k.n0 / 2, k.n1 / 2, k.n2 / 2⟩

/-- `ceil((n + k) / 2) * 2 + 2` -/
def padLen (n k : Nat) : Nat := 2 * ((n + k + 1) / 2) + 2

def padShape (n k : Sh) : Sh := ⟨padLen n.n0 k.n0, padLen n.n1 k.n1, padLen n.n2 k.n2⟩

/-! ### `smooth` -/

/-- array of shape `s` written into the corner of a zero buffer -/
def pad (s : Sh) (x : Img) : Img := fun a b c =>
  if a < s.n0 ∧ b < s.n1 ∧ c < s.n2 then x a b c else 0

/-- index `t - a` on a circle of length `P` -/
def wrap (P t a : Nat) : Nat := (t + P - a) % P

/-- what `irfftn (rfftn x * rfftn k)` computes on a grid of shape `P`:
    the circular convolution -/
def circConv (P : Sh) (x k : Img) : Img := fun t0 t1 t2 =>
  sum3 P fun a b c => x a b c * k (wrap P.n0 t0 a) (wrap P.n1 t1 b) (wrap P.n2 t2 c)

structure Filter where
  bshape : Sh      -- grid shape
  kshape : Sh      -- shape of the cropped kernel
  ker : Img        -- its values
  off : Sh         -- start of the output window in the padded buffer
  norm : Rat       -- `norms[normalization]`
  scale : Rat
  loc : Rat

/-- `smooth`, step by step: zero-pad image and kernel to `padShape`, circular
    convolution, divide by the norm, scale, add location, cut the window. -/
def smoothCirc (F : Filter) (x : Img) : Img := fun i0 i1 i2 =>
  F.scale * (circConv (padShape F.bshape F.kshape) (pad F.bshape x) (pad F.kshape F.ker)
      (i0 + F.off.n0) (i1 + F.off.n1) (i2 + F.off.n2) / F.norm) + F.loc

/-- kernel extended by zero to all integer indices -/
def kerZ (k : Sh) (K : Img) : Int → Int → Int → Rat := fun a b c =>
  if 0 ≤ a ∧ a < k.n0 ∧ 0 ≤ b ∧ b < k.n1 ∧ 0 ≤ c ∧ c < k.n2 then K a.toNat b.toNat c.toNat else 0

/-- plain (linear) convolution sum `Σ_j x[j] · K[i + off - j]` -/
def linConv (F : Filter) (x : Img) : Img := fun i0 i1 i2 =>
  sum3 F.bshape fun j0 j1 j2 =>
    x j0 j1 j2 * kerZ F.kshape F.ker ((i0 : Int) + F.off.n0 - j0) ((i1 : Int) + F.off.n1 - j1)
      ((i2 : Int) + F.off.n2 - j2)

/-- `smooth` as a direct convolution (what the driver executes;
    `smoothCirc_eq_smoothLin` in Props shows it equals `smoothCirc`). -/
def smoothLin (F : Filter) (x : Img) : Img := fun i0 i1 i2 =>
  F.scale * (linConv F x i0 i1 i2 / F.norm) + F.loc

/-- the `l1sum` norm: the sum of the kernel -/
def kerSum (k : Sh) (K : Img) : Rat := sum3 k K

/-- unit impulse at `p` -/
def delta (p0 p1 p2 : Nat) : Img := fun a b c => if a = p0 ∧ b = p1 ∧ c = p2 then 1 else 0

/-- image moved by `s` voxels towards larger indices, zero-filled -/
def shiftImg (s : Sh) (x : Img) : Img := fun a b c =>
  if s.n0 ≤ a ∧ s.n1 ≤ b ∧ s.n2 ≤ c then x (a - s.n0) (b - s.n1) (c - s.n2) else 0

/-- values of an image on a grid, C order -/
def toList (s : Sh) (x : Img) : List Rat :=
  (List.range s.n0).flatMap fun a => (List.range s.n1).flatMap fun b =>
    (List.range s.n2).map fun c => x a b c

/-! ### width conversions; `c` stands for the float `sqrt(8 log 2)` -/

def fwhm2sigma (c fwhm : Rat) : Rat := fwhm / c
def sigma2fwhm (c sigma : Rat) : Rat := sigma * c

/-! ### refusals of `smooth` / `_setup_kernel` -/

/-- `smooth` on an image with `ndim` axes; `affine` = the coordmap is an `AffineTransform` -/
def guard (affine : Bool) (ndim : Nat) : String :=
  if !affine then "error:valueError"
  else if ndim = 3 then "ok" else "error:notImplemented"

/-! ### Line protocol -/

def imgOfArr (s : Sh) (a : Array Rat) : Img := fun i j k =>
  if i < s.n0 ∧ j < s.n1 ∧ k < s.n2 then a.getD ((i * s.n1 + j) * s.n2 + k) 0 else 0

def pSh : P Sh := do
  let a ← pNat; let b ← pNat; let c ← pNat
  pure ⟨a, b, c⟩
def pV3 : P V3 := do
  let a ← pRat; let b ← pRat; let c ← pRat
  pure ⟨a, b, c⟩
def pM3 : P M3 := do
  let a ← pV3; let b ← pV3; let c ← pV3
  pure ⟨a, b, c⟩
def pGeom : P Geom := do
  let s ← pSh; let l ← pM3; let t ← pV3; let f ← pV3; let w ← pM3
  pure ⟨s, l, t, f, w⟩

def Geom.ok (g : Geom) : Bool :=
  g.sig.x != 0 && g.sig.y != 0 && g.sig.z != 0 && g.sh.n0 != 0 && g.sh.n1 != 0 && g.sh.n2 != 0

def fmtSh (s : Sh) : String := s!"{s.n0} {s.n1} {s.n2}"

/-- `kernel`: crop box, centre, and the exponent at every voxel of the box
    (`x` where the kernel is cut off) -/
def runKernel (g : Geom) : String :=
  if !g.ok then "error:degenerate" else
  match cropBox g.sh g.supp with
  | none => "empty"
  | some bx =>
    let es := (List.range bx.k.n0).flatMap fun a => (List.range bx.k.n1).flatMap fun b =>
      (List.range bx.k.n2).map fun c =>
        let e := g.e (bx.lo.n0 + a) (bx.lo.n1 + b) (bx.lo.n2 + c)
        if e ≤ 15 then fmtRat e else "x"
    let co := centreOff g.sh bx
    s!"{fmtSh bx.lo} {fmtSh bx.k} {fmtSh co} {fmtSh (padShape g.sh bx.k)} | " ++ " ".intercalate es

inductive NormKind | l1sum | l1 | given (v : Rat)

def pNormKind : P NormKind := do
  let t ← pTok
  if t = "l1sum" then pure .l1sum
  else if t = "l1" then pure .l1
  else if t = "l2" then do let v ← pRat; pure (.given v)
  else failure

def normOf (k : Sh) (K : Img) : NormKind → Rat
  | .l1sum => kerSum k K
  | .l1 => sum3 k fun a b c => if K a b c < 0 then -K a b c else K a b c
  | .given v => v

/-- the filter `_setup_kernel` builds from the geometry and the Gaussian values -/
def mkFilter (g : Geom) (bx : Box) (K : Img) (nk : NormKind) (scale loc : Rat) : Filter :=
  ⟨g.sh, bx.k, K, centreOff g.sh bx, normOf bx.k K nk, scale, loc⟩

def runSmooth (g : Geom) (k : Sh) (kv : List Rat) (nk : NormKind) (scale loc : Rat)
    (data : List Rat) : String :=
  if !g.ok then "error:degenerate" else
  match cropBox g.sh g.supp with
  | none => "empty"
  | some bx =>
    if bx.k ≠ k then s!"kernel-shape-mismatch {fmtSh bx.k}"
    else if kv.length ≠ k.size ∨ data.length ≠ g.sh.size then "bad-op"
    else
      let F := mkFilter g bx (imgOfArr k kv.toArray) nk scale loc
      if F.norm = 0 then "error:zeroDivision"
      else fmtRats (toList g.sh (smoothLin F (imgOfArr g.sh data.toArray)))

def run : Toks → String
  | "kernel" :: rest =>
      match runP pGeom rest with
      | some g => runKernel g
      | none => "bad-op"
  | "smooth" :: rest =>
      match runP (do
          let g ← pGeom; let k ← pSh; let kv ← pMany pRat k.size; let nk ← pNormKind
          let sc ← pRat; let lo ← pRat; let d ← pMany pRat g.sh.size
          pure (g, k, kv, nk, sc, lo, d)) rest with
      | some (g, k, kv, nk, sc, lo, d) => runSmooth g k kv nk sc lo d
      | none => "bad-op"
  | "widths" :: rest =>
      match runP (do let c ← pRat; let x ← pRat; pure (c, x)) rest with
      | some (c, x) =>
          if c = 0 then "error:zeroDivision"
          else fmtRats [fwhm2sigma c x, sigma2fwhm c x, sigma2fwhm c (fwhm2sigma c x),
                        fwhm2sigma c (sigma2fwhm c x)]
      | none => "bad-op"
  | "guard" :: rest =>
      match runP (do let a ← pBool; let n ← pNat; pure (a, n)) rest with
      | some (a, n) => guard a n
      | none => "bad-op"
  | _ => "bad-op"

end NipyVerif.C18
