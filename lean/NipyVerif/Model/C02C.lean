/-
C02 (third part) — model of

* `Image.__getitem__` with *every* index kind: besides integers, slices and Ellipsis also
  `None` (newaxis), lists / integer arrays (fancy indexing), floats / strings (image.py +
  `ArrayCoordMap.__getitem__`'s type check),
* `ArrayCoordMap` by itself (nipy/core/reference/array_coords.py): `__getitem__` (the error order
  of `_slice` differs from the one an `Image` shows, where NumPy sees the index first), `values`,
  `transposed_values`, `Grid.__getitem__` (`np.ogrid` notation: real and complex steps) and
  `ArrayCoordMap.from_shape`,
* `xyz_affine` (the matrix, not only whether it exists), `rollimg(..., fix0=False)`,
  (`io_orientation` for affines whose columns are mutually orthogonal is in `Model/C02.lean`:
  `orthOrnt`, source `OrntSrc.orth`),
* the whole operation language as programs on a store of objects (`execP`): every operation of
  `Op`, the extended index kinds, `ImageList.from_image(...)[a:b:c]…[i]`, re-observation of an
  object, `get_fdata`, `iter_axis(asarray=True)`, `from_image(...).get_list_data(axis)`.
-/
import NipyVerif.Model.C02B
namespace NipyVerif.C02

variable {α : Type}

/-! ## every index kind -/

/-- one entry of an index tuple -/
inductive Idx
  | s (x : Slicer)        -- int, slice, Ellipsis
  | newaxis               -- `None`
  | fancy                 -- a list / integer array with in-range entries (NumPy accepts it)
  | float                 -- a float or a string (NumPy refuses it)
deriving DecidableEq, Repr

def Idx.isFloat : Idx → Bool
  | .float => true
  | _ => false

def Idx.isPlain : Idx → Bool
  | .s _ => true
  | _ => false

/-- what NumPy makes of the tuple as far as refusals go: `None` takes no axis, an in-range list
    takes one axis and never fails -/
def numpySlicers : List Idx → List Slicer
  | [] => []
  | .s x :: r => x :: numpySlicers r
  | .fancy :: r => fullSlice :: numpySlicers r
  | _ :: r => numpySlicers r

/-- `Image.__getitem__(index)` for every index kind: `self.get_fdata()[index]` runs first (a float
    or string is an `IndexError` whatever else the tuple holds; then NumPy's own refusals), then
    `ArrayCoordMap.__getitem__` refuses everything that is not int / slice / Ellipsis with a
    `ValueError`. -/
def getitemX (g : ImgOf α) (l : List Idx) : Except Err (ResOf α) :=
  if l.any Idx.isFloat then .error .indexError
  else if l.all Idx.isPlain then getitem g (numpySlicers l)
  else
    match expand g.shape.length (numpySlicers l) with
    | .error e => .error e
    | .ok ex =>
      match normAll g.shape ex with
      | .error e => .error e
      | .ok _ => .error .valueError

/-! ## `ArrayCoordMap` -/

/-- a coordinate map together with an array shape -/
abbrev ACM := ImgOf Unit

/-- `ArrayCoordMap(img.coordmap, img.shape)` -/
def ImgOf.acm (g : ImgOf α) : ACM :=
  { shape := g.shape, inNames := g.inNames, outNames := g.outNames, cols := g.cols, off := g.off
    data := fun _ => () }

/-- Ellipsis expansion of `ArrayCoordMap.__getitem__` and the padding of `_slice`: never an
    error here, the result may be longer than the number of axes -/
def acmExpand (n : Nat) (sl : List Slicer) : List Slicer :=
  match splitEll sl with
  | (pre, none) => pre ++ List.replicate (n - pre.length) fullSlice
  | (pre, some post) => pre ++ List.replicate (n - pre.length - post.length) fullSlice ++ post

/-- the loop of `_slice`, axis by axis: NumPy's refusal for this axis, then the empty-slice
    `ValueError` for this axis, then the next axis; a slicer beyond the last axis is an
    `IndexError` (`ranges[i]`) -/
def acmNorm : List Nat → List Slicer → Except Err (List AxSel)
  | n :: ns, s :: ss =>
      match normAxis n s with
      | .error e => .error e
      | .ok a =>
          if a.isEmpty then .error .valueError
          else match acmNorm ns ss with
            | .error e => .error e
            | .ok as => .ok (a :: as)
  | [], _ :: _ => .error .indexError
  | _, [] => .ok []

/-- `ArrayCoordMap.__getitem__`: a second Ellipsis is a `ValueError` (before anything else);
    all-integer indexing gives an `ArrayCoordMap` with no input axis and shape `()` -/
def acmGetitem (c : ACM) (sl : List Slicer) : Except Err ACM :=
  if 1 < (sl.filter (fun s => decide (s = .ell))).length then .error .valueError
  else
    match acmNorm c.shape (acmExpand c.shape.length sl) with
    | .error e => .error e
    | .ok sels =>
      if ¬ (selNames sels c.inNames).Nodup then .error .valueError
      else .ok {
        shape := selShape sels
        inNames := keepNames sels (selNames sels c.inNames)
        outNames := c.outNames
        cols := selCols sels c.cols
        off := fun r => c.off r + selOff sels c.cols r
        data := fun _ => () }

/-- `ArrayCoordMap.values`: one row of world coordinates per array index, C order -/
def acmValues (c : ACM) : List (List Rat) :=
  (allIdx c.shape).map (fun idx => (List.range c.outNames.length).map (fun r => c.world idx r))

/-- `ArrayCoordMap.transposed_values`: `np.indices` layout, one block per world coordinate -/
def acmTransposed (c : ACM) : List (List Rat) :=
  (List.range c.outNames.length).map (fun r => (allIdx c.shape).map (fun idx => c.world idx r))

/-- `values` / `transposed_values` as the code delivers them: for an `ArrayCoordMap` without
    array axes (all-integer indexing) `np.prod(())` is the float `1.0` and assigning it as a shape
    is a `TypeError` -/
def acmValuesE (c : ACM) : Except Err (List (List Rat) × List (List Rat)) :=
  if c.shape = [] then .error .typeError else .ok (acmValues c, acmTransposed c)

/-! ## `Grid` -/

/-- one slice of `np.ogrid` notation -/
inductive GSpec
  | step (a b s : Option Rat)      -- `a:b:s` (real step)
  | num (a b : Rat) (n : Nat)      -- `a:b:nj` (`n` points from `a` to `b` inclusive)
deriving Repr

/-- `np.ogrid` for one slice: (number of points, first point, step between points) -/
def GSpec.np : GSpec → Except Err (Nat × Rat × Rat)
  | .step a b s =>
      match b with
      | none => .error .attributeError     -- NumPy falls back to `key.step` on the tuple
      | some stop =>
          let start := a.getD 0
          let st := s.getD 1
          if st = 0 then .error .zeroDivision
          else .ok ((Rat.ceil ((stop - start) / st)).toNat, start, st)
  | .num a b n => .ok (n, a, if n = 1 then 1 else (b - a) / ((n : Rat) - 1))

/-- all slices through NumPy, the first refusal wins -/
def gridNp : List GSpec → Except Err (List (Nat × Rat × Rat))
  | [] => .ok []
  | s :: r =>
      match s.np with
      | .error e => .error e
      | .ok p => match gridNp r with
          | .error e => .error e
          | .ok ps => .ok (p :: ps)

/-- step written into the affine: `result[1] - result[0]`, 0 for a single point -/
def gridStep (p : Nat × Rat × Rat) : Rat := if p.1 > 1 then p.2.2 else 0

def gridCols : List (Nat × Rat × Rat) → List Vec → List Vec
  | p :: ps, c :: cs => (fun r => gridStep p * c r) :: gridCols ps cs
  | _, _ => []

def gridOff : List (Nat × Rat × Rat) → List Vec → Vec
  | p :: ps, c :: cs => fun r => p.2.1 * c r + gridOff ps cs r
  | _, _ => fun _ => 0

/-- `Grid(coordmap)[index]` for a tuple `index`: the number of slices must be the number of input
    axes (`ValueError`); an empty range is an `IndexError` (`result[0]`) -/
def gridGetitem (c : ACM) (specs : List GSpec) : Except Err ACM :=
  match gridNp specs with
  | .error e => .error e
  | .ok pts =>
      if pts.length ≠ c.inNames.length then .error .valueError
      else if pts.any (fun p => p.1 == 0) then .error .indexError
      else .ok {
        shape := pts.map (·.1)
        inNames := (List.range pts.length).map (fun i => "i" ++ toString i)
        outNames := c.outNames
        cols := gridCols pts c.cols
        off := fun r => c.off r + gridOff pts c.cols r
        data := fun _ => () }

/-- `ArrayCoordMap.from_shape(coordmap, shape)` is `Grid(coordmap)[tuple(slice(0, s, 1) …)]` -/
def fromShape (c : ACM) (shape : List Nat) : Except Err ACM :=
  gridGetitem c (shape.map (fun (s : Nat) => GSpec.step (some 0) (some (s : Rat)) (some 1)))

/-- the coordinate map at a point with rational coordinates -/
def linQ : List Vec → List Rat → Vec
  | c :: cs, x :: xs => fun r => x * c r + linQ cs xs r
  | _, _ => fun _ => 0

/-! ## `xyz_affine` -/

/-- `xyz_affine(img, name2xyz)`: the 4 × 4 matrix `from_matvec(affine[:3, :3], affine[:3, -1])`,
    or the refusal of `xyzAffineErr` -/
def xyzAffine (g : ImgOf α) (n2x : List (String × Nat)) (ornt : List (Option Nat)) :
    Except Err (List (List Rat)) :=
  match xyzAffineErr g n2x ornt with
  | some e => .error e
  | none =>
      .ok ((List.range 3).map (fun r =>
              (List.range 3).map (fun k => (g.cols.getD k zeroVec) r) ++ [g.off r])
            ++ [[0, 0, 0, 1]])

/-! ## programs over the whole operation language -/

/-- list slices one after the other (`ilist[a:b:c][d:e:f]…`) -/
def listSlices (items : List (ImgOf α)) :
    List (Option Int × Option Int × Option Int) → Except Err (List (ImgOf α))
  | [] => .ok items
  | (a, b, c) :: r =>
      match listGetitem items (.slc a b c) with
      | .ok (.list l) => listSlices l r
      | .ok (.item _) => .error .typeError
      | .error e => .error e

inductive POp
  | base (op : Op)
  | index (l : List Idx)
  | rollimgF (axis start : AxId) (fix0 : Bool) (o : OrntSrc)
  | item (axis : Option AxId) (dropout : Bool) (o oS : OrntSrc)
      (sls : List (Option Int × Option Int × Option Int)) (i : Int)
  | obs
  | data
  | iterArr (axis : AxId) (k : Nat) (o : OrntSrc)
  | listData (axis : Option AxId) (dropout : Bool) (o oS : OrntSrc) (lax : Option Int)

/-- what an instruction shows: an image, a bare value, an array, or a refusal -/
inductive POut (α : Type)
  | img (g : ImgOf α)
  | val (v : α)
  | arr (a : ArrOf α)
  | err (e : Err)

def POut.ofRes : Except Err (ResOf α) → POut α
  | .ok (.img g) => .img g
  | .ok (.val v) => .val v
  | .error e => .err e

def POut.ofArr : Except Err (ArrOf α) → POut α
  | .ok a => .arr a
  | .error e => .err e

/-- `ImageList.from_image(g, axis, dropout)[…slices…][i]` -/
def listPick (g : ImgOf α) (ax : Option AxId) (d : Bool) (o : List (Option Nat)) (oS : OrntSrc)
    (sls : List (Option Int × Option Int × Option Int)) (i : Int) : Except Err (ImgOf α) :=
  match fromImage g ax d o oS with
  | .error e => .error e
  | .ok items =>
    match listSlices items sls with
    | .error e => .error e
    | .ok l =>
      match listGetitem l (.int i) with
      | .ok (.item it) => .ok it
      | .ok (.list _) => .error .typeError
      | .error e => .error e

def stepP (g : ImgOf α) : POp → POut α
  | .base op => .ofRes (step g op)
  | .index l => .ofRes (getitemX g l)
  | .rollimgF a s f o => .ofRes (liftImg (rollimg g a s (o.get g f)))
  | .item ax d o oS sls i => .ofRes (liftImg (listPick g ax d (o.get g true) oS sls i))
  | .obs => .img g
  | .data => .arr { shape := g.shape, data := g.data }
  | .iterArr a k o => .ofArr (iterAxisArr g a k (o.get g true))
  | .listData ax d o oS lax =>
      match fromImage g ax d (o.get g true) oS with
      | .error e => .err e
      | .ok items => .ofArr (getListData items lax)

/-- does the image an instruction shows become a new object of the store? (`obs` shows an
    object that is there already) -/
def POp.makes : POp → Bool
  | .obs => false
  | _ => true

abbrev PInstr := Nat × POp

/-- run a program on a store: every instruction reads one object; an image it makes is appended
    to the store; the outcomes are collected -/
def execP : List (ImgOf α) → List PInstr → List (ImgOf α) × List (POut α)
  | store, [] => (store, [])
  | store, (src, op) :: rest =>
      match store[src]? with
      | none => let r := execP store rest; (r.1, .err .indexError :: r.2)
      | some g =>
          match stepP g op with
          | .img h =>
              if op.makes then let r := execP (store ++ [h]) rest; (r.1, .img h :: r.2)
              else let r := execP store rest; (r.1, .img h :: r.2)
          | out => let r := execP store rest; (r.1, out :: r.2)

end NipyVerif.C02
