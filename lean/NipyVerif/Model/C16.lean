/-
C16 — model of nipy's compiled numeric kernels.

* `quantile.c` / `fff_vector_quantile` front end (`p = ⌈r·n⌉`, the `+∞` rule,
  interpolation weights) over the *specification* of `_pth_element`
  (the p-th order statistic), plus a literal transcription of the
  Hoare-partition selection loop `_pth_element` (fuel-bounded) that the
  correspondence check runs against the real C, permuted fibre included;
  and of `_pth_interval` (`pivLoop`, both neighbouring order statistics) with the front end as written
  (`quantileLit`); both loops are proved correct in `Lemmas/C16H.lean`;
* all-but-axis iteration (`PyArray_IterAllButAxis`, `fffpy_multi_iterator`) as
  offset arithmetic over shape / strides;
* `fff_blas.c`: the row-major → column-major flag tables of gemv, gemm, symm,
  trmm, trsm, syrk over a reference (Fortran) semantics, driven by the table regenerated from the
  source text (`Gen/C16Tables.lean`); the other wrappers are in `Model/C16L.lean`, the view layer of
  fff_vector/fff_matrix/fff_array in `Model/C16B.lean`, the spline prefilter in `Model/C16S.lean`;
* `histogram.pyx`;
* `cubic_spline.c`: B-spline basis, boundary modes, neighbour window,
  mirrored positions, 1-D sampling (separable in n-D);
* `fff_permutation`, `fff_combination`.

Exact rational arithmetic.  The truncated constants of the C code
(`0.66666666666667`) are parameters of the model.
-/
import NipyVerif.Model.Common
import NipyVerif.Gen.C16Tables
namespace NipyVerif.C16

/-! ## Order statistics (`quantile.c`, `fff_vector.c`) -/

def insertLe (v : Rat) : List Rat → List Rat
  | [] => [v]
  | a :: l => if v ≤ a then v :: a :: l else a :: insertLe v l

/-- specification of the selection: the ascending rearrangement -/
def sortLe (l : List Rat) : List Rat := l.foldr insertLe []

def nth (s : List Rat) (p : Nat) : Rat := s.getD p 0

/-- `(int)a` for `a ≥ 0` -/
def floorNat (q : Rat) : Nat := (q.num / (q.den : Int)).toNat

/-- `UNSIGNED_CEIL(a) = ((int)a - a != 0) ? (int)(a+1) : (int)a` -/
def ceilNat (q : Rat) : Nat := if ((floorNat q : Nat) : Rat) = q then floorNat q else floorNat q + 1

inductive Q where
  | val (v : Rat)
  | posInf
deriving DecidableEq, Repr

/-- `quantile(data, size, stride, r, interp)` on the logical fibre `x`
    (`none`: ratio outside [0,1] — `ValueError` in `_quantile`, warning and 0 in C — or empty). -/
def quantile (x : List Rat) (r : Rat) (interp : Bool) : Option Q :=
  if r < 0 ∨ 1 < r then none
  else if x.length = 0 then none
  else if x.length = 1 then some (.val (nth x 0))
  else
    let s := sortLe x
    if !interp then
      let p := ceilNat (r * (x.length : Nat))
      if p = x.length then some .posInf else some (.val (nth s p))
    else
      let pp : Rat := r * (((x.length - 1 : Nat) : Nat) : Rat)
      let p := floorNat pp
      let wM : Rat := pp - (p : Nat)
      if wM ≤ 0 then some (.val (nth s p))
      else some (.val ((1 - wM) * nth s p + wM * nth s (p + 1)))

/-- `fff_vector_median` / `_median` : `quantile(ratio = 1/2, interp = 1)` -/
def median (x : List Rat) : Option Q := quantile x (1 / 2) true

/-! ### literal transcription of `_pth_element` (Hoare partition, in place) -/

def swapA (x : Array Rat) (i j : Nat) : Array Rat :=
  let a := x.getD i 0
  let b := x.getD j 0
  (x.setIfInBounds i b).setIfInBounds j a

/-- `while (*bufl < a) i++` (stops at the end of the buffer) -/
def scanUp (x : Array Rat) (a : Rat) : Nat → Nat → Nat
  | 0, i => i
  | f + 1, i => if i < x.size ∧ x.getD i a < a then scanUp x a f (i + 1) else i

/-- `while (*bufr > a) j--` -/
def scanDown (x : Array Rat) (a : Rat) : Nat → Nat → Nat
  | 0, j => j
  | f + 1, j => if 0 < j ∧ x.getD j a > a then scanDown x a f (j - 1) else j

/-- inner `while (stop2 == 0)` loop; returns `(x, i, j)` -/
def partLoop (a : Rat) (il jr : Nat) (same : Bool) : Nat → Array Rat → Nat → Nat → Array Rat × Nat × Nat
  | 0, x, i, j => (x, i, j)
  | f + 1, x, i, j =>
      let i1 := scanUp x a x.size i
      let j1 := scanDown x a x.size j
      let (x2, i2, j2, stop) :=
        if j1 ≤ i1 then (x, i1, j1, true) else (swapA x i1 j1, i1 + 1, j1 - 1, false)
      if same ∧ j2 = jr then
        (swapA x2 il (j2 - 1), i2, j2 - 1)
      else if stop then (x2, i2, j2) else partLoop a il jr same f x2 i2 j2

/-- outer loop of `_pth_element`; returns the value and the permuted fibre -/
def pthLoop (p : Nat) : Nat → Array Rat → Nat → Nat → Rat × Array Rat
  | 0, x, il, _ => (x.getD il 0, x)
  | f + 1, x, il, jr =>
      let xl := x.getD il 0
      let xr := x.getD jr 0
      let x1 := if xl > xr then swapA x il jr else x
      let same := decide (xl = xr)
      let a := x1.getD il 0
      if il = jr then (a, x1)
      else
        let (x2, i, j) := partLoop a il jr same (x.size + 1) x1 (il + 1) jr
        if j > p then pthLoop p f x2 il j
        else if j < p then pthLoop p f x2 i jr
        else (a, x2)

def pthElement (x : List Rat) (p : Nat) : Rat × List Rat :=
  let r := pthLoop p (2 * x.length + 2) x.toArray 0 (x.length - 1)
  (r.1, r.2.toList)

/-- outer loop of `_pth_interval`: both the `p`-th and the `(p+1)`-th order statistics; state
    `(stop1, stop2, am, aM)`; returns `(am, aM, permuted fibre)` -/
def pivLoop (p : Nat) : Nat → Array Rat → Nat → Nat → Bool → Bool → Rat → Rat → Rat × Rat × Array Rat
  | 0, x, _, _, _, _, am, aM => (am, aM, x)
  | f + 1, x, il, jr, s1, s2, am, aM =>
      if s1 ∧ s2 then (am, aM, x)
      else
        let xl := x.getD il 0
        let xr := x.getD jr 0
        let x1 := if xl > xr then swapA x il jr else x
        let same := decide (xl = xr)
        let a := x1.getD il 0
        if il = jr then ((if s1 then am else a), (if s2 then aM else a), x1)
        else
          let r := partLoop a il jr same (x.size + 1) x1 (il + 1) jr
          if r.2.2 > p + 1 then pivLoop p f r.1 il r.2.2 s1 s2 am aM
          else if r.2.2 < p then pivLoop p f r.1 r.2.1 jr s1 s2 am aM
          else if r.2.2 = p then pivLoop p f r.1 r.2.1 jr true s2 a aM
          else pivLoop p f r.1 il r.2.2 s1 true am a

def pthInterval (x : List Rat) (p : Nat) : Rat × Rat × List Rat :=
  let r := pivLoop p (2 * x.length + 2) x.toArray 0 (x.length - 1) false false 0 0
  (r.1, r.2.1, r.2.2.toList)

/-- `quantile()` / `fff_vector_quantile()` as written: front end over the two selection loops;
    returns the value and the permuted fibre -/
def quantileLit (x : List Rat) (r : Rat) (interp : Bool) : Option (Q × List Rat) :=
  if r < 0 ∨ 1 < r then none
  else if x.length = 0 then none
  else if x.length = 1 then some (.val (nth x 0), x)
  else if !interp then
    let p := ceilNat (r * (x.length : Nat))
    if p = x.length then some (.posInf, x)
    else let e := pthElement x p; some (.val e.1, e.2)
  else
    let pp : Rat := r * (((x.length - 1 : Nat) : Nat) : Rat)
    let p := floorNat pp
    let wM : Rat := pp - (p : Nat)
    if wM ≤ 0 then let e := pthElement x p; some (.val e.1, e.2)
    else let e := pthInterval x p; some (.val ((1 - wM) * e.1 + wM * e.2.1), e.2.2)

/-! ## All-but-axis iteration as offset arithmetic -/

/-- all multi-indices of a shape, C order (last index fastest) -/
def allIdx : List Nat → List (List Nat)
  | [] => [[]]
  | d :: ds => (List.range d).flatMap (fun i => (allIdx ds).map (fun t => i :: t))

/-- element offset (in items) of a multi-index under the given strides -/
def offsetOf : List Int → List Nat → Int
  | s :: ss, i :: is => s * (i : Int) + offsetOf ss is
  | _, _ => 0

/-- starting multi-indices of `PyArray_IterAllButAxis`: the shape with `dims[axis] := 1` -/
def fibreBases (dims : List Nat) (axis : Nat) : List (List Nat) := allIdx (dims.set axis 1)

/-- multi-indices of the fibre starting at `b` -/
def fibre (dims : List Nat) (axis : Nat) (b : List Nat) : List (List Nat) :=
  (List.range (dims.getD axis 0)).map (fun k => b.set axis k)

/-- every multi-index the iterator/vector-view pair reads, in order -/
def visited (dims : List Nat) (axis : Nat) : List (List Nat) :=
  (fibreBases dims axis).flatMap (fibre dims axis)

/-- what the C code computes: `ITER_DATA + k * stride[axis]` -/
def fibreOffsets (dims : List Nat) (strides : List Int) (axis : Nat) : List (List Int) :=
  (fibreBases dims axis).map (fun b =>
    (List.range (dims.getD axis 0)).map (fun (k : Nat) => offsetOf strides b + strides.getD axis 0 * (k : Int)))

/-! ## BLAS wrappers: row-major data handed to column-major routines -/

structure Mat where
  r : Nat
  c : Nat
  get : Nat → Nat → Rat

/-- the same buffer read by a column-major routine -/
def Mat.T (A : Mat) : Mat := ⟨A.c, A.r, fun i j => A.get j i⟩

def sumTo : Nat → (Nat → Rat) → Rat
  | 0, _ => 0
  | n + 1, f => sumTo n f + f n

inductive Trans | N | T deriving DecidableEq, Repr
inductive Uplo | U | L deriving DecidableEq, Repr
inductive Side | L | R deriving DecidableEq, Repr
inductive Diag | N | U deriving DecidableEq, Repr

def Trans.swap : Trans → Trans | .N => .T | .T => .N      -- SWAP_TRANS
def Uplo.swap : Uplo → Uplo | .U => .L | .L => .U          -- SWAP_UPLO
def Side.swap : Side → Side | .L => .R | .R => .L          -- SWAP_SIDE

def op (t : Trans) (A : Mat) : Mat := match t with | .N => A | .T => A.T

def inTri (u : Uplo) (i j : Nat) : Bool := match u with | .U => decide (i ≤ j) | .L => decide (j ≤ i)

/-- the symmetric matrix a BLAS routine reads from one triangle -/
def symOf (u : Uplo) (A : Mat) : Mat := ⟨A.r, A.c, fun i j => if inTri u i j then A.get i j else A.get j i⟩

/-- the triangular matrix a BLAS routine reads (unit diagonal not referenced) -/
def triOf (u : Uplo) (d : Diag) (A : Mat) : Mat :=
  ⟨A.r, A.c, fun i j => if i = j then (match d with | .U => 1 | .N => A.get i i)
                         else if inTri u i j then A.get i j else 0⟩

/-! reference semantics of the Fortran routines (on the matrices as Fortran reads them) -/

def gemvF (t : Trans) (m n : Nat) (al : Rat) (A : Mat) (x : Nat → Rat) (be : Rat) (y : Nat → Rat) : Nat → Rat :=
  match t with
  | .N => fun i => al * sumTo n (fun l => A.get i l * x l) + be * y i
  | .T => fun i => al * sumTo m (fun l => A.get l i * x l) + be * y i

def gemmF (ta tb : Trans) (m n k : Nat) (al : Rat) (A B : Mat) (be : Rat) (C : Mat) : Mat :=
  ⟨m, n, fun i j => al * sumTo k (fun l => (op ta A).get i l * (op tb B).get l j) + be * C.get i j⟩

def symmF (s : Side) (u : Uplo) (m n : Nat) (al : Rat) (A B : Mat) (be : Rat) (C : Mat) : Mat :=
  ⟨m, n, fun i j => match s with
    | .L => al * sumTo m (fun l => (symOf u A).get i l * B.get l j) + be * C.get i j
    | .R => al * sumTo n (fun l => B.get i l * (symOf u A).get l j) + be * C.get i j⟩

def trmmF (s : Side) (u : Uplo) (t : Trans) (d : Diag) (m n : Nat) (al : Rat) (A B : Mat) : Mat :=
  ⟨m, n, fun i j => match s with
    | .L => al * sumTo m (fun l => (op t (triOf u d A)).get i l * B.get l j)
    | .R => al * sumTo n (fun l => B.get i l * (op t (triOf u d A)).get l j)⟩

def syrkF (u : Uplo) (t : Trans) (n k : Nat) (al : Rat) (A : Mat) (be : Rat) (C : Mat) : Mat :=
  ⟨n, n, fun i j =>
    if inTri u i j then
      al * sumTo k (fun l => (op t A).get i l * (op t A).get j l) + be * C.get i j
    else C.get i j⟩

/-- `X` is what `dtrsm(side, uplo, trans, diag, m, n, alpha, A, B)` leaves in `B` -/
def IsTrsmF (s : Side) (u : Uplo) (t : Trans) (d : Diag) (m n : Nat) (al : Rat) (A B X : Mat) : Prop :=
  match s with
  | .L => ∀ i j, i < m → j < n → sumTo m (fun l => (op t (triOf u d A)).get i l * X.get l j) = al * B.get i j
  | .R => ∀ i j, i < m → j < n → sumTo n (fun l => X.get i l * (op t (triOf u d A)).get l j) = al * B.get i j

/-! the wrappers of `fff_blas.c`, driven by the flag table regenerated from the source text
    (`Gen/C16Tables.lean`): which flags are swapped, in which order the operands are handed over,
    which size is `m` -/

/-- apply a flag swap iff the wrapper builds that flag with a `SWAP_*` macro -/
def swIf {α : Type} (b : Bool) (f : α → α) (x : α) : α := if b then f x else x
/-- `(m, n)` handed to the column-major routine -/
def mn (mIsSize2 : Bool) (A : Mat) : Nat × Nat := if mIsSize2 then (A.c, A.r) else (A.r, A.c)
/-- the two operands in the order of the Fortran call -/
def ord2 {α : Type} (swapped : Bool) (a b : α) : α × α := if swapped then (b, a) else (a, b)

def fffGemv (t : Trans) (al : Rat) (A : Mat) (x : Nat → Rat) (be : Rat) (y : Nat → Rat) : Nat → Rat :=
  let d := mn Gen.gemvMIsSize2 A
  let xy := ord2 Gen.gemvSwapsOperands x y
  gemvF (swIf Gen.gemvSwapTrans Trans.swap t) d.1 d.2 al A.T xy.1 be xy.2

def fffGemm (ta tb : Trans) (al : Rat) (A B : Mat) (be : Rat) (C : Mat) : Mat :=
  let k := match tb with | .N => B.r | .T => B.c
  let d := mn Gen.gemmMIsSize2 C
  let ts := ord2 Gen.gemmSwapsOperands (swIf Gen.gemmSwapTransA Trans.swap ta) (swIf Gen.gemmSwapTransB Trans.swap tb)
  let ms := ord2 Gen.gemmSwapsOperands A.T B.T
  (gemmF ts.1 ts.2 d.1 d.2 k al ms.1 ms.2 be C.T).T

def fffSymm (s : Side) (u : Uplo) (al : Rat) (A B : Mat) (be : Rat) (C : Mat) : Mat :=
  let d := mn Gen.symmMIsSize2 C
  (symmF (swIf Gen.symmSwapSide Side.swap s) (swIf Gen.symmSwapUplo Uplo.swap u) d.1 d.2 al A.T B.T be C.T).T

def fffTrmm (s : Side) (u : Uplo) (t : Trans) (d : Diag) (al : Rat) (A B : Mat) : Mat :=
  let dm := mn Gen.trmmMIsSize2 B
  (trmmF (swIf Gen.trmmSwapSide Side.swap s) (swIf Gen.trmmSwapUplo Uplo.swap u) (swIf Gen.trmmSwapTrans Trans.swap t) d
    dm.1 dm.2 al A.T B.T).T

def fffSyrk (u : Uplo) (t : Trans) (al : Rat) (A : Mat) (be : Rat) (C : Mat) : Mat :=
  let k := match t with | .N => A.r | .T => A.c
  (syrkF (swIf Gen.syrkSwapUplo Uplo.swap u) (swIf Gen.syrkSwapTrans Trans.swap t) C.r k al A.T be C.T).T

/-- executable triangular solve `T X = R` for lower-triangular `T` (forward substitution,
    rows `0..m-1`, one column given as a function) -/
def fwdSolve (T : Nat → Nat → Rat) (rhs : Nat → Rat) : Nat → List Rat
  | 0 => []
  | i + 1 =>
      let prev := fwdSolve T rhs i
      let pa := prev.toArray
      let s := sumTo i (fun l => T i l * pa.getD l 0)
      prev ++ [(rhs i - s) / T i i]

/-- solve `T X = R` for a triangular `T` (`lower` says which), column by column -/
def triSolve (m n : Nat) (lower : Bool) (T : Mat) (R : Mat) : Mat :=
  let rev := fun (i : Nat) => m - 1 - i
  let cols : Array (Array Rat) := (Array.range n).map (fun j =>
    if lower then (fwdSolve T.get (fun i => R.get i j) m).toArray
    else
      let y := (fwdSolve (fun i l => T.get (rev i) (rev l)) (fun i => R.get (rev i) j) m).toArray
      (Array.range m).map (fun i => y.getD (rev i) 0))
  ⟨m, n, fun i j => (cols.getD j #[]).getD i 0⟩

/-- the wrapper `fff_blas_dtrsm` run through the Fortran view and transposed back -/
def fffTrsm (s : Side) (u : Uplo) (t : Trans) (d : Diag) (al : Rat) (A B : Mat) : Mat :=
  -- Fortran problem: side', uplo', trans' from the table, on A.T, B.T (m × n from the table)
  let s' := swIf Gen.trsmSwapSide Side.swap s
  let u' := swIf Gen.trsmSwapUplo Uplo.swap u
  let t' := swIf Gen.trsmSwapTrans Trans.swap t
  let dm := mn Gen.trsmMIsSize2 B
  let TF := op t' (triOf u' d A.T)
  let lowerF := (u' = .L) = (t' = .N)
  let BF : Mat := ⟨dm.1, dm.2, fun i j => al * B.T.get i j⟩
  match s' with
  | .L => (triSolve dm.1 dm.2 lowerF TF BF).T
  | .R => -- X TF = BF  ⇔  TFᵀ Xᵀ = BFᵀ
      (triSolve dm.2 dm.1 (!lowerF) TF.T BF.T)

/-! ## Integer histogram (`histogram.pyx`) -/

def incr : List Nat → Nat → List Nat
  | [], _ => []
  | h :: t, 0 => (h + 1) :: t
  | h :: t, v + 1 => h :: incr t v

def histogram (x : List Nat) : List Nat :=
  x.foldl incr (List.replicate (x.foldl max 0 + 1) 0)

/-! ## Cubic B-spline sampling (`cubic_spline.c`) -/

/-- `ABS(a) = a > 0 ? a : -a` -/
def absR (x : Rat) : Rat := if x > 0 then x else -x

/-- `cubic_spline_basis`; `c23` is the constant the C code writes `0.66666666666667` -/
def basis (c23 x : Rat) : Rat :=
  let a := absR x
  if a ≥ 2 then 0
  else if a < 1 then c23 - a * a + (1 / 2) * a * (a * a)
  else (2 - a) * (2 - a) * (2 - a) / 6

/-- `(int)q` : truncation toward zero -/
def truncInt (q : Rat) : Int := if q ≥ 0 then q.floor else -((-q).floor)

/-- `_mirrored_position`: reflection of a grid coordinate into `[0, ddim]`
    (whole-sample symmetric extension of period `2·ddim`) -/
def mirroredPosition (x : Int) (ddim : Nat) : Nat :=
  if ddim = 0 then 0
  else
    let per : Int := 2 * (ddim : Int)
    let y := x % per
    (if y > (ddim : Int) then per - y else y).toNat

/-- `_apply_boundary_conditions`: `(x', w)` or refusal.  modes 0 zero, 1 nearest, 2 reflect -/
def applyBoundary (mode : Nat) (ddim : Nat) (x : Rat) : Option (Rat × Rat) :=
  let dd : Rat := (ddim : Nat)
  if mode = 0 then
    if x < -1 then none
    else if x < 0 then some (0, 1 + x)
    else if x > dd + 1 then none
    else if x > dd then some (dd, dd + 1 - x)
    else some (x, 1)
  else if mode = 1 then
    if x < 0 then some (0, 1) else if x > dd then some (dd, 1) else some (x, 1)
  else
    if x < -dd ∨ x > 2 * dd then none else some (x, 1)

/-- `_mirror_grid_neighbors`: the 4-tap window `nx .. px` -/
def neighbors (x : Rat) (ddim : Nat) : Option (Int × Int) :=
  let px := truncInt (x + (ddim : Nat) + 2)
  if 2 ≤ px ∧ px ≤ 3 * (ddim : Int) + 2 then some (px - ddim - 3, px - ddim) else none

def coefAt (coef : Array Rat) (i : Nat) : Rat := coef.getD i 0

/-- `cubic_spline_sample1d` -/
def sample1d (c23 : Rat) (mode : Nat) (coef : Array Rat) (x : Rat) : Rat :=
  let ddim := coef.size - 1
  match applyBoundary mode ddim x with
  | none => 0
  | some (x', w) =>
    match neighbors x' ddim with
    | none => 0
    | some (nx, _) =>
      w * ((List.range 4).map (fun (t : Nat) =>
        coefAt coef (mirroredPosition (nx + (t : Int)) ddim) * basis c23 (x' - ((nx + (t : Int) : Int) : Rat)))).sum

/-- row-major n-D coefficient array: shape, data -/
def sampleNd (c23 : Rat) : List Nat → List Nat → Array Rat → Nat → List Rat → Rat
  | [], _, data, off, _ => data.getD off 0
  | _ :: _, [], _, _, _ => 0
  | _ :: _, _ :: _, _, _, [] => 0
  | d :: ds, m :: ms, data, off, x :: xs =>
      let inner := ds.foldl (· * ·) 1
      let ddim := d - 1
      match applyBoundary m ddim x with
      | none => 0
      | some (x', w) =>
        match neighbors x' ddim with
        | none => 0
        | some (nx, _) =>
          w * ((List.range 4).map (fun (t : Nat) =>
            sampleNd c23 ds ms data (off + mirroredPosition (nx + (t : Int)) ddim * inner) xs
              * basis c23 (x' - ((nx + (t : Int) : Int) : Rat)))).sum

/-! ## Permutations and combinations (`fff_gen_stats.c`) -/

/-- `fff_permutation`: factoradic digits of `magic` pick, in turn, the element moved to
    position `i` (the others keep their order: the `memmove`). -/
def permAux : Nat → List Nat → Nat → List Nat
  | 0, _, _ => []
  | nc + 1, rest, m =>
      rest.getD (m % (nc + 1)) 0 :: permAux nc (rest.eraseIdx (m % (nc + 1))) (m / (nc + 1))

def permutation (n magic : Nat) : List Nat := permAux n (List.range n) magic

/-- `_combinations(k, n)`: `C(n,k)` by the multiplicative loop, at least 1 -/
def combLoop (aux : Nat) : Nat → Nat
  | 0 => 1
  | i + 1 => combLoop aux i * (aux + (i + 1)) / (i + 1)

def combinations (k n : Nat) : Nat := max (combLoop (n - k) k) 1

/-- main loop of `fff_combination` (`fuel` bounds the candidates `i`) -/
def combAux : Nat → Nat → Nat → Nat → Nat → List Nat
  | 0, _, _, _, _ => []
  | _ + 1, 0, _, _, _ => []
  | f + 1, kk + 1, nn, i, m =>
      let c := combinations kk (nn - 1)
      if m < c then i :: combAux f kk (nn - 1) (i + 1) m
      else combAux f (kk + 1) (nn - 1) (i + 1) (m - c)

def combination (k n magic : Nat) : List Nat :=
  combAux (n + 1) k n 0 (magic % combinations k n)

/-! ## Line protocol -/

def fmtQ : Option Q → String
  | none => "error:valueError"
  | some .posInf => "inf"
  | some (.val v) => fmtRat v

def pTrans : P Trans := do let b ← pBool; pure (if b then .T else .N)
def pUplo : P Uplo := do let b ← pBool; pure (if b then .L else .U)
def pSide : P Side := do let b ← pBool; pure (if b then .R else .L)
def pDiag : P Diag := do let b ← pBool; pure (if b then .U else .N)

def matOfRows (m : List (List Rat)) : Mat :=
  let a : Array (Array Rat) := (m.map List.toArray).toArray
  ⟨m.length, (m.headD []).length, fun i j => (a.getD i #[]).getD j 0⟩

def rowsOf (A : Mat) : List (List Rat) :=
  (List.range A.r).map (fun i => (List.range A.c).map (fun j => A.get i j))

def fmtM (A : Mat) : String := fmtMat (rowsOf A)

def pInts : P (List Int) := pList pInt

def run : Toks → String
  | "quantile" :: rest =>
      match runP (do let r ← pRat; let i ← pBool; let x ← pList pRat; pure (r, i, x)) rest with
      | some (r, i, x) => fmtQ (quantile x r i)
      | none => "bad-op"
  | "qlit" :: rest =>
      match runP (do let r ← pRat; let i ← pBool; let x ← pList pRat; pure (r, i, x)) rest with
      | some (r, i, x) =>
          match quantileLit x r i with
          | none => "error:valueError"
          | some (.posInf, y) => s!"inf | {fmtRats y}"
          | some (.val v, y) => s!"{fmtRat v} | {fmtRats y}"
      | none => "bad-op"
  | "pth" :: rest =>
      match runP (do let p ← pNat; let x ← pList pRat; pure (p, x)) rest with
      | some (p, x) =>
          if x.length = 0 ∨ p ≥ x.length then "bad-op"
          else
            let r := pthElement x p
            s!"{fmtRat r.1} {fmtRat (nth (sortLe x) p)} | {fmtRats r.2}"
      | none => "bad-op"
  | "iter" :: rest =>
      match runP (do let d ← pList pNat; let s ← pInts; let a ← pNat; pure (d, s, a)) rest with
      | some (d, s, a) =>
          if s.length ≠ d.length ∨ a ≥ d.length then "bad-op"
          else " | ".intercalate ((fibreOffsets d s a).map fmtInts)
      | none => "bad-op"
  | "hist" :: rest =>
      match runP (pList pNat) rest with
      | some x => if x = [] then "error:valueError" else fmtNats (histogram x)
      | none => "bad-op"
  | "gemv" :: rest =>
      match runP (do let t ← pTrans; let al ← pRat; let A ← pMat; let x ← pList pRat
                     let be ← pRat; let y ← pList pRat; pure (t, al, A, x, be, y)) rest with
      | some (t, al, A, x, be, y) =>
          let xa := x.toArray; let ya := y.toArray
          let f := fffGemv t al (matOfRows A) (fun i => xa.getD i 0) be (fun i => ya.getD i 0)
          fmtRats ((List.range y.length).map f)
      | none => "bad-op"
  | "gemm" :: rest =>
      match runP (do let ta ← pTrans; let tb ← pTrans; let al ← pRat; let A ← pMat; let B ← pMat
                     let be ← pRat; let C ← pMat; pure (ta, tb, al, A, B, be, C)) rest with
      | some (ta, tb, al, A, B, be, C) =>
          fmtM (fffGemm ta tb al (matOfRows A) (matOfRows B) be (matOfRows C))
      | none => "bad-op"
  | "symm" :: rest =>
      match runP (do let s ← pSide; let u ← pUplo; let al ← pRat; let A ← pMat; let B ← pMat
                     let be ← pRat; let C ← pMat; pure (s, u, al, A, B, be, C)) rest with
      | some (s, u, al, A, B, be, C) =>
          fmtM (fffSymm s u al (matOfRows A) (matOfRows B) be (matOfRows C))
      | none => "bad-op"
  | "trmm" :: rest =>
      match runP (do let s ← pSide; let u ← pUplo; let t ← pTrans; let d ← pDiag; let al ← pRat
                     let A ← pMat; let B ← pMat; pure (s, u, t, d, al, A, B)) rest with
      | some (s, u, t, d, al, A, B) => fmtM (fffTrmm s u t d al (matOfRows A) (matOfRows B))
      | none => "bad-op"
  | "trsm" :: rest =>
      match runP (do let s ← pSide; let u ← pUplo; let t ← pTrans; let d ← pDiag; let al ← pRat
                     let A ← pMat; let B ← pMat; pure (s, u, t, d, al, A, B)) rest with
      | some (s, u, t, d, al, A, B) => fmtM (fffTrsm s u t d al (matOfRows A) (matOfRows B))
      | none => "bad-op"
  | "syrk" :: rest =>
      match runP (do let u ← pUplo; let t ← pTrans; let al ← pRat; let A ← pMat
                     let be ← pRat; let C ← pMat; pure (u, t, al, A, be, C)) rest with
      | some (u, t, al, A, be, C) => fmtM (fffSyrk u t al (matOfRows A) be (matOfRows C))
      | none => "bad-op"
  | "basis" :: rest =>
      match runP (do let c ← pRat; let x ← pList pRat; pure (c, x)) rest with
      | some (c, x) => fmtRats (x.map (basis c))
      | none => "bad-op"
  | "sample" :: rest =>
      -- c23, shape, modes, data (row-major), then points (ndim coordinates each)
      match runP (do let c ← pRat; let sh ← pList pNat; let ms ← pList pNat; let data ← pList pRat
                     let pts ← pList (pMany pRat sh.length); pure (c, sh, ms, data, pts)) rest with
      | some (c, sh, ms, data, pts) =>
          if ms.length ≠ sh.length ∨ data.length ≠ sh.foldl (· * ·) 1 ∨ sh.any (· = 0) ∨ ms.any (· > 2)
          then "bad-op"
          else fmtRats (pts.map (sampleNd c sh ms data.toArray 0))
      | none => "bad-op"
  | "perm" :: rest =>
      match runP (do let n ← pNat; let m ← pNat; pure (n, m)) rest with
      | some (n, m) => fmtNats (permutation n m)
      | none => "bad-op"
  | "comb" :: rest =>
      match runP (do let k ← pNat; let n ← pNat; let m ← pNat; pure (k, n, m)) rest with
      | some (k, n, m) => if k > n then "bad-op" else fmtNats (combination k n m)
      | none => "bad-op"
  | _ => "bad-op"

end NipyVerif.C16
