/-
C17 (statistics, part S) — every flag of `fff_onesample_stat.c` / `fff_twosample_stat.c`,
dispatched through the tables regenerated from the C sources (`Gen/C17Tables.lean`), and the
iteration of a statistic over the fibres of an N-d array along an axis (onesample.pyx `stat`).

`sqrt` / `log` / the Newton root of the empirical likelihood are outside the model: a statistic
that ends with them is modelled up to its last rational quantities (sign, square, scale pair,
finite/infinite kind); the harness finishes the computation numerically.
-/
import NipyVerif.Model.C17
import NipyVerif.Gen.C17Tables
namespace NipyVerif.C17

def rmax (a b : Rat) : Rat := if b < a then a else b

/-- `_fff_onesample_tukey` up to `sqrt(2 n log(s0/s))`: sign of `median - base`, `s0`, `s` with
    `s` the median absolute deviation from the median, `s0 = max(MAD from base, s)` -/
def osTukey (x : List Rat) (base : Rat) : Rat × Rat × Rat :=
  let med := median x
  let s := median (x.map (fun v => rabs (v - med)))
  let s0 := median (x.map (fun v => rabs (v - base)))
  (sgn (med - base), rmax s0 s, s)

/-- `_fff_onesample_grubb` up to `sqrt`: `max_i (x_i - m)² / (ssd/n)`; a sample without spread
    gives 0 (`0 * inf` is NaN and never exceeds the running maximum). The baseline is ignored. -/
def osGrubbSq (x : List Rat) : Rat :=
  let n : Rat := x.length
  let m := mean x
  let v := ssd x / n
  if v = 0 then 0 else (x.map (fun u => (u - m) * (u - m))).foldl rmax 0 / v

/-- what can be said exactly about `_fff_onesample_elr`: the sign of the mean residual, and
    whether the Lagrange multiplier is bracketed (residuals of both signs) -/
inductive ElrKind where
  | zero                 -- mean equals the baseline: 0.0
  | inf (s : Rat)        -- all residuals on one side: ±inf
  | fin (s : Rat)        -- sign * sqrt(-2 log lambda), finite part outside the model
deriving DecidableEq, Repr

def osElr (x : List Rat) (base : Rat) : ElrKind :=
  let r := x.map (· - base)
  let s := sgn (mean r)
  if s = 0 then .zero
  else if r.any (fun c => decide (0 < c)) && r.any (fun c => decide (c < 0)) then .fin s
  else .inf s

def ElrKind.neg : ElrKind → ElrKind
  | .zero => .zero
  | .inf s => .inf (-s)
  | .fin s => .fin (-s)

def fmtElr : ElrKind → String
  | .zero => "0"
  | .inf s => s!"inf {fmtRat s}"
  | .fin s => s!"fin {fmtRat s}"

/-- `_fff_onesample_LR_gmfx` (`student_mfx`) up to `sign * sqrt(2 (nll0 - nll))`: the residuals
    `x - base`, the unconstrained fit `(mu, v)` and the zero-mean fit `v0`; the two negated
    log-likelihoods contain `log` and are evaluated by the harness from these numbers -/
def osLRGmfx (x var : List Rat) (niter : Nat) (base : Rat) : Rat × Rat × Rat × Rat :=
  let xc := x.map (· - base)
  let (mu, v) := gmfxEM xc var niter false
  let (_, v0) := gmfxEM xc var niter true
  (sgn mu, mu, v, v0)

/-! ### dispatch by numeric flag through the generated tables -/

open NipyVerif.Gen.C17 in
/-- name of the C function `fff_onesample_stat_new` installs for a numeric flag -/
def osFunOfFlag (flag : Nat) : Option String :=
  match osFlags.find? (fun p => p.2 == flag) with
  | none => none
  | some (name, _) => osDispatch.lookup name

open NipyVerif.Gen.C17 in
def tsFunOfFlag (flag : Nat) : Option String :=
  match tsFlags.find? (fun p => p.2 == flag) with
  | none => none
  | some (name, _) => tsDispatch.lookup name

open NipyVerif.Gen.C17 in
def osMfxFunOfFlag (flag : Nat) : Option (String × Bool) :=
  match osFlags.find? (fun p => p.2 == flag) with
  | none => none
  | some (name, _) => osMfxDispatch.lookup name

/-- model of a one-sample statistic function, by the name of the C function -/
def osModel (fn : String) (x : List Rat) (base : Rat) : Option String :=
  match fn with
  | "_fff_onesample_mean" => some (fmtRat (osMean x base))
  | "_fff_onesample_median" => some (fmtRat (osMedian x base))
  | "_fff_onesample_student" => some (fmtSq (osStudentSq x base))
  | "_fff_onesample_laplace" => let (a, b, c) := osLaplace x base; some s!"{fmtRat a} {fmtRat b} {fmtRat c}"
  | "_fff_onesample_tukey" => let (a, b, c) := osTukey x base; some s!"{fmtRat a} {fmtRat b} {fmtRat c}"
  | "_fff_onesample_sign_stat" => some (fmtRat (osSign x base))
  | "_fff_onesample_wilcoxon" => some (fmtRat (osWilcoxon x base))
  | "_fff_onesample_elr" => some (fmtElr (osElr x base))
  | "_fff_onesample_grubb" => some (fmtRat (osGrubbSq x))
  | _ => none

def tsModel (fn : String) (x1 x2 : List Rat) : Option String :=
  match fn with
  | "_fff_twosample_student" => some (fmtSq (tsStudentSq x1 x2))
  | "_fff_twosample_wilcoxon" => some (fmtRat (tsWilcoxon x1 x2))
  | _ => none

/-- `fff_onesample_stat_new(n, flag, base)` followed by `fff_onesample_stat_eval` -/
def osEvalFlag (flag : Nat) (x : List Rat) (base : Rat) : String :=
  match osFunOfFlag flag with
  | none => "error:unrecognized"
  | some fn => (osModel fn x base).getD "unmodelled"

def tsEvalFlag (flag : Nat) (x1 x2 : List Rat) : String :=
  match tsFunOfFlag flag with
  | none => "error:unrecognized"
  | some fn => (tsModel fn x1 x2).getD "unmodelled"

/-! ### iteration along an axis (`onesample.pyx: stat`, `twosample.pyx: stat`) -/

/-- fibre `(o, q)` along the middle axis of a C-contiguous array of shape `(outer, n, inner)`
    (every axis of an N-d array: `outer` / `inner` = product of the leading / trailing dimensions) -/
def fibre (n inner : Nat) (data : Array Rat) (o q : Nat) : List Rat :=
  (List.range n).map (fun s => data.getD ((o * n + s) * inner + q) 0)

/-- `stat(Y, id, base, axis, Magics)`: C-contiguous output of shape `(outer, |magics|, inner)`;
    entry `(o, k, q)` is the statistic of fibre `(o, q)` sign-flipped by magic number `k` -/
def statAxis {β} (stat : List Rat → β) (outer n inner : Nat) (data : Array Rat) (magics : List Nat) : List β :=
  (List.range outer).flatMap fun o => magics.flatMap fun m =>
    (List.range inner).map fun q => stat (permuteSigns (fibre n inner data o q) m)

/-- two-sample form: `Y1` of shape `(outer, n1, inner)`, `Y2` of shape `(outer, n2, inner)` -/
def statAxis2 {β} (stat : List Rat → List Rat → β) (outer n1 n2 inner : Nat) (d1 d2 : Array Rat)
    (magics : List Nat) : List β :=
  (List.range outer).flatMap fun o => magics.flatMap fun m =>
    (List.range inner).map fun q =>
      let px := twosampleRelabel (fibre n1 inner d1 o q) (fibre n2 inner d2 o q) m
      stat (px.take n1) (px.drop n1)

/-! ### Line protocol -/

def runS : Toks → Option String
  | "osf" :: rest =>
      match runP (do let f ← pNat; let b ← pRat; let m ← pNat; let x ← pList pRat; pure (f, b, m, x)) rest with
      | some (f, b, m, x) => some (osEvalFlag f (permuteSigns x m) b)
      | none => some "bad-op"
  | "tsf" :: rest =>
      match runP (do let f ← pNat; let m ← pNat; let x1 ← pList pRat; let x2 ← pList pRat; pure (f, m, x1, x2)) rest with
      | some (f, m, x1, x2) =>
          let px := twosampleRelabel x1 x2 m
          some (tsEvalFlag f (px.take x1.length) (px.drop x1.length))
      | none => some "bad-op"
  | "mfxflag" :: rest =>   -- fff_onesample_stat_mfx_new: installed function and `empirical` field
      match runP pNat rest with
      | some f =>
          match osMfxFunOfFlag f with
          | some (fn, e) => some s!"{fn} {if e then 1 else 0}"
          | none => some "error:unrecognized"
      | none => some "bad-op"
  | "lrgmfx" :: rest =>
      match runP (do let it ← pNat; let b ← pRat; let x ← pList pRat; let v ← pList pRat; pure (it, b, x, v)) rest with
      | some (it, b, x, v) =>
          if x.length = v.length ∧ x ≠ [] then
            let (s, mu, vv, v0) := osLRGmfx x v it b
            some s!"{fmtRat s} {fmtRat mu} {fmtRat vv} {fmtRat v0}"
          else some "bad-op"
      | none => some "bad-op"
  | "axis" :: rest =>
      match runP (do let f ← pNat; let b ← pRat; let o ← pNat; let n ← pNat; let i ← pNat
                     let ms ← pList pNat; let d ← pList pRat; pure (f, b, o, n, i, ms, d)) rest with
      | some (f, b, o, n, i, ms, d) =>
          if d.length = o * n * i ∧ 0 < n then
            some (" ; ".intercalate (statAxis (fun x => osEvalFlag f x b) o n i d.toArray ms))
          else some "bad-op"
      | none => some "bad-op"
  | "axis2" :: rest =>
      match runP (do let f ← pNat; let o ← pNat; let n1 ← pNat; let n2 ← pNat; let i ← pNat
                     let ms ← pList pNat; let d1 ← pList pRat; let d2 ← pList pRat
                     pure (f, o, n1, n2, i, ms, d1, d2)) rest with
      | some (f, o, n1, n2, i, ms, d1, d2) =>
          if d1.length = o * n1 * i ∧ d2.length = o * n2 * i ∧ 0 < n1 ∧ 0 < n2 then
            some (" ; ".intercalate (statAxis2 (tsEvalFlag f) o n1 n2 i d1.toArray d2.toArray ms))
          else some "bad-op"
      | none => some "bad-op"
  | _ => none

end NipyVerif.C17
