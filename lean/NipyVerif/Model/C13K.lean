/-
C13 (part K) — exact algebraic cores of what is otherwise transcendental:

  * `dkl_dirichlet`, `dkl_gaussian`, `dkl_wishart`, exponents of `dirichlet_eval` / `wishart_eval`
    (bgmm.py): `gammaln`, `psi`, logarithms of determinants and matrix inverses are *parameters*
    (function symbols / the floats the implementation computed);
  * M-steps of the gamma-Gaussian mixtures `GGM` / `GGGM` (ggmixture.py) for a given gamma shape;
  * `VonMisesMixture.estimate_weights`, the raw means `zᵀx`, the bias step of `estimate`;
  * `GMM.bic` and the E/M alternation of `GMM.estimate` / `VBGMM.estimate` (gmm.py).
-/
import NipyVerif.Model.C13B
namespace NipyVerif.C13

/-! ### Divergence helpers of bgmm.py -/

/-- `dkl_dirichlet(w1, w2)` with `lg = gammaln`, `psi = digamma` -/
def dklDirichlet (lg psi : Rat → Rat) (K : Nat) (w1 w2 : Nat → Rat) : Rat :=
  sumTo K (fun k => lg (w2 k)) - sumTo K (fun k => lg (w1 k))
    + (lg (sumTo K w1) - lg (sumTo K w2))
    + sumTo K (fun k => (w1 k - w2 k) * (psi (w1 k) - psi (sumTo K w1)))

/-- trace of a product on indices `< d` -/
def traceMul (d : Nat) (a b : Nat → Nat → Rat) : Rat := sumTo d (fun i => matMulTo d a b i i)

/-- `dkl_gaussian(m1, P1, m2, P2)`; `ld1, ld2 = Σ log eigvalsh(P1), Σ log eigvalsh(P2)` and
    `Q1 = inv(P1)` are parameters -/
def dklGaussian (d : Nat) (ld1 ld2 : Rat) (P2 Q1 : Nat → Nat → Rat) (m1 m2 : Nat → Rat) : Rat :=
  (ld1 - ld2 + traceMul d P2 Q1 - d + quadA d P2 (fun j => m1 j - m2 j)) / 2

/-- `dkl_wishart(a1, B1, a2, B2)`; `lw1` (expected log-determinant), `lz1, lz2` (log normalisers)
    and `Q1 = inv(B1)` are parameters -/
def dklWishart (d : Nat) (a1 a2 lw1 lz1 lz2 : Rat) (B2 Q1 : Nat → Nat → Rat) : Rat :=
  ((a1 - d - 1) * lw1 - (a2 - d - 1) * lw1 - a1 * d + a1 * traceMul d B2 Q1) / 2 + (lz2 - lz1)

/-- exponent of `dirichlet_eval(w, alpha)`: `Σ (α−1) log w − logb` (`lw k = log w_k`) -/
def dirichletLog (K : Nat) (alpha lw : Nat → Rat) (logb : Rat) : Rat :=
  sumTo K (fun k => (alpha k - 1) * lw k) - logb

/-- exponent of `wishart_eval(n, V, W, dV, dW, piV)`:
    `log dW·(n−p−1)/2 − tr(piV W)/2 − (n p log 2 + log dV · n)/2 − lg` -/
def wishartLog (p : Nat) (n ldW ldV log2 lg : Rat) (piV W : Nat → Nat → Rat) : Rat :=
  ldW * (n - p - 1) / 2 + (- traceMul p piV W / 2) - (n * p * log2 + ldV * n) / 2 - lg

/-! ### Gamma-Gaussian mixtures -/

/-- `sz = max(tiny, Σ z)` -/
def ggSz (tiny : Rat) (n : Nat) (z : Nat → Rat) : Rat := max tiny (sumTo n z)

/-- Gaussian mean `dot(x, z) / sz` -/
def ggMean (tiny : Rat) (n : Nat) (x z : Nat → Rat) : Rat := sumTo n (fun i => x i * z i) / ggSz tiny n z

/-- Gaussian variance `dot((x − mean)², z) / sz` -/
def ggVar (tiny : Rat) (n : Nat) (x z : Nat → Rat) : Rat :=
  sumTo n (fun i => (x i - ggMean tiny n x z) ^ 2 * z i) / ggSz tiny n z

/-- memberships restricted to the positive samples (`i = nonzero(x > 0)`) -/
def posPart (x z : Nat → Rat) : Nat → Rat := fun i => if 0 < x i then z i else 0

/-- gamma scale of `_gam_param(x, z)` for the shape it solved for: `dot(x[i], z[i]) / (szi·shape)`,
    `(1, 1)` when no positive sample carries weight -/
def gamScale (shape : Rat) (n : Nat) (x z : Nat → Rat) : Rat :=
  if 0 < sumTo n (posPart x z) then sumTo n (fun i => x i * posPart x z i) / (sumTo n (posPart x z) * shape) else 1

/-- `GGM.Mstep`: `mixt = sz[0] / n` -/
def ggmMixt (tiny : Rat) (n : Nat) (z0 : Nat → Rat) : Rat := ggSz tiny n z0 / n

/-- `GGGM.Mstep`: `mixt = sz / Σ sz` -/
def gggmMixt (tiny : Rat) (n : Nat) (z : Nat → Nat → Rat) (c : Nat) : Rat :=
  ggSz tiny n (fun i => z i c) / sumTo 3 (fun c' => ggSz tiny n (fun i => z i c'))

/-! ### von Mises–Fisher mixture -/

/-- `weights = z.sum(0) / z.sum()` -/
def vmfWeight (n K : Nat) (z : Nat → Nat → Rat) (c : Nat) : Rat :=
  sumTo n (fun i => z i c) / sumTo n (fun i => sumTo K (z i))

/-- bias step of `estimate`: `z[:,0] *= 1−b; z[:,1:] *= b; z /= z.sum(1)` -/
def biasRow (K : Nat) (b : Rat) (row : Nat → Rat) (c : Nat) : Rat :=
  (if c = 0 then row c * (1 - b) else row c * b)
    / sumTo K (fun c' => if c' = 0 then row c' * (1 - b) else row c' * b)

/-! ### `GMM.bic`, `GMM.estimate` -/

/-- number of free parameters used by `bic` (as written in the code) -/
def bicEta (full : Bool) (k d : Nat) : Rat :=
  if full then (k : Rat) * (1 + d + ((d : Rat) * d + 1) / 2) - 1 else (k : Rat) * (1 + 2 * d) - 1

/-- `bic = Σ log max(sl, tiny) − log(n)·eta` (`L` and `log n` are parameters) -/
def bicVal (full : Bool) (k d : Nat) (L logn : Rat) : Rat := L - logn * bicEta full k d

/-- the E/M alternation of `estimate`: given the average log-likelihoods of the successive E-steps,
    the values that were *accepted* (each followed by an M-step).  `old = none` is `-inf`. -/
def emAccepted (delta : Rat) : Option Rat → List Rat → List Rat
  | _, [] => []
  | none, av :: rest => av :: emAccepted delta (some av) rest
  | some old, av :: rest => if av < old + delta then [] else av :: emAccepted delta (some av) rest

/-- number of M-steps run -/
def emSteps (delta : Rat) (avs : List Rat) : Nat := (emAccepted delta none avs).length

/-! ### `generate_perm`, `co_labelling` -/

/-- `perm[:, :i] = aux[:, :i]; perm[:, i] = k−1; perm[:, i+1:] = aux[:, i:]` for one row -/
def insertAt (v i : Nat) (l : List Nat) : List Nat := l.take i ++ v :: l.drop i

/-- `generate_perm(k)` in its exhaustive branch (`gamma(k+1) < nperm`): block `i` holds the rows of
    `generate_perm(k−1)` with `k−1` inserted at column `i` -/
def genPerm : Nat → List (List Nat)
  | 0 => [[]]
  | k + 1 => (List.range (k + 1)).flatMap (fun i => (genPerm k).map (insertAt k i))

/-- `co_labelling(z, kmax, kmin)`: `c[i, j] = 1` iff `z_i = z_j` and the label lies in `(kmin, kmax)` -/
def coLabel (kmin kmax : Int) (z : Nat → Int) (i j : Nat) : Nat :=
  if z i = z j ∧ kmin < z i ∧ z i < kmax then 1 else 0

/-! ### Line protocol -/

/-- a special function given by the finite table of the values the harness evaluated -/
def tableFn (t : List (Rat × Rat)) (q : Rat) : Rat :=
  match t.find? (fun e => e.1 == q) with
  | some e => e.2
  | none => 0

def runK : Toks → String
  | "dkld" :: rest =>
      -- K w1 w2, then the tables of gammaln and psi values (argument, value) the harness evaluated
      match runP (do
          let k ← pNat
          let w1 ← pMany pRat k; let w2 ← pMany pRat k
          let lgT ← pList (do let a ← pRat; let v ← pRat; pure (a, v))
          let psT ← pList (do let a ← pRat; let v ← pRat; pure (a, v))
          pure (k, w1, w2, lgT, psT)) rest with
      | some (k, w1, w2, lgT, psT) =>
          fmtRat (dklDirichlet (tableFn lgT) (tableFn psT) k (ofArr w1.toArray) (ofArr w2.toArray))
      | none => "bad-op"
  | "dklg" :: rest =>
      match runP (do
          let d ← pNat; let ld1 ← pRat; let ld2 ← pRat
          let p2 ← pMany (pMany pRat d) d; let q1 ← pMany (pMany pRat d) d
          let m1 ← pMany pRat d; let m2 ← pMany pRat d
          pure (d, ld1, ld2, p2, q1, m1, m2)) rest with
      | some (d, ld1, ld2, p2, q1, m1, m2) =>
          fmtRat (dklGaussian d ld1 ld2 (ofMat (toMat p2)) (ofMat (toMat q1)) (ofArr m1.toArray) (ofArr m2.toArray))
      | none => "bad-op"
  | "dklw" :: rest =>
      match runP (do
          let d ← pNat; let a1 ← pRat; let a2 ← pRat; let lw1 ← pRat; let lz1 ← pRat; let lz2 ← pRat
          let b2 ← pMany (pMany pRat d) d; let q1 ← pMany (pMany pRat d) d
          pure (d, a1, a2, lw1, lz1, lz2, b2, q1)) rest with
      | some (d, a1, a2, lw1, lz1, lz2, b2, q1) =>
          fmtRat (dklWishart d a1 a2 lw1 lz1 lz2 (ofMat (toMat b2)) (ofMat (toMat q1)))
      | none => "bad-op"
  | "dirlog" :: rest =>
      match runP (do let k ← pNat; let a ← pMany pRat k; let lw ← pMany pRat k; let lb ← pRat
                     pure (k, a, lw, lb)) rest with
      | some (k, a, lw, lb) => fmtRat (dirichletLog k (ofArr a.toArray) (ofArr lw.toArray) lb)
      | none => "bad-op"
  | "wishlog" :: rest =>
      match runP (do
          let p ← pNat; let n ← pRat; let ldw ← pRat; let ldv ← pRat; let l2 ← pRat; let lg ← pRat
          let piv ← pMany (pMany pRat p) p; let w ← pMany (pMany pRat p) p
          pure (p, n, ldw, ldv, l2, lg, piv, w)) rest with
      | some (p, n, ldw, ldv, l2, lg, piv, w) =>
          fmtRat (wishartLog p n ldw ldv l2 lg (ofMat (toMat piv)) (ofMat (toMat w)))
      | none => "bad-op"
  | "ggm" :: rest =>
      match runP (do let n ← pNat; let t ← pRat; let sh ← pRat; let x ← pMany pRat n
                     let z ← pMany (pMany pRat 2) n; pure (n, t, sh, x, z)) rest with
      | some (n, t, sh, x, z) =>
          if n = 0 then "bad-op" else
          let xa := ofArr x.toArray; let za := ofMat (toMat z)
          fmtRats [ggMean t n xa (fun i => za i 1), ggVar t n xa (fun i => za i 1),
                   ggmMixt t n (fun i => za i 0), gamScale sh n xa (fun i => za i 0)]
      | none => "bad-op"
  | "gggm" :: rest =>
      match runP (do let n ← pNat; let t ← pRat; let shn ← pRat; let shp ← pRat; let x ← pMany pRat n
                     let z ← pMany (pMany pRat 3) n; pure (n, t, shn, shp, x, z)) rest with
      | some (n, t, shn, shp, x, z) =>
          if n = 0 then "bad-op" else
          let xa := ofArr x.toArray; let za := ofMat (toMat z)
          fmtRats [gggmMixt t n za 0, gggmMixt t n za 1, gggmMixt t n za 2,
                   ggMean t n xa (fun i => za i 1), ggVar t n xa (fun i => za i 1),
                   gamScale shn n (fun i => - xa i) (fun i => za i 0), gamScale shp n xa (fun i => za i 2)]
      | none => "bad-op"
  | "vmfw" :: rest =>
      match runP (do let n ← pNat; let k ← pNat; let z ← pMany (pMany pRat k) n; pure (n, k, z)) rest with
      | some (n, k, z) => fmtRats ((List.range k).map (vmfWeight n k (ofMat (toMat z))))
      | none => "bad-op"
  | "vmfm" :: rest =>
      match runP (do let n ← pNat; let k ← pNat; let z ← pMany (pMany pRat k) n
                     let x ← pMany (pMany pRat 3) n; pure (n, k, z, x)) rest with
      | some (n, k, z, x) =>
          let za := ofMat (toMat z); let xa := ofMat (toMat x)
          fmtRats ((List.range k).flatMap (fun c => (List.range 3).map (sx n (fun i => za i c) xa)))
      | none => "bad-op"
  | "bias" :: rest =>
      match runP (do let k ← pNat; let b ← pRat; let r ← pMany pRat k; pure (k, b, r)) rest with
      | some (k, b, r) => fmtRats ((List.range k).map (biasRow k b (ofArr r.toArray)))
      | none => "bad-op"
  | "perm" :: rest =>
      match runP pNat rest with
      | some k => if k = 0 ∨ 5 < k then "bad-op" else " | ".intercalate ((genPerm k).map fmtNats)
      | none => "bad-op"
  | "colab" :: rest =>
      match runP (do let lo ← pInt; let hi ← pInt; let z ← pList pInt; pure (lo, hi, z)) rest with
      | some (lo, hi, z) =>
          let za := z.toArray
          let n := z.length
          fmtNats ((List.range n).flatMap (fun i => (List.range n).map (coLabel lo hi (fun t => za.getD t 0) i)))
      | none => "bad-op"
  | "bic" :: kind :: rest =>
      if kind ∉ ["full", "diag"] then "bad-op" else
      match runP (do let k ← pNat; let d ← pNat; let l ← pRat; let ln ← pRat; pure (k, d, l, ln)) rest with
      | some (k, d, l, ln) => fmtRat (bicVal (kind = "full") k d l ln)
      | none => "bad-op"
  | "em" :: rest =>
      match runP (do let delta ← pRat; let avs ← pList pRat; pure (delta, avs)) rest with
      | some (delta, avs) => toString (emSteps delta avs)
      | none => "bad-op"
  | _ => "bad-op"

end NipyVerif.C13
