/-
C20 — executable kernel models built *on the generated index / guard expressions*
(`Gen/C20Kernels.lean`, regenerated from the C text on every run): what each kernel reads and
writes, with every array access checked (`rd` reports an out-of-bounds index instead of hiding it).
Line kinds: mrfE mrfW edges jh mirror nbrs soff qidx qnan mut guard t1d fffit  (+ the kinds of `Model/C20.lean`).
-/
import NipyVerif.Model.C20
import NipyVerif.Gen.C20Kernels
import NipyVerif.Gen.C20Inplace
import NipyVerif.Gen.C20Guards
namespace NipyVerif.C20
open Kern

/-- checked read: the value and whether the index is inside the array -/
def rd (a : Array Int) (i : Int) : Int × Bool :=
  if 0 ≤ i ∧ i < (a.size : Int) then (a.getD i.toNat 0, true) else (0, false)

def upTo (n : Int) : List Int := (List.range n.toNat).map (fun (k : Nat) => (k : Int))

/-- `_ngb_integrate` on the generated expressions: `res` and "every read was inside `ppm` / `U`" -/
def ngbIntegrate (d0 d1 d2 d3 : Int) (tbl : List (Int × Int × Int)) (U ppm : Array Int) (x y z : Int) :
    List Int × Bool :=
  let kept := (tbl.filter (fun b => !Mrf.ngbSkip d0 d1 d2 d3 x y z b.1 b.2.1 b.2.2)).map
    (fun b => Mrf.ngbPos d0 d1 d2 d3 x y z b.1 b.2.1 b.2.2)
  let rl := Mrf.ngbReadLen d0 d1 d2 d3
  let cells := (upTo (Mrf.ngbResLen d0 d1 d2 d3)).map (fun k =>
    kept.foldl (fun (acc : Int × Bool) pos =>
      (upTo rl).foldl (fun (a : Int × Bool) kk =>
        let u := rd U (k * rl + kk)
        let q := rd ppm (pos + kk)
        (a.1 + u.1 * q.1, a.2 && u.2 && q.2)) acc) (0, true))
  (cells.map (·.1), cells.all (·.2))

/-- `interaction_energy`: `Σ_v Σ_k ppm[row(v)+k] · res_v[k]` -/
def mrfEnergy (d0 d1 d2 d3 ngb : Int) (xyz : List (Int × Int × Int)) (U ppm : Array Int) : String :=
  match Mrf.selectNgb ngb with
  | none => "null-table"
  | some tbl =>
      let r := xyz.foldl (fun (acc : Int × Bool) v =>
        let ni := ngbIntegrate d0 d1 d2 d3 tbl U ppm v.1 v.2.1 v.2.2
        let row := Mrf.ieRowPos d0 d1 d2 d3 v.1 v.2.1 v.2.2
        let t := (List.zip (upTo (Mrf.ieRowLen d0 d1 d2 d3)) ni.1).foldl (fun (a : Int × Bool) kr =>
          let q := rd ppm (row + kr.1)
          (a.1 + q.1 * kr.2, a.2 && q.2)) (0, true)
        (acc.1 + t.1, acc.2 && ni.2 && t.2)) (0, true)
      s!"{r.1} {if r.2 then "ok" else "oob"}"

/-- indices (in units of its stride, from its base) at which a pointer of `_cubic_spline_transform1d` is
    dereferenced when the fibre has `dim` elements; `pos` is where it stands -/
def segVisits (dim : Nat) : Int → List Spline.Seg → List Int
  | _, [] => []
  | _, .reset :: t => segVisits dim 0 t
  | pos, .acc :: t => pos :: segVisits dim pos t
  | pos, .walk k0 d deref :: t =>
      (if deref then (List.range (dim - k0)).map (fun (i : Nat) => pos + d * ((i : Int) + 1)) else [])
        ++ segVisits dim (pos + d * ((dim - k0 : Nat) : Int)) t

/-- the byte offsets (from the buffer) a `fff_array_iterator` visits, in order: `init_skip_axis` then `update` until
    `idx = size` — all from the generated definitions -/
def fffVisits (dimX dimY dimZ dimT oX oY oZ oT axis : Int) : List Int :=
  let dd := Fff.ddims dimY dimZ dimT axis
  let iX := Fff.incX oX oY oZ oT dd.1 dd.2.1 dd.2.2
  let iY := Fff.incY oX oY oZ oT dd.1 dd.2.1 dd.2.2
  let iZ := Fff.incZ oX oY oZ oT dd.1 dd.2.1 dd.2.2
  let iT := Fff.incT oX oY oZ oT dd.1 dd.2.1 dd.2.2
  let nd := Fff.ndims dimY dimZ dimT
  let n := (Fff.count dimX dimY dimZ dimT axis).toNat
  ((List.range n).foldl (fun (acc : List Int × Fff.It) _ =>
      (acc.2.data :: acc.1, Fff.update nd dd.1 dd.2.1 dd.2.2 iX iY iZ iT acc.2)) ([], ⟨0, 0, 0, 0, 0, 0⟩)).1.reverse

/-- insertion into a sorted duplicate-free list -/
def insSorted (x : Int) : List Int → List Int
  | [] => [x]
  | y :: ys => if x < y then x :: y :: ys else if x = y then y :: ys else y :: insSorted x ys

/-- `ve_step`: the entries of `ppm` written (sorted, distinct) -/
def mrfWrites (d0 d1 d2 d3 : Int) (xyz : List (Int × Int × Int)) : List Int :=
  xyz.foldl (fun acc v =>
    (upTo (Mrf.veRowLen d0 d1 d2 d3)).foldl (fun a k => insSorted (Mrf.veRowPos d0 d1 d2 d3 v.1 v.2.1 v.2.2 + k) a) acc) []

/-- `make_edges`: rows of the returned array in order, and "reads inside `idx`, writes inside the allocation" -/
def mrfEdges (d0 d1 d2 ngb : Int) (idx : Array Int) : String :=
  match Mrf.selectNgb ngb with
  | none => "null-table"
  | some tbl =>
      let vox := (upTo d0).flatMap (fun x => (upTo d1).flatMap (fun y => (upTo d2).map (fun z => (x, y, z))))
      let maskSize : Int := ((idx.toList.filter (fun v => decide (0 ≤ v))).length : Nat)
      let r := vox.foldl (fun (acc : List Int × Bool) v =>
        let ii := rd idx ((v.1 * d1 + v.2.1) * d2 + v.2.2)
        if ii.1 < 0 then acc else
        tbl.foldl (fun (a : List Int × Bool) b =>
          if Mrf.edgeSkip d0 d1 d2 v.1 v.2.1 v.2.2 b.1 b.2.1 b.2.2 then a else
          let j := rd idx (Mrf.edgePos d0 d1 d2 v.1 v.2.1 v.2.2 b.1 b.2.1 b.2.2)
          if j.1 < 0 then (a.1, a.2 && j.2) else (j.1 :: ii.1 :: a.1, a.2 && j.2)) acc) ([], true)
      let fits := decide ((r.1.length : Int) ≤ Mrf.edgeAlloc ngb maskSize)
      s!"{if r.2 && fits then "ok" else "oob"} {fmtInts r.1.reverse}"

/-- joint_histogram.c, one source voxel: `out`, or the (offset, weight) pairs with non-zero weight -/
def jhVoxel (d0 d1 d2 i : Int) (tx ty tz : Rat) : String :=
  if Jh.inside i tx ty tz d0 d1 d2 then
    let ps := (List.zip (Jh.offsets tx ty tz d0 d1 d2) (Jh.weights tx ty tz d0 d1 d2)).filter (fun p => p.2 ≠ 0)
    -- every neighbour is read (`j = J[q]`) whatever its weight
    let ok := (Jh.offsets tx ty tz d0 d1 d2).all (fun q => decide (0 ≤ q ∧ q < d0 * d1 * d2))
    s!"{if ok then "in" else "oob"} " ++ " ".intercalate (ps.map (fun p => s!"{p.1}:{fmtRat p.2}"))
  else "out"

/-- `quantile()` front end on the fibre `0, 1, …, size-1` (any order): what the call returns -/
def quantileOnRange (r : Rat) (size : Int) (interp : Bool) : String :=
  if Quantile.refuse r then "refuse"
  else if size = 1 then "0"
  else if !interp then
    if Quantile.noInterpInf r size then "inf" else toString (Quantile.pNoInterp r size)
  else if Quantile.interpSingle r size then toString (Quantile.pInterp r size)
  else fmtRat (((Quantile.pInterp r size : Int) : Rat) + Quantile.wM r size)

/-- caller-data clause: a routine observed to modify (`mutated`) an argument violates C20 unless its docstring
    documents in-place behaviour (`reg`: the registry regenerated from the docstrings) -/
def mutVerdict (reg : List (String × String)) (routine : String) (mutated : Bool) : String :=
  if !mutated then "unchanged" else if reg.any (fun e => e.1 == routine) then "documented" else "violation"

/-- what the flat addressing of the C kernels and the bounds theorems of `Props/C20B.lean` need of each argument:
    (wrapper, argument, fact) -/
def required : List (String × String × String) := [
  ("_ve_step", "ppm", "c_contiguous"),
  ("_ve_step", "ppm", "dtype=double"),
  ("_ve_step", "ppm", "ndim==4"),
  ("_ve_step", "ppm", "shape[-1]==ref.shape[-1]"),
  ("_ve_step", "ref", "c_contiguous"),
  ("_ve_step", "ref", "dtype=double"),
  ("_ve_step", "ref", "shape[0]==XYZ.shape[0]"),
  ("_ve_step", "XYZ", "c_contiguous"),
  ("_ve_step", "XYZ", "dtype=intp"),
  ("_ve_step", "XYZ", "shape[1]==3"),
  ("_ve_step", "XYZ", "rows inside ppm.shape[:3]"),
  ("_ve_step", "U", "c_contiguous"),
  ("_ve_step", "U", "dtype=double"),
  ("_ve_step", "U", "size>=K*K"),
  ("_ve_step", "ngb_size", "in {6,26}"),
  ("_interaction_energy", "ppm", "c_contiguous"),
  ("_interaction_energy", "ppm", "dtype=double"),
  ("_interaction_energy", "ppm", "ndim==4"),
  ("_interaction_energy", "XYZ", "c_contiguous"),
  ("_interaction_energy", "XYZ", "dtype=intp"),
  ("_interaction_energy", "XYZ", "shape[1]==3"),
  ("_interaction_energy", "XYZ", "rows inside ppm.shape[:3]"),
  ("_interaction_energy", "U", "c_contiguous"),
  ("_interaction_energy", "U", "dtype=double"),
  ("_interaction_energy", "U", "size>=K*K"),
  ("_interaction_energy", "ngb_size", "in {6,26}"),
  ("_make_edges", "mask", "c_contiguous"),
  ("_make_edges", "mask", "dtype=intp"),
  ("_make_edges", "mask", "ndim==3"),
  ("_make_edges", "ngb_size", "in {6,26}"),
  ("joint_histogram", "iterI", "dtype=short"),
  ("joint_histogram", "iterI", "values<clampI"),
  ("joint_histogram", "imJ_padded", "c_contiguous"),
  ("joint_histogram", "imJ_padded", "dtype=short"),
  ("joint_histogram", "imJ_padded", "ndim==3"),
  ("joint_histogram", "imJ_padded", "dims>=2"),
  ("joint_histogram", "imJ_padded", "values<clampJ"),
  ("joint_histogram", "JH", "c_contiguous"),
  ("joint_histogram", "JH", "dtype=double"),
  ("joint_histogram", "JH", "size>=clampI*clampJ"),
  ("joint_histogram", "Tvox", "c_contiguous"),
  ("joint_histogram", "Tvox", "dtype=double"),
  ("joint_histogram", "Tvox", "size>=3*iterI.size"),
  ("_cspline_sample1d", "C", "dtype=double"),
  ("_cspline_sample1d", "C", "ndim==1"),
  ("_cspline_sample1d", "R", "dtype=double"),
  ("_cspline_sample2d", "C", "dtype=double"),
  ("_cspline_sample2d", "C", "ndim==2"),
  ("_cspline_sample2d", "R", "dtype=double"),
  ("_cspline_sample3d", "C", "dtype=double"),
  ("_cspline_sample3d", "C", "ndim==3"),
  ("_cspline_sample3d", "R", "dtype=double"),
  ("_cspline_sample4d", "C", "dtype=double"),
  ("_cspline_sample4d", "C", "ndim==4"),
  ("_cspline_sample4d", "R", "dtype=double"),
  ("_cspline_resample3d", "im", "ndim==3"),
  ("_cspline_resample3d", "Tvox", "size>=12"),
  ("_apply_polyaffine", "xyz", "c_contiguous"),
  ("_apply_polyaffine", "xyz", "dtype=double"),
  ("_apply_polyaffine", "xyz", "shape[1]==3"),
  ("_apply_polyaffine", "centers", "c_contiguous"),
  ("_apply_polyaffine", "centers", "dtype=double"),
  ("_apply_polyaffine", "centers", "shape[1]==3"),
  ("_apply_polyaffine", "centers", "shape[0]==affines.shape[0]"),
  ("_apply_polyaffine", "affines", "c_contiguous"),
  ("_apply_polyaffine", "affines", "dtype=double"),
  ("_apply_polyaffine", "affines", "shape[1]==12"),
  ("_apply_polyaffine", "sigma", "c_contiguous"),
  ("_apply_polyaffine", "sigma", "dtype=double"),
  ("_apply_polyaffine", "sigma", "size==3"),
  ("_quantile", "X", "converted=double"),
  ("_quantile", "ratio", "range=[0,1]"),
  ("histogram", "x", "dtype=uintp")
]
/-- required facts that no glue validates: they hold only because the Python front ends (Segmentation,
    HistogramRegistration, resample, …) build the arguments that way — assumptions of C20, in the order of `required` -/
def frontEndOnly : List (String × String × String) := [
  ("_ve_step", "ppm", "ndim==4"),
  ("_ve_step", "ref", "shape[0]==XYZ.shape[0]"),
  ("_ve_step", "XYZ", "rows inside ppm.shape[:3]"),
  ("_ve_step", "U", "size>=K*K"),
  ("_ve_step", "ngb_size", "in {6,26}"),
  ("_interaction_energy", "ppm", "ndim==4"),
  ("_interaction_energy", "XYZ", "rows inside ppm.shape[:3]"),
  ("_interaction_energy", "U", "size>=K*K"),
  ("_interaction_energy", "ngb_size", "in {6,26}"),
  ("_make_edges", "mask", "ndim==3"),
  ("_make_edges", "ngb_size", "in {6,26}"),
  ("joint_histogram", "iterI", "values<clampI"),
  ("joint_histogram", "imJ_padded", "dtype=short"),
  ("joint_histogram", "imJ_padded", "ndim==3"),
  ("joint_histogram", "imJ_padded", "dims>=2"),
  ("joint_histogram", "imJ_padded", "values<clampJ"),
  ("joint_histogram", "JH", "dtype=double"),
  ("joint_histogram", "JH", "size>=clampI*clampJ"),
  ("joint_histogram", "Tvox", "dtype=double"),
  ("joint_histogram", "Tvox", "size>=3*iterI.size"),
  ("_cspline_sample1d", "C", "dtype=double"),
  ("_cspline_sample1d", "C", "ndim==1"),
  ("_cspline_sample1d", "R", "dtype=double"),
  ("_cspline_sample2d", "C", "dtype=double"),
  ("_cspline_sample2d", "C", "ndim==2"),
  ("_cspline_sample2d", "R", "dtype=double"),
  ("_cspline_sample3d", "C", "dtype=double"),
  ("_cspline_sample3d", "C", "ndim==3"),
  ("_cspline_sample3d", "R", "dtype=double"),
  ("_cspline_sample4d", "C", "dtype=double"),
  ("_cspline_sample4d", "C", "ndim==4"),
  ("_cspline_sample4d", "R", "dtype=double"),
  ("_cspline_resample3d", "im", "ndim==3"),
  ("_cspline_resample3d", "Tvox", "size>=12")
]
/-- the required facts the glue does not validate -/
def unvalidated (val req : List (String × String × String)) : List (String × String × String) :=
  req.filter (fun r => !val.contains r)

/-- status of one precondition: checked by the glue, left to the front end, or not needed by the theorems -/
def guardStatus (w a f : String) : String :=
  if validated.contains (w, a, f) then "validated"
  else if frontEndOnly.contains (w, a, f) then "assumed" else "not-required"

def trip : List Int → List (Int × Int × Int)
  | a :: b :: c :: t => (a, b, c) :: trip t
  | _ => []

def runK : Toks → String
  | "mrfE" :: rest =>
      match runP (do
          let d ← pMany pInt 4; let ngb ← pInt; let xyz ← pList pInt; let U ← pList pInt; let ppm ← pList pInt
          pure (d, ngb, xyz, U, ppm)) rest with
      | some ([d0, d1, d2, d3], ngb, xyz, U, ppm) =>
          if xyz.length % 3 ≠ 0 then "bad-op" else mrfEnergy d0 d1 d2 d3 ngb (trip xyz) U.toArray ppm.toArray
      | _ => "bad-op"
  | "mrfW" :: rest =>
      match runP (do let d ← pMany pInt 4; let xyz ← pList pInt; pure (d, xyz)) rest with
      | some ([d0, d1, d2, d3], xyz) =>
          if xyz.length % 3 ≠ 0 then "bad-op" else fmtInts (mrfWrites d0 d1 d2 d3 (trip xyz))
      | _ => "bad-op"
  | "edges" :: rest =>
      match runP (do let d ← pMany pInt 3; let ngb ← pInt; let idx ← pList pInt; pure (d, ngb, idx)) rest with
      | some ([d0, d1, d2], ngb, idx) =>
          if (idx.length : Int) ≠ d0 * d1 * d2 then "bad-op" else mrfEdges d0 d1 d2 ngb idx.toArray
      | _ => "bad-op"
  | "jh" :: rest =>
      match runP (do let d ← pMany pInt 4; let t ← pMany pRat 3; pure (d, t)) rest with
      | some ([d0, d1, d2, i], [tx, ty, tz]) => jhVoxel d0 d1 d2 i tx ty tz
      | _ => "bad-op"
  | "mirror" :: rest =>
      match runP (pMany pInt 2) rest with
      | some [x, ddim] => toString (Spline.mirroredPosition x ddim)
      | _ => "bad-op"
  | "nbrs" :: rest =>
      match runP (do let x ← pRat; let d ← pInt; pure (x, d)) rest with
      | some (x, ddim) =>
          if Spline.neighborsOk x ddim then s!"{Spline.neighborsNx x ddim} {Spline.neighborsPx x ddim}" else "none"
      | none => "bad-op"
  | "soff" :: rest =>
      match runP (do let s ← pList pInt; let p ← pList pInt; pure (s, p)) rest with
      | some ([s0], [p0]) => toString (Spline.sample1dOffset s0 p0)
      | some ([s0, s1], [p0, p1]) => toString (Spline.sample2dOffset s0 s1 p0 p1)
      | some ([s0, s1, s2], [p0, p1, p2]) => toString (Spline.sample3dOffset s0 s1 s2 p0 p1 p2)
      | some ([s0, s1, s2, s3], [p0, p1, p2, p3]) => toString (Spline.sample4dOffset s0 s1 s2 s3 p0 p1 p2 p3)
      | _ => "bad-op"
  | "qidx" :: rest =>
      match runP (do let r ← pRat; let n ← pInt; let b ← pBool; pure (r, n, b)) rest with
      | some (r, n, b) => quantileOnRange r n b
      | none => "bad-op"
  | ["mut", routine, m] =>
      if m = "1" then mutVerdict inplaceRegistry routine true
      else if m = "0" then mutVerdict inplaceRegistry routine false else "bad-op"
  | ["guard", w, a, f] => guardStatus w a (f.replace "~" " ")
  | ["t1d", d] =>
      match d.toNat? with
      | some dim => s!"{fmtInts (segVisits dim 0 Spline.transform1dSrc)} | {fmtInts (segVisits dim 0 Spline.transform1dRes)}"
      | none => "bad-op"
  | "fffit" :: rest =>
      match runP (pMany pInt 9) rest with
      | some [dx, dy, dz, dt, ox, oy, oz, ot, axis] => fmtInts (fffVisits dx dy dz dt ox oy oz ot axis)
      | _ => "bad-op"
  | "qnan" :: rest =>
      match runP pNat rest with
      | some _ => if Quantile.nanScan then "nan" else "unspecified"
      | none => "bad-op"
  | ts => run ts

end NipyVerif.C20
