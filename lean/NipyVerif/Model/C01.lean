/-
C01 — model of nipy/core/reference/coordinate_system.py (`CoordinateSystem`,
`safe_dtype`, `_checked_values`) and coordinate_map.py (`AffineTransform`,
`_compose_affines`, `_product_affines`, `inverse`, `reordered_*`, `renamed_*`,
`shifted_*_origin`, `append_io_dim`, `drop_io_dim`, `_fix0`, `orth_axes`,
`io_axis_indices`, and the general `CoordinateMap` with `_compose_cmaps`).

Exact rational arithmetic.  A matrix is a row-major `List (List Rat)`; every
operation builds its result with `mkMat r c f` from an entry formula over
`Mat.get` (total, default 0), so that the theorems need no shape bookkeeping.
External numerics are parameters: nibabel's `io_orientation` (passed as the
list `ornts`), and the matrix inverse is *certified* (a candidate computed by
Gauss-Jordan is accepted only if both products with the matrix are the
identity, which is what the theorems use).
-/
import NipyVerif.Model.Common
namespace NipyVerif.C01

/-! ### dtypes: the numpy scalar types nipy accepts (`SCTYPES` int, uint, float, complex, object),
`bool` (accepted by `safe_dtype`, refused by `CoordinateSystem`) and `txt` standing for every
non-numeric dtype; `np.can_cast(·, ·, 'safe')` and numpy's promotion (`safe_dtype`) -/

inductive DType | b1 | i1 | i2 | i4 | i8 | u1 | u2 | u4 | u8 | f2 | f4 | f8 | c8 | c16 | obj | txt
deriving DecidableEq, Repr

inductive Kind | b | i | u | f | c | O | S
deriving DecidableEq, Repr

def DType.kind : DType → Kind
  | .b1 => .b
  | .i1 | .i2 | .i4 | .i8 => .i
  | .u1 | .u2 | .u4 | .u8 => .u
  | .f2 | .f4 | .f8 => .f
  | .c8 | .c16 => .c
  | .obj => .O
  | .txt => .S

/-- item size in bytes -/
def DType.size : DType → Nat
  | .b1 | .i1 | .u1 => 1
  | .i2 | .u2 | .f2 => 2
  | .i4 | .u4 | .f4 => 4
  | .i8 | .u8 | .f8 | .c8 => 8
  | .c16 => 16
  | .obj | .txt => 0

def DType.isInt (d : DType) : Bool := d.kind == .i || d.kind == .u

/-- `np.can_cast(src, dst)` (safe casting) -/
def DType.canCast (s d : DType) : Bool :=
  match s.kind, d.kind with
  | .S, .S => true
  | .S, _ => false
  | _, .S => false
  | _, .O => true
  | .O, _ => false
  | .b, _ => true
  | _, .b => false
  | .i, .i => s.size ≤ d.size
  | .i, .u => false
  | .i, .f => min (2 * s.size) 8 ≤ d.size
  | .i, .c => 2 * min (2 * s.size) 8 ≤ d.size
  | .u, .u => s.size ≤ d.size
  | .u, .i => s.size < d.size
  | .u, .f => min (2 * s.size) 8 ≤ d.size
  | .u, .c => 2 * min (2 * s.size) 8 ≤ d.size
  | .f, .f => s.size ≤ d.size
  | .f, .c => 2 * s.size ≤ d.size
  | .f, _ => false
  | .c, .c => s.size ≤ d.size
  | .c, _ => false

/-- numpy's promotion order: the promoted type of two types is the first of these both cast to -/
def DType.cands : List DType :=
  [.b1, .i1, .u1, .i2, .u2, .i4, .u4, .i8, .u8, .f2, .f4, .f8, .c8, .c16, .obj, .txt]

/-- `safe_dtype(a, b)` (numpy promotion of two numeric / object dtypes) -/
def DType.join (a b : DType) : DType :=
  (DType.cands.find? fun c => a.canCast c && b.canCast c).getD .obj

def DType.str : DType → String
  | .b1 => "b1" | .i1 => "i1" | .i2 => "i2" | .i4 => "i4" | .i8 => "i8"
  | .u1 => "u1" | .u2 => "u2" | .u4 => "u4" | .u8 => "u8"
  | .f2 => "f2" | .f4 => "f4" | .f8 => "f8" | .c8 => "c8" | .c16 => "c16" | .obj => "O" | .txt => "S"

inductive Err
  | valueError | indexError | axisError | keyError | typeError | coordSys | nonInvertible | nonSquare
  | csMaker | cmMaker
deriving DecidableEq, Repr

def Err.str : Err → String
  | .valueError => "error:valueError"
  | .indexError => "error:indexError"
  | .axisError => "error:axisError"
  | .keyError => "error:keyError"
  | .typeError => "error:typeError"
  | .coordSys => "error:CoordinateSystemError"
  | .nonInvertible => "error:NonInvertibleMatrixError"
  | .nonSquare => "error:NonSquareMatrixError"
  | .csMaker => "error:CoordSysMakerError"
  | .cmMaker => "error:CoordMapMakerError"

/-! ### coordinate systems -/

structure CoordSys where
  names : List String
  name : String
  dtype : DType
deriving DecidableEq, Repr

/-- the coordinate dtypes `CoordinateSystem` accepts: int, uint, float, complex, object -/
def DType.validCS (d : DType) : Bool := d != .b1 && d != .txt

/-- `CoordinateSystem.__init__`: coordinate names must be distinct, the dtype one of the accepted ones. -/
def mkCS (names : List String) (name : String) (dt : DType) : Except Err CoordSys :=
  if ¬ names.Nodup then .error .valueError
  else if dt.validCS = false then .error .valueError
  else .ok ⟨names, name, dt⟩

/-! ### matrices -/

abbrev Mat := List (List Rat)

def Mat.get (m : Mat) (i j : Nat) : Rat := (m.getD i []).getD j 0

def mkMat (r c : Nat) (f : Nat → Nat → Rat) : Mat :=
  (List.range r).map fun i => (List.range c).map fun j => f i j

/-- `Σ_{j<n} f j` -/
def sumTo : Nat → (Nat → Rat) → Rat
  | 0, _ => 0
  | n + 1, f => sumTo n f + f n

def shapeOK (m : Mat) (r c : Nat) : Bool :=
  m.length == r && m.all (fun row => row.length == c)

def idMat (n : Nat) : Mat := mkMat n n fun i j => if i = j then 1 else 0

/-- `np.dot(a, b)` for `a : r×k`, `b : k×c` -/
def Mat.mul (r k c : Nat) (a b : Mat) : Mat :=
  mkMat r c fun i j => sumTo k fun l => a.get i l * b.get l j

def rabs (q : Rat) : Rat := if q < 0 then -q else q

/-- one element of `np.allclose(a, b)` with the default `rtol=1e-5, atol=1e-8` -/
def closeTo (a b : Rat) : Bool := rabs (a - b) ≤ (1 : Rat) / 100000000 + (1 : Rat) / 100000 * rabs b

/-- the bottom-row test of `AffineTransform.__init__` -/
def bottomOK (m : Mat) (nin nout : Nat) : Bool :=
  (List.range (nin + 1)).all fun j => closeTo (m.get nout j) (if j = nin then 1 else 0)

/-! ### AffineTransform -/

structure Aff where
  dom : CoordSys
  rng : CoordSys
  aff : Mat
deriving DecidableEq, Repr

def Aff.nin (A : Aff) : Nat := A.dom.names.length
def Aff.nout (A : Aff) : Nat := A.rng.names.length
def Aff.dtype (A : Aff) : DType := A.dom.dtype

/-- `AffineTransform.__init__(function_domain, function_range, affine)`;
    `mdt` is the dtype of the matrix handed in. -/
def mkAff (dom rng : CoordSys) (m : Mat) (mdt : DType) : Except Err Aff :=
  -- `safe_dtype(affine.dtype, domain dtype, range dtype)`: numpy promotes from left to right
  let dt := (mdt.join dom.dtype).join rng.dtype
  if ¬ dom.names.Nodup ∨ ¬ rng.names.Nodup then .error .valueError
  else if shapeOK m (rng.names.length + 1) (dom.names.length + 1) = false then .error .valueError
  else if bottomOK m dom.names.length rng.names.length = false then .error .valueError
  else .ok ⟨{ dom with dtype := dt }, { rng with dtype := dt }, m⟩

/-- `to_matvec(affine)` applied to one point: `A x + b` -/
def Aff.apply (A : Aff) (x : List Rat) : List Rat :=
  (List.range A.nout).map fun i =>
    sumTo A.nin (fun j => A.aff.get i j * x.getD j 0) + A.aff.get i A.nin

/-- `AffineTransform.__call__` on a batch: the `_checked_values` gate (last axis
    length and castable dtype) then the map. -/
def Aff.call (A : Aff) (pdt : DType) (pts : List (List Rat)) : Except Err (List (List Rat)) :=
  if pts.all (fun p => p.length == A.nin) = false then .error .coordSys
  else if pdt.canCast A.dom.dtype = false then .error .coordSys
  else .ok (pts.map A.apply)

/-! ### composition (`_compose_affines`) -/

def composeStep (cur cm : Aff) : Except Err Aff :=
  if cm.dom = cur.rng then
    mkAff cur.dom cm.rng (Mat.mul (cm.nout + 1) (cur.nout + 1) (cur.nin + 1) cm.aff cur.aff)
      (cm.dtype.join cur.dtype)
  else .error .valueError

def composeFrom (cur : Aff) : List Aff → Except Err Aff
  | [] => .ok cur
  | cm :: rest =>
      match composeStep cur cm with
      | .error e => .error e
      | .ok c => composeFrom c rest

/-- `_compose_affines(*l)`: `l = [A₁, …, Aₙ]` denotes `A₁ ∘ … ∘ Aₙ`. -/
def composeList (l : List Aff) : Except Err Aff :=
  match l.reverse with
  | [] => .error .indexError
  | last :: rest =>
      match mkAff last.dom last.dom (idMat (last.nin + 1)) last.dtype with
      | .error e => .error e
      | .ok i0 => composeFrom i0 (last :: rest)

def compose (A B : Aff) : Except Err Aff := composeList [A, B]

/-! ### product (`_product_affines`) -/

def prodLin : List Aff → Nat → Nat → Rat
  | [], _, _ => 0
  | A :: rest, r, c =>
      if r < A.nout then (if c < A.nin then A.aff.get r c else 0)
      else (if c < A.nin then 0 else prodLin rest (r - A.nout) (c - A.nin))

def prodOff : List Aff → Nat → Rat
  | [], _ => 0
  | A :: rest, r => if r < A.nout then A.aff.get r A.nin else prodOff rest (r - A.nout)

def sumNat (l : List Nat) : Nat := l.foldr (· + ·) 0

/-- `safe_dtype(*dtypes)`: numpy promotes from left to right; no dtype at all gives float64 -/
def joinAll : List DType → DType
  | [] => .f8
  | d :: ds => ds.foldl DType.join d

def prodMat (l : List Aff) : Mat :=
  let N := sumNat (l.map Aff.nout)
  let K := sumNat (l.map Aff.nin)
  mkMat (N + 1) (K + 1) fun r c =>
    if r = N then (if c = K then 1 else 0)
    else if c = K then prodOff l r else prodLin l r c

def product (l : List Aff) (inName outName : String) : Except Err Aff :=
  let dt := joinAll (l.map Aff.dtype)
  match mkCS (l.flatMap fun A => A.dom.names) inName dt with
  | .error e => .error e
  | .ok d =>
    match mkCS (l.flatMap fun A => A.rng.names) outName dt with
    | .error e => .error e
    | .ok r => mkAff d r (prodMat l) dt

/-! ### inverse (`AffineTransform.inverse`), certified -/

/-- Gauss-Jordan candidate inverse of the leading `n×n` block (no proof
    obligations: the result is checked by `inverse`). -/
def gaussInv (m : Mat) (n : Nat) : Option Mat := Id.run do
  let mut a : Array (Array Rat) := Array.ofFn (n := n) fun i =>
    Array.ofFn (n := 2 * n) fun j =>
      if j.val < n then m.get i.val j.val else (if j.val - n = i.val then 1 else 0)
  for col in [0:n] do
    let mut piv : Option Nat := none
    for r in [col:n] do
      if piv.isNone && (a.getD r #[]).getD col 0 != 0 then piv := some r
    match piv with
    | none => return none
    | some p =>
      let rp := a.getD p #[]
      let rc := a.getD col #[]
      a := (a.setIfInBounds p rc).setIfInBounds col rp
      let d := rp.getD col 0
      let prow := rp.map (· / d)
      a := a.setIfInBounds col prow
      for r in [0:n] do
        if r != col then
          let row := a.getD r #[]
          let f := row.getD col 0
          if f != 0 then
            a := a.setIfInBounds r ((row.zip prow).map fun (x, y) => x - f * y)
  return some ((a.toList.map fun row => (row.toList.drop n)))

def bottomExactB (m : Mat) (nin nout : Nat) : Bool :=
  (List.range (nin + 1)).all fun j => m.get nout j == (if j = nin then 1 else 0)

/-- certified inverse matrix: a Gauss-Jordan candidate that passes both product
    checks (and has the exact bottom row), or `none` -/
def certInv (A : Aff) : Option Mat :=
  let n := A.nin + 1
  if A.nin ≠ A.nout then none
  else
    match (gaussInv A.aff n).map fun c => mkMat n n c.get with
    | none => none
    | some c =>
      if Mat.mul n n n c A.aff = idMat n ∧ Mat.mul n n n A.aff c = idMat n
          ∧ bottomExactB c A.nout A.nin = true then some c else none

/-- dtype of `numpy.linalg.inv(a)`; `none`: LAPACK has no routine for the type (`TypeError`), the
    code then goes through sympy -/
def lapackDType : DType → Option DType
  | .f2 | .obj | .txt => none
  | .f4 => some .f4
  | .c8 => some .c8
  | .c16 => some .c16
  | _ => some .f8

/-- dtype of the inverse matrix: LAPACK's, or (sympy path) the map's own dtype -/
def invDType (d : DType) : DType := (lapackDType d).getD d

/-- `inverse()` with `preserve_dtype=False`.  `none`: the implementation
    returns `None` (`LinAlgError`: not square, or singular).  With object dtype a
    singular square matrix reaches the sympy path, which raises instead. -/
def inverse (A : Aff) : Except Err (Option Aff) :=
  match certInv A with
  | some c =>
      match mkAff A.rng A.dom c (invDType A.dtype) with
      | .error e => .error e
      | .ok B => .ok (some B)
  | none => if A.nin = A.nout ∧ (lapackDType A.dtype).isNone then .error .nonInvertible else .ok none

/-! ### reordering (`reordered_domain`, `reordered_range`) -/

inductive Order
  | rev
  | ints (l : List Nat)
  | names (l : List String)
deriving Repr

def indexOf? (l : List String) (s : String) : Option Nat :=
  match l with
  | [] => none
  | a :: r => if a = s then some 0 else (indexOf? r s).map (· + 1)

def resolveOrder (cs : CoordSys) : Order → Except Err (List Nat)
  | .rev => .ok (List.range cs.names.length).reverse
  | .ints [] => .error .indexError
  | .ints l => .ok l
  | .names [] => .error .indexError
  | .names l =>
      l.mapM fun s => match indexOf? cs.names s with
        | some i => .ok i
        | none => .error .valueError

/-- `perm[j, i] = 1` for `(i, j) ∈ enumerate(order)`, `perm[-1, -1] = 1` -/
def permMat (n : Nat) (ord : List Nat) : Mat :=
  mkMat (n + 1) (n + 1) fun j i =>
    if (j = n ∧ i = n) ∨ ord[i]? = some j then 1 else 0

def transposeMat (n : Nat) (m : Mat) : Mat := mkMat n n fun i j => m.get j i

/-- `copy.copy(mapping)` -/
def copyAff (A : Aff) : Except Err Aff := mkAff A.dom A.rng A.aff A.dtype

/-- the part of `reordered_*` that depends only on the coordinate system:
    resolved order, new coordinate system -/
def reorderCS (cs : CoordSys) (o : Order) : Except Err (List Nat × CoordSys) :=
  match resolveOrder cs o with
  | .error e => .error e
  | .ok ord =>
    -- `_checked_order`: anything that is not a permutation of the axis indices is a ValueError
    if !(ord.isPerm (List.range cs.names.length)) then .error .valueError
    else if ord.any (fun i => decide (cs.names.length ≤ i)) then .error .indexError
    else match mkCS (ord.map fun i => cs.names.getD i "") cs.name cs.dtype with
      | .error e => .error e
      | .ok ncs => .ok (ord, ncs)

def reorderedDomain (A : Aff) (o : Order) : Except Err Aff :=
  match reorderCS A.dom o with
  | .error e => .error e
  | .ok (ord, ncs) =>
    let P := permMat A.nin ord
    if P = idMat (A.nin + 1) then copyAff A
    else match mkAff ncs A.dom P A.dom.dtype with
      | .error e => .error e
      | .ok Pm => composeList [A, Pm]

def reorderedRange (A : Aff) (o : Order) : Except Err Aff :=
  match reorderCS A.rng o with
  | .error e => .error e
  | .ok (ord, ncs) =>
    let P := permMat A.nout ord
    if P = idMat (A.nout + 1) then copyAff A
    else match mkAff A.rng ncs (transposeMat (A.nout + 1) P) A.rng.dtype with
      | .error e => .error e
      | .ok Pm => composeList [Pm, A]

/-! ### renaming (`renamed_domain`, `renamed_range`) -/

inductive Key
  | idx (i : Int)
  | nm (s : String)
deriving DecidableEq, Repr

/-- Python tuple indexing with negative indices -/
def pyIndex (names : List String) (i : Int) : Except Err String :=
  let n : Int := names.length
  if 0 ≤ i ∧ i < n then .ok (names.getD i.toNat "")
  else if -n ≤ i ∧ i < 0 then .ok (names.getD (i + n).toNat "")
  else .error .indexError

/-- the dictionary after the first loop of `renamed_*`: integer keys are
    replaced by the names they index, overriding earlier entries -/
def resolveKeys (names : List String) (kv : List (Key × String)) : Except Err (List (String × String)) :=
  let strs := kv.filterMap fun p => match p.1 with | .nm s => some (s, p.2) | .idx _ => none
  let ints := kv.filterMap fun p => match p.1 with | .idx i => some (i, p.2) | .nm _ => none
  match ints.mapM (fun p => match pyIndex names p.1 with
                            | .ok s => Except.ok (s, p.2) | .error e => .error e) with
  | .error e => .error e
  | .ok r => .ok (strs ++ r)

def lookupLast (d : List (String × String)) (k : String) : Option String :=
  (d.reverse.find? (fun p => p.1 = k)).map (·.2)

/-- new coordinate system of `renamed_*` -/
def renameCS (cs : CoordSys) (kv : List (Key × String)) : Except Err CoordSys :=
  match resolveKeys cs.names kv with
  | .error e => .error e
  | .ok d =>
    if d.any (fun p => !cs.names.contains p.1) then .error .valueError
    else mkCS (cs.names.map fun n => (lookupLast d n).getD n) cs.name cs.dtype

/-- `renamed_domain` (identity matrix taken in the map's dtype: this is the
    behaviour of the tree with /verif/proposed_fixes/C01-renamed-int-dtype.patch;
    the unpatched code builds a float64 identity and refuses every int64 map). -/
def renamedDomain (A : Aff) (kv : List (Key × String)) : Except Err Aff :=
  match renameCS A.dom kv with
  | .error e => .error e
  | .ok ncs =>
    match mkAff ncs A.dom (idMat (A.nin + 1)) A.dom.dtype with
    | .error e => .error e
    | .ok I => composeList [A, I]

def renamedRange (A : Aff) (kv : List (Key × String)) : Except Err Aff :=
  match renameCS A.rng kv with
  | .error e => .error e
  | .ok ncs =>
    match mkAff A.rng ncs (idMat (A.nout + 1)) A.rng.dtype with
    | .error e => .error e
    | .ok I => composeList [I, A]

/-! ### origin shifts -/

def truncRat (q : Rat) : Rat := if 0 ≤ q then (q.floor : Rat) else (q.ceil : Rat)

/-- assignment `shift_matrix[:-1, -1] = v`: numpy broadcasting of a length-1
    vector, refusal of any other length mismatch, truncation into an int matrix -/
def bcastInto (n : Nat) (dt : DType) (d : List Rat) : Except Err (List Rat) :=
  let cast := fun (q : Rat) => if dt.isInt then truncRat q else q
  if d.length = n then .ok (d.map cast)
  else if d.length = 1 then .ok (List.replicate n (cast (d.getD 0 0)))
  else .error .valueError

def shiftMat (n : Nat) (d : List Rat) : Mat :=
  mkMat (n + 1) (n + 1) fun i j =>
    if i = j then 1 else if j = n ∧ i < n then d.getD i 0 else 0

def shiftedDomainOrigin (A : Aff) (diff : List Rat) (newName : String) : Except Err Aff :=
  match mkCS A.dom.names newName A.dom.dtype with
  | .error e => .error e
  | .ok ncs =>
    match bcastInto A.nin A.dom.dtype diff with
    | .error e => .error e
    | .ok d =>
      match mkAff ncs A.dom (shiftMat A.nin d) A.dom.dtype with
      | .error e => .error e
      | .ok S => composeList [A, S]

def shiftedRangeOrigin (A : Aff) (diff : List Rat) (newName : String) : Except Err Aff :=
  match mkCS A.rng.names newName A.rng.dtype with
  | .error e => .error e
  | .ok ncs =>
    match bcastInto A.nout A.rng.dtype (diff.map fun q => -q) with
    | .error e => .error e
    | .ok d =>
      match mkAff A.rng ncs (shiftMat A.nout d) A.rng.dtype with
      | .error e => .error e
      | .ok S => composeList [S, A]

/-! ### append / drop an axis -/

/-- `append_io_dim(cm, in_name, out_name, start, step)`; `from_params` makes
    unnamed float64 coordinate systems for the extra map; `mdt` is the dtype of
    `np.array([[step, start], [0, 1]])`. -/
def appendIoDim (A : Aff) (inName outName : String) (start step : Rat) (mdt : DType := .f8) :
    Except Err Aff :=
  match mkAff ⟨[inName], "", .f8⟩ ⟨[outName], "", .f8⟩ [[step, start], [0, 1]] mdt with
  | .error e => .error e
  | .ok E => product [A, E] "product" "product"

/-- `_fix0`: a single all-zero row and a single all-zero column of the linear
    part get a 1 at their crossing -/
def fix0 (m : Mat) (nout nin : Nat) : Mat :=
  let zr := (List.range nout).filter fun i => (List.range nin).all fun j => m.get i j == 0
  let zc := (List.range nin).filter fun j => (List.range nout).all fun i => m.get i j == 0
  match zr, zc with
  | [r], [c] => mkMat (nout + 1) (nin + 1) fun i j => if i = r ∧ j = c then 1 else m.get i j
  | _, _ => m

/-- `orth_axes(in_ax, out_ax, affine, allow_zero, tol=1e-5)` -/
def orthAxes (m : Mat) (nout nin : Nat) (inAx outAx : Nat) (allowZero : Bool) : Bool :=
  let nz := fun (i j : Nat) => decide ((1 : Rat) / 100000 < rabs (m.get i j))
  if !allowZero && !(nz outAx inAx) then false
  else ((List.range nin).all fun j => j == inAx || !(nz outAx j))
     && ((List.range nout).all fun i => i == outAx || !(nz i inAx))

/-- `io_axis_indices`; `ornts[i]` is `io_orientation(affine)[i, 0]` (a parameter). -/
def ioAxisIndices (A : Aff) (ax : Key) (ornts : List (Option Nat)) :
    Except Err (Option Nat × Option Nat) :=
  let in2out := fun (i : Nat) => if i < A.nin then Except.ok (ornts.getD i none) else .error Err.keyError
  let out2in := fun (o : Nat) => (List.range A.nin).find? fun i => ornts.getD i none == some o
  match ax with
  | .idx i =>
      let k : Int := if 0 ≤ i then i else (A.nin : Int) + i
      if k < 0 then .error .keyError
      else match in2out k.toNat with
        | .error e => .error e
        | .ok o => .ok (some k.toNat, o)
  | .nm s =>
      match indexOf? A.dom.names s with
      | some i =>
          match in2out i with
          | .error e => .error e
          | .ok o =>
            match indexOf? A.rng.names s with
            | some oi => if o ≠ some oi then .error .axisError else .ok (some i, o)
            | none => .ok (some i, o)
      | none =>
          match indexOf? A.rng.names s with
          | some o => .ok (out2in o, some o)
          | none => .error .axisError

def dropAt {α} (l : List α) (k : Option Nat) : List α :=
  match k with
  | none => l
  | some i => l.eraseIdx i

/-- index of the `k`-th kept row/column after removing `d` -/
def skipIdx (d : Option Nat) (k : Nat) : Nat :=
  match d with
  | none => k
  | some i => if k < i then k else k + 1

/-- `drop_io_dim(cm, axis_id, fix0)` -/
def dropIoDim (A : Aff) (ax : Key) (fix0flag : Bool) (ornts : List (Option Nat)) : Except Err Aff :=
  match ioAxisIndices A ax ornts with
  | .error e => .error e
  | .ok (i, o) =>
    let bad := match i, o with
      | some ii, some oo => !(orthAxes A.aff A.nout A.nin ii oo fix0flag)
      | _, _ => false
    if bad then .error .axisError
    -- `out_dims.pop(out_dim)` / `rows.pop(out_dim)`: an output index beyond the outputs is an IndexError
    else if (match o with | some oo => decide (A.nout ≤ oo) | none => false) = true then .error .indexError
    else
      let nin' := match i with | some _ => A.nin - 1 | none => A.nin
      let nout' := match o with | some _ => A.nout - 1 | none => A.nout
      let m := mkMat (nout' + 1) (nin' + 1) fun r c => A.aff.get (skipIdx o r) (skipIdx i c)
      mkAff ⟨dropAt A.dom.names i, "", .f8⟩ ⟨dropAt A.rng.names o, "", .f8⟩ m A.dtype

/-! ### general `CoordinateMap` -/

/-- a function between coordinate systems with an optional inverse function -/
structure CMap where
  dom : CoordSys
  rng : CoordSys
  fn : List Rat → List Rat
  inv : Option (List Rat → List Rat)

/-- `CoordinateMap.__call__` on one point (`_checked_values` gate on the input) -/
def CMap.call (M : CMap) (pdt : DType) (pts : List (List Rat)) : Except Err (List (List Rat)) :=
  if pts.all (fun p => p.length == M.dom.names.length) = false then .error .coordSys
  else if pdt.canCast M.dom.dtype = false then .error .coordSys
  else .ok (pts.map M.fn)

/-- `CoordinateMap.inverse()` -/
def CMap.inverse (M : CMap) : Option CMap :=
  match M.inv with
  | none => none
  | some g => some ⟨M.rng, M.dom, g, some M.fn⟩

/-- `_as_coordinate_map(affine)`; `Ainv` is the result of
    `inverse(preserve_dtype=True)` -/
def asCMap (A : Aff) (Ainv : Option Aff) : CMap :=
  ⟨A.dom, A.rng, A.apply, Ainv.map fun B => B.apply⟩

def cstep (cur cm : CMap) : Except Err CMap :=
  if cm.dom = cur.rng then
    .ok ⟨cur.dom, cm.rng, fun x => cm.fn (cur.fn x),
         match cm.inv, cur.inv with
         | some gi, some ci => some fun y => ci (gi y)
         | _, _ => none⟩
  else .error .valueError

def ccomposeFrom (cur : CMap) : List CMap → Except Err CMap
  | [] => .ok cur
  | cm :: rest =>
      match cstep cur cm with
      | .error e => .error e
      | .ok c => ccomposeFrom c rest

/-- `_compose_cmaps(*l)` -/
def ccomposeList (l : List CMap) : Except Err CMap :=
  match l.reverse with
  | [] => .error .indexError
  | last :: rest =>
      ccomposeFrom ⟨last.dom, last.dom, fun x => x, some fun x => x⟩ (last :: rest)

/-- exact inverse used for `preserve_dtype=True`: for int64 maps the inverse
    matrix must be integral -/
def isIntMat (m : Mat) : Bool := m.all fun row => row.all fun q => q.den == 1

def isNonnegMat (m : Mat) : Bool := m.all fun row => row.all fun q => decide (0 ≤ q)

def inversePreserve (A : Aff) : Option Aff :=
  match inverse A with
  | .ok (some B) =>
      if A.dtype.isInt then
        (if isIntMat B.aff && (A.dtype.kind != .u || isNonnegMat B.aff) then
          match mkAff A.rng A.dom B.aff A.dtype with | .ok C => some C | .error _ => none
         else none)
      else some B
  | _ => none

def toCMap (A : Aff) : CMap := asCMap A (inversePreserve A)

def creorderedDomain (M : CMap) (o : Order) : Except Err CMap :=
  match reorderCS M.dom o with
  | .error e => .error e
  | .ok (ord, ncs) =>
    let P := permMat M.dom.names.length ord
    if P = idMat (M.dom.names.length + 1) then .ok M
    else match mkAff ncs M.dom P M.dom.dtype with
      | .error e => .error e
      | .ok Pm => ccomposeList [M, toCMap Pm]

def creorderedRange (M : CMap) (o : Order) : Except Err CMap :=
  match reorderCS M.rng o with
  | .error e => .error e
  | .ok (ord, ncs) =>
    let n := M.rng.names.length
    let P := permMat n ord
    if P = idMat (n + 1) then .ok M
    else match mkAff M.rng ncs (transposeMat (n + 1) P) M.rng.dtype with
      | .error e => .error e
      | .ok Pm => ccomposeList [toCMap Pm, M]

def crenamedDomain (M : CMap) (kv : List (Key × String)) : Except Err CMap :=
  match renameCS M.dom kv with
  | .error e => .error e
  | .ok ncs =>
    match mkAff ncs M.dom (idMat (M.dom.names.length + 1)) M.dom.dtype with
    | .error e => .error e
    | .ok I => ccomposeList [M, toCMap I]

def crenamedRange (M : CMap) (kv : List (Key × String)) : Except Err CMap :=
  match renameCS M.rng kv with
  | .error e => .error e
  | .ok ncs =>
    match mkAff M.rng ncs (idMat (M.rng.names.length + 1)) M.rng.dtype with
    | .error e => .error e
    | .ok I => ccomposeList [toCMap I, M]

/-- `_product_cmaps`: each factor acts on its own block; no inverse -/
def cproduct (l : List CMap) (inName outName : String) : Except Err CMap :=
  let dtI := joinAll (l.map fun M => M.dom.dtype)
  let dtO := joinAll (l.map fun M => M.rng.dtype)
  match mkCS (l.flatMap fun M => M.dom.names) inName dtI with
  | .error e => .error e
  | .ok d =>
    match mkCS (l.flatMap fun M => M.rng.names) outName dtO with
    | .error e => .error e
    | .ok r =>
      let rec go : List CMap → List Rat → List Rat
        | [], _ => []
        | M :: rest, x => M.fn (x.take M.dom.names.length) ++ go rest (x.drop M.dom.names.length)
      .ok ⟨d, r, go l, none⟩

/-! ### Line protocol -/

def encStr (s : String) : String := "s:" ++ s

def pStr : P String := do
  let t ← pTok
  if t.startsWith "s:" then pure (t.drop 2).toString else failure

def pDType : P DType := do
  let t ← pTok
  match t with
  | "b1" => pure .b1 | "i1" => pure .i1 | "i2" => pure .i2 | "i4" => pure .i4 | "i8" => pure .i8
  | "u1" => pure .u1 | "u2" => pure .u2 | "u4" => pure .u4 | "u8" => pure .u8
  | "f2" => pure .f2 | "f4" => pure .f4 | "f8" => pure .f8 | "c8" => pure .c8 | "c16" => pure .c16
  | "O" => pure .obj | "S" => pure .txt | _ => failure

/-- raw coordinate system `name dtype n names…` (not validated: `mkCS` is part of the model) -/
def pCS : P CoordSys := do
  let nm ← pStr; let dt ← pDType; let ns ← pList pStr
  pure ⟨ns, nm, dt⟩

structure RawMap where
  dom : CoordSys
  rng : CoordSys
  mdt : DType
  m : Mat

def pRaw : P RawMap := do
  let d ← pCS; let r ← pCS; let dt ← pDType; let m ← pMat
  pure ⟨d, r, dt, m⟩

/-- constructing a map from raw arguments: both `CoordinateSystem`s, then the `AffineTransform` -/
def RawMap.build (r : RawMap) : Except Err Aff :=
  match mkCS r.dom.names r.dom.name r.dom.dtype with
  | .error e => .error e
  | .ok d =>
    match mkCS r.rng.names r.rng.name r.rng.dtype with
    | .error e => .error e
    | .ok g => mkAff d g r.m r.mdt

def pOrder : P Order := do
  let t ← pTok
  match t with
  | "rev" => pure .rev
  | "ints" => do let l ← pList pNat; pure (.ints l)
  | "names" => do let l ← pList pStr; pure (.names l)
  | _ => failure

def pKey : P Key := do
  let t ← pTok
  match t with
  | "i" => do let i ← pInt; pure (.idx i)
  | "n" => do let s ← pStr; pure (.nm s)
  | _ => failure

def pKV : P (Key × String) := do let k ← pKey; let v ← pStr; pure (k, v)

def pOrnt : P (Option Nat) := do
  let t ← pTok
  if t = "x" then pure none else match t.toNat? with | some n => pure (some n) | none => failure

inductive Op
  | composeN (ls rs : List RawMap)
  | prodN (ls rs : List RawMap) (i o : String)
  | reordD (o : Order) | reordR (o : Order)
  | renD (kv : List (Key × String)) | renR (kv : List (Key × String))
  | inv
  | shiftD (d : List Rat) (nm : String) | shiftR (d : List Rat) (nm : String)
  | append (i o : String) (start step : Rat) (mdt : DType)
  | drop (ax : Key) (fix0 : Bool) (ornts : List (Option Nat))

def pOp : P Op := do
  let t ← pTok
  match t with
  | "compose_r" => do let m ← pRaw; pure (.composeN [] [m])
  | "compose_l" => do let m ← pRaw; pure (.composeN [m] [])
  | "compose3" => do let l ← pRaw; let r ← pRaw; pure (.composeN [l] [r])
  | "compose_n" => do let ls ← pList pRaw; let rs ← pList pRaw; pure (.composeN ls rs)
  | "prod_r" => do let m ← pRaw; let i ← pStr; let o ← pStr; pure (.prodN [] [m] i o)
  | "prod_l" => do let m ← pRaw; let i ← pStr; let o ← pStr; pure (.prodN [m] [] i o)
  | "prod_n" => do
      let ls ← pList pRaw; let rs ← pList pRaw; let i ← pStr; let o ← pStr; pure (.prodN ls rs i o)
  | "reord_d" => do let o ← pOrder; pure (.reordD o)
  | "reord_r" => do let o ← pOrder; pure (.reordR o)
  | "ren_d" => do let kv ← pList pKV; pure (.renD kv)
  | "ren_r" => do let kv ← pList pKV; pure (.renR kv)
  | "inv" => pure .inv
  | "shift_d" => do let d ← pList pRat; let n ← pStr; pure (.shiftD d n)
  | "shift_r" => do let d ← pList pRat; let n ← pStr; pure (.shiftR d n)
  | "append" => do
      let i ← pStr; let o ← pStr; let s ← pRat; let st ← pRat; let dt ← pDType; pure (.append i o s st dt)
  | "drop" => do let k ← pKey; let f ← pBool; let o ← pList pOrnt; pure (.drop k f o)
  | _ => failure

/-- the partner maps of an n-ary operation are constructed left to right -/
def buildAll : List RawMap → Except Err (List Aff)
  | [] => .ok []
  | m :: rest =>
      match m.build with
      | .error e => .error e
      | .ok A => match buildAll rest with
        | .error e => .error e
        | .ok l => .ok (A :: l)

def liftSome {α} (e : Except Err α) : Except Err (Option α) :=
  match e with | .ok a => .ok (some a) | .error e => .error e

/-- one step of an affine program; `none` = `inverse()` returned `None` -/
def stepAff (A : Aff) : Op → Except Err (Option Aff)
  | .composeN ls rs =>
      match buildAll ls with
      | .error e => .error e
      | .ok L => match buildAll rs with
        | .error e => .error e
        | .ok R => liftSome (composeList (L ++ A :: R))
  | .prodN ls rs i o =>
      match buildAll ls with
      | .error e => .error e
      | .ok L => match buildAll rs with
        | .error e => .error e
        | .ok R => liftSome (product (L ++ A :: R) i o)
  | .reordD o => liftSome (reorderedDomain A o)
  | .reordR o => liftSome (reorderedRange A o)
  | .renD kv => liftSome (renamedDomain A kv)
  | .renR kv => liftSome (renamedRange A kv)
  | .inv => inverse A
  | .shiftD d n => liftSome (shiftedDomainOrigin A d n)
  | .shiftR d n => liftSome (shiftedRangeOrigin A d n)
  | .append i o s st dt => liftSome (appendIoDim A i o s st dt)
  | .drop k f o => liftSome (dropIoDim A k f o)

/-- run a chain; result: final map, or `(step index, "none" | error)` -/
def runOps (A : Aff) : List Op → Nat → Except (Nat × String) Aff
  | [], _ => .ok A
  | op :: rest, k =>
      match stepAff A op with
      | .error e => .error (k, e.str)
      | .ok none => .error (k, "none")
      | .ok (some B) => runOps B rest (k + 1)

/-! ### side conditions of the program theorem (`prog_sound`), decidable so that the driver reports them -/

def Aff.exactB (A : Aff) : Bool := bottomExactB A.aff A.nin A.nout

def RawMap.exactB (m : RawMap) : Bool := bottomExactB m.m m.dom.names.length m.rng.names.length

/-- the entries of the dropped column that `drop_io_dim` discards (every row but the dropped one)
    are exactly zero -/
def dropColZeroB (A : Aff) (i o : Option Nat) : Bool :=
  match i with
  | none => true
  | some ii => (List.range A.nout).all fun r => o == some r || A.aff.get r ii == 0

def Op.exactB (A : Aff) : Op → Bool
  | .composeN ls rs => (ls ++ rs).all RawMap.exactB
  | .drop ax _ ornts =>
      match ioAxisIndices A ax ornts with
      | .ok (i, o) => dropColZeroB A i o
      | .error _ => true
  | _ => true

def progExactB : Aff → List Op → Bool
  | _, [] => true
  | A, op :: rest =>
      op.exactB A && match stepAff A op with
        | .ok (some B) => progExactB B rest
        | _ => true

def fmtCS (c : CoordSys) : String :=
  s!"{encStr c.name} {c.dtype.str} {c.names.length}" ++ String.join (c.names.map fun n => " " ++ encStr n)

def fmtMatS (m : Mat) : String :=
  s!"{m.length} {(m.headD []).length} " ++ fmtMat m

def fmtPts (r : Except Err (List (List Rat))) : String :=
  match r with
  | .error e => e.str
  | .ok l => "vals " ++ " ; ".intercalate (l.map fmtRats)

def fmtAff (A : Aff) : String := fmtCS A.dom ++ " | " ++ fmtCS A.rng ++ " | " ++ fmtMatS A.aff

structure Pts where
  dt : DType
  pts : List (List Rat)

def pPts : P Pts := do
  let dt ← pDType; let n ← pNat; let d ← pNat
  let p ← pMany (pMany pRat d) n
  pure ⟨dt, p⟩

/-! general maps: the function is an affine map followed by the polynomial shear
`y₀ = x₀, yᵢ = xᵢ + c·x₀²` (inverse `xᵢ = yᵢ − c·y₀²`) or by squaring (no inverse) -/

def shearFn (c : Rat) (x : List Rat) : List Rat :=
  match x with
  | [] => []
  | x0 :: r => x0 :: r.map fun v => v + c * x0 * x0

inductive GKind | affine | shear (c : Rat) | square

def mkGeneral (A : Aff) : GKind → CMap
  | .affine => toCMap A
  | .shear c =>
      let M := toCMap A
      ⟨M.dom, M.rng, fun x => shearFn c (M.fn x), M.inv.map fun g => fun y => g (shearFn (-c) y)⟩
  | .square =>
      let M := toCMap A
      ⟨M.dom, M.rng, fun x => (M.fn x).map fun v => v * v, none⟩

def pGKind : P GKind := do
  let t ← pTok
  match t with
  | "affine" => pure .affine
  | "shear" => do let c ← pRat; pure (.shear c)
  | "square" => pure .square
  | _ => failure

def stepC (M : CMap) : Op → Except Err (Option CMap)
  | .composeN ls rs =>
      match buildAll ls with
      | .error e => .error e
      | .ok L => match buildAll rs with
        | .error e => .error e
        | .ok R => liftSome (ccomposeList (L.map toCMap ++ M :: R.map toCMap))
  | .prodN ls rs i o =>
      match buildAll ls with
      | .error e => .error e
      | .ok L => match buildAll rs with
        | .error e => .error e
        | .ok R => liftSome (cproduct (L.map toCMap ++ M :: R.map toCMap) i o)
  | .reordD o => liftSome (creorderedDomain M o)
  | .reordR o => liftSome (creorderedRange M o)
  | .renD kv => liftSome (crenamedDomain M kv)
  | .renR kv => liftSome (crenamedRange M kv)
  | .inv => .ok M.inverse
  | _ => .error .keyError

def runOpsC (M : CMap) : List Op → Nat → Except (Nat × String) CMap
  | [], _ => .ok M
  | op :: rest, k =>
      match stepC M op with
      | .error e => .error (k, e.str)
      | .ok none => .error (k, "none")
      | .ok (some B) => runOpsC B rest (k + 1)

def run : Toks → String
  | "prog" :: rest =>
      match runP (do let m ← pRaw; let ops ← pList pOp; let p ← pPts; pure (m, ops, p)) rest with
      | none => "bad-op"
      | some (m, ops, p) =>
        match m.build with
        | .error e => e.str ++ "@init"
        | .ok A =>
          match runOps A ops 0 with
          | .error (k, s) => s!"{s}@{k}"
          | .ok B =>
            let hyp := A.exactB && progExactB A ops
            s!"ok | {fmtAff B} | {fmtPts (B.call p.dt p.pts)} | hyp {if hyp then 1 else 0}"
  | "gprog" :: rest =>
      match runP (do let m ← pRaw; let g ← pGKind; let ops ← pList pOp; let p ← pPts
                     pure (m, g, ops, p)) rest with
      | none => "bad-op"
      | some (m, g, ops, p) =>
        match m.build with
        | .error e => e.str ++ "@init"
        | .ok A =>
          match runOpsC (mkGeneral A g) ops 0 with
          | .error (k, s) => s!"{s}@{k}"
          | .ok B =>
            let fwd := B.call p.dt p.pts
            let back : String := match B.inv, fwd with
              | some g, .ok ys => "inv " ++ " ; ".intercalate (ys.map fun y => fmtRats (g y))
              | none, _ => "noinv"
              | _, _ => "inv-skip"
            s!"ok | {fmtCS B.dom} | {fmtCS B.rng} | {fmtPts fwd} | {back}"
  | "fix0" :: rest =>
      match runP pMat rest with
      | none => "bad-op"
      | some m => fmtMatS (fix0 m (m.length - 1) ((m.headD []).length - 1))
  | _ => "bad-op"

end NipyVerif.C01
