/-
C07 — model of the column assembly of `make_dmtx` (design_matrix.py): argument checks on
`add_regs` / `add_reg_names`, the conditions of the paradigm (or none), the haemodynamic model and
drift model names (lower-cased), the number of drift columns of each drift model, and the column
names in order: conditions × basis functions, user regressors, drifts, constant.
-/
import NipyVerif.Model.C07Par
namespace NipyVerif.C07

/-- real spelling of the haemodynamic models (`hrf_model.lower()` is compared with these) -/
def hrfOfName : String → Option Hrf
  | "canonical" => some .canonical
  | "canonical with derivative" => some .canonicalDeriv
  | "spm" => some .spm
  | "spm_time" => some .spmTime
  | "spm_time_dispersion" => some .spmTimeDisp
  | "fir" => some .fir
  | _ => none

/-- `'reg%d' % k for k in range(n)` -/
def defaultRegNames (n : Nat) : List String := (List.range n).map (fun k => "reg" ++ toString k)

/-- number of columns `_make_drift` returns.
    cosine: `max(int(floor(2 * len_tim * (1/period_cut) * dt)), 1)`, `dt = frametimes[1] - frametimes[0]`;
    polynomial: `order + 1`; blank: 1. -/
def driftCols (model : String) (n : Nat) (dt hfcut : Rat) (order : Nat) : Except String Nat :=
  match model.toLower with
  | "polynomial" => .ok (order + 1)
  | "cosine" => .ok (max (Rat.floor (2 * (n : Rat) * (1 / hfcut) * dt)).toNat 1)
  | "blank" => .ok 1
  | _ => .error "error:notImplemented"

structure DmSpec where
  nframes : Nat
  /-- `frametimes[1] - frametimes[0]` -/
  dt : Rat
  paradigm : Option Paradigm
  hrf : String
  drift : String
  hfcut : Rat
  order : Nat
  firDelays : List Nat
  /-- `(add_regs.shape[0], add_regs.size)` when `add_regs` is given -/
  addShape : Option (Nat × Nat)
  addNames : Option (List String)

/-- number of user regressors after the 1-D → column reshape, or the assertion failure -/
def addCols (nframes : Nat) : Option (Nat × Nat) → Except String Nat
  | none => .ok 0
  | some (shape0, size) =>
      let rows := if shape0 = size then size else shape0
      let cols := if shape0 = size then 1 else size / shape0
      if rows ≠ nframes then .error "error:AssertionError" else .ok cols

/-- the conditions (in `np.unique` order) and the haemodynamic model whose basis functions name
    their columns; an unknown model is refused by `_hrf_kernel` at the first condition, a block
    paradigm without durations by `None[mask]`.  Without conditions the model is irrelevant. -/
def condModel (p : Paradigm) (hrf : String) : Except String (List String × Hrf) :=
  let conds := uniqueNames p.conId
  if conds.isEmpty then .ok ([], .canonical)
  else match hrfOfName hrf.toLower with
    | none => .error "error:valueError"
    | some m =>
        if p.isBlock ∧ p.dur.isNone then .error "error:typeError"
        else .ok (conds, m)

/-- the ingredients of the column names of `make_dmtx(...)` — conditions, haemodynamic model,
    names of the user regressors, number of drift columns — or its refusal -/
def makeDmtxParts (s : DmSpec) : Except String (List String × Hrf × List String × Nat) := do
  let nadd ← addCols s.nframes s.addShape
  let addNames ← match s.addNames with
    | none => pure (defaultRegNames nadd)
    | some l => if l.length ≠ nadd then throw "error:valueError" else pure l
  let (conds, m) ← match s.paradigm with
    | none => pure ([], Hrf.canonical)
    | some p => condModel p s.hrf
  let nd ← driftCols s.drift s.nframes s.dt s.hfcut s.order
  pure (conds, m, (if s.addShape.isSome then addNames else []), nd)

/-- the names of the columns of `make_dmtx(...)`: `dmtxNames` of the parts -/
def makeDmtxNames (s : DmSpec) : Except String (List String) :=
  (makeDmtxParts s).map (fun (conds, m, add, nd) => dmtxNames conds m s.firDelays add nd)

/-- Decidable form of the exact uniqueness precondition (see `Props/C07Names`):
    no condition name is another condition name followed by a basis suffix of the model,
    fir delays are distinct, the user names are distinct, and no two of the three groups
    (condition columns, user names, drift names + constant) share a name. -/
def suffixClash (conds : List String) (suf : String) : Bool :=
  conds.any (fun c => conds.any (fun c' => c == c' ++ suf))

def condsUnique (conds : List String) (m : Hrf) (d : List Nat) : Bool :=
  match m with
  | .canonical | .spm => true
  | .canonicalDeriv | .spmTime => !suffixClash conds "_derivative"
  | .spmTimeDisp => !suffixClash conds "_derivative" && !suffixClash conds "_dispersion"
  | .fir => conds.isEmpty || decide d.Nodup

def listDisjoint (a b : List String) : Bool := a.all (fun x => !b.contains x)

def namesUnique (conds : List String) (m : Hrf) (d : List Nat) (add : List String) (nd : Nat) : Bool :=
  let cc := conds.flatMap (fun c => regressorNames c m d)
  condsUnique conds m d && decide add.Nodup &&
    listDisjoint cc add && listDisjoint cc (driftNames nd) && listDisjoint add (driftNames nd)

/-! ### protocol -/

def pOptNames : P (Option (List String)) := do
  let t ← pTok
  if t = "none" then pure none
  else if t = "some" then do let l ← pList pName; pure (some l)
  else failure

def pOptShape : P (Option (Nat × Nat)) := do
  let t ← pTok
  if t = "none" then pure none
  else if t = "some" then do let a ← pNat; let b ← pNat; pure (some (a, b))
  else failure

def pOptParadigm : P (Option (Except String Paradigm)) := do
  let t ← pTok
  if t = "none" then pure none
  else if t = "some" then do let p ← pParadigm; pure (some p)
  else failure

def fmtNames (l : List String) : String := " ".intercalate (toString l.length :: l.map encName)

def runDm : Toks → Option String
  | "mkdmtx" :: rest =>
      match runP (do
          let n ← pNat; let dt ← pRat; let par ← pOptParadigm; let hrf ← pName; let drift ← pName
          let hf ← pRat; let ord ← pNat; let fd ← pList pNat; let sh ← pOptShape; let an ← pOptNames
          pure (n, dt, par, hrf, drift, hf, ord, fd, sh, an)) rest with
      | some (n, dt, par, hrf, drift, hf, ord, fd, sh, an) =>
          match par with
          | some (.error e) => some e
          | _ =>
            let p : Option Paradigm := match par with | some (.ok p) => some p | _ => none
            match makeDmtxParts ⟨n, dt, p, hrf, drift, hf, ord, fd, sh, an⟩ with
            | .error e => some e
            | .ok (conds, m, add, nd) =>
                -- second field: the exact precondition of the uniqueness theorem (`names_unique_flag`)
                some (fmtNames (dmtxNames conds m fd add nd) ++ " | unique=" ++
                  (if namesUnique conds m fd add nd then "1" else "0"))
      | none => some "bad-op"
  | "driftcols" :: rest =>
      match runP (do let m ← pName; let n ← pNat; let dt ← pRat; let hf ← pRat; let o ← pNat
                     pure (m, n, dt, hf, o)) rest with
      | some (m, n, dt, hf, o) => match driftCols m n dt hf o with
          | .ok k => some (toString k)
          | .error e => some e
      | none => some "bad-op"
  | "unique" :: rest =>
      match runP (pList pName) rest with
      | some l => some (fmtNames (uniqueNames l))
      | none => some "bad-op"
  | _ => none

end NipyVerif.C07
