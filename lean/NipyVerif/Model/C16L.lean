/-
C16 (part L) — the remaining `fff_blas.c` wrappers (level 2: `dgemv` is in the base model; here
`dger`, `dsyr`, `dsyr2`, `dsymv`, `dtrmv`, `dtrsv`; level 3: `dsyr2k`) as flag tables over the
reference (Fortran, column-major) semantics, and the transposition bookkeeping of `fff_lapack.c`.
-/
import NipyVerif.Model.C16
namespace NipyVerif.C16

/-! reference semantics of the Fortran routines (on the matrices as Fortran reads them) -/

/-- `dger(m, n, alpha, x, y, A)`: `A := alpha x yᵀ + A` -/
def gerF (m n : Nat) (al : Rat) (x y : Nat → Rat) (A : Mat) : Mat :=
  ⟨m, n, fun i j => A.get i j + al * x i * y j⟩

/-- `dsyr(uplo, n, alpha, x, A)`: the named triangle of `A := alpha x xᵀ + A` -/
def syrF (u : Uplo) (n : Nat) (al : Rat) (x : Nat → Rat) (A : Mat) : Mat :=
  ⟨n, n, fun i j => if inTri u i j then A.get i j + al * x i * x j else A.get i j⟩

/-- `dsyr2(uplo, n, alpha, x, y, A)`: the named triangle of `A := alpha x yᵀ + alpha y xᵀ + A` -/
def syr2F (u : Uplo) (n : Nat) (al : Rat) (x y : Nat → Rat) (A : Mat) : Mat :=
  ⟨n, n, fun i j => if inTri u i j then A.get i j + al * x i * y j + al * y i * x j else A.get i j⟩

/-- `dsymv(uplo, n, alpha, A, x, beta, y)` -/
def symvF (u : Uplo) (n : Nat) (al : Rat) (A : Mat) (x : Nat → Rat) (be : Rat) (y : Nat → Rat) : Nat → Rat :=
  fun i => al * sumTo n (fun l => (symOf u A).get i l * x l) + be * y i

/-- `dtrmv(uplo, trans, diag, n, A, x)`: `x := op(tri(A)) x` -/
def trmvF (u : Uplo) (t : Trans) (d : Diag) (n : Nat) (A : Mat) (x : Nat → Rat) : Nat → Rat :=
  fun i => sumTo n (fun l => (op t (triOf u d A)).get i l * x l)

/-- `X` is what `dtrsv(uplo, trans, diag, n, A, x)` leaves in `x` -/
def IsTrsvF (u : Uplo) (t : Trans) (d : Diag) (n : Nat) (A : Mat) (b X : Nat → Rat) : Prop :=
  ∀ i, i < n → sumTo n (fun l => (op t (triOf u d A)).get i l * X l) = b i

/-- `dsyr2k(uplo, trans, n, k, alpha, A, B, beta, C)` -/
def syr2kF (u : Uplo) (t : Trans) (n k : Nat) (al : Rat) (A B : Mat) (be : Rat) (C : Mat) : Mat :=
  ⟨n, n, fun i j =>
    if inTri u i j then
      al * sumTo k (fun l => (op t A).get i l * (op t B).get j l + (op t B).get i l * (op t A).get j l)
        + be * C.get i j
    else C.get i j⟩

/-! the wrappers of `fff_blas.c` -/

/-- `dger(m, n, alpha, ·, ·, A, lda)`: sizes and operand order from the flag table -/
def fffGer (al : Rat) (x y : Nat → Rat) (A : Mat) : Mat :=
  let d := mn Gen.gerMIsSize2 A
  let xy := ord2 Gen.gerSwapsOperands x y
  (gerF d.1 d.2 al xy.1 xy.2 A.T).T

def fffSyr (u : Uplo) (al : Rat) (x : Nat → Rat) (A : Mat) : Mat :=
  (syrF (swIf Gen.syrSwapUplo Uplo.swap u) A.r al x A.T).T

def fffSyr2 (u : Uplo) (al : Rat) (x y : Nat → Rat) (A : Mat) : Mat :=
  let xy := ord2 Gen.syr2SwapsOperands x y
  (syr2F (swIf Gen.syr2SwapUplo Uplo.swap u) A.r al xy.1 xy.2 A.T).T

def fffSymv (u : Uplo) (al : Rat) (A : Mat) (x : Nat → Rat) (be : Rat) (y : Nat → Rat) : Nat → Rat :=
  symvF (swIf Gen.symvSwapUplo Uplo.swap u) A.r al A.T x be y

def fffTrmv (u : Uplo) (t : Trans) (d : Diag) (A : Mat) (x : Nat → Rat) : Nat → Rat :=
  trmvF (swIf Gen.trmvSwapUplo Uplo.swap u) (swIf Gen.trmvSwapTrans Trans.swap t) d A.r A.T x

/-- `dsyr2k(uplo', trans', n = C.size1, k, alpha, ·, ·, beta, C)` with
    `k = (Trans == NoTrans) ? B.size1 : B.size2` -/
def fffSyr2k (u : Uplo) (t : Trans) (al : Rat) (A B : Mat) (be : Rat) (C : Mat) : Mat :=
  let k := match t with | .N => B.r | .T => B.c
  let ms := ord2 Gen.syr2kSwapsOperands A.T B.T
  (syr2kF (swIf Gen.syr2kSwapUplo Uplo.swap u) (swIf Gen.syr2kSwapTrans Trans.swap t) C.r k al ms.1 ms.2 be C.T).T

/-- executable `dtrsv`: the column-major routine solves `op_{t'}(tri_{u'}(Aᵀ)) X = x` with the flags the
    wrapper builds (flag table) -/
def fffTrsv (u : Uplo) (t : Trans) (d : Diag) (A : Mat) (x : List Rat) : List Rat :=
  let xa := x.toArray
  let u' := swIf Gen.trsvSwapUplo Uplo.swap u
  let t' := swIf Gen.trsvSwapTrans Trans.swap t
  let TF := op t' (triOf u' d A.T)
  let lowerF := (u' = .L) = (t' = .N)
  let R := triSolve x.length 1 lowerF TF ⟨x.length, 1, fun i _ => xa.getD i 0⟩
  (List.range x.length).map (fun i => R.get i 0)

/-! `fff_lapack.c`: the wrappers copy `A` transposed into `Aux`, call the column-major routine on the
    buffer of `Aux` (leading dimension `Aux->tda`) and copy the result transposed back. `F` is the
    column-major routine as a function of the matrix it reads. -/

/-- `fff_matrix_transpose(Aux, A)`: a new buffer holding `Aᵀ` -/
def transposed (A : Mat) : Mat := ⟨A.c, A.r, fun i j => A.get j i⟩

/-- `fff_lapack_dpotrf / dgetrf / dgeqrf`: transpose in, run on the buffer read column-major,
    transpose back -/
def lapackViaAux (F : Mat → Mat) (A : Mat) : Mat :=
  let aux := transposed A         -- row-major buffer of Aux
  let res := F aux.T              -- what the routine reads, and what it leaves there
  transposed res.T                -- Aux row-major again, then transposed into A

/-! ## Line protocol (part L) -/

def pVec : P (Nat → Rat) := do let l ← pList pRat; let a := l.toArray; pure (fun i => a.getD i 0)

def runL : Toks → Option String
  | "ger" :: rest =>
      match runP (do let al ← pRat; let A ← pMat; let x ← pList pRat; let y ← pList pRat; pure (al, A, x, y)) rest with
      | some (al, A, x, y) =>
          let xa := x.toArray; let ya := y.toArray
          some (fmtM (fffGer al (fun i => xa.getD i 0) (fun i => ya.getD i 0) (matOfRows A)))
      | none => some "bad-op"
  | "syr" :: rest =>
      match runP (do let u ← pUplo; let al ← pRat; let A ← pMat; let x ← pList pRat; pure (u, al, A, x)) rest with
      | some (u, al, A, x) =>
          let xa := x.toArray
          some (fmtM (fffSyr u al (fun i => xa.getD i 0) (matOfRows A)))
      | none => some "bad-op"
  | "syr2" :: rest =>
      match runP (do let u ← pUplo; let al ← pRat; let A ← pMat; let x ← pList pRat; let y ← pList pRat
                     pure (u, al, A, x, y)) rest with
      | some (u, al, A, x, y) =>
          let xa := x.toArray; let ya := y.toArray
          some (fmtM (fffSyr2 u al (fun i => xa.getD i 0) (fun i => ya.getD i 0) (matOfRows A)))
      | none => some "bad-op"
  | "symv" :: rest =>
      match runP (do let u ← pUplo; let al ← pRat; let A ← pMat; let x ← pList pRat; let be ← pRat
                     let y ← pList pRat; pure (u, al, A, x, be, y)) rest with
      | some (u, al, A, x, be, y) =>
          let xa := x.toArray; let ya := y.toArray
          let f := fffSymv u al (matOfRows A) (fun i => xa.getD i 0) be (fun i => ya.getD i 0)
          some (fmtRats ((List.range y.length).map f))
      | none => some "bad-op"
  | "trmv" :: rest =>
      match runP (do let u ← pUplo; let t ← pTrans; let d ← pDiag; let A ← pMat; let x ← pList pRat
                     pure (u, t, d, A, x)) rest with
      | some (u, t, d, A, x) =>
          let xa := x.toArray
          some (fmtRats ((List.range x.length).map (fffTrmv u t d (matOfRows A) (fun i => xa.getD i 0))))
      | none => some "bad-op"
  | "trsv" :: rest =>
      match runP (do let u ← pUplo; let t ← pTrans; let d ← pDiag; let A ← pMat; let x ← pList pRat
                     pure (u, t, d, A, x)) rest with
      | some (u, t, d, A, x) => some (fmtRats (fffTrsv u t d (matOfRows A) x))
      | none => some "bad-op"
  | "syr2k" :: rest =>
      match runP (do let u ← pUplo; let t ← pTrans; let al ← pRat; let A ← pMat; let B ← pMat
                     let be ← pRat; let C ← pMat; pure (u, t, al, A, B, be, C)) rest with
      | some (u, t, al, A, B, be, C) =>
          some (fmtM (fffSyr2k u t al (matOfRows A) (matOfRows B) be (matOfRows C)))
      | none => some "bad-op"
  | _ => none

end NipyVerif.C16
