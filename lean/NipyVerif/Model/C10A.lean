/-
C10A (wave 4) — (1) the *order* in which `Formula.design` lists its columns:
`design_expr = [diff(mean, p) for p in sorted(params, key=default_sort_key)]`
with the parameter of term position `i` named `'%s%d' % (char, i)`: the
columns come in the lexicographic order of the decimal strings of the
positions (b0, b1, b10, b11, b2, … from 11 terms on).  (2) the line kinds that
run the terms regenerated from the source text (`Gen/C10Grid.lean`) in the
native driver, and the grid facts of `convolve_functions`.
-/
import NipyVerif.Model.C10C
import NipyVerif.Gen.C10Grid
namespace NipyVerif.C10

/-! ## Column order of `Formula.design` -/

def digitsAux : Nat → Nat → List Nat → List Nat
  | 0, _, acc => acc
  | fuel + 1, n, acc => if n < 10 then n :: acc else digitsAux fuel (n / 10) (n % 10 :: acc)

/-- decimal digits of `n`, most significant first (`'%d' % n`) -/
def digits (n : Nat) : List Nat := digitsAux (n + 1) n []

/-- Python's `str` comparison `≤` on digit strings: first differing character
    decides, a proper prefix is smaller -/
def lexLe : List Nat → List Nat → Bool
  | [], _ => true
  | _ :: _, [] => false
  | a :: l, b :: m => if a < b then true else if b < a then false else lexLe l m

/-- `'b%d' % i ≤ 'b%d' % j` -/
def nameLe (i j : Nat) : Bool := lexLe (digits i) (digits j)

def insertBy (le : Nat → Nat → Bool) (a : Nat) : List Nat → List Nat
  | [] => [a]
  | b :: l => if le a b then a :: b :: l else b :: insertBy le a l

def sortBy (le : Nat → Nat → Bool) : List Nat → List Nat
  | [] => []
  | a :: l => insertBy le a (sortBy le l)

/-- the term positions `0 … n-1` in the order of their parameter names:
    entry `j` is the position of the term whose column is the `j`-th of the design -/
def paramOrder (n : Nat) : List Nat := sortBy nameLe (List.range n)

/-- the column order of the source under test: by parameter *name* (`paramOrder`) or, once `_getdiff`
    sorts the coefficients by the position of their term, the order of the terms -/
def columnOrder (n : Nat) : List Nat := if Gen.designSortedByParamName then paramOrder n else List.range n

/-- `Formula.design(data, return_float=True)` as the *ordered* list of columns -/
def designOrdered (specs : List VarSpec) (rows : List (List Rat)) (f : Formula) : List (List Rat) :=
  (columnOrder f.terms.length).map (fun i => column specs rows (f.terms.getD i ⟨0, []⟩))

/-! ## The order of the terms of a product: `sorted(set(v), key=default_sort_key)`

sympy's sort key of a monomial `c · Π vᵢ^eᵢ` over Term / FactorTerm symbols, as far as the comparison
goes: numbers first, then powers of a single symbol, then proper products; a symbol factor compares by
(class name, printed name, exponent); products by number of factors, then factor by factor; the
coefficient decides last. -/

structure VarInfo where
  cls : Nat          -- 0 = 'FactorTerm', 1 = 'Term' (the class names compare as strings)
  name : String
deriving Repr

/-- (class, name, exponent) of one symbol factor -/
abbrev FKey := Nat × String × Nat

def cmpFKey (a b : FKey) : Ordering :=
  (compare a.1 b.1).then ((compare a.2.1 b.2.1).then (compare a.2.2 b.2.2))

/-- run-length encoding of a sorted variable list: (variable, exponent) -/
def groupVars : List Nat → List (Nat × Nat)
  | [] => []
  | v :: l =>
      match groupVars l with
      | (w, e) :: r => if w = v then (w, e + 1) :: r else (v, 1) :: (w, e) :: r
      | [] => [(v, 1)]

def insertFKey (a : FKey) : List FKey → List FKey
  | [] => [a]
  | b :: l => if cmpFKey a b != .gt then a :: b :: l else b :: insertFKey a l

def cmpFKeys : List FKey → List FKey → Ordering
  | [], [] => .eq
  | [], _ :: _ => .lt
  | _ :: _, [] => .gt
  | a :: l, b :: m => (cmpFKey a b).then (cmpFKeys l m)

/-- (shape, ordered factor keys, coefficient) -/
def monoKey (info : List VarInfo) (m : Mono) : Nat × List FKey × Rat :=
  let fs := (groupVars m.vars).map (fun (p : Nat × Nat) =>
    match info[p.1]? with
    | some vi => ((vi.cls, vi.name, p.2) : FKey)
    | none => ((2, "", p.2) : FKey))
  let fs := fs.foldr insertFKey []
  ((if fs.length = 0 then 1 else if fs.length = 1 then 2 else 3), fs, m.coeff)

def cmpRat (a b : Rat) : Ordering := if a < b then .lt else if b < a then .gt else .eq

def cmpMonoKey (a b : Nat × List FKey × Rat) : Ordering :=
  (compare a.1 b.1).then ((compare a.2.1.length b.2.1.length).then ((cmpFKeys a.2.1 b.2.1).then (cmpRat a.2.2 b.2.2)))

def insertMono (info : List VarInfo) (a : Mono) : List Mono → List Mono
  | [] => [a]
  | b :: l => if cmpMonoKey (monoKey info a) (monoKey info b) != .gt then a :: b :: l else b :: insertMono info a l

/-- `sorted(terms, key=default_sort_key)` -/
def sortMonos (info : List VarInfo) : List Mono → List Mono
  | [] => []
  | a :: l => insertMono info a (sortMonos info l)

/-- `Formula.__mul__` with the order of the result: `sorted(set(v), key=default_sort_key)` -/
def Formula.mulSorted (info : List VarInfo) (f g : Formula) : Formula :=
  if f.isFactor ∧ f.terms = g.terms then f else ⟨sortMonos info (dedup (products f.terms g.terms)), false⟩

def Formula.powSorted (info : List VarInfo) (f : Formula) : Nat → Formula
  | 0 => f
  | n + 1 => (Formula.powSorted info f n).mulSorted info f

/-- formula expressions evaluated with the term order the code produces -/
def FExpr.evalSorted (info : List VarInfo) : FExpr → Formula
  | .atom f => f
  | .add a b => (a.evalSorted info).add (b.evalSorted info)
  | .sub a b => (a.evalSorted info).sub (b.evalSorted info)
  | .mul a b => (a.evalSorted info).mulSorted info (b.evalSorted info)
  | .pow a n => (a.evalSorted info).powSorted info n

/-! ## Grid facts of `_eval_for` / `_conv_fx_gx` -/

/-- (number of samples of f, of g, first and last time of the convolution grid) -/
def convGridFacts (fa fb ga gb dt : Rat) : Option (Nat × Nat × Rat × Rat) :=
  let nf := (Gen.evalForSrc (fun _ => 0) fa fb dt).length
  let ng := (Gen.evalForSrc (fun _ => 0) ga gb dt).length
  match Gen.convFxGxSrc (List.replicate nf 0) (List.replicate ng 0) dt (min fa fb) (min ga gb) with
  | some (ts, _) => some (nf, ng, ts.headD 0, ts.getLastD 0)
  | none => none

/-! ## `lambdify`: implemented functions are looked up by *name*

sympy's `_imp_namespace` walks the applied functions of the expression and binds
`name ↦ implementation`; a name already bound to a different implementation is a
`ValueError` ("We found more than one implementation with name ...").  Names and
implementations are numbered (`(name, implementation)` pairs in visiting order). -/

def nsFind (k : Nat) : List (Nat × Nat) → Option Nat
  | [] => none
  | (k', v) :: l => if k' = k then some v else nsFind k l

def impNamespaceFrom (ns : List (Nat × Nat)) : List (Nat × Nat) → Option (List (Nat × Nat))
  | [] => some ns
  | e :: es =>
      match nsFind e.1 ns with
      | some i => if i = e.2 then impNamespaceFrom ns es else none
      | none => impNamespaceFrom (e :: ns) es

/-- the namespace `lambdify` evaluates the generated code in, or `none` (ValueError) -/
def impNamespace (es : List (Nat × Nat)) : Option (List (Nat × Nat)) := impNamespaceFrom [] es

/-- `Formula._setup_design` first renames every *distinct* implemented function to `__f%d__` with
    `%d` its index among the distinct functions met: the pairs lambdify then sees -/
def firstIndex (v : Nat) : List Nat → Nat
  | [] => 0
  | a :: l => if a = v then 0 else firstIndex v l + 1

def renamedPairs (es : List (Nat × Nat)) : List (Nat × Nat) :=
  let funcs := dedup ((es.map (·.2)).reverse)   -- order is irrelevant: any injective numbering
  es.map (fun e => (firstIndex e.2 funcs, e.2))

/-! ## `interp` / `linear_interp` with their optional arguments -/

/-- what `interp1d` does with the (`bounds_error`, `fill_value`) it is handed: `bounds_error=None`
    means True (no 'extrapolate' here); `fill_value` absent is NaN, which the model does not evaluate
    (`none`) -/
inductive Outside
  | raises              -- ValueError for a time outside the knots
  | fills (v : Rat)
  | nan
deriving DecidableEq, Repr

def outsidePolicy (be : Option Bool) (fv : Option Rat) : Outside :=
  match be with
  | some false => match fv with
      | some v => .fills v
      | none => .nan
  | _ => .raises

/-- `interp(times, values, fill, bounds_error=be, fill_value=fv)`: refusal or the policy outside -/
def interpPolicy (fill : Option Rat) (be : Option Bool) (fv : Option Rat) : Except Unit Outside :=
  match fill with
  | some f =>
      if be = some true then .error ()
      else if fv ≠ none ∧ fv ≠ some f then .error ()
      else .ok (.fills f)
  | none => .ok (outsidePolicy be fv)

/-- `linear_interp(..., kind=k)`: only `kind` absent or 'linear' -/
def linearInterpPolicy (kind : Option String) (fill : Option Rat) (be : Option Bool) (fv : Option Rat) :
    Except Unit Outside :=
  if kind = none ∨ kind = some "linear" then interpPolicy fill be fv else .error ()

/-- values at the query times under a policy; `none` = ValueError (bounds), NaN is not evaluated -/
def evalOutside (o : Outside) (ts ys q : List Rat) : Option (List Rat) :=
  match o with
  | .raises => q.mapM (interpSeg ts ys)
  | .fills v => some (q.map (interpVal v ts ys))
  | .nan => q.mapM (interpSeg ts ys)      -- only asked inside the knots

def pOptBool : P (Option Bool) := do
  let t ← pTok
  if t = "none" then pure none else if t = "1" then pure (some true) else if t = "0" then pure (some false) else failure

/-! ## Line protocol -/

def runA : Toks → String
  | "dorder" :: rest =>
      match runP pNat rest with
      | some n => fmtNats (columnOrder n)
      | none => "bad-op"
  | "designo" :: rest =>
      match runP (do let f ← pFormula; let s ← pList pVarSpec; let rows ← pMat; pure (f, s, rows)) rest with
      | some (f, s, rows) => if f.terms.isEmpty then "error" else fmtCols (designOrdered s rows f)
      | none => "bad-op"
  | "convsrc" :: rest =>
      match runP (do let f ← pTFn; let g ← pTFn; let fa ← pRat; let fb ← pRat; let ga ← pRat; let gb ← pRat
                     let dt ← pRat; let fill ← pRat; let q ← pList pRat
                     pure (f, g, fa, fb, ga, gb, dt, fill, q)) rest with
      | some (f, g, fa, fb, ga, gb, dt, fill, q) =>
          if dt ≤ 0 then "bad-op"
          else match q.mapM (Gen.convolveFunctionsSrc f.eval g.eval fa fb ga gb dt fill) with
            | some l => fmtRats l
            | none => "error:valueError"
      | none => "bad-op"
  | "tcsrc" :: rest =>
      -- kernel, its support, delta, fill; then the function convolved with it and its interval
      match runP (do let k ← pTFn; let g ← pTFn; let sa ← pRat; let sb ← pRat; let ga ← pRat; let gb ← pRat
                     let dt ← pRat; let fill ← pRat; let q ← pList pRat
                     pure (k, g, sa, sb, ga, gb, dt, fill, q)) rest with
      | some (k, g, sa, sb, ga, gb, dt, fill, q) =>
          if dt ≤ 0 then "bad-op"
          else match q.mapM (Gen.timeConvolverSrc k.eval g.eval sa sb dt fill ga gb) with
            | some l => fmtRats l
            | none => "error:valueError"
      | none => "bad-op"
  | "termsord" :: rest =>
      -- names table (class, =name per variable), expression: the terms in the order the code lists them, and
      -- the design columns in the order of the design (both orders modelled)
      match runP (do let info ← pList (do let c ← pNat; let n ← pStr; pure (⟨c, n⟩ : VarInfo))
                     let e ← pFExpr rest.length; pure (info, e)) rest with
      | some (info, e) =>
          let f := e.evalSorted info
          (if f.isFactor then "F " else "f ") ++ fmtTerms f.terms
      | none => "bad-op"
  | "designx" :: rest =>
      -- from the expression alone: term order as sympy sorts products, then the column order of the design
      match runP (do let info ← pList (do let c ← pNat; let n ← pStr; pure (⟨c, n⟩ : VarInfo))
                     let e ← pFExpr rest.length; let s ← pList pVarSpec; let rows ← pMat
                     pure (info, e, s, rows)) rest with
      | some (info, e, s, rows) =>
          let f := e.evalSorted info
          if f.terms.isEmpty then "error" else fmtCols (designOrdered s rows f)
      | none => "bad-op"
  | "interpkw" :: rest =>
      -- linear? kind (none | linear | other) fill bounds_error fill_value times values queries; the guards run
      -- are the ones regenerated from the source
      match runP (do let lin ← pBool; let kind ← pTok; let fill ← pOptRat; let be ← pOptBool; let fv ← pOptRat
                     let ts ← pList pRat; let ys ← pList pRat; let q ← pList pRat
                     pure (lin, kind, fill, be, fv, ts, ys, q)) rest with
      | some (lin, kind, fill, be, fv, ts, ys, q) =>
          let k : Option String := if kind = "none" then none else some kind
          let kindOk : Bool := if lin then (match Gen.linearKindGuardSrc k with | .ok _ => true | .error _ => false) else true
          if !kindOk then "error:valueError"
          else match Gen.interpGuardSrc fill be fv with
            | .error _ => "error:valueError"
            | .ok (be', fv') =>
                if ts.length ≠ ys.length ∨ ts.length < 1 then "error:valueError"
                else match evalOutside (outsidePolicy be' fv') ts ys q with
                  | some l => fmtRats l
                  | none => "error:valueError"
      | none => "bad-op"
  | "lambns" :: rest =>
      match runP (pList (do let k ← pNat; let v ← pNat; pure (k, v))) rest with
      | some es =>
          (if (impNamespace es).isSome then "ok" else "error:valueError") ++ " " ++
          (if (impNamespace (renamedPairs es)).isSome then "ok" else "error:valueError")
      | none => "bad-op"
  | "convgrid" :: rest =>
      match runP (do let fa ← pRat; let fb ← pRat; let ga ← pRat; let gb ← pRat; let dt ← pRat
                     pure (fa, fb, ga, gb, dt)) rest with
      | some (fa, fb, ga, gb, dt) =>
          if dt ≤ 0 then "bad-op"
          else match convGridFacts fa fb ga gb dt with
            | some (nf, ng, t0, t1) => toString nf ++ " " ++ toString ng ++ " " ++ fmtRat t0 ++ " " ++ fmtRat t1
            | none => "error:valueError"
      | none => "bad-op"
  | "evstep" :: rest =>
      -- `events` and `step_function` folded with the loop bodies regenerated from the source
      match runP (do let evs ← pList pEv; let c ← pBool; let k ← pList pRat; let g ← pList pRat
                     let q ← pList pRat; pure (evs, c, k, g, q)) rest with
      | some (evs, c, k, g, q) =>
          fmtRats (q.map (fun t => evs.foldl (fun e ev =>
            Gen.eventsStepSrc (kernelVal c k) (polyEval g) t e ev.time ev.amp) Gen.eventsInitSrc))
      | none => "bad-op"
  | "stepsrc" :: rest =>
      match runP (do let fill ← pRat; let tv ← pList pPair; let q ← pList pRat
                     pure (fill, tv, q)) rest with
      | some (fill, tv, q) =>
          fmtRats (q.map (fun x => tv.foldl (fun f p => Gen.stepUpdateSrc x f p.1 p.2) (Gen.stepInitSrc fill)))
      | none => "bad-op"
  | ts => runC ts

end NipyVerif.C10
