/-
C04 (wave 3) — further parts of the resampling pipelines:

* `registration.resample` on images `as_xyz_image` has to re-order (world axes listed in another
  order than x, y, z; array axes re-ordered to follow): `Vol.asXyz`, line kinds `asxyz`, `regx`
* 4-D realignment with time interpolation: `interp_slice_times`, `Image4d.z_to_slice`,
  `scanner_time`, `cubic_spline_sample4d`; `Realign4dAlgorithm` as a state machine
  (`resample(t)` / `set_transform` / caller edits of a transform): line kinds `stime`, `cs4`,
  `cs4lookup`, `alghist`
* `ImageInterpolator` as a state machine (knots are a snapshot; `cval` edits): `ihist`
* `algorithms.resample.resample` between spaces of different dimension (`resamplek`)
* `VolumeImg` crops / pads / 4-D data (`volhist`)
-/
import NipyVerif.Model.C04
namespace NipyVerif.C04

/-! ### `as_xyz_image` on 3-D images -/

def finOfNat3 (k : Nat) : Fin 3 := ⟨k % 3, Nat.mod_lt _ (by decide)⟩

/-- the map `j ↦ l[j]` of a list of three axis numbers -/
def permOfList (l : List Nat) : Fin 3 → Fin 3 :=
  let a := l.toArray
  fun j => finOfNat3 (a.getD j.val 0)

def isPerm3 (f : Fin 3 → Fin 3) : Bool :=
  (List.finRange 3).all (fun i => (List.finRange 3).any (fun j => decide (f j = i)))

/-- `argsort` of a permutation of `0, 1, 2`: position of each value -/
def invPerm3 (f : Fin 3 → Fin 3) : Fin 3 → Fin 3 :=
  fun i => if f 0 = i then 0 else if f 1 = i then 1 else 2

def isIdent3 (f : Fin 3 → Fin 3) : Bool := (List.finRange 3).all (fun i => decide (f i = i))

/-- `reordered_reference(wo)` then `reordered_axes(ao)`: world coordinate `i` of the new image is
    the old coordinate `wo i`, array axis `j` of the new image is the old axis `ao j`
    (`np.transpose(data, ao)`; `aoInv` is the inverse permutation) -/
def Vol.reorder (v : Vol) (wo ao aoInv : Fin 3 → Fin 3) : Vol :=
  ⟨⟨fun j => v.g.shape (ao j), fun p => v.g.val (fun i => p (aoInv i))⟩,
   ⟨fun i j => v.aff.A (wo i) (ao j), fun i => v.aff.b (wo i)⟩⟩

/-- `as_xyz_image`: `codes i` is the letter (0 = x, 1 = y, 2 = z) of the `i`-th listed world
    name.  Names already in the order x, y, z: the image is returned unchanged (`xyz_affine`
    succeeds).  Otherwise the world coordinates are put in the order `xyz_order` = argsort of
    the codes, and the array axes in the order `ao` = argsort of `io_orientation` (a parameter
    of the model: any permutation keeps every sample at its world position). -/
def Vol.asXyz (v : Vol) (codes ao : Fin 3 → Fin 3) : Vol :=
  if isIdent3 codes then v else v.reorder (invPerm3 codes) ao (invPerm3 ao)

/-- the same on a bare array / shape (what `pTaskG` needs) -/
def gridAsXyz (codes ao : Fin 3 → Fin 3) (g : Grid 3) : Grid 3 :=
  (Vol.asXyz ⟨g, Aff.ident 3⟩ codes ao).g

def shapeAsXyz (codes ao : Fin 3 → Fin 3) (sh : List Nat) : List Nat :=
  if isIdent3 codes then sh else
    let a := sh.toArray
    List.ofFn (fun (j : Fin 3) => a.getD (ao j).val 0)

/-- `Tv` of `registration.resample` when the moving and the reference image are handed over
    with re-ordered axes: both go through `as_xyz_image` first (`movInv` is the inverse of the
    affine of `as_xyz_image(moving)`) -/
def regMapX (ref : Vol) (cr ar : Fin 3 → Fin 3) (movInv T : Aff 3 3) (movVox refVox : Bool) :
    Aff 3 3 :=
  regMap movInv T (ref.asXyz cr ar).aff movVox refVox

def pPerm3 : P (Fin 3 → Fin 3) := do
  let l ← pMany pNat 3
  let f := permOfList l
  if isPerm3 f ∧ l.all (· < 3) then pure f else failure

def fmtVol (w : Vol) : String :=
  let sh := List.ofFn w.g.shape
  fmtAff w.aff ++ " | " ++ fmtNats sh ++ " | " ++ fmtRats ((allIdx sh).map (fun v => w.g.val (idxFn 3 v)))

/-- `asxyz c0 c1 c2 a0 a1 a2 <aff 3x4> <grid 3>`: affine, shape, data of `as_xyz_image(img)` -/
def runAsXyz : P String := do
  let codes ← pPerm3; let ao ← pPerm3
  let aff ← pAff 3 3
  let g ← pGrid 3
  pure (fmtVol (Vol.asXyz ⟨g, aff⟩ codes ao))

/-- `regx <codes_m> <ao_m> <raw mov aff> <inverse of the xyz-level mov aff> <codes_r> <ao_r>
    <raw ref aff> <T> movVox refVox isAff order mode cval <task on the raw arrays>` -/
def runRegX : P String := do
  let cm ← pPerm3; let am ← pPerm3
  let movRaw ← pAff 3 3; let movInv ← pAff 3 3
  let cr ← pPerm3; let ar ← pPerm3
  let refRaw ← pAff 3 3
  let T ← pAff 3 3
  let movVox ← pBool; let refVox ← pBool; let isAff ← pBool
  let order ← pNat; let mode ← pTok; let cval ← pRat
  let task ← pTaskG 3 3 (if useCspline order mode cval then .regFast else .regNdimage)
    (gridAsXyz cm am) (shapeAsXyz cr ar)
  let g0 : Grid 3 := ⟨fun _ => 1, fun _ => 0⟩
  let mov := (Vol.asXyz ⟨g0, movRaw⟩ cm am).aff
  pure (fmtExc (do
    checkInv movInv mov
    pure (regRoutine isAff order mode cval ++ " " ++
      task (regMapX ⟨g0, refRaw⟩ cr ar movInv T movVox refVox))))

/-! ### 4-D realignment: slice timing and the 4-D sampler -/

/-- `interp_slice_times(Z, slice_times, tr)`: `aux = slice_times ++ [slice_times[0] + tr]`,
    `Zf = floor Z`, `w = Z - Zf`, `Zal = Zf mod nslices`,
    `(1 - w)·aux[Zal] + w·aux[Zal + 1] + (Z - (Zal + w))` -/
def interpSliceTimes (st : Array Rat) (tr : Rat) (Z : Rat) : Rat :=
  let n := st.size
  let aux : Nat → Rat := fun k => if k < n then st.getD k 0 else st.getD 0 0 + tr
  let Zf := Z.floor
  let w := Z - (Zf : Rat)
  let Zal := (Zf % (n : Int)).toNat
  (1 - w) * aux Zal + w * aux (Zal + 1) + ((Zf : Rat) - ((Zal : Int) : Rat))

/-- `Image4d.z_to_slice` -/
def zToSlice (nslices : Nat) (dir : Int) (z : Rat) : Rat :=
  if dir < 0 then ((nslices : Int) : Rat) - 1 - z else z

/-- `Image4d.scanner_time(zv, t)` = `(t - interp_slice_times(z_to_slice(zv))) / tr` -/
def scannerTime (st : Array Rat) (tr : Rat) (dir : Int) (zv t : Rat) : Rat :=
  (t - interpSliceTimes st tr (zToSlice st.size dir zv)) / tr

/-- the four grid coordinates `Realign4dAlgorithm.resample(t)` hands to the sampler for the
    working-grid point `v` with time interpolation: `(X, Y, Z) = M v` with
    `M = realignMap inv_affine T_t affine`, `T = scanner_time(S, tr · t)` where `S` is the
    coordinate along the slice axis `ax` of the array (`slice_info[0]`) -/
def realign4Coords (M : Aff 3 3) (st : Array Rat) (tr : Rat) (dir : Int) (ax : Fin 3) (t : Nat)
    (v : Fin 3 → Int) : Fin 4 → Rat :=
  let x := M.apply (castPt v)
  fun i => if h : i.val < 3 then x ⟨i.val, h⟩ else scannerTime st tr dir (x ax) (tr * ((t : Int) : Rat))

/-- `cubic_spline_sample4d`: the separable application along x, y, z, t -/
def csSample4 (c23 : Rat) (mx my mz mt dx dy dz dt : Nat) (coef : Nat → Nat → Nat → Nat → Rat)
    (x y z t : Rat) : Rat :=
  csSample1 c23 mt dt (fun l => csSample3 c23 mx my mz dx dy dz (fun i j k => coef i j k l) x y z) t

def optSample4 (s : Nat → Nat → Nat → Nat → Rat) : Option Nat → Option Nat → Option Nat → Option Nat → Rat
  | some i, some j, some k, some l => s i j k l
  | _, _, _, _ => 0

/-- `coef` is the 4-D cubic B-spline coefficient array of `s` -/
def IsSplineCoef4 (dx dy dz dt : Nat) (coef s : Nat → Nat → Nat → Nat → Rat) : Prop :=
  ∀ i j k l, i ≤ dx → j ≤ dy → k ≤ dz → l ≤ dt →
    csTap dt (fun l' => csTap dz (fun k' => csTap dy (fun j' => csTap dx (fun i' => coef i' j' k' l') i) j) k) l
      = s i j k l

/-- `stime <dir> <tr> <n> st₁ … st_n <k> z₁ … z_k <m> t₁ … t_m`:
    `scanner_time(z, t)` for every pair -/
def runSTime : P String := do
  let dir ← pInt; let tr ← pRat
  let st ← pList pRat
  let zs ← pList pRat
  let ts ← pList pRat
  pure (if st.isEmpty ∨ tr = 0 then "error:valueError" else
    fmtRats (zs.flatMap (fun z => ts.map (fun t => scannerTime st.toArray tr dir z t))))

/-- `cs4 <mx my mz mt> <d0 d1 d2 d3> <coef…> <k> x y z t …`: the 4-D sampler on explicit
    coefficients (C constant for 2/3) -/
def runCs4 : P String := do
  let ms ← pMany pNat 4
  let ds ← pMany pNat 4
  let flat ← pMany pRat (ds.foldl (· * ·) 1)
  let pts ← pList (pMany pRat 4)
  let arr := flat.toArray
  let d := ds.toArray; let m := ms.toArray
  let d0 := d.getD 0 0; let d1 := d.getD 1 0; let d2 := d.getD 2 0; let d3 := d.getD 3 0
  let coef : Nat → Nat → Nat → Nat → Rat := fun i j k l => arr.getD (((i * d1 + j) * d2 + k) * d3 + l) 0
  pure (if ds.any (· = 0) ∨ ms.any (2 < ·) then "error:valueError" else
    fmtRats (pts.map (fun p =>
      let a := p.toArray
      csSample4 c23C (m.getD 0 0) (m.getD 1 0) (m.getD 2 0) (m.getD 3 0) (d0 - 1) (d1 - 1) (d2 - 1) (d3 - 1) coef
        (a.getD 0 0) (a.getD 1 0) (a.getD 2 0) (a.getD 3 0))))

/-- `realign4 <affInv> <aff> <T> <dir> <ax> <tr> <n> st… <t> <mt> <d0 d1 d2 d3> <data…> <k> v…`:
    coordinates handed to the 4-D sampler for the grid points `v` and, where all four are grid
    coordinates, the sample the boundary modes (`reflect` in space, `mt` in time) designate -/
def runRealign4 : P String := do
  let affInv ← pAff 3 3; let aff ← pAff 3 3; let T ← pAff 3 3
  let dir ← pInt; let axn ← pNat; let tr ← pRat
  let st ← pList pRat
  let t ← pNat; let mt ← pNat
  let ds ← pMany pNat 4
  let flat ← pMany pRat (ds.foldl (· * ·) 1)
  let pts ← pList (pMany pInt 3)
  let arr := flat.toArray
  let d := ds.toArray
  let d0 := d.getD 0 0; let d1 := d.getD 1 0; let d2 := d.getD 2 0; let d3 := d.getD 3 0
  let s : Nat → Nat → Nat → Nat → Rat := fun i j k l => arr.getD (((i * d1 + j) * d2 + k) * d3 + l) 0
  pure (fmtExc (do
    checkInv affInv aff
    if st.isEmpty ∨ tr = 0 ∨ ds.any (· = 0) ∨ 2 < axn then throw "error:valueError"
    let M := (realignMap affInv T aff).freeze
    let sta := st.toArray
    let out := pts.map (fun p =>
      let x := realign4Coords M sta tr dir (finOfNat3 axn) t (idxFn 3 p)
      let cs := fmtRats (List.ofFn x)
      let v := match ratInt? (x 0), ratInt? (x 1), ratInt? (x 2), ratInt? (x 3) with
        | some a, some b, some c, some e =>
          fmtRat (optSample4 s (csExtIndex 2 (d0 - 1) a) (csExtIndex 2 (d1 - 1) b) (csExtIndex 2 (d2 - 1) c)
            (csExtIndex mt (d3 - 1) e))
        | _, _, _, _ => "x"
      cs ++ " " ++ v)
    pure (" | ".intercalate out)))

/-! ### `Realign4dAlgorithm` as a state machine -/

/-- operations on one algorithm object: `resample(t)`; `set_transform(t, ·)` (new transform with
    identifier `id`, then `resample(t)`); an edit of `transforms[t]` by the caller (no resampling) -/
inductive AlgOp
  | resample (t : Nat)
  | setTransform (t : Nat) (id : Nat)
  | edit (t : Nat) (id : Nat)
deriving Repr

/-- per scan: the identifier of the current transform and of the transform the column of the
    working array `data[:, t]` was sampled with (`none`: never resampled, the column is zero) -/
structure AlgState where
  cur : Nat → Nat
  col : Nat → Option Nat

def AlgState.init : AlgState := ⟨fun _ => 0, fun _ => none⟩

def AlgState.step (s : AlgState) : AlgOp → AlgState
  | .resample t => ⟨s.cur, fun u => if u = t then some (s.cur t) else s.col u⟩
  | .setTransform t id => ⟨fun u => if u = t then id else s.cur u, fun u => if u = t then some id else s.col u⟩
  | .edit t id => ⟨fun u => if u = t then id else s.cur u, s.col⟩

def AlgState.run (s : AlgState) (ops : List AlgOp) : AlgState := ops.foldl AlgState.step s

def pAlgOp : P AlgOp := do
  let k ← pTok
  match k with
  | "r" => do let t ← pNat; pure (.resample t)
  | "s" => do let t ← pNat; let id ← pNat; pure (.setTransform t id)
  | "e" => do let t ← pNat; let id ← pNat; pure (.edit t id)
  | _ => failure

/-- `alghist <nscans> <k> op…`: for every scan, the transform its column reflects (`z` = zero
    column) and whether that is the current transform (`=`) or an outdated one (`!`) -/
def runAlgHist : P String := do
  let nt ← pNat
  let ops ← pList pAlgOp
  let s := AlgState.init.run ops
  pure (" ".intercalate ((List.range nt).map (fun t =>
    match s.col t with
    | none => "z"
    | some id => toString id ++ (if id = s.cur t then "=" else "!"))))

/-! ### `ImageInterpolator` as a state machine -/

/-- the object: the image it points to (whose data the caller may edit), the snapshot of the image
    data its knots were computed from, the read-only `order` / `mode`, the fill value `cval` and
    the fill value that was baked into a `grid-constant` pre-pad -/
structure IState (n : Nat) where
  img : Grid n
  snap : Grid n
  order : Nat
  mode : String
  cval : Rat
  padCval : Rat

inductive IOp (n : Nat)
  | evaluate (pts : List (List Rat))
  | setCval (c : Rat)
  | editImage (g : Grid n)
  | setOrder (k : Nat)
  | setMode (m : String)

def IState.new {n : Nat} (img : Grid n) (order : Nat) (mode : String) (cval : Rat) : IState n :=
  ⟨img, img, order, mode, cval, cval⟩

/-- the knots depend on the fill value: `grid-constant` with a pre-pad -/
def IState.bakesCval {n : Nat} (s : IState n) : Bool :=
  decide (nPrepad s.order s.mode ≠ 0) && decide (s.mode = "grid-constant")

/-- one operation; `none` = refused (`AttributeError`: `order` and `mode` are read-only), the
    object is unchanged then.  The `cval` setter rebuilds the knots — from the image data as it
    is *now* — exactly when they depend on the fill value and the value changed. -/
def IState.step {n : Nat} (s : IState n) : IOp n → Option (IState n)
  | .evaluate _ => some s
  | .setCval c =>
    if s.bakesCval && decide (c ≠ s.cval) then some { s with cval := c, padCval := c, snap := s.img }
    else some { s with cval := c }
  | .editImage g => some { s with img := g }
  | .setOrder _ => none
  | .setMode _ => none

def IState.run {n : Nat} (s : IState n) (ops : List (IOp n)) : IState n :=
  ops.foldl (fun st op => (st.step op).getD st) s

/-- the knot array of the current state -/
def IState.knots {n : Nat} (s : IState n) : Grid n := C04.knots s.snap s.order s.mode s.padCval

/-- what `evaluate` returns at the world points `pts`, where the model makes a claim: coordinates
    handed to `map_coordinates`, shape of the knot array, and at lattice points the snapshot's
    sample / the boundary-extended snapshot (same rule as `interp`) -/
def IState.evalText {n : Nat} (s : IState n) (srcInv : Aff n n) (sdt : DType) (pts : List (List Rat)) :
    String :=
  match Mode.ofName? s.mode with
  | none => "error:valueError"
  | some m =>
    let pad := nPrepad s.order s.mode
    let gp := s.knots
    let g := s.snap
    let coords := pts.map (fun p => let a := p.toArray; evalCoords srcInv s.order s.mode (fun i => a.getD i 0))
    let shape := fmtNats (List.ofFn gp.shape)
    let cs := " ".intercalate (coords.map (fun c => fmtRats (List.ofFn c)))
    let vals := " ".intercalate (coords.map (fun c =>
      match latticePt? c with
      | some q =>
        let p : Fin n → Int := fun i => q i - (pad : Int)
        if g.insideB p then fmtRat (g.val p)
        else if pad = 0 then
          (if extExact m s.order then fmtRat (extValue m s.cval g p) else "x")
        else if s.padCval ≠ s.cval then "x"
        else if (List.finRange n).all (fun i => decide (4 ≤ q i) && decide (q i + 5 ≤ (gp.shape i : Int))) then
          fmtRat (extValue m s.cval g p)
        else "x"
      | none => "x"))
    (outDType .interpolator sdt none s.order).name ++ " | " ++ shape ++ " | " ++ cs ++ " | " ++ vals

def pIOp (n : Nat) (shape : List Nat) : P (IOp n) := do
  let k ← pTok
  match k with
  | "ev" => do let pts ← pList (pMany pRat n); pure (.evaluate pts)
  | "cv" => do let c ← pRat; pure (.setCval c)
  | "im" => do
      let flat ← pMany pRat (shape.foldl (· * ·) 1)
      pure (.editImage (gridOfFlat n shape flat.toArray))
  | "so" => do let o ← pNat; pure (.setOrder o)
  | "sm" => do let m ← pTok; pure (.setMode m)
  | _ => failure

/-- `ihist n <srcInv> <src> order mode sdt <grid> cval <k> op…`: one answer per operation,
    separated by ` ; ` -/
def runIHist : P String := do
  let n ← pNat
  let srcInv ← pAff n n; let src ← pAff n n
  let order ← pNat; let mode ← pTok
  let sdt ← pDType
  let sh ← pMany pNat n
  let flat ← pMany pRat (sh.foldl (· * ·) 1)
  let cval ← pRat
  let ops ← pList (pIOp n sh)
  pure (fmtExc (do
    checkInv srcInv src
    if !(flat.all sdt.representable) then throw "error:notRepresentable"
    if (Mode.ofName? mode).isNone then throw "error:valueError"
    let srcInv := srcInv.freeze
    let s0 := IState.new (gridOfFlat n sh flat.toArray) order mode cval
    let (_, outs) := ops.foldl (fun (acc : IState n × List String) op =>
      let (st, outs) := acc
      match st.step op with
      | none => (st, outs ++ ["error:attributeError"])
      | some st' =>
        match op with
        | .evaluate pts => (st', outs ++ [st'.evalText srcInv sdt pts])
        | _ => (st', outs ++ ["ok"])) (s0, [])
    pure (" ; ".intercalate outs)))

/-! ### `algorithms.resample.resample` between spaces of different dimension -/

/-- `TV2IV` when the image has `n` axes, the two worlds `n` and `m` coordinates and the target
    grid `k` axes: `image.coordmap.inverse ∘ mapping ∘ target` -/
def resampleMapG {n m k : Nat} (srcInv : Aff n n) (mapping : Aff n m) (tgt : Aff m k) : Aff n k :=
  srcInv.comp (mapping.comp tgt)

/-- the branch that computes the data: `ImageInterpolator` for a plain callable / non-affine
    `CoordinateMap`, and for a target grid with exactly one more axis than the image (whose
    `(n, n+1)` matrix `ndimage.affine_transform` would read as homogeneous); else
    `ndimage.affine_transform` -/
def resamplePathG (mk : MKind) (n k : Nat) : RPath :=
  if mk = .callable ∨ k = n + 1 then .interpolator else .affineTransform

def resampleInterpCoordsG {n m k : Nat} (srcInv : Aff n n) (mapping : Aff n m) (tgt : Aff m k)
    (order : Nat) (mode : String) (v : Fin k → Int) : Vec n :=
  evalCoords srcInv order mode (mapping.apply (tgt.apply (castPt v)))

/-- next token, not consumed -/
def pPeek : P String := fun ts => match ts with
  | t :: _ => some (t, ts)
  | [] => none

/-- `resamplek n m k <mkind> <srcInv> <src> <mapping n×(m+1)> <tgt m×(k+1)> <task>`; the extra
    task `coords <order> <mode> <tshape>` prints the coordinates handed to `map_coordinates` -/
def runResampleK : P String := do
  let n ← pNat; let m ← pNat; let k ← pNat
  let mk ← pMKind
  let srcInv ← pAff n n; let src ← pAff n n; let mapping ← pAff n m; let tgt ← pAff m k
  let path := resamplePathG mk n k
  let pre := match path with | .affineTransform => "affine_transform " | .interpolator => "interpolator "
  let t ← pPeek
  if t = "coords" then do
    let _ ← pTok
    let order ← pNat; let mode ← pTok
    let tsh ← pMany pNat k
    pure (fmtExc (do
      checkInv srcInv src
      let srcInv := srcInv.freeze
      pure (pre ++ " ".intercalate ((allIdx tsh).map (fun v =>
        fmtRats (List.ofFn (resampleInterpCoordsG srcInv mapping tgt order mode (idxFn k v))))))))
  else do
    let task ← pTask n k (entryOfPath path)
    pure (fmtExc (do
      checkInv srcInv src
      pure (pre ++ task (resampleMapG srcInv mapping tgt))))

/-- what `xyz_ordered` (no resampling) carries over besides data and affine: the image's
    interpolation (`_swapaxes` included) -/
def xyzCarriedInterpolation (interp : String) : String := interp

def runXyzAttr : P String := do
  let t ← pTok
  pure (if t = "nearest" ∨ t = "continuous" then xyzCarriedInterpolation t else "error:valueError")

def runC : Toks → String
  | op :: rest =>
    let p : Option (P String) := match op with
      | "asxyz" => some runAsXyz
      | "regx" => some runRegX
      | "stime" => some runSTime
      | "cs4" => some runCs4
      | "realign4" => some runRealign4
      | "alghist" => some runAlgHist
      | "ihist" => some runIHist
      | "resamplek" => some runResampleK
      | "xyzattr" => some runXyzAttr
      | _ => none
    match p with
    | some p => (runP p rest).getD "bad-op"
    | none => run (op :: rest)
  | [] => "bad-op"

end NipyVerif.C04
