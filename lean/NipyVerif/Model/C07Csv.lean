/-
C07 — model of the CSV text layer used by `DesignMatrix.write_csv` / `dmtx_from_csv` and by
`Paradigm.write_to_csv` / `load_paradigm_from_csv_file`: Python's `csv.writer` (QUOTE_MINIMAL,
doublequote, no escapechar, line terminator "\r\n") and the `csv.reader` state machine
(`Modules/_csv.c: parse_process_char`, non-strict) for a dialect
(delimiter, quotechar, doublequote, skipinitialspace) such as `csv.Sniffer().sniff` returns.
Fields are lists of characters.
-/
import NipyVerif.Model.Common
namespace NipyVerif.C07

structure Dialect where
  delim : Char
  quote : Char
  doublequote : Bool
  skipinitialspace : Bool
deriving Repr, DecidableEq

/-- the `excel` dialect `csv.writer(fid)` uses -/
def excel : Dialect := ⟨',', '"', true, false⟩

/-- characters of the writer's line terminator "\r\n" / the reader's line breaks -/
def isLineChar (c : Char) : Bool := c == '\r' || c == '\n'

/-! ### Writer -/

/-- QUOTE_MINIMAL: a field is quoted iff it contains the delimiter, the quote character or a
    character of the line terminator. -/
def needsQuote (d : Dialect) (f : List Char) : Bool :=
  f.any (fun c => c == d.delim || c == d.quote || isLineChar c)

/-- body of a quoted field: quote characters are doubled -/
def escapeBody (d : Dialect) : List Char → List Char
  | [] => []
  | c :: cs => if c == d.quote then c :: c :: escapeBody d cs else c :: escapeBody d cs

def fmtField (d : Dialect) (f : List Char) : List Char :=
  if needsQuote d f then d.quote :: (escapeBody d f ++ [d.quote]) else f

def joinFields (d : Dialect) : List (List Char) → List Char
  | [] => []
  | [f] => f
  | f :: g :: fs => f ++ d.delim :: joinFields d (g :: fs)

/-- `writer.writerow(fields)`: a record that is one empty field is written as `""`. -/
def fmtRow (d : Dialect) (fields : List (List Char)) : List Char :=
  (if fields = [[]] then [d.quote, d.quote] else joinFields d (fields.map (fmtField d)))
    ++ ['\r', '\n']

/-! ### Reader -/

inductive RState | startRecord | startField | inField | inQuoted | quoteInQuoted | eatCrnl
deriving Repr, DecidableEq

structure RS where
  st : RState
  /-- the field being read, reversed -/
  cur : List Char
  /-- the fields read so far, last first -/
  done : List (List Char)
deriving Repr

def RS.init : RS := ⟨.startRecord, [], []⟩

def RS.save (s : RS) (st : RState) : RS := ⟨st, [], s.cur.reverse :: s.done⟩
def RS.add (s : RS) (c : Char) (st : RState) : RS := ⟨st, c :: s.cur, s.done⟩

/-- `START_FIELD` on a character -/
def stepStartField (d : Dialect) (s : RS) (c : Char) : RS :=
  if isLineChar c then s.save .eatCrnl
  else if c == d.quote then { s with st := .inQuoted }
  else if c == ' ' && d.skipinitialspace then { s with st := .startField }
  else if c == d.delim then s.save .startField
  else s.add c .inField

/-- one character through `parse_process_char` -/
def stepChar (d : Dialect) (s : RS) (c : Char) : Except String RS :=
  match s.st with
  | .startRecord =>
      if isLineChar c then .ok { s with st := .eatCrnl } else .ok (stepStartField d s c)
  | .startField => .ok (stepStartField d s c)
  | .inField =>
      if isLineChar c then .ok (s.save .eatCrnl)
      else if c == d.delim then .ok (s.save .startField)
      else .ok (s.add c .inField)
  | .inQuoted =>
      if c == d.quote then
        .ok { s with st := if d.doublequote then .quoteInQuoted else .inField }
      else .ok (s.add c .inQuoted)
  | .quoteInQuoted =>
      if c == d.quote then .ok (s.add c .inQuoted)
      else if c == d.delim then .ok (s.save .startField)
      else if isLineChar c then .ok (s.save .eatCrnl)
      else .ok (s.add c .inField)
  | .eatCrnl =>
      if isLineChar c then .ok s
      else .error "error:csvError"   -- new-line character seen in unquoted field

/-- the end-of-line marker the reader feeds after the last physical line of the record -/
def finish (s : RS) : Except String (List (List Char)) :=
  match s.st with
  | .startRecord => .ok s.done.reverse
  | .eatCrnl => .ok s.done.reverse
  | .startField => .ok (s.save .startRecord).done.reverse
  | .inField => .ok (s.save .startRecord).done.reverse
  | .quoteInQuoted => .ok (s.save .startRecord).done.reverse
  | .inQuoted => .error "error:incomplete"   -- the record continues on the next line

def runChars (d : Dialect) (s : RS) (cs : List Char) : Except String RS :=
  cs.foldlM (stepChar d) s

/-- the fields of one record given as its raw text (terminator included) -/
def parseRecord (d : Dialect) (raw : List Char) : Except String (List (List Char)) :=
  match runChars d RS.init raw with
  | .ok s => finish s
  | .error e => .error e

/-! ### protocol spelling of strings: `u` followed by the code points, `.`-separated -/

def encodeStr (cs : List Char) : String :=
  "u" ++ ".".intercalate (cs.map (fun c => toString c.toNat))

def decodeStr (t : String) : Option (List Char) :=
  match t.toList with
  | 'u' :: rest =>
      if rest = [] then some []
      else ((String.ofList rest).splitOn ".").mapM (fun p => p.toNat?.map Char.ofNat)
  | _ => none

def pStr : P (List Char) := do
  let t ← pTok
  match decodeStr t with
  | some cs => pure cs
  | none => failure

def pDialect : P Dialect := do
  let dl ← pNat; let q ← pNat; let dq ← pBool; let sk ← pBool
  pure ⟨Char.ofNat dl, Char.ofNat q, dq, sk⟩

def runCsv : Toks → Option String
  | "csvw" :: rest =>
      -- delimiter code point, fields
      match runP (do let dl ← pNat; let fs ← pList pStr; pure (dl, fs)) rest with
      | some (dl, fs) => some (encodeStr (fmtRow { excel with delim := Char.ofNat dl } fs))
      | none => some "bad-op"
  | "csvr" :: rest =>
      match runP (do let d ← pDialect; let raw ← pStr; pure (d, raw)) rest with
      | some (d, raw) =>
          match parseRecord d raw with
          | .ok fs => some (" ".intercalate (toString fs.length :: fs.map encodeStr))
          | .error e => some e
      | none => some "bad-op"
  | _ => none

end NipyVerif.C07
