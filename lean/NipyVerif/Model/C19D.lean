/-
C19 (wave 3) — the parts of `nipy/algorithms/utils/pca.py` that the first model took as inputs,
the image front ends, and the pure parts of the diagnostics commands:

* `pca` in full: guards (`axis is None`, `rollaxis`, mask shape, design row counts), the design
  projectors (`design_keep`, `design_resid` with a *certified* pseudo-inverse: the Moore–Penrose
  equations are decided exactly), `project_resid`, the matrix handed to `svd`, the rank rule
  `(S / S.max() > tol_ratio).sum()`, `UX = U[:, :rank].T`, standardisation, the mask weights
  (`nan_to_num` for floating-point masks), `ncomp` as the slice `basis_vectors[:ncomp]`.
  `svd` / `sqrt` / `eigh` outputs are parameters; the model computes the exact residuals of their
  contracts (orthonormality, eigen-equations, `scale² · msq = 1`) — the certificates the theorems of
  `Props/C19D` take as hypotheses;
* `io_axis_indices`, `input_axis_index`, `orth_axes`, and with them the axis / name bookkeeping of
  `pca_image`, `time_slice_diffs_image`, `screens.screen`, `commands.parse_fname_axes`
  (`io_orientation` — the in→out axis pairing — is a parameter);
* `tsdiffplot.plot_tsdiffs`: the plotted series.
-/
import NipyVerif.Model.C19C
namespace NipyVerif.C19

/-! ## 1. Index-based matrix kit (entries by position; dimensions are explicit) -/

def rabs (x : Rat) : Rat := if x < 0 then -x else x

/-- entry `(i, j)`, `0` outside -/
def ent (m : Mat) (i j : Nat) : Rat := (m.getD i []).getD j 0

/-- `Σ_{k < n} f k` -/
def sumTo (n : Nat) (f : Nat → Rat) : Rat := ((List.range n).map f).sum

/-- the `r × c` table of `f` -/
def tab (r c : Nat) (f : Nat → Nat → Rat) : Mat :=
  (List.range r).map (fun i => (List.range c).map (fun j => f i j))

/-- `a · b` for `a : r × n`, `b : n × c` -/
def mulT (r n c : Nat) (a b : Mat) : Mat := tab r c (fun i j => sumTo n (fun k => ent a i k * ent b k j))
/-- the `r × c` transpose of `a : c × r` -/
def trT (r c : Nat) (a : Mat) : Mat := tab r c (fun i j => ent a j i)
def subT (r c : Nat) (a b : Mat) : Mat := tab r c (fun i j => ent a i j - ent b i j)
def idT (n : Nat) : Mat := tab n n (fun i j => if i = j then 1 else 0)

/-- largest absolute entry -/
def maxAbs (m : Mat) : Rat := (m.flatten.map rabs).foldl max 0

def width (m : Mat) : Nat := (m.headD []).length

/-! ## 2. `pca` in full -/

/-- `design_resid` : `'mean'`, `None`, or a matrix with the pseudo-inverse used for it -/
inductive ResidSpec
  | mean
  | none
  | mat (R P : Mat)

/-- `project_resid` once the projector `R · pinv(R)` is formed -/
inductive ResidOp
  | mean
  | none
  | proj (M : Mat)

/-- the four Moore–Penrose equations for `K : t × k`, `P : k × t`, decided exactly:
    `K P K = K`, `P K P = P`, `(K P)ᵀ = K P`, `(P K)ᵀ = P K` -/
def mpOK (t k : Nat) (K P : Mat) : Bool :=
  let KP := mulT t k t K P
  let PK := mulT k t k P K
  (mulT t t k KP K == tab t k (ent K)) && (mulT k k t PK P == tab k t (ent P)) &&
  (KP == trT t t KP) && (PK == trT k k PK)

def residOp (t : Nat) : ResidSpec → ResidOp
  | .mean => .mean
  | .none => .none
  | .mat R P => .proj (mulT t (width R) t R P)

/-- `project_resid(Y)` for one column `y` of length `t` -/
def residVec (t : Nat) (op : ResidOp) (y : List Rat) : List Rat :=
  match op with
  | .mean => let mu := y.sum / (t : Rat); y.map (fun x => x - mu)
  | .none => y
  | .proj M => (List.range t).map (fun i => y.getD i 0 - sumTo t (fun j => ent M i j * y.getD j 0))

/-- mean square of a series: `np.square(resid).sum(axis=0) / resid.shape[0]` -/
def msq (t : Nat) (r : List Rat) : Rat := (r.map (fun x => x * x)).sum / (t : Rat)

/-- `(S / S.max() > tol_ratio).sum()`; `0 / 0` is NaN and compares false -/
def rankOf (s : List Rat) (tol : Rat) : Nat :=
  let smax := s.foldl max (s.headD 0)
  if smax = 0 then 0 else (s.filter (fun x => decide (tol < x / smax))).length

/-- `seq[:n]` for a Python integer `n` -/
def pySliceTo (len : Nat) (n : Int) : Nat :=
  if 0 ≤ n then min n.toNat len else (((len : Int) + n).toNat)

/-- non-increasing and non-negative -/
def sortedDesc (s : List Rat) : Bool :=
  (List.zipWith (fun a b => decide (b ≤ a)) s s.tail).all id && s.all (fun x => decide (0 ≤ x))

/-- exact residuals of the contracts of the external numerics for one run -/
structure PcaCert where
  mpKeep : Bool      -- Moore–Penrose equations for (design_keep, its pinv)
  mpResid : Bool     -- … for (design_resid, its pinv)
  sSorted : Bool     -- singular values non-increasing, non-negative
  uOrtho : Rat       -- max |UX UXᵀ - 1|
  uEig : Rat         -- max |XZ XZᵀ U_r - U_r diag(S²)|
  scaleDev : Rat     -- max |scale² · msq - 1| (|scale| where msq = 0)
  vOrtho : Rat       -- max |Vsᵀ Vs - 1|
  eigDev : Rat       -- max |C Vs - Vs diag(D)|

structure PcaArgs where
  v : View
  axis : Option Int
  mask : Option (List Nat × List (Option Rat))    -- shape, entries in C order (`none` = NaN)
  ncomp : Option Int
  keep : Option (Mat × Mat)                       -- design_keep and its pinv
  resid : ResidSpec
  tol : Rat
  u : Mat                                          -- svd: U (t × t)
  s : List Rat                                     -- svd: S
  scale : Option (List Rat)                        -- 1 / rmse per voxel (rolled layout), if standardize
  d : List Rat                                     -- eigh: D
  vs : Mat                                         -- eigh: Vs

/-- the matrix `X` the data are projected onto (`np.eye` or `K · pinv(K)`) -/
def designX (t : Nat) : Option (Mat × Mat) → Mat
  | none => idT t
  | some (K, P) => mulT t (width K) t K P

/-- `XZ = project_resid(X)` (column by column) -/
def designXZ (t : Nat) (op : ResidOp) (X : Mat) : Mat :=
  let cols := (List.range t).map (fun j => residVec t op ((List.range t).map (fun i => ent X i j)))
  tab t t (fun i j => (cols.getD j []).getD i 0)

def chunk (V : Nat) : Nat → List Rat → Vol
  | 0, _ => []
  | S + 1, l => l.take V :: chunk V S (l.drop V)

/-- per-voxel deviation of the supplied scale from `1 / sqrt(msq)` -/
def scaleDevOf (t : Nat) (op : ResidOp) (vox : List (List Vox)) : Rat :=
  (vox.flatten.map (fun (v : Vox) =>
    let m := msq t (residVec t op v.1)
    if m ≤ 0 then rabs v.2 else rabs (v.2 * v.2 * m - 1))).foldl max 0

structure PcaFull where
  cert : PcaCert
  rank : Nat
  xz : Mat
  out : PcaOut

/-- `pca(data, axis, mask, ncomp, standardize, design_keep, design_resid, tol_ratio)` -/
def pcaFull (a : PcaArgs) : Except String PcaFull := do
  let axis ← match a.axis with
    | none => throw "error:valueError"
    | some x => pure x
  let nd := a.v.shape.length
  let p ← rollaxisPerm nd axis 0
  let w := a.v.transpose p
  let t := w.shape.headD 0
  match a.mask with
  | some (sh, _) => if sh ≠ w.shape.tail then throw "error:valueError"
  | none => pure ()
  -- design matrices with a wrong number of rows end in `np.dot` shape errors
  match a.keep with
  | some (K, _) => if K.length ≠ t then throw "error:valueError"
  | none => pure ()
  match a.resid with
  | .mat R _ => if R.length ≠ t then throw "error:valueError"
  | _ => pure ()
  let op := residOp t a.resid
  let xz := designXZ t op (designX t a.keep)
  let r := rankOf a.s a.tol
  let ux := tab r t (fun i k => ent a.u k i)
  let g := mulT t t t xz (trT t t xz)
  let S := w.shape.getD 1 0
  let V := prod (w.shape.drop 2)
  let sc := a.scale.map (chunk V S)
  let mk := a.mask.map (fun m => chunk V S (m.2.map (fun x => x.getD 0)))
  let ax : Int := if axis < 0 then axis + (nd : Int) else axis
  let q ← rollaxisPerm nd 0 (ax + 1)
  let nc := match a.ncomp with
    | none => r
    | some n => pySliceTo r n
  let out ← pcaOn a.v p q ux sc mk (fun _ => (a.d, a.vs)) nc ax.toNat
  let gu := mulT t t r g (tab t r (fun k i => ent a.u k i))
  let cv := mulT r r r out.cov a.vs
  let cert : PcaCert := {
    mpKeep := match a.keep with
      | none => true
      | some (K, P) => mpOK t (width K) K P
    mpResid := match a.resid with
      | .mat R P => mpOK t (width R) R P
      | _ => true
    sSorted := sortedDesc a.s
    uOrtho := maxAbs (subT r r (mulT r t r ux (trT t r ux)) (idT r))
    uEig := maxAbs (tab t r (fun k i => ent gu k i - a.s.getD i 0 * a.s.getD i 0 * ent a.u k i))
    scaleDev := match sc with
      | none => 0
      | some _ => scaleDevOf t op (voxels (gather w) S V sc none)
    vOrtho := maxAbs (subT r r (mulT r r r (trT r r a.vs) a.vs) (idT r))
    eigDev := maxAbs (tab r r (fun i j => ent cv i j - ent a.vs i j * a.d.getD j 0)) }
  pure { cert := cert, rank := r, xz := xz, out := out }

/-! ## 3. Axis identifiers of images -/

/-- what the front ends see of a coordinate map: axis names and the in→out pairing
    (`axmap(coordmap, 'in2out')`, i.e. `io_orientation` of the affine: a parameter) -/
structure CMapN where
  dom : List String
  rng : List String
  in2out : List (Option Nat)

inductive AxisId
  | idx (i : Int)
  | name (s : String)

/-- `axmap(coordmap, 'out2in')[o]` : `ornts.index(o) if o in ornts else None` -/
def out2in (cm : CMapN) (o : Nat) : Option Nat :=
  let k := cm.in2out.idxOf (some o)
  if k < cm.in2out.length then some k else none

/-- `io_axis_indices(coordmap, axis_id)` -/
def ioAxisIndices (cm : CMapN) : AxisId → Except String (Option Nat × Option Nat)
  | .idx i =>
      let j : Int := if 0 ≤ i then i else (cm.dom.length : Int) + i
      -- `axmap(...)[in_dim]` is a dict lookup
      if 0 ≤ j ∧ j < (cm.dom.length : Int) then .ok (some j.toNat, (cm.in2out.getD j.toNat none))
      else .error "error:keyError"
  | .name s =>
      if cm.dom.contains s then
        let i := cm.dom.idxOf s
        let o := cm.in2out.getD i none
        if cm.rng.contains s && o != some (cm.rng.idxOf s) then .error "error:axisError"
        else .ok (some i, o)
      else if cm.rng.contains s then
        let o := cm.rng.idxOf s
        .ok (out2in cm o, some o)
      else .error "error:axisError"

/-- `input_axis_index(coordmap, axis_id)` (an integer is only shifted, never range-checked) -/
def inputAxisIndex (cm : CMapN) : AxisId → Except String Int
  | .idx i => .ok (if i < 0 then (cm.dom.length : Int) + i else i)
  | .name s =>
      let inIn := cm.dom.contains s
      let inOut := cm.rng.contains s
      if !inIn && !inOut then .error "error:axisError"
      else if inIn then
        let i := cm.dom.idxOf s
        if !inOut then .ok i
        else if out2in cm (cm.rng.idxOf s) != some i then .error "error:axisError"
        else .ok i
      else match out2in cm (cm.rng.idxOf s) with
        | none => .error "error:axisError"
        | some i => .ok i

/-- `orth_axes(in_ax, out_ax, affine, allow_zero, tol)`; `aff` is `(nout+1) × (nin+1)` -/
def orthAxes (aff : Mat) (nout nin inAx outAx : Nat) (allowZero : Bool) (tol : Rat) : Bool :=
  let nz (o i : Nat) : Bool := decide (tol < rabs (ent aff o i))
  if !allowZero && !(nz outAx inAx) then false
  else (List.range nin).all (fun i => i == inAx || !(nz outAx i)) &&
       (List.range nout).all (fun o => o == outAx || !(nz o inAx))

/-- the axis order `rollimg(img, axis, start)` hands to `reordered_axes` (integer arguments) -/
def rollimgOrder (n : Nat) (axis start : Nat) : List Nat :=
  let order := (List.range n).erase axis
  let st := if axis < start then start - 1 else start
  order.insertIdx st axis

/-- `drop_io_dim(cm, axis_id)` : the names left (refusals included) -/
def dropIoDim (cm : CMapN) (aff : Mat) (tol : Rat) (ax : AxisId) :
    Except String (List String × List String) := do
  let (i, o) ← ioAxisIndices cm ax
  match i, o with
  | some i', some o' =>
      if !(orthAxes aff cm.rng.length cm.dom.length i' o' true tol) then throw "error:axisError"
  | _, _ => pure ()
  let d := match i with
    | some i' => cm.dom.eraseIdx i'
    | none => cm.dom
  let r := match o with
    | some o' => cm.rng.eraseIdx o'
    | none => cm.rng
  pure (d, r)

def pcaName : String := "PCA_components"

/-- domain names of the `basis_projections` image as `pca_image` builds them: `rollimg(img, axis)`,
    rename position 0, `rollimg(output_img, 0, in_ax + 1)` -/
def pcaImageDom (dom : List String) (i : Nat) : List String :=
  let n := dom.length
  let rolled := (rollimgOrder n i 0).map (fun k => dom.getD k "")
  let renamed := rolled.set 0 pcaName
  (rollimgOrder n 0 (i + 1)).map (fun k => renamed.getD k "")

/-- `pca_image(img, axis, mask)` up to the call of `pca` and the naming of the result:
    the input axis, and the domain / range names of the `basis_projections` image.
    `maskSimilar` : whether a mask image was given and its coordinate map is
    `similar_to` the dropped one (decided by the harness with the real `similar_to`). -/
def pcaImageAxes (cm : CMapN) (aff : Mat) (tol : Rat) (ax : AxisId) (maskSimilar : Option Bool) :
    Except String (Nat × List String × List String) := do
  let (i, o) ← ioAxisIndices cm ax
  match i, o with
  | some i', some o' =>
      if !(orthAxes aff cm.rng.length cm.dom.length i' o' true tol) then throw "error:axisError"
      let _ ← inputAxisIndex cm ax
      match maskSimilar with
      | some ok =>
          let _ ← dropIoDim cm aff tol ax
          if !ok then throw "error:valueError"
      | none => pure ()
      pure (i', pcaImageDom cm.dom i', cm.rng.set o' pcaName)
  | _, _ => throw "error:axisError"

/-- `time_slice_diffs_image(img, time_axis, slice_axis)` : the array axes handed to
    `time_slice_diffs` and the names of the two volume images -/
def tsdImageAxes (cm : CMapN) (aff : Mat) (tol : Rat) (ta sa : AxisId) :
    Except String (Nat × Nat × List String × List String) := do
  let (ti, to) ← ioAxisIndices cm ta
  match ti, to with
  | some ti', some _ =>
    let (si, so) ← ioAxisIndices cm sa
    match si, so with
    | some si', some _ =>
      let (d, r) ← dropIoDim cm aff tol ta
      let _ ← tsdAxes cm.dom.length ti' (some (si' : Int))
      pure (ti', si', d, r)
    | _, _ => throw "error:axisError"
  | _, _ => throw "error:axisError"

/-- positional guess of `screen` when no axis is named 'slice': `2 if time_axis == 3 else 3` -/
def screenGuess (t : Int) : Int := if t = 3 then 2 else 3

/-- `screens.screen(img4d, ncomp, time_axis, slice_axis)` : the axes used and the domain names of
    the summary images.  `nd` is `img4d.ndim`. -/
def screenAxes (cm : CMapN) (aff : Mat) (tol : Rat) (nd : Nat) (ta : AxisId) (sa : Option AxisId) :
    Except String (Int × Int × List String) := do
  if nd ≠ 4 then throw "error:valueError"
  let t ← inputAxisIndex cm ta
  let s ← match sa with
    | none => match inputAxisIndex cm (.name "slice") with
        | .ok i => pure i
        | .error _ => pure (screenGuess t)
    | some x => inputAxisIndex cm x
  let (d, _) ← dropIoDim cm aff tol (.idx t)
  -- np.mean(data, axis=t) : `t` is in range here (drop_io_dim looked it up)
  let _ ← pcaImageAxes cm aff tol (.idx t) none
  let _ ← tsdAxes nd t (some s)
  -- an out-of-range slice axis fails in the second rollaxis
  pure ((if t < 0 then t + 4 else t), s, d)

/-- `commands.parse_fname_axes` after the image is loaded: each argument is `None` or a
    string; strings that `int()` accepts become integers -/
def parseAxisArg (s : String) : AxisId :=
  match s.toInt? with
  | some i => .idx i
  | none => .name s

def parseFnameAxes (dom : List String) (isAnalyze : Bool) (nd : Nat) (ta sa : Option String) :
    Except String (AxisId × AxisId) :=
  let t := match ta with
    | none => AxisId.name "t"
    | some s => parseAxisArg s
  match sa with
  | some s => .ok (t, parseAxisArg s)
  | none =>
      if dom.contains "slice" then .ok (t, .name "slice")
      else if isAnalyze && nd == 4 then .ok (t, .idx 2)
      else .error "error:valueError"

/-! ## 4. `plot_tsdiffs` : the plotted series -/

structure TsdPlot where
  volVar : List Rat          -- volume_mean_diff2 / mean_means
  sliceVar : List Rat        -- scaled_slice_diff.ravel()
  sliceX : List Nat          -- X.T.ravel(): difference-image number of every scatter point
  sliceC : List Nat          -- Y.T.ravel(): slice number (colour) of every scatter point
  volMean : List Rat         -- volume_means / mean_means
  slMean : List Rat
  slMin : List Rat
  slMax : List Rat
  xmax : List Nat            -- right x-limit of the four panels: T-1, T-1, T, S+1

def column (m : List (List Rat)) (j : Nat) : List Rat := m.map (fun r => r.getD j 0)

def tsdPlot (volds : List Rat) (sliceds : List (List Rat)) (means : List Rat) : TsdPlot :=
  let mm := mean means
  let T := means.length
  let S := width sliceds
  let sc := sliceds.map (fun r => r.map (fun x => x / mm))
  let cols := (List.range S).map (column sc)
  { volVar := volds.map (fun x => x / mm)
    sliceVar := sc.flatten
    sliceX := (List.range sc.length).flatMap (fun t => List.replicate S t)
    sliceC := (List.range sc.length).flatMap (fun _ => List.range S)
    volMean := means.map (fun x => x / mm)
    slMean := cols.map mean
    slMin := cols.map lmin
    slMax := cols.map lmax
    xmax := [T - 1, T - 1, T, S + 1] }

/-! ## 5. Line protocol (wave 3) -/

def pOptRat : P (Option Rat) := do
  let t ← pTok
  if t = "nan" then pure none else
  match parseRat t with
  | some q => pure (some q)
  | none => failure

def pOpt {α} (p : P α) : P (Option α) := do
  let b ← pBool
  if b then (do let x ← p; pure (some x)) else pure none

def pResid : P ResidSpec := do
  let k ← pTok
  if k = "mean" then pure .mean
  else if k = "none" then pure .none
  else if k = "mat" then (do let r ← pMat; let p ← pMat; pure (.mat r p))
  else failure

def pAxisId : P AxisId := do
  let k ← pTok
  if k = "i" then (do let i ← pInt; pure (.idx i))
  else if k = "n" then (do let s ← pTok; pure (.name s))
  else failure

def pOptNat : P (Option Nat) := do
  let t ← pTok
  if t = "none" then pure none else
  match t.toNat? with
  | some n => pure (some n)
  | none => failure

/-- `nin nout dom… rng… in2out… aff tol` -/
def pCMap : P (CMapN × Mat × Rat) := do
  let nin ← pNat; let nout ← pNat
  let dom ← pMany pTok nin; let rng ← pMany pTok nout
  let io ← pMany pOptNat nin
  let aff ← pMat; let tol ← pRat
  pure ({ dom := dom, rng := rng, in2out := io }, aff, tol)

def fmtB (b : Bool) : String := if b then "1" else "0"

def fmtAxisId : AxisId → String
  | .idx i => "i " ++ toString i
  | .name s => "n " ++ s

def fmtCert (c : PcaCert) : String :=
  " ".intercalate [fmtB c.mpKeep, fmtB c.mpResid, fmtB c.sSorted, fmtRat c.uOrtho, fmtRat c.uEig,
    fmtRat c.scaleDev, fmtRat c.vOrtho, fmtRat c.eigDev]

def runD : Toks → String
  | "pcaf" :: rest =>
      match runP (do
          let v ← pView; let ax ← pOptInt
          let mk ← pOpt (do let sh ← pList pNat; let e ← pMany pOptRat (prod sh); pure (sh, e))
          let nc ← pOptInt
          let keep ← pOpt (do let k ← pMat; let p ← pMat; pure (k, p))
          let resid ← pResid; let tol ← pRat
          let u ← pMat; let s ← pList pRat
          let sc ← pOpt (pList pRat)
          let d ← pList pRat; let vs ← pMat
          pure ({ v := v, axis := ax, mask := mk, ncomp := nc, keep := keep, resid := resid, tol := tol,
                  u := u, s := s, scale := sc, d := d, vs := vs } : PcaArgs)) rest with
      | some a =>
          fmtExcept ((pcaFull a).map (fun f =>
            " | ".intercalate [fmtCert f.cert, toString f.rank, fmtMat f.xz, fmtMat f.out.cov,
              fmtRats f.out.pcnt, fmtMat f.out.bv, fmtNats f.out.projShape, fmtRats f.out.projFlat,
              toString f.out.axis]))
      | none => "bad-op"
  | "mpcheck" :: rest =>
      match runP (do let k ← pMat; let p ← pMat; pure (k, p)) rest with
      | some (k, p) => fmtB (mpOK k.length (width k) k p)
      | none => "bad-op"
  | "ioaxis" :: rest =>
      match runP (do let c ← pCMap; let a ← pAxisId; pure (c, a)) rest with
      | some ((cm, _, _), a) =>
          let f (o : Option Nat) : String := match o with | some k => toString k | none => "none"
          fmtExcept ((ioAxisIndices cm a).map (fun io => f io.1 ++ " " ++ f io.2)) ++ " | " ++
          fmtExcept ((inputAxisIndex cm a).map toString)
      | none => "bad-op"
  | "pcaimg" :: rest =>
      match runP (do let c ← pCMap; let a ← pAxisId; let m ← pOpt pBool; pure (c, a, m)) rest with
      | some ((cm, aff, tol), a, m) =>
          fmtExcept ((pcaImageAxes cm aff tol a m).map (fun r =>
            toString r.1 ++ " | " ++ " ".intercalate r.2.1 ++ " | " ++ " ".intercalate r.2.2))
      | none => "bad-op"
  | "tsdimg" :: rest =>
      match runP (do let c ← pCMap; let t ← pAxisId; let s ← pAxisId; pure (c, t, s)) rest with
      | some ((cm, aff, tol), t, s) =>
          fmtExcept ((tsdImageAxes cm aff tol t s).map (fun r =>
            toString r.1 ++ " " ++ toString r.2.1 ++ " | " ++ " ".intercalate r.2.2.1 ++ " | " ++
            " ".intercalate r.2.2.2))
      | none => "bad-op"
  | "screenax" :: rest =>
      match runP (do let c ← pCMap; let nd ← pNat; let t ← pAxisId; let s ← pOpt pAxisId
                     pure (c, nd, t, s)) rest with
      | some ((cm, aff, tol), nd, t, s) =>
          fmtExcept ((screenAxes cm aff tol nd t s).map (fun r =>
            toString r.1 ++ " " ++ toString r.2.1 ++ " | " ++ " ".intercalate r.2.2))
      | none => "bad-op"
  | "parseaxes" :: rest =>
      match runP (do let dom ← pList pTok; let an ← pBool; let nd ← pNat
                     let t ← pOpt pTok; let s ← pOpt pTok; pure (dom, an, nd, t, s)) rest with
      | some (dom, an, nd, t, s) =>
          fmtExcept ((parseFnameAxes dom an nd t s).map (fun r => fmtAxisId r.1 ++ " | " ++ fmtAxisId r.2))
      | none => "bad-op"
  | "tsdplot" :: rest =>
      match runP (do let v ← pView; let ta ← pInt; let sa ← pOptInt; pure (v, ta, sa)) rest with
      | some (v, ta, sa) =>
          fmtExcept ((tsd v ta sa).map (fun o =>
            let p := tsdPlot o.res.volds o.res.sliceds o.res.means
            " | ".intercalate [fmtRats p.volVar, fmtRats p.sliceVar, fmtNats p.sliceX, fmtNats p.sliceC,
              fmtRats p.volMean, fmtRats p.slMean, fmtRats p.slMin, fmtRats p.slMax, fmtNats p.xmax]))
      | none => "bad-op"
  | toks => runC toks

end NipyVerif.C19
