/-
C18 (extension) — further parts of nipy/algorithms/kernel_smooth.py and nipy/algorithms/fwhm.py:

* `smooth(inimage, clean, is_fft)`: `nan_to_num`, the pre-transformed input path (`is_fft=True`: the
  image data already is the transform of a buffer of the padded shape), the order of the refusals
  (shape mismatch → broadcast failure → unknown normalisation key);
* one filter object used for a *history* of operations (`smooth` on several stored images,
  re-assignment of `normalization`, `scale`, `location`, `fwhm`): a state machine whose state holds the
  caller's images, so that "smooth does not change the caller's data" is a statement about the model;
* the `cov` branch of `_normsq` as built (`np.dot(inv(chol), _X)` contracts with the second voxel axis);
* `_crop` on an arbitrary array with a tolerance; the norms table; the margins of the
  "away from the borders" clauses as computed numbers;
* fwhm.py: `Resels.wedge`, `fwhm2resel`, `resel2fwhm`, `integrate`, `_calc_detlam`, refusals of `ReselImage`.

External numerics (parameters): FFT (a pre-transformed image is represented by the buffer it is the
transform of), `exp`, `sqrt(8 log 2)`, `sqrt(4 log 2)`, D-th roots.
-/
import NipyVerif.Model.C18
namespace NipyVerif.C18

/-! ### image values with NaN / ±inf, `np.nan_to_num` -/

inductive Ext where
  | fin (r : Rat)
  | nan
  | pinf
  | ninf
deriving Repr, DecidableEq, Inhabited

/-- largest binary64 number `(2 - 2^-52)·2^1023` -/
def maxFloat : Rat := ((2 ^ 1024 - 2 ^ 971 : Nat) : Rat)

/-- `np.nan_to_num`: NaN ↦ 0, ±inf ↦ ±largest float, finite values unchanged -/
def Ext.clean : Ext → Ext
  | .fin r => .fin r
  | .nan => .fin 0
  | .pinf => .fin maxFloat
  | .ninf => .fin (-maxFloat)

def Ext.finite : Ext → Bool
  | .fin _ => true
  | _ => false

/-- finite and strictly inside the binary64 range (the float FFT may overflow otherwise) -/
def Ext.tame : Ext → Bool
  | .fin r => decide (-maxFloat < r ∧ r < maxFloat)
  | _ => false

def Ext.val : Ext → Rat
  | .fin r => r
  | _ => 0

def pExt : P Ext := do
  let t ← pTok
  if t = "nan" then pure .nan
  else if t = "inf" then pure .pinf
  else if t = "-inf" then pure .ninf
  else match parseRat t with
    | some r => pure (.fin r)
    | none => failure

def extImg (s : Sh) (a : Array Ext) : Img := fun i j k =>
  if i < s.n0 ∧ j < s.n1 ∧ k < s.n2 then (a.getD ((i * s.n1 + j) * s.n2 + k) (.fin 0)).val else 0

/-! ### `smooth(..., is_fft=True)` -/

/-- `smooth` on pre-transformed data: `buf` is the buffer (of the padded shape) whose transform the image
    holds; no zero padding step, then as `smoothCirc`. -/
def smoothBuf (F : Filter) (buf : Img) : Img := fun i0 i1 i2 =>
  F.scale * (circConv (padShape F.bshape F.kshape) buf (pad F.kshape F.ker)
      (i0 + F.off.n0) (i1 + F.off.n1) (i2 + F.off.n2) / F.norm) + F.loc

/-! ### a filter object and the caller's images: operation histories -/

inductive Stored where
  | spatial (v : Array Ext)       -- an image on the grid
  | pre (b : Array Rat)           -- pre-transformed: the buffer (padded shape) it is the transform of

inductive Op where
  | smooth (i : Nat) (clean isfft : Bool)
  | setNorm (key : String)
  | setScale (r : Rat)
  | setLoc (r : Rat)
  | setFwhm (r : Rat)

inductive Out where
  | vals (l : List Rat)
  | nonfinite          -- NaN/inf reached the FFT: no finite output
  | unspecified        -- outside what is modelled (float overflow, accidental broadcasting)
  | err (s : String)
  | unit
deriving DecidableEq

structure FState where
  bshape : Sh
  kshape : Sh
  ker : Img
  off : Sh
  l2 : Rat              -- `norms['l2']` (square root: external)
  normKey : String      -- `self.normalization`
  scale : Rat
  loc : Rat
  fwhm : Rat            -- the attribute; the kernel was fixed by `__init__`
  imgs : List Stored    -- the caller's images

def l1Norm (k : Sh) (K : Img) : Rat := sum3 k fun a b c => if K a b c < 0 then -K a b c else K a b c

/-- `self.norms[self.normalization]` -/
def FState.norm? (s : FState) : Option Rat :=
  if s.normKey = "l1sum" then some (kerSum s.kshape s.ker)
  else if s.normKey = "l1" then some (l1Norm s.kshape s.ker)
  else if s.normKey = "l2" then some s.l2
  else none

def FState.filter (s : FState) (nv : Rat) : Filter :=
  ⟨s.bshape, s.kshape, s.ker, s.off, nv, s.scale, s.loc⟩

/-- what `smooth(imgs[i], clean, is_fft)` returns, in the order the code reaches its failures -/
def smoothOut (s : FState) (i : Nat) (clean isfft : Bool) : Out :=
  match s.imgs[i]? with
  | none => .err "bad-op"
  | some (.spatial v) =>
    if isfft then
      -- `data * self.fkernel`: grid-shaped data against the half-spectrum shape
      if s.bshape = ⟨1, 1, 1⟩ then .unspecified else .err "error:valueError"
    else
      let w := if clean then v.map Ext.clean else v
      match s.norm? with
      | none => .err "error:keyError"
      | some nv =>
        if w.toList.all Ext.finite then
          if w.toList.all Ext.tame then
            .vals (toList s.bshape (smoothLin (s.filter nv) (extImg s.bshape w)))
          else .unspecified
        else .nonfinite
  | some (.pre b) =>
    if !isfft then .err "error:valueError"     -- `_presmooth`: spectrum-shaped data into the grid slot
    else
      match s.norm? with
      | none => .err "error:keyError"
      | some nv =>
        .vals (toList s.bshape (smoothBuf (s.filter nv) (imgOfArr (padShape s.bshape s.kshape) b)))

/-- one operation on the filter object: new state and what the caller sees -/
def step (s : FState) : Op → FState × Out
  | .smooth i c f => (s, smoothOut s i c f)
  | .setNorm k => ({ s with normKey := k }, .unit)
  | .setScale r => ({ s with scale := r }, .unit)
  | .setLoc r => ({ s with loc := r }, .unit)
  | .setFwhm r => ({ s with fwhm := r }, .unit)

def runOps (s : FState) : List Op → FState × List Out
  | [] => (s, [])
  | op :: rest =>
    let r := step s op
    let r2 := runOps r.1 rest
    (r2.1, r.2 :: r2.2)

/-- the behaviour before the fix (kept for the counter-example in Props): with `is_fft=True` and
    `clean=False` the product with the kernel transform was written into the caller's data, i.e. the
    stored buffer became its circular convolution with the kernel. -/
def stepInPlace (s : FState) : Op → FState × Out
  | .smooth i c f =>
    match s.imgs[i]?, f, c with
    | some (.pre b), true, false =>
      let P := padShape s.bshape s.kshape
      let nb := (toList P (circConv P (imgOfArr P b) (pad s.kshape s.ker))).toArray
      ({ s with imgs := s.imgs.set i (.pre nb) }, smoothOut s i c f)
    | _, _, _ => (s, smoothOut s i c f)
  | op => step s op

/-! ### the `cov` branch of `_normsq`, as built -/

/-- `cholesky(cov)` fails → `LinAlgError`; otherwise `np.dot(inv(chol), _X)` with `_X` of shape
    `(3, n0, n1, n2)` contracts the matrix columns with the axis of length `n1`. -/
def covGuard (pd : Bool) (sh : Sh) : String :=
  if !pd then "error:linalgError" else if sh.n1 = 3 then "ok" else "error:valueError"

def V3.comp (v : V3) (j : Nat) : Rat := if j = 0 then v.x else if j = 1 then v.y else v.z

/-- as built with `n1 = 3`: the array handed to `exp` has shape `(3, n0, n2)`; entry `(j, a, c)` is
    `½ Σ_i (Σ_b W[i][b] · X_j(a, b, c)/σ_j)²` — world coordinate `j` along the second voxel axis. -/
def Geom.eCov (g : Geom) (j a c : Nat) : Rat :=
  let xs := fun (b : Nat) => (g.X a b c).comp j / g.sig.comp j
  let u := fun (row : V3) => row.x * xs 0 + row.y * xs 1 + row.z * xs 2
  (u g.wh.r0 * u g.wh.r0 + u g.wh.r1 * u g.wh.r1 + u g.wh.r2 * u g.wh.r2) / 2

def runCovKernel (pd : Bool) (g : Geom) : String :=
  if !g.ok then "error:degenerate" else
  let gd := covGuard pd g.sh
  if gd ≠ "ok" then gd else
  let s' : Sh := ⟨3, g.sh.n0, g.sh.n2⟩
  match cropBox s' (fun j a c => decide (g.eCov j a c ≤ 15)) with
  | none => "empty"
  | some bx =>
    let es := (List.range bx.k.n0).flatMap fun j => (List.range bx.k.n1).flatMap fun a =>
      (List.range bx.k.n2).map fun c =>
        let e := g.eCov (bx.lo.n0 + j) (bx.lo.n1 + a) (bx.lo.n2 + c)
        if e ≤ 15 then fmtRat e else "x"
    let kc : List Int := [(centre g.sh.n0 : Int) - bx.lo.n0, (centre g.sh.n1 : Int) - bx.lo.n1,
      (centre g.sh.n2 : Int) - bx.lo.n2]
    s!"{fmtSh bx.k} {fmtInts kc} {fmtSh (padShape g.sh bx.k)} | " ++ " ".intercalate es

/-! ### `_crop(X, tol)` on an arbitrary array -/

def absR (x : Rat) : Rat := if x < 0 then -x else x

/-- bounding box of `|X| > tol`; empty support ↦ corner `(s-1)//2`, a single zero voxel -/
def cropAbs (s : Sh) (X : Img) (tol : Rat) : Box × Bool :=
  match cropBox s (fun a b c => decide (tol < absR (X a b c))) with
  | some bx => (bx, true)
  | none => (⟨⟨(s.n0 - 1) / 2, (s.n1 - 1) / 2, (s.n2 - 1) / 2⟩, ⟨1, 1, 1⟩⟩, false)

def runCrop (s : Sh) (vals : List Rat) (tol : Rat) : String :=
  if vals.length ≠ s.size ∨ s.size = 0 then "bad-op" else
  let X := imgOfArr s vals.toArray
  let (bx, ne) := cropAbs s X tol
  let out := if ne then toList bx.k (fun a b c => X (bx.lo.n0 + a) (bx.lo.n1 + b) (bx.lo.n2 + c)) else [0]
  s!"{fmtSh bx.lo} {fmtSh bx.k} | " ++ fmtRats out

/-! ### margins of the "away from the borders" clauses -/

/-- a voxel `i` sees the whole kernel iff `marginLo ≤ i` and `i + marginHi < n` on every axis;
    `marginLo` is the extent of the kernel above its centre, `marginHi` the extent below it. -/
def marginLo (F : Filter) : Sh :=
  ⟨F.kshape.n0 - 1 - F.off.n0, F.kshape.n1 - 1 - F.off.n1, F.kshape.n2 - 1 - F.off.n2⟩
def marginHi (F : Filter) : Sh := F.off

/-- voxel `i` is at least the margins away from the borders -/
def interior (F : Filter) (i0 i1 i2 : Nat) : Prop :=
  ((marginLo F).n0 ≤ i0 ∧ i0 + (marginHi F).n0 < F.bshape.n0) ∧
  ((marginLo F).n1 ≤ i1 ∧ i1 + (marginHi F).n1 < F.bshape.n1) ∧
  ((marginLo F).n2 ≤ i2 ∧ i2 + (marginHi F).n2 < F.bshape.n2)

/-- content at `j` spreads inside the grid iff `marginHi ≤ j` and `j + marginLo < n` -/
def contentInterior (F : Filter) (j0 j1 j2 : Nat) : Prop :=
  ((marginHi F).n0 ≤ j0 ∧ j0 + (marginLo F).n0 < F.bshape.n0) ∧
  ((marginHi F).n1 ≤ j1 ∧ j1 + (marginLo F).n1 < F.bshape.n1) ∧
  ((marginHi F).n2 ≤ j2 ∧ j2 + (marginLo F).n2 < F.bshape.n2)

def runMargins (g : Geom) : String :=
  if !g.ok then "error:degenerate" else
  match cropBox g.sh g.supp with
  | none => "empty"
  | some bx =>
    let F : Filter := ⟨g.sh, bx.k, fun _ _ _ => 0, centreOff g.sh bx, 1, 1, 0⟩
    s!"{fmtSh (marginLo F)} {fmtSh (marginHi F)}"

/-! ### fwhm.py -/

/-- `pos_recipr` -/
def posRecipr (x : Rat) : Rat := if 0 < x then 1 / x else 0

def ratPow (x : Rat) : Nat → Rat
  | 0 => 1
  | n + 1 => ratPow x n * x

def det3 (A : M3) : Rat :=
  A.r0.x * (A.r1.y * A.r2.z - A.r1.z * A.r2.y) - A.r0.y * (A.r1.x * A.r2.z - A.r1.z * A.r2.x) +
    A.r0.z * (A.r1.x * A.r2.y - A.r1.y * A.r2.x)

/-- `wedge ** D = |det(affine)|` (the determinant of a homogeneous affine is that of its linear part;
    the D-th root is external) -/
def wedgePow (A : M3) : Rat := absR (det3 A)

/-- `Resels.fwhm2resel`; `c4` stands for `sqrt(4 log 2)`, `w` for `wedge` -/
def fwhm2resel (c4 w : Rat) (D : Nat) (f : Rat) : Rat := posRecipr (ratPow (f / c4 * w) D)

/-- `Resels.resel2fwhm`; `root` stands for `np.power(resels, 1/D)` (0 for NaN) -/
def resel2fwhm (c4 w root : Rat) : Rat := c4 * w * posRecipr root

/-- `astype(np.int32)` of a float: truncation toward zero -/
def truncInt (q : Rat) : Int := q.num.tdiv q.den

/-- `Resels.integrate`: total resels inside the mask and the voxel count -/
def integrate (resels : List Rat) (mask : Option (List Rat)) : Rat × Int :=
  match mask with
  | none => (resels.sum, resels.length)
  | some m =>
    let mi := m.map truncInt
    ((List.zipWith (fun r (k : Int) => r * (k : Rat)) resels mi).sum, mi.sum)

/-- `_calc_detlam` -/
def calcDetlam (xx yy zz yx zx zy : Rat) : Rat :=
  zz * (yy * xx - yx * yx) - zy * (zy * xx - zx * yx) + zx * (zy * yx - zx * yy)

/-! ### refusals -/

/-- what `smooth(arg)` does with its first argument before any arithmetic:
    `kind` = `image` (with `ndim` axes, data shape `ish`), `array` (an ndarray), `list`. -/
def argGuard (kind : String) (ndim : Nat) (ish bshape : Sh) : String :=
  if kind = "list" then "error:attributeError"            -- no `.ndim`
  else if ndim ≠ 3 then "error:notImplemented"            -- 4-D: "pending a rethink"; others: "expecting 3 or 4-d"
  else if kind = "array" then "error:attributeError"      -- no `.get_fdata`
  else if kind = "image" then
    -- `_buffer[slices] = indata`: NumPy broadcasting into the grid-shaped slot
    if (ish.n0 = bshape.n0 ∨ ish.n0 = 1) ∧ (ish.n1 = bshape.n1 ∨ ish.n1 = 1) ∧ (ish.n2 = bshape.n2 ∨ ish.n2 = 1)
    then "ok" else "error:valueError"
  else "bad-op"

/-- `fwhm` given as a sequence of `len` values (`0` = a scalar): `f[i]` for `i < 3` -/
def fwhmGuard (len : Nat) : String := if len = 0 ∨ 3 ≤ len then "ok" else "error:indexError"

/-- `ReselImage(resels, fwhm, coordmap=cm)` with 3-D arrays of `nres` / `nfwhm` elements (`0` = None), as
    built: `if not resels and not fwhm` (arrays with more than one element have no truth value; `and`
    short-circuits on a truthy one-element `resels`); with only one of the two given the missing image is
    built by `Image(…, coordmap=self.coordmap, **keywords)` where the keyword collides (`TypeError`). -/
def reselImageGuard (nres nfwhm : Nat) : String :=
  if nres > 1 then "error:valueError"
  else if nres = 0 then
    (if nfwhm = 1 then "error:typeError" else "error:valueError")
  else if nfwhm = 0 then "error:typeError" else "ok"

/-- `Resels.__iter__` / `ReselImage.__iter__` as built: the base class reads `self.resid` (never set) when
    there is no FWHM image and otherwise calls `Image(..., clobber=, mode=)` (keywords `Image` does not have);
    `ReselImage.__iter__` returns the object itself. -/
def iterGuard (reselImage hasFwhm : Bool) : String :=
  if reselImage then "self" else if hasFwhm then "error:typeError" else "error:attributeError"

/-! ### line protocol -/

def fmtOut : Out → String
  | .vals l => "v " ++ fmtRats l
  | .nonfinite => "nonfinite"
  | .unspecified => "unspecified"
  | .err s => s
  | .unit => "unit"

def pStored (n np : Nat) : P Stored := do
  let t ← pTok
  if t = "s" then do let v ← pMany pExt n; pure (.spatial v.toArray)
  else if t = "p" then do let b ← pMany pRat np; pure (.pre b.toArray)
  else failure

def pOp : P Op := do
  let t ← pTok
  if t = "smooth" then do let i ← pNat; let c ← pBool; let f ← pBool; pure (.smooth i c f)
  else if t = "norm" then do let k ← pTok; pure (.setNorm k)
  else if t = "scale" then do let r ← pRat; pure (.setScale r)
  else if t = "loc" then do let r ← pRat; pure (.setLoc r)
  else if t = "fwhm" then do let r ← pRat; pure (.setFwhm r)
  else failure

def fmtStored : Stored → String
  | .spatial v => "s " ++ " ".intercalate (v.toList.map fun e => match e with
      | .fin r => fmtRat r | .nan => "nan" | .pinf => "inf" | .ninf => "-inf")
  | .pre b => "p " ++ fmtRats b.toList

/-- `hist`: build the filter as `_setup_kernel` does (crop box recomputed from the geometry, the Gaussian
    values are the external `exp`), run the operations, answer every operation's result and the caller's
    images as they are afterwards. -/
def runHist (g : Geom) (k : Sh) (kv : List Rat) (l2 : Rat) (key : String) (scale loc fwhm : Rat)
    (imgs : List Stored) (ops : List Op) : String :=
  if !g.ok then "error:degenerate" else
  match cropBox g.sh g.supp with
  | none => "empty"
  | some bx =>
    if bx.k ≠ k then s!"kernel-shape-mismatch {fmtSh bx.k}"
    else if kv.length ≠ k.size then "bad-op"
    else
      let s : FState := ⟨g.sh, k, imgOfArr k kv.toArray, centreOff g.sh bx, l2, key, scale, loc, fwhm, imgs⟩
      let (s', outs) := runOps s ops
      " ; ".intercalate (outs.map fmtOut) ++ " || " ++ " ; ".intercalate (s'.imgs.map fmtStored)

def pHist : P String := do
  let g ← pGeom; let k ← pSh; let kv ← pMany pRat k.size; let l2 ← pRat; let key ← pTok
  let sc ← pRat; let lo ← pRat; let fw ← pRat
  let ni ← pNat
  let np := (padShape g.sh k).size
  let imgs ← pMany (pStored g.sh.size np) ni
  let ops ← pList pOp
  pure (runHist g k kv l2 key sc lo fw imgs ops)

def runB : Toks → String
  | "hist" :: rest =>
      match runP pHist rest with
      | some s => s
      | none => "bad-op"
  | "covkernel" :: rest =>
      match runP (do let pd ← pBool; let g ← pGeom; pure (pd, g)) rest with
      | some (pd, g) => runCovKernel pd g
      | none => "bad-op"
  | "crop" :: rest =>
      match runP (do let s ← pSh; let v ← pMany pRat s.size; let t ← pRat; pure (s, v, t)) rest with
      | some (s, v, t) => runCrop s v t
      | none => "bad-op"
  | "margins" :: rest =>
      match runP pGeom rest with
      | some g => runMargins g
      | none => "bad-op"
  | "norms" :: rest =>
      match runP (do let k ← pSh; let v ← pMany pRat k.size; pure (k, v)) rest with
      | some (k, v) =>
          let K := imgOfArr k v.toArray
          fmtRats [kerSum k K, l1Norm k K, sum3 k fun a b c => K a b c * K a b c]
      | none => "bad-op"
  | "widthsv" :: rest =>
      match runP (do let c ← pRat; let xs ← pList pRat; pure (c, xs)) rest with
      | some (c, xs) =>
          if c = 0 then "error:zeroDivision"
          else fmtRats (xs.map (fwhm2sigma c) ++ xs.map (sigma2fwhm c))
      | none => "bad-op"
  | "f2r" :: rest =>
      match runP (do let c ← pRat; let w ← pRat; let d ← pNat; let f ← pRat; pure (c, w, d, f)) rest with
      | some (c, w, d, f) => if c = 0 then "error:zeroDivision" else fmtRat (fwhm2resel c w d f)
      | none => "bad-op"
  | "r2f" :: rest =>
      match runP (do let c ← pRat; let w ← pRat; let d ← pNat; let root ← pRat; pure (c, w, d, root)) rest with
      | some (c, w, d, root) => fmtRats [resel2fwhm c w root, ratPow root d]
      | none => "bad-op"
  | "wedge" :: rest =>
      match runP pM3 rest with
      | some A => fmtRat (wedgePow A)
      | none => "bad-op"
  | "integrate" :: rest =>
      match runP (do
          let c ← pRat; let w ← pRat; let root ← pRat; let rs ← pList pRat
          let hm ← pBool
          let m ← if hm then (do let l ← pMany pRat rs.length; pure (some l)) else pure none
          pure (c, w, root, rs, m)) rest with
      | some (c, w, root, rs, m) =>
          let (tot, nv) := integrate rs m
          let mean := if nv = 0 then "undefined" else fmtRat (tot / (nv : Rat))
          s!"{fmtRat tot} {nv} {mean} {fmtRat (resel2fwhm c w root)}"
      | none => "bad-op"
  | "detlam" :: rest =>
      match runP (pMany pRat 6) rest with
      | some [xx, yy, zz, yx, zx, zy] => fmtRat (calcDetlam xx yy zz yx zx zy)
      | _ => "bad-op"
  | "argguard" :: rest =>
      match runP (do let k ← pTok; let nd ← pNat; let a ← pSh; let b ← pSh; pure (k, nd, a, b)) rest with
      | some (k, nd, a, b) => argGuard k nd a b
      | none => "bad-op"
  | "fwhmguard" :: rest =>
      match runP pNat rest with
      | some n => fwhmGuard n
      | none => "bad-op"
  | "reseliter" :: rest =>
      match runP (do let a ← pBool; let b ← pBool; pure (a, b)) rest with
      | some (a, b) => iterGuard a b
      | none => "bad-op"
  | "reselimage" :: rest =>
      match runP (do let a ← pNat; let b ← pNat; pure (a, b)) rest with
      | some (a, b) => reselImageGuard a b
      | none => "bad-op"
  | toks => run toks

end NipyVerif.C18
