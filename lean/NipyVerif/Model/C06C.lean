/-
C06 (wave 3) — the rest of `nipy/algorithms/statistics/empirical_pvalue.py`, the remaining contrast
arithmetic and the rarely used arguments of `Fcontrast`:

* `check_p_values` with NaN entries (`none` = NaN) and the refusal order of the code;
* `gaussian_fdr_threshold` (= `norm.isf ∘ fdr_threshold ∘ norm.sf`, both tails parameters);
* `NormalEmpiricalNull.learn`: the central subsample `x[int(n·left) : int(n·right)]` (Python slice
  semantics), the number of bins `max(10, int(range // step))`, the histogram counts for the edges
  NumPy chose, the "remove null bins" step **as written** (it masks with the already filtered
  histogram: an empty bin is an `IndexError`), and what happens after the `pinv` fit
  (`sqsigma = max(-1/(2c₂), 1e-6)`, `mu = c₁·sqsigma`, `p0 = min(1, exp lp0)`);
* `NormalEmpiricalNull.threshold` (as written, including the wrap-around of `x[-j + 1]` for `j = 1`)
  and `NormalEmpiricalNull.fdr(theta)`;
* `smoothed_histogram_from_samples`: widened edges, counts, density normalisation, filter width;
* `three_classes_GMM_fit` bookkeeping (prior means from the sorted tails, prior weights / scale / dof,
  the `bias` re-weighting, row normalisation) and the transposition in `gamma_gaussian_fit`;
* `Contrast.__div__` / labs `contrast.__div__`;
* `Fcontrast(matrix, dispersion, invcov)` with a supplied inverse.

`np.exp`, `np.log`, `np.std`, `np.var`, `pinv`, the mixture estimators and the Gaussian filter are
parameters: the harness hands over the values they produced.
-/
import NipyVerif.Model.C06B
namespace NipyVerif.C06

/-! ## `check_p_values` on arrays that may hold NaN -/

/-- `check_p_values` (array argument): NaN first, then the minimum, then the maximum; the empty
    array fails at `p_values.min()`.  `none` is a NaN entry. -/
def checkPN (l : List (Option Rat)) : Except String (List Rat) :=
  if l.any Option.isNone then .error "error:valueError"
  else match checkP (l.filterMap id) with
    | .error e => .error e
    | .ok () => .ok (l.filterMap id)

/-- `fdr` on such an array -/
def fdrN (l : List (Option Rat)) : Except String (List Rat) :=
  match checkPN l with
  | .error e => .error e
  | .ok p => fdr p

/-- `fdr_threshold` on such an array -/
def fdrThresholdN (alpha : Rat) (l : List (Option Rat)) : Except String Rat :=
  match checkPN l with
  | .error e => .error e
  | .ok p => fdrThreshold alpha p

/-- `gaussian_fdr_threshold(x, alpha) = norm.isf(fdr_threshold(norm.sf(x), alpha))` -/
def gaussianFdrThreshold (sf isf : Rat → Rat) (alpha : Rat) (x : List Rat) : Except String Rat :=
  match fdrThreshold alpha (x.map sf) with
  | .error e => .error e
  | .ok t => .ok (isf t)

/-! ## Python `int()` and slices -/

/-- `int(x)` of a finite float: truncation toward zero -/
def pyInt (x : Rat) : Int := if 0 ≤ x then x.floor else -((-x).floor)

/-- a slice bound `i` of a sequence of length `n` (step 1): negative values count from the end,
    everything is clipped to `[0, n]` -/
def sliceBound (n : Nat) (i : Int) : Nat :=
  if i < 0 then (i + (n : Int)).toNat else min i.toNat n

/-- `l[lo:hi]` -/
def pySlice {α : Type} (l : List α) (lo hi : Int) : List α :=
  (l.drop (sliceBound l.length lo)).take (sliceBound l.length hi - sliceBound l.length lo)

/-! ## `NormalEmpiricalNull.learn` -/

/-- binary64 values of the default cut parameters `left=0.2`, `right=0.8` of `learn` -/
def learnLeftDefault : Rat := mkRat 3602879701896397 (2 ^ 54)
def learnRightDefault : Rat := mkRat 3602879701896397 (2 ^ 52)
/-- binary64 value of the default `alpha=0.05` of `fdr_threshold` and `gaussian_fdr_threshold` -/
def alphaDefault : Rat := mkRat 3602879701896397 (2 ^ 56)

/-- the central subsample `self.x[int(self.n * left): int(self.n * right)]`; `a`, `b` are the values
    of the two float products -/
def learnSubsample (xs : List Rat) (a b : Rat) : List Rat := pySlice xs (pyInt a) (pyInt b)

/-- `bins = max(10, int((x.max() - x.min()) // step))`; a zero step (constant sample) is
    `0.0 // 0.0 = nan` (`ValueError` in `int`) or `inf` (`OverflowError`) -/
def learnBins (rangeV step : Rat) : Except String Nat :=
  if step = 0 then (if rangeV = 0 then .error "error:valueError" else .error "error:OverflowError")
  else .ok (max 10 (rangeV / step).floor.toNat)

/-- membership of `x` in the bin `[lo, hi)`, closed on the right for the last bin -/
def inBin (lo hi : Rat) (last : Bool) (x : Rat) : Bool :=
  decide (lo ≤ x) && (decide (x < hi) || (last && decide (x = hi)))

/-- `np.histogram(xs, edges)[0]`: half-open bins, the last one closed; samples outside are dropped -/
def histCounts : List Rat → List Rat → List Nat
  | lo :: hi :: rest, xs => xs.countP (inBin lo hi rest.isEmpty) :: histCounts (hi :: rest) xs
  | _, _ => []

/-- `medge = ledge + 0.5 * step` -/
def midEdges (edges : List Rat) (step : Rat) : List Rat := edges.map (· + step / 2)

/-- "remove null bins", as written:
    `hist = hist[hist > 0]` and then `medge = medge[:-1][hist > 0]` — the second mask is computed from
    the *filtered* histogram, so it is all-true and has the wrong length whenever a bin was empty
    (`IndexError: boolean index did not match`) — unless every bin was empty: a mask of length 0 is
    accepted and selects nothing. -/
def learnMask (counts : List Nat) (medge : List Rat) : Except String (List Nat × List Rat) :=
  let h := counts.filter (0 < ·)
  if h = [] then .ok ([], [])          -- NumPy accepts a boolean index of length 0 for any axis
  else if h.length ≠ medge.dropLast.length then .error "error:indexError"
  else .ok (h, medge.dropLast)

/-- binary64 value of the literal `1.e-6` (lower bound of the fitted variance) -/
def sqsigmaFloor : Rat := mkRat 4722366482869645 (2 ^ 72)

/-- after the least-squares fit `log hist ≈ c₀ + c₁ m + c₂ m²`:
    `sqsigma = max(-1/(2 c₂), 1e-6)`, `mu = c₁ · sqsigma`, `p0 = min(1, E)` with `E = exp(lp0)` -/
structure LearnFit where
  sqsigma : Rat
  mu : Rat
  p0 : Rat

def learnPost (c1 c2 E : Rat) : LearnFit :=
  let s := max (-1 / (2 * c2)) sqsigmaFloor
  { sqsigma := s, mu := c1 * s, p0 := min 1 E }

/-! ## `NormalEmpiricalNull.threshold` and `.fdr(theta)` -/

/-- number of leading entries below `alpha` -/
def leadBelow (alpha : Rat) : List Rat → Nat
  | [] => 0
  | v :: vs => if v < alpha then leadBelow alpha vs + 1 else 0

/-- `np.argmin(r < alpha)` of a boolean array: the first `False`, `0` when there is none -/
def argminBelow (alpha : Rat) (r : List Rat) : Nat :=
  if leadBelow alpha r = r.length then 0 else leadBelow alpha r

/-- `threshold(alpha)` given the sorted sample and its FDR curve, as written:
    `inf` (`none`) when the last value exceeds `alpha`; otherwise `j = argmin(efp[::-1] < alpha) + 1`
    and `0.5 * (x[-j] + x[-j + 1])` — for `j = 1` the second index is `0`, the *smallest* sample. -/
def enThreshold (alpha : Rat) (xs efp : List Rat) : Except String (Option Rat) :=
  match efp.reverse with
  | [] => .error "error:indexError"
  | e :: er =>
      if alpha < e then .ok none
      else
        let xr := xs.reverse
        let i := argminBelow alpha (e :: er)
        .ok (some ((xr.getD i 0 + (if i = 0 then xs.getD 0 0 else xr.getD (i - 1) 0)) / 2))

/-- `fdr(theta)` for one value: `0` above the largest sample; else the curve at the first sample
    `≥ theta`, or the direct estimate `p0·sf(theta)·n / #{x ≥ theta}` if that is larger; at most 1.
    `sfT` is the tail value at `theta`. -/
def enFdrAt (p0 sfT theta : Rat) (xs curve : List Rat) : Rat :=
  if xs.getLast?.getD 0 < theta then 0
  else
    let maj := xs.findIdx (fun x => decide (theta ≤ x))
    let cnt := xs.countP (fun x => decide (theta ≤ x))
    min (max (curve.getD maj 0) (p0 * sfT * (xs.length : Rat) / (cnt : Rat))) 1

/-! ## `smoothed_histogram_from_samples` -/

/-- binary64 value of the literal `1.2` -/
def widenFactor : Rat := mkRat 5404319552844595 (2 ^ 52)

/-- `bins.mean() + 1.2 * (bins - bins.mean())`; `m` is the value of the mean -/
def widenEdges (m f : Rat) (b : List Rat) : List Rat := b.map fun e => m + f * (e - m)

/-- `h /= (dc * h.sum())` -/
def normHist (dc : Rat) (h : List Nat) : List Rat := h.map fun (c : Nat) => (c : Rat) / (dc * ((h.sum : Nat) : Rat))

/-- `sigma = x.std() / (dc * np.exp(.2 * np.log(x.size)))`; `sd`, `e` the values of the two calls -/
def smoothSigma (sd dc e : Rat) : Rat := sd / (dc * e)

/-! ## `three_classes_GMM_fit` / `gamma_gaussian_fit` bookkeeping -/

/-- `np.mean` of a slice: NaN (`none`) for an empty one -/
def meanOpt (l : List Rat) : Option Rat := if l = [] then none else some (l.sum / (l.length : Rat))

structure GmmPriors where
  means : List (Option Rat)
  scale : Rat
  dof : List Rat
  weights : List Rat
  shrinkage : List Rat

/-- the priors handed to `VBGMM`: means of the lowest `int(alpha·n)` and of the highest
    `n - int((1-alpha)·n)` sorted values, and `0`; `a0`, `a1` are the two float products;
    `varx = np.var(x)` -/
def gmmPriors (sx : List Rat) (a0 a1 alpha ps varx : Rat) (fixedScale : Bool) : GmmPriors :=
  { means := [meanOpt (pySlice sx 0 (pyInt a0)), some 0, meanOpt (pySlice sx (pyInt a1) sx.length)]
    scale := if fixedScale then 1 / ps else 1 / (ps * varx)
    dof := [ps, ps, ps]
    weights := [alpha * ps, (1 - 2 * alpha) * ps, alpha * ps]
    shrinkage := [ps, ps, ps] }

/-- `(bfp.T / bfp.sum(1)).T` -/
def rowNormalise (rows : List (List Rat)) : List (List Rat) := rows.map fun r => r.map (· / r.sum)

/-- `bias`: `(lw / (weights / weights.sum())) * slikelihood(test)` -/
def gmmBias (lw w : List Rat) (sl : List (List Rat)) : List (List Rat) :=
  let f := List.zipWith (fun a b => a / (b / w.sum)) lw w
  sl.map fun r => List.zipWith (· * ·) f r

/-- `np.array(Ggg.posterior(test)).T` -/
def posteriorT (post : List (List Rat)) : List (List Rat) := transpose post

/-! ## `Fcontrast(matrix, dispersion, invcov)` -/

/-- with a supplied `invcov` the code uses it as it is (and reports `df_num = invcov.shape[0]`) -/
def fStatGiven {q p : Nat} (W : Mat q q) (M : Mat q p) (theta : Vec p) (disp : Rat) : Rat :=
  fStat W M theta disp

/-! ## driver -/

def pOptRat : P (Option Rat) := do
  let t ← pTok
  if t = "nan" then pure none else
  match parseRat t with
  | some x => pure (some x)
  | none => failure

def fmtOptRat : Option Rat → String
  | none => "nan"
  | some x => fmtRat x

def fmtRows (rows : List (List Rat)) : String := " ; ".intercalate (rows.map fmtRats)

def pRows : P (List (List Rat)) := do
  let r ← pNat; let c ← pNat
  pMany (pMany pRat c) r

def runC : Toks → String
  -- check_p_values / fdr / fdr_threshold with NaN entries: n (nan | rat)…
  | "chkp" :: rest =>
      match runP (pList pOptRat) rest with
      | some l => fmtExcept ((checkPN l).map fun p => "ok " ++ fmtRats p)
      | none => "bad-op"
  | "fdrn" :: rest =>
      match runP (pList pOptRat) rest with
      | some l => fmtExcept ((fdrN l).map fmtRats)
      | none => "bad-op"
  | "fdrthrn" :: rest =>
      match runP (do let a ← pRat; let l ← pList pOptRat; pure (a, l)) rest with
      | some (a, l) => fmtExcept ((fdrThresholdN a l).map fmtRat)
      | none => "bad-op"
  -- gaussian_fdr_threshold with the tail values handed in: the argument of norm.isf
  | "gfdrthr" :: rest =>
      match runP (do let a ← pRat; let p ← pList pRat; pure (a, p)) rest with
      | some (a, p) => fmtExcept ((gaussianFdrThreshold (fun x => x) (fun x => x) a p).map fmtRat)
      | none => "bad-op"
  -- learn, first half: sorted sample, n·left, n·right, range, step → subsample | bins
  | "ensub" :: rest =>
      match runP (do let xs ← pList pRat; let a ← pRat; let b ← pRat; let rg ← pRat; let st ← pRat
                     pure (xs, a, b, rg, st)) rest with
      | some (xs, a, b, rg, st) =>
          s!"{fmtRats (learnSubsample xs a b)} | " ++ fmtExcept ((learnBins rg st).map toString)
      | none => "bad-op"
  -- learn, histogram: subsample, edges, step → counts | mask outcome (kept counts ; kept mid-edges)
  | "enhist" :: rest =>
      match runP (do let xs ← pList pRat; let e ← pList pRat; let st ← pRat; pure (xs, e, st)) rest with
      | some (xs, e, st) =>
          let c := histCounts e xs
          s!"{fmtNats c} | " ++ fmtExcept ((learnMask c (midEdges e st)).map fun r =>
            s!"{fmtNats r.1} ; {fmtRats r.2}")
      | none => "bad-op"
  -- learn, after the fit: c1 c2 E → sqsigma mu p0
  | "enfit" :: rest =>
      match runP (do let c1 ← pRat; let c2 ← pRat; let e ← pRat; pure (c1, c2, e)) rest with
      | some (c1, c2, e) => let r := learnPost c1 c2 e; fmtRats [r.sqsigma, r.mu, r.p0]
      | none => "bad-op"
  -- threshold: alpha, sorted sample, curve
  | "enthr" :: rest =>
      match runP (do let a ← pRat; let xs ← pList pRat; let e ← pList pRat; pure (a, xs, e)) rest with
      | some (a, xs, e) =>
          if xs.length ≠ e.length then "bad-op" else
          fmtExcept ((enThreshold a xs e).map fun r => match r with | none => "inf" | some t => fmtRat t)
      | none => "bad-op"
  -- fdr(theta): p0 sf(theta) theta, sorted sample, curve
  | "enfdr" :: rest =>
      match runP (do let p0 ← pRat; let s ← pRat; let th ← pRat; let xs ← pList pRat; let e ← pList pRat
                     pure (p0, s, th, xs, e)) rest with
      | some (p0, s, th, xs, e) =>
          if xs.length ≠ e.length ∨ xs = [] then "bad-op" else fmtRat (enFdrAt p0 s th xs e)
      | none => "bad-op"
  -- smoothed histogram: bins-given flag, samples, first edges, mean, final edges, normalized, sd, e
  | "shist" :: rest =>
      match runP (do let given ← pBool; let xs ← pList pRat; let b0 ← pList pRat; let m ← pRat; let e ← pList pRat
                     let nrm ← pBool; let sd ← pRat; let ex ← pRat; pure (given, xs, b0, m, e, nrm, sd, ex)) rest with
      | some (given, xs, b0, m, e, nrm, sd, ex) =>
          -- as written, `h` is only computed when no bins are handed in
          if given then "error:UnboundLocalError" else
          if e.length < 2 then "bad-op" else
          let c := histCounts e xs
          let dc := e.getD 1 0 - e.getD 0 0
          let h : List Rat := if nrm then normHist dc c else c.map fun (k : Nat) => (k : Rat)
          s!"{fmtRats (widenEdges m widenFactor b0)} | {fmtRats h} | {fmtRat (smoothSigma sd dc ex)}"
      | none => "bad-op"
  -- GMM priors: sorted sample, alpha·n, (1-alpha)·n, alpha, prior_strength, var, fixed_scale
  | "gmmpri" :: rest =>
      match runP (do let sx ← pList pRat; let a0 ← pRat; let a1 ← pRat; let al ← pRat; let ps ← pRat
                     let vx ← pRat; let fs ← pBool; pure (sx, a0, a1, al, ps, vx, fs)) rest with
      | some (sx, a0, a1, al, ps, vx, fs) =>
          let r := gmmPriors sx a0 a1 al ps vx fs
          s!"{" ".intercalate (r.means.map fmtOptRat)} | {fmtRat r.scale} | {fmtRats r.dof} | {fmtRats r.weights} | {fmtRats r.shrinkage}"
      | none => "bad-op"
  -- row normalisation of the likelihoods
  | "gmmnorm" :: rest =>
      match runP pRows rest with
      | some rows => fmtRows (rowNormalise rows)
      | none => "bad-op"
  -- bias re-weighting, then row normalisation: lw, weights, slikelihood rows
  | "gmmbias" :: rest =>
      match runP (do let lw ← pList pRat; let w ← pList pRat; let sl ← pRows; pure (lw, w, sl)) rest with
      | some (lw, w, sl) => fmtRows (rowNormalise (gmmBias lw w sl))
      | none => "bad-op"
  | "ggpost" :: rest =>
      match runP pRows rest with
      | some rows => fmtRows (posteriorT rows)
      | none => "bad-op"
  -- __div__ on a contrast: impl <obj> k r
  | "cdiv" :: rest =>
      match runP (do let impl ← pImpl; let o ← pObj impl; let k ← pRat; let r ← pRat; pure (o, k, r)) rest with
      | some (⟨_, c⟩, k, r) =>
          if k ≠ 0 ∧ !isRecip k r then "error:recip-input" else fmtExceptObj (c.div k r)
      | none => "bad-op"
  -- Fcontrast with a supplied invcov, one voxel: p θ cov disp q M qw W
  | "fcon2" :: rest =>
      match runP (do let p ← pNat; let th ← pMany pRat p; let cov ← pMany (pMany pRat p) p
                     let d ← pRat; let q ← pNat; let m ← pMany (pMany pRat p) q
                     let qw ← pNat; let w ← pMany (pMany pRat qw) qw
                     pure (p, th, cov, d, q, m, qw, w)) rest with
      | some (p, th, cov, d, q, m, qw, w) =>
          if qw ≠ q then "error:valueError" else
          let M := matOfLists q p m
          let theta := vecOfList p th
          fmtRats ([fStatGiven (matOfLists q q w) M theta d, (qw : Rat)] ++ List.ofFn (mulVec M theta)
                   ++ (matToLists (vcov M (matOfLists p p cov) d)).flatten)
      | none => "bad-op"
  | toks => runB toks

end NipyVerif.C06
