/-
C13 (part S) — Markov-random-field segmentation:
  nipy/algorithms/segmentation/mrf.c           `make_edges`, `interaction_energy`
  nipy/algorithms/segmentation/segmentation.py `map_from_ppm` (both mask options), `vm_step`,
      `ve_step` (β = 0 branch and the C sweep), `run`, and the ownership of the posterior map
      handed to `Segmentation.__init__`.

A 3-d index grid is a `Grid` with one class (`K = 1`): `flatPos` is then the flat voxel index and
`posOk` the test `!(pos < 0 || pos >= u0)` of `make_edges`.
-/
import NipyVerif.Model.C13
import NipyVerif.Gen.C13Tables
namespace NipyVerif.C13

/-! ### `make_edges` -/

def grid3 (X Y Z : Nat) : Grid := ⟨X, Y, Z, 1⟩

/-- all voxels in C order (the order of `PyArray_IterNew`) -/
def allVoxels (g : Grid) : List (Nat × Nat × Nat) :=
  (List.range g.X).flatMap (fun x => (List.range g.Y).flatMap (fun y => (List.range g.Z).map (fun z => (x, y, z))))

/-- `idx[voxel]` (negative = outside the mask) -/
def idxAt (g : Grid) (idx : Array Int) (v : Nat × Nat × Nat) : Int := idx.getD (voxIdx g v) (-1)

/-- flat position of the neighbour `v + o` : `pos = xj*u1 + yj*u2 + zj` -/
def ngbPos (g : Grid) (v : Nat × Nat × Nat) (o : Int × Int × Int) : Int :=
  flatPos g ((v.1 : Int) + o.1) ((v.2.1 : Int) + o.2.1) ((v.2.2 : Int) + o.2.2)

/-- the edge towards offset `o`, if stored -/
def edgeTo (g : Grid) (idx : Array Int) (v : Nat × Nat × Nat) (o : Int × Int × Int) : Option (Int × Int) :=
  let pos := ngbPos g v o
  if posOk g pos then
    let j := idx.getD pos.toNat (-1)
    if j < 0 then none else some (idxAt g idx v, j)
  else none

/-- edges stored while the iterator is at voxel `v` -/
def edgesAt (g : Grid) (idx : Array Int) (ngb : List (Int × Int × Int)) (v : Nat × Nat × Nat) :
    List (Int × Int) :=
  if idxAt g idx v < 0 then [] else ngb.filterMap (edgeTo g idx v)

/-- `make_edges(idx, ngb_size)`: rows of the returned `(n_edges, 2)` array, in order -/
def makeEdges (g : Grid) (idx : Array Int) (ngb : List (Int × Int × Int)) : List (Int × Int) :=
  (allVoxels g).flatMap (edgesAt g idx ngb)

/-- `mask_size` of the first loop: the number of voxels with a non-negative index -/
def maskSize (g : Grid) (idx : Array Int) : Nat :=
  ((allVoxels g).filter (fun v => decide (0 ≤ idxAt g idx v))).length

/-- the geometric neighbour `v + o`, when it lies in the grid -/
def ngbVoxel (g : Grid) (v : Nat × Nat × Nat) (o : Int × Int × Int) : Option (Nat × Nat × Nat) :=
  let x := (v.1 : Int) + o.1; let y := (v.2.1 : Int) + o.2.1; let z := (v.2.2 : Int) + o.2.2
  if 0 ≤ x ∧ x < g.X ∧ 0 ≤ y ∧ y < g.Y ∧ 0 ≤ z ∧ z < g.Z then some (x.toNat, y.toNat, z.toNat) else none

/-- a voxel that is not on the border of the grid -/
def interior (g : Grid) (v : Nat × Nat × Nat) : Prop :=
  1 ≤ v.1 ∧ v.1 + 1 < g.X ∧ 1 ≤ v.2.1 ∧ v.2.1 + 1 < g.Y ∧ 1 ≤ v.2.2 ∧ v.2.2 + 1 < g.Z

/-- offsets of a neighbourhood system are unit steps -/
def unitOffsets (ngb : List (Int × Int × Int)) : Prop :=
  ∀ o ∈ ngb, -1 ≤ o.1 ∧ o.1 ≤ 1 ∧ -1 ≤ o.2.1 ∧ o.2.1 ≤ 1 ∧ -1 ≤ o.2.2 ∧ o.2.2 ≤ 1

/-! ### `map_from_ppm` -/

/-- `x = zeros(uint8); if mask is None: mask = <default>; x[mask] = ppm[mask].argmax(-1) + 1`.
    The default mask is read from the source text (`Gen.C13.mapDefaultMaskAllTrue`); `none` = the code
    does not label all voxels by default. -/
def mapFromPpm (mask : Option (Nat → Bool)) (K : Nat) (ppm : Nat → Nat → Rat) (v : Nat) : Option Nat :=
  match mask with
  | some m => some (mapLabel (m v) K (ppm v) % 256)
  | none => if Gen.C13.mapDefaultMaskAllTrue then some (mapLabel true K (ppm v) % 256) else none

/-- `binarize_ppm(q)` for one row of a masked posterior map: the indicator of the arg-max class -/
def binarizeRow (K : Nat) (row : Nat → Rat) (c : Nat) : Rat := if c = argmax row K then 1 else 0

/-! ### `vm_step` -/

/-- `Z = nonzero(P.sum())`, `nonzero = max(·, 1e-50)` -/
def vmZ (tiny : Rat) (n : Nat) (p : Nat → Rat) : Rat := max (sumTo n p) tiny

/-- `mu = (data.T * P).sum(1) / Z` -/
def vmMu (tiny : Rat) (n : Nat) (p : Nat → Rat) (x : Nat → Nat → Rat) (j : Nat) : Rat :=
  sumTo n (fun i => x i j * p i) / vmZ tiny n p

/-- `sigma = dot(data.T * P, data) / Z − mu muᵀ` -/
def vmSigma (tiny : Rat) (n : Nat) (p : Nat → Rat) (x : Nat → Nat → Rat) (j l : Nat) : Rat :=
  sumTo n (fun i => x i j * p i * x i l) / vmZ tiny n p - vmMu tiny n p x j * vmMu tiny n p x l

/-- `vm_step(freeze)`: frozen classes keep their parameters -/
def vmStepMu (tiny : Rat) (n : Nat) (frozen : Nat → Bool) (post : Nat → Nat → Rat) (x : Nat → Nat → Rat)
    (old : Nat → Nat → Rat) (c j : Nat) : Rat :=
  if frozen c then old c j else vmMu tiny n (fun i => post i c) x j

/-! ### `interaction_energy` and the β = 0 branch of `ve_step` -/

/-- `Σ_i q_iᵀ Σ_{j ∈ N(i)} U q_j` -/
def interactionEnergy (g : Grid) (ppm U : Array Rat) (ngb : List (Int × Int × Int))
    (pts : List (Nat × Nat × Nat)) : Rat :=
  (pts.map (fun v =>
    dot (readRow ppm (flatPos g v.1 v.2.1 v.2.2).toNat g.K) (ngbIntegrate g ppm U v.1 v.2.1 v.2.2 ngb))).sum

/-- `f /= f.sum(0)` of `normalized_external_field` (the exponentials are parameters) -/
def normalizeRow (f : List Rat) : List Rat := f.map (fun v => v / f.sum)

/-- `BrainT1Segmentation.convert`: `np.dot(ppm, mixmat)` for one voxel (`K` classes to `C` tissues) -/
def convertRow (K : Nat) (M : Nat → Nat → Rat) (row : Nat → Rat) (c : Nat) : Rat :=
  sumTo K (fun k => row k * M k c)

/-! ### Operation histories of a `Segmentation` object -/

/-- `ve`: one `ve_step` given, per in-mask voxel, the exponential transforms and the reference row
    (for β = 0 the transforms are all 1: the map becomes the normalised external field);
    `vm`: one `vm_step` (does not touch the posterior map). -/
inductive SegOp where
  | ve (pts : List Pt)
  | vm

def segStep (g : Grid) (tiny : Rat) (U : Array Rat) (ngb : List (Int × Int × Int)) (ppm : Array Rat) :
    SegOp → Array Rat
  | .ve pts => (veStep g tiny U ngb ppm pts).1
  | .vm => ppm

def segRun (g : Grid) (tiny : Rat) (U : Array Rat) (ngb : List (Int × Int × Int)) :
    Array Rat → List SegOp → Array Rat
  | ppm, [] => ppm
  | ppm, op :: rest => segRun g tiny U ngb (segStep g tiny U ngb ppm op) rest

/-- `run(niters)`: `vm` first when the object was built from a posterior map, then `niters × (ve; vm)` -/
def runOps (isPpm : Bool) (ves : List (List Pt)) : List SegOp :=
  (if isPpm then [SegOp.vm] else []) ++ ves.flatMap (fun p => [SegOp.ve p, SegOp.vm])

/-! ### Ownership of the posterior map given to `Segmentation(data, ppm=…)` -/

/-- arrays by address -/
abbrev Heap := List (Array Rat)

/-- `__init__`, `ppm` branch: `self.ppm = np.array(ppm, …)` (a new array) or an alias of the caller's
    array — which of the two is read from the source (`Gen.C13.segPpmCopied`).  Returns the heap and the
    address of `self.ppm`. -/
def segInit (h : Heap) (caller : Nat) : Heap × Nat :=
  if Gen.C13.segPpmCopied then (h ++ [h.getD caller #[]], h.length) else (h, caller)

/-- a history of operations writes only through `self.ppm` -/
def segRunHeap (g : Grid) (tiny : Rat) (U : Array Rat) (ngb : List (Int × Int × Int))
    (st : Heap × Nat) (ops : List SegOp) : Heap :=
  st.1.set st.2 (segRun g tiny U ngb (st.1.getD st.2 #[]) ops)

/-! ### Line protocol -/

def fmtEdges (es : List (Int × Int)) : String :=
  " ".intercalate (es.map (fun e => s!"{e.1},{e.2}"))

def runS : Toks → String
  | "edges" :: rest =>
      match runP (do
          let x ← pNat; let y ← pNat; let z ← pNat; let nn ← pNat
          let idx ← pMany pInt (x * y * z)
          pure (x, y, z, nn, idx)) rest with
      | some (x, y, z, nn, idx) =>
          match ngbOf nn with
          | some ngb =>
              let g := grid3 x y z
              let es := makeEdges g idx.toArray ngb
              s!"{maskSize g idx.toArray} {es.length} | " ++ fmtEdges es
          | none => "error:unknown-neighborhood"
      | none => "bad-op"
  | "map" :: rest =>
      match runP (do
          let hm ← pBool; let nv ← pNat; let k ← pNat
          let mask ← if hm then pMany pBool nv else pure []
          let ppm ← pMany (pMany pRat k) nv
          pure (hm, nv, k, mask, ppm)) rest with
      | some (hm, nv, k, mask, ppm) =>
          if k = 0 then "bad-op" else
          let ma := mask.toArray
          let pa := ofMat (toMat ppm)
          let m : Option (Nat → Bool) := if hm then some (fun v => ma.getD v false) else none
          let labs := (List.range nv).map (mapFromPpm m k pa)
          if labs.all Option.isSome then fmtNats (labs.map (fun o => o.getD 0)) else "error:no-default-labelling"
      | none => "bad-op"
  | "vm" :: rest =>
      match runP (do
          let n ← pNat; let c ← pNat; let k ← pNat; let t ← pRat
          let x ← pMany (pMany pRat c) n; let p ← pMany (pMany pRat k) n
          pure (n, c, k, t, x, p)) rest with
      | some (n, c, k, t, x, p) =>
          let xa := ofMat (toMat x); let pa := ofMat (toMat p)
          let ks := List.range k; let js := List.range c
          let mus := ks.flatMap (fun q => js.map (vmMu t n (fun i => pa i q) xa))
          let sig := ks.flatMap (fun q => js.flatMap (fun j => js.map (vmSigma t n (fun i => pa i q) xa j)))
          sections [mus, sig]
      | none => "bad-op"
  | "energy" :: rest =>
      match runP (do
          let x ← pNat; let y ← pNat; let z ← pNat; let k ← pNat; let nn ← pNat
          let u ← pMany pRat (k * k); let ppm ← pMany pRat (x * y * z * k)
          let pts ← pList pVox
          pure (Grid.mk x y z k, nn, u, ppm, pts)) rest with
      | some (g, nn, u, ppm, pts) =>
          match ngbOf nn with
          | some ngb =>
              if pts.all (fun p => decide (p.1 < g.X) && decide (p.2.1 < g.Y) && decide (p.2.2 < g.Z))
              then fmtRat (interactionEnergy g ppm.toArray u.toArray ngb pts) else "bad-op"
          | none => "error:unknown-neighborhood"
      | none => "bad-op"
  | "binar" :: rest =>
      match runP (do let n ← pNat; let k ← pNat; let q ← pMany (pMany pRat k) n; pure (n, k, q)) rest with
      | some (n, k, q) =>
          if k = 0 then "bad-op" else
          let qa := ofMat (toMat q)
          fmtRats ((List.range n).flatMap (fun i => (List.range k).map (binarizeRow k (qa i))))
      | none => "bad-op"
  | "convert" :: rest =>
      match runP (do
          let k ← pNat; let c ← pNat
          let m ← pMany (pMany pRat c) k; let r ← pMany pRat k
          pure (k, c, m, r)) rest with
      | some (k, c, m, r) =>
          fmtRats ((List.range c).map (convertRow k (ofMat (toMat m)) (ofArr r.toArray)))
      | none => "bad-op"
  | "alias" :: [] => if (segInit [#[]] 0).2 = 0 then "aliased" else "copied"
  | _ => "bad-op"

end NipyVerif.C13
